import NeatviVerif.Lemmas.C08bLed
/-!
# C08 (insert mode): the reference semantics of the insert-mode keys, as an edit script

An insert session is a list of events (`Ev`): typed text (code points, sent as UTF-8), backspace,
`^U`, `^W`, `^V c`, `^T`, `^D`.  `runScript` is the reference: what the events do to the text and to
the auto-indent.  `ledSim_script` shows that `ledSim` (hence `led_line`) computes it.
-/
namespace Neatvi.Lemmas.C08b
open Neatvi Neatvi.Uc Neatvi.Vi Neatvi.Spec Neatvi.Lemmas.C09

/-- a code point that can be typed as text: valid, not a control character, not DEL -/
def Typable (c : Nat) : Prop := ValidCp c ∧ 32 ≤ c ∧ c ≠ 127

theorem takeWhile_all {α : Type} (p : α → Bool) : ∀ (l : List α), (∀ x ∈ l, p x = true) → l.takeWhile p = l := by
  intro l
  induction l with
  | nil => intro _; rfl
  | cons a t ih =>
    intro h
    rw [List.takeWhile_cons, h a (by simp), if_pos rfl, ih (fun x hx => h x (by simp [hx]))]

/-! ### one step of `ledSim` -/

theorem ledSim_end (pe : Bool) (aiMax f : Nat) (e : Nat) (ks sb ai : Bytes) (he : e = 10 ∨ e = 27 ∨ e = 3) :
    ledSim pe aiMax (f + 1) (e :: ks) sb ai = some (sb, e, ai, ks) := by
  unfold ledSim
  rcases he with rfl | rfl | rfl <;> simp

theorem ledSim_bs (pe : Bool) (aiMax f : Nat) (k : Nat) (ks sb ai : Bytes) (hk : k = 8 ∨ k = 127) :
    ledSim pe aiMax (f + 1) (k :: ks) sb ai =
      ledSim pe aiMax f ks (if sb.isEmpty then sb else sb.take (lastChar sb)) ai := by
  rw [ledSim.eq_def]
  simp only []
  rw [if_pos hk]

theorem ledSim_killline (pe : Bool) (aiMax f : Nat) (ks sb ai : Bytes) :
    ledSim pe aiMax (f + 1) (21 :: ks) sb ai = ledSim pe aiMax f ks [] ai := by
  rw [ledSim.eq_def]
  simp

theorem ledSim_killword (pe : Bool) (aiMax f : Nat) (ks sb ai : Bytes) :
    ledSim pe aiMax (f + 1) (23 :: ks) sb ai =
      ledSim pe aiMax f ks (if sb.isEmpty then sb else sb.take (lastWord sb)) ai := by
  rw [ledSim.eq_def]
  simp

theorem ledSim_ctrlT (pe : Bool) (aiMax f : Nat) (ks sb ai : Bytes) :
    ledSim pe aiMax (f + 1) (20 :: ks) sb ai =
      ledSim pe aiMax f ks sb (if ai.length < aiMax then ai ++ [9] else ai) := by
  rw [ledSim.eq_def]
  simp

theorem ledSim_ctrlD (pe : Bool) (aiMax f : Nat) (ks sb ai : Bytes) :
    ledSim pe aiMax (f + 1) (4 :: ks) sb ai =
      ledSim pe aiMax f ks (if ai.isEmpty && pe && isBlankC (sb.headD 0) then sb.drop 1 else sb) ai.dropLast := by
  rw [ledSim.eq_def]
  simp

theorem ledSim_literal (pe : Bool) (aiMax f : Nat) (d : Nat) (ks sb ai : Bytes) :
    ledSim pe aiMax (f + 1) (22 :: d :: ks) sb ai =
      ledSim pe aiMax f ks (sb ++ (if d % 256 == 0 then [] else [d % 256])) ai := by
  rw [ledSim.eq_def]
  simp

/-- an ordinary ASCII key (also TAB and the control characters that are not editing keys) -/
theorem ledSim_ascii (pe : Bool) (aiMax f : Nat) (k : Nat) (ks sb ai : Bytes)
    (hk : 32 ≤ k ∧ k < 127 ∨ k = 9) :
    ledSim pe aiMax (f + 1) (k :: ks) sb ai = ledSim pe aiMax f ks (sb ++ [k]) ai := by
  rw [ledSim.eq_def]
  simp only []
  rw [if_neg (by omega), if_neg (by omega), if_neg (by omega), if_neg (by omega), if_neg (by omega),
    if_neg (by omega), if_neg (by omega), if_neg (by omega), if_pos (by omega)]

/-- a typable character, sent as its UTF-8 bytes -/
theorem ledSim_char (pe : Bool) (aiMax f : Nat) (c : Nat) (ks sb ai : Bytes) (hc : Typable c) :
    ledSim pe aiMax (f + 1) (enc c ++ ks) sb ai = ledSim pe aiMax f ks (sb ++ enc c) ai := by
  obtain ⟨hv, h32, h127⟩ := hc
  by_cases hlt : c < 128
  · have : enc c = [c] := by unfold enc; rw [if_pos hlt]
    rw [this]
    exact ledSim_ascii pe aiMax f c ks sb ai (by omega)
  · obtain ⟨a, t, he, hch⟩ := enc_chr hv
    have hlen := Props.C16.len_enc hv
    rw [he] at hlen
    simp only [Bytes.hd_cons, List.length_cons] at hlen
    have ha : 192 ≤ a := by
      rcases hch.lead with ⟨h1, h2⟩ | h1
      · exfalso
        unfold enc at he
        rw [if_neg (by omega)] at he
        split at he
        · injection he with he1 _; omega
        split at he
        · injection he with he1 _; omega
        · injection he with he1 _; omega
      · exact h1
    rw [he, List.cons_append, ledSim.eq_def]
    simp only []
    rw [if_neg (by omega), if_neg (by omega), if_neg (by omega), if_neg (by omega), if_neg (by omega),
      if_neg (by omega), if_neg (by omega), if_neg (by omega), if_neg (by omega),
      if_neg (by simp only [List.length_append]; omega)]
    have e1 : (t ++ ks).take (ucLen a - 1) = t := by
      rw [hlen, show t.length + 1 - 1 = t.length by omega, List.take_left']
      rfl
    have e2 : (t ++ ks).drop (ucLen a - 1) = ks := by
      rw [hlen, show t.length + 1 - 1 = t.length by omega, List.drop_left']
      rfl
    rw [e1, e2]
    have e3 : t.map (· % 256) = t := by
      rw [List.map_congr_left (g := id)]
      · simp
      · intro x hx; have := hch.tl x hx; simp only [id]; omega
    rw [e3]
    have e4 : (a :: t).takeWhile (· != 0) = a :: t := by
      apply takeWhile_all
      intro x hx
      have : 0 < x := by
        rcases List.mem_cons.mp hx with rfl | hx
        · omega
        · have := hch.tl x hx; omega
      simp; omega
    rw [e4]

/-- typed text -/
theorem ledSim_text (pe : Bool) (aiMax : Nat) : ∀ (cs : List Nat) (f : Nat) (ks sb ai : Bytes),
    (∀ c ∈ cs, Typable c) →
    ledSim pe aiMax (f + cs.length) (encStr cs ++ ks) sb ai = ledSim pe aiMax f ks (sb ++ encStr cs) ai := by
  intro cs
  induction cs with
  | nil => intro f ks sb ai _; simp
  | cons c cs ih =>
    intro f ks sb ai h
    rw [encStr_cons, List.append_assoc, List.length_cons, ← Nat.add_assoc,
      ledSim_char pe aiMax _ c _ sb ai (h c (by simp)), ih f ks _ ai (fun d hd => h d (by simp [hd]))]
    rw [List.append_assoc]

/-- ASCII text is its own encoding -/
theorem encStr_ascii : ∀ (w : Bytes), (∀ b ∈ w, b < 128) → encStr w = w := by
  intro w
  induction w with
  | nil => intro _; rfl
  | cons b w ih =>
    intro h
    rw [encStr_cons, ih (fun x hx => h x (by simp [hx]))]
    have : enc b = [b] := by unfold enc; rw [if_pos (h b (by simp))]
    rw [this]; rfl

theorem typable_of_plain {b : Nat} (h : 32 ≤ b ∧ b < 127) : Typable b :=
  ⟨⟨by omega, by omega⟩, h.1, by omega⟩

/-! ### edit scripts -/

/-- the events of an insert session -/
inductive Ev where
  | text (cs : List Nat)    -- typed characters (code points)
  | bs                      -- ^H
  | del                     -- DEL
  | killLine                -- ^U
  | killWord                -- ^W
  | lit (d : Nat)           -- ^V d
  | indent                  -- ^T
  | unindent                -- ^D

/-- the keys an event sends -/
def Ev.keys : Ev → Bytes
  | .text cs => encStr cs
  | .bs => [8]
  | .del => [127]
  | .killLine => [21]
  | .killWord => [23]
  | .lit d => [22, d]
  | .indent => [20]
  | .unindent => [4]

/-- iterations of the loop of `led_line` an event takes -/
def Ev.steps : Ev → Nat
  | .text cs => cs.length
  | _ => 1

def Ev.ok : Ev → Prop
  | .text cs => ∀ c ∈ cs, Typable c
  | _ => True

/-- **reference semantics**: what an event does to (text typed so far, auto-indent).  `pe`: the text
before the insertion point is empty; `aiMax`: the bound on the auto-indent -/
def Ev.apply (pe : Bool) (aiMax : Nat) : Ev → Bytes × Bytes → Bytes × Bytes
  | .text cs, (sb, ai) => (sb ++ encStr cs, ai)
  | .bs, (sb, ai) => (sb.take (lastChar sb), ai)
  | .del, (sb, ai) => (sb.take (lastChar sb), ai)
  | .killLine, (_, ai) => ([], ai)
  | .killWord, (sb, ai) => (sb.take (lastWord sb), ai)
  | .lit d, (sb, ai) => (sb ++ (if d % 256 == 0 then [] else [d % 256]), ai)
  | .indent, (sb, ai) => (sb, if ai.length < aiMax then ai ++ [9] else ai)
  | .unindent, (sb, ai) => (if ai.isEmpty && pe && isBlankC (sb.headD 0) then sb.drop 1 else sb, ai.dropLast)

def scriptKeys (evs : List Ev) : Bytes := evs.flatMap Ev.keys
def scriptSteps (evs : List Ev) : Nat := (evs.map Ev.steps).sum
def runScript (pe : Bool) (aiMax : Nat) (evs : List Ev) (st : Bytes × Bytes) : Bytes × Bytes :=
  evs.foldl (fun st e => e.apply pe aiMax st) st

theorem lastChar_nil : lastChar [] = 0 := rfl
theorem lastWord_nil : lastWord [] = 0 := rfl

theorem take_last_of_isEmpty (sb : Bytes) (n : Nat) (h : sb = [] → n = 0) :
    (if sb.isEmpty then sb else sb.take n) = sb.take n := by
  cases sb with
  | nil => simp
  | cons a t => simp

theorem ledSim_ev (pe : Bool) (aiMax : Nat) (e : Ev) (he : e.ok) (f : Nat) (ks sb ai : Bytes) :
    ledSim pe aiMax (f + e.steps) (e.keys ++ ks) sb ai =
      ledSim pe aiMax f ks (e.apply pe aiMax (sb, ai)).1 (e.apply pe aiMax (sb, ai)).2 := by
  cases e with
  | text cs => exact ledSim_text pe aiMax cs f ks sb ai he
  | bs =>
    show ledSim pe aiMax (f + 1) (8 :: ks) sb ai = _
    rw [ledSim_bs pe aiMax f 8 ks sb ai (Or.inl rfl), take_last_of_isEmpty sb _ (fun h => by rw [h]; rfl)]
    rfl
  | del =>
    show ledSim pe aiMax (f + 1) (127 :: ks) sb ai = _
    rw [ledSim_bs pe aiMax f 127 ks sb ai (Or.inr rfl), take_last_of_isEmpty sb _ (fun h => by rw [h]; rfl)]
    rfl
  | killLine => exact ledSim_killline pe aiMax f ks sb ai
  | killWord =>
    show ledSim pe aiMax (f + 1) (23 :: ks) sb ai = _
    rw [ledSim_killword pe aiMax f ks sb ai, take_last_of_isEmpty sb _ (fun h => by rw [h]; rfl)]
    rfl
  | lit d => exact ledSim_literal pe aiMax f d ks sb ai
  | indent => exact ledSim_ctrlT pe aiMax f ks sb ai
  | unindent => exact ledSim_ctrlD pe aiMax f ks sb ai

/-- `ledSim` on the keys of a script, followed by an ending key -/
theorem ledSim_script (pe : Bool) (aiMax : Nat) : ∀ (evs : List Ev) (f : Nat) (e : Nat) (rest sb ai : Bytes),
    (∀ ev ∈ evs, ev.ok) → (e = 10 ∨ e = 27 ∨ e = 3) →
    ledSim pe aiMax (f + 1 + scriptSteps evs) (scriptKeys evs ++ e :: rest) sb ai =
      some ((runScript pe aiMax evs (sb, ai)).1, e, (runScript pe aiMax evs (sb, ai)).2, rest) := by
  intro evs
  induction evs with
  | nil => intro f e rest sb ai _ he; exact ledSim_end pe aiMax f e rest sb ai he
  | cons ev evs ih =>
    intro f e rest sb ai hok he
    have h1 : scriptSteps (ev :: evs) = ev.steps + scriptSteps evs := by simp [scriptSteps]
    have h2 : scriptKeys (ev :: evs) = ev.keys ++ scriptKeys evs := by simp [scriptKeys]
    rw [h1, h2, show f + 1 + (ev.steps + scriptSteps evs) = (f + 1 + scriptSteps evs) + ev.steps by omega,
      List.append_assoc, ledSim_ev pe aiMax ev (hok ev (by simp)), ih f e rest _ _ (fun x hx => hok x (by simp [hx])) he]
    rfl

/-- more fuel does not change a result -/
theorem ledSim_mono (pe : Bool) (aiMax : Nat) : ∀ (f : Nat) (ks sb ai : Bytes) (r : Bytes × Nat × Bytes × Bytes),
    ledSim pe aiMax f ks sb ai = some r → ∀ g, f ≤ g → ledSim pe aiMax g ks sb ai = some r := by
  intro f
  induction f with
  | zero => intro ks sb ai r h; simp [ledSim] at h
  | succ f ih =>
    intro ks sb ai r h g hg
    obtain ⟨g, rfl⟩ : ∃ g', g = g' + 1 := ⟨g - 1, by omega⟩
    have hfg : f ≤ g := by omega
    cases ks with
    | nil => simp [ledSim] at h
    | cons k ks =>
      rw [ledSim.eq_def] at h ⊢
      simp only [] at h ⊢
      split
      · rename_i hk; rw [if_pos hk] at h; exact ih _ _ _ _ h g hfg
      rename_i n1; rw [if_neg n1] at h
      split
      · rename_i hk; rw [if_pos hk] at h; exact ih _ _ _ _ h g hfg
      rename_i n2; rw [if_neg n2] at h
      split
      · rename_i hk; rw [if_pos hk] at h; exact ih _ _ _ _ h g hfg
      rename_i n3; rw [if_neg n3] at h
      split
      · rename_i hk; rw [if_pos hk] at h; exact ih _ _ _ _ h g hfg
      rename_i n4; rw [if_neg n4] at h
      split
      · rename_i hk; rw [if_pos hk] at h; exact ih _ _ _ _ h g hfg
      rename_i n5; rw [if_neg n5] at h
      split
      · rename_i hk; rw [if_pos hk] at h; exact h
      rename_i n6; rw [if_neg n6] at h
      split
      · rename_i hk; rw [if_pos hk] at h
        cases ks with
        | nil => simp at h
        | cons d ks' => exact ih _ _ _ _ h g hfg
      rename_i n7; rw [if_neg n7] at h
      split
      · rename_i hk; rw [if_pos hk] at h; cases h
      rename_i n8; rw [if_neg n8] at h
      split
      · rename_i hk; rw [if_pos hk] at h; exact ih _ _ _ _ h g hfg
      rename_i n9; rw [if_neg n9] at h
      split
      · rename_i hk; rw [if_pos hk] at h; cases h
      rename_i n10; rw [if_neg n10] at h
      exact ih _ _ _ _ h g hfg

/-! ### `led_lastchar` -/

/-- the last character of a string that ends in an encoded character starts where that encoding starts -/
theorem lastChar_enc (pre : Bytes) (c : Nat) (hc : ValidCp c) : lastChar (pre ++ enc c) = pre.length := by
  have hne : enc c ≠ [] := enc_ne_nil c
  have hne' : pre ++ enc c ≠ [] := by simp [hne]
  have hp := Props.C16.prev_spec hc pre.reverse
  rw [← List.reverse_append] at hp
  unfold lastChar
  have he : (pre ++ enc c).isEmpty = false := by cases h : pre ++ enc c <;> simp_all
  rw [he]
  simp only [Bool.false_eq_true, if_false]
  have hrev : (pre ++ enc c).reverse = ((pre ++ enc c).getLast?.getD 0) :: (pre ++ enc c).dropLast.reverse := by
    generalize pre ++ enc c = l at hne'
    have := List.dropLast_concat_getLast hne'
    conv => lhs; rw [← this]
    rw [List.getLast?_eq_some_getLast hne']
    simp
  rw [hrev] at hp
  simp only [ucPrev] at hp
  have hl := enc_length_pos c
  simp only [List.length_append]
  omega

theorem take_lastChar_enc (pre : Bytes) (c : Nat) (hc : ValidCp c) :
    (pre ++ enc c).take (lastChar (pre ++ enc c)) = pre := by
  rw [lastChar_enc pre c hc, List.take_left']
  rfl

/-- ASCII: the last character is the last byte -/
theorem take_lastChar_ascii (w : Bytes) (b : Nat) (h0 : 0 < b) (h : b < 128) :
    (w ++ [b]).take (lastChar (w ++ [b])) = w := by
  have : enc b = [b] := by unfold enc; rw [if_pos h]
  rw [← this]
  exact take_lastChar_enc w b ⟨h0, by omega⟩

/-! ### `led_line` on a script -/

/-- **the line editor computes the reference semantics of the editing keys.**  If the pending keys are
those of the edit script `evs` followed by an ending key `e` (newline, ESC or `^C`), under the default
keymap, `led_line` returns the text and auto-indent `runScript` computes from `([], ai0)`, with the
ending key; the keys up to and including `e` are consumed and nothing else changes.
(`scriptSteps evs < 100000`: the bound of the model's loop.) -/
theorem ledLine_script (pref post ai0 : Bytes) (aiMax : Nat) (ins ex : Bool) (s : VS) (evs : List Ev)
    (e : Nat) (rest : Bytes)
    (hp : pending s = scriptKeys evs ++ e :: rest) (hok : ∀ ev ∈ evs, ev.ok) (he : e = 10 ∨ e = 27 ∨ e = 3)
    (hfuel : scriptSteps evs < 100000) (hk : (if ex then s.exKmap else s.xkmap) = 0) :
    ∃ s', ledLine pref post ai0 aiMax ins ex s =
        Res.ok ((runScript pref.isEmpty aiMax evs ([], ai0)).1, (e : Int), (runScript pref.isEmpty aiMax evs ([], ai0)).2) s' ∧
      pending s' = rest ∧ Reads ins (scriptKeys evs ++ [e]) s s' := by
  have hs := ledSim_script pref.isEmpty aiMax evs 0 e rest [] ai0 hok he
  have hs' := ledSim_mono _ _ _ _ _ _ _ hs 100000 (by omega)
  obtain ⟨s', used, h1, h2, h3, h4⟩ := go_sim pref post aiMax ins ex 100000 _ [] ai0 0 s _ _ _ _ hs' hp hk
  refine ⟨s', by rw [ledLine_eq]; exact h1, h4, ?_⟩
  have : used = scriptKeys evs ++ [e] := by
    have h2' : (scriptKeys evs ++ [e]) ++ rest = used ++ rest := by rw [← h2]; simp
    exact (List.append_cancel_right h2').symm
  rw [← this]; exact h3


/-! ### scripts without `^T` / `^D`: the text does not depend on the auto-indent -/

/-- the event is not `^T` / `^D` -/
def Ev.noIndent : Ev → Prop
  | .indent => False
  | .unindent => False
  | _ => True

theorem runScript_noIndent (pe : Bool) (m : Nat) : ∀ (evs : List Ev) (sb ai : Bytes), (∀ ev ∈ evs, ev.noIndent) →
    runScript pe m evs (sb, ai) = ((runScript false 127 evs (sb, [])).1, ai) := by
  intro evs
  induction evs with
  | nil => intro sb ai _; rfl
  | cons ev evs ih =>
    intro sb ai h
    have hev := h ev (by simp)
    have hrest : ∀ e ∈ evs, e.noIndent := fun e he => h e (by simp [he])
    show runScript pe m evs (ev.apply pe m (sb, ai)) = ((runScript false 127 evs (ev.apply false 127 (sb, []))).1, ai)
    cases ev with
    | indent => exact absurd hev (by simp [Ev.noIndent])
    | unindent => exact absurd hev (by simp [Ev.noIndent])
    | text cs => exact ih _ _ hrest
    | bs => exact ih _ _ hrest
    | del => exact ih _ _ hrest
    | killLine => exact ih _ _ hrest
    | killWord => exact ih _ _ hrest
    | lit d => exact ih _ _ hrest

/-- the text a script (of text, `^H`, DEL, `^U`, `^W`, `^V c` events) leaves -/
def scriptText (evs : List Ev) : Bytes := (runScript false 127 evs ([], [])).1

/-- **the events `evs` type the text `cs`**: well-formed events without `^T`/`^D`, within the bound of the
model's loop, whose net result is the encoding of `cs` -/
def Types (evs : List Ev) (cs : List Nat) : Prop :=
  (∀ ev ∈ evs, ev.ok ∧ ev.noIndent) ∧ scriptSteps evs < 100000 ∧ scriptText evs = encStr cs

theorem types_text (cs : List Nat) (h : ∀ c ∈ cs, Typable c) (hlen : cs.length < 100000) : Types [Ev.text cs] cs := by
  refine ⟨?_, by simpa [scriptSteps, Ev.steps] using hlen, by simp [scriptText, runScript, Ev.apply]⟩
  intro ev hev
  simp at hev; subst hev
  exact ⟨h, trivial⟩

/-- typing `cs ++ [c]`, a backspace, then `cs2` types `cs ++ cs2` -/
theorem types_backspace (cs : List Nat) (c : Nat) (cs2 : List Nat) (h : ∀ d ∈ cs ++ [c] ++ cs2, Typable d)
    (hlen : cs.length + cs2.length + 2 < 100000) : Types [Ev.text (cs ++ [c]), Ev.bs, Ev.text cs2] (cs ++ cs2) := by
  refine ⟨?_, by simp [scriptSteps, Ev.steps]; omega, ?_⟩
  · intro ev hev
    simp only [List.mem_cons, List.not_mem_nil, or_false] at hev
    rcases hev with rfl | rfl | rfl
    · exact ⟨fun d hd => h d (List.mem_append_left _ hd), trivial⟩
    · exact ⟨trivial, trivial⟩
    · exact ⟨fun d hd => h d (List.mem_append_right _ hd), trivial⟩
  · show (Ev.apply false 127 (Ev.text cs2) (Ev.apply false 127 Ev.bs (Ev.apply false 127 (Ev.text (cs ++ [c])) ([], [])))).1 = _
    simp only [Ev.apply, List.nil_append]
    rw [encStr_append, encStr_cons, encStr_nil, List.append_nil,
      take_lastChar_enc _ c (h c (by simp)).1, encStr_append]

end Neatvi.Lemmas.C08b
