import NeatviVerif.Lemmas.C06dRef
/-!
# C06d: every byte string is the text of a well-formed location tree (`parseLoc` is total)
-/
namespace Neatvi.Lemmas.C06d
open Neatvi

theorem rawPat_append (a b : List PTok) : rawPat (a ++ b) = rawPat a ++ rawPat b := by simp [rawPat]

/-! ### patterns -/

theorem parsePat_spec (delim : Nat) (hd : delim ≠ 92) : ∀ (f : Nat) (r : Bytes) (acc toks : List PTok) (cl : Bool) (r' : Bytes),
    r.length < f → (∀ t ∈ acc, t.Ok delim) → parsePat delim f r acc = (toks, cl, r') →
    rawPat toks ++ (if cl then delim :: r' else []) = rawPat acc ++ r ∧ (cl = false → r' = []) ∧ ToksOk delim toks cl := by
  intro f
  induction f with
  | zero => intro r acc toks cl r' h; omega
  | succ f ih =>
    intro r acc toks cl r' hf hacc h
    cases r with
    | nil =>
      simp only [parsePat, Prod.mk.injEq] at h
      obtain ⟨rfl, rfl, rfl⟩ := h
      exact ⟨by simp, fun _ => rfl, Or.inl hacc⟩
    | cons c r =>
      simp only [parsePat] at h
      by_cases h1 : c = delim
      · rw [if_pos h1] at h
        simp only [Prod.mk.injEq] at h
        obtain ⟨rfl, rfl, rfl⟩ := h
        subst h1
        exact ⟨by simp, (fun h => by cases h), Or.inl hacc⟩
      · rw [if_neg h1] at h
        by_cases h2 : c = 92
        · rw [if_pos h2] at h
          subst h2
          cases r with
          | nil =>
            simp only [Prod.mk.injEq] at h
            obtain ⟨rfl, rfl, rfl⟩ := h
            refine ⟨by simp [rawPat, PTok.raw], fun _ => rfl, Or.inr ⟨rfl, by simp, ?_⟩⟩
            simpa using hacc
          | cons d r'' =>
            simp only [] at h
            have hacc' : ∀ t ∈ acc ++ [PTok.esc d], t.Ok delim := by
              intro t ht
              rcases List.mem_append.mp ht with ht | ht
              · exact hacc t ht
              · simp only [List.mem_cons, List.not_mem_nil, or_false] at ht; subst ht; trivial
            obtain ⟨i1, i2, i3⟩ := ih r'' (acc ++ [.esc d]) toks cl r' (by simp at hf; omega) hacc' h
            refine ⟨?_, i2, i3⟩
            rw [i1]
            simp [rawPat, PTok.raw]
        · rw [if_neg h2] at h
          have hacc' : ∀ t ∈ acc ++ [PTok.ch c], t.Ok delim := by
            intro t ht
            rcases List.mem_append.mp ht with ht | ht
            · exact hacc t ht
            · simp only [List.mem_cons, List.not_mem_nil, or_false] at ht; subst ht; exact ⟨h1, h2⟩
          obtain ⟨i1, i2, i3⟩ := ih r (acc ++ [.ch c]) toks cl r' (by simp at hf; omega) hacc' h
          refine ⟨?_, i2, i3⟩
          rw [i1]
          simp [rawPat, PTok.raw]

/-! ### the base -/

theorem takeWhile_append_dropWhile' (p : Nat → Bool) (l : Bytes) : l.takeWhile p ++ l.dropWhile p = l :=
  List.takeWhile_append_dropWhile

theorem dropWhile_head_false (p : Nat → Bool) (l : Bytes) (d : Nat) (hd : p d = false) : p ((l.dropWhile p).headD d) = false := by
  induction l with
  | nil => exact hd
  | cons x r ih =>
    rw [List.dropWhile_cons]
    split
    · exact ih
    · rename_i h; simpa using h

theorem mem_takeWhile_true (p : Nat → Bool) : ∀ (l : Bytes) (d : Nat), d ∈ l.takeWhile p → p d = true := by
  intro l
  induction l with
  | nil => intro d hd; cases hd
  | cons x r ih =>
    intro d hd
    rw [List.takeWhile_cons] at hd
    split at hd
    · cases hd with
      | head => assumption
      | tail _ h => exact ih d h
    · cases hd

/-- what the text after the base must not start with -/
def baseTail : Base → Bytes → Prop
  | .implicit, t => isDigit (t.headD 0) = false ∧ t.headD 0 ≠ 46 ∧ t.headD 0 ≠ 36 ∧ t.headD 0 ≠ 39 ∧ t.headD 0 ≠ 47 ∧
      t.headD 0 ≠ 63
  | .num _, t => isDigit (t.headD 0) = false
  | _, _ => True

theorem parseBase_spec (s : Bytes) (b : Base) (r1 : Bytes) (h : parseBase s = (b, r1)) :
    b.render ++ r1 = s ∧ b.Ok ∧ (b.closed = false → r1 = []) ∧ baseTail b r1 := by
  cases s with
  | nil =>
    simp only [parseBase, Prod.mk.injEq] at h
    obtain ⟨rfl, rfl⟩ := h
    exact ⟨rfl, trivial, fun _ => rfl, ⟨by decide, by decide, by decide, by decide, by decide, by decide⟩⟩
  | cons c r =>
    simp only [parseBase] at h
    by_cases h46 : c = 46
    · rw [if_pos h46] at h
      simp only [Prod.mk.injEq] at h
      obtain ⟨rfl, rfl⟩ := h
      subst h46
      exact ⟨rfl, trivial, (fun h => by cases h), trivial⟩
    rw [if_neg h46] at h
    by_cases h36 : c = 36
    · rw [if_pos h36] at h
      simp only [Prod.mk.injEq] at h
      obtain ⟨rfl, rfl⟩ := h
      subst h36
      exact ⟨rfl, trivial, (fun h => by cases h), trivial⟩
    rw [if_neg h36] at h
    by_cases h39 : c = 39
    · rw [if_pos h39] at h
      subst h39
      cases r with
      | nil =>
        simp only [Prod.mk.injEq] at h
        obtain ⟨rfl, rfl⟩ := h
        exact ⟨rfl, trivial, fun _ => rfl, trivial⟩
      | cons m r' =>
        simp only [Prod.mk.injEq] at h
        obtain ⟨rfl, rfl⟩ := h
        exact ⟨rfl, trivial, (fun h => by cases h), trivial⟩
    rw [if_neg h39] at h
    by_cases h47 : c = 47
    · rw [if_pos h47] at h
      subst h47
      generalize hq : parsePat 47 (r.length + 1) r [] = q at h
      obtain ⟨toks, cl, r'⟩ := q
      simp only [Prod.mk.injEq] at h
      obtain ⟨rfl, rfl⟩ := h
      obtain ⟨i1, i2, i3⟩ := parsePat_spec 47 (by decide) (r.length + 1) r [] toks cl r' (Nat.lt_succ_self _)
        (fun t ht => by cases ht) hq
      refine ⟨?_, i3, i2, trivial⟩
      simp only [rawPat, List.flatMap_nil, List.nil_append] at i1
      simp only [Base.render, delimOf, Bool.false_eq_true, if_false, List.cons_append, List.append_assoc]
      congr 1
      rw [← i1]
      cases cl with
      | true => simp [rawPat]
      | false => simp [rawPat, i2 rfl]
    rw [if_neg h47] at h
    by_cases h63 : c = 63
    · rw [if_pos h63] at h
      subst h63
      generalize hq : parsePat 63 (r.length + 1) r [] = q at h
      obtain ⟨toks, cl, r'⟩ := q
      simp only [Prod.mk.injEq] at h
      obtain ⟨rfl, rfl⟩ := h
      obtain ⟨i1, i2, i3⟩ := parsePat_spec 63 (by decide) (r.length + 1) r [] toks cl r' (Nat.lt_succ_self _)
        (fun t ht => by cases ht) hq
      refine ⟨?_, i3, i2, trivial⟩
      simp only [rawPat, List.flatMap_nil, List.nil_append] at i1
      simp only [Base.render, delimOf, if_true, List.cons_append, List.append_assoc]
      congr 1
      rw [← i1]
      cases cl with
      | true => simp [rawPat]
      | false => simp [rawPat, i2 rfl]
    rw [if_neg h63] at h
    by_cases hdig : isDigit c = true
    · rw [if_pos hdig] at h
      simp only [Prod.mk.injEq] at h
      obtain ⟨rfl, rfl⟩ := h
      refine ⟨takeWhile_append_dropWhile' _ _, ⟨?_, fun d hd => mem_takeWhile_true _ _ d hd⟩, (fun h => by cases h), ?_⟩
      · simp [hdig]
      · exact dropWhile_head_false isDigit (c :: r) 0 (by decide)
    · rw [if_neg hdig] at h
      simp only [Prod.mk.injEq] at h
      obtain ⟨rfl, rfl⟩ := h
      refine ⟨rfl, trivial, (fun h => by cases h), ?_⟩
      simp only [baseTail, List.headD_cons]
      exact ⟨by simpa using hdig, h46, h36, h39, h47, h63⟩

/-! ### offsets -/

theorem offsText_append (a b : List Off) : offsText (a ++ b) = offsText a ++ offsText b := by simp [offsText]

theorem parseOffs_spec : ∀ (f : Nat) (s : Bytes) (acc offs : List Off) (r : Bytes),
    s.length < f → parseOffs f s acc = (offs, r) → (∀ o ∈ acc, ∀ d ∈ o.ds, isDigit d = true) →
    (acc ≠ [] → isDigit (s.headD 0) = false) →
    offsText offs ++ r = offsText acc ++ s ∧ (∀ o ∈ offs, ∀ d ∈ o.ds, isDigit d = true) ∧
    r.headD 0 ≠ 43 ∧ r.headD 0 ≠ 45 ∧ (offs ≠ [] → isDigit (r.headD 0) = false) ∧ (offs = [] → r = s) := by
  intro f
  induction f with
  | zero => intro s acc offs r h; omega
  | succ f ih =>
    intro s acc offs r hf h hacc hdg
    cases s with
    | nil =>
      simp only [parseOffs, Prod.mk.injEq] at h
      obtain ⟨rfl, rfl⟩ := h
      exact ⟨rfl, hacc, by decide, by decide, hdg, fun _ => rfl⟩
    | cons c s' =>
      simp only [parseOffs] at h
      by_cases hc : c = 43 ∨ c = 45
      · rw [if_pos hc] at h
        have hlen : (s'.dropWhile isDigit).length < f := by
          have := (List.dropWhile_sublist isDigit (l := s')).length_le
          simp at hf; omega
        have hacc' : ∀ o ∈ acc ++ [⟨decide (c = 45), s'.takeWhile isDigit⟩], ∀ d ∈ o.ds, isDigit d = true := by
          intro o ho
          rcases List.mem_append.mp ho with ho | ho
          · exact hacc o ho
          · simp only [List.mem_cons, List.not_mem_nil, or_false] at ho
            subst ho
            exact fun d hd => mem_takeWhile_true _ _ d hd
        obtain ⟨i1, i2, i3, i4, i5, i6⟩ := ih _ _ offs r hlen h hacc'
          (fun _ => dropWhile_head_false isDigit s' 0 (by decide))
        have hne : offs ≠ [] := by
          intro h0
          have := i6 h0
          subst h0
          rw [this, offsText_append] at i1
          have hl := congrArg List.length i1
          simp only [List.length_append, offsText, List.flatMap_nil, List.length_nil, List.flatMap_cons, Off.text,
            List.length_cons, List.append_nil, Nat.zero_add] at hl
          omega
        refine ⟨?_, i2, i3, i4, i5, fun h0 => absurd h0 hne⟩
        rw [i1, offsText_append]
        have htxt : offsText [⟨decide (c = 45), s'.takeWhile isDigit⟩] = c :: s'.takeWhile isDigit := by
          rcases hc with rfl | rfl <;> simp [offsText, Off.text]
        rw [htxt]
        simp [List.append_assoc]
      · rw [if_neg hc] at h
        simp only [Prod.mk.injEq] at h
        obtain ⟨rfl, rfl⟩ := h
        refine ⟨rfl, hacc, ?_, ?_, hdg, fun _ => rfl⟩
        · simp only [List.headD_cons]; exact fun h => hc (Or.inl h)
        · simp only [List.headD_cons]; exact fun h => hc (Or.inr h)

/-! ### one address -/

/-- what follows an address: nothing, `,` or `;` -/
def SepHead (t : Bytes) : Prop := t = [] ∨ t.headD 0 = 44 ∨ t.headD 0 = 59

theorem dropWhile_sepHead (l : Bytes) : SepHead (l.dropWhile (fun c => c != 44 && c != 59)) := by
  induction l with
  | nil => left; rfl
  | cons x r ih =>
    rw [List.dropWhile_cons]
    split
    · exact ih
    · rename_i h
      right
      simp only [Bool.and_eq_true, bne_iff_ne, ne_eq, not_and, Decidable.not_not] at h
      simp only [List.headD_cons]
      by_cases h1 : x = 44
      · exact Or.inl h1
      · exact Or.inr (h h1)

theorem takeWhile_head (p : Nat → Bool) (l : Bytes) (h : l.takeWhile p ≠ []) : (l.takeWhile p).headD 0 = l.headD 0 := by
  cases l with
  | nil => exact absurd rfl h
  | cons x r =>
    rw [List.takeWhile_cons] at h ⊢
    split
    · rfl
    · rename_i hx; rw [if_neg hx] at h; exact absurd rfl h

theorem parseAddr_spec (s : Bytes) (a : Addr) (r3 : Bytes) (h : parseAddr s = (a, r3)) :
    a.render ++ r3 = s ∧ a.Ok ∧ SepHead r3 ∧ (a.base.closed = false → r3 = []) := by
  unfold parseAddr at h
  generalize hb : parseBase s = pb at h
  obtain ⟨b, r1⟩ := pb
  obtain ⟨b1, b2, b3, b4⟩ := parseBase_spec s b r1 hb
  simp only [] at h
  generalize ho : parseOffs (r1.length + 1) r1 [] = po at h
  obtain ⟨offs, r2⟩ := po
  obtain ⟨o1, o2, o3, o4, o5, o6⟩ := parseOffs_spec (r1.length + 1) r1 [] offs r2 (Nat.lt_succ_self _) ho
    (fun o ho => by cases ho) (fun h => absurd rfl h)
  simp only [Prod.mk.injEq] at h
  obtain ⟨rfl, rfl⟩ := h
  simp only [offsText, List.flatMap_nil, List.nil_append] at o1
  have hjunk := takeWhile_append_dropWhile' (fun c => c != 44 && c != 59) r2
  refine ⟨?_, ⟨b2, o2, ⟨?_, ?_⟩, ?_⟩, dropWhile_sepHead r2, ?_⟩
  · simp only [Addr.render, List.append_assoc]
    rw [hjunk]
    have : offsText offs ++ r2 = r1 := o1
    rw [this, b1]
  · intro c hc
    have := mem_takeWhile_true _ _ c hc
    simpa using this
  · intro hne
    have hh := takeWhile_head _ _ hne
    simp only [] at hh ⊢
    rw [hh]
    refine ⟨o3, o4, ?_, ?_⟩
    · intro hnd
      simp only [Addr.nodigit, Bool.or_eq_true, Bool.not_eq_true', List.isEmpty_eq_false_iff] at hnd
      by_cases ho0 : offs = []
      · have hr := o6 ho0
        subst ho0
        rcases hnd with hnd | hnd
        · exact absurd rfl hnd
        · cases b with
          | num ds => rw [hr]; exact b4
          | _ => cases hnd
      · exact o5 ho0
    · intro hbare
      simp only [Addr.bare, Bool.and_eq_true, beq_iff_eq, List.isEmpty_iff] at hbare
      obtain ⟨hb0, ho0⟩ := hbare
      have hr := o6 ho0
      subst hb0
      rw [hr]
      exact b4
  · intro hcl
    have hr1 := b3 hcl
    subst hr1
    simp only [parseOffs, Prod.mk.injEq] at ho
    obtain ⟨rfl, rfl⟩ := ho
    exact ⟨rfl, rfl⟩
  · intro hcl
    have hr1 := b3 hcl
    subst hr1
    simp only [parseOffs, Prod.mk.injEq] at ho
    obtain ⟨rfl, rfl⟩ := ho
    rfl

/-! ### the list, the location -/

theorem renderList_cons' (a : Addr) (s : Sep) (r : AddrList) :
    renderList ((a, s) :: r) = a.render ++ (s.text ++ renderList r) := by
  simp [renderList, List.append_assoc]

theorem listOk_cons (a : Addr) (s : Sep) (L : AddrList) (ha : a.Ok) (hs : s ≠ .fin) (hc : a.base.closed = true)
    (hL : ListOk L) : ListOk ((a, s) :: L) := by
  cases L with
  | nil => exact absurd hL (by simp [ListOk])
  | cons q L' => exact ⟨ha, hs, hc, hL⟩

theorem rawParse_spec : ∀ (f : Nat) (s : Bytes), s ≠ [] → s.length < f →
    renderList (rawParse f s) = s ∧ ListOk (rawParse f s) := by
  intro f
  induction f with
  | zero => intro s _ h; omega
  | succ f ih =>
    intro s hne hf
    obtain ⟨p1, p2, p3, p4⟩ := parseAddr_spec s (parseAddr s).1 (parseAddr s).2 rfl
    have hclosed : ∀ c r', (parseAddr s).2 = c :: r' → (parseAddr s).1.base.closed = true := by
      intro c r' h
      cases hcl : (parseAddr s).1.base.closed with
      | true => rfl
      | false => have := p4 hcl; rw [this] at h; cases h
    simp only [rawParse]
    cases hr : (parseAddr s).2 with
    | nil =>
      rw [hr] at p1
      simp only []
      refine ⟨by simpa [renderList, Sep.text] using p1, p2, fun _ => ?_, fun h => absurd rfl h⟩
      simp only [List.append_nil] at p1
      rw [p1]; exact hne
    | cons c r' =>
      rw [hr] at p1 p3
      have hcl := hclosed c r' hr
      have hlen : r'.length < f := by
        have := congrArg List.length p1
        simp only [List.length_append, List.length_cons] at this
        omega
      simp only []
      rcases p3 with h | h | h
      · cases h
      · simp only [List.headD_cons] at h
        subst h
        rw [if_pos rfl]
        by_cases hr0 : r' = []
        · rw [if_pos hr0]
          subst hr0
          refine ⟨by simpa [renderList, Sep.text] using p1, p2, (fun h => by cases h), fun _ => hcl⟩
        · rw [if_neg hr0]
          obtain ⟨i1, i2⟩ := ih r' hr0 hlen
          refine ⟨?_, listOk_cons _ _ _ p2 (by decide) hcl i2⟩
          rw [renderList_cons', i1]
          exact p1
      · simp only [List.headD_cons] at h
        subst h
        rw [if_neg (by decide), if_pos rfl]
        by_cases hr0 : r' = []
        · rw [if_pos hr0]
          subst hr0
          refine ⟨by simpa [renderList, Sep.text] using p1, p2, (fun h => by cases h), fun _ => hcl⟩
        · rw [if_neg hr0]
          obtain ⟨i1, i2⟩ := ih r' hr0 hlen
          refine ⟨?_, listOk_cons _ _ _ p2 (by decide) hcl i2⟩
          rw [renderList_cons', i1]
          exact p1

/-- **every byte string is the text of a well-formed location tree**: `parseLoc` never fails -/
theorem parseLoc_total (s : Bytes) : ∃ loc, parseLoc s = some loc := by
  unfold parseLoc
  by_cases h1 : s = [37]
  · exact ⟨_, if_pos h1⟩
  · rw [if_neg h1]
    by_cases h2 : s = []
    · exact ⟨_, if_pos h2⟩
    · rw [if_neg h2]
      obtain ⟨k1, k2⟩ := rawParse_spec (s.length + 1) s h2 (Nat.lt_succ_self _)
      refine ⟨_, if_pos ⟨k1, k2, ?_⟩⟩
      rw [k1]; exact h1

end Neatvi.Lemmas.C06d
