import NeatviVerif.Lemmas.C05fT
import NeatviVerif.Props.C08b
/-!
# C05f, part U: the hypotheses are satisfiable — a concrete state; the traps that remain, as witnesses
-/
set_option linter.unusedSimpArgs false
set_option linter.unusedVariables false
namespace Neatvi.Lemmas.C05f
open Neatvi Neatvi.Uc Neatvi.Lbuf Neatvi.Ex Neatvi.Mot Neatvi.Vi Neatvi.Rset Neatvi.Spec
open Neatvi.Lemmas.C05b (CountsFit)
open Neatvi.Lemmas.Hist

/-- a line buffer with an empty history (a file just loaded with its history cleared, or a literal buffer) -/
theorem histOk_of_no_hist (lb : Lb) (hh : lb.hist = []) (hu : lb.histU = 0) (hl : ∀ l ∈ lb.lines, LineOk l) :
    HistOk lb True := by
  refine ⟨lb.lines, { present := lb.lines }, [], [], ?_, fun _ => rfl, ?_⟩
  · exact
      { hist := by rw [hh]; rfl
        histU := by rw [hu]; rfl
        gok := by intro g hg; simp at hg
        sorted := by simp
        le := by intro g hg; simp at hg
        closed := by intro _ g hg; simp at hg
        opened := by intro h; simp at h
        chain := by rw [hh]; trivial
        lines := rfl
        wf0 := fun l h => (hl l h).wf
        present := rfl
        past := rfl
        future := rfl }
  · intro k l hm
    rw [hh] at hm
    simp only [List.take_nil, applyFwd] at hm
    exact (hl l hm).noNul

/-- no `/` among the pending keys: nothing to assume about counted searches -/
theorem slashOk_of_no_slash {s : VS} (h : (47 : Int) ∉ allQ s) : SlashOk s := by
  intro s1 cnt r o ⟨a1, _⟩ _ _
  exact absurd (a1.subset (by simp)) h

/-- no mark is set: `MarksIn` -/
theorem marksIn_of_no_marks {s : VS} (h : ∀ lb, s.ed.lb = some lb → ∀ i, lb.mark.getD i (-1) = -1) : MarksIn s := by
  intro lb m p q hlb hj _
  unfold jump at hj
  split at hj
  · dsimp only at hj
    rw [h lb hlb] at hj
    simp at hj
  · cases hj

/-! ### the running example of `Props/C08b.lean`: the lines `hello w`, `b` -/

open Neatvi.Props.C08b (exSt exEd)

theorem exSt_lines (keys : Bytes) (r o : Int) :
    lines (exSt keys r o) = [[104, 101, 108, 108, 111, 32, 119, 10], [98, 10]] := rfl

theorem exSt_sok (keys : Bytes) (r o : Int) : SOk (exSt keys r o) True := by
  refine ⟨⟨{ path := [], lb := { lines := [[104, 101, 108, 108, 111, 32, 119, 10], [98, 10]] } }, rfl, ?_⟩, ?_⟩
  · refine histOk_of_no_hist _ rfl rfl ?_
    intro l hl
    simp only [List.mem_cons, List.not_mem_nil, or_false] at hl
    rcases hl with rfl | rfl
    · exact ⟨[104, 101, 108, 108, 111, 32, 119], rfl, by decide, by decide⟩
    · exact ⟨[98], rfl, by decide, by decide⟩
  · intro c x hx
    have : ((List.replicate 256 (none : Option Bytes)).getD c none) = none := by
      rw [List.getD_eq_getElem?_getD]
      cases h : (List.replicate 256 (none : Option Bytes))[c]? with
      | none => rfl
      | some y => rw [List.getElem?_replicate] at h; split at h <;> simp_all
    exact absurd (this.symm.trans hx) (by simp)

/-- the example state satisfies the invariant when the cursor is on the first line -/
theorem exSt_viOk (keys : Bytes) : ViOk (exSt keys 0 0) :=
  { sok := exSt_sok keys 0 0
    cur := ⟨⟨Int.le_refl 0, fun _ => by rw [show lenOf (exSt keys 0 0) = 2 from rfl]; show (0 : Int) < 2; decide⟩, by
      show (0 : Int) ≤ slenAt (lines (exSt keys 0 0)) 0
      exact slenAt_nonneg _ _⟩
    fit := Props.C05c.countsFit_exSt keys 0 0 }

theorem exSt_marks (keys : Bytes) (r o : Int) : MarksIn (exSt keys r o) := by
  refine marksIn_of_no_marks ?_
  intro lb hlb i
  have : lb = { lines := [[104, 101, 108, 108, 111, 32, 119, 10], [98, 10]] } := by
    have h : (exSt keys r o).ed.lb = some { lines := [[104, 101, 108, 108, 111, 32, 119, 10], [98, 10]] } := rfl
    rw [h] at hlb; cases hlb; rfl
  subst this
  show (List.replicate Gen.NMARKS (-1 : Int)).getD i (-1) = -1
  rw [List.getD_eq_getElem?_getD]
  cases h : (List.replicate Gen.NMARKS (-1 : Int))[i]? with
  | none => rfl
  | some y => rw [List.getElem?_replicate] at h; split at h <;> simp_all

theorem exSt_caret (keys : Bytes) : MarksIn (markCaret (exSt keys 0 0)) := by
  refine marksIn_caret (exSt_sok keys 0 0) (exSt_marks keys 0 0) ?_ ?_
  · intro lb hlb
    have h : (exSt keys 0 0).ed.lb = some { lines := [[104, 101, 108, 108, 111, 32, 119, 10], [98, 10]] } := rfl
    rw [h] at hlb; cases hlb; rfl
  · show (0 : Int) ≤ slenAt (lines (exSt keys 0 0)) 0
    exact slenAt_nonneg _ _

/-- **the hypotheses of `viStep_no_trap` hold on the example state**, for all keys without a `/` -/
theorem exSt_stepHyp (keys : Bytes) (h : 47 ∉ keys) : StepHyp (exSt keys 0 0) :=
  { noquit := rfl
    marks := exSt_marks keys 0 0
    caret := exSt_caret keys
    slash := slashOk_of_no_slash (by
      show (47 : Int) ∉ ([] : List Int) ++ (([] : Bytes).drop 0 ++ keys).map Int.ofNat
      simp only [List.nil_append, List.drop_nil, List.mem_map, not_exists, not_and]
      intro x hx hx2
      have : x = 47 := by
        have h1 : ((x : Nat) : Int) = 47 := hx2
        exact_mod_cast h1
      subst this; exact h hx) }

/-- … so, given the assumptions on the regex and the ex layer, no key sequence without `/` makes the first
    command on the example buffer trap -/
theorem exSt_no_trap (hE : EngineOk) (hX1 : ExNoTrap) (hX2 : ExKeeps) (keys : Bytes) (h : 47 ∉ keys) :
    viStep (exSt keys 0 0) ≠ Res.trap :=
  viStep_no_trap hE hX1 hX2 (exSt_viOk keys) (exSt_marks keys 0 0) (exSt_caret keys) (exSt_stepHyp keys h).slash

end Neatvi.Lemmas.C05f
