import NeatviVerif.Lemmas.C05fT
import NeatviVerif.Props.C08b
/-!
# C05f, part U: the hypotheses are satisfiable — a concrete state; the traps that remain, as witnesses
-/
set_option linter.unusedSimpArgs false
set_option linter.unusedVariables false
namespace Neatvi.Lemmas.C05f
open Neatvi Neatvi.Uc Neatvi.Lbuf Neatvi.Ex Neatvi.Mot Neatvi.Vi Neatvi.Rset Neatvi.Spec
open Neatvi.Lemmas.C05b (CountsFit)
open Neatvi.Lemmas.Hist

/-- a line buffer with an empty history (a file just loaded with its history cleared, or a literal buffer) -/
theorem histOk_of_no_hist (lb : Lb) (hh : lb.hist = []) (hu : lb.histU = 0) (hl : ∀ l ∈ lb.lines, LineOk l) :
    HistOk lb True := by
  refine ⟨lb.lines, { present := lb.lines }, [], [], ?_, fun _ => rfl, ?_⟩
  · exact
      { hist := by rw [hh]; rfl
        histU := by rw [hu]; rfl
        gok := by intro g hg; simp at hg
        sorted := by simp
        le := by intro g hg; simp at hg
        closed := by intro _ g hg; simp at hg
        opened := by intro h; simp at h
        chain := by rw [hh]; trivial
        lines := rfl
        wf0 := fun l h => (hl l h).wf
        present := rfl
        past := rfl
        future := rfl }
  · intro k l hm
    rw [hh] at hm
    simp only [List.take_nil, applyFwd] at hm
    exact (hl l hm).noNul

/-- no search key (`/ ? n N ^A`) among the pending keys and a remembered pattern without NUL: `SearchOk` -/
theorem searchOk_of_no_search {s : VS} (h : ∀ k ∈ searchKeys, k ∉ allQ s) (hk : NoNul s.ed.xkwd) : SearchOk s := by
  refine ⟨?_, hk, ?_⟩
  · intro s1 cnt r o ⟨a1, _⟩ _ _
    exact absurd (a1.subset (by simp)) (h 47 (by decide))
  · intro s1 cmd ab s2 ⟨⟨k, hk1, hk2⟩, _⟩ _ _ _
    exact absurd (hk2.subset (by simp)) (h k hk1)

/-- neither `:` nor `Z` among the pending keys: no ex command is entered, `ColonOk` -/
theorem colonOk_of_no_colon {s : VS} (h1 : (58 : Int) ∉ allQ s) (h2 : (90 : Int) ∉ allQ s) : ColonOk s :=
  ⟨fun s0 ln s1 ⟨_, a2⟩ _ _ => absurd (a2.subset (by simp)) h1, fun s0 ⟨_, a2⟩ => absurd (a2.subset (by simp)) h2⟩

/-- no mark is set: `MarksIn` -/
theorem marksIn_of_no_marks {s : VS} (h : ∀ lb, s.ed.lb = some lb → ∀ i, lb.mark.getD i (-1) = -1) : MarksIn s := by
  intro lb m p q hlb hj _
  unfold jump at hj
  split at hj
  · dsimp only at hj
    rw [h lb hlb] at hj
    simp at hj
  · cases hj

/-! ### the running example of `Props/C08b.lean`: the lines `hello w`, `b` -/

open Neatvi.Props.C08b (exSt exEd)

theorem exSt_lines (keys : Bytes) (r o : Int) :
    lines (exSt keys r o) = [[104, 101, 108, 108, 111, 32, 119, 10], [98, 10]] := rfl

theorem exSt_sok (keys : Bytes) (r o : Int) : SOk (exSt keys r o) True := by
  refine ⟨⟨{ path := [], lb := { lines := [[104, 101, 108, 108, 111, 32, 119, 10], [98, 10]] } }, rfl, ?_⟩, ?_⟩
  · refine histOk_of_no_hist _ rfl rfl ?_
    intro l hl
    simp only [List.mem_cons, List.not_mem_nil, or_false] at hl
    rcases hl with rfl | rfl
    · exact ⟨[104, 101, 108, 108, 111, 32, 119], rfl, by decide, by decide⟩
    · exact ⟨[98], rfl, by decide, by decide⟩
  · intro c x hx
    have : ((List.replicate 256 (none : Option Bytes)).getD c none) = none := by
      rw [List.getD_eq_getElem?_getD]
      cases h : (List.replicate 256 (none : Option Bytes))[c]? with
      | none => rfl
      | some y => rw [List.getElem?_replicate] at h; split at h <;> simp_all
    exact absurd (this.symm.trans hx) (by simp)

/-- the example state satisfies the invariant when the cursor is on the first line -/
theorem exSt_viOk (keys : Bytes) : ViOk (exSt keys 0 0) :=
  { sok := exSt_sok keys 0 0
    cur := ⟨⟨Int.le_refl 0, fun _ => by rw [show lenOf (exSt keys 0 0) = 2 from rfl]; show (0 : Int) < 2; decide⟩, by
      show (0 : Int) ≤ slenAt (lines (exSt keys 0 0)) 0
      exact slenAt_nonneg _ _⟩
    fit := Props.C05c.countsFit_exSt keys 0 0 }

theorem exSt_marks (keys : Bytes) (r o : Int) : MarksIn (exSt keys r o) := by
  refine marksIn_of_no_marks ?_
  intro lb hlb i
  have : lb = { lines := [[104, 101, 108, 108, 111, 32, 119, 10], [98, 10]] } := by
    have h : (exSt keys r o).ed.lb = some { lines := [[104, 101, 108, 108, 111, 32, 119, 10], [98, 10]] } := rfl
    rw [h] at hlb; cases hlb; rfl
  subst this
  show (List.replicate Gen.NMARKS (-1 : Int)).getD i (-1) = -1
  rw [List.getD_eq_getElem?_getD]
  cases h : (List.replicate Gen.NMARKS (-1 : Int))[i]? with
  | none => rfl
  | some y => rw [List.getElem?_replicate] at h; split at h <;> simp_all

theorem exSt_caret (keys : Bytes) : MarksIn (markCaret (exSt keys 0 0)) := by
  refine marksIn_caret (exSt_sok keys 0 0) (exSt_marks keys 0 0) ?_ ?_
  · intro lb hlb
    have h : (exSt keys 0 0).ed.lb = some { lines := [[104, 101, 108, 108, 111, 32, 119, 10], [98, 10]] } := rfl
    rw [h] at hlb; cases hlb; rfl
  · show (0 : Int) ≤ slenAt (lines (exSt keys 0 0)) 0
    exact slenAt_nonneg _ _

theorem exSt_allQ (keys : Bytes) (k : Nat) (h : k ∉ keys) : ((k : Nat) : Int) ∉ allQ (exSt keys 0 0) := by
  show ((k : Nat) : Int) ∉ ([] : List Int) ++ (([] : Bytes).drop 0 ++ keys).map Int.ofNat
  simp only [List.nil_append, List.drop_nil, List.mem_map, not_exists, not_and]
  intro x hx hx2
  have : x = k := by
    have h1 : ((x : Nat) : Int) = ((k : Nat) : Int) := hx2
    exact_mod_cast h1
  subst this; exact h hx

/-- the keys that start a search or an ex command: `/ ? n N ^A : Z` -/
def specialKeys : List Nat := [47, 63, 110, 78, 1, 58, 90]

/-- **the hypotheses of `viStep_no_trap` hold on the example state**, for all keys without `/ ? n N ^A : Z` -/
theorem exSt_stepHyp (keys : Bytes) (h : ∀ k ∈ specialKeys, k ∉ keys) : StepHyp (exSt keys 0 0) :=
  { noquit := rfl
    marks := exSt_marks keys 0 0
    caret := exSt_caret keys
    search := searchOk_of_no_search (by
      intro k hk
      unfold searchKeys at hk
      simp only [List.mem_cons, List.not_mem_nil, or_false] at hk
      rcases hk with rfl | rfl | rfl | rfl | rfl
      · exact exSt_allQ keys 47 (h 47 (by decide))
      · exact exSt_allQ keys 63 (h 63 (by decide))
      · exact exSt_allQ keys 110 (h 110 (by decide))
      · exact exSt_allQ keys 78 (h 78 (by decide))
      · exact exSt_allQ keys 1 (h 1 (by decide))) (by show NoNul ([] : Bytes); exact noNul_nil)
    colon := colonOk_of_no_colon (exSt_allQ keys 58 (h 58 (by decide))) (exSt_allQ keys 90 (h 90 (by decide))) }

/-- … so no key sequence without `/ ? n N ^A : Z` makes the first command on the example buffer trap — **no
    hypothesis about any other layer is left** -/
theorem exSt_no_trap (keys : Bytes) (h : ∀ k ∈ specialKeys, k ∉ keys) :
    viStep (exSt keys 0 0) ≠ Res.trap :=
  viStep_no_trap (exSt_viOk keys) (exSt_marks keys 0 0) (exSt_caret keys) (exSt_stepHyp keys h).search
    (exSt_stepHyp keys h).colon

end Neatvi.Lemmas.C05f
