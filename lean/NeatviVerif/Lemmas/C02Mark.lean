import NeatviVerif.Lemmas.C02Splice
/-!
# C02 lemmas, part 3: where the saved text sits in the history

`all = pg.reverse ++ fg` is the list of all groups, oldest first; the *boundaries* between groups
are the states undo/redo can reach.  The ghost mark `m = some k` says: the text written to the file
is the text at boundary `k`, and `useq_zero` is the sequence number `lbuf_seq` reports there.
`m = none`: no reachable boundary carries `useq_zero` (or `lbuf_unsaved` was called).
-/
namespace Neatvi.Lemmas.C02
open Neatvi Neatvi.Lbuf Neatvi.Spec Neatvi.Lemmas.Hist Neatvi.Props.C01 Neatvi.Props.C04

/-- what `lbuf_seq` reports with the cursor after the groups `A` (`l` = `useq_last`) -/
def lastSeq (l : Nat) (A : List Group) : Nat := match A.reverse with | [] => l | g :: _ => g.1

theorem lastSeq_nil (l : Nat) : lastSeq l [] = l := rfl
theorem lastSeq_concat (l : Nat) (A : List Group) (g : Group) : lastSeq l (A ++ [g]) = g.1 := by
  simp [lastSeq]

theorem lastSeq_cases (l : Nat) (A : List Group) :
    (A = [] ∧ lastSeq l A = l) ∨ ∃ A0 c, A = A0 ++ [c] ∧ lastSeq l A = c.1 := by
  rcases List.eq_nil_or_concat A with rfl | ⟨A0, c, hc⟩
  · exact Or.inl ⟨rfl, rfl⟩
  · rw [List.concat_eq_append] at hc
    subst hc
    exact Or.inr ⟨A0, c, rfl, lastSeq_concat _ _ _⟩

theorem lastSeq_lt (l n : Nat) (A : List Group) (hA : ∀ g ∈ A, g.1 < n) (hl : l < n) : lastSeq l A < n := by
  rcases lastSeq_cases l A with ⟨_, h⟩ | ⟨A0, c, rfl, h⟩
  · rw [h]; exact hl
  · rw [h]; exact hA c (by simp)

theorem lastSeq_le (l n : Nat) (A : List Group) (hA : ∀ g ∈ A, g.1 ≤ n) (hl : l ≤ n) : lastSeq l A ≤ n := by
  rcases lastSeq_cases l A with ⟨_, h⟩ | ⟨A0, c, rfl, h⟩
  · rw [h]; exact hl
  · rw [h]; exact hA c (by simp)

/-- boundaries of a strictly increasing history carry distinct sequence numbers -/
theorem lastSeq_inj (l : Nat) (A B A' B' : List Group)
    (hs : (A ++ B).Pairwise (fun a b => a.1 < b.1)) (hl : ∀ g ∈ A ++ B, l < g.1)
    (he : A ++ B = A' ++ B') (hq : lastSeq l A = lastSeq l A') : A = A' := by
  rcases List.append_eq_append_iff.1 he with ⟨C, hA', hB⟩ | ⟨C, hA, hB'⟩
  · rcases List.eq_nil_or_concat C with rfl | ⟨C0, c, hc⟩
    · simpa using hA'.symm
    · rw [List.concat_eq_append] at hc
      subst hc
      exfalso
      have h1 : lastSeq l A' = c.1 := by rw [hA', ← List.append_assoc]; exact lastSeq_concat _ _ _
      have hcB : c ∈ B := by rw [hB]; simp
      have h2 : lastSeq l A < c.1 := by
        apply lastSeq_lt
        · intro g hg
          rw [List.pairwise_append] at hs
          exact hs.2.2 g hg c hcB
        · exact hl c (by simp [hcB])
      omega
  · rcases List.eq_nil_or_concat C with rfl | ⟨C0, c, hc⟩
    · simpa using hA
    · rw [List.concat_eq_append] at hc
      subst hc
      exfalso
      have h1 : lastSeq l A = c.1 := by rw [hA, ← List.append_assoc]; exact lastSeq_concat _ _ _
      have hcA : c ∈ A := by rw [hA]; simp
      have h2 : lastSeq l A' < c.1 := by
        apply lastSeq_lt
        · intro g hg
          rw [List.pairwise_append] at hs
          have hsA := hs.1
          rw [hA, ← List.append_assoc, List.pairwise_append] at hsA
          exact hsA.2.2 g (by simp [hg]) c (by simp)
        · exact hl c (by simp [hcA])
      omega

/-- `lbuf_seq` under the history invariant -/
theorem seqAt_inv {T0 lb z pg fg} (h : Inv T0 lb z pg fg) : seqAt lb = lastSeq lb.useqLast pg.reverse := by
  cases pg with
  | nil =>
    have hU : lb.histU = 0 := by rw [h.histU]; rfl
    simp [seqAt, hU, lastSeq]
  | cons g ps =>
    have hgok := h.gok g (by simp)
    obtain ⟨G', e, hG⟩ : ∃ G' e, g.2 = G' ++ [e] := by
      rcases List.eq_nil_or_concat g.2 with h0 | ⟨l', b, hb⟩
      · exact absurd h0 hgok.1
      · exact ⟨l', b, by rw [hb, List.concat_eq_append]⟩
    have hes : e.seq = g.1 := hgok.2 e (by rw [hG]; simp)
    have hhist : lb.hist = ents ps.reverse ++ g.2 ++ ents fg := by rw [h.hist]; simp
    have hhU : lb.histU = (ents ps.reverse ++ g.2).length := by rw [h.histU]; simp
    have hU : lb.histU = (ents ps.reverse ++ G').length + 1 := by rw [hhU, hG]; simp; omega
    have hget : lb.hist[(ents ps.reverse ++ G').length]? = some e := by
      rw [hhist, hG, ← List.append_assoc, List.append_assoc (ents ps.reverse ++ G')]
      rw [List.getElem?_append_right (Nat.le_refl _)]
      simp
    have hl : lastSeq lb.useqLast (g :: ps).reverse = g.1 := by
      rw [List.reverse_cons]; exact lastSeq_concat _ _ _
    rw [hl]
    simp only [seqAt, hU, hget, hes]

theorem modified_fst (lb : Lb) : (modified lb).1 = (lb.unsaved || seqAt lb != lb.useqZero) := rfl

theorem savedCore_false (lb : Lb) :
    savedCore lb false = { lb with useqZero := seqAt lb, unsaved := false } := by
  simp [savedCore]

/-- keep the mark only if it is not above the cursor (`n` groups below it) -/
def keepMark (n : Nat) : Option Nat → Option Nat
  | some k => if k ≤ n then some k else none
  | none => none

structure MarkInv (T0 : Text) (lb : Lb) (all : List Group) (d : Option Text) (m : Option Nat) : Prop where
  last : ∀ g ∈ all, lb.useqLast < g.1
  lastlt : lb.useqLast < lb.useq
  zerolt : lb.useqZero < lb.useq
  uns : lb.unsaved = true → m = none
  mark : ∀ k, m = some k → lb.unsaved = false ∧ ∃ A B, all = A ++ B ∧ A.length = k ∧
    lb.useqZero = lastSeq lb.useqLast A ∧ d = some (applyFwd T0 (ents A))
  lost : m = none → lb.unsaved = false → lb.useqZero ≠ lb.useqLast ∧ ∀ g ∈ all, g.1 ≠ lb.useqZero

theorem markInv_make : MarkInv [] Lbuf.make [] (some []) (some 0) where
  last := by intro g hg; simp at hg
  lastlt := by decide
  zerolt := by decide
  uns := by intro h; simp [Lbuf.make] at h
  mark := by
    intro k hk
    simp only [Option.some.injEq] at hk
    subst hk
    exact ⟨rfl, [], [], rfl, rfl, rfl, rfl⟩
  lost := by intro h; simp at h

theorem markInv_congr {T0 lb lb' all d m} (h : MarkInv T0 lb all d m) (hf : Frame lb lb')
    (hu : lb'.useq = lb.useq) : MarkInv T0 lb' all d m := by
  obtain ⟨f1, f2, f3⟩ := hf
  exact
    { last := by rw [f3]; exact h.last
      lastlt := by rw [f3, hu]; exact h.lastlt
      zerolt := by rw [f1, hu]; exact h.zerolt
      uns := by rw [f2]; exact h.uns
      mark := by rw [f1, f2, f3]; exact h.mark
      lost := by rw [f1, f2, f3]; exact h.lost }

theorem markInv_bump {T0 lb all d m} (h : MarkInv T0 lb all d m) : MarkInv T0 (modified lb).2 all d m where
  last := h.last
  lastlt := Nat.lt_succ_of_lt h.lastlt
  zerolt := Nat.lt_succ_of_lt h.zerolt
  uns := h.uns
  mark := h.mark
  lost := h.lost

/-- a logging command at a cursor with the groups `P` below it and `F` above it -/
theorem markInv_trunc {T0 lb d m} (P F : List Group) (es : List Entry) (h : MarkInv T0 lb (P ++ F) d m)
    (hs : (P ++ F).Pairwise (fun a b => a.1 < b.1)) (hc : ∀ g ∈ P ++ F, g.1 < lb.useq) :
    MarkInv T0 lb (P ++ [(lb.useq, es)]) d (keepMark P.length m) where
  last := by
    intro g hg
    simp only [List.mem_append, List.mem_singleton] at hg
    rcases hg with hg | rfl
    · exact h.last g (by simp [hg])
    · exact h.lastlt
  lastlt := h.lastlt
  zerolt := h.zerolt
  uns := by intro hu; rw [h.uns hu]; rfl
  mark := by
    intro k hk
    cases m with
    | none => simp [keepMark] at hk
    | some k0 =>
      by_cases hle : k0 ≤ P.length
      · simp only [keepMark, hle, if_true, Option.some.injEq] at hk
        subst hk
        obtain ⟨hu, A, B, hAB, hlen, hz, hd⟩ := h.mark k0 rfl
        subst hlen
        have hA : A = P.take A.length := by
          have := congrArg (List.take A.length) hAB
          rw [List.take_append_of_le_length hle, List.take_left] at this
          exact this.symm
        refine ⟨hu, A, P.drop A.length ++ [(lb.useq, es)], ?_, rfl, hz, hd⟩
        rw [← List.append_assoc]
        congr 1
        conv => lhs; rw [← List.take_append_drop A.length P]
        rw [← hA]
      · simp [keepMark, hle] at hk
  lost := by
    intro hm hu
    cases m with
    | none =>
      obtain ⟨h1, h2⟩ := h.lost rfl hu
      refine ⟨h1, ?_⟩
      intro g hg
      simp only [List.mem_append, List.mem_singleton] at hg
      rcases hg with hg | rfl
      · exact h2 g (by simp [hg])
      · have := h.zerolt; simp only; omega
    | some k0 =>
      by_cases hle : k0 ≤ P.length
      · simp [keepMark, hle] at hm
      · obtain ⟨_, A, B, hAB, hlen, hz, _⟩ := h.mark k0 rfl
        subst hlen
        rcases List.append_eq_append_iff.1 hAB with ⟨C, hA, hF⟩ | ⟨C, hP, _⟩
        · rcases List.eq_nil_or_concat C with rfl | ⟨C0, c, hcc⟩
          · exfalso; rw [hA] at hle; simp at hle
          · rw [List.concat_eq_append] at hcc
            subst hcc
            have hz' : lb.useqZero = c.1 := by
              rw [hz, hA, ← List.append_assoc]; exact lastSeq_concat _ _ _
            have hcF : c ∈ F := by rw [hF]; simp
            refine ⟨?_, ?_⟩
            · have := h.last c (by simp [hcF]); omega
            · intro g hg
              simp only [List.mem_append, List.mem_singleton] at hg
              rcases hg with hg | rfl
              · rw [List.pairwise_append] at hs
                have := hs.2.2 g hg c hcF
                omega
              · have := hc c (by simp [hcF]); simp only; omega
        · exfalso; rw [hP] at hle; simp at hle

/-- `lbuf_saved(lb, 0)` and the bump -/
theorem markInv_saved {T0 lb z pg fg d m} (hi : Inv T0 lb z pg fg) (h : MarkInv T0 lb (pg.reverse ++ fg) d m) :
    MarkInv T0 (modified (savedCore lb false)).2 (pg.reverse ++ fg) (some lb.lines) (some pg.length) := by
  have hseq := seqAt_inv hi
  rw [savedCore_false]
  exact
    { last := h.last
      lastlt := Nat.lt_succ_of_lt h.lastlt
      zerolt := by
        show seqAt lb < lb.useq + 1
        rw [hseq]
        apply Nat.lt_succ_of_le
        apply lastSeq_le
        · intro g hg; exact hi.le g (by simp at hg; simp [hg])
        · exact Nat.le_of_lt h.lastlt
      uns := by intro hu; cases hu
      mark := by
        intro k hk
        simp only [Option.some.injEq] at hk
        subst hk
        refine ⟨rfl, pg.reverse, fg, rfl, by simp, hseq, ?_⟩
        rw [hi.lines]
      lost := by intro hm; cases hm }

/-- `lbuf_unsaved(lb)` -/
theorem markInv_partial {T0 lb all d m} (h : MarkInv T0 lb all d m) : MarkInv T0 (unsavedMark lb) all none none where
  last := h.last
  lastlt := h.lastlt
  zerolt := h.zerolt
  uns := fun _ => rfl
  mark := by intro k hk; cases hk
  lost := by intro _ hu; cases hu

/-- `lbuf_saved(lb, 1)` and the bump: the history is dropped, the present text is the new origin -/
theorem markInv_clear {T0 lb all d m} (_h : MarkInv T0 lb all d m) :
    MarkInv lb.lines (modified (savedCore lb true)).2 [] (some lb.lines) (some 0) where
  last := by intro g hg; simp at hg
  lastlt := by simp [savedCore, modified]
  zerolt := by simp [savedCore, modified, seqAt]
  uns := by intro hu; simp [savedCore, modified] at hu
  mark := by
    intro k hk
    simp only [Option.some.injEq] at hk
    subst hk
    refine ⟨by simp [savedCore, modified], [], [], rfl, rfl, ?_, rfl⟩
    simp [savedCore, modified, seqAt, lastSeq]
  lost := by intro hm; cases hm

theorem inv_clear {T0 lb z pg fg} (hi : Inv T0 lb z pg fg) :
    Inv lb.lines (modified (savedCore lb true)).2 { present := z.present } [] [] where
  hist := by simp [savedCore, modified]
  histU := by simp [savedCore, modified]
  gok := by intro g hg; simp at hg
  sorted := by simp
  le := by intro g hg; simp at hg
  closed := by intro _ g hg; simp at hg
  opened := by intro hc; simp at hc
  chain := by simp [savedCore, modified, Chain]
  lines := by simp [savedCore, modified, applyFwd]
  wf0 := hi.wf
  present := by simp [savedCore, modified, hi.present]
  past := rfl
  future := rfl

/-- **the dirty flag, characterised**: `lbuf_modified` reports clean exactly when the mark sits at
    the cursor -/
theorem clean_iff_mark {T0 lb z pg fg d m} (hi : Inv T0 lb z pg fg)
    (h : MarkInv T0 lb (pg.reverse ++ fg) d m) : (modified lb).1 = false ↔ m = some pg.length := by
  have hseq := seqAt_inv hi
  rw [modified_fst]
  constructor
  · intro hcl
    simp only [Bool.or_eq_false_iff, bne_eq_false_iff_eq] at hcl
    obtain ⟨hu, hz⟩ := hcl
    rw [hseq] at hz
    cases m with
    | none =>
      exfalso
      obtain ⟨h1, h2⟩ := h.lost rfl hu
      rcases lastSeq_cases lb.useqLast pg.reverse with ⟨_, hq⟩ | ⟨A0, c, hA, hq⟩
      · rw [hq] at hz; exact h1 hz.symm
      · rw [hq] at hz
        exact h2 c (by rw [hA]; simp) hz
    | some k =>
      obtain ⟨_, A, B, hAB, hlen, hz', _⟩ := h.mark k rfl
      have hA : pg.reverse = A :=
        lastSeq_inj lb.useqLast pg.reverse fg A B hi.sorted h.last hAB (by rw [hz, hz'])
      rw [← hlen, ← hA]; simp
  · intro hm
    obtain ⟨hu, A, B, hAB, hlen, hz, _⟩ := h.mark _ hm
    have hA : pg.reverse = A := by
      have := List.append_inj_left hAB (by rw [hlen]; simp)
      exact this
    rw [hu, hseq, hz, hA]
    simp

/-- ... and then the file holds the buffer's text -/
theorem mark_here_text {T0 lb z pg fg d m} (hi : Inv T0 lb z pg fg)
    (h : MarkInv T0 lb (pg.reverse ++ fg) d m) (hm : m = some pg.length) : d = some lb.lines := by
  obtain ⟨_, A, B, hAB, hlen, _, hd⟩ := h.mark _ hm
  have hA : pg.reverse = A := List.append_inj_left hAB (by rw [hlen]; simp)
  rw [hd, ← hA, hi.lines]

end Neatvi.Lemmas.C02
