import NeatviVerif.Lemmas.C08bJoin
/-!
# C08: the case loop of `vi_case`, and `vi_shift`
-/
set_option linter.unusedSimpArgs false
namespace Neatvi.Lemmas.C08b
open Neatvi Neatvi.Uc Neatvi.Vi Neatvi.Ex Neatvi.Spec Neatvi.Lemmas.C08 Neatvi.Lemmas.C09

/-- what `~` / `gu` / `gU` / `g~` do to one code point: only ASCII is touched -/
def caseCp (cmd c : Nat) : Nat :=
  if c ≤ 127 then
    (if cmd == 117 then lowerB c else if cmd == 85 then upperB c
     else if cmd == 126 then (if 97 ≤ c && c ≤ 122 then upperB c else lowerB c) else c)
  else c

theorem caseCp_lt (cmd c : Nat) (h : c < 128) : caseCp cmd c < 128 ∧ (0 < c → 0 < caseCp cmd c) := by
  unfold caseCp lowerB upperB
  rw [if_pos (by omega)]
  repeat' split
  all_goals first | omega | (simp at *; omega)

theorem caseCp_valid (cmd c : Nat) (h : ValidCp c) : ValidCp (caseCp cmd c) := by
  by_cases hlt : c < 128
  · have := caseCp_lt cmd c hlt
    exact ⟨this.2 h.1, by omega⟩
  · unfold caseCp; rw [if_neg (by omega)]; exact h

/-- **the case loop on valid UTF-8** maps code point by code point -/
theorem caseMap_enc (cmd : Nat) : ∀ (cs : List Nat) (f : Nat), (∀ c ∈ cs, ValidCp c) → cs.length ≤ f →
    caseMap cmd f (encStr cs) = encStr (cs.map (caseCp cmd)) := by
  intro cs
  induction cs with
  | nil => intro f _ _; cases f <;> simp [caseMap]
  | cons c cs ih =>
    intro f hv hf
    obtain ⟨f, rfl⟩ : ∃ g, f = g + 1 := ⟨f - 1, by simp at hf; omega⟩
    have hc := hv c (by simp)
    obtain ⟨a, t, he, hch⟩ := enc_chr hc
    have hlen := Props.C16.len_enc hc
    rw [he] at hlen
    simp only [Bytes.hd_cons, List.length_cons] at hlen
    rw [List.map_cons, encStr_cons, encStr_cons, he, List.cons_append, caseMap]
    rw [hlen, show max 1 (t.length + 1) = t.length + 1 by omega]
    simp only [List.drop_succ_cons, List.drop_zero, Nat.add_sub_cancel]
    rw [List.take_left' rfl, List.drop_left' rfl, ih f (fun d hd => hv d (by simp [hd])) (by simp at hf; omega)]
    congr 1
    by_cases hlt : c < 128
    · have hct : enc c = [c] := by unfold enc; rw [if_pos hlt]
      rw [hct] at he
      injection he with ha ht
      subst ha; subst ht
      have hcc := caseCp_lt cmd c hlt
      have : enc (caseCp cmd c) = [caseCp cmd c] := by unfold enc; rw [if_pos hcc.1]
      rw [this]
      unfold caseCp
      rfl
    · have ha : 127 < a := by
        rcases hch.lead with ⟨h1, h2⟩ | h1
        · exfalso
          unfold enc at he
          rw [if_neg hlt] at he
          split at he
          · injection he with he1 _; omega
          split at he
          · injection he with he1 _; omega
          · injection he with he1 _; omega
        · omega
      have : caseCp cmd c = c := by unfold caseCp; rw [if_neg (by omega)]
      rw [this, he, if_neg (by omega)]

/-! ### `vi_shift` -/

/-- what `>` (`dir > 0`) and `<` do to one line: a tab in front of a non-empty line; one leading blank removed -/
def shiftLine (dir : Int) (ln : Bytes) : Bytes :=
  if dir > 0 then (if ln.headD 0 != 10 then 9 :: ln else ln)
  else (if isBlankC (ln.headD 0) then ln.drop 1 else ln)

theorem shiftLine_wf (dir : Int) (ln : Bytes) (h : Props.C01.WfLine ln) : Props.C01.WfLine (shiftLine dir ln) := by
  obtain ⟨w, rfl, hw⟩ := h
  unfold shiftLine
  split
  · split
    · exact ⟨9 :: w, rfl, by simp [hw]⟩
    · exact ⟨w, rfl, hw⟩
  · split
    · rename_i hb
      cases w with
      | nil => simp [isBlankC] at hb
      | cons x t => exact ⟨t, rfl, fun h => hw (by simp [h])⟩
    · exact ⟨w, rfl, hw⟩

theorem splice_step {α : Type} (L : List α) (j k : Nat) (x y : α) (g : α → α) (hx : L[j]? = some x) (hy : y = g x) :
    (L.take j ++ [y] ++ L.drop (j + 1)).take (j + 1) ++
        (((L.take j ++ [y] ++ L.drop (j + 1)).drop (j + 1)).take k).map g ++
        (L.take j ++ [y] ++ L.drop (j + 1)).drop (j + 1 + k) =
      L.take j ++ ((L.drop j).take (k + 1)).map g ++ L.drop (j + (k + 1)) := by
  have hj : j < L.length := (List.getElem?_eq_some_iff.mp hx).1
  have hlen : (L.take j ++ [y]).length = j + 1 := by simp; omega
  have e1 : (L.take j ++ [y] ++ L.drop (j + 1)).take (j + 1) = L.take j ++ [y] := List.take_left' hlen
  have e2 : (L.take j ++ [y] ++ L.drop (j + 1)).drop (j + 1) = L.drop (j + 1) := List.drop_left' hlen
  have e3 : (L.take j ++ [y] ++ L.drop (j + 1)).drop (j + 1 + k) = L.drop (j + 1 + k) := by
    rw [← List.drop_drop, e2, List.drop_drop]
  have e4 : L.drop j = x :: L.drop (j + 1) := by
    rw [List.drop_eq_getElem?_toList_append, hx]; rfl
  rw [e1, e2, e3, e4, List.take_succ_cons, List.map_cons, ← hy]
  rw [show j + (k + 1) = j + 1 + k by omega]
  simp

theorem all_wf_splice (L : List Bytes) (j : Nat) (y : Bytes) (h : ∀ l ∈ L, Props.C01.WfLine l) (hy : Props.C01.WfLine y) :
    ∀ l ∈ L.take j ++ [y] ++ L.drop (j + 1), Props.C01.WfLine l := by
  intro l hl
  rcases List.mem_append.mp hl with hl | hl
  · rcases List.mem_append.mp hl with hl | hl
    · exact h l (List.mem_of_mem_take hl)
    · simp at hl; subst hl; exact hy
  · exact h l (List.mem_of_mem_drop hl)

/-- the loop of `vi_shift` over `k` existing rows starting at `i` -/
theorem shift_go (r2 dir : Int) : ∀ (k f : Nat) (i : Int) (s : VS), 0 ≤ i → i + k = r2 + 1 → k ≤ f → r2 < lenOf s →
    (∀ l ∈ Vi.lines s, Props.C01.WfLine l) →
    ∃ s', viShift.go r2 dir f i s = Res.ok () s' ∧
      Vi.lines s' = (Vi.lines s).take i.toNat ++ (((Vi.lines s).drop i.toNat).take k).map (shiftLine dir) ++
        (Vi.lines s).drop (i.toNat + k) ∧
      s'.ed = { s.ed with bufs := s'.ed.bufs } ∧ s' = { s with ed := s'.ed } := by
  intro k
  induction k with
  | zero =>
    intro f i s _ hi _ _ _
    refine ⟨s, ?_, by simp, rfl, rfl⟩
    cases f with
    | zero => rw [viShift.go]; rfl
    | succ f => rw [viShift.go, if_pos (by omega)]; rfl
  | succ k ih =>
    intro f i s h0 hi hf hlen hwf
    obtain ⟨f, rfl⟩ : ∃ g, f = g + 1 := ⟨f - 1, by omega⟩
    have hlt : i.toNat < (Vi.lines s).length := by unfold lenOf at hlen; omega
    obtain ⟨ln, hln⟩ : ∃ ln, (Vi.lines s)[i.toNat]? = some ln := ⟨_, List.getElem?_eq_getElem hlt⟩
    have hl := lineOf_of_get s i ln h0 hln
    obtain ⟨lb, hlb⟩ := lb_of_line s _ _ hln
    have hlnwf : Props.C01.WfLine ln := hwf ln (List.mem_of_getElem? hln)
    have hwf' := shiftLine_wf dir ln hlnwf
    obtain ⟨ed', he1, he2, he3⟩ := edEdit_spec s (shiftLine dir ln) i (i + 1) lb hlb h0 (by omega)
      (by unfold lenOf; omega)
    rw [splitLines_wf _ hwf', show (i + 1).toNat = i.toNat + 1 by omega] at he2
    have hlines1 : Vi.lines { s with ed := ed' } = (Vi.lines s).take i.toNat ++ [shiftLine dir ln] ++ (Vi.lines s).drop (i.toNat + 1) := he2
    obtain ⟨s', h1, h2, h3, h4⟩ := ih f (i + 1) { s with ed := ed' } (by omega) (by omega) (by omega)
      (by
        unfold lenOf; rw [hlines1]
        simp only [List.length_append, List.length_take, List.length_drop, List.length_singleton]
        unfold lenOf at hlen; omega)
      (by rw [hlines1]; exact all_wf_splice _ _ _ hwf hwf')
    refine ⟨s', ?_, ?_, ?_, ?_⟩
    · rw [viShift.go, if_neg (by omega)]
      simp only [bind_apply, get_apply, hl]
      have : (if dir > 0 then (if ln.headD 0 != 10 then 9 :: ln else ln)
          else (if isBlankC (ln.headD 0) then ln.drop 1 else ln)) = shiftLine dir ln := rfl
      rw [this, he1]
      exact h1
    · rw [h2, hlines1, show (i + 1).toNat = i.toNat + 1 by omega]
      exact splice_step (Vi.lines s) i.toNat k ln _ (shiftLine dir) hln rfl
    · rw [h3]
      show ({ ed' with bufs := s'.ed.bufs } : Ed) = _
      rw [he3]
    · rw [h4]

end Neatvi.Lemmas.C08b
