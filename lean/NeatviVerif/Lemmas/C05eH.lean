import NeatviVerif.Lemmas.C05eG
/-!
# C05e lemmas, part H: `:g`

The scan of `ec_glob` with its three ways to fail told apart: `scanT` is the text of `ecGlob.scan` with the result
`done` / `budget` (the step budget of the model ran out) / `trap` (a line that is not there, the matcher, a command
line that traps, a negative index).  `scan_eq` says it is the same function; `scanT_no_trap` that `trap` does not
happen from a safe state when the command line the scan runs returns.  What remains is the budget, which is the
model's stand-in for "the loop does not terminate".
-/
namespace Neatvi.Lemmas.C05e
open Neatvi Neatvi.Lbuf Neatvi.LbufIo Neatvi.Ex Neatvi.Rset
open Neatvi.Lemmas.ExFrame Neatvi.Lemmas.C02Ex Neatvi.Lemmas.C02b Neatvi.Lemmas.C06

inductive ScanRes where
  | done (ed : Ed)
  | budget
  | trap

def ScanRes.toOption : ScanRes → Option Ed
  | .done ed => some ed
  | .budget => none
  | .trap => none

/-- `ecGlob.scan`, telling the failures apart -/
def scanT (f : Nat) (neg : Bool) (s : Bytes) (re : RStr) (dep : Nat) : Nat → Ed → Int → ScanRes
  | 0, _, _ => .budget
  | g + 1, ed, i =>
    if i ≥ ed.len then .done ed else
    match ed.line i with
    | none => .trap
    | some ln =>
      match rstrFind re ln 16 0 ND NG with
      | none => .trap
      | some (res, _, _) =>
        let stepres : Option (Bool × Ed × Int) :=
          if (res < 0) == neg then
            (match exExec f { ed with xrow := i } s with
            | none => none
            | some (r, ed) => if r != 0 then some (true, ed, i) else some (false, ed, max 0 (min i ed.xrow)))
          else some (false, ed, i)
        match stepres with
        | none => .trap
        | some (true, ed, _) => .done ed
        | some (false, ed, i) =>
          if i < 0 then .trap else
          scanT f neg s re dep g (ecGlob.scan.adv dep (ed.len.toNat + 1) ed i).1 (ecGlob.scan.adv dep (ed.len.toNat + 1) ed i).2

theorem scan_eq (f : Nat) (neg : Bool) (s : Bytes) (re : RStr) (dep : Nat) : ∀ (g : Nat) (ed : Ed) (i : Int),
    ecGlob.scan f neg s re dep g ed i = (scanT f neg s re dep g ed i).toOption := by
  intro g
  induction g with
  | zero => intro ed i; rw [ecGlob.scan, scanT]; rfl
  | succ g ih =>
    intro ed i
    rw [ecGlob.scan, scanT]
    split
    · rfl
    · cases ed.line i with
      | none => rfl
      | some ln =>
        dsimp only
        cases rstrFind re ln 16 0 ND NG with
        | none => rfl
        | some p =>
          obtain ⟨res, o, c⟩ := p
          dsimp only
          generalize (if ((res < 0) == neg) = true then
              (match exExec f { ed with xrow := i } s with
              | none => none
              | some (r, ed) => if (r != 0) = true then some (true, ed, i) else some (false, ed, max 0 (min i ed.xrow)))
            else some (false, ed, i) : Option (Bool × Ed × Int)) = sr
          cases sr with
          | none => rfl
          | some t =>
            obtain ⟨b, ed1, i1⟩ := t
            cases b with
            | true => rfl
            | false =>
              dsimp only
              split
              · rfl
              · exact ih _ _


theorem adv_safe (dep : Nat) : ∀ (h : Nat) (ed : Ed) (i : Int), Safe ed → 0 ≤ i →
    Safe (ecGlob.scan.adv dep h ed i).1 ∧ (ecGlob.scan.adv dep h ed i).1.atDepth = ed.atDepth ∧
      0 ≤ (ecGlob.scan.adv dep h ed i).2 := by
  intro h
  induction h with
  | zero => intro ed i hs hi; rw [ecGlob.scan.adv]; exact ⟨hs, rfl, hi⟩
  | succ h ih =>
    intro ed i hs hi
    rw [ecGlob.scan.adv]
    split
    · exact ⟨hs, rfl, hi⟩
    · cases hl : ed.lb with
      | none => exact ⟨hs, rfl, hi⟩
      | some lb =>
        dsimp only
        have hg : GoodLb lb := edInv_lb hs.inv hl
        have h1 : Safe (ed.setLb (globGet lb i.toNat dep).2) := hs.setLb (hg.globGet _ _)
        split
        · exact ⟨h1, setLb_atDepth _ _, hi⟩
        · obtain ⟨a, b, c⟩ := ih (ed.setLb (globGet lb i.toNat dep).2) (i + 1) h1 (by omega)
          exact ⟨a, b.trans (setLb_atDepth _ _), c⟩

/-- the result of a scan that did not stop for its budget -/
def ScanGood (d : Nat) : ScanRes → Prop
  | .done e => Safe e ∧ e.atDepth = d
  | .budget => True
  | .trap => False

/-- **the scan of `:g` does not trap**: from a safe state and a row `≥ 0`, with a matcher that does not trap and a
    command line that returns whenever it is run, the scan ends (`done`) or stops for its step budget -/
theorem scanT_no_trap (hre : ReSafe) {pat : Bytes} {flg : Nat} {re : RStr} (hm : rstrMake pat flg = some (some re))
    (f : Nat) (neg : Bool) (s : Bytes) (dep d : Nat)
    (hbody : ∀ (ed' : Ed) (i' : Int), Safe ed' → ed'.atDepth = d → Ret d (exExec f { ed' with xrow := i' } s)) :
    ∀ (g : Nat) (ed : Ed) (i : Int), Safe ed → ed.atDepth = d → 0 ≤ i → ScanGood d (scanT f neg s re dep g ed i) := by
  intro g
  induction g with
  | zero => intro ed i _ _ _; rw [scanT]; trivial
  | succ g ih =>
    intro ed i hs hd hi
    rw [scanT]
    split
    · exact ⟨hs, hd⟩
    · rename_i hlt
      obtain ⟨ln, hln⟩ := line_some ed i hi (by omega)
      rw [hln]
      dsimp only
      have hf := hre.find pat flg re ln 16 0 hm
      cases hfe : rstrFind re ln 16 0 ND NG with
      | none => exact absurd hfe hf
      | some p =>
        obtain ⟨res, o, c⟩ := p
        dsimp only
        have hsr : ∃ b ed1 i1, (if ((res < 0) == neg) = true then
              (match exExec f { ed with xrow := i } s with
              | none => none
              | some (r, ed) => if (r != 0) = true then some (true, ed, i) else some (false, ed, max 0 (min i ed.xrow)))
            else some (false, ed, i) : Option (Bool × Ed × Int)) = some (b, ed1, i1) ∧ Safe ed1 ∧ ed1.atDepth = d ∧ 0 ≤ i1 := by
          split
          · obtain ⟨r, ed1, he, h1, hd1⟩ := hbody ed i hs hd
            rw [he]
            dsimp only
            split
            · exact ⟨_, _, _, rfl, h1, hd1, hi⟩
            · exact ⟨_, _, _, rfl, h1, hd1, by omega⟩
          · exact ⟨_, _, _, rfl, hs, hd, hi⟩
        obtain ⟨b, ed1, i1, hsr, h1, hd1, hi1⟩ := hsr
        rw [hsr]
        cases b with
        | true => exact ⟨h1, hd1⟩
        | false =>
          dsimp only
          rw [if_neg (by omega)]
          obtain ⟨a1, a2, a3⟩ := adv_safe dep (ed1.len.toNat + 1) ed1 i1 h1 hi1
          exact ih _ _ a1 (a2.trans hd1) a3


/-! ### the handler -/

theorem gPrep_bufs (ed : Ed) (arg : Bytes) : (gPrep ed arg).bufs = ed.bufs := by
  unfold gPrep
  repeat' split
  all_goals rfl

theorem gPrep_kwd (ed : Ed) (arg : Bytes) (h0 : 0 ∉ arg) (hk : 0 ∉ ed.xkwd) : 0 ∉ (gPrep ed arg).xkwd :=
  kwEd_nul ed arg 1 h0 hk

theorem gPrep_atDepth (ed : Ed) (arg : Bytes) : (gPrep ed arg).atDepth = ed.atDepth := by
  unfold gPrep
  repeat' split
  all_goals rfl

theorem gMark_safe {ed : Ed} (h : Safe ed) (b e : Int) (dep : Nat) :
    Safe (gMark ed b e dep) ∧ (gMark ed b e dep).atDepth = ed.atDepth := by
  unfold gMark
  refine foldl_safe' (fun s : Ed => Safe s ∧ s.atDepth = ed.atDepth) _ ?_ _ _ ⟨h.of_bufs rfl, rfl⟩
  intro s k hs
  cases hl : s.lb with
  | none => exact hs
  | some lb =>
    dsimp only
    exact ⟨hs.1.setLb ((edInv_lb hs.1.inv hl).globSet _ _), (setLb_atDepth _ _).trans hs.2⟩

theorem gSweep_safe {ed : Ed} (h : Safe ed) (dep : Nat) : Safe (gSweep ed dep) ∧ (gSweep ed dep).atDepth = ed.atDepth := by
  unfold gSweep
  cases hl : ed.lb with
  | none => exact ⟨h, rfl⟩
  | some lb =>
    dsimp only
    refine ⟨h.setLb ?_, setLb_atDepth _ _⟩
    exact foldl_safe' GoodLb _ (fun l k hg => hg.globGet _ _) _ _ (edInv_lb h.inv hl)

/-- **`:g`**: total when the command line it runs returns and the scan does not exhaust its step budget -/
theorem ecGlob_ret (hre : ReSafe) (f : Nat) {ed : Ed} (h : Safe ed) (loc cmd arg : Bytes) (hloc : 0 ∉ loc) (harg : 0 ∉ arg)
    (hbody : ∀ (ed' : Ed) (i' : Int), Safe ed' → ed'.atDepth = ed.atDepth →
      Ret ed.atDepth (exExec f { ed' with xrow := i' } (reRead arg).2))
    (hbud : ∀ (re : RStr) (dep : Nat) (ed0 : Ed) (b : Int), Safe ed0 → ed0.atDepth = ed.atDepth → dep ≤ 7 → 0 ≤ b →
      scanT f (hasBang cmd || cmd.headD 0 == 118) (reRead arg).2 re dep (gBudget ed0) ed0 b ≠ ScanRes.budget) :
    Ret ed.atDepth (ecGlob (f + 1) ed loc cmd arg) := by
  rw [ecGlob_eq']
  by_cases hdeep : ed.xgdep ≥ 7
  · rw [if_pos hdeep]; exact Ret.mk (h.show _) rfl
  rw [if_neg hdeep]
  obtain ⟨rc, b, e, ed1, hr, h1, hd1, hrc, hin, _⟩ := region_cases hre h (if loc.isEmpty && ed.xgdep == 0 then [37] else loc) (by split <;> simp [hloc])
  have hao : AddrOnly ed ed1 := (region_all _ _ _ _ _ _ hr).1
  rw [hr]
  dsimp only
  split
  · exact Ret.mk h1 hd1
  · rename_i hc
    have h0 : rc = 0 := by
      rcases hrc with h0 | h1'
      · exact h0
      · subst h1'; simp at hc
    have h2 : Safe (gPrep ed1 arg) := ⟨edInv_of_bufs (gPrep_bufs ed1 arg) h1.inv, by rw [cur_congr (gPrep_bufs ed1 arg)]; exact h1.cur, gPrep_kwd ed1 arg harg h1.kwd⟩
    have hd2 : (gPrep ed1 arg).atDepth = ed.atDepth := (gPrep_atDepth ed1 arg).trans hd1
    split
    · exact Ret.mk h2 hd2
    · rcases hre.mkRe (gPrep ed1 arg) (gPrep ed1 arg).xkwd h2.kwd with hmk | ⟨re, hmk⟩
      · rw [hmk]; exact Ret.mk h2 hd2
      · rw [hmk]
        dsimp only
        obtain ⟨h3, hd3⟩ := gMark_safe h2 b e ((gPrep ed1 arg).xgdep + 1)
        have hgood := scanT_no_trap hre hmk f (hasBang cmd || cmd.headD 0 == 118) (reRead arg).2
          ((gPrep ed1 arg).xgdep + 1) ed.atDepth hbody
          (gBudget (gMark (gPrep ed1 arg) b e ((gPrep ed1 arg).xgdep + 1)))
          (gMark (gPrep ed1 arg) b e ((gPrep ed1 arg).xgdep + 1)) b h3 (hd3.trans hd2) (hin h0).1
        have hxg : (gPrep ed1 arg).xgdep = ed.xgdep := by
          have e1 : ed1.xgdep = ed.xgdep := by obtain ⟨_, _, _, rfl⟩ := hao; rfl
          have e2 : (gPrep ed1 arg).xgdep = ed1.xgdep := by
            unfold gPrep
            repeat' split
            all_goals rfl
          rw [e2, e1]
        have hnb := hbud re ((gPrep ed1 arg).xgdep + 1) (gMark (gPrep ed1 arg) b e ((gPrep ed1 arg).xgdep + 1)) b h3
          (hd3.trans hd2) (by rw [hxg]; omega) (hin h0).1
        rw [scan_eq]
        cases hsc : scanT f (hasBang cmd || cmd.headD 0 == 118) (reRead arg).2 re ((gPrep ed1 arg).xgdep + 1)
            (gBudget (gMark (gPrep ed1 arg) b e ((gPrep ed1 arg).xgdep + 1)))
            (gMark (gPrep ed1 arg) b e ((gPrep ed1 arg).xgdep + 1)) b with
        | budget => exact absurd hsc hnb
        | trap => rw [hsc] at hgood; exact absurd hgood (by simp [ScanGood])
        | done ed2 =>
          rw [hsc] at hgood
          obtain ⟨h4, hd4⟩ := hgood
          obtain ⟨h5, hd5⟩ := gSweep_safe h4 ((gPrep ed1 arg).xgdep + 1)
          exact Ret.mk (h5.of_bufs rfl) (hd5.trans hd4)

theorem run_glob (hre : ReSafe) (f : Nat) {ed : Ed} (h : Safe ed) (loc cmd arg : Bytes) (txt : Option Bytes)
    (hloc : 0 ∉ loc) (harg : 0 ∉ arg) (hbody : ∀ (ed' : Ed) (i' : Int), Safe ed' → ed'.atDepth = ed.atDepth →
      Ret ed.atDepth (exExec f { ed' with xrow := i' } (reRead arg).2))
    (hbud : ∀ (re : RStr) (dep : Nat) (ed0 : Ed) (b : Int), Safe ed0 → ed0.atDepth = ed.atDepth → dep ≤ 7 → 0 ≤ b →
      scanT f (hasBang cmd || cmd.headD 0 == 118) (reRead arg).2 re dep (gBudget ed0) ed0 b ≠ ScanRes.budget) :
    Ret ed.atDepth (runCmd (f + 2) ed "ec_glob" loc cmd arg txt) := by
  rw [runCmd]
  simp (config := {decide := true}) only [if_false, if_true]
  exact ecGlob_ret hre f h loc cmd arg hloc harg hbody hbud

end Neatvi.Lemmas.C05e
