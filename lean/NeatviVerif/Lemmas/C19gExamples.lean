import NeatviVerif.Lemmas.C19gRun
import NeatviVerif.Lemmas.C20cEx
/-!
# C19g: concrete states and runs

* `edTwo`: two buffers with different horizontal scroll positions — "a" current with `xleft = 79`, "b"
  parked with `left = 5`; `:b 2` stepped through `ex_command` by hand (the functions of the mutual
  block of `Model/ExCmd.lean` are defined by well-founded recursion, the kernel does not evaluate
  them): `xleft` becomes 5, the table remembers 79 for "a";
* `tabInit`: the state `vi()` starts in on the file `"\tabc\n"` — the finding about the first
  terminal cursor position;
* `#guard` checks (evaluated by the interpreter when the file is compiled — a regression check of
  the evaluation the conjectures were tested with, not a proof): the whole run
  `$`, `:e fb`, `:b 1`, `:b 2` from `ex_init` on a file with a 120-character line.
-/
set_option linter.unusedSimpArgs false
set_option linter.unusedVariables false

namespace Neatvi.Lemmas.C19g
open Neatvi Neatvi.Uc Neatvi.Lbuf Neatvi.Ex Neatvi.Vi Neatvi.Render
open Neatvi.Lemmas.C19f
open Neatvi.Lemmas.C20c (exExec_single)
open Neatvi.Lemmas.C06b Neatvi.Props.C06b
open Neatvi.Props.C05c (iterate)

/-! ### `:b 2` between two buffers with different `xleft` -/

/-- "a" (a 120-character line, cursor on its last character, window scrolled to column 79) is
    current, "b" is parked with the window it was left with at column 5; `wa` is set so that the
    unsaved-changes guard of `:b` passes -/
def edTwo : Ed :=
  { bufs := [some { path := [97], lb := { lines := [longLn] }, id := 1 },
             some { path := [98], lb := { lines := [longLn, shortLn] }, id := 2, row := 1, left := 5 }],
    bufsCnt := 2, xoff := 119, xleft := 79, xwa := 1 }

theorem edTwo_lOk : LOk edTwo := by
  refine ⟨by decide, fun bf hbf => ?_⟩
  simp only [edTwo, List.mem_cons, Option.some.injEq, List.not_mem_nil, or_false] at hbf
  rcases hbf with rfl | rfl <;> decide

/-- `:b 2` as a command line -/
theorem edTwo_line (f : Nat) : exExec (f + 2) edTwo [98, 32, 50] = some (0, edTwo.bufsSwitch 1) := by
  refine exExec_single (f + 1) edTwo (edTwo.bufsSwitch 1) _ [98] "ec_buffer" 0 (by decide) (by decide) (by decide +kernel) (by decide)
    (by decide +kernel) ?_
  rw [show (parse1 [98, 32, 50]).arg = [50] by decide +kernel]
  exact Props.C20.b_number f edTwo edTwo _ _ [50] none 1
    { path := [98], lb := { lines := [longLn, shortLn] }, id := 2, row := 1, left := 5 }
    (by decide) rfl (by decide +kernel)
    (by
      intro j b' hj hb'
      have : j = 0 := by omega
      subst this
      have e : b' = { path := [97], lb := { lines := [longLn] }, id := 1 } := by
        have : edTwo.bufs.getD 0 none = some { path := [97], lb := { lines := [longLn] }, id := 1 } := rfl
        rw [this] at hb'; cases hb'; rfl
      rw [e]; decide +kernel)
    rfl

/-- ... and through `ex_command` with the fuel the vi level gives it -/
theorem edTwo_command : exCommand 64 edTwo [98, 32, 50] = some (0, ((edTwo.bufsSwitch 1).modifiedAt 0).2) := by
  rw [exCommand, edTwo_line 61]

/-- after `:b 2`: `xleft` is the 5 saved for "b", and the table remembers 79 for "a" -/
theorem edTwo_after :
    (((edTwo.bufsSwitch 1).modifiedAt 0).2.xleft,
      ((edTwo.bufsSwitch 1).modifiedAt 0).2.bufs.map (fun b => b.map (fun x => (x.path, x.left)))) =
      (5, [some ([98], 5), some ([97], 79)]) := by decide +kernel

theorem edTwo_xleft : ((edTwo.bufsSwitch 1).modifiedAt 0).2.xleft = 5 := congrArg Prod.fst edTwo_after

/-! ### the first terminal cursor position -/

/-- the buffer of the file `"\tabc\n"` as `ex_init` delivers it (`xleft = 0`, row 0) — but with `td = 0`
    instead of `td = 1`, so that `dir_context` of an ASCII line is decided without the regex engine (which
    the kernel does not evaluate); for the state `ex_init` really delivers the interpreter gives the
    same view (the last `#guard` below) -/
def tabEd : Ed := { bufs := [some { path := [102, 97], lb := { lines := [[9, 97, 98, 99, 10]] }, id := 1 }], bufsCnt := 1 }

/-- the state `vi()` starts in, the key `0` to come -/
def tabInit : VS := viInit tabEd [48] 23 80

/-- `[xrow, xoff, xcol, xleft, ren_cursor(xcol), vi_pos(ren_cursor(xcol)), vi_pos(xcol)]` at the start and
    after `0`: the same state as far as the cursor goes; the tab takes columns 0–7 -/
theorem tabInit_views : view tabInit = [0, 0, 0, 0, 7, 7, 0] ∧ viewAfter 1 tabInit = some [0, 0, 0, 0, 7, 7, 0] := by
  constructor <;> decide +kernel

/-! ### whole runs, evaluated -/

/-- a 120-character line and `short` -/
def twoFile : Bytes := List.replicate 120 97 ++ [10] ++ [115, 104, 111, 114, 116, 10]

/-- `[xrow, xoff, xcol, xleft]` and the `left`s saved in the table -/
def lview (s : VS) : List Int × List Int :=
  ([s.ed.xrow, s.ed.xoff, s.xcol, s.ed.xleft], s.ed.bufs.filterMap (fun b => b.map (·.left)))

/-- the state after `n` commands of the run of `keys` on the file (`ex_init`, `viInit`, `viStep`s) -/
def lviewAfter (file : Bytes) (keys : Bytes) (n : Nat) : Option (List Int × List Int) :=
  (initState (some file) keys 24 80).bind (fun s0 => (iterate n s0).map lview)

/-- `$`, `:e fb`, `:b 1`, `:b 2` -/
def twoKeys : Bytes := strOf "$:e fb\n:b 1\n:b 2\n"

-- start: nothing scrolled
#guard lviewAfter twoFile twoKeys 0 == some ([0, 0, 0, 0], [0])
-- `$`: the window scrolls to column 79
#guard lviewAfter twoFile twoKeys 1 == some ([0, 119, 119, 79], [0])
-- `:e fb`: a new buffer, `xleft = 0`; the table remembers 79 for "fa"
#guard lviewAfter twoFile twoKeys 2 == some ([0, 0, 0, 0], [0, 79])
-- `:b 1`: back to "fa" and to column 79
#guard lviewAfter twoFile twoKeys 3 == some ([0, 119, 119, 79], [79, 0])
-- `:b 2`: "fb" again, column 0
#guard lviewAfter twoFile twoKeys 4 == some ([0, 0, 0, 0], [0, 79])
-- the column window and `0 ≤ xleft` in every one of these states
#guard (List.range 5).all (fun n =>
  match (initState (some twoFile) twoKeys 24 80).bind (fun s0 => iterate n s0) with
  | some s => decide (ColWin s) && decide (0 ≤ s.ed.xleft)
  | none => false)
-- `ex_init` on `"\tabc\n"` delivers the state of the finding, as far as `view` looks
#guard (initState (some [9, 97, 98, 99, 10]) [48] 24 80).map view == some (view tabInit)

end Neatvi.Lemmas.C19g

namespace Neatvi.Lemmas.C19g
open Neatvi Neatvi.Uc Neatvi.Lbuf Neatvi.Ex Neatvi.Vi Neatvi.Render
open Neatvi.Lemmas.C19f
open Neatvi.Props.C05c (iterate)

/-! ### runs the kernel evaluates: `ex_init` by its stages, then vi commands that do not enter the ex layer -/

/-- `ex_init` on one file is `ec_edit` with the fuel written as a successor, so that
    `C02c.ecEdit_stages` applies; the stages are not recursive and the kernel evaluates them -/
theorem exInit_eq (ed : Ed) (p : Bytes) :
    exInit ed [p] = ecEdit ((FUEL - 1) + 1) ed (strOf "e")
      (p.flatMap (fun c => if c == 32 || c == 37 || c == 35 || c == 61 then [92, c] else [c])) := by
  unfold exInit
  rfl

/-- one iteration that reaches the end of the loop body: its redraw class and its final state -/
def stepModOf (s : VS) : Option (Nat × VS) :=
  match viPre s with
  | Res.ok r s1 =>
    match C07.stepCont r.1 r.2.1 r.2.2 s1 with
    | Res.ok (some mod) s2 =>
      match viPost (some mod) s2 with
      | Res.ok _ s' => some (mod, s')
      | _ => none
    | _ => none
  | _ => none

theorem stepModOf_via (s s' : VS) (mod : Nat) (h : stepModOf s = some (mod, s')) : StepVia s s' (some mod) := by
  unfold stepModOf at h
  split at h
  · rename_i r s1 hpre
    split at h
    · rename_i m s2 hcont
      split at h
      · rename_i u s'' hpost
        cases h
        exact ⟨r, s1, s2, hpre, hcont, hpost⟩
      · cases h
    · cases h
  · cases h

/-- the state `vi()` starts in on `twoFile`, the keys `$`, `j`, `k` to come: nothing scrolled -/
theorem two_init : (initState (some twoFile) [36, 106, 107] 24 80).map lview = some ([0, 0, 0, 0], [0]) := by
  unfold initState
  simp only [exInit_eq, C02c.ecEdit_stages]
  decide +kernel

/-- ... and the states after `$`, `$j`, `$jk`: the sticky column 119 and `xleft = 79` stay while the
    cursor visits `short` (offset 4) -/
theorem two_run :
    (List.range 4).map (fun n => (initState (some twoFile) [36, 106, 107] 24 80).bind (fun s0 => (iterate n s0).map lview)) =
      [some ([0, 0, 0, 0], [0]), some ([0, 119, 119, 79], [0]), some ([1, 4, 119, 79], [0]), some ([0, 119, 119, 79], [0])] := by
  unfold initState
  simp only [exInit_eq, C02c.ecEdit_stages]
  decide +kernel

/-- none of these states is quitting -/
theorem two_alive :
    (List.range 4).all (fun n =>
      match (initState (some twoFile) [36, 106, 107] 24 80).bind (fun s0 => iterate n s0) with
      | some s => !s.ed.xquit
      | none => false) = true := by
  unfold initState
  simp only [exInit_eq, C02c.ecEdit_stages]
  decide +kernel

/-- the second iteration of that run is the vertical motion `j` to row 1, the line `short` -/
theorem two_j_check :
    (match (initState (some twoFile) [36, 106, 107] 24 80).bind (fun s0 => iterate 1 s0) with
     | some s =>
       (match viPre s with
        | Res.ok r _ => decide (r.1 = 106) && decide (r.2.1 = 1)
        | _ => false) && !s.ed.xquit && decide (lineOf s 1 = some (Spec.encStr (shortBody ++ [10])))
     | none => false) = true := by
  unfold initState
  simp only [exInit_eq, C02c.ecEdit_stages]
  decide +kernel

/-- the run of `x` on the same file: the first iteration reaches the end of the loop body with a
    redraw class `≠ 0`, not quitting, offset 0, on the line of 119 `a`s -/
theorem two_x_check :
    (match initState (some twoFile) [120] 24 80 with
     | some s0 =>
       (match stepModOf s0 with
        | some (mod, s') => decide (mod ≠ 0) && !s'.ed.xquit && decide (0 ≤ s'.ed.xoff) &&
            decide (lineOf s' s'.ed.xrow = some (Spec.encStr (List.replicate 119 97 ++ [10])))
        | none => false)
     | none => false) = true := by
  unfold initState
  simp only [exInit_eq, C02c.ecEdit_stages]
  decide +kernel


/-- `ex_init` on `"\tabc\n"`: the sticky column is 0, `ren_cursor(0)` is 7 (the tab takes columns 0–7) -/
theorem tab_init_check :
    (match initState (some [9, 97, 98, 99, 10]) [48] 24 80 with
     | some s0 => decide (s0.xcol = 0) && decide (cursorCol s0 = 7) && decide (s0.ed.xleft = 0) && decide (s0.xcols = 80) &&
         (match iterate 1 s0 with
          | some s1 => decide (s1.xcol = 0) && decide (cursorCol s1 = 7) && decide (s1.ed.xleft = 0) && decide (s1.ed.xoff = 0)
          | none => false)
     | none => false) = true := by
  unfold initState
  simp only [exInit_eq, C02c.ecEdit_stages]
  decide +kernel

/-- the cell the terminal cursor is first put on (`vi_pos(xcol)`, vi.c:1522) is not the cell it is put on
    after every command (`vi_pos(ren_cursor(xcol))`, vi.c:1889): on `"\tabc\n"` they are 7 cells apart,
    whatever the context direction -/
theorem first_cursor_cell (s0 : VS) (h : initState (some [9, 97, 98, 99, 10]) [48] 24 80 = some s0) :
    s0.xcol = 0 ∧ cursorCol s0 = 7 ∧ (termCursor s0 - colCell s0 = 7 ∨ colCell s0 - termCursor s0 = 7) := by
  have e := tab_init_check
  rw [h] at e
  simp only [Bool.and_eq_true, decide_eq_true_eq] at e
  obtain ⟨⟨⟨⟨e1, e2⟩, e3⟩, e4⟩, _⟩ := e
  refine ⟨e1, e2, ?_⟩
  unfold termCursor colCell viPos Render.ledPos
  rw [e1, e2]
  split
  · left; omega
  · right; omega

theorem tab_init_some : (initState (some [9, 97, 98, 99, 10]) [48] 24 80).isSome = true := by
  unfold initState
  simp only [exInit_eq, C02c.ecEdit_stages]
  decide +kernel


/-- the first iteration of the run `$`, `j`, `k` is the horizontal motion `$` on row 0, the line of 120 `a`s -/
theorem two_dollar_check :
    (match initState (some twoFile) [36, 106, 107] 24 80 with
     | some s =>
       (match viPre s with
        | Res.ok r _ => decide (r.1 = 36) && decide (r.2.1 = 0)
        | _ => false) && !s.ed.xquit && decide (lineOf s 0 = some (Spec.encStr (List.replicate 120 97 ++ [10])))
     | none => false) = true := by
  unfold initState
  simp only [exInit_eq, C02c.ecEdit_stages]
  decide +kernel


/-- the cursor line of the state `vi()` starts in on `twoFile` has single-byte characters only -/
theorem two_ascii_check :
    (match initState (some twoFile) [36, 106, 107] 24 80 with
     | some s0 => (lineOf s0 s0.ed.xrow).all (fun ln => decide (ucSlen ln = ln.length))
     | none => false) = true := by
  unfold initState
  simp only [exInit_eq, C02c.ecEdit_stages]
  decide +kernel

/-- the cursor line of the state `vi()` starts in on `"\tabc\n"`, as code points -/
theorem tab_line_check :
    (match initState (some [9, 97, 98, 99, 10]) [48] 24 80 with
     | some s0 => decide (lineOf s0 s0.ed.xrow = some (Spec.encStr ([9, 97, 98, 99] ++ [10])))
     | none => false) = true := by
  unfold initState
  simp only [exInit_eq, C02c.ecEdit_stages]
  decide +kernel

open Neatvi.Drive.ViD in
/-- the driver runs `$`, `j`, `k` on `twoFile` -/
theorem two_runModel_some : (runModel (some twoFile) [36, 106, 107] 24 80).isSome = true := by
  unfold runModel
  simp only [exInit_eq, C02c.ecEdit_stages]
  decide +kernel

/-- the run `l`, `l`, `l`, `j` on `twoFile`: the fourth iteration is `j` from column 3 to the `r` of `short`;
    the hypotheses of `run_sticky_cursor_on_character` about the final state hold of it (character
    `i = 3`), and it has the view `[1, 3, 3, 0, 3, …]` -/
theorem near_check :
    (match (initState (some twoFile) [108, 108, 108, 106] 24 80).bind (fun s0 => iterate 3 s0) with
     | some s =>
       (match viPre s with
        | Res.ok r _ => decide (r.1 = 106) && decide (r.2.1 = 1)
        | _ => false) && !s.ed.xquit && decide (lineOf s 1 = some (Spec.encStr (shortBody ++ [10]))) &&
       (match viStep s with
        | Res.ok _ s3 =>
          decide (((posTab s3 (Spec.encStr (shortBody ++ [10]))).getD 3 0 : Nat) ≤ s3.xcol) &&
          decide (s3.xcol < ((posTab s3 (Spec.encStr (shortBody ++ [10]))).getD 3 0 : Nat) +
            (Spec.cellWidth ((shortBody ++ [10]).getD 3 0) ((posTab s3 (Spec.encStr (shortBody ++ [10]))).getD 3 0) : Int)) &&
          decide (s3.ed.xleft ≤ ((posTab s3 (Spec.encStr (shortBody ++ [10]))).getD 3 0 : Nat)) &&
          decide (((posTab s3 (Spec.encStr (shortBody ++ [10]))).getD 3 0 : Nat) +
            (Spec.cellWidth ((shortBody ++ [10]).getD 3 0) ((posTab s3 (Spec.encStr (shortBody ++ [10]))).getD 3 0) : Int) ≤
              s3.ed.xleft + s3.xcols) &&
          decide (lview s3 = ([1, 3, 3, 0], [0]))
        | _ => false)
     | none => false) = true := by
  unfold initState
  simp only [exInit_eq, C02c.ecEdit_stages]
  decide +kernel


/-- CONJECTURE (false): an ex command leaves `xleft` alone -/
def ex_keeps_xleft_value : Prop :=
  ∀ (ed ed' : Ed) (ln : Bytes) (rc : Int), exCommand 64 ed ln = some (rc, ed') → ed'.xleft = ed.xleft

theorem ex_keeps_xleft_value_is_false : ¬ ex_keeps_xleft_value := by
  intro h
  have := h _ _ _ _ edTwo_command
  rw [edTwo_xleft] at this
  revert this
  decide

/-- CONJECTURE (false): the terminal cursor is first put where it is put after every command, on
    `vi_pos(ren_cursor(xcol))` -/
def first_cursor_is_command_cursor : Prop :=
  ∀ (file : Option Bytes) (keys : Bytes) (rows cols : Int) (s0 : VS),
    initState file keys rows cols = some s0 → colCell s0 = termCursor s0

theorem first_cursor_cell_finding : ¬ first_cursor_is_command_cursor := by
  intro hall
  cases h : initState (some [9, 97, 98, 99, 10]) [48] 24 80 with
  | none => have := tab_init_some; rw [h] at this; cases this
  | some s0 =>
    have e := hall _ _ _ _ s0 h
    obtain ⟨_, _, h7⟩ := first_cursor_cell s0 h
    omega

end Neatvi.Lemmas.C19g
