import NeatviVerif.Lemmas.C15bRun
/-!
# C15b lemmas, part 7: a complete `:g` leaves no mark of its own depth

The final loop of `ec_glob` (`for (i = 0; i < lbuf_len(xb); i++) lbuf_globget(xb, i, xgdep)`) clears the bit of its
depth on every line — also after a `break`.  So the next inner `:g` the outer one starts (one round later, at the same
depth) finds only the marks it sets itself: no line outside its range is visited because of a mark a previous inner
`:g` left there.
-/
namespace Neatvi.Lemmas.C15b
open Neatvi Neatvi.Lbuf Neatvi.Ex Neatvi.Rset Neatvi.Props Neatvi.Props.C15
open Neatvi.Lemmas.ExFrame

theorem foldl_globGet_bit (dep : Nat) (hdep : dep < 8) : ∀ (l : List Nat) (lb : Lb) (k : Nat),
    ((l.foldl (fun lb k => (globGet lb k dep).2) lb).glob.getD k 0).testBit dep =
      ((lb.glob.getD k 0).testBit dep && !(l.contains k)) := by
  intro l
  induction l with
  | nil => intro lb k; simp
  | cons a l ih =>
    intro lb k
    rw [List.foldl_cons, ih, globGet_entry]
    by_cases hk : k = a
    · subst hk
      rw [if_pos rfl, clr_testBit_low _ _ _ hdep]
      simp
    · rw [if_neg hk]
      simp [hk]

/-- the sweep at the end of `ec_glob` clears the bit of its depth in every entry -/
theorem sweep_clears (dep : Nat) (hdep : dep < 8) (lb : Lb) (hg : GlobLen lb) (k : Nat) :
    (((List.range lb.lines.length).foldl (fun lb k => (globGet lb k dep).2) lb).glob.getD k 0).testBit dep = false := by
  rw [foldl_globGet_bit dep hdep]
  by_cases hk : k < lb.lines.length
  · have : (List.range lb.lines.length).contains k = true := by
      rw [List.contains_iff_mem]; exact List.mem_range.2 hk
    rw [this]
    simp
  · unfold GlobLen at hg
    rw [getD_of_le (by omega)]
    simp

variable {D : Nat} {P : Ed → Prop} {Q : Lb → Prop}

/-- the state the loop of `:g` starts from satisfies a predicate that is stable above `D < dep` -/
theorem globMark_stableG (S : StableG D P Q) (ed : Ed) (b e : Int) (dep : Nat) (hd : D < dep) (h7 : dep ≤ 7) (hi : P ed) :
    P (globMark ed b e dep) := by
  unfold globMark
  refine Lemmas.C02b.foldl_inv P _ ?_ _ _ (S.to hi (by rfl))
  intro s k hs
  exact S.updLb (fun lb => globSet lb (b.toNat + 1 + k) dep) (fun lb hl => S.globSet _ _ hd h7 hl) hs

/-- **a complete `:g` (return value 0: then its depth is at most 7) leaves no mark of its own depth**, whatever its range and
    (quiet) command list, also when the command list stopped it -/
theorem ecGlob_sweeps (f d : Nat) (loc cmd arg : Bytes) (hq : C15.quietLine d (reRead arg).2 = true) (ed ed' : Ed)
    (lb : Lb) (hl : ed.lb = some lb) (hg : GlobLen lb)
    (h : ecGlob (f + 1) ed loc cmd arg = some (0, ed')) :
    ∃ lb', ed'.lb = some lb' ∧ ∀ k, (lb'.glob.getD k 0).testBit (ed.xgdep + 1) = false := by
  obtain ⟨_, hr | ⟨_, hlt, rc, b, e, ed1, re, ed2, hreg, hscan, hd2, rfl⟩⟩ := ecGlob_outcomes_all f ed ed' loc cmd arg 0 h
  · cases hr
  · have S := carry_stableG ed.xgdep lb
    have p0 : CarryEd ed.xgdep lb ed := ⟨lb, hl, Carry.refl hg⟩
    have p1 : CarryEd ed.xgdep lb (globPrep ed1 arg) := S.to (S.to p0 (exRegion_bufs hreg)) (globPrep_bufs ed1 arg)
    have p2 := globMark_stableG S (globPrep ed1 arg) b e (ed.xgdep + 1) (Nat.lt_succ_self _) (by omega) p1
    have p3 : CarryEd ed.xgdep lb ed2 :=
      scan_stableG S f _ _ _ _ (Nat.lt_succ_self _) (by omega) (exExec_stableG S f d _ hq) _ _ _ _
        (by rw [globMark_dep]; omega) p2 hscan
    obtain ⟨lb2, hl2, c2⟩ := p3
    refine ⟨(List.range lb2.lines.length).foldl (fun lb k => (globGet lb k (ed.xgdep + 1)).2) lb2, ?_, ?_⟩
    · show (globSweep ed2 (ed.xgdep + 1)).lb = _
      unfold globSweep
      rw [hl2]
      simp only []
      rw [setLb_lb, hl2]; rfl
    · exact sweep_clears _ (by omega) lb2 c2.globLen

/-- **the marks are bits of a `char`**: `ec_glob` called with seven `:g` nested already returns 1 at once with the message
    and leaves the state alone apart from it — no `lbuf_globset`, no `lbuf_globget`; and whenever it does run its
    loop (return value 0) the depth `xgdep + 1` it marks, searches and sweeps with (`ecGlob_outcomes_all`) is at most 7.
    So `lbuf_globset` / `lbuf_globget` are only ever called with `d ≤ 7`: the restriction to the bits `k < 8` in
    `globGet_other_depths` covers every reachable call, and `globSet_beyond` / `globGet_beyond` describe calls that
    do not happen. -/
theorem marks_depth_le_7 (f : Nat) (ed ed' : Ed) (loc cmd arg : Bytes) (r : Int)
    (h : ecGlob (f + 1) ed loc cmd arg = some (r, ed')) :
    (7 ≤ ed.xgdep → r = 1 ∧ ed' = ed.show (strOf "global commands nested too deep")) ∧
    (r = 0 → ed.xgdep + 1 ≤ 7) := by
  constructor
  · intro h7
    rw [ecGlob_eq, if_pos h7] at h
    cases h; exact ⟨rfl, rfl⟩
  · intro h0
    obtain ⟨_, hr | ⟨_, hlt, _⟩⟩ := ecGlob_outcomes_all f ed ed' loc cmd arg r h
    · rw [h0] at hr; cases hr
    · omega

/-- at the limit: `%g/b/d` with seven `:g` nested is refused -/
theorem guard_example (f : Nat) (ed : Ed) (h7 : ed.xgdep = 7) :
    ecGlob (f + 1) ed [37] [103] [47, 98, 47, 100] = some (1, ed.show (strOf "global commands nested too deep")) := by
  rw [ecGlob_eq, if_pos (by omega)]

end Neatvi.Lemmas.C15b
