import NeatviVerif.Lemmas.UcBits
/-! String-level lemmas: the scanning functions of `uc.c` on encoded strings. -/
namespace Neatvi.Uc
open Neatvi Neatvi.Spec

/-- shape of one encoded character: lead `a`, continuation bytes `t` -/
structure Chr (a : Nat) (t : Bytes) : Prop where
  pos : 0 < a
  lt : a < 256
  lead : a < 128 ∧ t = [] ∨ 192 ≤ a
  tl : ∀ x ∈ t, 128 ≤ x ∧ x < 192

/-- the next character (or the terminator) does not start with a continuation byte -/
def StartOk (r : Bytes) : Prop := ¬ (128 ≤ Bytes.hd r ∧ Bytes.hd r < 192)

theorem startOk_nil : StartOk [] := by simp [StartOk]

theorem enc_chr {c : Nat} (h : ValidCp c) : ∃ a t, enc c = a :: t ∧ Chr a t := by
  obtain ⟨h0, h1⟩ := h
  unfold enc
  split
  · exact ⟨c, [], rfl, ⟨h0, by omega, Or.inl ⟨by omega, rfl⟩, by simp⟩⟩
  split
  · refine ⟨_, _, rfl, ⟨by omega, by omega, Or.inr (by omega), ?_⟩⟩
    intro x hx; simp at hx; omega
  split
  · refine ⟨_, _, rfl, ⟨by omega, by omega, Or.inr (by omega), ?_⟩⟩
    intro x hx; simp at hx; omega
  · refine ⟨_, _, rfl, ⟨by omega, by omega, Or.inr (by omega), ?_⟩⟩
    intro x hx; simp at hx; omega

theorem enc_ne_nil (c : Nat) : enc c ≠ [] := by unfold enc; split <;> (try split) <;> (try split) <;> simp

theorem enc_length_pos (c : Nat) : 0 < (enc c).length := by
  have := enc_ne_nil c; cases h : enc c <;> simp_all

theorem startOk_enc {c : Nat} (h : ValidCp c) (r : Bytes) : StartOk (enc c ++ r) := by
  obtain ⟨a, t, he, hc⟩ := enc_chr h
  rw [he]; simp [StartOk]; intro h1; rcases hc.lead with ⟨h2, _⟩ | h2 <;> omega

theorem startOk_encStr {cs : List Nat} (h : ∀ c ∈ cs, ValidCp c) : StartOk (encStr cs) := by
  cases cs with
  | nil => exact startOk_nil
  | cons c r => rw [encStr_cons]; exact startOk_enc (h c (by simp)) _

theorem contRun_tail (t r : Bytes) (ht : ∀ x ∈ t, 128 ≤ x ∧ x < 192) (hb : ∀ x ∈ t ++ r, x < 256) (hr : StartOk r) :
    contRun (t ++ r) = t.length := by
  induction t with
  | nil =>
    cases r with
    | nil => rfl
    | cons b r' =>
      have hb' : b < 256 := hb b (by simp)
      simp [StartOk] at hr
      simp [contRun, contB_eq b hb']; omega
  | cons x t ih =>
    have hx := ht x (by simp)
    have hx' : x < 256 := by omega
    simp [contRun, contB_eq x hx', hx]
    exact ih (fun y hy => ht y (by simp [hy])) (fun y hy => hb y (by simp at hy ⊢; right; exact hy))

theorem ucEnd_chr {a : Nat} {t r : Bytes} (hc : Chr a t) (hb : ∀ x ∈ r, x < 256) (hr : StartOk r) :
    ucEnd (a :: t ++ r) = t.length := by
  simp only [ucEnd, List.cons_append]
  rw [and80 a hc.lt, andc0 a hc.lt]
  rcases hc.lead with ⟨h1, h2⟩ | h1
  · simp [h1, h2]
  · have : ¬ a < 128 := by omega
    simp [this, h1]
    have hb2 : ∀ x ∈ t ++ r, x < 256 := by
      intro x hx; simp at hx; rcases hx with hx | hx
      · have := hc.tl x hx; omega
      · exact hb x hx
    rw [contRun_tail t r hc.tl hb2 hr]

theorem getLast_pos {a : Nat} {t : Bytes} (hc : Chr a t) : ∀ x ∈ a :: t, 0 < x := by
  intro x hx; simp at hx; rcases hx with rfl | hx
  · exact hc.pos
  · have := hc.tl x hx; omega

theorem ucNext_chr {a : Nat} {t r : Bytes} (hc : Chr a t) (hb : ∀ x ∈ r, x < 256) (hr : StartOk r) :
    ucNext (a :: t ++ r) = t.length + 1 := by
  unfold ucNext
  rw [ucEnd_chr hc hb hr]
  have : Bytes.hd (List.drop t.length (a :: t ++ r)) ≠ 0 := by
    have hlt : t.length < (a :: t).length := by simp
    rw [List.drop_append_of_le_length (by simp)]
    have hne : List.drop t.length (a :: t) ≠ [] := by
      intro h; have := congrArg List.length h; simp at this
    cases hd : List.drop t.length (a :: t) with
    | nil => exact absurd hd hne
    | cons y ys =>
      simp
      have : y ∈ a :: t := List.mem_of_mem_drop (by rw [hd]; simp)
      have := getLast_pos hc y this; omega
  simp only [List.cons_append] at this
  simp [this]

theorem enc_lt {c : Nat} (h : ValidCp c) : ∀ x ∈ enc c, x < 256 := by
  obtain ⟨a, t, he, hc⟩ := enc_chr h
  rw [he]; intro x hx; simp at hx; rcases hx with rfl | hx
  · exact hc.lt
  · have := hc.tl x hx; omega

theorem enc_pos {c : Nat} (h : ValidCp c) : ∀ x ∈ enc c, 0 < x := by
  obtain ⟨a, t, he, hc⟩ := enc_chr h
  rw [he]; exact getLast_pos hc

theorem encStr_lt {cs : List Nat} (h : ∀ c ∈ cs, ValidCp c) : ∀ x ∈ encStr cs, x < 256 := by
  induction cs with
  | nil => simp
  | cons c r ih =>
    intro x hx; rw [encStr_cons] at hx; simp at hx; rcases hx with hx | hx
    · exact enc_lt (h c (by simp)) x hx
    · exact ih (fun d hd => h d (by simp [hd])) x hx

theorem encStr_wf {cs : List Nat} (h : ∀ c ∈ cs, ValidCp c) : Bytes.wf (encStr cs) := by
  induction cs with
  | nil => simp [Bytes.wf]
  | cons c r ih =>
    intro x hx; rw [encStr_cons] at hx; simp at hx; rcases hx with hx | hx
    · exact ⟨enc_pos (h c (by simp)) x hx, enc_lt (h c (by simp)) x hx⟩
    · exact ih (fun d hd => h d (by simp [hd])) x hx

/-- `uc_next` on an encoded string steps over exactly one encoded character -/
theorem ucNext_enc {c : Nat} {cs : List Nat} (hc : ValidCp c) (hcs : ∀ d ∈ cs, ValidCp d) :
    ucNext (enc c ++ encStr cs) = (enc c).length := by
  obtain ⟨a, t, he, hch⟩ := enc_chr hc
  rw [he]; simp
  exact ucNext_chr hch (encStr_lt hcs) (startOk_encStr hcs)

theorem ucEnd_enc {c : Nat} {cs : List Nat} (hc : ValidCp c) (hcs : ∀ d ∈ cs, ValidCp d) :
    ucEnd (enc c ++ encStr cs) + 1 = (enc c).length := by
  obtain ⟨a, t, he, hch⟩ := enc_chr hc
  rw [he]; simp
  exact ucEnd_chr hch (encStr_lt hcs) (startOk_encStr hcs)

theorem hd_enc_ne_zero {c : Nat} (hc : ValidCp c) (r : Bytes) : Bytes.hd (enc c ++ r) ≠ 0 := by
  obtain ⟨a, t, he, hch⟩ := enc_chr hc
  rw [he]; simp; have := hch.pos; omega

end Neatvi.Uc
