import NeatviVerif.Lemmas.C02bRun
import NeatviVerif.Props.C03
/-!
# C02b lemmas, part 6: command lines without `:e`/`:b`/`:w`/`:q`/`:!`/`:@` keep the current buffer's
ghost and the file system

A predicate `P` on editor states that depends only on the buffer table and the files, whose content
about the current line buffer (`Q`) is kept by the lbuf API calls that do not concern saving, is kept
by every quiet handler, by `:g` with a quiet command list, by `ex_exec`, `ex_command` and `exStep`.
-/
namespace Neatvi.Lemmas.C02b
open Neatvi Neatvi.Lbuf Neatvi.Ex Neatvi.Rset Neatvi.Spec Neatvi.Lemmas.ExFrame Neatvi.Lemmas.C02Ex
open Neatvi.Props

structure Stable (P : Ed → Prop) (Q : Lb → Prop) : Prop where
  to : ∀ {ed ed'}, P ed → ed'.bufs = ed.bufs → ed'.files = ed.files → P ed'
  getLb : ∀ {ed lb}, P ed → ed.lb = some lb → Q lb
  setLb : ∀ {ed lb}, P ed → Q lb → P (ed.setLb lb)
  edit : ∀ {lb lb' buf b e}, Q lb → Lbuf.edit lb buf b e = some lb' → Q lb'
  undo : ∀ {lb lb' rc}, Q lb → Lbuf.undo lb = some (rc, lb') → Q lb'
  redo : ∀ {lb lb' rc}, Q lb → Lbuf.redo lb = some (rc, lb') → Q lb'
  bump : ∀ {lb}, Q lb → Q (modified lb).2
  setMark : ∀ {lb} c p o, Q lb → Q (Lbuf.setMark lb c p o)
  globSet : ∀ {lb} p k, Q lb → Q (Lbuf.globSet lb p k)
  globGet : ∀ {lb} p k, Q lb → Q (Lbuf.globGet lb p k).2

variable {P : Ed → Prop} {Q : Lb → Prop}

theorem setLb_files (ed : Ed) (lb : Lb) : (ed.setLb lb).files = ed.files := by
  unfold Ed.setLb; split <;> rfl

theorem edit_files {ed ed' : Ed} {s : Option Bytes} {b e : Int} (h : ed.edit s b e = some ed') : ed'.files = ed.files := by
  obtain ⟨_, _, lb, lb', _, _, rfl, _⟩ := Ed_edit_some h
  exact setLb_files _ _

theorem Stable.rd (S : Stable P Q) {lb lb' : Lb} (h : Q lb) {chunks : List Bytes} {fe : Bool} {b e rc : Nat}
    (hr : LbufIo.rd lb chunks fe b e = some (rc, lb')) : Q lb' := by
  unfold LbufIo.rd at hr
  repeat' (split at hr)
  all_goals (first | cases hr | skip)
  · exact h
  · rename_i he; exact S.edit h he

theorem Stable.edEdit (S : Stable P Q) {ed ed' : Ed} {s : Option Bytes} {b e : Int} (h : P ed)
    (he : ed.edit s b e = some ed') : P ed' := by
  obtain ⟨_, _, lb, lb', hlb, hed, rfl, _⟩ := Ed_edit_some he
  exact S.setLb h (S.edit (S.getLb h hlb) hed)

/-- as `edInv_edit3` -/
theorem Stable.edEdit3 (S : Stable P Q) {ed0 ed ed1 ed' : Ed} {s : Option Bytes} {b e : Int}
    (he : ed.edit s b e = some ed1) (h : P ed0) (hb0 : ed.bufs = ed0.bufs) (hf0 : ed.files = ed0.files)
    (hb : ed'.bufs = ed1.bufs) (hf : ed'.files = ed1.files) : P ed' :=
  S.to (S.edEdit (S.to h hb0 hf0) he) hb hf

theorem Stable.updLb (S : Stable P Q) {ed : Ed} (F : Lb → Lb) (hF : ∀ lb, Q lb → Q (F lb)) (h : P ed) :
    P (match ed.lb with | some lb => ed.setLb (F lb) | none => ed) := by
  cases hl : ed.lb with
  | none => exact h
  | some lb => exact S.setLb h (hF lb (S.getLb h hl))

theorem Stable.frame (S : Stable P Q) {ed ed' : Ed} (h : P ed) (hf : C03.Frame ed ed') : P ed' := S.to h hf.2 hf.1

theorem modifiedAt0_eq (ed : Ed) :
    (ed.modifiedAt 0).2 = match ed.lb with | some lb => ed.setLb (modified lb).2 | none => ed := by
  unfold Ed.modifiedAt Ed.lb Ed.setLb Ed.cur Ed.setCur
  cases h : ed.bufs.getD 0 none with
  | none => rfl
  | some b => rfl

theorem Stable.modifiedAt0 (S : Stable P Q) {ed : Ed} (h : P ed) : P (ed.modifiedAt 0).2 := by
  rw [modifiedAt0_eq]
  exact S.updLb (fun lb => (modified lb).2) (fun _ hq => S.bump hq) h

theorem substPrep_files (ed : Ed) (arg : Bytes) : (C14.substPrep ed arg).1.files = ed.files := by
  unfold C14.substPrep
  simp only []
  repeat' split
  all_goals rfl

theorem substLoop_stable (S : Stable P Q) (re : RStr) (g : Bool) (b : Int) : ∀ (n : Nat) (ed ed' : Ed), P ed →
    C14.substLoop re g b n ed = some ed' → P ed' := by
  intro n
  induction n with
  | zero => intro ed ed' hi h; cases h; exact hi
  | succ n ih =>
    intro ed ed' hi h
    rw [C14.substLoop_succ] at h
    cases hm : C14.substLoop re g b n ed with
    | none => rw [hm] at h; cases h
    | some em =>
      rw [hm] at h
      simp only [Option.bind_some] at h
      have hm' := ih _ _ hi hm
      unfold C14.substStep at h
      repeat' (split at h)
      all_goals (first | cases h | skip)
      · exact hm'
      · exact S.edEdit hm' h

theorem foldl_print_files (b : Int) : ∀ (l : List Nat) (ed : Ed),
    (l.foldl (fun (ed : Ed) (k : Nat) => match ed.line (b + (k : Int)) with | some l => ed.print l | none => ed) ed).files
      = ed.files := by
  intro l
  induction l with
  | nil => intro ed; rfl
  | cons k l ih =>
    intro ed
    rw [List.foldl_cons, ih]
    split <;> rfl

theorem runCmd_print_stable (S : Stable P Q) (f : Nat) (ed ed' : Ed) (loc cmd arg : Bytes) (txt : Option Bytes) (r : Int)
    (hi : P ed) (h : runCmd f ed "ec_print" loc cmd arg txt = some (r, ed')) : P ed' := by
  cases f with
  | zero => rw [runCmd] at h; cases h
  | succ f =>
    rw [runCmd] at h
    rw [if_neg (by decide), if_pos (by decide)] at h
    split at h
    · cases h; exact hi
    · split at h
      · cases h
      · rename_i hr
        have e1 := S.frame hi (C03.exRegion_frame _ _ _ _ hr)
        split at h
        · cases h; exact e1
        · cases h
          exact S.to e1 (C15.foldl_print_bufs _ _ _) (foldl_print_files _ _ _)

theorem setOpt_files (ed : Ed) (v : String) (val : Int) : (setOpt ed v val).files = ed.files := by
  unfold setOpt
  repeat' split
  all_goals rfl

/-- every quiet branch of the dispatcher keeps a stable predicate, given that its `:g` does -/
theorem runCmd_stable (S : Stable P Q) (f : Nat) (ed ed' : Ed) (hd : String) (loc cmd arg : Bytes) (txt : Option Bytes)
    (r : Int) (hq : C15.noisy hd = false)
    (hglob : hd = "ec_glob" → ∀ ed r ed', P ed → ecGlob f ed loc cmd arg = some (r, ed') → P ed')
    (hi : P ed) (h : runCmd (f + 1) ed hd loc cmd arg txt = some (r, ed')) : P ed' := by
  by_cases hs : hd = "ec_substitute"
  · subst hs
    rw [C14.runCmd_subst_eq] at h
    split at h
    · cases h
    · rename_i ed1 hr
      have e1 := S.frame hi (C03.exRegion_frame _ _ _ _ hr)
      have e2 : P (C14.substPrep ed1 arg).1 := S.to e1 (C14.substPrep_bufs ed1 arg) (substPrep_files ed1 arg)
      repeat' (split at h)
      all_goals (first | cases h | skip)
      · exact e1
      · exact e2
      · exact e2
      · rename_i hl
        exact substLoop_stable S _ _ _ _ _ _ e2 hl
  rw [runCmd] at h
  by_cases c : (hd == "ec_insert") = true
  · rw [if_pos c] at h
    simp only [] at h
    split at h
    · cases h
    · rename_i hr
      have e1 := S.frame hi (C03.exRegion_frame _ _ _ _ hr)
      repeat' (split at h)
      all_goals (first | cases h | skip)
      all_goals (first | exact e1 | exact S.edEdit3 (by assumption) e1 (by rfl) (by rfl) (by rfl) (by rfl))
  rw [if_neg c] at h; clear c
  by_cases c : (hd == "ec_print") = true
  · have : hd = "ec_print" := by simpa using c
    subst this
    have h' : runCmd (f + 1) ed "ec_print" loc cmd arg txt = some (r, ed') := by
      rw [runCmd, if_neg (by decide), if_pos (by decide)]
      rw [if_pos c] at h
      exact h
    exact runCmd_print_stable S _ _ _ _ _ _ _ _ hi h'
  rw [if_neg c] at h; clear c
  by_cases c : (hd == "ec_null") = true
  · rw [if_pos c] at h
    split at h
    · exact runCmd_print_stable S _ _ _ _ _ _ _ _ (S.to hi (by rfl) (by rfl)) h
    · split at h
      · cases h
      · rename_i hr
        have e1 := S.frame hi (C03.exRegion_frame _ _ _ _ hr)
        split at h
        · cases h; exact e1
        · cases h; exact S.to e1 (by rfl) (by rfl)
  rw [if_neg c] at h; clear c
  by_cases c : (hd == "ec_delete" || hd == "ec_yank") = true
  · rw [if_pos c] at h
    simp only [] at h
    split at h
    · cases h
    · rename_i hr
      have e1 := S.frame hi (C03.exRegion_frame _ _ _ _ hr)
      repeat' (split at h)
      all_goals (first | cases h | skip)
      all_goals (first | exact e1 | exact S.edEdit3 (by assumption) e1 (by rfl) (by rfl) (by rfl) (by rfl) | exact S.to e1 (by rfl) (by rfl))
  rw [if_neg c] at h; clear c
  by_cases c : (hd == "ec_put") = true
  · rw [if_pos c] at h
    simp only [] at h
    split at h
    · cases h; exact hi
    · split at h
      · cases h
      · rename_i hr
        have e1 := S.frame hi (C03.exRegion_frame _ _ _ _ hr)
        repeat' (split at h)
        all_goals (first | cases h | skip)
        all_goals (first | exact e1 | exact S.edEdit3 (by assumption) e1 (by rfl) (by rfl) (by rfl) (by rfl))
  rw [if_neg c] at h; clear c
  by_cases c : (hd == "ec_lnum") = true
  · rw [if_pos c] at h
    split at h
    · cases h
    · rename_i hr
      have e1 := S.frame hi (C03.exRegion_frame _ _ _ _ hr)
      split at h
      · cases h; exact e1
      · cases h; exact S.to e1 (by rfl) (by rfl)
  rw [if_neg c] at h; clear c
  by_cases c : (hd == "ec_undo") = true
  · rw [if_pos c] at h
    split at h
    · cases h
    · rename_i rc lb hu
      cases h
      cases hl : ed.lb with
      | none => rw [hl] at hu; cases hu
      | some lb0 =>
        rw [hl] at hu
        exact S.setLb hi (S.undo (S.getLb hi hl) hu)
  rw [if_neg c] at h; clear c
  by_cases c : (hd == "ec_redo") = true
  · rw [if_pos c] at h
    split at h
    · cases h
    · rename_i rc lb hu
      cases h
      cases hl : ed.lb with
      | none => rw [hl] at hu; cases hu
      | some lb0 =>
        rw [hl] at hu
        exact S.setLb hi (S.redo (S.getLb hi hl) hu)
  rw [if_neg c] at h; clear c
  by_cases c : (hd == "ec_mark") = true
  · rw [if_pos c] at h
    split at h
    · cases h
    · rename_i hr
      have e1 := S.frame hi (C03.exRegion_frame _ _ _ _ hr)
      split at h
      · cases h; exact e1
      · split at h
        · cases h
        · rename_i lb hlb
          cases h
          exact S.setLb e1 (S.setMark _ _ _ (S.getLb e1 hlb))
  rw [if_neg c] at h; clear c
  by_cases c : (hd == "ec_rs") = true
  · rw [if_pos c] at h
    cases h; exact S.to hi (by rfl) (by rfl)
  rw [if_neg c] at h; clear c
  by_cases c : (hd == "ec_at") = true
  · simp [C15.noisy, c] at hq
  rw [if_neg c] at h; clear c
  by_cases c : (hd == "ec_glob") = true
  · rw [if_pos c] at h
    exact hglob (by simpa using c) _ _ _ hi h
  rw [if_neg c] at h; clear c
  by_cases c : (hd == "ec_edit") = true
  · simp [C15.noisy, c] at hq
  rw [if_neg c] at h; clear c
  by_cases c : (hd == "ec_substitute") = true
  · exact absurd (by simpa using c) hs
  rw [if_neg c] at h; clear c
  by_cases c : (hd == "ec_exec") = true
  · simp [C15.noisy, c] at hq
  rw [if_neg c] at h; clear c
  by_cases c : (hd == "ec_read") = true
  · rw [if_pos c] at h
    simp only [] at h
    split at h
    · cases h
    · rename_i path ed1 hp
      have e0 : P ed1 := by
        split at hp
        · exact S.frame hi (C03.pathExpand_frame _ _ _ _ _ hp)
        · cases hp; exact hi
      split at h
      · cases h
      · rename_i edr hr
        have e1 := S.frame e0 (C03.exRegion_frame _ _ _ _ hr)
        repeat' (split at h)
        all_goals (first | cases h | skip)
        all_goals (first | exact e1 | exact S.to e1 (by rfl) (by rfl) | skip)
        · rename_i hm
          split at hm
          · exact S.to (S.edEdit e1 hm) (by rfl) (by rfl)
          · cases hm; exact S.to e1 (by rfl) (by rfl)
        · rename_i lb1 hrd
          refine S.to (S.setLb (lb := lb1) e1 ?_) (by rfl) (by rfl)
          cases hl : edr.lb with
          | none => rw [hl] at hrd; cases hrd
          | some lb0 =>
            rw [hl] at hrd
            simp only [Option.bind_some] at hrd
            exact S.rd (S.getLb e1 hl) hrd
  rw [if_neg c] at h; clear c
  by_cases c : (hd == "ec_write") = true
  · simp [C15.noisy, c] at hq
  rw [if_neg c] at h; clear c
  by_cases c : (hd == "ec_quit") = true
  · simp [C15.noisy, c] at hq
  rw [if_neg c] at h; clear c
  by_cases c : (hd == "ec_buffer") = true
  · simp [C15.noisy, c] at hq
  rw [if_neg c] at h; clear c
  by_cases c : (hd == "ec_set") = true
  · rw [if_pos c] at h
    simp only [] at h
    repeat' (split at h)
    all_goals (first | cases h | skip)
    all_goals (first | exact hi | exact S.to hi (by rfl) (by rfl) | exact S.to hi (C15.setOpt_bufs _ _ _) (setOpt_files _ _ _))
  rw [if_neg c] at h; clear c
  by_cases c : (hd == "ec_echo") = true
  · rw [if_pos c] at h
    cases h; exact S.to hi (by rfl) (by rfl)
  rw [if_neg c] at h; clear c
  cases h; exact S.to hi (by rfl) (by rfl)

/-! ### `:g` with a quiet command list -/

/-- running line `s` with fuel `f` keeps `P` -/
def LineKeeps (P : Ed → Prop) (f : Nat) (s : Bytes) : Prop := ∀ ed r ed', P ed → exExec f ed s = some (r, ed') → P ed'

theorem adv_stable (S : Stable P Q) (dep : Nat) : ∀ (h : Nat) (ed : Ed) (i : Int), P ed → P (ecGlob.scan.adv dep h ed i).1 := by
  intro h
  induction h with
  | zero => intro ed i hi; rw [ecGlob.scan.adv]; exact hi
  | succ h ih =>
    intro ed i hi
    rw [ecGlob.scan.adv]
    split
    · exact hi
    · split
      · exact hi
      · rename_i lb hlb
        simp only []
        have e1 : P (ed.setLb (globGet lb i.toNat dep).2) := S.setLb hi (S.globGet _ _ (S.getLb hi hlb))
        split
        · exact e1
        · exact ih _ _ e1

theorem scan_stable (S : Stable P Q) (f : Nat) (neg : Bool) (s : Bytes) (re : RStr) (dep : Nat) (hbody : LineKeeps P f s) :
    ∀ (g : Nat) (ed : Ed) (i : Int) (ed' : Ed), P ed → ecGlob.scan f neg s re dep g ed i = some ed' → P ed' := by
  intro g
  induction g with
  | zero => intro ed i ed' _ h; rw [ecGlob.scan] at h; cases h
  | succ g ih =>
    intro ed i ed' hi h
    rw [ecGlob.scan] at h
    split at h
    · cases h; exact hi
    · split at h
      · cases h
      · split at h
        · cases h
        · simp only [] at h
          split at h
          · cases h
          · rename_i edx _ hstep
            cases h
            split at hstep
            · split at hstep
              · cases hstep
              · rename_i hx
                split at hstep
                · cases hstep
                  exact hbody _ _ _ (S.to hi (by rfl) (by rfl)) hx
                · cases hstep
            · cases hstep
          · rename_i edx ix hstep
            have e1 : P edx := by
              split at hstep
              · split at hstep
                · cases hstep
                · rename_i hx
                  split at hstep
                  · cases hstep
                  · cases hstep
                    exact hbody _ _ _ (S.to hi (by rfl) (by rfl)) hx
              · cases hstep; exact hi
            split at h
            · cases h
            · exact ih _ _ _ (adv_stable S _ _ _ _ e1) h

theorem globPrep_files (ed : Ed) (arg : Bytes) : (C15.globPrep ed arg).files = ed.files := by
  unfold C15.globPrep
  repeat' split
  all_goals rfl

open Neatvi.Props.C15 in
theorem ecGlob_stable (S : Stable P Q) (f : Nat) (ed ed' : Ed) (loc cmd arg : Bytes) (r : Int)
    (hbody : LineKeeps P f (reRead arg).2) (hi : P ed)
    (h : ecGlob (f + 1) ed loc cmd arg = some (r, ed')) : P ed' := by
  rw [ecGlob_eq] at h
  by_cases hdep : ed.xgdep ≥ 7
  · rw [if_pos hdep] at h; cases h; exact S.to hi rfl rfl
  rw [if_neg hdep] at h
  split at h
  · cases h
  · rename_i rc b e ed1 hr
    have e1 : P ed1 := S.frame hi (C03.exRegion_frame _ _ _ _ hr)
    have e2 : P (globPrep ed1 arg) := S.to e1 (globPrep_bufs ed1 arg) (globPrep_files ed1 arg)
    split at h
    · cases h; exact e1
    · split at h
      · cases h; exact e2
      · split at h
        · cases h
        · cases h; exact e2
        · split at h
          · cases h
          · rename_i ed2 hscan
            cases h
            have e4 : P (globMark (globPrep ed1 arg) b e ((globPrep ed1 arg).xgdep + 1)) := by
              unfold globMark
              refine foldl_inv P _ ?_ _ _ (S.to e2 (by rfl) (by rfl))
              intro s k hs
              exact S.updLb (fun lb => globSet lb (b.toNat + 1 + k) ((globPrep ed1 arg).xgdep + 1))
                (fun lb hl => S.globSet _ _ hl) hs
            have e3 := scan_stable S f _ _ _ _ hbody _ _ _ _ e4 hscan
            have e5 : P (globSweep ed2 ((globPrep ed1 arg).xgdep + 1)) := by
              unfold globSweep
              exact S.updLb (fun lb => (List.range lb.lines.length).foldl
                  (fun lb k => (globGet lb k ((globPrep ed1 arg).xgdep + 1)).2) lb)
                (fun lb hl => foldl_inv Q _ (fun s k hs => S.globGet _ _ hs) _ _ hl) e3
            exact S.to e5 (by rfl) (by rfl)

/-! ### quiet command lines -/

theorem exTxt_files (ed : Ed) (src ex : Bytes) : (exTxt ed src ex).2.files = ed.files := by
  unfold exTxt
  simp only []
  repeat' split
  all_goals rfl

open Neatvi.Props.C15 in
theorem cmds_stable (S : Stable P Q) (f : Nat) (body : Bytes → Bool)
    (hrun : ∀ ed h loc cmd arg txt r ed', quietH body h arg = true → P ed →
      runCmd f ed h loc cmd arg txt = some (r, ed') → P ed') :
    ∀ (g : Nat) (ed : Ed) (ln : Bytes) (ret r : Int) (ed' : Ed), quietCmds body g ln = true → P ed →
      exExec.cmds f g ed ln ret = some (r, ed') → P ed' := by
  intro g
  induction g with
  | zero => intro ed ln ret r ed' _ hi h; rw [exExec.cmds] at h; cases h; exact hi
  | succ g ih =>
    intro ed ln ret r ed' hq hi h
    rw [exExec.cmds] at h
    rw [quietCmds] at hq
    split at h
    · cases h; exact hi
    · rename_i hne
      rw [if_neg hne] at hq
      generalize exLoc ln = p1 at h hq
      obtain ⟨loc, l1⟩ := p1
      simp only [] at h hq
      generalize exCmd l1 = p2 at h hq
      obtain ⟨cmd, l2⟩ := p2
      simp only [] at h hq
      generalize exIdx cmd = idx at h hq
      cases idx with
      | none =>
        simp only [] at h hq
        generalize exArg l2 (strOf "unknown") = p3 at h hq
        obtain ⟨arg, l3⟩ := p3
        simp only [] at h hq
        have hb := exTxt_bufs ed l3 (strOf "unknown")
        have hf := exTxt_files ed l3 (strOf "unknown")
        have hrst := exTxt_rest ed l3 (strOf "unknown")
        generalize exTxt ed l3 (strOf "unknown") = T at h hb hf hrst
        obtain ⟨⟨txt, l4⟩, edT⟩ := T
        simp only [] at h hb hf hrst
        subst hrst
        exact ih _ _ _ _ _ hq (S.to (S.to hi hb hf) (by rfl) (by rfl)) h
      | some ah =>
        obtain ⟨a, hh⟩ := ah
        simp only [] at h hq
        generalize exArg l2 a = p3 at h hq
        obtain ⟨arg, l3⟩ := p3
        simp only [] at h hq
        have hb := exTxt_bufs ed l3 a
        have hf := exTxt_files ed l3 a
        have hrst := exTxt_rest ed l3 a
        generalize exTxt ed l3 a = T at h hb hf hrst
        obtain ⟨⟨txt, l4⟩, edT⟩ := T
        simp only [] at h hb hf hrst
        subst hrst
        simp only [Bool.and_eq_true] at hq
        split at h
        · cases h
        · rename_i r1 ed1 hr
          exact ih _ _ _ _ _ hq.2 (hrun _ _ _ _ _ _ _ _ hq.1 (S.to hi hb hf) hr) h

/-- `ex_exec` of a quiet line keeps a stable predicate, whatever the fuel -/
theorem exExec_stable (S : Stable P Q) : ∀ (f d : Nat) (ln : Bytes), C15.quietLine d ln = true → LineKeeps P f ln := by
  intro f
  induction f using Nat.strongRecOn with
  | _ f ih =>
    intro d ln hq ed r ed' hi h
    cases f with
    | zero => rw [exExec] at h; cases h
    | succ f =>
      rw [exExec] at h
      split at h
      · cases h; exact S.to hi (by rfl) (by rfl)
      · have key : ∀ (body : Bytes → Bool), (∀ s, body s = true → ∀ f', f' < f + 1 → LineKeeps P f' s) →
            C15.quietCmds body (ln.length + 1) ln = true → P ed' := by
          intro body hbody hqc
          apply cmds_stable S f body ?_ _ _ _ _ _ _ hqc hi h
          intro ed hdl loc cmd arg txt r ed' hqh hP hrun
          obtain ⟨hn, hg⟩ := C15.quietH_cases hqh
          cases f with
          | zero => rw [runCmd] at hrun; cases hrun
          | succ f1 =>
            apply runCmd_stable S f1 ed ed' hdl loc cmd arg txt r hn ?_ hP hrun
            intro he ed2 r2 ed2' hP2 hglob
            cases f1 with
            | zero => rw [ecGlob] at hglob; cases hglob
            | succ f2 =>
              exact ecGlob_stable S f2 ed2 ed2' loc cmd arg r2 (hbody _ (hg he) f2 (by omega)) hP2 hglob
        cases d with
        | zero =>
          exact key (fun _ => false) (fun s hs => by cases hs) hq
        | succ d =>
          exact key (C15.quietLine d) (fun s hs f' hf' => ih f' hf' d s hs) hq

theorem exCommand_stable (S : Stable P Q) (f d : Nat) (ed ed' : Ed) (ln : Bytes) (r : Int)
    (hq : C15.quietLine d ln = true) (hi : P ed) (h : exCommand f ed ln = some (r, ed')) : P ed' := by
  cases f with
  | zero => rw [exCommand] at h; cases h
  | succ f =>
    rw [exCommand] at h
    split at h
    · cases h
    · rename_i r1 ed1 he
      cases h
      exact S.modifiedAt0 (exExec_stable S f d ln hq _ _ _ hi he)

/-- one round of the `ex()` loop on a quiet line -/
theorem exStep_stable (S : Stable P Q) (d : Nat) (ed ed' : Ed) (r : Int)
    (hq : ∀ ln ∈ ed.input.head?, C15.quietLine d ln = true) (hi : P ed) (h : exStep ed = some (r, ed')) : P ed' := by
  unfold exStep at h
  split at h
  · cases h
  · rename_i ln rest hin
    simp only [] at h
    split at h
    · cases h
    · rename_i r1 ed1 hc
      cases h
      have := exCommand_stable S _ d _ _ ln _ (hq ln (by rw [hin]; rfl)) (S.to hi (by rfl) (by rfl)) hc
      exact S.to this (by rfl) (by rfl)

/-! ### the instance: the ghost of the current buffer and the file system -/

/-- the files are `F`, the current buffer has path `p` and was built by the lbuf API with ghost `d` -/
def CurGhost (F : List File) (p : Bytes) (d : Option Text) (ed : Ed) : Prop :=
  ed.files = F ∧ ∃ b, ed.cur = some b ∧ b.path = p ∧ LbReach b.lb d

theorem curGhost_stable (F : List File) (p : Bytes) (d : Option Text) :
    Stable (CurGhost F p d) (fun lb => LbReach lb d) where
  to := by
    intro ed ed' ⟨hf, b, hc, hp, hr⟩ hb hfl
    exact ⟨hfl.trans hf, b, by rw [cur_congr hb]; exact hc, hp, hr⟩
  getLb := by
    intro ed lb ⟨_, b, hc, _, hr⟩ hl
    obtain ⟨b', hc', rfl⟩ := lb_some hl
    rw [hc] at hc'; cases hc'; exact hr
  setLb := by
    intro ed lb ⟨hf, b, hc, hp, _⟩ hq
    refine ⟨(setLb_files ed lb).trans hf, { b with lb := lb }, ?_, hp, hq⟩
    unfold Ed.setLb
    rw [hc]
    exact cur_some_set ed b _ hc
  edit := fun h he => h.edit _ _ _ he
  undo := fun h he => h.undo he
  redo := fun h he => h.redo he
  bump := fun h => h.bump
  setMark := fun c p o h => h.setMark c p o
  globSet := fun p k h => h.globSet p k
  globGet := fun p k h => h.globGet p k

/-- a run of the `ex()` loop in which every line executed is quiet (no `:e`/`:b`/`:w`/`:q`/`:!`/`:@`,
    also inside `:g` command lists nested at most `d` deep) -/
inductive QuietRun (d : Nat) : Ed → Ed → Prop
  | refl (ed : Ed) : QuietRun d ed ed
  | step {ed ed1 ed2 : Ed} {r : Int} : (∀ ln ∈ ed.input.head?, C15.quietLine d ln = true) →
      exStep ed = some (r, ed1) → QuietRun d ed1 ed2 → QuietRun d ed ed2

theorem quietRun_stable (S : Stable P Q) {d : Nat} {ed ed' : Ed} (h : QuietRun d ed ed') (hi : P ed) : P ed' := by
  induction h with
  | refl => exact hi
  | step hq hs _ ih => exact ih (exStep_stable S d _ _ _ hq hi hs)

end Neatvi.Lemmas.C02b
