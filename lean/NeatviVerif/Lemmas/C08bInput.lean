import NeatviVerif.Lemmas.C08bSim
import NeatviVerif.Lemmas.C08Round
/-!
# C08 (insert mode): `led_input` / `vi_input` for an insertion that ends on the line it started
-/
namespace Neatvi.Lemmas.C08b
open Neatvi Neatvi.Uc Neatvi.Vi Neatvi.Ex Neatvi.Spec Neatvi.Lemmas.C08 Neatvi.Lemmas.C09

/-- the auto-indent `led_input` splits off the prefix: its leading blanks (at most 127) -/
def aiOf (pref0 : Bytes) : Bytes := (pref0.takeWhile isBlankC).take 127

/-- the rest of the prefix -/
def prefRest (pref0 : Bytes) : Bytes := pref0.drop (aiOf pref0).length

theorem aiOf_append_prefRest (pref0 : Bytes) : aiOf pref0 ++ prefRest pref0 = pref0 := by
  unfold prefRest aiOf
  have h1 : (pref0.takeWhile isBlankC).take 127 = pref0.take ((pref0.takeWhile isBlankC).take 127).length := by
    have hp : (pref0.takeWhile isBlankC).take 127 <+: pref0 :=
      List.IsPrefix.trans (List.take_prefix _ _) (List.takeWhile_prefix _)
    exact (List.prefix_iff_eq_take.mp hp)
  conv => lhs; arg 1; rw [h1]
  exact List.take_append_drop _ _

/-- is the auto-indent put back in front of the line?  Not for a blank line typed after a blank
prefix at the end of a line -/
def keepAi (pref0 post0 ln : Bytes) : Bool :=
  decide ((ln.takeWhile isBlankC).length < ln.length) || !(prefRest pref0).isEmpty ||
    (!post0.isEmpty && post0.headD 0 != 10)

/-- the text `led_input` builds when the first line is ended by ESC / `^C` -/
def inputLine (pref0 post0 ln ai : Bytes) : Bytes :=
  (if keepAi pref0 post0 ln then ai else []) ++ prefRest pref0 ++ ln ++ post0

/-- `led_input` when `led_line` returns with an interrupt key on the first line -/
theorem ledInput_of_ledLine (pref0 post0 : Bytes) (s : VS) (ln ai' : Bytes) (e : Nat) (s1 : VS)
    (h : ledLine (prefRest pref0) post0 (aiOf pref0) 127 true false s = Res.ok (ln, (e : Int), ai') s1)
    (he : e ≠ 10) (hnl : nlCount ln = 0) :
    ledInput pref0 post0 s = Res.ok (inputLine pref0 post0 ln ai', post0) s1 := by
  unfold prefRest aiOf at h
  unfold ledInput
  simp only [bind_apply, get_apply]
  rw [ledInput.loop]
  simp only [bind_apply, Option.getD_some, h]
  have e10 : ((e : Int) == 10) = false := beq_cast e 10 he
  have n10 : ((e : Int) != 10) = true := by simp [bne, e10]
  simp only [hnl, e10, n10, Bool.false_eq_true, if_false, Nat.add_zero, Vi.repeatM, pure_apply, if_true,
    Bool.true_and, List.nil_append, List.append_nil]
  rfl

/-! ### `charcount` and `nlCount` on encoded text -/

theorem filter_ten_enc {c : Nat} (h : c ≠ 10) : (enc c).filter (· == 10) = [] := by
  rw [List.filter_eq_nil_iff]
  intro x hx hx10
  simp only [beq_iff_eq] at hx10
  subst hx10
  exact h (ten_mem_enc hx)

theorem nlCount_append (a b : Bytes) : nlCount (a ++ b) = nlCount a + nlCount b := by
  simp [nlCount]

theorem nlCount_encStr {cs : List Nat} (h : 10 ∉ cs) : nlCount (encStr cs) = 0 := by
  induction cs with
  | nil => rfl
  | cons c r ih =>
    simp only [List.mem_cons, not_or] at h
    rw [encStr_cons, nlCount_append, ih h.2]
    simp [nlCount, filter_ten_enc (Ne.symm h.1)]

theorem nlCount_ten : nlCount [10] = 1 := rfl

/-- the characters of the last line of `head`, when `head` has no newline: all of them -/
theorem charcount_enc {hd ps : List Nat} (hh : ∀ c ∈ hd, ValidCp c) (hp : ∀ c ∈ ps, ValidCp c) (h10 : 10 ∉ hd) :
    charcount (encStr hd ++ encStr ps) (encStr ps) = hd.length := by
  unfold charcount
  rw [if_neg (by simp)]
  simp only [List.length_append, Nat.add_sub_cancel]
  rw [List.take_left']
  · have hno : 10 ∉ encStr hd := ten_notin_encStr h10
    have htw : (encStr hd).reverse.takeWhile (· != 10) = (encStr hd).reverse := by
      apply takeWhile_all
      intro x hx
      have : x ≠ 10 := fun hx10 => hno (by rw [← hx10]; simpa using hx)
      simpa using this
    simp only [htw, List.length_reverse, beq_self_eq_true, if_true, List.drop_zero]
    rw [← encStr_append, Props.C16.slen_spec, Props.C16.slen_spec hp]
    · simp only [List.length_append]; omega
    · intro c hc
      rcases List.mem_append.mp hc with hc | hc
      · exact hh c hc
      · exact hp c hc
  · rfl

/-- `vi_input` from the result of `led_input` -/
theorem viInput_of_ledInput (pref post : Bytes) (s s1 : VS) (rep post' : Bytes)
    (h : ledInput pref post s = Res.ok (rep, post') s1) :
    viInput pref post s = Res.ok (rep, (nlCount rep : Int),
      if charcount rep post' - 1 < 0 then 0 else charcount rep post' - 1) s1 := by
  unfold viInput
  simp only [bind_apply, h]
  rfl

/-! ### text and ESC -/

/-- with the auto-indent kept, the text is prefix ++ typed line ++ rest of the line -/
theorem inputLine_keep (pref post ln : Bytes) (h : keepAi pref post ln = true) :
    inputLine pref post ln (aiOf pref) = pref ++ ln ++ post := by
  unfold inputLine
  rw [h, if_pos rfl, aiOf_append_prefRest]

/-- `led_input` for an edit script ended by ESC / `^C` (no literal newline in the resulting line):
the line returned by `led_line` is put between the prefix and the rest of the line -/
theorem ledInput_script (pref post : Bytes) (s : VS) (evs : List Ev) (e : Nat) (rest : Bytes)
    (hp : pending s = scriptKeys evs ++ e :: rest) (hok : ∀ ev ∈ evs, ev.ok) (he : e = 27 ∨ e = 3)
    (hfuel : scriptSteps evs < 100000) (hk : s.xkmap = 0)
    (hnl : nlCount (runScript (prefRest pref).isEmpty 127 evs ([], aiOf pref)).1 = 0) :
    ∃ s', ledInput pref post s =
        Res.ok (inputLine pref post (runScript (prefRest pref).isEmpty 127 evs ([], aiOf pref)).1
                  (runScript (prefRest pref).isEmpty 127 evs ([], aiOf pref)).2, post) s' ∧
      pending s' = rest ∧ Reads true (scriptKeys evs ++ [e]) s s' := by
  obtain ⟨s', h1, h2, h3⟩ := ledLine_script (prefRest pref) post (aiOf pref) 127 true false s evs e rest hp hok
    (by omega) hfuel hk
  exact ⟨s', ledInput_of_ledLine pref post s _ _ e s' h1 (by omega) hnl, h2, h3⟩

/-- `ledInput_single_line`: typed text `cs` (valid UTF-8, no control characters) and ESC -/
theorem ledInput_text (pref post : Bytes) (s : VS) (cs : List Nat) (rest : Bytes)
    (hp : pending s = encStr cs ++ [27] ++ rest) (hpl : ∀ c ∈ cs, ValidCp c ∧ 32 ≤ c ∧ c ≠ 127)
    (hlen : cs.length < 100000) (hk : s.xkmap = 0) :
    ∃ s', ledInput pref post s = Res.ok (inputLine pref post (encStr cs) (aiOf pref), post) s' ∧
      pending s' = rest ∧ Reads true (encStr cs ++ [27]) s s' := by
  have h10 : 10 ∉ cs := fun h => by have := hpl 10 h; omega
  obtain ⟨s', h1, h2, h3⟩ := ledInput_script pref post s [Ev.text cs] 27 rest
    (by simp [scriptKeys, Ev.keys] at hp ⊢; exact hp)
    (by intro ev hev; simp at hev; subst hev; exact hpl)
    (by simp) (by simpa [scriptSteps, Ev.steps] using hlen) hk
    (by simpa [runScript, Ev.apply] using nlCount_encStr h10)
  refine ⟨s', ?_, h2, ?_⟩
  · simpa [runScript, Ev.apply] using h1
  · simpa [scriptKeys, Ev.keys] using h3

/-- **the keys `K` type the text `cs` and leave insert mode**: on any state whose pending keys start with
`K` (default keymap), `led_input` returns the text `cs` between the prefix and the rest of the line and
consumes exactly `K` -/
def Inputs (K : Bytes) (cs : List Nat) : Prop :=
  ∀ (pref post : Bytes) (s : VS) (rest : Bytes), pending s = K ++ rest → s.xkmap = 0 →
    ∃ s', ledInput pref post s = Res.ok (inputLine pref post (encStr cs) (aiOf pref), post) s' ∧
      pending s' = rest ∧ Reads true K s s'

/-- plain text and ESC -/
theorem inputs_text (cs : List Nat) (hpl : ∀ c ∈ cs, ValidCp c ∧ 32 ≤ c ∧ c ≠ 127) (hlen : cs.length < 100000) :
    Inputs (encStr cs ++ [27]) cs :=
  fun pref post s rest hp hk => ledInput_text pref post s cs rest hp hpl hlen hk

/-- any script of text / `^H` / DEL / `^U` / `^W` / `^V c` events whose net result is `cs`, and ESC -/
theorem inputs_script (evs : List Ev) (cs : List Nat) (hty : Types evs cs) (h10 : 10 ∉ cs) :
    Inputs (scriptKeys evs ++ [27]) cs := by
  intro pref post s rest hp hk
  obtain ⟨hok, hfuel, htxt⟩ := hty
  have hrun := runScript_noIndent (prefRest pref).isEmpty 127 evs [] (aiOf pref) (fun ev hev => (hok ev hev).2)
  have htxt' : (runScript false 127 evs ([], [])).1 = encStr cs := htxt
  obtain ⟨s', h1, h2, h3⟩ := ledInput_script pref post s evs 27 rest (by rw [hp]; simp)
    (fun ev hev => (hok ev hev).1) (Or.inl rfl) hfuel hk
    (by rw [hrun, htxt']; exact nlCount_encStr h10)
  rw [hrun, htxt'] at h1
  exact ⟨s', h1, h2, h3⟩

/-- `viInput_single_line`: prefix `encStr ps` (no newline), rest of the line `encStr qs`, typed text
`cs`, auto-indent kept: the replacement text is prefix ++ text ++ rest, the row count is the number of
newlines of the rest (1 for the rest of a buffer line), the offset that of the last typed character -/
theorem viInput_single_line_aux (ps qs : List Nat) (s : VS) (K : Bytes) (cs : List Nat) (rest : Bytes)
    (hps : ∀ c ∈ ps, ValidCp c) (hqs : ∀ c ∈ qs, ValidCp c) (hps10 : 10 ∉ ps)
    (hin : Inputs K cs) (hp : pending s = K ++ rest) (hpl : ∀ c ∈ cs, ValidCp c) (h10 : 10 ∉ cs)
    (hk : s.xkmap = 0)
    (hkeep : keepAi (encStr ps) (encStr qs) (encStr cs) = true) :
    ∃ s', viInput (encStr ps) (encStr qs) s =
        Res.ok (encStr (ps ++ cs ++ qs), (nlCount (encStr qs) : Int),
          if ((ps.length + cs.length : Nat) : Int) - 1 < 0 then 0 else ((ps.length + cs.length : Nat) : Int) - 1) s' ∧
      pending s' = rest ∧ Reads true K s s' := by
  obtain ⟨s', h1, h2, h3⟩ := hin (encStr ps) (encStr qs) s rest hp hk
  rw [inputLine_keep _ _ _ hkeep] at h1
  refine ⟨s', ?_, h2, h3⟩
  rw [viInput_of_ledInput _ _ _ _ _ _ h1]
  have hcc : charcount (encStr ps ++ encStr cs ++ encStr qs) (encStr qs) = ((ps ++ cs).length : Nat) := by
    rw [← encStr_append]
    exact charcount_enc (fun c hc => by
        rcases List.mem_append.mp hc with hc | hc
        · exact hps c hc
        · exact hpl c hc) hqs (by
        intro hm
        rcases List.mem_append.mp hm with hm | hm
        · exact hps10 hm
        · exact h10 hm)
  rw [hcc, nlCount_append, nlCount_append, nlCount_encStr hps10, nlCount_encStr h10]
  simp only [encStr_append, List.length_append, Nat.zero_add]

end Neatvi.Lemmas.C08b
