import NeatviVerif.Lemmas.C11Parse
/-!
# C11c: the clamped program-size estimate `countSat` against the unbounded `count`

`rnode_count()` in regex.c clamps every value it returns to `NCODE`, so that the products of nested
bounded repetitions stay inside `int`; `regcomp()` refuses the pattern when `count + 3 > NCODE`.
The model has both: `count` (the mathematical size estimate, unbounded) and `countSat` (what the C
code computes).  This file proves that on every tree the parser can produce (`TreeOk`)

* `countSat t = min (count t) NCODE` (`countSat_eq_min`);
* below the limit nothing was clamped (`countSat_small`) and the limit test is the same on both
  (`countSat_big`);
* `0 ≤ countSat t ≤ NCODE` (`countSat_bounded`) and every intermediate value of the C arithmetic is
  inside `int` (`countRepSat_no_overflow`, `countSat_arg_bounded`).
-/
namespace Neatvi.Lemmas.C11c
open Neatvi Neatvi.Regex Neatvi.Props.C11

theorem ncode_val : (Gen.NCODE : Int) = 1048576 := by decide
theorem nreps_val : (Gen.NREPS : Int) = 128 := by decide

/-! ## `sat` -/

theorem sat_le (n : Int) : sat n ≤ n ∧ sat n ≤ (Gen.NCODE : Int) := by
  unfold sat; split <;> omega

theorem sat_eq_of_lt {n : Int} (h : n < (Gen.NCODE : Int)) : sat n = n := by
  unfold sat; rw [if_pos h]

theorem sat_eq_of_ge {n : Int} (h : (Gen.NCODE : Int) ≤ n) : sat n = (Gen.NCODE : Int) := by
  unfold sat; rw [if_neg (by omega)]

theorem sat_mono {a b : Int} (h : a ≤ b) : sat a ≤ sat b := by
  unfold sat; split <;> split <;> omega

theorem sat_eq_min (n : Int) : sat n = min n (Gen.NCODE : Int) := by
  unfold sat; split <;> omega

theorem sat_idem (n : Int) : sat (sat n) = sat n := by
  by_cases h : n < (Gen.NCODE : Int)
  · rw [sat_eq_of_lt h, sat_eq_of_lt h]
  · rw [sat_eq_of_ge (n := n) (by omega), sat_eq_of_ge (Int.le_refl _)]

theorem sat_nonneg {n : Int} (h : 0 ≤ n) : 0 ≤ sat n := by
  have := ncode_val
  unfold sat; split <;> omega

theorem sat_zero : sat 0 = 0 := by
  have := ncode_val
  unfold sat; rw [if_pos (by omega)]

/-- adding under `sat`: clamping the summands first changes nothing (non-negative summands) -/
theorem sat_add_sat {a b : Int} (ha : 0 ≤ a) (hb : 0 ≤ b) (k : Int) (hk : 0 ≤ k) :
    sat (sat a + sat b + k) = sat (a + b + k) := by
  unfold sat; repeat' split
  all_goals omega

/-! ## the repetition wrapper `n ↦ countRep n mn mx` -/

/-- the clamped wrapper is the clamp of the unbounded wrapper -/
theorem countRepSat_eq (n mn mx : Int) : countRepSat n mn mx = sat (countRep n mn mx) := by
  unfold countRepSat countRep
  by_cases h0 : (mn == 0 && mx == 0) = true
  · simp only [h0, if_true, sat_zero]
  · simp only [h0, if_false, Bool.false_eq_true]
    by_cases h1 : (mn == 1 && mx == 1) = true
    · simp only [h1, if_true]
    · simp only [h1, if_false, Bool.false_eq_true]

/-- the case `{1,1}`: no repetition -/
theorem countRep_one (n : Int) : countRep n 1 1 = n := by
  simp [countRep]

/-- the constant-0 case `{0,0}` -/
theorem countRep_zero (n : Int) : countRep n 0 0 = 0 := by
  simp [countRep]

/-- except for `{0,0}` a repetition is at least as large as one copy -/
theorem countRep_ge (n mn mx : Int) (hn : 0 ≤ n) (hr : RepOk mn mx) (hz : ¬ (mn = 0 ∧ mx = 0)) :
    n ≤ countRep n mn mx := by
  obtain ⟨h0, _, _, h3⟩ := hr
  have hp : 0 ≤ mn * n := Int.mul_nonneg h0 hn
  have e1 : (mn + 1) * n = mn * n + n := by rw [Int.add_mul, Int.one_mul]
  have e2 : (mn + mx) * n = mn * n + mx * n := Int.add_mul ..
  unfold countRep
  have c0 : (mn == 0 && mx == 0) = false := by
    simp only [Bool.and_eq_false_iff, beq_eq_false_iff_ne, ne_eq]; omega
  simp only [c0, Bool.false_eq_true, if_false]
  split
  · omega
  · by_cases hx : mx < 0
    · simp only [hx, if_true]
      split <;> omega
    · simp only [hx, if_false]
      have hx1 : 1 ≤ mx := by omega
      have hq : 0 ≤ (mx - 1) * n := Int.mul_nonneg (by omega) hn
      have e3 : (mx - 1) * n = mx * n - n := by rw [Int.sub_mul, Int.one_mul]
      split <;> omega

theorem countRep_nonneg (n mn mx : Int) (hn : 0 ≤ n) (hr : RepOk mn mx) : 0 ≤ countRep n mn mx := by
  by_cases hz : mn = 0 ∧ mx = 0
  · rw [hz.1, hz.2, countRep_zero]; omega
  · have := countRep_ge n mn mx hn hr hz; omega

/-- the wrapper is monotone in the size of one copy -/
theorem countRep_mono (n n' mn mx : Int) (hr : RepOk mn mx) (h : n ≤ n') :
    countRep n mn mx ≤ countRep n' mn mx := by
  obtain ⟨h0, _, _, h3⟩ := hr
  unfold countRep
  split
  · omega
  · split
    · exact h
    · by_cases hx : mx < 0
      · simp only [hx, if_true]
        have : (mn + 1) * n ≤ (mn + 1) * n' := Int.mul_le_mul_of_nonneg_left h (by omega)
        split <;> omega
      · simp only [hx, if_false]
        have : (mn + mx) * n ≤ (mn + mx) * n' := Int.mul_le_mul_of_nonneg_left h (by omega)
        split <;> omega

/-- beyond the limit the wrapper stays beyond the limit, unless it is the constant-0 case `{0,0}` -/
theorem countRep_big (n mn mx : Int) (hr : RepOk mn mx) (hz : ¬ (mn = 0 ∧ mx = 0))
    (hn : (Gen.NCODE : Int) ≤ n) : (Gen.NCODE : Int) ≤ countRep n mn mx := by
  have := ncode_val
  have := countRep_ge n mn mx (by omega) hr hz
  omega

/-- two arguments beyond the limit give the same clamped value -/
theorem sat_countRep_big (x y mn mx : Int) (hr : RepOk mn mx)
    (hx : (Gen.NCODE : Int) ≤ x) (hy : (Gen.NCODE : Int) ≤ y) :
    sat (countRep x mn mx) = sat (countRep y mn mx) := by
  by_cases hz : mn = 0 ∧ mx = 0
  · rw [hz.1, hz.2, countRep_zero, countRep_zero]
  · rw [sat_eq_of_ge (countRep_big x mn mx hr hz hx), sat_eq_of_ge (countRep_big y mn mx hr hz hy)]

/-- clamping the size of one copy first (plus the `k` extra instructions of a group) changes nothing -/
theorem sat_countRep_sat (c k mn mx : Int) (hk : 0 ≤ k) (hr : RepOk mn mx) :
    sat (countRep (sat c + k) mn mx) = sat (countRep (c + k) mn mx) := by
  by_cases hc : c < (Gen.NCODE : Int)
  · rw [sat_eq_of_lt hc]
  · rw [sat_eq_of_ge (n := c) (by omega)]
    exact sat_countRep_big _ _ mn mx hr (by omega) (by omega)

/-! ## the whole tree -/

theorem count_nonneg (t : RNode) : TreeOk t → 0 ≤ count t := by
  induction t with
  | nul => intro _; simp [count]
  | atom a mn mx => intro h; exact countRep_nonneg 1 mn mx (by omega) h
  | cat a b iha ihb =>
    intro h
    have := iha h.1
    have := ihb h.2
    simp only [count]; omega
  | alt a b iha ihb =>
    intro h
    have := iha h.1
    have := ihb h.2
    simp only [count]; omega
  | grp a g mn mx iha =>
    intro h
    have := iha h.1
    exact countRep_nonneg _ mn mx (by omega) h.2

/-- what the C code computes is the clamp of the mathematical size estimate -/
theorem countSat_eq_sat (t : RNode) : TreeOk t → countSat t = sat (count t) := by
  induction t with
  | nul => intro _; simp only [countSat, count, sat_zero]
  | atom a mn mx => intro _; simp only [countSat, count, countRepSat_eq]
  | cat a b iha ihb =>
    intro h
    have ha := count_nonneg a h.1
    have hb := count_nonneg b h.2
    have := sat_add_sat ha hb 0 (by omega)
    simp only [Int.add_zero] at this
    simp only [countSat, count, countRepSat_eq, iha h.1, ihb h.2, countRep_one]
    exact this
  | alt a b iha ihb =>
    intro h
    have ha := count_nonneg a h.1
    have hb := count_nonneg b h.2
    have := sat_add_sat ha hb 2 (by omega)
    simp only [countSat, count, countRepSat_eq, iha h.1, ihb h.2, countRep_one]
    exact this
  | grp a g mn mx iha =>
    intro h
    simp only [countSat, count, countRepSat_eq, iha h.1]
    exact sat_countRep_sat (count a) 2 mn mx (by omega) h.2

/-- **the bridge**: on every tree the parser can produce, the clamped count is the minimum of the
    unbounded count and the limit -/
theorem countSat_eq_min (t : RNode) (h : TreeOk t) : countSat t = min (count t) (Gen.NCODE : Int) := by
  rw [countSat_eq_sat t h, sat_eq_min]

/-- below the limit nothing was clamped -/
theorem countSat_small (t : RNode) (h : TreeOk t) (hs : countSat t + 3 ≤ (Gen.NCODE : Int)) :
    countSat t = count t := by
  have := countSat_eq_min t h
  omega

/-- the limit test of `regcomp` is the same on the clamped and on the unbounded count -/
theorem countSat_big (t : RNode) (h : TreeOk t) :
    count t + 3 > (Gen.NCODE : Int) ↔ countSat t + 3 > (Gen.NCODE : Int) := by
  have := countSat_eq_min t h
  omega

/-- the clamped count never exceeds the limit (any tree) -/
theorem countSat_le_ncode (t : RNode) : countSat t ≤ (Gen.NCODE : Int) := by
  have := ncode_val
  cases t <;> simp only [countSat, countRepSat_eq] <;> first | omega | exact (sat_le _).2

theorem countSat_bounded (t : RNode) (h : TreeOk t) :
    0 ≤ countSat t ∧ countSat t ≤ (Gen.NCODE : Int) := by
  refine ⟨?_, countSat_le_ncode t⟩
  rw [countSat_eq_sat t h]
  exact sat_nonneg (count_nonneg t h)

/-! ## the C arithmetic stays inside `int` -/

/-- Every intermediate value of the repetition arithmetic of `rnode_count()` is a non-negative
    `int` below `2^31`, when the size `n` of one copy is at most `2 * NCODE + 2` (the largest value
    the `RN_CAT`/`RN_ALT`/`RN_GRP` sums of two clamped counts can take) and the bounds are the
    parser's: `(mincnt + 1) * n + 1` and `n++` for an unbounded repetition,
    `(mincnt + maxcnt) * n + maxcnt - mincnt` and `n++` for a bounded one. -/
theorem countRepSat_no_overflow (n mn mx : Int) (hn0 : 0 ≤ n) (hn : n ≤ 2 * (Gen.NCODE : Int) + 2)
    (h0 : 0 ≤ mn) (h1 : mn ≤ (Gen.NREPS : Int)) (h2 : mx ≤ (Gen.NREPS : Int)) :
    (0 ≤ (mn + 1) * n ∧ (mn + 1) * n < 2 ^ 31 ∧
      (mn + 1) * n + 1 < 2 ^ 31 ∧ (mn + 1) * n + 1 + 1 < 2 ^ 31) ∧
    (0 ≤ mx →
      0 ≤ (mn + mx) * n ∧ (mn + mx) * n < 2 ^ 31 ∧
      0 ≤ (mn + mx) * n + mx ∧ (mn + mx) * n + mx < 2 ^ 31 ∧
      -(2 ^ 31) ≤ (mn + mx) * n + mx - mn ∧ (mn + mx) * n + mx - mn < 2 ^ 31 ∧
      (mn + mx) * n + mx - mn + 1 < 2 ^ 31) := by
  have hN := ncode_val
  have hR := nreps_val
  rw [hN] at hn
  rw [hR] at h1 h2
  have hpow : (2 : Int) ^ 31 = 2147483648 := by decide
  rw [hpow]
  refine ⟨?_, ?_⟩
  · have a1 : 0 ≤ (mn + 1) * n := Int.mul_nonneg (by omega) hn0
    have a2 : (mn + 1) * n ≤ 129 * 2097154 :=
      Int.mul_le_mul (by omega) hn hn0 (by omega)
    omega
  · intro hx
    have a1 : 0 ≤ (mn + mx) * n := Int.mul_nonneg (by omega) hn0
    have a2 : (mn + mx) * n ≤ 256 * 2097154 :=
      Int.mul_le_mul (by omega) hn hn0 (by omega)
    omega

/-- the argument of the repetition arithmetic at every node of a tree is within the hypothesis of
    `countRepSat_no_overflow` -/
theorem countSat_arg_bounded (a b : RNode) (ha : TreeOk a) (hb : TreeOk b) :
    0 ≤ countSat a + countSat b ∧ countSat a + countSat b + 2 ≤ 2 * (Gen.NCODE : Int) + 2 ∧
    0 ≤ countSat a + 2 ∧ countSat a + 2 ≤ 2 * (Gen.NCODE : Int) + 2 := by
  have := countSat_bounded a ha
  have := countSat_bounded b hb
  have := ncode_val
  omega

end Neatvi.Lemmas.C11c
