import NeatviVerif.Lemmas.C16cEd
/-!
# C16c, part 4: helpers of `ex.c` — addresses, path expansion, `ex_txt`, `re_read`, the buffer table
-/
set_option linter.unusedSimpArgs false
set_option linter.unusedVariables false
namespace Neatvi.Lemmas.C16c
open Neatvi Neatvi.Uc Neatvi.Spec Neatvi.Lbuf Neatvi.LbufIo Neatvi.Ex Neatvi.Props.C11b Neatvi.Props.C16b

/-! ## addresses leave everything but the cursor and the search keyword alone -/

theorem exSearch_core {ed ed' : Ed} {loc : Bytes} {r : Int × Bytes}
    (h : exSearch ed loc = some (r, ed')) : core ed' = core ed := by
  unfold exSearch at h
  simp only [] at h
  core_split h

theorem exLineno_core {ed ed' : Ed} {loc : Bytes} {r : Int × Bytes}
    (h : exLineno ed loc = some (r, ed')) : core ed' = core ed := by
  unfold exLineno at h
  simp only [] at h
  split at h
  · cases h
  · rename_i n rest ed1 hb
    have h1 : core ed1 = core ed := by
      core_split hb
      rename_i hs _
      exact exSearch_core hs
      rename_i hs _
      exact exSearch_core hs
    core_split h
    all_goals exact h1

theorem exRegion_go_core : ∀ (f : Nat) (ed : Ed) (loc : Bytes) (na : Nat) (b e : Int) (r : Int × Int) (ed' : Ed),
    exRegion.go f ed loc na b e = some (r, ed') → core ed' = core ed := by
  intro f
  induction f with
  | zero => intro ed loc na b e r ed' h; rw [exRegion.go] at h; cases h; rfl
  | succ f ih =>
    intro ed loc na b e r ed' h
    rw [exRegion.go] at h
    simp only [] at h
    split at h
    · cases h; rfl
    · split at h
      · cases h
      · rename_i n rest ed1 hl
        have h1 := exLineno_core hl
        split at h
        · cases h; exact h1
        · split at h
          · cases h; exact h1
          · have := ih _ _ _ _ _ _ _ h
            rw [this]
            split <;> exact h1

/-- **`ex_region` changes nothing the invariant reads** -/
theorem exRegion_core {ed ed' : Ed} {loc : Bytes} {r : Nat × Int × Int}
    (h : exRegion ed loc = some (r, ed')) : core ed' = core ed := by
  unfold exRegion at h
  simp only [] at h
  split at h
  · cases h; rfl
  · split at h
    · cases h; rfl
    · split at h
      · cases h
      · rename_i hg
        have h1 := exRegion_go_core _ _ _ _ _ _ _ _ hg
        core_split h
        all_goals exact h1

theorem EdOk.region {ed ed' : Ed} (h : EdOk ed) {loc : Bytes} {r : Nat × Int × Int}
    (hr : exRegion ed loc = some (r, ed')) : EdOk ed' := h.to (exRegion_core hr)

theorem setOpt_core (ed : Ed) (v : String) (val : Int) : core (setOpt ed v val) = core ed := by
  unfold setOpt
  repeat' split
  all_goals rfl

/-! ## `re_read` with an ASCII delimiter -/

/-- removing an ASCII byte from a valid string leaves it valid -/
theorem isU8_remove_ascii {a b : Bytes} {c : Nat} (h : IsU8 (a ++ c :: b)) (hc : c < 128) : IsU8 (a ++ b) := by
  obtain ⟨h1, h2⟩ := isU8_split_ascii h hc
  exact isU8_append h1 h2

theorem reRead_go_valid (delim : Nat) (hd : delim < 128) : ∀ (f : Nat) (s acc : Bytes), IsU8 (acc ++ s) →
    IsU8 (reRead.go delim f s acc).1 ∧ IsU8 (reRead.go delim f s acc).2 ∨ s.length ≥ f := by
  intro f
  induction f with
  | zero => intro s acc _; right; omega
  | succ f ih =>
    intro s acc h
    rw [reRead.go.eq_def]
    simp only []
    cases s with
    | nil => left; simp only []; exact ⟨by simpa using h, isU8_nil⟩
    | cons c r =>
      simp only []
      split
      · rename_i hc
        have hc' : c = delim := by
          simp only [Bool.and_eq_true, beq_iff_eq] at hc
          exact hc.1
        subst hc'
        left
        exact isU8_split_ascii h hd
      · split
        · rename_i hb
          simp only [Bool.and_eq_true, beq_iff_eq, Bool.not_eq_true', List.isEmpty_eq_false_iff] at hb
          obtain ⟨hb1, hb2⟩ := hb
          subst hb1
          cases r with
          | nil => exact absurd rfl hb2
          | cons d r' =>
            by_cases hdd : (!((d :: r').headD 0 == delim && decide (delim < 128))) = true
            · rw [if_pos hdd]
              show IsU8 (reRead.go delim f r' (acc ++ [92, d])).1 ∧ IsU8 (reRead.go delim f r' (acc ++ [92, d])).2 ∨ _
              have hv : IsU8 ((acc ++ [92, d]) ++ r') := by simpa using h
              rcases ih r' (acc ++ [92, d]) hv with h1 | h1
              · left; exact h1
              · right; simp at h1 ⊢; omega
            · rw [if_neg hdd]
              show IsU8 (reRead.go delim f r' (acc ++ [d])).1 ∧ IsU8 (reRead.go delim f r' (acc ++ [d])).2 ∨ _
              have hv : IsU8 ((acc ++ [d]) ++ r') := by
                have := isU8_remove_ascii (a := acc) (b := d :: r') (c := 92) h (by decide)
                simpa using this
              rcases ih r' (acc ++ [d]) hv with h1 | h1
              · left; exact h1
              · right; simp at h1 ⊢; omega
        · have hv : IsU8 ((acc ++ [c]) ++ r) := by simpa using h
          rcases ih r (acc ++ [c]) hv with h1 | h1
          · left; exact h1
          · right; simp at h1 ⊢; omega

/-- **`re_read` on a valid text that starts with an ASCII delimiter**: the pattern and what follows it are valid -/
theorem reRead_valid {src : Bytes} (h : IsU8 src) (hd : src.headD 0 < 128) :
    OptValid (reRead src).1 ∧ IsU8 (reRead src).2 := by
  unfold reRead
  cases src with
  | nil => exact ⟨optValid_none, isU8_nil⟩
  | cons delim s =>
    simp only []
    have hs : IsU8 s := isU8_ascii_cons h hd
    rcases reRead_go_valid delim hd (s.length + 1) s [] (by simpa using hs) with h1 | h1
    · exact ⟨optValid_some.mpr h1.1, h1.2⟩
    · omega

/-! ## `ex_pathexpand` -/

theorem find_rev_range {n i : Nat} {p : Nat → Bool} (h : (List.range n).reverse.find? p = some i) : i < n ∧ p i = true := by
  have h1 := List.mem_of_find?_eq_some h
  have h2 := List.find?_some h
  simp only [List.mem_reverse, List.mem_range] at h1
  exact ⟨h1, h2⟩

theorem pathExpand_go_valid (ed : Ed) (hok : EdOk ed) (sp : Bool) : ∀ (f : Nat) (src dst p : Bytes), src.length < f →
    IsU8 (dst ++ src) → pathExpand.go ed sp f src dst = some (some p) → IsU8 p := by
  intro f
  induction f with
  | zero => intro src dst p hf; omega
  | succ f ih =>
    intro src dst p hf hv h
    rw [pathExpand.go.eq_def] at h
    simp only [] at h
    cases src with
    | nil =>
      simp only [Option.some.injEq] at h
      subst h
      simpa using hv
    | cons c r =>
      simp only [] at h
      have hf' : r.length < f := by simp at hf; omega
      split at h
      · rename_i hc
        simp only [Option.some.injEq] at h
        subst h
        have hc' : c < 128 := by
          simp only [Bool.or_eq_true, beq_iff_eq, Bool.and_eq_true, Bool.not_eq_true'] at hc
          rcases hc with hc | ⟨_, hc | hc⟩ <;> omega
        exact (isU8_split_ascii hv hc').1
      · split at h
        · rename_i hc
          have hc' : c < 128 := by
            simp only [Bool.or_eq_true, beq_iff_eq] at hc
            rcases hc with hc | hc <;> omega
          obtain ⟨h1, h2⟩ := isU8_split_ascii hv hc'
          split at h
          · cases h
          · rename_i b hb
            apply ih r _ p hf' _ h
            have hp : IsU8 (if b.path.isEmpty = true then [47] else b.path) := by
              split
              · exact isU8_single (by decide) (by decide)
              · exact (hok.getD hb).2
            exact isU8_append (isU8_append h1 hp) h2
        · split at h
          · rename_i hc
            simp only [Bool.and_eq_true, List.isEmpty_iff, beq_iff_eq] at hc
            obtain ⟨hd, hc⟩ := hc
            subst hd; subst hc
            have hr : IsU8 r := isU8_ascii_cons (by simpa using hv) (by decide)
            split at h
            · rename_i b hb
              split at h
              · rename_i i hi
                apply ih r _ p hf' _ h
                obtain ⟨hi1, hi2⟩ := find_rev_range hi
                have hbd : IsBd b.path i := by
                  apply isBd_of_noncont (hok.cur hb).2 (by omega)
                  have : b.path.getD i 0 = 47 := by simpa using hi2
                  rw [this]; omega
                exact isU8_append (isU8_append hbd.1 (isU8_single (by decide) (by decide))) hr
              · exact ih r _ p hf' (by simpa using hr) h
            · exact ih r _ p hf' (by simpa using hr) h
          · split at h
            · rename_i hc
              simp only [Bool.and_eq_true, beq_iff_eq, Bool.not_eq_true', List.isEmpty_eq_false_iff] at hc
              obtain ⟨hc1, hc2⟩ := hc
              subst hc1
              cases r with
              | nil => exact absurd rfl hc2
              | cons d r' =>
                simp only [List.headD_cons, List.drop_succ_cons, List.drop_zero] at h
                apply ih r' _ p (by simp at hf' ⊢; omega) _ h
                have := isU8_remove_ascii (a := dst) (b := d :: r') (c := 92) hv (by decide)
                simpa using this
            · exact ih r _ p hf' (by simpa using hv) h

/-- **`ex_pathexpand` of a valid argument** (`%` and `#` stand for valid path names) gives a valid path,
and changes nothing the invariant reads -/
theorem pathExpand_ok {ed ed' : Ed} (hok : EdOk ed) {src : Bytes} (hs : IsU8 src) {sp : Bool} {r : Option Bytes}
    (h : pathExpand ed src sp = some (r, ed')) : OptValid r ∧ core ed' = core ed := by
  unfold pathExpand at h
  split at h
  · cases h
  · simp only [Option.some.injEq, Prod.mk.injEq] at h
    obtain ⟨h1, h2⟩ := h
    subst h1; subst h2
    exact ⟨optValid_none, rfl⟩
  · rename_i p hp
    split at h
    · cases h
    · simp only [Option.some.injEq, Prod.mk.injEq] at h
      obtain ⟨h1, h2⟩ := h
      subst h1; subst h2
      exact ⟨optValid_some.mpr (pathExpand_go_valid ed hok sp _ src [] p (by omega) (by simpa using hs) hp), rfl⟩

theorem pathExpand_core {ed ed' : Ed} {src : Bytes} {sp : Bool} {r : Option Bytes}
    (h : pathExpand ed src sp = some (r, ed')) : core ed' = core ed := by
  unfold pathExpand at h
  core_split h

/-! ## `ex_txt` -/

theorem exTxt_rd_valid : ∀ (f : Nat) (inp : List Bytes) (acc : Bytes), IsU8 acc → (∀ l ∈ inp, IsU8 l) →
    IsU8 (exTxt.rd f inp acc).1 ∧ ∀ l ∈ (exTxt.rd f inp acc).2, IsU8 l := by
  intro f
  induction f with
  | zero => intro inp acc ha hi; rw [exTxt.rd.eq_def]; exact ⟨ha, hi⟩
  | succ f ih =>
    intro inp acc ha hi
    rw [exTxt.rd.eq_def]
    simp only []
    cases inp with
    | nil => exact ⟨ha, by intro l hl; simp at hl⟩
    | cons l r =>
      simp only []
      have hr : ∀ x ∈ r, IsU8 x := fun x hx => hi x (by simp [hx])
      split
      · exact ⟨ha, hr⟩
      · exact ih r _ (isU8_append (isU8_append ha (hi l (by simp))) isU8_nl) hr

/-- `ex_txt`: the text is valid when the inline text (which does not depend on the state) is, since the
input lines are valid; the state stays valid -/
theorem exTxt_ok {ed : Ed} (hok : EdOk ed) (src ex : Bytes) (hinl : OptValid (exTxt {} src ex).1.1) :
    OptValid (exTxt ed src ex).1.1 ∧ EdOk (exTxt ed src ex).2 := by
  unfold exTxt at hinl ⊢
  simp only [] at hinl ⊢
  generalize (if (List.headD ex 0 != 0) = true then List.getD ex 1 0 else 0) = c1 at hinl ⊢
  by_cases hc1 : (List.headD ex 0 == 114 && c1 == 115 && !List.isEmpty src) = true
  · rw [if_pos hc1] at hinl ⊢
    exact ⟨hinl, hok⟩
  · rw [if_neg hc1] at hinl ⊢
    by_cases hc2 : (List.headD ex 0 == 114 && c1 == 115 || c1 == 0 && (List.headD ex 0 == 105 || List.headD ex 0 == 97 || List.headD ex 0 == 99)) = true
    · rw [if_pos hc2]
      have := exTxt_rd_valid (ed.input.length + 1) ed.input [] isU8_nil hok.input
      exact ⟨optValid_some.mpr this.1, ⟨hok.bufs, hok.regs, this.2, hok.pipes, hok.files, hok.nofault⟩⟩
    · rw [if_neg hc2]
      exact ⟨optValid_none, hok⟩

/-! ## the buffer table -/

theorem normPath_valid {p : Bytes} (h : IsU8 p) : IsU8 (normPath p) := by
  unfold normPath; split
  · exact isU8_nil
  · exact h

theorem EdOk.bufsSave {ed : Ed} (h : EdOk ed) : EdOk ed.bufsSave := by
  unfold Ed.bufsSave
  split
  · rename_i b hc
    exact h.setCur (b := { b with row := ed.xrow, off := ed.xoff, top := ed.xtop, left := ed.xleft, td := ed.xtd })
      (h.cur hc).1 (h.cur hc).2
  · exact h

theorem EdOk.bufsLoad {ed : Ed} (h : EdOk ed) : EdOk ed.bufsLoad := by
  unfold Ed.bufsLoad
  split
  · rename_i b hc
    exact ⟨h.bufs, h.regs.put _ (h.cur hc).2 _, h.input, h.pipes, h.files, h.nofault⟩
  · exact ⟨h.bufs, h.regs.put _ isU8_nil _, h.input, h.pipes, h.files, h.nofault⟩

theorem getD_mem_or_none {α : Type} (l : List (Option α)) (i : Nat) : l.getD i none ∈ l ∨ l.getD i none = none := by
  unfold List.getD
  cases h : l[i]? with
  | none => right; rfl
  | some o => left; exact List.mem_of_getElem? h

theorem EdOk.leave {e1 : Ed} (h1 : EdOk e1) : EdOk (Lemmas.C02Ex.leave e1) := by
  unfold Lemmas.C02Ex.leave
  split
  · rename_i b hg
    exact h1.setAt 0 (b := { b with lb := (Lbuf.modified b.lb).2 }) (modified_ok (h1.getD hg).1) (h1.getD hg).2
  · exact h1

theorem EdOk.bufsSwitch {ed : Ed} (h : EdOk ed) (idx : Nat) : EdOk (ed.bufsSwitch idx) := by
  rw [Lemmas.C02Ex.bufsSwitch_eq]
  apply EdOk.bufsLoad
  have h2 := h.bufsSave.leave
  generalize Lemmas.C02Ex.leave ed.bufsSave = e2 at h2
  apply h2.withBufs
  intro o ho x hx
  simp only [List.mem_append, List.mem_singleton] at ho
  rcases ho with (ho | ho) | ho
  · subst ho
    rcases getD_mem_or_none e2.bufs idx with h3 | h3
    · exact h2.bufs _ h3 x hx
    · rw [h3] at hx; cases hx
  · exact h2.bufs o ((List.take_sublist _ _).subset ho) x hx
  · exact h2.bufs o ((List.drop_sublist _ _).subset ho) x hx

theorem EdOk.bufsOpen {ed : Ed} (h : EdOk ed) {p : Bytes} (hp : IsU8 p) : EdOk (ed.bufsOpen p).2 := by
  unfold Ed.bufsOpen
  simp only []
  have := h.setAt ed.findRoom (b := { path := normPath p, lb := Lbuf.make, id := ed.bufsCnt + 1 }) lbOk_make (normPath_valid hp)
  exact this.to rfl

theorem EdOk.bufsShift {ed : Ed} (h : EdOk ed) : EdOk ed.bufsShift := by
  unfold Ed.bufsShift
  apply EdOk.bufsLoad
  apply h.withBufs
  intro o ho x hx
  simp only [List.mem_append, List.mem_singleton] at ho
  rcases ho with ho | ho
  · exact h.bufs o ((List.drop_sublist _ _).subset ho) x hx
  · subst ho; cases hx

end Neatvi.Lemmas.C16c
