import NeatviVerif.Lemmas.C13bB
import NeatviVerif.Drive.ExSpec
/-!
# C13b, part I: the first match of the reference semantics, on the rest and on the whole line

* `firstMatchFrom`: the whole-line reference — the first character start at or after `k` that has a
  parse, and its best parse; `firstMatch_shift`: for a `ContextFree` pattern and `k` a character
  start of the line this is `RegexSem.firstMatch` on the rest `line.drop k` under `REG_NOTBOL`, shifted.
* the same for the two reference matchers of the test oracle (`Drive/ExSpec.lean`):
  `matchFromSuffix = matchFrom`.
-/
namespace Neatvi.Lemmas.C13b
open Neatvi Neatvi.Regex Neatvi.Spec.RegexSem

/-- what `firstMatch` and the oracle's matchers do with the parses at one start position -/
def headAt (env : Env) (t : RNode) (nmarks : Nat) (i : Nat) : Option (Nat × R) :=
  match results env t (i, List.replicate nmarks (-1)) with
  | [] => none
  | r :: _ => some (i, r)

/-- the whole-line reference: the first character start of `subj` at or after `k` that has a parse,
    with its best parse (nothing when nothing is left of the subject, as for `firstMatch`) -/
def firstMatchFrom (t : RNode) (subj : Bytes) (flg : Nat) (nmarks : Nat) (k : Nat) : Option (Nat × R) :=
  if (subj.drop k).isEmpty then none else
  ((starts subj (subj.length + 2) 0).filter (fun i => decide (i ≥ k))).findSome? (headAt ⟨subj, flg⟩ t nmarks)

theorem firstMatch_eq (t : RNode) (subj : Bytes) (flg nmarks : Nat) :
    firstMatch t subj flg nmarks =
      if subj.isEmpty then none else (starts subj (subj.length + 2) 0).findSome? (headAt ⟨subj, flg⟩ t nmarks) := rfl

theorem filter_ge_zero (l : List Nat) : l.filter (fun i => decide (i ≥ 0)) = l := by
  rw [List.filter_eq_self]; intro x _; simp

theorem firstMatchFrom_zero (t : RNode) (subj : Bytes) (flg nmarks : Nat) :
    firstMatchFrom t subj flg nmarks 0 = firstMatch t subj flg nmarks := by
  unfold firstMatchFrom
  rw [firstMatch_eq, filter_ge_zero]
  rfl

/-- a first match on the rest, read on the whole line -/
def shiftFM (k : Nat) (x : Nat × R) : Nat × R := (x.1 + k, shiftR k x.2)

theorem findSome?_map_opt {α β γ : Type} (g : α → Option β) (h : β → γ) : ∀ (l : List α),
    l.findSome? (fun a => (g a).map h) = (l.findSome? g).map h := by
  intro l
  induction l with
  | nil => rfl
  | cons a l ih =>
    simp only [List.findSome?_cons]
    cases g a with
    | none => simpa using ih
    | some b => rfl

/-- the parses at start `i` of the rest are the parses at start `i + k` of the whole line -/
theorem headAt_shift (line : Bytes) (k fw fs : Nat) (hk : k ≤ line.length) (hk0 : 0 < k) (hfl : FlagsRest fw fs)
    (t : RNode) (hcf : ContextFree t = true) (hbeg : BegOk t line k) (nmarks i : Nat) :
    headAt ⟨line, fw⟩ t nmarks (i + k) = (headAt ⟨line.drop k, fs⟩ t nmarks i).map (shiftFM k) := by
  unfold headAt
  have := results_shift line k fw fs hk hk0 hfl t hcf hbeg (i, List.replicate nmarks (-1))
  simp only [shiftR, shiftM_replicate] at this
  rw [this]
  cases results ⟨line.drop k, fs⟩ t (i, List.replicate nmarks (-1)) with
  | nil => rfl
  | cons r rest => rfl

/-- **firstMatch_shift** (the reference level of `suffix_eq_whole`): for a `ContextFree` pattern and a
    character start `k > 0` of the line, the first match of the rest `line.drop k` under `REG_NOTBOL`
    is the first match of the whole line among the starts at or after `k`, shifted by `k` -/
theorem firstMatch_shift (line : Bytes) (k fw fs : Nat) (hk0 : 0 < k) (hfl : FlagsRest fw fs)
    (hks : k ∈ starts line (line.length + 2) 0)
    (t : RNode) (hcf : ContextFree t = true) (hbeg : BegOk t line k) (nmarks : Nat) :
    firstMatchFrom t line fw nmarks k = (firstMatch t (line.drop k) fs nmarks).map (shiftFM k) := by
  have hk : k ≤ line.length := starts_le line _ _ _ (Nat.zero_le _) hks
  unfold firstMatchFrom
  rw [firstMatch_eq]
  by_cases he : (line.drop k).isEmpty = true
  · rw [if_pos he, if_pos he]; rfl
  · rw [if_neg he, if_neg he, starts_filter_ge line k hks]
    have h1 := starts_drop line k (line.length + 2) 0
    rw [Nat.zero_add] at h1
    rw [← h1, starts_fuel (line.drop k) (line.length + 2) ((line.drop k).length + 2) 0
      (by rw [List.length_drop]; omega) (by omega), List.findSome?_map, ← findSome?_map_opt]
    congr 1
    funext i
    exact headAt_shift line k fw fs hk hk0 hfl t hcf hbeg nmarks i

/-- the start positions `regexec` tries on the rest are, shifted by `k`, the character starts of the
    whole line at or after `k` — when `k` itself is a character start of the line -/
theorem starts_rest (line : Bytes) (k : Nat) (hks : k ∈ starts line (line.length + 2) 0) :
    (starts (line.drop k) ((line.drop k).length + 2) 0).map (· + k) =
      (starts line (line.length + 2) 0).filter (fun i => decide (i ≥ k)) := by
  have hk : k ≤ line.length := starts_le line _ _ _ (Nat.zero_le _) hks
  rw [starts_filter_ge line k hks]
  have h1 := starts_drop line k (line.length + 2) 0
  rw [Nat.zero_add] at h1
  rw [← h1, starts_fuel (line.drop k) (line.length + 2) ((line.drop k).length + 2) 0
    (by rw [List.length_drop]; omega) (by omega)]

/-! ### the reference matchers of the test oracle -/
open Neatvi.Drive.ExSpec

theorem flagsRest_ref (icase : Bool) : FlagsRest (refFlags icase false) (refFlags icase true) := by
  unfold refFlags
  simp only [Bool.false_eq_true, if_false, if_true, Nat.or_zero]
  exact flagsRest_or _

theorem matchFrom_eq (t : RNode) (line : Bytes) (icase : Bool) (k : Nat) :
    matchFrom t line icase k =
      (((starts line (line.length + 2) 0).filter (fun i => decide (i ≥ k))).findSome?
        (headAt ⟨line, refFlags icase false⟩ t 128)).map (fun x => (x.1, x.2.1, x.2.2)) := by
  unfold matchFrom
  simp only []
  rw [← findSome?_map_opt]
  congr 1
  funext i
  unfold headAt
  cases results ⟨line, refFlags icase false⟩ t (i, List.replicate 128 (-1)) <;> rfl

theorem matchFromSuffix_eq (t : RNode) (line : Bytes) (icase : Bool) (k : Nat) :
    matchFromSuffix t line icase k =
      ((starts (line.drop k) ((line.drop k).length + 2) 0).findSome?
        (headAt ⟨line.drop k, refFlags icase (decide (k > 0))⟩ t 128)).map
          (fun x => (x.1 + k, x.2.1 + k, shiftM k x.2.2)) := by
  unfold matchFromSuffix
  simp only []
  rw [← findSome?_map_opt]
  congr 1
  funext i
  unfold headAt
  cases results ⟨line.drop k, refFlags icase (decide (k > 0))⟩ t (i, List.replicate 128 (-1)) <;> rfl

/-- **the oracle's two matchers agree** on `ContextFree` patterns at character starts of the line:
    the first match of the rest from `k` (told only "not at the beginning of the line") is the first
    match of the whole line at or after `k` -/
theorem matchFromSuffix_eq_matchFrom (t : RNode) (line : Bytes) (icase : Bool) (k : Nat)
    (hks : k ∈ starts line (line.length + 2) 0) (hcf : ContextFree t = true) (hbeg : 0 < k → BegOk t line k) :
    matchFromSuffix t line icase k = matchFrom t line icase k := by
  rw [matchFrom_eq, matchFromSuffix_eq]
  by_cases h0 : k = 0
  · subst h0
    simp only [List.drop_zero, Nat.lt_irrefl, decide_false, filter_ge_zero, Nat.add_zero, shiftM_zero,
      gt_iff_lt]
  · have hk0 : 0 < k := by omega
    have hk : k ≤ line.length := starts_le line _ _ _ (Nat.zero_le _) hks
    rw [decide_eq_true hk0, starts_filter_ge line k hks]
    have h1 := starts_drop line k (line.length + 2) 0
    rw [Nat.zero_add] at h1
    rw [← h1, starts_fuel (line.drop k) (line.length + 2) ((line.drop k).length + 2) 0
      (by rw [List.length_drop]; omega) (by omega), List.findSome?_map]
    have : (headAt ⟨line, refFlags icase false⟩ t 128 ∘ fun x => x + k) =
        fun i => (headAt ⟨line.drop k, refFlags icase true⟩ t 128 i).map (shiftFM k) := by
      funext i
      exact headAt_shift line k _ _ hk hk0 (flagsRest_ref icase) t hcf (hbeg hk0) 128 i
    rw [this, findSome?_map_opt, Option.map_map]
    congr 1

end Neatvi.Lemmas.C13b
