import NeatviVerif.Lemmas.C16cVi
import NeatviVerif.Lemmas.C08bChange
/-!
# C16c, part 10: the operators and commands of `vi.c` keep the state valid UTF-8 — for all arguments
-/
set_option linter.unusedSimpArgs false
set_option linter.unusedVariables false
namespace Neatvi.Lemmas.C16c
open Neatvi Neatvi.Uc Neatvi.Spec Neatvi.Lbuf Neatvi.Ex Neatvi.Mot Neatvi.Vi Neatvi.Props.C11b Neatvi.Props.C16b
open Neatvi.Lemmas.C08 (bind_apply pure_apply get_apply liftO_some liftO_none regPut_apply setPos_apply setRow_apply setOff_apply edEdit_apply)
open Neatvi.Lemmas.C08b (changeTail changeSt changeTail_eq)

theorem Pres.bind_get {β : Type} {f : VS → M β} (h : ∀ s0, VsOk s0 → Pres (f s0)) : Pres (Vi.get >>= f) := by
  intro s a s' hs hm
  exact h s hs s a s' hs hm

theorem Pres.bind_liftO {α β : Type} {o : Option α} {g : α → M β} (h : ∀ x, o = some x → Pres (g x)) :
    Pres (Vi.liftO o >>= g) := by
  intro s a s' hs hm
  cases o with
  | none => cases hm
  | some x => exact h x rfl s a s' hs hm

/-- a computation whose result satisfies `Q` whenever it starts from a valid state, followed by one that
keeps the state valid for such results -/
theorem Pres.bind_val {α β : Type} {m : M α} {f : α → M β} (Q : α → Prop)
    (hm : ∀ s a s', VsOk s → m s = Res.ok a s' → VsOk s' ∧ Q a) (hf : ∀ a, Q a → Pres (f a)) : Pres (m >>= f) := by
  intro s b s' hs h
  rw [bind_apply] at h
  split at h
  · rename_i a s1 h1
    obtain ⟨k1, k2⟩ := hm _ _ _ hs h1
    exact hf a k2 _ _ _ k1 h
  · cases h
  · cases h

/-! ## `y`, `d`, `~` / `gu` / `gU`, `>` / `<` -/

/-- **`vi_yank`** (all regions): the register receives a valid text -/
theorem pres_viYank (r1 o1 r2 o2 : Int) (ln : Bool) : Pres (viYank r1 o1 r2 o2 ln) := by
  unfold viYank
  refine Pres.bind_get (fun s hs => ?_)
  refine Pres.bind_liftO (fun region hreg => ?_)
  refine Pres.bind (pres_regPut _ (hs.region hreg) _) (fun _ => ?_)
  pres_tac

/-- **`vi_delete`** (all regions, line-wise and character-wise) -/
theorem pres_viDelete (r1 o1 r2 o2 : Int) (ln : Bool) : Pres (viDelete r1 o1 r2 o2 ln) := by
  unfold viDelete
  refine Pres.bind_get (fun s hs => ?_)
  refine Pres.bind_liftO (fun region hreg => ?_)
  refine Pres.bind (pres_regPut _ (hs.region hreg) _) (fun _ => ?_)
  dsimp only
  show Pres _
  split
  · refine Pres.bind_liftO (fun pref hp => ?_)
    refine Pres.bind_liftO (fun post hq => ?_)
    refine Pres.bind (pres_edEdit (optValid_some.mpr
      (isU8_append (subI_valid (hs.lineE r1) hp) (subI_valid (hs.lineE r2) hq))) _ _) (fun _ => ?_)
    pres_tac
  · refine Pres.bind (pres_edEdit optValid_none _ _) (fun _ => ?_)
    pres_tac

/-- **`vi_case`** (`~`, `gu`, `gU`, `g~`; all regions): only ASCII letters change -/
theorem pres_viCase (r1 o1 r2 o2 : Int) (ln : Bool) (cmd : Nat) : Pres (viCase r1 o1 r2 o2 ln cmd) := by
  unfold viCase
  refine Pres.bind_get (fun s hs => ?_)
  refine Pres.bind_liftO (fun region hreg => ?_)
  have hc := caseMap_valid cmd (hs.region hreg)
  dsimp only
  show Pres _
  split
  · refine Pres.bind_liftO (fun pref hp => ?_)
    refine Pres.bind_liftO (fun post hq => ?_)
    refine Pres.bind (pres_edEdit (optValid_some.mpr
      (isU8_append (isU8_append (subI_valid (hs.lineE r1) hp) hc) (subI_valid (hs.lineE r2) hq))) _ _) (fun _ => ?_)
    pres_tac
  · refine Pres.bind (pres_edEdit (optValid_some.mpr hc) _ _) (fun _ => ?_)
    pres_tac

theorem pres_viShift_go (r2 dir : Int) (f : Nat) (i : Int) : Pres (viShift.go r2 dir f i) := by
  induction f generalizing i with
  | zero => unfold viShift.go; exact Pres.pure _
  | succ f ih =>
    unfold viShift.go
    show Pres _
    split
    · exact Pres.pure _
    · refine Pres.bind_get (fun s hs => ?_)
      show Pres _
      split
      · exact ih _
      · rename_i l hl
        have hv := hs.lineOf hl
        refine Pres.bind (pres_edEdit (optValid_some.mpr ?_) _ _) (fun _ => ih _)
        split
        · split
          · exact isU8_cons_ascii (by decide) (by decide) hv
          · exact hv
        · split
          · rename_i hb
            refine isU8_drop_one_ascii hv ?_
            unfold isBlankC at hb
            simp only [Bool.or_eq_true, beq_iff_eq] at hb
            rcases hb with hb | hb <;> omega
          · exact hv

/-- **`vi_shift`** (`>` and `<`): a tab goes in front of a line, a leading blank goes away -/
theorem pres_viShift (r1 r2 dir : Int) : Pres (viShift r1 r2 dir) := by
  unfold viShift
  repeat' (first | exact pres_viShift_go _ _ _ _ | pres_step)

/-! ## `J`, `p`, `P` -/

theorem joinGo_valid (s : VS) (hs : VsOk s) (beg e : Int) : ∀ (f : Nat) (i : Int) (sb : Bytes) (off : Int), IsU8 sb →
    IsU8 (vcJoin.go s beg e f i sb off).1 := by
  intro f
  induction f with
  | zero => intro i sb off h; unfold vcJoin.go; exact h
  | succ f ih =>
    intro i sb off h
    unfold vcJoin.go
    split
    · exact h
    · dsimp only
      apply ih
      have hl := hs.lineE i
      have hl' : IsU8 (if i > beg then (Vi.lineE s i).dropWhile isBlankC else Vi.lineE s i) := by
        split
        · exact isU8_dropWhile_ascii hl _ (by intro b hb; unfold isBlankC at hb; simp at hb; omega)
        · exact hl
      exact isU8_append (isU8_append h (isU8_replicate (by decide) (by decide) _))
        (isU8_takeWhile_stop hl' (· != 10) (by intro b hb; simp at hb; omega))

theorem pres_vcJoin : Pres vcJoin := by
  unfold vcJoin
  refine Pres.bind_get (fun s hs => ?_)
  dsimp only
  generalize (if s.arg1 ≤ 1 then 2 else s.arg1 : Int) = cnt
  show Pres _
  split
  · exact Pres.pure _
  · refine Pres.bind (pres_edEdit (optValid_some.mpr (isU8_append (joinGo_valid s hs _ _ _ _ _ _ isU8_nil) isU8_nl)) _ _) (fun _ => ?_)
    pres_tac

theorem isU8_replicate_flatten {buf : Bytes} (h : IsU8 buf) (n : Nat) : IsU8 (List.replicate n buf).flatten := by
  apply isU8_flatten
  intro l hl
  rw [List.mem_replicate] at hl
  rw [hl.2]; exact h

theorem regGetLn_fst (ed : Ed) (c : Nat) : (regGetLn ed c).1 = regGet ed c := by
  unfold regGetLn
  dsimp only
  repeat' split
  all_goals rfl


macro "pres_step2" : tactic => `(tactic| first
  | pres_leaf
  | with_reducible refine Pres.bind_get (fun _ _ => ?_)
  | with_reducible refine Pres.bind_liftO (fun _ _ => ?_)
  | with_reducible refine pres_edEdit (optValid_some.mpr ?_) _ _
  | with_reducible exact pres_edEdit optValid_none _ _
  | with_reducible refine Pres.repeatM _ ?_
  | with_reducible refine Pres.bind ?_ (fun _ => ?_)
  | with_reducible refine Pres.ite ?_ ?_
  | dsimp only
  | (show Pres _; split))

macro "pres_tac2" : tactic => `(tactic| repeat' pres_step2)

/-- **`vc_put`** (`p`, `P`, any count, line-wise and character-wise, from any register: the stored ones, the
current line `";`, the numbers `"#` `"^`) -/
theorem vcPut_ok (cmd : Nat) (s s' : VS) (a : Nat) (hs : VsOk s)
    (h : vcPut cmd s = Res.ok a s') : VsOk s' := by
  have hreg : OptValid (regGet s.ed s.ybuf) := regGet_valid hs _
  unfold vcPut at h
  rw [bind_apply, get_apply] at h
  dsimp only at h
  have hf := regGetLn_fst s.ed s.ybuf
  generalize regGetLn s.ed s.ybuf = p at h hf
  obtain ⟨buf, lnmode⟩ := p
  dsimp only at h hf
  subst hf
  have hln : IsU8 (if s.ed.xrow < lenOf s then Vi.lineE s s.ed.xrow else [10]) := by
    split
    · exact hs.lineE _
    · exact isU8_nl
  cases hb : regGet s.ed s.ybuf with
  | none => rw [hb] at h; cases h; exact hs
  | some buf =>
    rw [hb] at h hreg
    have hrep := isU8_replicate_flatten (hreg buf rfl) (max 1 s.arg1).toNat
    refine (?_ : Pres _) s a s' hs h
    pres_tac2
    all_goals first
      | exact isU8_nl
      | exact hrep
      | exact isU8_append (isU8_append (subI_valid hln (by assumption)) hrep) (subI_valid hln (by assumption))

theorem pres_vcPut (cmd : Nat) : Pres (vcPut cmd) := fun s a s' hs h => vcPut_ok cmd s s' a hs h

/-! ## `r` -/

/-- **`vc_replace`** (`r`, any count): if the character `vi_char` read is valid UTF-8, so is the result -/
theorem vcReplace_ok (s s' : VS) (a : Nat) (hs : VsOk s)
    (hchar : ∀ cs s1, viChar s = Res.ok (some cs) s1 → IsU8 cs)
    (h : vcReplace s = Res.ok a s') : VsOk s' := by
  unfold vcReplace at h
  rw [bind_apply, get_apply] at h
  dsimp only at h
  rw [bind_apply] at h
  cases hv : viChar s with
  | eof => rw [hv] at h; cases h
  | trap => rw [hv] at h; cases h
  | ok cs s1 =>
    rw [hv] at h
    have hs1 : VsOk s1 := pres_viChar s cs s1 hs hv
    dsimp only at h
    cases hl : Vi.lineOf s s.ed.xrow with
    | none =>
      rw [hl] at h
      cases cs <;> (cases h; exact hs1)
    | some ln =>
      cases cs with
      | none => rw [hl] at h; cases h; exact hs1
      | some cs' =>
        rw [hl] at h
        dsimp only at h
        have hcv : IsU8 cs' := hchar cs' s1 hv
        have hlv := hs.lineOf hl
        refine (?_ : Pres _) s1 a s' hs1 h
        pres_tac2
        exact isU8_append (isU8_append (subI_valid hlv (by assumption)) (isU8_replicate_flatten hcv _)) (subI_valid hlv (by assumption))

/-! ## `c`, and `i a I A o O` -/

theorem changeTail_ok (pref post : Bytes) (r1 r2 : Int) (S s' : VS) (a : Nat) (hS : VsOk S)
    (h : changeTail pref post r1 r2 S = Res.ok a s') :
    ∃ sI rep row off sJ, VsOk sI ∧ sI = { S with ed := sI.ed } ∧
      viInput pref post sI = Res.ok (rep, row, off) sJ ∧ (IsU8 rep → VsOk s') := by
  rw [changeTail_eq] at h
  have hI : VsOk (changeSt S r1) := by
    unfold changeSt
    show EdOk _
    split
    · exact EdOk.to hS rfl
    · exact EdOk.to hS rfl
  rw [bind_apply] at h
  cases hin : viInput pref post (changeSt S r1) with
  | eof => rw [hin] at h; cases h
  | trap => rw [hin] at h; cases h
  | ok res sJ =>
    rw [hin] at h
    obtain ⟨rep, row, off⟩ := res
    refine ⟨changeSt S r1, rep, row, off, sJ, hI, rfl, hin, ?_⟩
    intro hrep
    have hsJ : VsOk sJ := pres_viInput pref post _ _ sJ hI hin
    dsimp only at h
    refine (?_ : Pres _) sJ a s' hsJ h
    pres_tac2

theorem viChange_red (r1 o1 r2 o2 : Int) (ln : Bool) (s s' : VS) (a : Nat) (hs : VsOk s)
    (h : viChange r1 o1 r2 o2 ln s = Res.ok a s') :
    ∃ region pref post, IsU8 region ∧ IsU8 pref ∧ IsU8 post ∧
      changeTail pref post r1 r2 { s with ed := { s.ed with regs := s.ed.regs.put s.ybuf region (if ln then 1 else 0) } } = Res.ok a s' := by
  unfold viChange at h
  rw [bind_apply, get_apply] at h
  dsimp only at h
  rw [bind_apply] at h
  cases hreg : lbufRegion s r1 (if ln = true then 0 else o1) r2 (if ln = true then -1 else o2) with
  | none => rw [hreg] at h; cases h
  | some region =>
    rw [hreg, liftO_some] at h
    dsimp only at h
    rw [bind_apply, regPut_apply] at h
    dsimp only at h
    have hrv := hs.region hreg
    generalize hS1 : ({ s with ed := { s.ed with regs := s.ed.regs.put s.ybuf region (if ln = true then 1 else 0) } } : VS) = S1 at h
    have fin : ∀ pref post, IsU8 pref → IsU8 post → changeTail pref post r1 r2 S1 = Res.ok a s' →
        ∃ region pref post, IsU8 region ∧ IsU8 pref ∧ IsU8 post ∧
          changeTail pref post r1 r2 { s with ed := { s.ed with regs := s.ed.regs.put s.ybuf region (if ln then 1 else 0) } } = Res.ok a s' := by
      intro pref post h1 h2 h3
      exact ⟨region, pref, post, hrv, h1, h2, by rw [hS1]; exact h3⟩
    split at h
    · rw [bind_apply, pure_apply] at h
      dsimp only at h
      split at h
      · rw [bind_apply, pure_apply] at h
        exact fin _ _ (viIndents_valid hs r1) isU8_nl h
      · rw [bind_apply] at h
        cases hq : subI (Vi.lineE s r2) o2 (-1) with
        | none => rw [hq] at h; cases h
        | some post =>
          rw [hq, liftO_some] at h
          exact fin _ _ (viIndents_valid hs r1) (subI_valid (hs.lineE r2) hq) h
    · rw [bind_apply] at h
      cases hp : subI (Vi.lineE s r1) 0 o1 with
      | none => rw [hp] at h; cases h
      | some pref =>
        rw [hp, liftO_some] at h
        dsimp only at h
        split at h
        · rw [bind_apply, pure_apply] at h
          exact fin _ _ (subI_valid (hs.lineE r1) hp) isU8_nl h
        · rw [bind_apply] at h
          cases hq : subI (Vi.lineE s r2) o2 (-1) with
          | none => rw [hq] at h; cases h
          | some post =>
            rw [hq, liftO_some] at h
            exact fin _ _ (subI_valid (hs.lineE r1) hp) (subI_valid (hs.lineE r2) hq) h

/-- the text insert mode returns is valid UTF-8 — in `s` and in every state that differs from `s` in the
editor record only (the key queues, keymaps and options are those of `s`), when it is given valid text around
the insertion point.  A hypothesis on the keys to come. -/
def TypedTextValid (s : VS) : Prop :=
  ∀ sI pref post r sJ, sI = { s with ed := sI.ed } → VsOk sI → IsU8 pref → IsU8 post →
    viInput pref post sI = Res.ok r sJ → IsU8 r.1

theorem TypedTextValid.ed {s : VS} (h : TypedTextValid s) (ed : Ed) : TypedTextValid { s with ed := ed } := by
  intro sI pref post r sJ hsI
  exact h sI pref post r sJ (by rw [hsI])

/-- from a valid state in which the typed text will be valid, a normal return leaves a valid state -/
def PresT {α : Type} (m : M α) : Prop := ∀ s a s', VsOk s → TypedTextValid s → m s = Res.ok a s' → VsOk s'

/-- a step that changes the editor record only, keeping it valid -/
def Prel {α : Type} (m : M α) : Prop := ∀ s a s', m s = Res.ok a s' → (VsOk s → VsOk s') ∧ s' = { s with ed := s'.ed }

theorem Prel.withEd {f : Ed → Ed} (hf : ∀ ed, EdOk ed → EdOk (f ed)) : Prel (Vi.withEd f) := by
  intro s a s' h; cases h; exact ⟨fun hs => hf _ hs, rfl⟩
theorem Prel.withEdCore {f : Ed → Ed} (hf : ∀ ed, core (f ed) = core ed) : Prel (Vi.withEd f) :=
  Prel.withEd (fun ed h => EdOk.to h (hf ed))
theorem Prel.pure {α : Type} (a : α) : Prel (Pure.pure a : M α) := by
  intro s b s' h; cases h; exact ⟨id, rfl⟩
theorem Prel.ite {α : Type} {p : Prop} [Decidable p] {a b : M α} (ha : Prel a) (hb : Prel b) : Prel (if p then a else b) := by
  split <;> assumption
theorem prel_setOff (o : Int) : Prel (setOff o) := Prel.withEdCore (fun _ => rfl)
theorem prel_setRow (o : Int) : Prel (setRow o) := Prel.withEdCore (fun _ => rfl)
theorem prel_setPos (r o : Int) : Prel (setPos r o) := Prel.withEdCore (fun _ => rfl)
theorem prel_setTop (o : Int) : Prel (setTop o) := Prel.withEdCore (fun _ => rfl)
theorem prel_viNextlineR : Prel viNextlineR := by
  intro s a s' h
  unfold viNextlineR at h
  rw [bind_apply, get_apply] at h
  dsimp only at h
  cases h
  refine ⟨fun hs => EdOk.to hs ?_, rfl⟩
  dsimp only
  split <;> rfl
theorem prel_edEdit {txt : Option Bytes} (h : OptValid txt) (b e : Int) : Prel (edEdit txt b e) := by
  intro s a s' hm
  rw [edEdit_apply] at hm
  split at hm
  · rename_i ed he
    cases hm
    exact ⟨fun hs => EdOk.edit hs h he, rfl⟩
  · cases hm

namespace PresT
theorem of_pres {α : Type} {m : M α} (h : Pres m) : PresT m := fun s a s' hs _ hm => h s a s' hs hm
theorem bind_prel {α β : Type} {m : M α} {f : α → M β} (hm : Prel m) (hf : ∀ a, PresT (f a)) : PresT (m >>= f) := by
  intro s b s' hs ht h
  rw [bind_apply] at h
  split at h
  · rename_i a s1 h1
    obtain ⟨k1, k2⟩ := hm _ _ _ h1
    refine hf a s1 b s' (k1 hs) ?_ h
    rw [k2]; exact ht.ed _
  · cases h
  · cases h
theorem bind_get {β : Type} {f : VS → M β} (h : ∀ s0, VsOk s0 → PresT (f s0)) : PresT (Vi.get >>= f) := by
  intro s a s' hs ht hm
  exact h s hs s a s' hs ht hm
theorem bind_liftO {α β : Type} {o : Option α} {g : α → M β} (h : ∀ x, o = some x → PresT (g x)) :
    PresT (Vi.liftO o >>= g) := by
  intro s a s' hs ht hm
  cases o with
  | none => cases hm
  | some x => exact h x rfl s a s' hs ht hm
theorem ite {α : Type} {p : Prop} [Decidable p] {a b : M α} (ha : PresT a) (hb : PresT b) : PresT (if p then a else b) := by
  split <;> assumption
/-- **insert mode**: given valid text around the insertion point, what follows may assume the typed text valid -/
theorem input {β : Type} {pref post : Bytes} {g : Bytes × Int × Int → M β} (hp : IsU8 pref) (hq : IsU8 post)
    (hg : ∀ r, IsU8 r.1 → Pres (g r)) : PresT (viInput pref post >>= g) := by
  intro s b s' hs ht h
  rw [bind_apply] at h
  split at h
  · rename_i r sJ h1
    have hv := ht s pref post r sJ rfl hs hp hq h1
    exact hg r hv sJ b s' (pres_viInput pref post s r sJ hs h1) h
  · cases h
  · cases h
end PresT


/-- a computation that only computes a valid text (it does not change the state) -/
def ValU8 (m : M Bytes) : Prop := ∀ s a s', m s = Res.ok a s' → s' = s ∧ IsU8 a

theorem ValU8.pure {x : Bytes} (h : IsU8 x) : ValU8 (Pure.pure x) := by
  intro s a s' hm; cases hm; exact ⟨rfl, h⟩
theorem ValU8.liftO_subI {l : Bytes} (h : IsU8 l) (b e : Int) : ValU8 (Vi.liftO (subI l b e)) := by
  intro s a s' hm
  cases hx : subI l b e with
  | none => rw [hx] at hm; cases hm
  | some x => rw [hx] at hm; cases hm; exact ⟨rfl, subI_valid h hx⟩
theorem ValU8.ite {p : Prop} [Decidable p] {a b : M Bytes} (ha : ValU8 a) (hb : ValU8 b) : ValU8 (if p then a else b) := by
  split <;> assumption

theorem PresT.bind_valU8 {β : Type} {m : M Bytes} {f : Bytes → M β} (hm : ValU8 m) (hf : ∀ a, IsU8 a → PresT (f a)) :
    PresT (m >>= f) := by
  intro s b s' hs ht h
  rw [bind_apply] at h
  split at h
  · rename_i a s1 h1
    obtain ⟨k1, k2⟩ := hm _ _ _ h1
    subst k1
    exact hf a k2 _ _ _ hs ht h
  · cases h
  · cases h

theorem viIndents_valid' (s : VS) {ln : Option Bytes} (h : OptValid ln) : IsU8 (viIndents s ln) := by
  unfold viIndents
  cases ln with
  | none => exact isU8_nil
  | some l =>
    dsimp only
    split
    · exact isU8_takeWhile_ascii (h l rfl) _ (by
        intro b hb; unfold isBlankC at hb
        simp only [Bool.or_eq_true, beq_iff_eq] at hb
        rcases hb with hb | hb <;> omega)
    · exact isU8_nil

theorem VsOk.lineOfOpt {s : VS} (h : VsOk s) (r : Int) : OptValid (Vi.lineOf s r) := fun _ hx => h.lineOf hx

macro "valu8_tac" hs:ident : tactic => `(tactic| (
  repeat' first
    | with_reducible exact ValU8.pure isU8_nil
    | with_reducible exact ValU8.pure isU8_nl
    | with_reducible exact ValU8.pure (viIndents_valid' _ (VsOk.lineOfOpt $hs _))
    | with_reducible exact ValU8.liftO_subI (VsOk.lineOf $hs (by assumption)) _ _
    | with_reducible refine ValU8.ite ?_ ?_
    | (show ValU8 _; split)))


theorem presT_vcInsert (cmd : Nat) : PresT (vcInsert cmd) := by
  unfold vcInsert
  refine PresT.bind_get (fun s hs => ?_)
  dsimp only
  repeat' first
    | with_reducible refine PresT.bind_get (fun _ _ => ?_)
    | with_reducible refine PresT.bind_prel (prel_setOff _) (fun _ => ?_)
    | with_reducible refine PresT.bind_prel prel_viNextlineR (fun _ => ?_)
    | with_reducible refine PresT.bind_valU8 (by valu8_tac hs) (fun _ _ => ?_)
    | (with_reducible refine PresT.input (by assumption) (by assumption) (fun _ _ => ?_); pres_tac2; first | exact isU8_nl | assumption)
    | with_reducible refine PresT.ite ?_ ?_
    | (show PresT _; split)

end Neatvi.Lemmas.C16c
