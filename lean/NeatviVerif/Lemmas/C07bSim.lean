import NeatviVerif.Lemmas.C07bFlat
/-!
# C07b: the word scanners of `mot.c` as scanners over indices of the flat byte string

On an ASCII buffer a position `(r, o)` of the model is an index `i` of `cat b` (`Rep b r o i`), and
`lbuf_next` is `i ± 1`.  `wl`, `wb`, `we` below are `lbuf_wordlast`, `lbuf_wordbeg`, `lbuf_wordend`
transcribed to indices; the `*_sim` theorems say that the model computes exactly them.
-/
set_option linter.unusedSimpArgs false
set_option linter.unusedVariables false
namespace Neatvi.Lemmas.C07b
open Neatvi Neatvi.Uc Neatvi.Mot Neatvi.Lemmas.C07 Neatvi.Spec.Motion

/-- `lbuf_next` on indices -/
def nxt (N : Nat) (d : Int) (i : Nat) : Option Nat :=
  if d > 0 then (if i + 1 < N then some (i + 1) else none) else (if 0 < i then some (i - 1) else none)

theorem next_nxt {b : Buf} (hb : AsciiB b) (d : Int) (hd : d = 1 ∨ d = -1) {r o : Int} {i : Nat} (h : Rep b r o i) :
    match nxt (total b) d i with
    | some j => ∃ r' o', next (lsOf b) d r o = some (r', o') ∧ Rep b r' o' j
    | none => next (lsOf b) d r o = none := by
  have hlt := rep_lt h
  rcases hd with rfl | rfl
  · unfold nxt
    rw [if_pos (by omega)]
    by_cases hi : i + 1 < total b
    · rw [if_pos hi]; exact next_fwd_some hb h hi
    · rw [if_neg hi]; exact next_fwd_none hb h (by omega)
  · unfold nxt
    rw [if_neg (by omega)]
    cases i with
    | zero => rw [if_neg (by omega)]; exact next_bwd_none hb h
    | succ k => rw [if_pos (by omega)]; exact next_bwd_some hb h

/-! ### `lbuf_wordlast` -/
def wlGo (c : Nat → Nat) (N : Nat) (kind : Nat) (d : Int) : Nat → Nat → Bool × Nat
  | 0, i => (true, i)
  | f + 1, i =>
    if (ucKind (c i) &&& kind) != 0 then
      match nxt N d i with
      | none => (true, i)
      | some j => wlGo c N kind d f j
    else (false, i)

def wl (c : Nat → Nat) (N : Nat) (kind : Nat) (d : Int) (fuel i : Nat) : Bool × Nat :=
  if kind == 0 || (ucKind (c i) &&& kind) == 0 then (false, i) else
  match wlGo c N kind d fuel i with
  | (true, j) => (true, j)
  | (false, j) =>
    if (ucKind (c j) &&& kind) == 0 then
      match nxt N (-d) j with
      | some j' => (false, j')
      | none => (false, j)
    else (false, j)

/-- a result of the model, and the result on indices -/
def Sim (b : Buf) (res : Bool × Int × Int) (ires : Bool × Nat) : Prop :=
  res.1 = ires.1 ∧ Rep b res.2.1 res.2.2 ires.2

theorem wlGo_sim {b : Buf} (hb : AsciiB b) (kind : Nat) (d : Int) (hd : d = 1 ∨ d = -1) (f : Nat) {r o : Int} {i : Nat}
    (h : Rep b r o i) : Sim b (wordlast.go (lsOf b) kind d f r o) (wlGo (cp b) (total b) kind d f i) := by
  induction f generalizing r o i with
  | zero => exact ⟨rfl, h⟩
  | succ f ih =>
    unfold wordlast.go wlGo
    rw [kindAt_rep hb h]
    by_cases hm : ((ucKind (cp b i) &&& kind) != 0) = true
    · rw [if_pos hm, if_pos hm]
      have hn := next_nxt hb d hd h
      cases hx : nxt (total b) d i with
      | none => rw [hx] at hn; simp only [] at hn; rw [hn]; exact ⟨rfl, h⟩
      | some j =>
        rw [hx] at hn
        obtain ⟨r', o', e, hr⟩ := hn
        rw [e]
        exact ih hr
    · rw [if_neg hm, if_neg hm]; exact ⟨rfl, h⟩

theorem wl_sim {b : Buf} (hb : AsciiB b) (kind : Nat) (d : Int) (hd : d = 1 ∨ d = -1) {r o : Int} {i : Nat}
    (h : Rep b r o i) :
    Sim b (wordlast (lsOf b) kind d r o) (wl (cp b) (total b) kind d (total b + 2) i) := by
  unfold wordlast wl
  rw [kindAt_rep hb h]
  by_cases h0 : (kind == 0 || (ucKind (cp b i) &&& kind) == 0) = true
  · rw [if_pos h0, if_pos h0]; exact ⟨rfl, h⟩
  · rw [if_neg h0, if_neg h0]
    simp only []
    rw [foldl_total]
    have hs := wlGo_sim hb kind d hd (total b + 2) h
    generalize wordlast.go (lsOf b) kind d (total b + 2) r o = res at hs
    generalize wlGo (cp b) (total b) kind d (total b + 2) i = ires at hs
    obtain ⟨fl, r1, o1⟩ := res
    obtain ⟨fl', j⟩ := ires
    obtain ⟨e, hr⟩ := hs
    simp only [] at e hr
    subst e
    cases fl with
    | true => exact ⟨rfl, hr⟩
    | false =>
      simp only []
      rw [kindAt_rep hb hr]
      by_cases hk : ((ucKind (cp b j) &&& kind) == 0) = true
      · rw [if_pos hk, if_pos hk]
        have hn := next_nxt hb (-d) (by omega) hr
        cases hx : nxt (total b) (-d) j with
        | none => rw [hx] at hn; simp only [] at hn; rw [hn]; exact ⟨rfl, hr⟩
        | some j' =>
          rw [hx] at hn
          obtain ⟨r', o', e, hr'⟩ := hn
          rw [e]; exact ⟨rfl, hr'⟩
      · rw [if_neg hk, if_neg hk]; exact ⟨rfl, hr⟩

/-! ### `lbuf_wordbeg` -/
def wbGo (c : Nat → Nat) (N : Nat) (d : Int) : Nat → Nat → Nat → Bool × Nat
  | 0, i, _ => (true, i)
  | f + 1, i, nl =>
    if ucIsSpace (c i) then
      let nl := if c i == 10 then nl + 1 else 0
      if nl == 2 then (false, i) else
      match nxt N d i with
      | none => (true, i)
      | some j => wbGo c N d f j nl
    else (false, i)

def wb (c : Nat → Nat) (N : Nat) (big : Bool) (d : Int) (i : Nat) : Bool × Nat :=
  let p := (wl c N (if big then 3 else ucKind (c i)) d (N + 2) i).2
  let nl0 : Nat := if c p == 10 then 1 else 0
  match nxt N d p with
  | none => (true, p)
  | some j => wbGo c N d (N + 2) j nl0

theorem wbGo_sim {b : Buf} (hb : AsciiB b) (d : Int) (hd : d = 1 ∨ d = -1) (f : Nat) {r o : Int} {i : Nat} (nl : Nat)
    (h : Rep b r o i) : Sim b (wordbeg.go (lsOf b) d f r o nl) (wbGo (cp b) (total b) d f i nl) := by
  induction f generalizing r o i nl with
  | zero => exact ⟨rfl, h⟩
  | succ f ih =>
    unfold wordbeg.go wbGo
    rw [isSpaceAt_rep hb h, codeAt_rep hb h]
    by_cases hm : ucIsSpace (cp b i) = true
    · rw [if_pos hm, if_pos hm]
      simp only []
      by_cases h2 : ((if (cp b i == 10) = true then nl + 1 else 0) == 2) = true
      · rw [if_pos h2, if_pos h2]; exact ⟨rfl, h⟩
      · rw [if_neg h2, if_neg h2]
        have hn := next_nxt hb d hd h
        cases hx : nxt (total b) d i with
        | none => rw [hx] at hn; simp only [] at hn; rw [hn]; exact ⟨rfl, h⟩
        | some j =>
          rw [hx] at hn
          obtain ⟨r', o', e, hr⟩ := hn
          rw [e]
          exact ih _ hr
    · rw [if_neg hm, if_neg hm]; exact ⟨rfl, h⟩

theorem wb_sim {b : Buf} (hb : AsciiB b) (big : Bool) (d : Int) (hd : d = 1 ∨ d = -1) {r o : Int} {i : Nat}
    (h : Rep b r o i) : Sim b (wordbeg (lsOf b) big d r o) (wb (cp b) (total b) big d i) := by
  unfold wordbeg wb
  rw [kindAt_rep hb h]
  have hs := wl_sim hb (if big then 3 else ucKind (cp b i)) d hd h
  generalize wordlast (lsOf b) (if big = true then 3 else ucKind (cp b i)) d r o = res at hs
  generalize wl (cp b) (total b) (if big = true then 3 else ucKind (cp b i)) d (total b + 2) i = ires at hs
  obtain ⟨fl, r1, o1⟩ := res
  obtain ⟨fl', p⟩ := ires
  obtain ⟨_, hr⟩ := hs
  simp only [] at hr ⊢
  rw [codeAt_rep hb hr, foldl_total]
  have hn := next_nxt hb d hd hr
  cases hx : nxt (total b) d p with
  | none => rw [hx] at hn; simp only [] at hn; rw [hn]; exact ⟨rfl, hr⟩
  | some j =>
    rw [hx] at hn
    obtain ⟨r', o', e, hr'⟩ := hn
    rw [e]
    exact wbGo_sim hb d hd _ _ hr'

/-! ### `lbuf_wordend` -/
def weGo (c : Nat → Nat) (N : Nat) (d : Int) : Nat → Nat → Nat → Option (Bool × Nat)
  | 0, i, _ => some (true, i)
  | f + 1, i, nl =>
    if ucIsSpace (c i) then
      match nxt N d i with
      | none => some (true, i)
      | some j =>
        let nl := if c j == 10 then nl + 1 else 0
        if nl == 2 then
          (if d < 0 then
            (match nxt N (-d) j with
             | some j2 => some (false, j2)
             | none => some (false, j))
           else some (false, j))
        else weGo c N d f j nl
    else none

def wePos (c : Nat → Nat) (N : Nat) (d : Int) : Nat → Nat → Nat → Nat
  | 0, i, _ => i
  | f + 1, i, nl =>
    if ucIsSpace (c i) then
      match nxt N d i with
      | none => i
      | some j =>
        let nl := if c j == 10 then nl + 1 else 0
        if nl == 2 then j else wePos c N d f j nl
    else i

def weStep1 (c : Nat → Nat) (N : Nat) (d : Int) (i : Nat) : Option (Nat × Nat) :=
  if !ucIsSpace (c i) then
    match nxt N d i with
    | none => none
    | some j => some (j, if d < 0 && c j == 10 then 1 else 0)
  else some (i, 0)

def we (c : Nat → Nat) (N : Nat) (big : Bool) (d : Int) (i : Nat) : Bool × Nat :=
  match weStep1 c N d i with
  | none => (true, i)
  | some (p, nl) =>
    let nl := nl + (if d > 0 && c p == 10 then 1 else 0)
    match weGo c N d (N + 2) p nl with
    | some res => res
    | none =>
      let q := wePos c N d (N + 2) p nl
      wl c N (if big then 3 else ucKind (c q)) d (N + 2) q

def SimO (b : Buf) (res : Option (Bool × Int × Int)) (ires : Option (Bool × Nat)) : Prop :=
  match res, ires with
  | some x, some y => Sim b x y
  | none, none => True
  | _, _ => False

theorem weGo_sim {b : Buf} (hb : AsciiB b) (d : Int) (hd : d = 1 ∨ d = -1) (f : Nat) {r o : Int} {i : Nat} (nl : Nat)
    (h : Rep b r o i) : SimO b (wordend.go (lsOf b) d f r o nl) (weGo (cp b) (total b) d f i nl) := by
  induction f generalizing r o i nl with
  | zero => exact ⟨rfl, h⟩
  | succ f ih =>
    unfold wordend.go weGo
    rw [isSpaceAt_rep hb h]
    by_cases hm : ucIsSpace (cp b i) = true
    · rw [if_pos hm, if_pos hm]
      have hn := next_nxt hb d hd h
      cases hx : nxt (total b) d i with
      | none => rw [hx] at hn; simp only [] at hn; rw [hn]; exact ⟨rfl, h⟩
      | some j =>
        rw [hx] at hn
        obtain ⟨r', o', e, hr⟩ := hn
        rw [e]
        simp only []
        rw [codeAt_rep hb hr]
        by_cases h2 : ((if (cp b j == 10) = true then nl + 1 else 0) == 2) = true
        · rw [if_pos h2, if_pos h2]
          by_cases hdn : d < 0
          · rw [if_pos hdn, if_pos hdn]
            have hn2 := next_nxt hb (-d) (by omega) hr
            cases hx2 : nxt (total b) (-d) j with
            | none => rw [hx2] at hn2; simp only [] at hn2; rw [hn2]; exact ⟨rfl, hr⟩
            | some j2 =>
              rw [hx2] at hn2
              obtain ⟨r2, o2, e2, hr2⟩ := hn2
              rw [e2]; exact ⟨rfl, hr2⟩
          · rw [if_neg hdn, if_neg hdn]; exact ⟨rfl, hr⟩
        · rw [if_neg h2, if_neg h2]
          exact ih _ hr
    · rw [if_neg hm, if_neg hm]; trivial

theorem wePos_sim {b : Buf} (hb : AsciiB b) (d : Int) (hd : d = 1 ∨ d = -1) (f : Nat) {r o : Int} {i : Nat} (nl : Nat)
    (h : Rep b r o i) :
    Rep b (wordend.pos (lsOf b) d f r o nl).1 (wordend.pos (lsOf b) d f r o nl).2 (wePos (cp b) (total b) d f i nl) := by
  induction f generalizing r o i nl with
  | zero => exact h
  | succ f ih =>
    unfold wordend.pos wePos
    rw [isSpaceAt_rep hb h]
    by_cases hm : ucIsSpace (cp b i) = true
    · rw [if_pos hm, if_pos hm]
      have hn := next_nxt hb d hd h
      cases hx : nxt (total b) d i with
      | none => rw [hx] at hn; simp only [] at hn; rw [hn]; exact h
      | some j =>
        rw [hx] at hn
        obtain ⟨r', o', e, hr⟩ := hn
        rw [e]
        simp only []
        rw [codeAt_rep hb hr]
        by_cases h2 : ((if (cp b j == 10) = true then nl + 1 else 0) == 2) = true
        · rw [if_pos h2, if_pos h2]; exact hr
        · rw [if_neg h2, if_neg h2]
          exact ih _ hr
    · rw [if_neg hm, if_neg hm]; exact h

theorem we_sim {b : Buf} (hb : AsciiB b) (big : Bool) (d : Int) (hd : d = 1 ∨ d = -1) {r o : Int} {i : Nat}
    (h : Rep b r o i) : Sim b (wordend (lsOf b) big d r o) (we (cp b) (total b) big d i) := by
  unfold wordend we weStep1
  rw [isSpaceAt_rep hb h, foldl_total]
  -- the first step
  have hstep : ∀ (s1 : Option (Int × Int × Nat)) (s2 : Option (Nat × Nat)),
      (match s1, s2 with
        | some (r1, o1, n1), some (p, n2) => Rep b r1 o1 p ∧ n1 = n2
        | none, none => True
        | _, _ => False) →
      Sim b
        (match s1 with
          | none => (true, r, o)
          | some (r, o, nl) =>
            let nl := nl + (if d > 0 && codeAt (lsOf b) r o == 10 then 1 else 0)
            match wordend.go (lsOf b) d (total b + 2) r o nl with
            | some res => res
            | none =>
              let (r, o) := wordend.pos (lsOf b) d (total b + 2) r o nl
              let (f, r, o) := wordlast (lsOf b) (if big then 3 else kindAt (lsOf b) r o) d r o
              (f, r, o))
        (match s2 with
          | none => (true, i)
          | some (p, nl) =>
            let nl := nl + (if d > 0 && cp b p == 10 then 1 else 0)
            match weGo (cp b) (total b) d (total b + 2) p nl with
            | some res => res
            | none =>
              let q := wePos (cp b) (total b) d (total b + 2) p nl
              wl (cp b) (total b) (if big then 3 else ucKind (cp b q)) d (total b + 2) q) := by
    intro s1 s2 hs
    cases s1 with
    | none =>
      cases s2 with
      | none => exact ⟨rfl, h⟩
      | some y => obtain ⟨p, n2⟩ := y; exact absurd hs (by simp)
    | some x =>
      obtain ⟨r1, o1, n1⟩ := x
      cases s2 with
      | none => exact absurd hs (by simp)
      | some y =>
        obtain ⟨p, n2⟩ := y
        obtain ⟨hr, rfl⟩ := hs
        simp only []
        rw [codeAt_rep hb hr]
        have hg := weGo_sim hb d hd (total b + 2) (n1 + (if (decide (d > 0) && cp b p == 10) = true then 1 else 0)) hr
        generalize wordend.go (lsOf b) d (total b + 2) r1 o1 _ = g1 at hg ⊢
        generalize weGo (cp b) (total b) d (total b + 2) p _ = g2 at hg ⊢
        cases g1 with
        | some res =>
          cases g2 with
          | some ires => exact hg
          | none => exact absurd hg (by simp [SimO])
        | none =>
          cases g2 with
          | some ires => exact absurd hg (by simp [SimO])
          | none =>
            simp only []
            have hp := wePos_sim hb d hd (total b + 2)
              (n1 + (if (decide (d > 0) && cp b p == 10) = true then 1 else 0)) hr
            generalize wordend.pos (lsOf b) d (total b + 2) r1 o1 _ = pp at hp ⊢
            obtain ⟨r2, o2⟩ := pp
            simp only [] at hp ⊢
            rw [kindAt_rep hb hp]
            exact wl_sim hb _ d hd hp
  apply hstep
  by_cases hm : ucIsSpace (cp b i) = true
  · simp only [hm, Bool.not_true, Bool.false_eq_true, if_false]
    exact ⟨h, by trivial⟩
  · have hm' : ucIsSpace (cp b i) = false := by simpa using hm
    simp only [hm', Bool.not_false, if_true]
    have hn := next_nxt hb d hd h
    cases hx : nxt (total b) d i with
    | none => rw [hx] at hn; simp only [] at hn; rw [hn]; trivial
    | some j =>
      rw [hx] at hn
      obtain ⟨r', o', e, hr⟩ := hn
      rw [e]
      simp only []
      rw [codeAt_rep hb hr]
      exact ⟨hr, rfl⟩

end Neatvi.Lemmas.C07b
