import NeatviVerif.Lemmas.C20cTrace
import NeatviVerif.Model.ViCmd
/-!
# C20c lemmas, part 11: ex commands given from vi mode (`:` and the shortcuts that call `ex_command`)
-/
namespace Neatvi.Lemmas.C20c
open Neatvi Neatvi.Lbuf Neatvi.Ex Neatvi.Vi

/-- the call of `ex_command` inside `exCommandV`, for a vi state `s1` -/
def exCommandVCore (ln : Bytes) (s1 : VS) : Res Int :=
  match exCommand 64 { s1.ed with out := [], msg := [], input := [], xvis := true } ln with
  | none => Res.trap
  | some (rc, ed) => Res.ok rc { s1 with ed := ed, unmodelled := s1.unmodelled || ed.unmodelled }

theorem exCommandVCore_T {T : Ed → Ed → Prop} (hT : StepClosed T) (ln : Bytes) (s1 s' : VS) (rc : Int)
    (h : exCommandVCore ln s1 = Res.ok rc s') : T s1.ed s'.ed := by
  unfold exCommandVCore at h
  split at h
  · cases h
  · rename_i rc1 ed1 hc
    cases h
    refine hT.trans ?_ (exCommand_T hT hc)
    exact hT.loc (Loc.of_same ⟨rfl, rfl⟩)

theorem exCommandV_eq (ln : Bytes) (s : VS) :
    exCommandV ln s = Res.ok 1 { s with unmodelled := true } ∨
    ∃ s1, s1.ed = s.ed ∧ exCommandV ln s = exCommandVCore ln s1 := by
  unfold exCommandV
  split
  · exact Or.inl rfl
  · right
    cases hset : setOf ln with
    | none => exact ⟨s, rfl, rfl⟩
    | some p =>
      obtain ⟨v, val⟩ := p
      by_cases h1 : (v == "xai") = true
      · exact ⟨{ s with xai := val != 0 }, rfl, by simp only [h1, if_true]; rfl⟩
      · by_cases h2 : (v == "xaw" || v == "xwa" || v == "xic" || v == "xtd") = true
        · exact ⟨s, rfl, by simp only [h1, h2, if_true]; rfl⟩
        · exact ⟨{ s with unmodelled := true }, rfl, by simp only [h1, h2]; rfl⟩

/-- `ex_command(ln)` called from the vi loop: a sequence of atomic table steps as well -/
theorem exCommandV_T {T : Ed → Ed → Prop} (hT : StepClosed T) (ln : Bytes) (s s' : VS) (rc : Int)
    (h : exCommandV ln s = Res.ok rc s') : T s.ed s'.ed := by
  rcases exCommandV_eq ln s with e | ⟨s1, he, e⟩
  · rw [e] at h; cases h; exact hT.refl _
  · rw [e] at h
    rw [← he]
    exact exCommandVCore_T hT ln s1 s' rc h

end Neatvi.Lemmas.C20c
