import NeatviVerif.Model.ViCmd
/-!
# C07 helper lemmas: the text of the line buffer is a frame of the motion part of the vi loop

`lbText s` is the text of the current line buffer (`none` when there is no current buffer); marks, undo
history and sequence numbers are not part of it.  `Keeps m` says that a computation that returns
normally leaves `lbText` alone.  The rules below are closed under `pure`, bind, `if`, `match`, and the
primitive state updates that do not touch `ed.bufs` (or only the marks / sequence number of the buffer).
-/
set_option linter.unusedSimpArgs false
set_option linter.unusedVariables false

namespace Neatvi.Lemmas.C07
open Neatvi Neatvi.Uc Neatvi.Lbuf Neatvi.Ex Neatvi.Mot Neatvi.Vi

/-- the text of the current line buffer -/
def lbText (s : VS) : Option (List Bytes) := s.ed.lb.map (·.lines)

theorem lines_eq_lbText (s : VS) : lines s = (lbText s).getD [] := by
  unfold lines lbText
  cases s.ed.lb <;> rfl

theorem lines_of_lbText {s s' : VS} (h : lbText s' = lbText s) : lines s' = lines s := by
  rw [lines_eq_lbText, lines_eq_lbText, h]

theorem lenOf_of_lbText {s s' : VS} (h : lbText s' = lbText s) : lenOf s' = lenOf s := by
  unfold lenOf; rw [lines_of_lbText h]

/-- the cursor, the top of the window, and the height of the window -/
def curOf (s : VS) : Int × Int × Int × Int := (s.ed.xrow, s.ed.xoff, s.ed.xtop, s.xrows)

/-- what a step is compared on: the text, and (when `c`) the cursor and window as well -/
def proj (c : Bool) (s : VS) : Option (List Bytes) × Option (Int × Int × Int × Int) :=
  (lbText s, if c then some (curOf s) else none)

/-- a computation that returns normally keeps the buffer text (and, for `c = true`, the cursor and the window) -/
structure Keeps {α : Type} (c : Bool) (m : M α) : Prop where
  keep : ∀ s a s', m s = Res.ok a s' → proj c s' = proj c s

namespace Keeps

theorem text {α : Type} {c : Bool} {m : M α} (h : Keeps c m) {s : VS} {a : α} {s' : VS} (hm : m s = Res.ok a s') :
    lbText s' = lbText s := congrArg Prod.fst (h.keep s a s' hm)

theorem cursor {α : Type} {m : M α} (h : Keeps true m) {s : VS} {a : α} {s' : VS} (hm : m s = Res.ok a s') :
    curOf s' = curOf s := by
  have := congrArg Prod.snd (h.keep s a s' hm)
  simpa [proj] using this

theorem weaken {α : Type} {c : Bool} {m : M α} (h : Keeps true m) : Keeps c m := by
  constructor
  intro s a s' hm
  unfold proj
  rw [h.text hm, h.cursor hm]

theorem pure {α : Type} {c : Bool} (a : α) : Keeps c (Pure.pure a : M α) := by
  constructor
  intro s b s' h
  cases h; rfl

theorem bind {α β : Type} {c : Bool} {m : M α} {f : α → M β} (hm : Keeps c m) (hf : ∀ a, Keeps c (f a)) :
    Keeps c (m >>= f) := by
  constructor
  intro s b s' h
  change (match m s with
    | Res.ok a s1 => f a s1
    | Res.eof => Res.eof
    | Res.trap => Res.trap) = Res.ok b s' at h
  split at h
  · rename_i a s1 h1
    rw [(hf a).keep _ _ _ h, hm.keep _ _ _ h1]
  · cases h
  · cases h

theorem get {c : Bool} : Keeps c Vi.get := by
  constructor; intro s a s' h; cases h; rfl

theorem trap {α : Type} {c : Bool} : Keeps c (Vi.trap : M α) := by
  constructor; intro s a s' h; cases h

theorem modify {c : Bool} {f : VS → VS} (hf : ∀ s, proj c (f s) = proj c s) : Keeps c (Vi.modify f) := by
  constructor; intro s a s' h; cases h; exact hf s

theorem withEd {c : Bool} {f : Ed → Ed} (hf : ∀ s : VS, proj c { s with ed := f s.ed } = proj c s) :
    Keeps c (Vi.withEd f) := modify hf

theorem ite {α : Type} {c : Bool} {p : Prop} [Decidable p] {a b : M α} (ha : Keeps c a) (hb : Keeps c b) :
    Keeps c (if p then a else b) := by
  split <;> assumption

theorem of_fun {α : Type} {c : Bool} {m : M α}
    (h : ∀ s a s', m s = Res.ok a s' → s'.ed = s.ed ∧ s'.xrows = s.xrows) : Keeps c m := by
  constructor
  intro s a s' hm
  obtain ⟨h1, h2⟩ := h s a s' hm
  unfold proj lbText curOf; rw [h1, h2]

end Keeps

/-! ### the buffer-level updates that keep the text -/

theorem setLb_lb (ed : Ed) (lb : Lb) : (ed.setLb lb).lb = ed.lb.map (fun _ => lb) := by
  unfold Ed.setLb Ed.lb
  cases hc : ed.cur with
  | none => simp [hc]
  | some b =>
    simp only [Option.map_some]
    unfold Ed.setCur Ed.cur at *
    cases hb : ed.bufs with
    | nil => rw [hb] at hc; simp at hc
    | cons x xs => simp

theorem setLb_text (ed : Ed) (lb lb0 : Lb) (h0 : ed.lb = some lb0) (h : lb.lines = lb0.lines) :
    (ed.setLb lb).lb.map (·.lines) = ed.lb.map (·.lines) := by
  rw [setLb_lb, h0]; simp [h]

theorem setLb_cur (ed : Ed) (lb : Lb) :
    (ed.setLb lb).xrow = ed.xrow ∧ (ed.setLb lb).xoff = ed.xoff ∧ (ed.setLb lb).xtop = ed.xtop := by
  unfold Ed.setLb
  cases ed.cur <;> exact ⟨rfl, rfl, rfl⟩

theorem setMark_lines (lb : Lb) (c : Nat) (r o : Int) : (setMark lb c r o).lines = lb.lines := by
  unfold setMark; split <;> rfl

theorem modified_lines (lb : Lb) : (Lbuf.modified lb).2.lines = lb.lines := rfl

theorem termRead_ed (s : VS) (c : Int) (s' : VS) (h : termRead s = Res.ok c s') :
    s'.ed = s.ed ∧ s'.xrows = s.xrows := by
  unfold termRead at h
  simp only [] at h
  split at h
  · cases h
  · cases h
    split <;> exact ⟨rfl, rfl⟩

theorem viRead_ed (s : VS) (c : Int) (s' : VS) (h : viRead s = Res.ok c s') :
    s'.ed = s.ed ∧ s'.xrows = s.xrows := by
  unfold viRead at h
  split at h
  · cases h; exact ⟨rfl, rfl⟩
  · exact termRead_ed _ _ _ h

theorem keeps_termRead {c : Bool} : Keeps c termRead := Keeps.of_fun termRead_ed
theorem keeps_viRead {c : Bool} : Keeps c viRead := Keeps.of_fun viRead_ed
theorem keeps_termCmd {c : Bool} : Keeps c termCmd := Keeps.of_fun (fun s a s' h => by cases h; exact ⟨rfl, rfl⟩)
theorem keeps_viBack {c : Bool} (k : Int) : Keeps c (viBack k) := Keeps.modify (fun _ => rfl)
theorem keeps_termPush {c : Bool} (x : Bytes) : Keeps c (termPush x) := Keeps.modify (fun _ => rfl)
theorem keeps_unmodelled {c : Bool} : Keeps c Vi.unmodelled := Keeps.modify (fun _ => rfl)
theorem keeps_setMsg {c : Bool} (m : Bytes) : Keeps c (setMsg m) := Keeps.modify (fun _ => rfl)
theorem keeps_setRow (r : Int) : Keeps false (setRow r) := Keeps.modify (fun _ => rfl)
theorem keeps_setOff (o : Int) : Keeps false (setOff o) := Keeps.modify (fun _ => rfl)
theorem keeps_setPos (r o : Int) : Keeps false (setPos r o) := Keeps.modify (fun _ => rfl)
theorem keeps_setTop (t : Int) : Keeps false (setTop t) := Keeps.modify (fun _ => rfl)

theorem edUpd_frame (ed : Ed) (g : Lb → Lb) (hg : ∀ lb, (g lb).lines = lb.lines) (ed' : Ed)
    (he : ed' = match ed.lb with | some lb => ed.setLb (g lb) | none => ed) :
    ed'.lb.map (·.lines) = ed.lb.map (·.lines) ∧ ed'.xrow = ed.xrow ∧ ed'.xoff = ed.xoff ∧ ed'.xtop = ed.xtop := by
  cases h : ed.lb with
  | none => rw [h] at he; subst he; simp [h]
  | some lb =>
    rw [h] at he
    simp only [] at he
    subst he
    obtain ⟨h1, h2, h3⟩ := setLb_cur ed (g lb)
    rw [setLb_text ed _ lb h (hg lb), h]
    exact ⟨rfl, h1, h2, h3⟩

/-- an update of the current line buffer that keeps its lines -/
theorem keeps_setLb {c : Bool} (g : Lb → Lb) (hg : ∀ lb, (g lb).lines = lb.lines) :
    Keeps c (Vi.withEd fun ed => match ed.lb with | some lb => ed.setLb (g lb) | none => ed) := by
  apply Keeps.modify
  intro s
  obtain ⟨h0, h1, h2, h3⟩ := edUpd_frame s.ed g hg _ rfl
  unfold proj lbText curOf
  simp only []
  rw [h0, h1, h2, h3]

theorem keeps_markSet {c : Bool} (k : Nat) (r o : Int) : Keeps c (markSet k r o) :=
  keeps_setLb (fun lb => setMark lb k r o) (fun lb => setMark_lines lb k r o)

theorem keeps_lbufModified {c : Bool} : Keeps c lbufModified :=
  keeps_setLb (fun lb => (Lbuf.modified lb).2) modified_lines

end Neatvi.Lemmas.C07
