import NeatviVerif.Lemmas.C02dFalse
/-!
# C02d lemmas, part 9: `:w !cmd` saves nothing

`ec_write` with an argument that starts with `!` pipes the range to a command.  It touches no file, renames
no buffer and marks no buffer saved: apart from the address side effects (`xrow`, the search keyword), the
message, the `unmodelled` flag (vi mode) and — for `:x`, which tests the dirty flag first — the sequence
counter of the current buffer, the state is unchanged.
-/
namespace Neatvi.Lemmas.C02d
open Neatvi Neatvi.Lbuf Neatvi.LbufIo Neatvi.Ex Neatvi.Props Neatvi.Lemmas.C02b Neatvi.Lemmas.C02Ex

/-- `ex_pathexpand` only appends to what it has copied so far -/
theorem pathExpand_go_head (ed : Ed) (sp : Bool) : ∀ (f : Nat) (src dst p : Bytes), dst ≠ [] →
    pathExpand.go ed sp f src dst = some (some p) → p.headD 0 = dst.headD 0 := by
  intro f
  induction f with
  | zero => intro src dst p _ h; rw [pathExpand.go] at h; cases h; rfl
  | succ f ih =>
    intro src dst p hne h
    have happ : ∀ x : Bytes, dst ++ x ≠ [] ∧ (dst ++ x).headD 0 = dst.headD 0 := by
      intro x
      cases dst with
      | nil => exact absurd rfl hne
      | cons a r => exact ⟨by simp, rfl⟩
    have hemp : dst.isEmpty = false := by
      cases dst with
      | nil => exact absurd rfl hne
      | cons a r => rfl
    rw [pathExpand.go.eq_def] at h
    simp only [] at h
    split at h
    · cases h; rfl
    · rename_i c r
      split at h
      · cases h; rfl
      · split at h
        · split at h
          · cases h
          · exact (ih _ _ _ (happ _).1 h).trans (happ _).2
        · split at h
          · rename_i h61
            simp [hemp] at h61
          · split at h
            · exact (ih _ _ _ (happ _).1 h).trans (happ _).2
            · exact (ih _ _ _ (happ _).1 h).trans (happ _).2

/-- an argument that starts with `!` expands to a path that starts with `!` -/
theorem pathExpand_bang {ed ed' : Ed} {arg path : Bytes} (harg : arg.headD 0 = 33)
    (h : pathExpand ed arg true = some (some path, ed')) : path.headD 0 = 33 := by
  unfold pathExpand at h
  cases arg with
  | nil => exact absurd harg (by decide)
  | cons c r =>
    simp only [List.headD_cons] at harg
    subst harg
    rw [List.length_cons, pathExpand.go.eq_def] at h
    simp only [] at h
    have c1 : ((33 : Nat) == 10 || !true && ((33 : Nat) == 32 || (33 : Nat) == 9)) = false := by decide
    have c2 : ((33 : Nat) == 37 || (33 : Nat) == 35) = false := by decide
    have c3 : (([] : Bytes).isEmpty && (33 : Nat) == 61) = false := by decide
    have c4 : ((33 : Nat) == 92 && !r.isEmpty) = false := by simp
    simp only [c1, c2, c3, c4, Bool.false_eq_true, if_false, List.nil_append] at h
    cases hg : pathExpand.go ed true (r.length + 1) r [33] with
    | none => rw [hg] at h; cases h
    | some o =>
      rw [hg] at h
      cases o with
      | none => simp at h
      | some p =>
        simp only [] at h
        split at h
        · cases h
        · cases h
          exact pathExpand_go_head ed true _ _ _ _ (by simp) hg

/-- what `:w !cmd` may change -/
structure PipeOnly (cmd : Bytes) (ed ed' : Ed) : Prop where
  files : ed'.files = ed.files
  clock : ed'.clock = ed.clock
  xquit : ed'.xquit = ed.xquit
  bufsCnt : ed'.bufsCnt = ed.bufsCnt
  regs : ed'.regs = ed.regs
  bufs : ed'.bufs = ed.bufs ∨ (cmd.headD 0 = 120 ∧ ed'.bufs = (ed.modifiedAt 0).2.bufs)

theorem modifiedAt_frame (ed : Ed) (idx : Nat) :
    (ed.modifiedAt idx).2.files = ed.files ∧ (ed.modifiedAt idx).2.clock = ed.clock ∧
    (ed.modifiedAt idx).2.xquit = ed.xquit ∧ (ed.modifiedAt idx).2.bufsCnt = ed.bufsCnt ∧
    (ed.modifiedAt idx).2.regs = ed.regs := by
  unfold Ed.modifiedAt; split <;> exact ⟨rfl, rfl, rfl, rfl, rfl⟩

theorem modifiedAt_bufs_congr {e1 e : Ed} (h : e1.bufs = e.bufs) (idx : Nat) :
    (e1.modifiedAt idx).2.bufs = (e.modifiedAt idx).2.bufs := by
  unfold Ed.modifiedAt
  rw [h]
  cases e.bufs.getD idx none with
  | none => exact h
  | some b => rfl

theorem unmod_if_fields (e : Ed) :
    (if e.xvis = true then { e with unmodelled := true } else e).files = e.files ∧
    (if e.xvis = true then { e with unmodelled := true } else e).clock = e.clock ∧
    (if e.xvis = true then { e with unmodelled := true } else e).xquit = e.xquit ∧
    (if e.xvis = true then { e with unmodelled := true } else e).bufsCnt = e.bufsCnt ∧
    (if e.xvis = true then { e with unmodelled := true } else e).regs = e.regs ∧
    (if e.xvis = true then { e with unmodelled := true } else e).bufs = e.bufs := by
  split <;> exact ⟨rfl, rfl, rfl, rfl, rfl, rfl⟩

/-- **`:w !cmd`** (also `:wq !cmd`, `:x !cmd`): whatever the outcome, no file, no clock tick, no buffer
    renamed, loaded, written or marked saved -/
theorem ecWrite_pipe {ed ed' : Ed} {loc cmd arg : Bytes} {r : Int} (harg : arg.headD 0 = 33)
    (hw : ecWrite ed loc cmd arg = some (r, ed')) : PipeOnly cmd ed ed' := by
  have hne : arg.isEmpty = false := by
    cases arg with
    | nil => exact absurd harg (by decide)
    | cons _ _ => rfl
  unfold ecWrite at hw
  simp only [hne, Bool.not_false, if_true] at hw
  split at hw
  · cases hw
  · rename_i path ed1 hp
    obtain ⟨hs1, hs1f, hs1c⟩ := pathExpand_same hp
    have hq1 := pathExpand_xquit hp
    have hmisc1 : ed1.bufsCnt = ed.bufsCnt ∧ ed1.regs = ed.regs := by
      obtain ⟨h1, h2⟩ := Lemmas.C06b.pathExpand_cases hp
      cases path with
      | none => rw [h2 rfl]; exact ⟨rfl, rfl⟩
      | some p => rw [h1 rfl]; exact ⟨rfl, rfl⟩
    have hbase : PipeOnly cmd ed ed1 := ⟨hs1f, hs1c, hq1, hmisc1.1, hmisc1.2, Or.inl hs1⟩
    have hmod : cmd.headD 0 = 120 → PipeOnly cmd ed (ed1.modifiedAt 0).2 := by
      intro hx
      obtain ⟨a, b, c, d, e⟩ := modifiedAt_frame ed1 0
      refine ⟨a.trans hs1f, b.trans hs1c, c.trans hq1, d.trans hmisc1.1, e.trans hmisc1.2, Or.inr ⟨hx, ?_⟩⟩
      exact modifiedAt_bufs_congr hs1 0
    have hxx : ∀ (m : Bool) (ed2 : Ed), (if (List.headD cmd 0 == 120) = true then some (ed1.modifiedAt 0) else some (true, ed1)) = some (m, ed2) → PipeOnly cmd ed ed2 := by
      intro m ed2 hx
      split at hx
      · rename_i h120
        have e := (some_pair_inj (b := (ed1.modifiedAt 0).2) hx).2
        rw [← e]; exact hmod (by simpa using h120)
      · cases hx; exact hbase
    -- whatever only touches the address registers, the message and `unmodelled` keeps `PipeOnly`
    have hkeep : ∀ {e2 e3 : Ed}, PipeOnly cmd ed e2 → e3.files = e2.files → e3.clock = e2.clock → e3.xquit = e2.xquit →
        e3.bufsCnt = e2.bufsCnt → e3.regs = e2.regs → e3.bufs = e2.bufs → PipeOnly cmd ed e3 := by
      intro e2 e3 h a b c d e f
      refine ⟨a.trans h.files, b.trans h.clock, c.trans h.xquit, d.trans h.bufsCnt, e.trans h.regs, ?_⟩
      rw [f]; exact h.bufs
    split at hw
    · cases hw
    · rename_i ed2 hx
      cases hw
      exact hxx _ _ hx
    · rename_i ed2 hx
      have h2 := hxx _ _ hx
      split at hw
      · cases hw
      · rename_i rc b e ed3 hr
        have h3 : PipeOnly cmd ed ed3 := by
          obtain ⟨_, _, _, rfl⟩ := (Lemmas.C06.region_all ed2 loc rc b e ed3 hr).1
          exact hkeep h2 rfl rfl rfl rfl rfl rfl
        split at hw
        · cases hw; exact h3
        · rename_i hcond
          split at hw
          · cases hw
          · rename_i cur hcur
            split at hw
            · split at hw
              · cases hw; exact h3
              · cases hw
                obtain ⟨a, b', c, d, e', f⟩ := unmod_if_fields
                  (ed3.show ([34] ++ path.getD [] ++ strOf "\"  [=" ++
                    intStr ((if loc.isEmpty = true then ((0 : Int), ed3.len) else (b, e)).2 -
                      (if loc.isEmpty = true then ((0 : Int), ed3.len) else (b, e)).1) ++ strOf "]  [w]"))
                exact hkeep h3 a b' c d e' f
            · rename_i hnb
              exfalso
              cases path with
              | none => simp at hcond
              | some p =>
                have := pathExpand_bang harg hp
                simp only [Option.getD_some] at hnb
                rw [this] at hnb
                exact hnb rfl

/-- a table that is `bufs` or `bufs` with the sequence counter of one record bumped: same length, same empty
    slots, every buffer with its path, id, time stamp, text and dirty state -/
theorem bumped_table_slots (ed : Ed) (idx : Nat) (l : List (Option Buf))
    (h : l = ed.bufs ∨ l = (ed.modifiedAt idx).2.bufs) :
    l.length = ed.bufs.length ∧
    ∀ i, (ed.bufs.getD i none = none → l.getD i none = none) ∧
      ∀ b, ed.bufs.getD i none = some b → ∃ b', l.getD i none = some b' ∧ b'.path = b.path ∧ b'.id = b.id ∧
        b'.mtime = b.mtime ∧ b'.lb.lines = b.lb.lines ∧ (modified b'.lb).1 = (modified b.lb).1 := by
  rcases h with rfl | rfl
  · exact ⟨rfl, fun i => ⟨id, fun b hb => ⟨b, hb, rfl, rfl, rfl, rfl, rfl⟩⟩⟩
  · unfold Ed.modifiedAt
    cases h0 : ed.bufs.getD idx none with
    | none => exact ⟨rfl, fun i => ⟨id, fun b hb => ⟨b, hb, rfl, rfl, rfl, rfl, rfl⟩⟩⟩
    | some b0 =>
      obtain ⟨hlt, _⟩ := getD_some h0
      refine ⟨by simp, fun i => ?_⟩
      by_cases hi : idx = i
      · subst hi
        refine ⟨fun hn => (by rw [h0] at hn; cases hn), fun b hb => ?_⟩
        rw [h0] at hb; cases hb
        exact ⟨_, getD_set_self _ _ _ hlt, rfl, rfl, rfl, rfl, rfl⟩
      · refine ⟨fun hn => ?_, fun b hb => ⟨b, ?_, rfl, rfl, rfl, rfl, rfl⟩⟩
        · show (ed.bufs.set idx _).getD i none = none
          rw [getD_set_ne _ _ _ _ hi]; exact hn
        · show (ed.bufs.set idx _).getD i none = some b
          rw [getD_set_ne _ _ _ _ hi]; exact hb

theorem pipe_write_saves_nothing (ed ed' : Ed) (loc cmd arg : Bytes) (r : Int) (harg : arg.headD 0 = 33)
    (h : ecWrite ed loc cmd arg = some (r, ed')) :
    ed'.files = ed.files ∧ ed'.clock = ed.clock ∧ ed'.xquit = ed.xquit ∧ ed'.bufsCnt = ed.bufsCnt ∧ ed'.regs = ed.regs ∧
    (cmd.headD 0 ≠ 120 → ed'.bufs = ed.bufs) ∧
    ed'.bufs.length = ed.bufs.length ∧
    ∀ i, (ed.bufs.getD i none = none → ed'.bufs.getD i none = none) ∧
      ∀ b, ed.bufs.getD i none = some b → ∃ b', ed'.bufs.getD i none = some b' ∧ b'.path = b.path ∧ b'.id = b.id ∧
        b'.mtime = b.mtime ∧ b'.lb.lines = b.lb.lines ∧ (modified b'.lb).1 = (modified b.lb).1 := by
  have hp := ecWrite_pipe harg h
  have hb : ed'.bufs = ed.bufs ∨ ed'.bufs = (ed.modifiedAt 0).2.bufs := by
    rcases hp.bufs with h1 | ⟨_, h2⟩
    · exact Or.inl h1
    · exact Or.inr h2
  obtain ⟨hlen, hslots⟩ := bumped_table_slots ed 0 ed'.bufs hb
  refine ⟨hp.files, hp.clock, hp.xquit, hp.bufsCnt, hp.regs, ?_, hlen, hslots⟩
  intro hx
  rcases hp.bufs with h1 | ⟨h120, _⟩
  · exact h1
  · exact absurd h120 hx

/-- an unnamed buffer with unsaved text `x` -/
def edPipe : Ed := { bufs := [some { path := [], lb := unsavedMark { lines := [[120, 10]] } }] ++ List.replicate 15 none }

/-- `:w !cat` in `edPipe`: return code 0, the message, and the buffer still unnamed and still dirty -/
theorem edPipe_obs : (ecWrite edPipe [] [119] [33, 99, 97, 116]).map
      (fun p => (p.1, p.2.msg, p.2.unmodelled, (p.2.bufs.getD 0 none).map (fun b => (b.path, (modified b.lb).1)))) =
    some (0, strOf "\"!cat\"  [=1]  [w]\n", false, some ([], true)) := by
  decide +kernel

end Neatvi.Lemmas.C02d
