import NeatviVerif.Lemmas.C16cLbuf
import NeatviVerif.Lemmas.ExFrame
import NeatviVerif.Lemmas.C02Ex
/-!
# C16c, part 3: the editor state of `ex.c` — registers, the buffer table, files; the invariant `EdOk`
  and the helpers of `ex.c` that keep it (addresses, path expansion, saving, buffer switching)
-/
set_option linter.unusedSimpArgs false
set_option linter.unusedVariables false
namespace Neatvi.Lemmas.C16c
open Neatvi Neatvi.Uc Neatvi.Spec Neatvi.Lbuf Neatvi.LbufIo Neatvi.Ex Neatvi.Props.C11b Neatvi.Props.C16b

/-! ## registers -/

/-- **`RegsValid`: every register holds valid UTF-8** -/
def RegsValid (r : Regs) : Prop := ∀ o ∈ r.buf, OptValid o

instance (r : Regs) : Decidable (RegsValid r) := by unfold RegsValid; exact inferInstance

theorem regsValid_init : RegsValid {} := by
  intro o ho
  have : o = none := by
    simp only [List.mem_replicate] at ho
    exact ho.2
  subst this; exact optValid_none

theorem getD_optValid {l : List (Option Bytes)} (h : ∀ o ∈ l, OptValid o) (i : Nat) : OptValid (l.getD i none) := by
  unfold List.getD
  cases hi : l[i]? with
  | none => exact optValid_none
  | some o => exact h o (List.mem_of_getElem? hi)

theorem RegsValid.getRaw {r : Regs} (h : RegsValid r) (c : Nat) : OptValid (r.getRaw c).1 := getD_optValid h c

theorem RegsValid.putRaw {r : Regs} (h : RegsValid r) (c : Nat) {s : Bytes} (hs : IsU8 s) (ln : Nat) :
    RegsValid (r.putRaw c s ln) := by
  intro o ho
  unfold Regs.putRaw at ho
  simp only [] at ho
  rcases List.mem_or_eq_of_mem_set ho with h1 | h1
  · exact h o h1
  · subst h1
    apply optValid_some.mpr
    refine isU8_append ?_ hs
    split
    · have := getD_optValid h (lowerC c)
      cases hg : r.buf.getD (lowerC c) none with
      | none => exact isU8_nil
      | some x => exact this x hg
    · exact isU8_nil

/-- **`reg_put` of a valid text** (with the shift of the numbered registers) -/
theorem RegsValid.put {r : Regs} (h : RegsValid r) (c : Nat) {s : Bytes} (hs : IsU8 s) (ln : Nat) :
    RegsValid (r.put c s ln) := by
  unfold Regs.put
  simp only []
  generalize (if (c == 34) = true then 0 else c) = c'
  apply RegsValid.putRaw _ _ hs
  split
  · apply RegsValid.putRaw _ _ hs
    have step : ∀ (l : List Nat) (acc : Regs), RegsValid acc → RegsValid (l.foldl (fun (acc : Regs) i =>
        match acc.getRaw (48 + i) with
        | (some x, l) => acc.putRaw (48 + i + 1) x l
        | (none, _) => acc) acc) := by
      intro l
      induction l with
      | nil => intro acc ha; exact ha
      | cons i l ih =>
        intro acc ha
        apply ih
        have hv := ha.getRaw (48 + i)
        simp only []
        split
        · rename_i x l' heq
          rw [heq] at hv
          exact ha.putRaw _ (hv x rfl) _
        · exact ha
    exact step _ _ h
  · exact h

/-! ## the invariant of the editor state -/

/-- everything the ex layer can copy into a buffer is valid UTF-8: the lines and undo histories of all
buffers, their path names, the registers, the input lines `ex_read` will serve, the outputs of the shell
oracle, the files; and no system-call fault is scheduled (a failed write leaves a truncated file) -/
structure EdOk (ed : Ed) : Prop where
  bufs : ∀ b ∈ ed.bufs, ∀ x, b = some x → LbOk x.lb ∧ IsU8 x.path
  regs : RegsValid ed.regs
  input : ∀ l ∈ ed.input, IsU8 l
  pipes : ∀ p ∈ ed.pipes, OptValid p.2.2
  files : ∀ f ∈ ed.files, IsU8 f.data
  nofault : ed.faults = []

/-- a slot of the buffer table is empty or holds a valid buffer -/
def SlotOk (b : Option Buf) : Prop := match b with | some x => LbOk x.lb ∧ IsU8 x.path | none => True

instance (b : Option Buf) : Decidable (SlotOk b) := by
  cases b with
  | none => exact isTrue trivial
  | some x => unfold SlotOk; exact inferInstance

instance (ed : Ed) : Decidable (EdOk ed) :=
  decidable_of_iff ((∀ b ∈ ed.bufs, SlotOk b) ∧ RegsValid ed.regs ∧
      (∀ l ∈ ed.input, IsU8 l) ∧ (∀ p ∈ ed.pipes, OptValid p.2.2) ∧ (∀ f ∈ ed.files, IsU8 f.data) ∧ ed.faults = [])
    ⟨fun h => ⟨fun b hb x hx => by have := h.1 b hb; rw [hx] at this; exact this, h.2.1, h.2.2.1, h.2.2.2.1, h.2.2.2.2.1, h.2.2.2.2.2⟩,
     fun h => ⟨fun b hb => by cases b with | none => trivial | some x => exact h.bufs _ hb x rfl,
       h.regs, h.input, h.pipes, h.files, h.nofault⟩⟩

/-- the fields `EdOk` reads -/
def core (ed : Ed) : List (Option Buf) × Regs × List Bytes × List (Bytes × Bytes × Option Bytes) × List File × List (Nat × Nat) :=
  (ed.bufs, ed.regs, ed.input, ed.pipes, ed.files, ed.faults)

/-- `ed'` differs from `ed` only in fields the invariant does not read (cursor, options, keyword, output …) -/
def Frame (ed ed' : Ed) : Prop := core ed' = core ed

theorem Frame.refl (ed : Ed) : Frame ed ed := rfl
theorem Frame.trans {a b c : Ed} (h1 : Frame a b) (h2 : Frame b c) : Frame a c := by
  unfold Frame at *; rw [h2, h1]

theorem Frame.bufs {ed ed' : Ed} (h : Frame ed ed') : ed'.bufs = ed.bufs := by
  unfold Frame core at h; injection h
theorem Frame.regs {ed ed' : Ed} (h : Frame ed ed') : ed'.regs = ed.regs := by
  unfold Frame core at h; injection h with _ h; injection h
theorem Frame.input {ed ed' : Ed} (h : Frame ed ed') : ed'.input = ed.input := by
  unfold Frame core at h; injection h with _ h; injection h with _ h; injection h
theorem Frame.pipes {ed ed' : Ed} (h : Frame ed ed') : ed'.pipes = ed.pipes := by
  unfold Frame core at h; injection h with _ h; injection h with _ h; injection h with _ h; injection h
theorem Frame.files {ed ed' : Ed} (h : Frame ed ed') : ed'.files = ed.files := by
  unfold Frame core at h; injection h with _ h; injection h with _ h; injection h with _ h; injection h with _ h; injection h
theorem Frame.faults {ed ed' : Ed} (h : Frame ed ed') : ed'.faults = ed.faults := by
  unfold Frame core at h; injection h with _ h; injection h with _ h; injection h with _ h; injection h with _ h; injection h

theorem EdOk.frame {ed ed' : Ed} (h : EdOk ed) (hf : Frame ed ed') : EdOk ed' :=
  ⟨by rw [hf.bufs]; exact h.bufs, by rw [hf.regs]; exact h.regs, by rw [hf.input]; exact h.input,
   by rw [hf.pipes]; exact h.pipes, by rw [hf.files]; exact h.files, by rw [hf.faults]; exact h.nofault⟩

/-- `EdOk` of a state that has the same buffers … as a state that is `EdOk` -/
theorem EdOk.to {ed ed' : Ed} (h : EdOk ed) (hf : core ed' = core ed) : EdOk ed' := h.frame hf

theorem EdOk.withRegs {ed : Ed} (h : EdOk ed) {r : Regs} (hr : RegsValid r) : EdOk { ed with regs := r } :=
  ⟨h.bufs, hr, h.input, h.pipes, h.files, h.nofault⟩

theorem EdOk.withBufs {ed : Ed} (h : EdOk ed) {bs : List (Option Buf)}
    (hb : ∀ b ∈ bs, ∀ x, b = some x → LbOk x.lb ∧ IsU8 x.path) : EdOk { ed with bufs := bs } :=
  ⟨hb, h.regs, h.input, h.pipes, h.files, h.nofault⟩

/-- split a hypothesis `h : (nested matches) = some (_, ed')` into its leaves and close those in which
    `ed'` is syntactically an update of `ed` outside the fields of `core` -/
macro "core_split" h:ident : tactic => `(tactic| (
  repeat' (split at $h:ident)
  all_goals (try (simp only [Option.some.injEq, Prod.mk.injEq, reduceCtorEq] at $h:ident))
  all_goals (try (have h2 := And.right $h:ident; subst h2))
  all_goals (first | rfl | skip)))

/-! ## the current buffer -/

theorem EdOk.cur {ed : Ed} (h : EdOk ed) {b : Buf} (hc : ed.cur = some b) : LbOk b.lb ∧ IsU8 b.path := by
  unfold Ed.cur at hc
  unfold List.getD at hc
  cases hg : ed.bufs[0]? with
  | none => rw [hg] at hc; cases hc
  | some o =>
    rw [hg] at hc
    simp only [Option.getD_some] at hc
    exact h.bufs o (List.mem_of_getElem? hg) b hc

theorem EdOk.getD {ed : Ed} (h : EdOk ed) {i : Nat} {b : Buf} (hc : ed.bufs.getD i none = some b) : LbOk b.lb ∧ IsU8 b.path := by
  unfold List.getD at hc
  cases hg : ed.bufs[i]? with
  | none => rw [hg] at hc; cases hc
  | some o =>
    rw [hg] at hc
    simp only [Option.getD_some] at hc
    exact h.bufs o (List.mem_of_getElem? hg) b hc

theorem EdOk.lb {ed : Ed} (h : EdOk ed) {lb : Lb} (hl : ed.lb = some lb) : LbOk lb := by
  unfold Ed.lb at hl
  cases hc : ed.cur with
  | none => rw [hc] at hl; cases hl
  | some b =>
    rw [hc] at hl
    simp only [Option.map_some] at hl
    injection hl with hl
    subst hl
    exact (h.cur hc).1

theorem mem_set_opt {α : Type} {l : List α} {i : Nat} {a x : α} (h : x ∈ l.set i a) : x ∈ l ∨ x = a :=
  List.mem_or_eq_of_mem_set h

theorem EdOk.setAt {ed : Ed} (h : EdOk ed) (i : Nat) {b : Buf} (hb : LbOk b.lb) (hp : IsU8 b.path) :
    EdOk { ed with bufs := ed.bufs.set i (some b) } := by
  apply h.withBufs
  intro o ho x hx
  rcases mem_set_opt ho with h1 | h1
  · exact h.bufs o h1 x hx
  · subst h1; injection hx with hx; subst hx; exact ⟨hb, hp⟩

theorem EdOk.setCur {ed : Ed} (h : EdOk ed) {b : Buf} (hb : LbOk b.lb) (hp : IsU8 b.path) : EdOk (ed.setCur b) :=
  h.setAt 0 hb hp

theorem EdOk.setLb {ed : Ed} (h : EdOk ed) {lb : Lb} (hb : LbOk lb) : EdOk (ed.setLb lb) := by
  unfold Ed.setLb
  cases hc : ed.cur with
  | none => exact h
  | some b => exact h.setCur (b := { b with lb := lb }) hb (h.cur hc).2

theorem EdOk.updLb {ed : Ed} (h : EdOk ed) (F : Lb → Lb) (hF : ∀ lb, LbOk lb → LbOk (F lb)) :
    EdOk (match ed.lb with | some lb => ed.setLb (F lb) | none => ed) := by
  cases hl : ed.lb with
  | none => exact h
  | some lb => exact h.setLb (hF lb (h.lb hl))

/-- **`lbuf_edit` on the current buffer with a valid text** -/
theorem EdOk.edit {ed ed' : Ed} (h : EdOk ed) {s : Option Bytes} (hs : OptValid s) {b e : Int}
    (he : ed.edit s b e = some ed') : EdOk ed' := by
  obtain ⟨_, _, lb, lb', hl, hed, rfl, _⟩ := Lemmas.ExFrame.Ed_edit_some he
  exact h.setLb (edit_ok (h.lb hl) hs hed)

/-- `lbuf_cp` of the current buffer -/
theorem EdOk.cp {ed : Ed} (h : EdOk ed) (b e : Int) : IsU8 (ed.cp b e) := by
  unfold Ed.cp
  cases hl : ed.lb with
  | none => exact isU8_nil
  | some lb => exact cp_valid lb (h.lb hl).lines _ _

/-- `lbuf_get` -/
theorem EdOk.line {ed : Ed} (h : EdOk ed) {i : Int} {l : Bytes} (hl : ed.line i = some l) : IsU8 l ∧ EndsNl l := by
  unfold Ed.line at hl
  split at hl
  · cases hl
  · cases hb : ed.lb with
    | none => rw [hb] at hl; cases hl
    | some lb =>
      rw [hb] at hl
      simp only [Option.bind_some] at hl
      have hm := List.mem_of_getElem? hl
      exact ⟨(h.lb hb).lines l hm, (h.lb hb).nl l hm⟩

theorem EdOk.show {ed : Ed} (h : EdOk ed) (m : Bytes) : EdOk (ed.show m) := h.to rfl
theorem EdOk.print {ed : Ed} (h : EdOk ed) (m : Bytes) : EdOk (ed.print m) := h.to rfl
theorem EdOk.kwdSet {ed : Ed} (h : EdOk ed) (k : Option Bytes) (d : Int) : EdOk (ed.kwdSet k d) := h.to rfl

theorem EdOk.modifiedAt {ed : Ed} (h : EdOk ed) (idx : Nat) : EdOk (ed.modifiedAt idx).2 := by
  unfold Ed.modifiedAt
  cases hg : ed.bufs.getD idx none with
  | none => exact h
  | some b =>
    simp only []
    exact h.setAt idx (b := { b with lb := (modified b.lb).2 }) (modified_ok (h.getD hg).1) (h.getD hg).2

theorem core_modifiedAt_rest (ed : Ed) (idx : Nat) :
    (ed.modifiedAt idx).2.regs = ed.regs ∧ (ed.modifiedAt idx).2.files = ed.files ∧ (ed.modifiedAt idx).2.faults = ed.faults := by
  unfold Ed.modifiedAt
  cases ed.bufs.getD idx none <;> exact ⟨rfl, rfl, rfl⟩

end Neatvi.Lemmas.C16c
