import NeatviVerif.Lemmas.C09cViTail
/-!
# C09c, part 12: whole runs on related states

`rel2_viStep`: one iteration of `vi()` maps `Sim`-related states to `Sim`-related states — every command, `u`/`^R`
and the `ex` layer included; no proviso (the key queues of related states are *equal*, so `.` and `@` push alike).
`iterate_sim`: whole runs.  `seqOk_viStep`, `seqOk_iterate`: the unary reading — the sequence numbers of every buffer
stay below its counter.
-/
namespace Neatvi.Lemmas.C09c
open Neatvi Neatvi.Uc Neatvi.Lbuf Neatvi.Ex Neatvi.Vi Neatvi.Mot
open Neatvi.Props.C05c (iterate)

macro_rules | `(tactic| rel_step) => `(tactic| with_reducible exact rel2_viPre)
macro_rules | `(tactic| rel_step) => `(tactic| with_reducible exact rel2_motionTail _ _ _)
macro_rules | `(tactic| rel_step) => `(tactic| with_reducible exact rel2_commandTail)
macro_rules | `(tactic| rel_step) => `(tactic| with_reducible exact rel2_viPost _)

/-- **one iteration of `vi()`** maps related states to related states -/
theorem rel2_viStep : Rel2 false NoEsc viStep viStep := by
  unfold viStep
  rel_tac

theorem RR.noEsc_cases {α : Type} {x y : Res α} (h : RR false NoEsc x y) :
    (∃ a s t, x = Res.ok a s ∧ y = Res.ok a t ∧ Sim false s t) ∨ (x = Res.eof ∧ y = Res.eof) ∨
      (x = Res.trap ∧ y = Res.trap) := by
  cases h with
  | ok a s t h => exact Or.inl ⟨a, s, t, rfl, rfl, h⟩
  | esc a b s t h => exact h.elim
  | eof => exact Or.inr (Or.inl ⟨rfl, rfl⟩)
  | trap => exact Or.inr (Or.inr ⟨rfl, rfl⟩)

/-- **whole runs**: the states after `n` iterations are related, or both runs have stopped -/
theorem iterate_sim : ∀ (n : Nat) (s t : VS), Sim false s t → ORel (Sim false) (iterate n s) (iterate n t) := by
  intro n
  induction n with
  | zero => intro s t h; exact h
  | succ n ih =>
    intro s t h
    unfold iterate
    rcases (rel2_viStep s t h).noEsc_cases with ⟨a, s', t', r1, r2, h'⟩ | ⟨r1, r2⟩ | ⟨r1, r2⟩
    · rw [r1, r2]; exact ih _ _ h'
    · rw [r1, r2]; trivial
    · rw [r1, r2]; trivial

/-- the unary reading of `rel2_viStep`: an iteration keeps the sequence numbers of every buffer below its counter -/
theorem seqOk_viStep {s s' : VS} (h : EdSeqOk s.ed) (hs : viStep s = Res.ok () s') : EdSeqOk s'.ed := by
  rcases (rel2_viStep s s (Sim.refl h false)).noEsc_cases with ⟨a, x, y, r1, r2, h'⟩ | ⟨r1, _⟩ | ⟨r1, _⟩
  · rw [hs] at r1
    cases r1
    exact h'.ed.seqOk_left
  · rw [hs] at r1; cases r1
  · rw [hs] at r1; cases r1

theorem seqOk_iterate : ∀ (n : Nat) {s s' : VS}, EdSeqOk s.ed → iterate n s = some s' → EdSeqOk s'.ed := by
  intro n
  induction n with
  | zero => intro s s' h hs; cases hs; exact h
  | succ n ih =>
    intro s s' h hs
    unfold iterate at hs
    split at hs
    · rename_i u s1 h1
      exact ih (seqOk_viStep h (by cases u; exact h1)) hs
    · cases hs

end Neatvi.Lemmas.C09c
