import NeatviVerif.Lemmas.C20cFrame
/-!
# C20c lemmas, part 2: local steps (`Loc`) and quiet steps (`Quiet`)
-/
namespace Neatvi.Lemmas.C20c
open Neatvi Neatvi.Lbuf Neatvi.Ex Neatvi.Rset Neatvi.Props.C20 Neatvi.Props.C20b Neatvi.Lemmas.C20b
open Neatvi.Lemmas.ExFrame Neatvi.Lemmas.C02Ex

/-! ### `Loc` -/

/-- a step that acts on the current buffer only: the parked slots are exactly as they were, slot 0
    keeps its occupation and its number, the counter of numbers and the length of the table stay -/
structure Loc (ed ed' : Ed) : Prop where
  rest : ed'.bufs.drop 1 = ed.bufs.drop 1
  id0 : ed'.cur.map (·.id) = ed.cur.map (·.id)
  cnt : ed'.bufsCnt = ed.bufsCnt
  len : ed'.bufs.length = ed.bufs.length

theorem Loc.refl (ed : Ed) : Loc ed ed := ⟨rfl, rfl, rfl, rfl⟩

theorem Loc.trans {a b c : Ed} (h1 : Loc a b) (h2 : Loc b c) : Loc a c :=
  ⟨h2.rest.trans h1.rest, h2.id0.trans h1.id0, h2.cnt.trans h1.cnt, h2.len.trans h1.len⟩

theorem cur_of_bufs {ed ed' : Ed} (h : ed'.bufs = ed.bufs) : ed'.cur = ed.cur := by
  unfold Ed.cur; rw [h]

theorem Loc.of_same {ed ed' : Ed} (h : Same ed ed') : Loc ed ed' :=
  ⟨by rw [h.1], by rw [cur_of_bufs h.1], h.2, by rw [h.1]⟩

theorem Loc.same {a b c : Ed} (h1 : Loc a b) (h2 : Same b c) : Loc a c := h1.trans (Loc.of_same h2)

theorem Loc.to {a b c : Ed} (h1 : Loc a b) (hb : c.bufs = b.bufs) (hc : c.bufsCnt = b.bufsCnt) : Loc a c :=
  h1.same ⟨hb, hc⟩

theorem loc_setCur {ed : Ed} {b b' : Buf} (h : ed.cur = some b) (hid : b'.id = b.id) : Loc ed (ed.setCur b') := by
  refine ⟨Lemmas.C02c.setCur_drop ed b', ?_, rfl, by simp [Ed.setCur]⟩
  rw [cur_some_set ed b b' h, h]
  simp [hid]

theorem loc_setLb (ed : Ed) (lb : Lb) : Loc ed (ed.setLb lb) := by
  unfold Ed.setLb
  cases h : ed.cur with
  | none => exact Loc.refl _
  | some b => exact loc_setCur h rfl

theorem loc_edit {ed ed' : Ed} {s : Option Bytes} {b e : Int} (h : ed.edit s b e = some ed') : Loc ed ed' := by
  obtain ⟨_, _, lb, lb', _, _, he, _⟩ := Ed_edit_some h
  rw [he]; exact loc_setLb ed lb'

/-- `Loc` in terms of slots -/
theorem Loc.getD {ed ed' : Ed} (h : Loc ed ed') (i : Nat) (hi : 0 < i) :
    ed'.bufs.getD i none = ed.bufs.getD i none := by
  cases i with
  | zero => omega
  | succ i =>
    rw [← Lemmas.C02c.getD_drop_one, ← Lemmas.C02c.getD_drop_one, h.rest]

/-! ### `Quiet` -/

/-- a buffer record without the sequence counter of its text (`lbuf_modified` bumps that counter
    whenever the dirty state is asked for) -/
def coreB (b : Buf) : Buf := { b with lb := { b.lb with useq := 0 } }

theorem coreB_bump (b : Buf) : coreB { b with lb := (modified b.lb).2 } = coreB b := rfl

/-- nothing observable moved: every slot holds the same record up to the sequence counter, the
    counter of numbers and the view are the same -/
structure Quiet (ed ed' : Ed) : Prop where
  slots : ed'.bufs.map (·.map coreB) = ed.bufs.map (·.map coreB)
  cnt : ed'.bufsCnt = ed.bufsCnt
  xrow : ed'.xrow = ed.xrow
  xoff : ed'.xoff = ed.xoff
  xtop : ed'.xtop = ed.xtop
  xleft : ed'.xleft = ed.xleft
  xtd : ed'.xtd = ed.xtd

theorem Quiet.refl (ed : Ed) : Quiet ed ed := ⟨rfl, rfl, rfl, rfl, rfl, rfl, rfl⟩

theorem Quiet.trans {a b c : Ed} (h1 : Quiet a b) (h2 : Quiet b c) : Quiet a c :=
  ⟨h2.slots.trans h1.slots, h2.cnt.trans h1.cnt, h2.xrow.trans h1.xrow, h2.xoff.trans h1.xoff,
    h2.xtop.trans h1.xtop, h2.xleft.trans h1.xleft, h2.xtd.trans h1.xtd⟩

theorem Quiet.len {ed ed' : Ed} (h : Quiet ed ed') : ed'.bufs.length = ed.bufs.length := by
  have := congrArg List.length h.slots
  simpa using this

theorem Quiet.getD {ed ed' : Ed} (h : Quiet ed ed') (i : Nat) :
    (ed'.bufs.getD i none).map coreB = (ed.bufs.getD i none).map coreB := by
  have := congrArg (fun l => l[i]?) h.slots
  simp only [List.getElem?_map] at this
  simp only [List.getD_eq_getElem?_getD]
  cases h1 : ed'.bufs[i]? <;> cases h2 : ed.bufs[i]? <;> rw [h1, h2] at this <;> simp_all

theorem quiet_io {ed ed' : Ed} (h : IoOnly ed ed') : Quiet ed ed' := by
  obtain ⟨_, _, _, _, e⟩ := h; subst e; exact ⟨rfl, rfl, rfl, rfl, rfl, rfl, rfl⟩

theorem quiet_show (ed : Ed) (m : Bytes) : Quiet ed (ed.show m) := ⟨rfl, rfl, rfl, rfl, rfl, rfl, rfl⟩
theorem quiet_print (ed : Ed) (m : Bytes) : Quiet ed (ed.print m) := ⟨rfl, rfl, rfl, rfl, rfl, rfl, rfl⟩

theorem map_set_same {α β} (f : α → β) (l : List α) (i : Nat) (x y : α) (hx : l[i]? = some x) (hf : f y = f x) :
    (l.set i y).map f = l.map f := by
  apply List.ext_getElem?
  intro n
  by_cases hn : i = n
  · subst hn
    obtain ⟨hlt, hgi⟩ := List.getElem?_eq_some_iff.1 hx
    simp [hlt, hf, hgi]
  · simp [List.getElem?_set_ne hn]

theorem quiet_bumpAt (ed : Ed) (i : Nat) (b : Buf) (hb : ed.bufs.getD i none = some b) :
    Quiet ed (bumpAt ed i b) := by
  refine ⟨?_, rfl, rfl, rfl, rfl, rfl, rfl⟩
  exact map_set_same _ _ _ _ _ (getD_some hb).2 rfl

theorem modifiedAt_eq (ed : Ed) (i : Nat) :
    (ed.modifiedAt i).2 = match ed.bufs.getD i none with | some b => bumpAt ed i b | none => ed := by
  unfold Ed.modifiedAt
  cases ed.bufs.getD i none <;> rfl

theorem quiet_modifiedAt (ed : Ed) (i : Nat) : Quiet ed (ed.modifiedAt i).2 := by
  rw [modifiedAt_eq]
  cases hb : ed.bufs.getD i none with
  | none => exact Quiet.refl _
  | some b => exact quiet_bumpAt ed i b hb

/-- the shape of the state after `bufs_modified(idx, msg)` -/
theorem bufsModified_shape (ed ed' : Ed) (idx : Nat) (msg : Option Bytes) (r : Bool)
    (h : bufsModified ed idx msg = some (r, ed')) :
    (ed.bufs.getD idx none = none ∧ ed' = ed ∧ r = false) ∨
    ∃ b, ed.bufs.getD idx none = some b ∧
      ((ed' = bumpAt ed idx b ∧ r = (modified b.lb).1 ∧ r = false) ∨
       (r = true ∧ (modified b.lb).1 = true ∧ (ed.xaw = 0 ∨ b.path.isEmpty = true) ∧ ed' = showOpt (bumpAt ed idx b) msg) ∨
       ((modified b.lb).1 = true ∧ ed.xaw ≠ 0 ∧ IoOnly (bumpAt ed idx b) ed')) := by
  unfold bufsModified at h
  cases hb : ed.bufs.getD idx none with
  | none =>
    simp only [hb] at h
    cases h
    exact Or.inl ⟨rfl, rfl, rfl⟩
  | some b =>
    have hlt := (getD_some hb).1
    simp only [hb, Ed.modifiedAt] at h
    refine Or.inr ⟨b, rfl, ?_⟩
    cases hm : (modified b.lb).1
    · simp only [hm, Bool.not_false, if_true, Option.some.injEq, Prod.mk.injEq] at h
      exact Or.inl ⟨h.2.symm, h.1.symm, h.1.symm⟩
    · simp only [hm, Bool.not_true, Bool.false_eq_true, if_false] at h
      rw [getD_set_self _ _ _ hlt] at h
      simp only at h
      split at h
      · next hc =>
        simp only [Bool.and_eq_true, bne_iff_ne, ne_eq, Bool.not_eq_true', List.isEmpty_eq_false_iff] at hc
        split at h
        · cases h
        · next err ed2 hs =>
          simp only [Option.some.injEq, Prod.mk.injEq] at h
          rw [← h.2]
          exact Or.inr (Or.inr ⟨rfl, hc.1, lbufSave_io _ _ _ _ _ _ _ _ _ hs⟩)
      · next hc =>
        simp only [Option.some.injEq, Prod.mk.injEq] at h
        refine Or.inr (Or.inl ⟨h.1.symm, rfl, ?_, ?_⟩)
        · simp only [Bool.and_eq_true, bne_iff_ne, ne_eq, Bool.not_eq_true', not_and, Bool.not_eq_false] at hc
          by_cases hx : ed.xaw = 0
          · exact Or.inl hx
          · exact Or.inr (hc hx)
        · rw [← h.2]; cases msg <;> rfl

theorem quiet_showOpt (ed : Ed) (m : Option Bytes) : Quiet ed (showOpt ed m) := by
  cases m
  · exact Quiet.refl _
  · exact quiet_show _ _

theorem quiet_bufsModified {ed ed' : Ed} {idx : Nat} {msg : Option Bytes} {r : Bool}
    (h : bufsModified ed idx msg = some (r, ed')) : Quiet ed ed' := by
  rcases bufsModified_shape ed ed' idx msg r h with ⟨_, he, _⟩ | ⟨b, hb, h1 | h1 | h1⟩
  · rw [he]; exact Quiet.refl _
  · rw [h1.1]; exact quiet_bumpAt ed idx b hb
  · rw [h1.2.2.2]; exact (quiet_bumpAt ed idx b hb).trans (quiet_showOpt _ _)
  · exact (quiet_bumpAt ed idx b hb).trans (quiet_io h1.2.2)

theorem loc_bumpAt0 (ed : Ed) (b : Buf) (hb : ed.bufs.getD 0 none = some b) : Loc ed (bumpAt ed 0 b) := by
  have : bumpAt ed 0 b = ed.setCur { b with lb := (modified b.lb).2 } := rfl
  rw [this]
  exact loc_setCur hb rfl

theorem loc_showOpt (ed : Ed) (m : Option Bytes) : Loc ed (showOpt ed m) := by
  cases m
  · exact Loc.refl _
  · exact Loc.of_same ⟨rfl, rfl⟩

/-- the unsaved-changes check of the current buffer is a local step -/
theorem loc_bufsModified0 {ed ed' : Ed} {msg : Option Bytes} {r : Bool}
    (h : bufsModified ed 0 msg = some (r, ed')) : Loc ed ed' := by
  rcases bufsModified_shape ed ed' 0 msg r h with ⟨_, he, _⟩ | ⟨b, hb, h1 | h1 | h1⟩
  · rw [he]; exact Loc.refl _
  · rw [h1.1]; exact loc_bumpAt0 ed b hb
  · rw [h1.2.2.2]; exact (loc_bumpAt0 ed b hb).trans (loc_showOpt _ _)
  · exact (loc_bumpAt0 ed b hb).same h1.2.2.same

/-- the guard `if c then bufs_modified(0, …) else pass` -/
theorem loc_guard0 {ed ed' : Ed} {c : Prop} [Decidable c] {msg : Option Bytes} {r : Bool}
    (h : (if c then bufsModified ed 0 msg else some (false, ed) : R Bool) = some (r, ed')) : Loc ed ed' := by
  split at h
  · exact loc_bufsModified0 h
  · cases h; exact Loc.refl _

theorem quiet_guard {ed ed' : Ed} {c : Prop} [Decidable c] {idx : Nat} {msg : Option Bytes} {r : Bool}
    (h : (if c then bufsModified ed idx msg else some (false, ed) : R Bool) = some (r, ed')) : Quiet ed ed' := by
  split at h
  · exact quiet_bufsModified h
  · cases h; exact Quiet.refl _

end Neatvi.Lemmas.C20c
