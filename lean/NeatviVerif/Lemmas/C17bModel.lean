import NeatviVerif.Lemmas.C17bUtf8
import NeatviVerif.Lemmas.C17bWidth
/-! Helper lemmas for C17b: the tables the model computes (`renPositionFast`, `renPositionReorder`
for a permutation) satisfy the table invariant, for any bytes; for a valid UTF-8 line they are
tiled (`Tiled`). -/
namespace Neatvi.Lemmas.C17b
open Neatvi Neatvi.Uc Neatvi.Spec Neatvi.Ren Neatvi.Props

/-- each entry of the left-to-right table is the previous one plus the width of its character -/
theorem fastTable_step (cs : List Bytes) (col : Nat) (i : Nat) (hi : i < cs.length) :
    (layout cs col ++ [layoutEnd cs col]).getD (i + 1) 0 =
      (layout cs col ++ [layoutEnd cs col]).getD i 0 +
        renCwid (cs.getD i []) ((layout cs col ++ [layoutEnd cs col]).getD i 0) := by
  induction cs generalizing col i with
  | nil => simp at hi
  | cons c r ih =>
    cases i with
    | zero =>
      cases r with
      | nil => simp [layout, layoutEnd]
      | cons d r' => simp [layout]
    | succ i =>
      simp only [layout, layoutEnd, List.cons_append, List.getD_cons_succ]
      exact ih _ i (by simpa using hi)

/-- the left-to-right table of any list of characters is increasing -/
theorem fastTable_inc (cs : List Bytes) :
    (layout cs 0 ++ [layoutEnd cs 0]).length = cs.length + 1 ∧
    ∀ i j, i < j → j ≤ cs.length →
      (layout cs 0 ++ [layoutEnd cs 0]).getD i 0 < (layout cs 0 ++ [layoutEnd cs 0]).getD j 0 :=
  ⟨by simp [layout_length], fun i j hij hj =>
    fastTable_strict cs (fun c _ col => renCwid_pos c col) 0 i j hij hj⟩

theorem getD_mem_of_lt {cps : List Nat} {k : Nat} (hk : k < cps.length) : cps.getD k 0 ∈ cps := by
  rw [List.getD_eq_getElem?_getD, List.getElem?_eq_getElem hk]; exact List.getElem_mem _

theorem range_getD (n k : Nat) (hk : k < n) : (List.range n).getD k 0 = k := by
  rw [List.getD_eq_getElem?_getD, List.getElem?_range hk]; rfl

/-- widths of the characters of a valid line, through `C17.cwid_spec` -/
theorem cwid_chr {cps : List Nat} (hv : ∀ c ∈ cps, ValidCp c) (k : Nat) (hk : k < cps.length) (col : Nat) :
    renCwid ((chrs (encStr cps)).getD k []) col = cellWidth (cps.getD k 0) col := by
  rw [chrs_enc_getD hv k hk]
  exact C17.cwid_spec (hv _ (getD_mem_of_lt hk)) _ col

/-- what `C17.reorder_tiling_cs` says, in `getD` form: the reordered table, read through the
    visual order `vis`, is the left-to-right table of the characters `vc` taken in visual order -/
theorem reorder_vis (cs : List Bytes) (ord : List Nat) (hperm : ord.Perm (List.range cs.length))
    (pos : List Nat) (h : renPositionReorderCs cs ord = some pos) :
    ∃ (vis : List Nat) (vc : List Bytes),
      vc.length = cs.length ∧ pos.length = cs.length + 1 ∧
      (∀ i, i < cs.length → ∃ k, k < cs.length ∧ vis.getD k 0 = i) ∧
      (∀ k, k < cs.length → vis.getD k 0 < cs.length) ∧
      (∀ k, k < cs.length → vc.getD k [] = cs.getD (vis.getD k 0) []) ∧
      (∀ k, k < cs.length → pos.getD (vis.getD k 0) 0 = (layout vc 0 ++ [layoutEnd vc 0]).getD k 0) ∧
      pos.getD cs.length 0 = (layout vc 0 ++ [layoutEnd vc 0]).getD cs.length 0 := by
  have hl : ord.length = cs.length := by rw [hperm.length_eq]; simp
  have hnd : ord.Nodup := hperm.nodup_iff.mpr List.nodup_range
  have hlt : ∀ v ∈ ord, v < cs.length := by
    intro v hvm; simpa using (hperm.mem_iff.mp hvm)
  have hsurj : ∀ v, v < cs.length → v ∈ ord := by
    intro v hvl; exact hperm.mem_iff.mpr (by simpa using hvl)
  obtain ⟨ps, he, hpl, hget⟩ := C17.reorder_tiling_cs cs ord hl hnd hlt hsurj
  rw [he] at h
  have hpos : pos = ps ++ [layoutEnd ((visOf ord cs.length).map (fun k => cs.getD k [])) 0] :=
    (Option.some.inj h).symm
  generalize hvis : visOf ord cs.length = vis at hget hpos
  generalize hvc : vis.map (fun k => cs.getD k []) = vc at hget hpos
  have hvlen : vis.length = cs.length := by simp [← hvis, visOf]
  have hvclen : vc.length = cs.length := by simp [← hvc, hvlen]
  have hvlt : ∀ k, k < cs.length → vis.getD k 0 < cs.length := by
    intro k hk
    rw [← hvis]
    simp only [visOf, List.getD_eq_getElem?_getD, List.getElem?_map, List.getElem?_range hk,
      Option.map_some, Option.getD_some]
    have := List.idxOf_lt_length_of_mem (hsurj k hk)
    omega
  refine ⟨vis, vc, hvclen, by rw [hpos]; simp [hpl], ?_, hvlt, ?_, ?_, ?_⟩
  · intro i hi
    have hoi : ord[i]'(by rw [hl]; exact hi) < cs.length := hlt _ (List.getElem_mem _)
    refine ⟨ord[i]'(by rw [hl]; exact hi), hoi, ?_⟩
    rw [← hvis]
    simp only [visOf, List.getD_eq_getElem?_getD, List.getElem?_map, List.getElem?_range hoi,
      Option.map_some, Option.getD_some]
    exact hnd.idxOf_getElem i (by rw [hl]; exact hi)
  · intro k hk
    rw [← hvc]
    simp only [List.getD_eq_getElem?_getD, List.getElem?_map,
      List.getElem?_eq_getElem (show k < vis.length by omega), Option.map_some, Option.getD_some]
  · intro k hk
    have := hget k hk
    rw [hpos, List.getD_eq_getElem?_getD, List.getElem?_append_left (by rw [hpl]; exact hvlt k hk), this,
      List.getD_eq_getElem?_getD, List.getElem?_append_left (by rw [layout_length, hvclen]; exact hk)]
  · rw [hpos, List.getD_eq_getElem?_getD, List.getElem?_append_right (by omega),
      List.getD_eq_getElem?_getD, List.getElem?_append_right (by rw [layout_length]; omega)]
    simp [hpl, layout_length, hvclen]

/-- the reordered table of any characters, for a permutation, satisfies the invariant -/
theorem reorder_colTable_cs (cs : List Bytes) (ord : List Nat) (hperm : ord.Perm (List.range cs.length))
    (pos : List Nat) (h : renPositionReorderCs cs ord = some pos) : ColTable pos cs.length := by
  obtain ⟨vis, vc, hvclen, hplen, hsurj, _, _, hpos, hend⟩ := reorder_vis cs ord hperm pos h
  have hinc := fastTable_inc vc
  rw [hvclen] at hinc
  exact colTable_of_vis pos _ vis cs.length hinc hplen hsurj hpos hend

/-- the left-to-right table of a valid UTF-8 line is tiled -/
theorem fast_tiled (cps : List Nat) (hv : ∀ c ∈ cps, ValidCp c) :
    Tiled cps (renPositionFast (encStr cps)) := by
  have hlen := chrs_enc_length hv
  have hinc := fastTable_inc (chrs (encStr cps))
  rw [hlen, ← C17.fast_is_layout] at hinc
  apply tiled_of_vis cps _ (renPositionFast (encStr cps)) (List.range cps.length) hinc hinc.1
  · intro i hi; exact ⟨i, hi, range_getD _ _ hi⟩
  · intro k hk; rw [range_getD _ _ hk]; exact hk
  · intro k hk; rw [range_getD _ _ hk]
  · rfl
  · intro k hk
    rw [range_getD _ _ hk, C17.fast_is_layout, fastTable_step _ 0 k (by omega), cwid_chr hv k hk]

/-- the reordered table of a valid UTF-8 line, for a permutation `ord`, is tiled -/
theorem reorder_tiled (cps : List Nat) (hv : ∀ c ∈ cps, ValidCp c) (ord : List Nat)
    (hperm : ord.Perm (List.range cps.length)) (pos : List Nat)
    (h : renPositionReorder (encStr cps) ord = some pos) : Tiled cps pos := by
  have hlen := chrs_enc_length hv
  unfold renPositionReorder at h
  obtain ⟨vis, vc, hvclen, hplen, hsurj, hvlt, hvc, hpos, hend⟩ :=
    reorder_vis (chrs (encStr cps)) ord (by rw [hlen]; exact hperm) pos h
  have hinc := fastTable_inc vc
  rw [hlen] at hvclen hplen hsurj hvlt hvc hpos hend
  rw [hvclen] at hinc
  apply tiled_of_vis cps pos _ vis hinc hplen hsurj hvlt hpos hend
  intro k hk
  rw [fastTable_step vc 0 k (by omega), hvc k hk, cwid_chr hv _ (hvlt k hk)]

end Neatvi.Lemmas.C17b
