import NeatviVerif.Lemmas.C17bCursor
import NeatviVerif.Spec.Layout
/-! Helper lemmas for C17b: what `isTiling` says about the table (distinct columns, the end
column, the successor of each character in visual order). -/
namespace Neatvi.Lemmas.C17b
open Neatvi Neatvi.Spec Neatvi.Ren

theorem go_nil (cps pos : List Nat) (n col : Nat) :
    isTiling.go cps pos n [] col = (pos.getD n 0 == col) := by simp [isTiling.go]

theorem go_cons (cps pos : List Nat) (n i : Nat) (r : List Nat) (col : Nat) :
    isTiling.go cps pos n (i :: r) col =
      (pos.getD i 0 == col && isTiling.go cps pos n r (col + cellWidth (cps.getD i 0) col)) := by
  simp [isTiling.go]

/-! ### the visual order lists exactly `0..n-1` -/

def visStep (pos : List Nat) (acc : List Nat) (i : Nat) : List Nat :=
  let pi := pos.getD i 0
  let (a, b) := acc.span (fun j => pos.getD j 0 ≤ pi)
  a ++ i :: b

theorem visualOrder_eq (pos : List Nat) (n : Nat) :
    visualOrder pos n = (List.range n).foldl (visStep pos) [] := rfl

theorem span_loop_append {α : Type} (p : α → Bool) (as acc : List α) :
    (List.span.loop p as acc).1 ++ (List.span.loop p as acc).2 = acc.reverse ++ as := by
  induction as generalizing acc with
  | nil => simp [List.span.loop]
  | cons a as ih =>
    unfold List.span.loop
    cases p a with
    | true => simp only []; rw [ih]; simp
    | false => simp

theorem span_append {α : Type} (p : α → Bool) (l : List α) : (l.span p).1 ++ (l.span p).2 = l := by
  unfold List.span
  rw [span_loop_append]; simp

theorem visStep_eq (pos acc : List Nat) (i : Nat) :
    visStep pos acc i = (acc.span (fun j => decide (pos.getD j 0 ≤ pos.getD i 0))).1 ++
      i :: (acc.span (fun j => decide (pos.getD j 0 ≤ pos.getD i 0))).2 := rfl

theorem mem_visStep (pos acc : List Nat) (i x : Nat) : x ∈ visStep pos acc i ↔ x = i ∨ x ∈ acc := by
  have := span_append (fun j => decide (pos.getD j 0 ≤ pos.getD i 0)) acc
  have hm : x ∈ acc ↔ x ∈ (acc.span (fun j => decide (pos.getD j 0 ≤ pos.getD i 0))).1 ∨
      x ∈ (acc.span (fun j => decide (pos.getD j 0 ≤ pos.getD i 0))).2 := by
    rw [← List.mem_append, this]
  rw [visStep_eq, hm, List.mem_append, List.mem_cons]
  constructor
  · rintro (h | h | h)
    · right; left; exact h
    · left; exact h
    · right; right; exact h
  · rintro (h | h | h)
    · right; left; exact h
    · left; exact h
    · right; right; exact h

theorem mem_visualOrder (pos : List Nat) (n x : Nat) : x ∈ visualOrder pos n ↔ x < n := by
  rw [visualOrder_eq]
  induction n with
  | zero => simp
  | succ n ih =>
    rw [List.range_succ, List.foldl_append]
    simp only [List.foldl_cons, List.foldl_nil]
    rw [mem_visStep, ih]; omega

/-! ### the tiling check -/

theorem go_facts (cps pos : List Nat) (n : Nat) (l : List Nat)
    (hw : ∀ k, k ∈ l → ∀ col, 1 ≤ cellWidth (cps.getD k 0) col) :
    ∀ col, isTiling.go cps pos n l col = true →
      col ≤ pos.getD n 0 ∧ (∀ k, k ∈ l → col ≤ pos.getD k 0 ∧ pos.getD k 0 < pos.getD n 0) ∧
      List.Pairwise (fun a b => pos.getD a 0 < pos.getD b 0) l := by
  induction l with
  | nil =>
    intro col h
    rw [go_nil] at h
    have : pos.getD n 0 = col := by simpa using h
    exact ⟨by omega, by simp, List.Pairwise.nil⟩
  | cons i r ih =>
    intro col h
    rw [go_cons, Bool.and_eq_true] at h
    obtain ⟨h1, h2⟩ := h
    have h1 : pos.getD i 0 = col := by simpa using h1
    obtain ⟨a, b, c⟩ := ih (fun k hk => hw k (by simp [hk])) _ h2
    have := hw i (by simp) col
    refine ⟨by omega, ?_, ?_⟩
    · intro k hk
      rcases List.mem_cons.mp hk with rfl | hk
      · omega
      · have := b k hk; omega
    · rw [List.pairwise_cons]
      refine ⟨?_, c⟩
      intro k hk
      have := b k hk; omega

theorem pairwise_inj {f : Nat → Nat} {l : List Nat} (h : List.Pairwise (fun a b => f a < f b) l)
    {a b : Nat} (ha : a ∈ l) (hb : b ∈ l) (he : f a = f b) : a = b := by
  induction l with
  | nil => cases ha
  | cons x r ih =>
    rw [List.pairwise_cons] at h
    rcases List.mem_cons.mp ha with ha | ha <;> rcases List.mem_cons.mp hb with hb | hb
    · rw [ha, hb]
    · have := h.1 b hb; rw [ha] at he; omega
    · have := h.1 a ha; rw [hb] at he; omega
    · exact ih h.2 ha hb

/-- in a tiling, character `i` is followed (in visual order) by a character that starts where
    `i` ends, or by the end column; every other character is at or before `i`, or at or after
    the end of `i` -/
theorem go_succ (cps pos : List Nat) (n : Nat) (l : List Nat)
    (hw : ∀ k, k ∈ l → ∀ col, 1 ≤ cellWidth (cps.getD k 0) col) (i : Nat) :
    ∀ col, isTiling.go cps pos n l col = true → i ∈ l →
      (∀ k, k ∈ l → pos.getD k 0 ≤ pos.getD i 0 ∨
        pos.getD i 0 + cellWidth (cps.getD i 0) (pos.getD i 0) ≤ pos.getD k 0) ∧
      ((∃ j, j ∈ l ∧ pos.getD j 0 = pos.getD i 0 + cellWidth (cps.getD i 0) (pos.getD i 0)) ∨
        pos.getD n 0 = pos.getD i 0 + cellWidth (cps.getD i 0) (pos.getD i 0)) := by
  induction l with
  | nil => intro col _ hi; cases hi
  | cons x r ih =>
    intro col h hi
    rw [go_cons, Bool.and_eq_true] at h
    obtain ⟨h1, h2⟩ := h
    have h1 : pos.getD x 0 = col := by simpa using h1
    have hwr : ∀ k, k ∈ r → ∀ col, 1 ≤ cellWidth (cps.getD k 0) col := fun k hk => hw k (by simp [hk])
    obtain ⟨fa, fb, _⟩ := go_facts cps pos n r hwr _ h2
    by_cases hix : i = x
    · subst hix
      rw [h1]
      constructor
      · intro k hk
        rcases List.mem_cons.mp hk with rfl | hk
        · left; omega
        · right; exact (fb k hk).1
      · cases r with
        | nil =>
          right
          rw [go_nil] at h2
          simpa using h2
        | cons j r' =>
          left
          rw [go_cons, Bool.and_eq_true] at h2
          exact ⟨j, by simp, by simpa using h2.1⟩
    · have hir : i ∈ r := by
        rcases List.mem_cons.mp hi with h | h
        · exact absurd h hix
        · exact h
      obtain ⟨ga, gb⟩ := ih hwr _ h2 hir
      constructor
      · intro k hk
        rcases List.mem_cons.mp hk with rfl | hk
        · left
          have := (fb i hir).1
          have := hw k (by simp) col
          omega
        · exact ga k hk
      · rcases gb with ⟨j, hj, he⟩ | he
        · exact Or.inl ⟨j, by simp [hj], he⟩
        · exact Or.inr he

/-- a tiling with cells at least one column wide satisfies the table invariant -/
theorem colTable_of_tiling (cps pos : List Nat)
    (hw : ∀ k, k < cps.length → ∀ col, 1 ≤ cellWidth (cps.getD k 0) col)
    (h : isTiling cps pos = true) : ColTable pos cps.length := by
  unfold isTiling at h
  simp only [Bool.and_eq_true, beq_iff_eq] at h
  obtain ⟨hl, hg⟩ := h
  have hw' : ∀ k, k ∈ visualOrder pos cps.length → ∀ col, 1 ≤ cellWidth (cps.getD k 0) col :=
    fun k hk => hw k ((mem_visualOrder _ _ _).mp hk)
  obtain ⟨_, fb, fc⟩ := go_facts cps pos cps.length _ hw' 0 hg
  refine ⟨hl, ?_, ?_⟩
  · intro i j hi hj he
    exact pairwise_inj fc ((mem_visualOrder _ _ _).mpr hi) ((mem_visualOrder _ _ _).mpr hj) he
  · intro i hi
    exact (fb i ((mem_visualOrder _ _ _).mpr hi)).2

/-- in a tiling the next occupied column after character `i` is where its cell range ends -/
theorem tiling_succ (cps pos : List Nat)
    (hw : ∀ k, k < cps.length → ∀ col, 1 ≤ cellWidth (cps.getD k 0) col)
    (h : isTiling cps pos = true) (i : Nat) (hi : i < cps.length) :
    (∀ k, k < cps.length → pos.getD k 0 ≤ pos.getD i 0 ∨
        pos.getD i 0 + cellWidth (cps.getD i 0) (pos.getD i 0) ≤ pos.getD k 0) ∧
      ((∃ j, j < cps.length ∧ pos.getD j 0 = pos.getD i 0 + cellWidth (cps.getD i 0) (pos.getD i 0)) ∨
        pos.getD cps.length 0 = pos.getD i 0 + cellWidth (cps.getD i 0) (pos.getD i 0)) := by
  unfold isTiling at h
  simp only [Bool.and_eq_true, beq_iff_eq] at h
  obtain ⟨_, hg⟩ := h
  have hw' : ∀ k, k ∈ visualOrder pos cps.length → ∀ col, 1 ≤ cellWidth (cps.getD k 0) col :=
    fun k hk => hw k ((mem_visualOrder _ _ _).mp hk)
  obtain ⟨ga, gb⟩ := go_succ cps pos cps.length _ hw' i 0 hg ((mem_visualOrder _ _ _).mpr hi)
  constructor
  · intro k hk; exact ga k ((mem_visualOrder _ _ _).mpr hk)
  · rcases gb with ⟨j, hj, he⟩ | he
    · exact Or.inl ⟨j, (mem_visualOrder _ _ _).mp hj, he⟩
    · exact Or.inr he

/-- the leftmost column of a non-empty tiling is 0 -/
theorem tiling_zero (cps pos : List Nat) (h : isTiling cps pos = true) (hn : 0 < cps.length) :
    ∃ i, i < cps.length ∧ pos.getD i 0 = 0 := by
  unfold isTiling at h
  simp only [Bool.and_eq_true, beq_iff_eq] at h
  obtain ⟨_, hg⟩ := h
  cases hv : visualOrder pos cps.length with
  | nil =>
    have := (mem_visualOrder pos cps.length 0).mpr hn
    rw [hv] at this; cases this
  | cons i r =>
    rw [hv, go_cons, Bool.and_eq_true] at hg
    refine ⟨i, (mem_visualOrder pos cps.length i).mp (by rw [hv]; simp), by simpa using hg.1⟩

/-! ### the facts a tiling provides, as a proposition -/

/-- `pos` tiles the cells of the characters `cps`: the table invariant, every cell at least one
    column wide, every other character starts at or before character `i` or at or after the end of
    `i`'s cell range, and where `i`'s range ends another character starts, or the line ends -/
structure Tiled (cps pos : List Nat) : Prop where
  table : ColTable pos cps.length
  width_pos : ∀ i, i < cps.length → 1 ≤ cellWidth (cps.getD i 0) (pos.getD i 0)
  apart : ∀ i k, i < cps.length → k < cps.length → pos.getD k 0 ≤ pos.getD i 0 ∨
    pos.getD i 0 + cellWidth (cps.getD i 0) (pos.getD i 0) ≤ pos.getD k 0
  succ : ∀ i, i < cps.length →
    (∃ j, j < cps.length ∧ pos.getD j 0 = pos.getD i 0 + cellWidth (cps.getD i 0) (pos.getD i 0)) ∨
    pos.getD cps.length 0 = pos.getD i 0 + cellWidth (cps.getD i 0) (pos.getD i 0)

theorem tiled_of_isTiling (cps pos : List Nat)
    (hw : ∀ k, k < cps.length → ∀ col, 1 ≤ cellWidth (cps.getD k 0) col)
    (h : isTiling cps pos = true) : Tiled cps pos :=
  ⟨colTable_of_tiling cps pos hw h, fun i hi => hw i hi _,
   fun i k hi hk => (tiling_succ cps pos hw h i hi).1 k hk,
   fun i hi => (tiling_succ cps pos hw h i hi).2⟩

/-- a table that, read through a visual order `vis`, is an increasing table `T` whose steps are
    the cell widths, is tiled -/
theorem tiled_of_vis (cps pos T vis : List Nat)
    (hT : T.length = cps.length + 1 ∧ ∀ i j, i < j → j ≤ cps.length → T.getD i 0 < T.getD j 0)
    (hlen : pos.length = cps.length + 1)
    (hsurj : ∀ i, i < cps.length → ∃ k, k < cps.length ∧ vis.getD k 0 = i)
    (hvlt : ∀ k, k < cps.length → vis.getD k 0 < cps.length)
    (hpos : ∀ k, k < cps.length → pos.getD (vis.getD k 0) 0 = T.getD k 0)
    (hend : pos.getD cps.length 0 = T.getD cps.length 0)
    (hstep : ∀ k, k < cps.length →
      T.getD (k + 1) 0 = T.getD k 0 + cellWidth (cps.getD (vis.getD k 0) 0) (T.getD k 0)) :
    Tiled cps pos := by
  have hmono : ∀ a b, a ≤ b → b ≤ cps.length → T.getD a 0 ≤ T.getD b 0 := by
    intro a b hab hb
    by_cases h : a = b
    · subst h; omega
    · have := hT.2 a b (by omega) hb; omega
  refine ⟨⟨hlen, ?_, ?_⟩, ?_, ?_, ?_⟩
  · intro i j hi hj he
    obtain ⟨a, ha, rfl⟩ := hsurj i hi
    obtain ⟨b, hb, rfl⟩ := hsurj j hj
    rw [hpos a ha, hpos b hb] at he
    by_cases h1 : a < b
    · have := hT.2 a b h1 (by omega); omega
    · by_cases h2 : b < a
      · have := hT.2 b a h2 (by omega); omega
      · have : a = b := by omega
        rw [this]
  · intro i hi
    obtain ⟨a, ha, rfl⟩ := hsurj i hi
    rw [hpos a ha, hend]
    exact hT.2 a cps.length ha (Nat.le_refl _)
  · intro i hi
    obtain ⟨a, ha, rfl⟩ := hsurj i hi
    rw [hpos a ha]
    have := hstep a ha
    have := hT.2 a (a + 1) (by omega) (by omega)
    omega
  · intro i k hi hk
    obtain ⟨a, ha, rfl⟩ := hsurj i hi
    obtain ⟨b, hb, rfl⟩ := hsurj k hk
    rw [hpos a ha, hpos b hb]
    by_cases h1 : b ≤ a
    · left; exact hmono b a h1 (by omega)
    · right
      rw [← hstep a ha]
      exact hmono (a + 1) b (by omega) (by omega)
  · intro i hi
    obtain ⟨a, ha, rfl⟩ := hsurj i hi
    rw [hpos a ha, ← hstep a ha]
    by_cases h1 : a + 1 < cps.length
    · left
      exact ⟨vis.getD (a + 1) 0, hvlt _ h1, hpos _ h1⟩
    · right
      rw [hend, show a + 1 = cps.length by omega]

/-- the invariant alone, for any table that read through `vis` is an increasing table `T` -/
theorem colTable_of_vis (pos T vis : List Nat) (n : Nat)
    (hT : T.length = n + 1 ∧ ∀ i j, i < j → j ≤ n → T.getD i 0 < T.getD j 0)
    (hlen : pos.length = n + 1)
    (hsurj : ∀ i, i < n → ∃ k, k < n ∧ vis.getD k 0 = i)
    (hpos : ∀ k, k < n → pos.getD (vis.getD k 0) 0 = T.getD k 0)
    (hend : pos.getD n 0 = T.getD n 0) : ColTable pos n := by
  refine ⟨hlen, ?_, ?_⟩
  · intro i j hi hj he
    obtain ⟨a, ha, rfl⟩ := hsurj i hi
    obtain ⟨b, hb, rfl⟩ := hsurj j hj
    rw [hpos a ha, hpos b hb] at he
    by_cases h1 : a < b
    · have := hT.2 a b h1 (by omega); omega
    · by_cases h2 : b < a
      · have := hT.2 b a h2 (by omega); omega
      · have : a = b := by omega
        rw [this]
  · intro i hi
    obtain ⟨a, ha, rfl⟩ := hsurj i hi
    rw [hpos a ha, hend]
    exact hT.2 a n ha (Nat.le_refl _)

end Neatvi.Lemmas.C17b
