import NeatviVerif.Lemmas.C05fO
/-!
# C05f, part P: `p P`, `J`, `r`
-/
set_option linter.unusedSimpArgs false
set_option linter.unusedVariables false
namespace Neatvi.Lemmas.C05f
open Neatvi Neatvi.Uc Neatvi.Lbuf Neatvi.Ex Neatvi.Mot Neatvi.Vi Neatvi.Rset

theorem regGetLn_noNul {s : VS} {c : Prop} (hs : SOk s c) (k : Nat) : NoNulO (regGetLn s.ed k).1 := by
  have h := regsOk_regGet hs.textOk.1 (fun l hl => hs.textOk.2 _ l hl) k
  unfold regGetLn
  dsimp only
  splits <;> exact h

theorem lineOk_nl : LineOk [10] := ⟨[], rfl, by simp, noNul_nil⟩

/-- **`vc_put`** (`p P`) -/
theorem wp_vcPut (cmd : Nat) {s : VS} {c : Prop} (hs : SOk s c) (hr : RowOk s) (Q : Nat → VS → Prop)
    (hQ : ∀ a s', OpPost s s' → Q a s') : wp (vcPut cmd) Q s := by
  unfold vcPut
  wpn
  have hbuf := regGetLn_noNul hs s.ybuf
  generalize (regGetLn s.ed s.ybuf).1 = ob at hbuf ⊢
  generalize (regGetLn s.ed s.ybuf).2 = oln
  have hq0 : OpPost s s := ⟨hs.weaken, rfl⟩
  cases ob with
  | none => exact (wp_pure _ _ _).mpr (hQ _ _ hq0)
  | some buf =>
    have hbn : NoNul buf := hbuf buf rfl
    dsimp only
    wpif hemp
    · exact (wp_pure _ _ _).mpr (hQ _ _ hq0)
    cases oln with
    | none =>
      dsimp only
      wpn
      exact hQ _ _ ⟨hs.weaken.congr rfl rfl, rfl⟩
    | some lnm =>
      dsimp only
      have hrep : NoNul (List.replicate (max 1 s.arg1).toNat buf).flatten := by
        apply noNul_flatten
        intro x hx
        rw [List.eq_of_mem_replicate hx]; exact hbn
      wpif hlm
      · -- line mode
        have hput : ∀ s1 : VS, SOk s1 False → 0 ≤ s1.ed.xrow → s1.ed.xquit = s.ed.xquit →
            wp (do
              let s_1 ← get
              edEdit (some (List.replicate (max 1 s.arg1).toNat buf).flatten) s_1.ed.xrow s_1.ed.xrow
              let s ← get
              setOff (indents (lines s) s.ed.xrow)
              pure VC_OK) Q s1 := by
          intro s1 h1 hx hq1
          wpn
          refine wp_edEdit_sok h1 _ _ _ hx (Int.le_refl _) (noNulO_some.mpr hrep) _ (fun s2 h2 _ _ q2 _ => ?_)
          wpn
          exact hQ _ _ ⟨h2.congr rfl rfl, q2.trans hq1⟩
        have hrow : ∀ s1 : VS, SOk s1 False → s1.ed.xrow = s.ed.xrow → s1.ed.xquit = s.ed.xquit →
            wp (if (cmd == 112) = true then do
                setRow (s.ed.xrow + 1)
                let s_1 ← get
                edEdit (some (List.replicate (max 1 s.arg1).toNat buf).flatten) s_1.ed.xrow s_1.ed.xrow
                let s ← get
                setOff (indents (lines s) s.ed.xrow)
                pure VC_OK
              else do
                let s_1 ← get
                edEdit (some (List.replicate (max 1 s.arg1).toNat buf).flatten) s_1.ed.xrow s_1.ed.xrow
                let s ← get
                setOff (indents (lines s) s.ed.xrow)
                pure VC_OK) Q s1 := by
          intro s1 h1 hx hq1
          wpif h112
          · wp1; wp1
            exact hput _ (h1.congr rfl rfl) (by have := hr.1; show 0 ≤ s.ed.xrow + 1; omega) hq1
          · exact hput s1 h1 (by rw [hx]; exact hr.1) hq1
        wpif hlen
        · wpn
          refine wp_edEdit_sok hs _ _ _ (Int.le_refl 0) (Int.le_refl 0) (noNulO_some.mpr lineOk_nl.noNul) _
            (fun s1 h1 hx _ hq1 _ => ?_)
          exact hrow s1 h1 hx hq1
        · exact hrow s hs.weaken rfl rfl
      · -- character mode
        have hln : LineOk (if s.ed.xrow < lenOf s then lineE s s.ed.xrow else [10]) := by
          split
          · rename_i hlt
            obtain ⟨l, h1, h2⟩ := lineAt_of_rowOk hs hr.1 hlt
            have : lineE s s.ed.xrow = l := by unfold lineE lineOf; rw [h1]; rfl
            rw [this]; exact h2
          · exact lineOk_nl
        generalize (if s.ed.xrow < lenOf s then lineE s s.ed.xrow else [10]) = ln at hln ⊢
        have hoff : Ren.renNoeol ln s.ed.xoff + (if (ln.headD 0 != 10 && cmd == 112) = true then 1 else 0) ≤ (ucSlen ln : Int) := by
          have := Lemmas.C07.renNoeol_lt ln s.ed.xoff
          have := hln.slen_pos
          split <;> omega
        obtain ⟨a, b, h1, h2, h3⟩ := subI_cut hoff
        wpn
        rw [h1]; wpn
        rw [h2]; wpn
        have hab : NoNul (a ++ b) := by rw [h3]; exact hln.noNul
        refine wp_edEdit_sok hs _ _ _ hr.1 (by omega) (noNulO_some.mpr (noNul_append.mpr
          ⟨noNul_append.mpr ⟨(noNul_append.mp hab).1, hrep⟩, (noNul_append.mp hab).2⟩)) _ (fun s2 h2s _ _ q2 _ => ?_)
        wpn
        exact hQ _ _ ⟨h2s.congr rfl rfl, q2⟩

theorem joinGo_noNul {s : VS} {c : Prop} (hs : SOk s c) (beg e : Int) : ∀ (f : Nat) (i : Int) (sb : Bytes) (off : Int),
    NoNul sb → NoNul (vcJoin.go s beg e f i sb off).1 := by
  intro f
  induction f with
  | zero => intro i sb off h; unfold vcJoin.go; exact h
  | succ f ih =>
    intro i sb off h
    unfold vcJoin.go
    split
    · exact h
    · dsimp only
      apply ih
      have hl := lineE_noNul hs i
      refine noNul_append.mpr ⟨noNul_append.mpr ⟨h, noNul_replicate (by decide)⟩, ?_⟩
      split
      · exact (hl.dropWhile _).takeWhile _
      · exact hl.takeWhile _

/-- **`vc_join`** (`J`) -/
theorem wp_vcJoin {s : VS} {c : Prop} (hs : SOk s c) (hr : RowOk s) (Q : Nat → VS → Prop)
    (hQ : ∀ a s', OpPost s s' → Q a s') : wp vcJoin Q s := by
  unfold vcJoin
  wpn
  wpif hc
  · exact (wp_pure _ _ _).mpr (hQ _ _ ⟨hs.weaken, rfl⟩)
  have hn := joinGo_noNul hs s.ed.xrow (s.ed.xrow + (if s.arg1 ≤ 1 then 2 else s.arg1))
    ((if s.arg1 ≤ 1 then 2 else s.arg1 : Int).toNat + 1) s.ed.xrow [] 0 noNul_nil
  generalize vcJoin.go s s.ed.xrow (s.ed.xrow + (if s.arg1 ≤ 1 then 2 else s.arg1))
    ((if s.arg1 ≤ 1 then 2 else s.arg1 : Int).toNat + 1) s.ed.xrow [] 0 = q at hn ⊢
  obtain ⟨sb, off⟩ := q
  dsimp only at hn ⊢
  wpn
  refine wp_edEdit_sok hs _ _ _ hr.1 (by split <;> omega) (noNulO_some.mpr (noNul_append.mpr ⟨hn, by simp [NoNul]⟩)) _
    (fun s2 h2 _ _ q2 _ => ?_)
  wpn
  exact hQ _ _ ⟨h2.congr rfl rfl, q2⟩

/-- **`vc_replace`** (`r`) -/
theorem wp_vcReplace {s : VS} {c : Prop} (hs : SOk s c) (hr : RowOk s) (Q : Nat → VS → Prop)
    (hQ : ∀ a s', OpPost s s' → Q a s') : wp vcReplace Q s := by
  unfold vcReplace
  wpn
  refine wp_viChar s _ (fun cs s1 e1 hcs => ?_)
  have hs1 : SOk s1 c := (MvF.of_EdF e1).sok hs
  have hq1 : OpPost s s1 := ⟨hs1.weaken, e1.xquit⟩
  cases hl : lineOf s s.ed.xrow with
  | none => exact (wp_pure _ _ _).mpr (hQ _ _ hq1)
  | some ln =>
    cases cs with
    | none => exact (wp_pure _ _ _).mpr (hQ _ _ hq1)
    | some cs =>
      have hcn : NoNul cs := hcs cs rfl
      have hlo : LineOk ln := lineOf_lineOk hs hl
      dsimp only
      wpif hav
      · exact (wp_pure _ _ _).mpr (hQ _ _ hq1)
      have hsl := slen_takeWhile_nl hlo
      have hoff : Ren.renNoeol ln s.ed.xoff ≤ (ucSlen ln : Int) := renNoeol_le_slen _ _
      have hoff2 : Ren.renNoeol ln s.ed.xoff + max 1 s.arg1 ≤ (ucSlen ln : Int) := by
        omega
      obtain ⟨pref, hp, hpl⟩ := subI_some (l := ln) (b := 0) (e := Ren.renNoeol ln s.ed.xoff) (by omega) hoff
      obtain ⟨post, hq, hql⟩ := subI_some (l := ln) (b := Ren.renNoeol ln s.ed.xoff + max 1 s.arg1) (e := -1) hoff2 (by omega)
      wpn
      rw [hp]; wpn
      rw [hq]; wpn
      have hrep : NoNul (List.replicate (max 1 s.arg1).toNat cs).flatten := by
        apply noNul_flatten
        intro x hx
        rw [List.eq_of_mem_replicate hx]; exact hcn
      refine wp_edEdit_sok hs1 _ _ _ (hr.1) (by omega) (noNulO_some.mpr (noNul_append.mpr
        ⟨noNul_append.mpr ⟨subI_noNul hlo.noNul hp, hrep⟩, subI_noNul hlo.noNul hq⟩)) _ (fun s2 h2 _ _ q2 _ => ?_)
      wpif hnl
      · wpn
        exact hQ _ _ ⟨h2.congr rfl rfl, q2.trans e1.xquit⟩
      · wpn
        exact hQ _ _ ⟨h2.congr rfl rfl, q2.trans e1.xquit⟩

end Neatvi.Lemmas.C05f
