import NeatviVerif.Props.C05i
/-!
# C05j, part A: the line/register invariant of C05f at the level of the ex state, and the handlers that keep it

`EOk ed c` is `SOk` of C05f stated on the `Ed` record: the current buffer exists, its lines are well formed and
NUL-free, its undo history is consistent and NUL-free (`HistOk`, closed when `c`), no register holds a NUL.
-/
set_option linter.unusedSimpArgs false
set_option linter.unusedVariables false
namespace Neatvi.Lemmas.C05j
open Neatvi Neatvi.Uc Neatvi.Lbuf Neatvi.LbufIo Neatvi.Ex Neatvi.Mot Neatvi.Vi Neatvi.Rset
open Neatvi.Lemmas.C05f Neatvi.Lemmas.ExFrame
open Neatvi.Lemmas.C06 (AddrOnly region_all)

/-- C05f's `SOk` on the ex state -/
def EOk (ed : Ed) (c : Prop) : Prop := BufsOk ed.bufs c ∧ RegsOk ed.regs

theorem sok_iff (s : VS) (c : Prop) : SOk s c ↔ EOk s.ed c := Iff.rfl

theorem BufsOk.weaken' {bufs : List (Option Buf)} {c : Prop} (h : BufsOk bufs c) : BufsOk bufs False := by
  obtain ⟨b, h1, h2⟩ := h; exact ⟨b, h1, h2.weaken⟩

theorem EOk.weaken {ed : Ed} {c : Prop} (h : EOk ed c) : EOk ed False := ⟨BufsOk.weaken' h.1, h.2⟩

theorem EOk.of_eq {ed ed' : Ed} {c : Prop} (h : EOk ed c) (hb : ed'.bufs = ed.bufs) (hr : ed'.regs = ed.regs) :
    EOk ed' c := by unfold EOk; rw [hb, hr]; exact h

theorem EOk.addr {ed ed' : Ed} {c : Prop} (h : EOk ed c) (ha : AddrOnly ed ed') : EOk ed' c := by
  obtain ⟨_, _, _, rfl⟩ := ha; exact h

theorem EOk.lb {ed : Ed} {c : Prop} (h : EOk ed c) : ∃ lb, ed.lb = some lb ∧ HistOk lb c := h.1.lb ed rfl

theorem EOk.setLb {ed : Ed} {c c' : Prop} (h : EOk ed c) {lb : Lb} (hl : HistOk lb c') : EOk (ed.setLb lb) c' :=
  ⟨bufsOk_setLb h.1 hl, by rw [show (ed.setLb lb).regs = ed.regs by unfold Ed.setLb; split <;> rfl]; exact h.2⟩

theorem EOk.regs {ed : Ed} {c : Prop} (h : EOk ed c) {r : Regs} (hr : RegsOk r) : EOk { ed with regs := r } c := ⟨h.1, hr⟩

/-- `lbuf_edit` through the editor with an ordered range and a NUL-free text -/
theorem EOk.edit {ed ed' : Ed} {c : Prop} (h : EOk ed c) {txt : Option Bytes} {b e : Int} (hbe : b ≤ e)
    (ht : NoNulO txt) (he : ed.edit txt b e = some ed') : EOk ed' False := by
  obtain ⟨h0, _, lb, lb', hlb, hed, rfl, _⟩ := Ed_edit_some he
  obtain ⟨lb0, hl0, hh⟩ := h.lb
  rw [hlb] at hl0; cases hl0
  obtain ⟨lb2, e1, e2, _⟩ := hh.edit txt b.toNat e.toNat (by omega) ht
  rw [hed] at e1; cases e1
  exact h.setLb e2

theorem EOk.lines {ed : Ed} {c : Prop} (h : EOk ed c) (r : Int) (l : Bytes) (hl : ed.line r = some l) : LineOk l := by
  obtain ⟨lb, h1, h2⟩ := h.lb
  unfold Ed.line at hl
  split at hl
  · cases hl
  · rw [h1] at hl
    simp only [Option.bind_some] at hl
    exact h2.lines l (List.mem_of_getElem? hl)

theorem EOk.cp {ed : Ed} {c : Prop} (h : EOk ed c) (b e : Int) : NoNul (ed.cp b e) := by
  unfold Ed.cp
  obtain ⟨lb, h1, h2⟩ := h.lb
  rw [h1]
  unfold Lbuf.cp
  apply noNul_flatten
  intro x hx
  exact (h2.lines x (List.mem_of_mem_drop (List.mem_of_mem_take hx))).noNul

theorem EOk.regGet {ed : Ed} {c : Prop} (h : EOk ed c) (k : Nat) : NoNulO (regGet ed k) :=
  regsOk_regGet h.2 (fun l hl => (h.lines _ l hl).noNul) k

/-- the address evaluation changes the row and the remembered pattern only; an accepted range is ordered -/
theorem region_eok {ed ed' : Ed} {c : Prop} {loc : Bytes} {rc : Nat} {b e : Int} (h : EOk ed c)
    (hr : exRegion ed loc = some ((rc, b, e), ed')) :
    EOk ed' c ∧ (rc = 0 ∨ rc = 1) ∧ (rc = 0 → 0 ≤ b ∧ b ≤ e ∧ e ≤ ed'.len) ∧ (rc = 1 → b = 0 → e = 0 → ed'.len = 0) := by
  obtain ⟨ha, h1, h2, h3⟩ := region_all ed loc rc b e ed' hr
  exact ⟨h.addr ha, h1, fun h0 => ⟨(h2 h0).1, (h2 h0).2.1, (h2 h0).2.2.1⟩, h3⟩

/-! ### `:a :i :c` -/
theorem keeps_insert (f : Nat) {ed ed' : Ed} {c : Prop} (h : EOk ed c) (loc cmd arg : Bytes) (txt : Option Bytes)
    (ht : NoNulO txt) (r : Int) (hr : runCmd (f + 1) ed "ec_insert" loc cmd arg txt = some (r, ed')) : EOk ed' False := by
  rw [runCmd] at hr
  simp (config := {decide := true}) only [if_false, if_true] at hr
  split at hr
  · cases hr
  · rename_i rc b e ed1 hreg
    obtain ⟨h1, hrc, hin, _⟩ := region_eok h hreg
    split at hr
    · cases hr; exact h1.weaken
    · rename_i hc
      have hbe : 0 ≤ b ∧ b ≤ e := by
        rcases hrc with h0 | h1'
        · exact ⟨(hin h0).1, (hin h0).2.1⟩
        · subst h1'
          simp at hc
          omega
      split at hr
      · cases hr
      · rename_i ed2 he
        cases hr
        exact (h1.edit (by repeat' split <;> omega) ht he).of_eq rfl rfl


theorem foldl_inv {α β : Type} (P : β → Prop) (F : β → α → β) (hF : ∀ s a, P s → P (F s a)) :
    ∀ (l : List α) (s : β), P s → P (l.foldl F s) := by
  intro l
  induction l with
  | nil => intro s h; exact h
  | cons a l ih => intro s h; exact ih _ (hF s a h)

/-! ### `:p`, the empty command -/
theorem keeps_print (f : Nat) {ed ed' : Ed} {c : Prop} (h : EOk ed c) (loc cmd arg : Bytes) (txt : Option Bytes)
    (r : Int) (hr : runCmd (f + 1) ed "ec_print" loc cmd arg txt = some (r, ed')) : EOk ed' c := by
  rw [runCmd] at hr
  simp (config := {decide := true}) only [if_false, if_true] at hr
  split at hr
  · cases hr; exact h
  · split at hr
    · cases hr
    · rename_i rc b e ed1 hreg
      obtain ⟨h1, _⟩ := region_eok h hreg
      split at hr
      · cases hr; exact h1
      · cases hr
        have hf : EOk ((List.range (e - b).toNat).foldl (fun (ed : Ed) (k : Nat) =>
            match ed.line (b + (k : Int)) with | some l => ed.print l | none => ed) ed1) c := by
          refine foldl_inv (fun s : Ed => EOk s c) _ ?_ _ _ h1
          intro s a hs
          split
          · exact hs.of_eq rfl rfl
          · exact hs
        exact hf.of_eq rfl rfl

theorem keeps_null (f : Nat) {ed ed' : Ed} {c : Prop} (h : EOk ed c) (loc cmd arg : Bytes) (txt : Option Bytes)
    (r : Int) (hr : runCmd (f + 2) ed "ec_null" loc cmd arg txt = some (r, ed')) : EOk ed' c := by
  rw [runCmd] at hr
  simp (config := {decide := true}) only [if_false, if_true] at hr
  split at hr
  · exact keeps_print f (ed := { ed with xrow := if ed.xrow + 1 < ed.len then ed.xrow + 1 else ed.xrow })
      (h.of_eq rfl rfl) loc cmd arg txt r hr
  · split at hr
    · cases hr
    · rename_i rc b e ed1 hreg
      obtain ⟨h1, _⟩ := region_eok h hreg
      split at hr
      · cases hr; exact h1
      · cases hr; exact h1.of_eq rfl rfl

/-! ### `:d :y` -/
theorem keeps_delete (f : Nat) {ed ed' : Ed} {c : Prop} (h : EOk ed c) (loc cmd arg : Bytes) (txt : Option Bytes)
    (r : Int) (hr : runCmd (f + 1) ed "ec_delete" loc cmd arg txt = some (r, ed')) : EOk ed' False := by
  rw [runCmd] at hr
  simp (config := {decide := true}) only [if_false, if_true] at hr
  split at hr
  · cases hr
  · rename_i rc b e ed1 hreg
    obtain ⟨h1, hrc, hin, _⟩ := region_eok h hreg
    split at hr
    · cases hr; exact h1.weaken
    · rename_i hc
      have h0 : rc = 0 := by
        rcases hrc with h0 | h1'
        · exact h0
        · subst h1'; simp at hc
      split at hr
      · cases hr
      · rename_i ed2 he
        cases hr
        have h2 : EOk { ed1 with regs := ed1.regs.put (regName arg) (ed1.cp b e) 1 } c :=
          h1.regs (regsOk_put h1.2 _ (h1.cp b e) _)
        exact (h2.edit (hin h0).2.1 noNulO_none he).of_eq rfl rfl

theorem keeps_yank (f : Nat) {ed ed' : Ed} {c : Prop} (h : EOk ed c) (loc cmd arg : Bytes) (txt : Option Bytes)
    (r : Int) (hr : runCmd (f + 1) ed "ec_yank" loc cmd arg txt = some (r, ed')) : EOk ed' c := by
  rw [runCmd] at hr
  simp (config := {decide := true}) only [if_false, if_true] at hr
  split at hr
  · cases hr
  · rename_i rc b e ed1 hreg
    obtain ⟨h1, _⟩ := region_eok h hreg
    split at hr
    · cases hr; exact h1
    · cases hr
      exact h1.regs (regsOk_put h1.2 _ (h1.cp b e) _)

/-! ### `:pu` -/
theorem keeps_put (f : Nat) {ed ed' : Ed} {c : Prop} (h : EOk ed c) (loc cmd arg : Bytes) (txt : Option Bytes)
    (r : Int) (hr : runCmd (f + 1) ed "ec_put" loc cmd arg txt = some (r, ed')) : EOk ed' False := by
  rw [runCmd] at hr
  simp (config := {decide := true}) only [if_false, if_true] at hr
  split at hr
  · cases hr; exact h.weaken
  · rename_i buf hbuf
    have hb : NoNul buf := h.regGet _ buf hbuf
    split at hr
    · cases hr
    · rename_i rc b e ed1 hreg
      obtain ⟨h1, _⟩ := region_eok h hreg
      split at hr
      · cases hr; exact h1.weaken
      · split at hr
        · cases hr
        · rename_i ed2 he
          cases hr
          exact (h1.edit (Int.le_refl _) (noNulO_some.mpr hb) he).of_eq rfl rfl

/-! ### `:=` -/
theorem keeps_lnum (f : Nat) {ed ed' : Ed} {c : Prop} (h : EOk ed c) (loc cmd arg : Bytes) (txt : Option Bytes)
    (r : Int) (hr : runCmd (f + 1) ed "ec_lnum" loc cmd arg txt = some (r, ed')) : EOk ed' c := by
  rw [runCmd] at hr
  simp (config := {decide := true}) only [if_false, if_true] at hr
  split at hr
  · cases hr
  · rename_i rc b e ed1 hreg
    obtain ⟨h1, _⟩ := region_eok h hreg
    split at hr
    · cases hr; exact h1
    · cases hr; exact h1.of_eq rfl rfl

/-! ### `:u :redo` — at a command boundary (`c = True`: `lbuf_modified` has run since the last edit) -/
theorem keeps_undo (f : Nat) {ed ed' : Ed} (h : EOk ed True) (loc cmd arg : Bytes) (txt : Option Bytes)
    (r : Int) (hr : runCmd (f + 1) ed "ec_undo" loc cmd arg txt = some (r, ed')) : EOk ed' True := by
  rw [runCmd] at hr
  simp (config := {decide := true}) only [if_false, if_true] at hr
  obtain ⟨lb, hl, hh⟩ := h.lb
  obtain ⟨rc, lb', hu, h2⟩ := hh.undo
  rw [hl] at hr
  simp only [Option.bind_some, hu] at hr
  cases hr
  exact h.setLb h2

theorem keeps_redo (f : Nat) {ed ed' : Ed} (h : EOk ed True) (loc cmd arg : Bytes) (txt : Option Bytes)
    (r : Int) (hr : runCmd (f + 1) ed "ec_redo" loc cmd arg txt = some (r, ed')) : EOk ed' True := by
  rw [runCmd] at hr
  simp (config := {decide := true}) only [if_false, if_true] at hr
  obtain ⟨lb, hl, hh⟩ := h.lb
  obtain ⟨rc, lb', hu, h2⟩ := hh.redo
  rw [hl] at hr
  simp only [Option.bind_some, hu] at hr
  cases hr
  exact h.setLb h2

/-! ### `:k` -/
theorem keeps_mark (f : Nat) {ed ed' : Ed} {c : Prop} (h : EOk ed c) (loc cmd arg : Bytes) (txt : Option Bytes)
    (r : Int) (hr : runCmd (f + 1) ed "ec_mark" loc cmd arg txt = some (r, ed')) : EOk ed' c := by
  rw [runCmd] at hr
  simp (config := {decide := true}) only [if_false, if_true] at hr
  split at hr
  · cases hr
  · rename_i rc b e ed1 hreg
    obtain ⟨h1, _⟩ := region_eok h hreg
    split at hr
    · cases hr; exact h1
    · obtain ⟨lb, hl, hh⟩ := h1.lb
      rw [hl] at hr
      cases hr
      exact h1.setLb (hh.setMark _ _ _)

/-! ### `:rs :se :ec` and the names outside the model -/
theorem keeps_rs (f : Nat) {ed ed' : Ed} {c : Prop} (h : EOk ed c) (loc cmd arg : Bytes) (txt : Option Bytes)
    (ht : NoNulO txt) (r : Int) (hr : runCmd (f + 1) ed "ec_rs" loc cmd arg txt = some (r, ed')) : EOk ed' c := by
  rw [runCmd] at hr
  simp (config := {decide := true}) only [if_false, if_true] at hr
  cases hr
  refine h.regs (regsOk_put h.2 _ ?_ _)
  cases txt with
  | none => exact noNul_nil
  | some x => exact ht x rfl

theorem setOpt_regs (ed : Ed) (v : String) (x : Int) : (setOpt ed v x).regs = ed.regs := by
  unfold setOpt
  repeat' split
  all_goals rfl

theorem keeps_set (f : Nat) {ed ed' : Ed} {c : Prop} (h : EOk ed c) (loc cmd arg : Bytes) (txt : Option Bytes)
    (r : Int) (hr : runCmd (f + 1) ed "ec_set" loc cmd arg txt = some (r, ed')) : EOk ed' c := by
  rw [runCmd] at hr
  simp (config := {decide := true}) only [if_false, if_true] at hr
  split at hr
  · cases hr; exact h
  · split at hr
    · cases hr; exact h.of_eq (Lemmas.C05e.setOpt_bufs _ _ _) (setOpt_regs _ _ _)
    · cases hr; exact h.of_eq rfl rfl

theorem keeps_echo (f : Nat) {ed ed' : Ed} {c : Prop} (h : EOk ed c) (loc cmd arg : Bytes) (txt : Option Bytes)
    (r : Int) (hr : runCmd (f + 1) ed "ec_echo" loc cmd arg txt = some (r, ed')) : EOk ed' c := by
  rw [runCmd] at hr
  simp (config := {decide := true}) only [if_false, if_true] at hr
  cases hr
  exact h.of_eq rfl rfl

theorem keeps_other (f : Nat) {ed ed' : Ed} {c : Prop} (h : EOk ed c) (hd : String) (hn : hd ∉ Lemmas.C05e.modelled)
    (loc cmd arg : Bytes) (txt : Option Bytes)
    (r : Int) (hr : runCmd (f + 1) ed hd loc cmd arg txt = some (r, ed')) : EOk ed' c := by
  rw [Lemmas.C05e.run_other f ed hd hn loc cmd arg txt] at hr
  cases hr
  exact h.of_eq rfl rfl

end Neatvi.Lemmas.C05j
