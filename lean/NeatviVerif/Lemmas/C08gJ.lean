import NeatviVerif.Lemmas.C08gI
/-!
# C08g: `p`, `P`, `J`, `r c` from the keys, through the dispatcher
-/
set_option linter.unusedSimpArgs false
set_option linter.unusedVariables false
namespace Neatvi.Lemmas.C08g
open Neatvi Neatvi.Uc Neatvi.Vi Neatvi.Ex Neatvi.Lbuf Neatvi.Mot Neatvi.Spec
open Neatvi.Lemmas.C08 Neatvi.Lemmas.C08b Neatvi.Lemmas.C08f
open Neatvi.Lemmas.C09 (finRec pending)
open Neatvi.Props.C07c (Utf8Buf refBufU)
open Neatvi.Props.C08f

/-- the queue side after a one-key command that reads nothing further -/
theorem keysDone_one {ks : Bytes} {s sm s' : VS} (h1 : KeysMark ks s sm) (hv : s.vibuf = [])
    (h3 : s' = { sm with ed := s'.ed }) : KeysDone ks s s' := by
  refine ⟨?_, ?_, ?_, ?_⟩
  · rw [h3]; show sm.vibuf = []; rw [h1.vibuf]; exact hv
  · rw [h3]; exact h1.icmd
  · rw [h3]; exact h1.arg1
  · rw [h3]; exact h1.ybuf

/-- `p` / `P`: the dispatcher runs `vc_put` in the state `sm` -/
theorem keys_put (c : Nat) (hc : c = 112 ∨ c = 80) (s s1 : VS) (hr : viRead s = Res.ok (c : Int) s1) :
    ∃ sm, KeysMark [] s1 sm ∧ pending sm = pending s1 ∧
      ∀ m s', vcPut c sm = Res.ok m s' → commandTail s = finRec (c : Int) 0 m s' := by
  obtain ⟨sm, h2, h3, h4, h5⟩ := read_mark s1
  refine ⟨sm, h3, h5, ?_⟩
  intro m s' hm
  rw [commandTail_put (c : Int) (by omega) s s1 hr]
  simp only [bind_apply, h2, Int.toNat_natCast, hm]

/-- `J`: the dispatcher runs `vc_join` in the state `sm` -/
theorem keys_join (s s1 : VS) (hr : viRead s = Res.ok 74 s1) :
    ∃ sm, KeysMark [] s1 sm ∧ pending sm = pending s1 ∧
      ∀ m s', vcJoin sm = Res.ok m s' → commandTail s = finRec 74 0 m s' := by
  obtain ⟨sm, h2, h3, h4, h5⟩ := read_mark s1
  refine ⟨sm, h3, h5, ?_⟩
  intro m s' hm
  rw [commandTail_J_ s s1 hr]
  simp only [bind_apply, h2, hm]

/-- `r`: the dispatcher runs `vc_replace` in the state `sm` -/
theorem keys_replace (s s1 : VS) (hr : viRead s = Res.ok 114 s1) :
    ∃ sm, KeysMark [] s1 sm ∧ pending sm = pending s1 ∧
      ∀ m s', vcReplace sm = Res.ok m s' → commandTail s = finRec 114 0 m s' := by
  obtain ⟨sm, h2, h3, h4, h5⟩ := read_mark s1
  refine ⟨sm, h3, h5, ?_⟩
  intro m s' hm
  rw [commandTail_r s s1 hr]
  simp only [bind_apply, h2, hm]

/-! ### `p`, `P` -/

theorem PutChars.base {ks : Bytes} {s s0 s' : VS} {body ins : List Nat} {p : Nat}
    (h : PutChars s0 s' s0.ed.xrow body ins p) (hk : KeysMark ks s s0) : PutChars s s' s.ed.xrow body ins p := by
  obtain ⟨a1, a2, a3, a4⟩ := h
  refine ⟨?_, ?_, ?_, a4⟩
  · rw [a1, hk.lines, hk.xrow]
  · rw [a2, hk.regs]
  · rw [a3, hk.xrow]

theorem PutLines.base {ks : Bytes} {s s0 s' : VS} {r : Int} {new : List Bytes}
    (h : PutLines s0 s' r new) (hk : KeysMark ks s s0) : PutLines s s' r new := by
  obtain ⟨a1, a2, a3, a4⟩ := h
  refine ⟨?_, ?_, a3, a4⟩
  · rw [a1, hk.lines]
  · rw [a2, hk.regs]

/-- **the key `p` with a character-wise register** (the unnamed one, or `"a`..`"z`, `"1`..`"9` … as chosen by the
prefix: `s1.ybuf`) holding the text `bs`: `max 1 count` copies go in after the cursor character, the cursor ends on
the last inserted character -/
theorem p_chars_keys (s s1 : VS) (body bs : List Nat) (o : Nat) (hr : viRead s = Res.ok 112 s1) (hv : s1.vibuf = [])
    (hrow : OnRow s1 body o)
    (hreg : regGetLn s1.ed s1.ybuf = (some (encStr bs), some 0)) (hbs : ∀ c ∈ bs, ValidCp c) (hbs10 : 10 ∉ bs) (hne : bs ≠ []) :
    ∃ s', commandTail s = finRec 112 0 VC_OK s' ∧ pending s' = pending s1 ∧ KeysDone [] s1 s' ∧
      PutChars s1 s' s1.ed.xrow body (copies (cnt1 s1) bs) (o + 1) := by
  obtain ⟨sm, hk0, hpend, hfin⟩ := keys_put 112 (by simp) s s1 hr
  obtain ⟨s', e1, e2, e3⟩ := vcPut_chars_p sm body bs o (hk0.onRow hrow) (by rw [hk0.regGetLn, hk0.ybuf]; exact hreg) hbs hbs10 hne
  rw [hk0.cnt1] at e2
  exact ⟨s', hfin _ _ e1, by rw [e3]; exact hpend, keysDone_one hk0 hv e3, e2.base hk0⟩

/-- **the key `P` with a character-wise register**: the copies go in before the cursor character -/
theorem P_chars_keys (s s1 : VS) (body bs : List Nat) (o : Nat) (hr : viRead s = Res.ok 80 s1) (hv : s1.vibuf = [])
    (hrow : OnRow s1 body o)
    (hreg : regGetLn s1.ed s1.ybuf = (some (encStr bs), some 0)) (hbs : ∀ c ∈ bs, ValidCp c) (hbs10 : 10 ∉ bs) (hne : bs ≠ []) :
    ∃ s', commandTail s = finRec 80 0 VC_OK s' ∧ pending s' = pending s1 ∧ KeysDone [] s1 s' ∧
      PutChars s1 s' s1.ed.xrow body (copies (cnt1 s1) bs) o := by
  obtain ⟨sm, hk0, hpend, hfin⟩ := keys_put 80 (by simp) s s1 hr
  obtain ⟨s', e1, e2, e3⟩ := vcPut_chars_P sm body bs o (hk0.onRow hrow) (by rw [hk0.regGetLn, hk0.ybuf]; exact hreg) hbs hbs10 hne
  rw [hk0.cnt1] at e2
  exact ⟨s', hfin _ _ e1, by rw [e3]; exact hpend, keysDone_one hk0 hv e3, e2.base hk0⟩

/-- **the key `p` with a line-wise register** holding the lines `rows`: `max 1 count` copies of them are inserted
below the cursor row, the cursor moves onto the first non-blank of the first of them -/
theorem p_lines_keys (s s1 : VS) (rows : List Bytes) (lnm : Nat) (hr : viRead s = Res.ok 112 s1) (hv : s1.vibuf = [])
    (hreg : regGetLn s1.ed s1.ybuf = (some rows.flatten, some lnm)) (hl : lnm ≠ 0)
    (hrows : ∀ l ∈ rows, Props.C01.WfLine l) (hne : rows ≠ []) (h0 : 0 ≤ s1.ed.xrow) (h1 : s1.ed.xrow < lenOf s1) :
    ∃ s', commandTail s = finRec 112 0 VC_OK s' ∧ pending s' = pending s1 ∧ KeysDone [] s1 s' ∧
      PutLines s1 s' (s1.ed.xrow + 1) (copies (cnt1 s1) rows) := by
  obtain ⟨sm, hk0, hpend, hfin⟩ := keys_put 112 (by simp) s s1 hr
  have hlt : sm.ed.xrow.toNat < (lines sm).length := by
    have := hk0.lenOf; unfold Vi.lenOf at this h1; rw [hk0.xrow]; rw [hk0.lines]; omega
  obtain ⟨lb, hlb⟩ := lb_of_line sm sm.ed.xrow.toNat _ (List.getElem?_eq_getElem hlt)
  obtain ⟨s', e1, e2, e3⟩ := vcPut_lines_p sm rows lnm lb hlb (by rw [hk0.regGetLn, hk0.ybuf]; exact hreg) hl hrows hne
    (by rw [hk0.xrow]; exact h0) (by rw [hk0.xrow, hk0.lenOf]; exact h1)
  rw [hk0.cnt1, hk0.xrow] at e2
  exact ⟨s', hfin _ _ e1, by rw [e3]; exact hpend, keysDone_one hk0 hv e3, e2.base hk0⟩

/-- **the key `P` with a line-wise register**: the copies are inserted above the cursor row; the cursor keeps its
row number (now the first inserted line), on the first non-blank -/
theorem P_lines_keys (s s1 : VS) (rows : List Bytes) (lnm : Nat) (hr : viRead s = Res.ok 80 s1) (hv : s1.vibuf = [])
    (hreg : regGetLn s1.ed s1.ybuf = (some rows.flatten, some lnm)) (hl : lnm ≠ 0)
    (hrows : ∀ l ∈ rows, Props.C01.WfLine l) (hne : rows ≠ []) (h0 : 0 ≤ s1.ed.xrow) (h1 : s1.ed.xrow < lenOf s1) :
    ∃ s', commandTail s = finRec 80 0 VC_OK s' ∧ pending s' = pending s1 ∧ KeysDone [] s1 s' ∧
      PutLines s1 s' s1.ed.xrow (copies (cnt1 s1) rows) := by
  obtain ⟨sm, hk0, hpend, hfin⟩ := keys_put 80 (by simp) s s1 hr
  have hlt : sm.ed.xrow.toNat < (lines sm).length := by
    have := hk0.lenOf; unfold Vi.lenOf at this h1; rw [hk0.xrow]; rw [hk0.lines]; omega
  obtain ⟨lb, hlb⟩ := lb_of_line sm sm.ed.xrow.toNat _ (List.getElem?_eq_getElem hlt)
  obtain ⟨s', e1, e2, e3⟩ := vcPut_lines_P sm rows lnm lb hlb (by rw [hk0.regGetLn, hk0.ybuf]; exact hreg) hl hrows hne
    (by rw [hk0.lenOf]; omega) (by rw [hk0.xrow]; exact h0) (by rw [hk0.xrow, hk0.lenOf]; omega)
  rw [hk0.cnt1, hk0.xrow] at e2
  exact ⟨s', hfin _ _ e1, by rw [e3]; exact hpend, keysDone_one hk0 hv e3, e2.base hk0⟩

/-! ### which register the put reads -/

/-- a plain register name `c` (the unnamed register 0 or `"`, a lower-case letter, a digit …: not upper-case, not
the computed `;` `#` `^`): `reg_get` returns what the table holds -/
theorem regGetLn_plain (ed : Ed) (c : Nat) (h59 : c ≠ 59) (h35 : c ≠ 35) (h94 : c ≠ 94) (h34 : c ≠ 34) :
    regGetLn ed c = ((ed.regs.getRaw c).1, some (ed.regs.getRaw c).2) := by
  have e0 : (c == 34) = false := by simpa using h34
  have e1 : (c == 59) = false := by simpa using h59
  have e2 : (c == 35) = false := by simpa using h35
  have e3 : (c == 94) = false := by simpa using h94
  unfold Vi.regGetLn regGet
  simp only [e0, e1, e2, e3, Bool.false_eq_true, if_false, Bool.or_self]


/-- any register name but the computed `;` `#` `^`: `reg_get` returns what the table holds under `regTarget c` (the name
itself; the unnamed register for `"`) -/
theorem regGetLn_name (ed : Ed) (c : Nat) (h59 : c ≠ 59) (h35 : c ≠ 35) (h94 : c ≠ 94) :
    regGetLn ed c = ((ed.regs.getRaw (regTarget c)).1, some (ed.regs.getRaw (regTarget c)).2) := by
  have hT : (if c == 34 then 0 else c) = regTarget c := rfl
  have e1 : (regTarget c == 59) = false := by unfold regTarget; split <;> simp [h59]
  have e2 : (regTarget c == 35) = false := by unfold regTarget; split <;> simp [h35]
  have e3 : (regTarget c == 94) = false := by unfold regTarget; split <;> simp [h94]
  unfold Vi.regGetLn regGet
  simp only [hT, e1, e2, e3, Bool.false_eq_true, if_false, Bool.or_self]

/-- **`p` / `P` with a named or numbered register** (`"ap`, `"1P` …: `s1.ybuf` is the name read by `viPre`; 0 without a
prefix) that holds the characters `bs` in character mode: `max 1 count` copies go in after (`p`) / before (`P`) the
cursor character -/
theorem put_chars_reg_keys (c : Nat) (hc : c = 112 ∨ c = 80) (s s1 : VS) (body bs : List Nat) (o : Nat)
    (hr : viRead s = Res.ok (c : Int) s1) (hv : s1.vibuf = []) (hrow : OnRow s1 body o)
    (hname : s1.ybuf ≠ 59 ∧ s1.ybuf ≠ 35 ∧ s1.ybuf ≠ 94)
    (hreg : s1.ed.regs.getRaw (regTarget s1.ybuf) = (some (encStr bs), 0))
    (hbs : ∀ c ∈ bs, ValidCp c) (hbs10 : 10 ∉ bs) (hne : bs ≠ []) :
    ∃ s', commandTail s = finRec (c : Int) 0 VC_OK s' ∧ pending s' = pending s1 ∧ KeysDone [] s1 s' ∧
      PutChars s1 s' s1.ed.xrow body (copies (cnt1 s1) bs) (o + if c = 112 then 1 else 0) := by
  have hg : regGetLn s1.ed s1.ybuf = (some (encStr bs), some 0) := by
    rw [regGetLn_name _ _ hname.1 hname.2.1 hname.2.2, hreg]
  rcases hc with rfl | rfl
  · exact p_chars_keys s s1 body bs o hr hv hrow hg hbs hbs10 hne
  · exact P_chars_keys s s1 body bs o hr hv hrow hg hbs hbs10 hne

/-- **`p` / `P` with a named or numbered register** that holds the lines `rows` in line mode (as after `"ayy`, or `"1`
after a `dd`): `max 1 count` copies of them are inserted below (`p`) / above (`P`) the cursor row -/
theorem put_lines_reg_keys (c : Nat) (hc : c = 112 ∨ c = 80) (s s1 : VS) (rows : List Bytes) (lnm : Nat)
    (hr : viRead s = Res.ok (c : Int) s1) (hv : s1.vibuf = [])
    (hname : s1.ybuf ≠ 59 ∧ s1.ybuf ≠ 35 ∧ s1.ybuf ≠ 94)
    (hreg : s1.ed.regs.getRaw (regTarget s1.ybuf) = (some rows.flatten, lnm)) (hl : lnm ≠ 0)
    (hrows : ∀ l ∈ rows, Props.C01.WfLine l) (hne : rows ≠ []) (h0 : 0 ≤ s1.ed.xrow) (h1 : s1.ed.xrow < lenOf s1) :
    ∃ s', commandTail s = finRec (c : Int) 0 VC_OK s' ∧ pending s' = pending s1 ∧ KeysDone [] s1 s' ∧
      PutLines s1 s' (s1.ed.xrow + if c = 112 then 1 else 0) (copies (cnt1 s1) rows) := by
  have hg : regGetLn s1.ed s1.ybuf = (some rows.flatten, some lnm) := by
    rw [regGetLn_name _ _ hname.1 hname.2.1 hname.2.2, hreg]
  rcases hc with rfl | rfl
  · exact p_lines_keys s s1 rows lnm hr hv hg hl hrows hne h0 h1
  · have := P_lines_keys s s1 rows lnm hr hv hg hl hrows hne h0 h1
    simpa using this

/-! ### `J` -/

/-- `Joined s s' a ws`: the cursor row `a` and the rows `ws` below it became the one row `joinRows a ws` (C08b: each
further row is appended without its leading blanks, after the spaces `join_spaces` asks for); the cursor is where the
last joined row starts -/
structure Joined (s s' : VS) (a : Bytes) (ws : List Bytes) : Prop where
  lines : lines s' = (lines s).take s.ed.xrow.toNat ++ [joinRows a ws ++ [10]] ++ (lines s).drop (s.ed.xrow.toNat + (ws.length + 1))
  regs : s'.ed.regs = s.ed.regs
  xrow : s'.ed.xrow = s.ed.xrow
  xoff : s'.ed.xoff = joinOff a ws 0

/-- **the key `J`** (`[count]J`): `max 2 count` rows — the cursor row `a` and the `|ws|` rows below it, which must
exist — are joined -/
theorem J_keys (s s1 : VS) (a : Bytes) (ws : List Bytes) (hr : viRead s = Res.ok 74 s1) (hv : s1.vibuf = [])
    (hr0 : 0 ≤ s1.ed.xrow)
    (hcnt : (if s1.arg1 ≤ 1 then 2 else s1.arg1) = ((ws.length + 1 : Nat) : Int))
    (hrows : ((lines s1).drop s1.ed.xrow.toNat).take (ws.length + 1) = (a :: ws).map (· ++ [10]))
    (h10 : ∀ w ∈ a :: ws, 10 ∉ w) :
    ∃ s', commandTail s = finRec 74 0 VC_OK s' ∧ pending s' = pending s1 ∧ KeysDone [] s1 s' ∧ Joined s1 s' a ws := by
  obtain ⟨sm, hk0, hpend, hfin⟩ := keys_join s s1 hr
  obtain ⟨s', e1, e2, e3, e4, e5, e6⟩ := Props.C08b.vcJoin_count_spec sm a ws (by rw [hk0.xrow]; exact hr0)
    (by rw [hk0.arg1]; exact hcnt) (by rw [hk0.lines, hk0.xrow]; exact hrows) h10
  refine ⟨s', hfin _ _ e1, by rw [e6]; exact hpend, keysDone_one hk0 hv e6, ?_, ?_, ?_, e3⟩
  · rw [e2, hk0.lines, hk0.xrow]
  · rw [e5, hk0.regs]
  · rw [e4, hk0.xrow]

/-- too few rows below the cursor: `J` changes nothing and reports failure -/
theorem J_keys_short (s s1 : VS) (hr : viRead s = Res.ok 74 s1) (hv : s1.vibuf = [])
    (h : lineOf s1 (s1.ed.xrow + (if s1.arg1 ≤ 1 then 2 else s1.arg1) - 1) = none) :
    ∃ s', commandTail s = finRec 74 0 0 s' ∧ pending s' = pending s1 ∧ KeysDone [] s1 s' ∧ lines s' = lines s1 ∧
      s'.ed.xrow = s1.ed.xrow ∧ s'.ed.xoff = s1.ed.xoff ∧ s'.ed.regs = s1.ed.regs := by
  obtain ⟨sm, hk0, hpend, hfin⟩ := keys_join s s1 hr
  have hl : lineOf sm (sm.ed.xrow + (if sm.arg1 ≤ 1 then 2 else sm.arg1) - 1) = none := by
    unfold lineOf; rw [hk0.lines, hk0.xrow, hk0.arg1]; exact h
  have := Props.C08b.vcJoin_short sm (Or.inr hl)
  exact ⟨sm, hfin _ _ this, hpend, keysDone_one hk0 hv rfl, hk0.lines, hk0.xrow, hk0.xoff, hk0.regs⟩

/-! ### `r c` -/

/-- `RowReplaced s s' body o n c`: the `n` characters `[o, o + n)` of the cursor row were replaced by `n` copies of
`c`; the cursor is on the last of them -/
structure RowReplaced (s s' : VS) (body : List Nat) (o n c : Nat) : Prop where
  lines : lines s' = (lines s).take s.ed.xrow.toNat ++
    [encStr (body.take o ++ List.replicate n c ++ (body.drop (o + n) ++ [10]))] ++ (lines s).drop (s.ed.xrow.toNat + 1)
  regs : s'.ed.regs = s.ed.regs
  xrow : s'.ed.xrow = s.ed.xrow
  xoff : s'.ed.xoff = (o : Int) + n - 1

theorem keysDone_read {ks : Bytes} {E : Bytes} {s sm s' : VS} (h1 : KeysMark ks s sm) (hv : s.vibuf = [])
    (h3 : ReadsEd E sm s') : KeysDone (ks ++ E) s s' := by
  obtain ⟨ib', ip', ty', e⟩ := h3
  refine ⟨?_, ?_, ?_, ?_⟩
  · rw [e]; show sm.vibuf = []; rw [h1.vibuf]; exact hv
  · rw [e]; show icmdAfterL sm.icmd E = _
    rw [h1.icmd, icmdAfterL_append]
  · rw [e]; exact h1.arg1
  · rw [e]; exact h1.ybuf

/-- **the keys `r c`** (`[count]r c`; `c` a typable character sent as its UTF-8 bytes), `n = max 1 count`: when `n`
characters remain from the cursor on they are replaced by `n` copies of `c`; otherwise nothing changes and the
command reports failure -/
theorem r_keys (s s1 : VS) (body : List Nat) (c o : Nat) (rest : Bytes) (hr : viRead s = Res.ok 114 s1) (hv : s1.vibuf = [])
    (hp : pending s1 = enc c ++ rest) (hrow : OnRow s1 body o) (hc : ValidCp c ∧ 32 ≤ c ∧ c ≠ 127) (hkm : s1.xkmap = 0) :
    (o + cnt1 s1 ≤ body.length →
      ∃ s', commandTail s = finRec 114 0 VC_OK s' ∧ pending s' = rest ∧ KeysDone (enc c) s1 s' ∧
        RowReplaced s1 s' body o (cnt1 s1) c) ∧
    (body.length < o + cnt1 s1 →
      ∃ s', commandTail s = finRec 114 0 0 s' ∧ pending s' = rest ∧ KeysDone (enc c) s1 s' ∧ lines s' = lines s1 ∧
        s'.ed.xrow = s1.ed.xrow ∧ s'.ed.xoff = s1.ed.xoff ∧ s'.ed.regs = s1.ed.regs) := by
  obtain ⟨sm, hk0, hpend, hfin⟩ := keys_replace s s1 hr
  have hrow0 := hk0.onRow hrow
  obtain ⟨g1, g2⟩ := Props.C08b.vcReplace_spec sm body c o rest hrow0.row0 hrow0.line hrow0.valid hrow0.no10 hrow0.off
    hrow0.onChar hc (by rw [hpend]; exact hp) (by rw [hk0.xkmap]; exact hkm)
  have hcn : (max 1 sm.arg1).toNat = cnt1 s1 := by rw [hk0.arg1]; rfl
  rw [hcn] at g1 g2
  constructor
  · intro hle
    obtain ⟨s', e1, e2, e3⟩ := g1 hle
    refine ⟨s', hfin _ _ e1, e2, keysDone_read hk0 hv e3.frame, ?_, ?_, ?_, ?_⟩
    · rw [e3.lines, hk0.lines, hk0.xrow]
    · rw [e3.regs, hk0.regs]
    · rw [e3.xrow, hk0.xrow]
    · rw [e3.xoff]
  · intro hlt
    obtain ⟨s', e1, e2, e3⟩ := g2 hlt
    obtain ⟨a1, a2, a3, a4, a5⟩ := reads_false_frame e3
    refine ⟨s', hfin _ _ e1, e2, keysDone_read hk0 hv e3.readsEd, ?_, ?_, ?_, ?_⟩
    · unfold Vi.lines; rw [a1]; exact hk0.lines
    · rw [a1, hk0.xrow]
    · rw [a1, hk0.xoff]
    · rw [a1, hk0.regs]

end Neatvi.Lemmas.C08g
