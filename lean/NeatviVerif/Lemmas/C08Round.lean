import NeatviVerif.Lemmas.C08Vi
/-!
# C08: list facts behind "a put restores what the delete removed"
-/
namespace Neatvi.Lemmas.C08
open Neatvi Neatvi.Uc Neatvi.Vi Neatvi.Ex Neatvi.Lbuf Neatvi.Spec

/-- re-inserting the removed slice at the cut restores the list -/
theorem splice_restore {α : Type} (L : List α) (a n : Nat) (ha : a ≤ L.length) :
    (L.take a ++ L.drop (a + n)).take a ++ (L.drop a).take n ++ (L.take a ++ L.drop (a + n)).drop a = L := by
  have hl : (L.take a).length = a := by simp; omega
  have e1 : (L.take a ++ L.drop (a + n)).take a = L.take a := by
    rw [List.take_append_of_le_length (by omega)]
    exact List.take_of_length_le (by omega)
  have e2 : (L.take a ++ L.drop (a + n)).drop a = L.drop (a + n) := by
    rw [List.drop_append_of_le_length (by omega)]
    rw [List.drop_of_length_le (l := L.take a) (by omega), List.nil_append]
  rw [e1, e2]
  rw [show L.drop (a + n) = (L.drop a).drop n by rw [List.drop_drop]]
  rw [List.append_assoc, List.take_append_drop, List.take_append_drop]

/-- putting back the element a slice of length one was replaced by -/
theorem splice_restore_one {α : Type} (L : List α) (a : Nat) (x y : α) (hx : L[a]? = some x) :
    (L.take a ++ [y] ++ L.drop (a + 1)).take a ++ [x] ++ (L.take a ++ [y] ++ L.drop (a + 1)).drop (a + 1) = L := by
  have ha : a < L.length := (List.getElem?_eq_some_iff.mp hx).1
  have hl : (L.take a).length = a := by simp; omega
  have e1 : (L.take a ++ [y] ++ L.drop (a + 1)).take a = L.take a := by
    rw [List.append_assoc, List.take_append_of_le_length (by omega)]
    exact List.take_of_length_le (by omega)
  have hl2 : (L.take a ++ [y]).length = a + 1 := by rw [List.length_append, hl]; rfl
  have e2 : (L.take a ++ [y] ++ L.drop (a + 1)).drop (a + 1) = L.drop (a + 1) := by
    rw [List.drop_append_of_le_length (by omega)]
    rw [List.drop_of_length_le (l := L.take a ++ [y]) (by omega), List.nil_append]
  rw [e1, e2]
  have e3 : L.drop a = x :: L.drop (a + 1) := by
    rw [List.drop_eq_getElem?_toList_append, hx]; rfl
  conv => rhs; rw [← List.take_append_drop a L, e3]
  simp

theorem flatten_ne_nil_of_wf (mid : List Bytes) (hne : mid ≠ []) (h : ∀ l ∈ mid, Props.C01.WfLine l) :
    mid.flatten ≠ [] := by
  cases mid with
  | nil => exact absurd rfl hne
  | cons x r =>
    obtain ⟨w, rfl, _⟩ := h x (by simp)
    simp

theorem putRep_one (s : VS) (t : Bytes) (h : s.arg1 ≤ 1) : putRep s t = t := by
  unfold putRep
  rw [show (max 1 s.arg1).toNat = 1 by omega]
  simp

theorem lenOf_lines (s : VS) : lenOf s = ((Vi.lines s).length : Int) := rfl

/-! ### valid UTF-8 lines -/

theorem drop_byteOff (cs : List Nat) (k : Nat) : (encStr cs).drop (byteOff cs k) = encStr (cs.drop k) := by
  unfold byteOff
  conv => lhs; rw [← List.take_append_drop k cs, encStr_append]
  simp

theorem hd_enc_ne_ten {c : Nat} (h : c ≠ 10) (r : Bytes) : Bytes.hd (enc c ++ r) ≠ 10 := by
  intro h10
  cases he : enc c with
  | nil => exact enc_ne_nil c he
  | cons x t =>
    rw [he] at h10
    simp at h10
    exact h (ten_mem_enc (by rw [he, h10]; simp))

/-- the cursor offset is kept by `ren_noeol` when it points at a character other than the newline -/
theorem renNoeol_keep {cs : List Nat} (h : ∀ c ∈ cs, ValidCp c) (o : Nat) (c : Nat) (hc : cs[o]? = some c)
    (h10 : c ≠ 10) : Ren.renNoeol (encStr cs) (o : Int) = o := by
  have ho : o < cs.length := (List.getElem?_eq_some_iff.mp hc).1
  have hch : Ren.chrHd (encStr cs) o ≠ 10 := by
    unfold Ren.chrHd
    rw [Props.C16.chr_spec h, if_pos (by omega)]
    simp only []
    rw [drop_byteOff]
    have : cs.drop o = c :: cs.drop (o + 1) := by
      rw [List.drop_eq_getElem?_toList_append, hc]; rfl
    rw [this, encStr_cons]
    exact hd_enc_ne_ten h10 _
  unfold Ren.renNoeol
  simp only [Props.C16.slen_spec h]
  have e : (if (o : Int) ≥ (cs.length : Int) then max 0 ((cs.length : Int) - 1) else (o : Int)) = (o : Int) := by
    rw [if_neg (by omega)]
  rw [e, Int.toNat_natCast]
  have : (Ren.chrHd (encStr cs) o == 10) = false := by simpa using hch
  rw [this]
  simp

end Neatvi.Lemmas.C08
