import NeatviVerif.Lemmas.C19fGood
/-!
# C19f helper lemmas: the command switch of `vi()`

* `cmdFin`, `commandTailF`: the command switch with its local function `fin` (record the command for
  `.`, return the redraw class) as a top-level function; `commandTail_eq : commandTail = commandTailF`
  is `rfl`.  The proofs below walk `commandTailF` and treat `cmdFin` as a leaf.
* `good_commandTail`, `goodB_viStep`, `good_viStep`: one iteration of the command loop keeps `GoodB bl c`
  (`Good c`).
* `NQ m`: when `m` returns `none` (the `continue` of the C loop: no window fix, no redraw) the editor
  is quitting; `NK m`: when `m` returns `none`, the editor is quitting or the horizontal snapshot
  (`xcol`, `xcols`, `xleft`, `xtd`, `xquit`) is unchanged.  `nk_commandTail`: the command switch has
  `NK` — it returns `none` only for a key `≤ 0`, an unknown command key, or a `:` command that quits.
-/
set_option linter.unusedSimpArgs false
set_option linter.unusedVariables false

namespace Neatvi.Lemmas.C19f
open Neatvi Neatvi.Uc Neatvi.Lbuf Neatvi.Ex Neatvi.Mot Neatvi.Vi
open Neatvi.Lemmas.C05b (CountsFit bind_apply)
open Neatvi.Lemmas.C05c (bind_inv)

/-- the local function `fin` of `commandTail`: the end of a command (`term_cmd`, the record for `.`) -/
def cmdFin (c : Int) (mod : Nat) (k : Int) : M (Option Nat) := do
  let cmd ← termCmd
  if isRepeatable c k && cmd.length + 1 < 4096 then
    modify fun s => { s with repCmd := cmd.takeWhile (· != 0) }
    -- rep_cmd is copied with memcpy, the register with a C string
    modify fun s => { s with repCmd := cmd }
    regPut 46 (cmd.takeWhile (· != 0)) 0
  pure (some mod)

/-- `commandTail` with `fin` lifted out -/
def commandTailF : M (Option Nat) := do
  let c ← viRead
  if c ≤ 0 then pure none else
  let s ← get
  markSet 94 s.ed.xrow s.ed.xoff
  let s ← get
  let a1 := s.arg1
  if c == 2 then do        -- ^B
    if ← scrollBackward (min (max 1 a1) (lenOf s) * (s.xrows - 1)) then cmdFin c 0 0 else
    let s ← get
    setOff (indents (lines s) s.ed.xrow)
    cmdFin c VC_COL 0
  else if c == 6 then do   -- ^F
    if ← scrollForward (min (max 1 a1) (lenOf s) * (s.xrows - 1)) then cmdFin c 0 0 else
    let s ← get
    setOff (indents (lines s) s.ed.xrow)
    cmdFin c VC_COL 0
  else if c == 5 then do   -- ^E
    if ← scrollForward (max 1 a1) then cmdFin c 0 0 else
    let s ← get
    setOff (col2off s s.ed.xrow s.xcol)
    cmdFin c 0 0
  else if c == 25 then do  -- ^Y
    if ← scrollBackward (max 1 a1) then cmdFin c 0 0 else
    let s ← get
    setOff (col2off s s.ed.xrow s.xcol)
    cmdFin c 0 0
  else if c == 21 then do  -- ^U
    if s.ed.xrow == 0 then cmdFin c 0 0 else
    if a1 != 0 then modify fun s => { s with scroll := a1 }
    let s ← get
    let n := if s.scroll != 0 then s.scroll else s.xrows / 2
    setRow (max 0 (s.ed.xrow - n))
    if s.ed.xtop > 0 then setTop (max 0 (s.ed.xtop - n))
    let s ← get
    setOff (indents (lines s) s.ed.xrow)
    cmdFin c VC_COL 0
  else if c == 4 then do   -- ^D
    if s.ed.xrow == lenOf s - 1 then cmdFin c 0 0 else
    if a1 != 0 then modify fun s => { s with scroll := a1 }
    let s ← get
    let n := if s.scroll != 0 then s.scroll else s.xrows / 2
    setRow (min (max 0 (lenOf s - 1)) (s.ed.xrow + n))
    if s.ed.xtop < lenOf s - s.xrows then setTop (min (lenOf s - s.xrows) (s.ed.xtop + n))
    let s ← get
    setOff (indents (lines s) s.ed.xrow)
    cmdFin c VC_COL 0
  else if c == 117 || c == 18 then do   -- u / ^R
    match s.ed.lb with
    | none => cmdFin c 0 0
    | some lb =>
      match (if c == 117 then Lbuf.undo lb else Lbuf.redo lb) with
      | none => trap
      | some (rc, lb') =>
        if rc == 0 then do
          withEd fun ed => ed.setLb lb'
          match jump lb' 94 with
          | some (r, o) => setPos r o
          | none => pure ()
          cmdFin c VC_WIN 0
        else do
          withEd fun ed => ed.setLb lb'
          cmdFin c 0 0
  else if c == 7 then do    -- ^G
    lbufModified
    cmdFin c 0 0
  else if c == 58 then do   -- :
    match ← viPrompt true with
    | some ln =>
      if ln.isEmpty then cmdFin c 0 0 else
      let ln := if ln.headD 0 != 58 then 58 :: ln else ln
      let rc ← exCommandV ln
      regPut 58 ln 1
      let s ← get
      if s.ed.xquit then pure none else
      cmdFin c (if rc == 0 && ln != [58, 119] then VC_ALL else 0) 0
    | none => cmdFin c 0 0
  else if c == 99 || c == 100 || c == 121 || c == 33 || c == 62 || c == 60 then do
    let m ← vcMotion c.toNat
    cmdFin c m 0
  else if c == 105 || c == 73 || c == 97 || c == 65 || c == 111 || c == 79 then do
    let m ← vcInsert c.toNat
    cmdFin c m 0
  else if c == 74 then do let m ← vcJoin; cmdFin c m 0
  else if c == 12 then cmdFin c VC_ALL 0
  else if c == 109 then do
    let m ← viRead
    if m > 0 && 97 ≤ m && m ≤ 122 then markSet m.toNat s.ed.xrow s.ed.xoff
    cmdFin c 0 0
  else if c == 112 || c == 80 then do let m ← vcPut c.toNat; cmdFin c m 0
  else if c == 122 then do
    let k ← viRead
    if k == 10 then do setTop (if a1 != 0 then a1 else s.ed.xrow); cmdFin c 0 k
    else if k == 46 then do setTop (max 0 ((if a1 != 0 then a1 else s.ed.xrow) - s.xrows / 2)); cmdFin c 0 k
    else if k == 45 then do setTop (max 0 ((if a1 != 0 then a1 else s.ed.xrow) - s.xrows + 1)); cmdFin c 0 k
    else if k == 62 || k == 60 then do
      let td : Int := if k == 62 then 1 else -1
      withEd fun ed => { ed with xtd := td + (if a1 > 1 then td else 0) }
      cmdFin c VC_WIN k
    else if k == 101 then cmdFin c 0 k
    else if k == 102 then do unmodelled; cmdFin c 0 k
    else if k == 106 || k == 107 || k == 74 || k == 75 || k == 68 then do unmodelled; cmdFin c 0 k
    else cmdFin c 0 k
  else if c == 103 then do
    let k ← viRead
    if k == 126 || k == 117 || k == 85 then do let m ← vcMotion k.toNat; cmdFin c m k
    else if k == 97 then cmdFin c 0 k
    else if k == 100 || k == 102 || k == 108 then do unmodelled; cmdFin c 0 k
    else cmdFin c 0 k
  else if c == 120 then do viBack 32; let m ← vcMotion 100; cmdFin c m 0
  else if c == 88 then do viBack 8; let m ← vcMotion 100; cmdFin c m 0
  else if c == 67 then do viBack 36; let m ← vcMotion 99; cmdFin c m 0
  else if c == 68 then do viBack 36; let m ← vcMotion 100; cmdFin c m 0
  else if c == 114 then do let m ← vcReplace; cmdFin c m 0
  else if c == 115 then do viBack 32; let m ← vcMotion 99; cmdFin c m 0
  else if c == 83 then do viBack 99; let m ← vcMotion 99; cmdFin c m 0
  else if c == 89 then do viBack 121; let m ← vcMotion 121; cmdFin c m 0
  else if c == 90 then do
    let k ← viRead
    if k == 90 then do
      let rc ← exCommandV (strOf "x")
      cmdFin c (if rc == 0 then VC_WIN else 0) k
    else cmdFin c 0 k
  else if c == 126 then do viBack 32; let m ← vcMotion 126; cmdFin c m 0
  else if c == 46 then do vcRepeat; cmdFin c 0 0
  else if c == 64 then do vcExecute; cmdFin c 0 0
  else if c == 26 || c == 30 || c == 29 || c == 20 || c == 23 || c == 113 then do
    unmodelled; cmdFin c 0 0
  else pure none

theorem commandTail_eq : commandTail = commandTailF := by
  unfold commandTail commandTailF cmdFin
  rfl

/-! ### `GoodB bl c` -/

theorem good_cmdFin (bl : Bool) (c : Int) (k : Int) (mod : Nat) (k' : Int) : Pres (GoodB bl c) (cmdFin k mod k') := by
  unfold cmdFin
  pres_tac
macro_rules | `(tactic| pres_leaf) => `(tactic| with_reducible exact good_cmdFin _ _ _ _ _)

/-- undo / redo: the current line buffer is replaced -/
theorem good_setLbRaw (bl : Bool) (c : Int) (lb : Lb) : Pres (GoodB bl c) (Vi.withEd fun ed => ed.setLb lb) := by
  refine Pres.withEd (fun s hs => ?_)
  exact ⟨hs.1, hs.2.1, hs.2.2.1, hs.2.2.2.1, fun hb => ⟨(hs.2.2.2.2 hb).1, lOk_setLb s.ed lb (hs.2.2.2.2 hb).2⟩⟩
macro_rules | `(tactic| pres_leaf) => `(tactic| with_reducible exact good_setLbRaw _ _ _)

/-- the command switch of `vi()`: every branch (for `bl = true`: given that the ex layer keeps `LOk`) -/
theorem good_commandTail (bl : Bool) (c : Int) (hX : bl = true → ExKeepsLeft) : Pres (GoodB bl c) commandTail := by
  rw [commandTail_eq]
  unfold commandTailF
  pres_tac

theorem viStep_unfold : viStep = (viPre >>= fun r => (if r.1 > 0 then motionTail r.1 r.2.1 r.2.2
      else if r.1 == 0 then commandTail else pure (some 0)) >>= viPost) := rfl

/-- **one iteration of the command loop keeps `GoodB bl c`** -/
theorem goodB_viStep (bl : Bool) (c : Int) (hX : bl = true → ExKeepsLeft) : Pres (GoodB bl c) viStep := by
  rw [viStep_unfold]
  refine Pres.bind (pres_viPre (HG.good bl c)) (fun r => ?_)
  refine Pres.bind ?_ (good_viPost bl c)
  exact Pres.ite (good_motionTail bl c _ _ _) (Pres.ite (good_commandTail bl c hX) (Pres.pure _))

/-- **one iteration of the command loop keeps `Good c`** -/
theorem good_viStep (c : Int) : Pres (Good c) viStep := goodB_viStep false c (fun h => by cases h)

/-! ### when the command switch returns `none` -/

/-- `m` returns `none` only when the editor is quitting -/
def NQ (m : M (Option Nat)) : Prop := ∀ s r s', m s = Res.ok r s' → r = none → s'.ed.xquit = true

/-- `m` returns `none` only when the editor is quitting or with the horizontal snapshot unchanged -/
def NK (m : M (Option Nat)) : Prop :=
  ∀ s r s', m s = Res.ok r s' → r = none → s'.ed.xquit = true ∨ hsnap s' = hsnap s

namespace NQ

theorem pure_some (x : Nat) : NQ (Pure.pure (some x)) := by
  intro s r s' h hr
  cases h
  cases hr

theorem trap : NQ (Vi.trap : M (Option Nat)) := by
  intro s r s' h
  cases h

theorem bind_any {α : Type} {m : M α} {f : α → M (Option Nat)} (hf : ∀ a, NQ (f a)) : NQ (m >>= f) := by
  intro s r s' h hr
  obtain ⟨a, s1, _, h2⟩ := bind_inv _ _ _ _ _ h
  exact hf a _ _ _ h2 hr

/-- `if (xquit) continue;` -/
theorem quit {g : VS → M (Option Nat)} (hg : ∀ s0, NQ (g s0)) :
    NQ (Vi.get >>= fun s0 => if s0.ed.xquit = true then Pure.pure none else g s0) := by
  intro s r s' h hr
  change (if s.ed.xquit = true then Pure.pure none else g s) s = Res.ok r s' at h
  split at h
  · rename_i hq
    cases h
    exact hq
  · exact hg s _ _ _ h hr

theorem ite {p : Prop} [Decidable p] {a b : M (Option Nat)} (ha : NQ a) (hb : NQ b) :
    NQ (if p then a else b) := by
  split <;> assumption

end NQ

theorem nq_cmdFin (c : Int) (mod : Nat) (k : Int) : NQ (cmdFin c mod k) := by
  unfold cmdFin
  repeat' (first
    | with_reducible exact NQ.pure_some _
    | with_reducible refine NQ.bind_any (fun _ => ?_)
    | with_reducible refine NQ.ite ?_ ?_
    | dsimp only)

macro "nq_step" : tactic => `(tactic| first
  | with_reducible exact nq_cmdFin _ _ _
  | with_reducible exact NQ.pure_some _
  | with_reducible exact NQ.trap
  | with_reducible refine NQ.quit (fun _ => ?_)
  | with_reducible refine NQ.bind_any (fun _ => ?_)
  | with_reducible refine NQ.ite ?_ ?_
  | dsimp only
  | (show NQ _; split))

macro "nq_tac" : tactic => `(tactic| repeat' nq_step)

namespace NK

theorem of_nq {m : M (Option Nat)} (h : NQ m) : NK m :=
  fun s r s' hm hr => Or.inl (h s r s' hm hr)

theorem pure_none : NK (Pure.pure none) := by
  intro s r s' h _
  cases h
  exact Or.inr rfl

theorem bind {α : Type} {m : M α} {f : α → M (Option Nat)} (hm : ∀ v, Pres (Hz v) m) (hf : ∀ a, NK (f a)) :
    NK (m >>= f) := by
  intro s r s' h hr
  obtain ⟨a, s1, h1, h2⟩ := bind_inv _ _ _ _ _ h
  rcases hf a _ _ _ h2 hr with hq | hk
  · exact Or.inl hq
  · exact Or.inr (hk.trans (hz_frame hm _ _ _ h1))

theorem bind_get {f : VS → M (Option Nat)} (hf : ∀ s0, NK (f s0)) : NK (Vi.get >>= f) := by
  intro s r s' h hr
  exact hf s s r s' h hr

theorem ite {p : Prop} [Decidable p] {a b : M (Option Nat)} (ha : NK a) (hb : NK b) :
    NK (if p then a else b) := by
  split <;> assumption

end NK

macro "nk_step" : tactic => `(tactic| first
  | with_reducible exact NK.pure_none
  | with_reducible refine NK.ite ?_ ?_
  | with_reducible refine NK.bind_get (fun _ => ?_)
  | with_reducible refine NK.bind (fun _ => by pres_leaf) (fun _ => ?_)
  | dsimp only
  | exact NK.of_nq (by nq_tac))

macro "nk_tac" : tactic => `(tactic| repeat' nk_step)

/-- **the command switch returns `none` only when the editor quits or with `xcol`, `xcols`, `xleft`,
    `xtd` untouched** (a key `≤ 0`, an unknown command key) -/
theorem nk_commandTail : NK commandTail := by
  rw [commandTail_eq]
  unfold commandTailF
  nk_tac

/-- the cursor update after a motion always returns a redraw class -/
theorem nq_motionTail (mv nrow noff : Int) : NQ (motionTail mv nrow noff) := by
  intro s r s' h hr
  obtain ⟨e, _⟩ := C07.motionTail_run mv nrow noff s r s' h
  rw [e] at hr
  cases hr

/-- the continuation of an iteration after the prefixes and the motion -/
theorem nk_stepCont (mv nrow noff : Int) : NK (C07.stepCont mv nrow noff) := by
  unfold C07.stepCont
  exact NK.ite (NK.of_nq (nq_motionTail _ _ _)) (NK.ite nk_commandTail (NK.of_nq (NQ.pure_some _)))

end Neatvi.Lemmas.C19f
