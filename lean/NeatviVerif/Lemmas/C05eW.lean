import NeatviVerif.Lemmas.C05eL
/-!
# C05e lemmas, part W: witnesses — concrete safe states, covered lines, and the traps of the model that are left
-/
namespace Neatvi.Lemmas.C05e
open Neatvi Neatvi.Lbuf Neatvi.LbufIo Neatvi.Ex Neatvi.Rset Neatvi.Lemmas.C06b
open Neatvi.Lemmas.C02Ex Neatvi.Lemmas.C02b
open Neatvi.Props.C02.Ex (exRun)

/-- a table holding one buffer built by the lbuf API -/
theorem safe_single (ed : Ed) (b : Buf) (hb : GoodLb b.lb) (hbufs : ed.bufs = some b :: List.replicate 15 none)
    (hk : 0 ∉ ed.xkwd) : Safe ed := by
  refine ⟨?_, by unfold Ed.cur; rw [hbufs]; rfl, hk⟩
  unfold EdInv
  rw [hbufs]
  have : (some b :: List.replicate 15 none : List (Option Buf)) = (List.replicate 16 none).set 0 (some b) := rfl
  rw [this]
  exact tabInv_setAt (tabInv_replicate 16) hb (fun h => absurd rfl h)

/-- a buffer of two lines `ab`, `c d` built by `lbuf_edit` -/
def wLb : Lb := (Lbuf.edit Lbuf.make (some (strOf "ab\nc d\n")) 0 0).getD Lbuf.make

theorem wLb_good : GoodLb wLb := by
  obtain ⟨lb', h⟩ := Lemmas.C06.edit_total Lbuf.make (some (strOf "ab\nc d\n")) 0 0 (Nat.le_refl _)
  have e : wLb = lb' := by unfold wLb; rw [h]; rfl
  rw [e]
  exact goodLb_make.edit h

/-- the state: that buffer, named `f`, the row on line 1, a register `a` holding `p`, a file `g` -/
def wEd : Ed :=
  { bufs := some { path := strOf "f", lb := wLb } :: List.replicate 15 none,
    regs := ({} : Regs).put 97 (strOf "p\n") 1, files := [⟨strOf "g", strOf "x\ny\n", 5⟩] }

theorem wEd_safe : Safe wEd := safe_single wEd _ wLb_good rfl (by decide)

/-- the same with a script on its input -/
def wEdIn (script : List Bytes) : Ed := { wEd with input := script }

theorem wEdIn_safe (script : List Bytes) : Safe (wEdIn script) := wEd_safe.of_bufs rfl

/-! ### lines the theorems cover -/

theorem flat_subst : flatLine 9 (strOf "s/a/b/g") = true := by decide +kernel
theorem flat_bar : flatLine 20 (strOf "1,2d|w out|e other") = true := by decide +kernel
theorem flat_not_glob : flatLine 9 (strOf "g/a/p") = false := by decide +kernel
theorem gflat_glob : gflatLine ((strOf "g/a/s/b/X/|d").length + 1) (strOf "g/a/s/b/X/|d") = true := by decide +kernel
theorem gflat_mixed : gflatLine ((strOf "1d|v/x/p").length + 1) (strOf "1d|v/x/p") = true := by decide +kernel
theorem gflat_not_switch : gflatLine ((strOf "g/a/e other").length + 1) (strOf "g/a/e other") = false := by decide +kernel
/-- `Plain` as a check -/
def plainB (l : Bytes) : Bool := l.all (fun c => c != 0 && c != 64 && c != 37 && c != 35 && c != 61 && c != 103 && c != 118)

theorem plain_of_check {l : Bytes} (h : plainB l = true) : Plain l := by
  intro c hc
  have := List.all_eq_true.mp h c hc
  simp only [Bool.and_eq_true, bne_iff_ne, ne_eq] at this
  exact ⟨this.1.1.1.1.1.1, this.1.1.1.1.1.2, this.1.1.1.1.2, this.1.1.1.2, this.1.1.2, this.1.2, this.2⟩

theorem plain_plus : Plain (strOf "e +2d other") ∧ nest (strOf "e +2d other") = 1 :=
  ⟨plain_of_check (by decide +kernel), by decide +kernel⟩

/-- `NameOk` as a check -/
def nameB (files : List Bytes) : Bool :=
  match files with
  | [] => true
  | p :: _ => p.all (fun c => c != 32 && c != 37 && c != 35 && c != 61) && p.headD 0 != 43 && decide (p.length < 1000)

theorem nameOk_of_check {files : List Bytes} (h : nameB files = true) : NameOk files := by
  cases files with
  | nil => trivial
  | cons p r =>
    unfold nameB at h
    simp only [Bool.and_eq_true, bne_iff_ne, ne_eq, decide_eq_true_eq] at h
    refine ⟨?_, h.1.2, h.2⟩
    intro c hc
    have := List.all_eq_true.mp h.1.1 c hc
    simp only [Bool.and_eq_true, bne_iff_ne, ne_eq] at this
    exact ⟨this.1.1.1, this.1.1.2, this.1.2, this.2⟩

theorem ne_none_of_eq {α : Type} {x : Option α} {a : α} (h : x = some a) : x ≠ none := by
  rw [h]; exact fun h => by cases h

/-! ### the traps of the model that are left: none of them is a trap of the C code -/

/-- a buffer whose path is 500 bytes long -/
def edLong : Ed := { bufs := [some { path := List.replicate 500 97, lb := Lbuf.make }] ++ List.replicate 15 none }

theorem edLong_safe : Safe edLong := safe_single edLong _ goodLb_make rfl (by decide)

/-- **the path-size limit of the model**: `%%` with a 500-byte path expands to 1000 bytes, where the model stops
    following `ex_pathexpand` (the C code truncates at 1023 bytes, safely) -/
theorem pathExpand_limit_traps : pathExpand edLong [37, 37] true = none := by decide +kernel

/-- `:w` hands the `none` of the path expansion on -/
theorem write_of_path_none (f : Nat) (ed : Ed) (loc cmd : Bytes) (c : Nat) (r : Bytes) (txt : Option Bytes)
    (h : pathExpand ed (c :: r) true = none) : runCmd (f + 1) ed "ec_write" loc cmd (c :: r) txt = none := by
  rw [runCmd]
  simp (config := {decide := true}) only [if_false, if_true]
  unfold ecWrite
  simp only [List.isEmpty_cons, Bool.not_false, if_true, h]

theorem write_limit_traps : runCmd 5 edLong "ec_write" [] (strOf "w") [37, 37] none = none :=
  write_of_path_none 4 edLong [] _ 37 [37] none pathExpand_limit_traps

/-- **a pattern with a NUL byte after a backslash**: not a C string; the model's `ratom_read` sees a backslash at the
    very end of the text -/
theorem rstrMake_nul_traps : rstrMake [92, 0] 0 = none := by decide +kernel

end Neatvi.Lemmas.C05e
