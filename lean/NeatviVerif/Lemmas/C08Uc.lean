import NeatviVerif.Model.ViCmd
import NeatviVerif.Props.C16
import NeatviVerif.Props.C01
/-!
# C08, character offsets: `uc_chr` / `uc_slen` on arbitrary byte strings, `uc_sub` (`subI`)
-/
namespace Neatvi.Lemmas.C08
open Neatvi Neatvi.Uc Neatvi.Vi Neatvi.Spec

/-! ### one character -/

theorem contB_ne_zero {b : Nat} (h : contB b = true) : b ≠ 0 := by
  intro h0; subst h0; simp [contB] at h

theorem contRun_le (r : Bytes) : contRun r ≤ r.length := by
  induction r with
  | nil => simp [contRun]
  | cons b r ih =>
    unfold contRun
    split
    · simp; exact ih
    · simp

theorem hd_drop_contRun : ∀ (r : Bytes) (c : Nat), c ≠ 0 → Bytes.hd ((c :: r).drop (contRun r)) ≠ 0 := by
  intro r
  induction r with
  | nil => intro c hc; simpa [contRun] using hc
  | cons b r ih =>
    intro c hc
    unfold contRun
    split
    · rename_i hb
      rw [List.drop_succ_cons]
      exact ih b (contB_ne_zero hb)
    · simpa using hc

theorem ucEnd_lt (c : Nat) (r : Bytes) : ucEnd (c :: r) < (c :: r).length := by
  have := contRun_le r
  have h2 := contRun_le (c :: r)
  simp only [ucEnd, List.length_cons] at *
  split
  · omega
  · split <;> omega

theorem hd_drop_ucEnd (c : Nat) (r : Bytes) (hc : c ≠ 0) : Bytes.hd ((c :: r).drop (ucEnd (c :: r))) ≠ 0 := by
  simp only [ucEnd]
  split
  · simpa using hc
  · split
    · rw [show 1 + contRun r - 1 = contRun r by omega]
      exact hd_drop_contRun r c hc
    · by_cases hb : contB c = true
      · have : contRun (c :: r) = contRun r + 1 := by simp [contRun, hb]
        rw [this, show contRun r + 1 - 1 = contRun r by omega]
        exact hd_drop_contRun r c hc
      · have : contRun (c :: r) = 0 := by simp [contRun, hb]
        rw [this]
        simpa using hc

/-- on a character (first byte not NUL) `uc_next` steps over `uc_end + 1` bytes -/
theorem ucNext_eq (s : Bytes) (h : Bytes.hd s ≠ 0) : ucNext s = ucEnd s + 1 := by
  cases s with
  | nil => simp at h
  | cons c r =>
    unfold ucNext
    have := hd_drop_ucEnd c r (by simpa using h)
    simp [this]

theorem ucNext_pos (s : Bytes) (h : Bytes.hd s ≠ 0) : 0 < ucNext s := by rw [ucNext_eq s h]; omega

theorem ucNext_le (s : Bytes) (h : Bytes.hd s ≠ 0) : ucNext s ≤ s.length := by
  rw [ucNext_eq s h]
  cases s with
  | nil => simp at h
  | cons c r => have := ucEnd_lt c r; omega

/-! ### fuel independence -/

theorem ucSlenF_fuel : ∀ (f g : Nat) (s : Bytes), s.length ≤ f → s.length ≤ g → ucSlenF f s = ucSlenF g s := by
  intro f
  induction f with
  | zero =>
    intro g s hf _
    have : s = [] := by cases s <;> simp_all
    subst this
    cases g <;> simp [ucSlenF]
  | succ f ih =>
    intro g s hf hg
    cases g with
    | zero =>
      have : s = [] := by cases s <;> simp_all
      subst this
      simp [ucSlenF]
    | succ g =>
      simp only [ucSlenF]
      by_cases h0 : Bytes.hd s = 0
      · simp [h0]
      · have hp := ucNext_pos s h0
        rw [ucNext_eq s h0] at hp
        simp only [beq_iff_eq, h0, if_false]
        rw [ih g _ (by simp; omega) (by simp; omega)]

theorem ucChrF_fuel : ∀ (f g : Nat) (s : Bytes) (i off : Nat), s.length ≤ f → s.length ≤ g →
    ucChrF f s i off = ucChrF g s i off := by
  intro f
  induction f with
  | zero =>
    intro g s i off hf _
    have : s = [] := by cases s <;> simp_all
    subst this
    cases g <;> simp [ucChrF]
  | succ f ih =>
    intro g s i off hf hg
    cases g with
    | zero =>
      have : s = [] := by cases s <;> simp_all
      subst this
      simp [ucChrF]
    | succ g =>
      simp only [ucChrF]
      by_cases h0 : Bytes.hd s = 0
      · simp [h0]
      · have hp := ucNext_pos s h0
        simp only [beq_iff_eq, h0, if_false]
        rw [ih g _ _ _ (by simp; omega) (by simp; omega)]

theorem ucChrF_shift : ∀ (f : Nat) (s : Bytes) (i off : Nat), ucChrF f s (i + 1) (off + 1) = ucChrF f s i off := by
  intro f
  induction f with
  | zero => intro s i off; simp [ucChrF]
  | succ f ih =>
    intro s i off
    simp only [ucChrF]
    rw [ih]
    simp

/-! ### recursion equations -/

theorem slen_nul (s : Bytes) (h : Bytes.hd s = 0) : ucSlen s = 0 := by
  unfold ucSlen
  cases hl : s.length <;> simp [ucSlenF, h]

theorem slen_chr (s : Bytes) (h : Bytes.hd s ≠ 0) : ucSlen s = ucSlen (s.drop (ucNext s)) + 1 := by
  unfold ucSlen
  have hp := ucNext_pos s h
  have hle := ucNext_le s h
  cases hl : s.length with
  | zero => omega
  | succ n =>
    simp only [ucSlenF, beq_iff_eq, h, if_false]
    rw [← ucNext_eq s h]
    rw [ucSlenF_fuel n (s.drop (ucNext s)).length _ (by simp; omega) (Nat.le_refl _)]

theorem chr_zero (s : Bytes) : ucChr s 0 = some 0 := by
  unfold ucChr
  cases s with
  | nil => simp [ucChrF]
  | cons c r => simp [ucChrF]

theorem chr_nul (s : Bytes) (k : Nat) (h : Bytes.hd s = 0) : ucChr s (k + 1) = none := by
  unfold ucChr
  cases s.length <;> simp [ucChrF, h]

theorem chr_succ (s : Bytes) (k : Nat) (h : Bytes.hd s ≠ 0) :
    ucChr s (k + 1) = (ucChr (s.drop (ucNext s)) k).map (· + ucNext s) := by
  unfold ucChr
  have hp := ucNext_pos s h
  have hle := ucNext_le s h
  cases hl : s.length with
  | zero => omega
  | succ n =>
    simp only [ucChrF, beq_iff_eq, h, if_false]
    rw [if_neg (by omega), ucChrF_shift]
    rw [ucChrF_fuel n (s.drop (ucNext s)).length _ _ _ (by simp; omega) (Nat.le_refl _)]

/-! ### offsets within the string -/

/-- every character offset up to `uc_slen` (the terminator) has a byte offset -/
theorem chr_some_of_le : ∀ (k : Nat) (s : Bytes), k ≤ ucSlen s → ∃ i, ucChr s k = some i := by
  intro k
  induction k with
  | zero => intro s _; exact ⟨0, chr_zero s⟩
  | succ k ih =>
    intro s hk
    by_cases h0 : Bytes.hd s = 0
    · rw [slen_nul s h0] at hk; omega
    · rw [slen_chr s h0] at hk
      obtain ⟨i, hi⟩ := ih (s.drop (ucNext s)) (by omega)
      exact ⟨i + ucNext s, by rw [chr_succ s k h0, hi]; rfl⟩

/-- and no offset beyond has one -/
theorem chr_le_slen : ∀ (k : Nat) (s : Bytes) (i : Nat), ucChr s k = some i → k ≤ ucSlen s := by
  intro k
  induction k with
  | zero => intro s i _; omega
  | succ k ih =>
    intro s i hi
    by_cases h0 : Bytes.hd s = 0
    · rw [chr_nul s k h0] at hi; cases hi
    · rw [chr_succ s k h0] at hi
      rw [slen_chr s h0]
      cases hc : ucChr (s.drop (ucNext s)) k with
      | none => rw [hc] at hi; cases hi
      | some j => have := ih _ _ hc; omega

theorem chr_le_length : ∀ (k : Nat) (s : Bytes) (i : Nat), ucChr s k = some i → i ≤ s.length := by
  intro k
  induction k with
  | zero => intro s i hi; rw [chr_zero] at hi; cases hi; omega
  | succ k ih =>
    intro s i hi
    by_cases h0 : Bytes.hd s = 0
    · rw [chr_nul s k h0] at hi; cases hi
    · rw [chr_succ s k h0] at hi
      have hle := ucNext_le s h0
      cases hc : ucChr (s.drop (ucNext s)) k with
      | none => rw [hc] at hi; cases hi
      | some j =>
        rw [hc] at hi
        simp only [Option.map_some, Option.some.injEq] at hi
        have := ih _ _ hc
        simp only [List.length_drop] at this
        omega

/-- an offset before the terminator lies strictly inside the string -/
theorem chr_lt_length : ∀ (k : Nat) (s : Bytes) (i : Nat), ucChr s k = some i → k < ucSlen s → i < s.length := by
  intro k
  induction k with
  | zero =>
    intro s i hi hk
    rw [chr_zero] at hi; cases hi
    by_cases h0 : Bytes.hd s = 0
    · rw [slen_nul s h0] at hk; omega
    · cases s with
      | nil => simp at h0
      | cons c r => simp
  | succ k ih =>
    intro s i hi hk
    by_cases h0 : Bytes.hd s = 0
    · rw [chr_nul s k h0] at hi; cases hi
    · rw [chr_succ s k h0] at hi
      rw [slen_chr s h0] at hk
      have hle := ucNext_le s h0
      cases hc : ucChr (s.drop (ucNext s)) k with
      | none => rw [hc] at hi; cases hi
      | some j =>
        rw [hc] at hi
        simp only [Option.map_some, Option.some.injEq] at hi
        have := ih _ _ hc (by omega)
        simp only [List.length_drop] at this
        omega

/-- byte offsets grow with character offsets -/
theorem chr_mono : ∀ (k k' : Nat) (s : Bytes) (i i' : Nat), k ≤ k' → ucChr s k = some i → ucChr s k' = some i' → i ≤ i' := by
  intro k
  induction k with
  | zero => intro k' s i i' _ hi _; rw [chr_zero] at hi; cases hi; omega
  | succ k ih =>
    intro k' s i i' hk hi hi'
    cases k' with
    | zero => omega
    | succ k' =>
      by_cases h0 : Bytes.hd s = 0
      · rw [chr_nul s k h0] at hi; cases hi
      · rw [chr_succ s k h0] at hi
        rw [chr_succ s k' h0] at hi'
        cases hc : ucChr (s.drop (ucNext s)) k with
        | none => rw [hc] at hi; cases hi
        | some j =>
          cases hc' : ucChr (s.drop (ucNext s)) k' with
          | none => rw [hc'] at hi'; cases hi'
          | some j' =>
            rw [hc] at hi; rw [hc'] at hi'
            simp only [Option.map_some, Option.some.injEq] at hi hi'
            have := ih k' _ j j' (by omega) hc hc'
            omega

/-! ### `uc_sub` -/

theorem chrI_neg (s : Bytes) (o : Int) (h : o < 0) : chrI s o = some s.length := by
  unfold chrI; rw [if_pos h]

theorem chrI_nonneg (s : Bytes) (o : Int) (h : 0 ≤ o) : chrI s o = ucChr s o.toNat := by
  unfold chrI; rw [if_neg (by omega)]

/-- `uc_sub(s, b, e)` with both ends inside the string is the byte slice between the two offsets -/
theorem subI_chr (s : Bytes) (b e : Int) (ib ie : Nat) (hb : 0 ≤ b) (he : 0 ≤ e)
    (h1 : ucChr s b.toNat = some ib) (h2 : ucChr s e.toNat = some ie) (hle : ib ≤ ie) :
    subI s b e = some ((s.drop ib).take (ie - ib)) := by
  unfold subI
  rw [chrI_nonneg s b hb, chrI_nonneg s e he, h1, h2]
  simp [hle]

/-- `uc_sub(s, b, -1)`: the tail from character `b` -/
theorem subI_tail (s : Bytes) (b : Int) (ib : Nat) (hb : 0 ≤ b) (h1 : ucChr s b.toNat = some ib) :
    subI s b (-1) = some (s.drop ib) := by
  unfold subI
  rw [chrI_nonneg s b hb, chrI_neg s (-1) (by omega), h1]
  have := chr_le_length _ _ _ h1
  simp only [this, if_true]
  rw [List.take_of_length_le (by simp)]

/-- `uc_sub(s, 0, e)`: the head up to character `e` -/
theorem subI_head (s : Bytes) (e : Int) (ie : Nat) (he : 0 ≤ e) (h2 : ucChr s e.toNat = some ie) :
    subI s 0 e = some (s.take ie) := by
  rw [subI_chr s 0 e 0 ie (by omega) he (chr_zero s) h2 (by omega)]
  simp

/-- `uc_sub(s, 0, -1)` is the whole string -/
theorem subI_all (s : Bytes) : subI s 0 (-1) = some s := by
  rw [subI_tail s 0 0 (by omega) (chr_zero s)]; simp

/-! ### valid UTF-8 -/

theorem subI_enc {cs : List Nat} (h : ∀ c ∈ cs, ValidCp c) (b e : Nat) (hbe : b ≤ e) (he : e ≤ cs.length) :
    subI (encStr cs) (b : Int) (e : Int) = some (encStr ((cs.take e).drop b)) := by
  have hs := Props.C16.sub_spec h b e hbe he
  unfold ucSub at hs
  unfold subI
  rw [chrI_nonneg _ _ (by omega), chrI_nonneg _ _ (by omega)]
  simp only [Int.toNat_natCast]
  rw [Props.C16.chr_spec h, Props.C16.chr_spec h, if_pos (by omega), if_pos he] at hs ⊢
  simp only [] at hs ⊢
  rw [hs]

theorem subI_enc_tail {cs : List Nat} (h : ∀ c ∈ cs, ValidCp c) (b : Nat) (hb : b ≤ cs.length) :
    subI (encStr cs) (b : Int) (-1) = some (encStr (cs.drop b)) := by
  have hc := Props.C16.chr_spec h b
  rw [if_pos hb] at hc
  rw [subI_tail _ _ _ (by omega) (by simpa using hc)]
  congr 1
  unfold byteOff
  conv => lhs; rw [← List.take_append_drop b cs, encStr_append]
  simp

theorem subI_enc_head {cs : List Nat} (h : ∀ c ∈ cs, ValidCp c) (e : Nat) (he : e ≤ cs.length) :
    subI (encStr cs) 0 (e : Int) = some (encStr (cs.take e)) := by
  have := subI_enc h 0 e (by omega) he
  simpa using this

/-- the bytes of a newline appear only as the encoding of the newline -/
theorem ten_mem_enc {c : Nat} (h : 10 ∈ enc c) : c = 10 := by
  unfold enc at h
  split at h
  · simp at h; omega
  · split at h
    · simp at h; omega
    · split at h
      · simp at h; omega
      · simp at h; omega

theorem ten_notin_encStr {cs : List Nat} (h : 10 ∉ cs) : 10 ∉ encStr cs := by
  induction cs with
  | nil => simp
  | cons c r ih =>
    rw [encStr_cons]
    simp only [List.mem_append, not_or]
    simp only [List.mem_cons, not_or] at h
    refine ⟨fun hm => h.1 (ten_mem_enc hm).symm, ih h.2⟩

theorem enc_ten : enc 10 = [10] := by decide

/-- a line of code points ending in the newline is a well-formed buffer line -/
theorem wfLine_enc {body : List Nat} (h : 10 ∉ body) : Props.C01.WfLine (encStr (body ++ [10])) := by
  refine ⟨encStr body, ?_, ten_notin_encStr h⟩
  rw [encStr_append]; simp [enc_ten]

end Neatvi.Lemmas.C08
