import NeatviVerif.Lemmas.C09cRel
/-!
# C09c, part 2: every operation of `lbuf.c` respects `LbRel`

`lbuf_mark`, `lbuf_jump`, `lbuf_replace`, `lbuf_opt`, `lbuf_edit`, `lbuf_undo`, `lbuf_redo` (which *group* by
sequence number), `lbuf_seq`, `lbuf_modified` (which *bumps* the counter and compares two numbers for the dirty
flag), `lbuf_saved`, `lbuf_unsaved`, the glob marks, `lbuf_cp`, `lbuf_rd`.
-/
namespace Neatvi.Lemmas.C09c
open Neatvi Neatvi.Lbuf Neatvi.LbufIo Neatvi.Ex

/-- both fail, or both succeed with related results -/
def ORel {α β : Type} (R : α → β → Prop) : Option α → Option β → Prop
  | none, none => True
  | some a, some b => R a b
  | _, _ => False

theorem ORel.cases {α β : Type} {R : α → β → Prop} {x : Option α} {y : Option β} (h : ORel R x y) :
    (x = none ∧ y = none) ∨ ∃ a b, x = some a ∧ y = some b ∧ R a b := by
  cases x <;> cases y
  · exact Or.inl ⟨rfl, rfl⟩
  · exact h.elim
  · exact h.elim
  · exact Or.inr ⟨_, _, rfl, rfl, h⟩

/-- the main way to build `LbRel`: the pairs of sequence numbers of the new buffers are among those of the old -/
theorem LbRel.of_sub {w w' : Bool} {a b a' b' : Lb} (h : LbRel w a b)
    (lines : a'.lines = b'.lines) (glob : a'.glob = b'.glob) (lnSz : a'.lnSz = b'.lnSz)
    (mark : ∀ p, wset w' a'.mark p = wset w' b'.mark p) (markOff : ∀ p, wset w' a'.markOff p = wset w' b'.markOff p)
    (histSz : a'.histSz = b'.histSz) (histU : a'.histU = b'.histU) (unsaved : a'.unsaved = b'.unsaved)
    (hist : All2 EntRel a'.hist b'.hist) (sub : ∀ p, SeqP a' b' p → SeqP a b p)
    (hu : a'.useq = a.useq) (hu' : b'.useq = b.useq) : LbRel w' a' b' :=
  ⟨lines, glob, lnSz, mark, markOff, histSz, histU, unsaved, hist,
    fun p q hp hq => h.ord p q (sub p hp) (sub q hq),
    fun p hp => by rw [hu, hu']; exact h.top p (sub p hp)⟩

theorem seqP_congr {a b a' b' : Lb} (hh : a'.hist = a.hist) (hh' : b'.hist = b.hist) (hu : a'.useq = a.useq)
    (hu' : b'.useq = b.useq) (hz : a'.useqZero = a.useqZero) (hz' : b'.useqZero = b.useqZero)
    (hl : a'.useqLast = a.useqLast) (hl' : b'.useqLast = b.useqLast) (p : Nat × Nat) (h : SeqP a' b' p) : SeqP a b p := by
  unfold SeqP at *
  rw [hh, hh', hu, hu', hz, hz', hl, hl'] at h
  exact h

/-- the sequence numbers are untouched -/
theorem LbRel.upd {w w' : Bool} {a b a' b' : Lb} (h : LbRel w a b)
    (hh : a'.hist = a.hist) (hh' : b'.hist = b.hist) (hu : a'.useq = a.useq) (hu' : b'.useq = b.useq)
    (hz : a'.useqZero = a.useqZero) (hz' : b'.useqZero = b.useqZero)
    (hl : a'.useqLast = a.useqLast) (hl' : b'.useqLast = b.useqLast)
    (lines : a'.lines = b'.lines) (glob : a'.glob = b'.glob) (lnSz : a'.lnSz = b'.lnSz)
    (mark : ∀ p, wset w' a'.mark p = wset w' b'.mark p) (markOff : ∀ p, wset w' a'.markOff p = wset w' b'.markOff p)
    (histSz : a'.histSz = b'.histSz) (histU : a'.histU = b'.histU) (unsaved : a'.unsaved = b'.unsaved) :
    LbRel w' a' b' :=
  h.of_sub lines glob lnSz mark markOff histSz histU unsaved (by rw [hh, hh']; exact h.hist)
    (seqP_congr hh hh' hu hu' hz hz' hl hl') hu hu'

/-! ### marks -/

theorem wset_set {w : Bool} {l l' : List Int} (h : ∀ p, wset w l p = wset w l' p) (i : Nat) (v p : Int) :
    wset w (l.set i v) p = wset w (l'.set i v) p := by
  cases w with
  | false => have := h 0; unfold wset at *; simp only [Bool.false_eq_true, if_false] at *; rw [this]
  | true =>
    unfold wset at *
    simp only [if_true] at *
    by_cases hi : i = 30
    · subst hi
      rw [List.set_set, List.set_set]
      exact h p
    · rw [List.set_comm _ _ hi, List.set_comm _ _ hi, h p]

theorem setMark_rel {w : Bool} {a b : Lb} (h : LbRel w a b) (c : Nat) (p o : Int) :
    LbRel w (setMark a c p o) (setMark b c p o) := by
  unfold setMark
  cases markIdx c with
  | none => exact h
  | some i =>
    exact h.upd rfl rfl rfl rfl rfl rfl rfl rfl h.lines h.glob h.lnSz (fun q => wset_set h.mark i p q)
      (fun q => wset_set h.markOff i o q) h.histSz h.histU h.unsaved

/-- setting the mark `^` ends its exemption -/
theorem setMark_caret_rel {a b : Lb} (h : LbRel true a b) (p o : Int) :
    LbRel false (setMark a 94 p o) (setMark b 94 p o) := by
  have hm : markIdx 94 = some 30 := by decide
  unfold setMark
  rw [hm]
  exact h.upd rfl rfl rfl rfl rfl rfl rfl rfl h.lines h.glob h.lnSz (fun _ => h.mark p) (fun _ => h.markOff o)
    h.histSz h.histU h.unsaved

theorem jump_rel {a b : Lb} (h : LbRel false a b) (c : Nat) : jump a c = jump b c := by
  unfold jump
  rw [h.mark_eq, h.markOff_eq]

theorem setMark_hist (a : Lb) (c : Nat) (p o : Int) : (setMark a c p o).hist = a.hist := by
  unfold setMark; split <;> rfl
theorem setMark_useq (a : Lb) (c : Nat) (p o : Int) : (setMark a c p o).useq = a.useq := by
  unfold setMark; split <;> rfl
theorem setMark_useqZero (a : Lb) (c : Nat) (p o : Int) : (setMark a c p o).useqZero = a.useqZero := by
  unfold setMark; split <;> rfl
theorem setMark_useqLast (a : Lb) (c : Nat) (p o : Int) : (setMark a c p o).useqLast = a.useqLast := by
  unfold setMark; split <;> rfl
theorem setMark_histU (a : Lb) (c : Nat) (p o : Int) : (setMark a c p o).histU = a.histU := by
  unfold setMark; split <;> rfl

/-! ### `lbuf_replace` -/

theorem replace_rel {a b : Lb} (h : LbRel false a b) (s : Option Bytes) (pos nDel : Nat) :
    ORel (LbRel false) (replace a s pos nDel) (replace b s pos nDel) := by
  unfold replace
  simp only []
  rw [h.lines]
  split
  · show LbRel false _ _
    apply setMark_rel
    apply setMark_rel
    refine h.upd rfl rfl rfl rfl rfl rfl rfl rfl rfl ?_ ?_ ?_ h.markOff h.histSz h.histU h.unsaved
    · show _ ++ _ ++ _ = _ ++ _ ++ _
      rw [h.glob]
    · show growSz _ a.lnSz _ = growSz _ b.lnSz _
      rw [h.lnSz]
    · intro p
      show List.map _ a.mark = List.map _ b.mark
      rw [h.mark_eq]
  · trivial

/-- `lbuf_replace` leaves the history and the sequence numbers alone -/
theorem replace_seq {a a' : Lb} {s : Option Bytes} {pos nDel : Nat} (h : replace a s pos nDel = some a') :
    a'.hist = a.hist ∧ a'.useq = a.useq ∧ a'.useqZero = a.useqZero ∧ a'.useqLast = a.useqLast ∧ a'.histU = a.histU := by
  unfold replace at h
  simp only [] at h
  split at h
  · cases h
    simp [setMark_hist, setMark_useq, setMark_useqZero, setMark_useqLast, setMark_histU]
  · cases h

theorem cp_rel {a b : Lb} {w : Bool} (h : LbRel w a b) (x y : Nat) : cp a x y = cp b x y := by
  unfold cp; rw [h.lines]

/-! ### `lbuf_opt`: a new undo record takes the current value of the counter -/

theorem opt_useq (a : Lb) (buf : Option Bytes) (pos nDel : Nat) : (opt a buf pos nDel).useq = a.useq := rfl
theorem opt_useqZero (a : Lb) (buf : Option Bytes) (pos nDel : Nat) : (opt a buf pos nDel).useqZero = a.useqZero := rfl
theorem opt_useqLast (a : Lb) (buf : Option Bytes) (pos nDel : Nat) : (opt a buf pos nDel).useqLast = a.useqLast := rfl

theorem opt_hist (a : Lb) (buf : Option Bytes) (pos nDel : Nat) :
    ∃ e : Entry, (opt a buf pos nDel).hist = a.hist.take a.histU ++ [e] ∧ e.seq = a.useq ∧ e.pos = pos ∧
      e.nIns = lineCount buf ∧ e.nDel = nDel ∧ e.ins = buf ∧
      e.del = (if nDel > 0 then some (cp a pos (pos + nDel)) else none) ∧
      e.posOff = (if a.mark.getD 30 (-1) ≥ 0 then a.markOff.getD 30 0 else 0) :=
  ⟨_, rfl, rfl, rfl, rfl, rfl, rfl, rfl, rfl⟩

theorem opt_rel {a b : Lb} (h : LbRel false a b) (buf : Option Bytes) (pos nDel : Nat) :
    LbRel false (opt a buf pos nDel) (opt b buf pos nDel) := by
  have hlen : (a.hist.take a.histU).length = (b.hist.take b.histU).length := by
    rw [h.histU]; exact (h.hist.take _).length_eq
  have hm := h.mark_eq
  have hmo := h.markOff_eq
  refine h.of_sub (w' := false) ?_ ?_ ?_ ?_ ?_ ?_ ?_ ?_ ?_ ?_ rfl rfl
  · exact h.lines
  · exact h.glob
  · exact h.lnSz
  · intro p
    show List.set a.mark 27 _ = List.set b.mark 27 _
    rw [hm]
  · intro p
    show List.set a.markOff 27 _ = List.set b.markOff 27 _
    rw [hmo]
  · show (if (a.hist.take a.histU).length = a.histSz then _ else a.histSz) =
      (if (b.hist.take b.histU).length = b.histSz then _ else b.histSz)
    rw [hlen, h.histSz]
  · show (a.hist.take a.histU).length + 1 = (b.hist.take b.histU).length + 1
    rw [hlen]
  · exact h.unsaved
  · show All2 EntRel (a.hist.take a.histU ++ [_]) (b.hist.take b.histU ++ [_])
    refine All2.append (by rw [h.histU]; exact h.hist.take _) (All2.single ?_)
    refine ⟨rfl, rfl, rfl, rfl, ?_, ?_, ?_⟩
    · show (if nDel > 0 then some (cp a pos (pos + nDel)) else none) = (if nDel > 0 then some (cp b pos (pos + nDel)) else none)
      rw [cp_rel h]
    · show (if a.mark.getD 30 (-1) ≥ 0 then a.markOff.getD 30 0 else 0) = (if b.mark.getD 30 (-1) ≥ 0 then b.markOff.getD 30 0 else 0)
      rw [hm, hmo]
    · show (if _ then _ else none) = (if _ then _ else none)
      rw [hm, hmo]
  · intro p hp
    rcases hp with rfl | rfl | rfl | hp
    · exact Or.inl rfl
    · exact Or.inr (Or.inl rfl)
    · exact Or.inr (Or.inr (Or.inl rfl))
    · have hp' : HP (a.hist.take a.histU ++ [_]) (b.hist.take b.histU ++ [_]) p := hp
      rcases HP.of_append_single hlen hp' with hq | hq
      · rw [h.histU] at hq
        exact Or.inr (Or.inr (Or.inr (HP.of_take _ hq)))
      · exact Or.inl hq

/-! ### `lbuf_edit` -/

theorem edit_rel {a b : Lb} (h : LbRel false a b) (buf : Option Bytes) (x y : Nat) :
    ORel (LbRel false) (Lbuf.edit a buf x y) (Lbuf.edit b buf x y) := by
  unfold Lbuf.edit
  simp only []
  rw [h.lines]
  split
  · trivial
  · split
    · exact h
    · exact replace_rel (opt_rel h buf _ _) buf _ _

/-! ### `lbuf_undo`, `lbuf_redo`: grouping by sequence number -/

theorem loadPos_rel {a b : Lb} (h : LbRel false a b) {e e' : Entry} (he : EntRel e e') :
    LbRel false (loadPos a e) (loadPos b e') := by
  refine h.upd rfl rfl rfl rfl rfl rfl rfl rfl h.lines h.glob h.lnSz ?_ ?_ h.histSz h.histU h.unsaved
  · intro p
    show List.set (List.set a.mark 30 _) 27 _ = List.set (List.set b.mark 30 _) 27 _
    rw [h.mark_eq, he.pos]
  · intro p
    show List.set (List.set a.markOff 30 _) 27 _ = List.set (List.set b.markOff 30 _) 27 _
    rw [h.markOff_eq, he.posOff]

theorem loadMarks_rel {a b : Lb} (h : LbRel false a b) {e e' : Entry} (he : EntRel e e') :
    LbRel false (loadMarks a e) (loadMarks b e') := by
  unfold loadMarks
  rw [he.marks]
  split
  · exact h
  · refine h.upd rfl rfl rfl rfl rfl rfl rfl rfl h.lines h.glob h.lnSz ?_ ?_ h.histSz h.histU h.unsaved
    · intro p
      show List.map _ (List.range a.mark.length) = List.map _ (List.range b.mark.length)
      rw [h.mark_eq]
    · intro p
      show List.map _ (List.range a.markOff.length) = List.map _ (List.range b.markOff.length)
      rw [h.markOff_eq]

theorem loadMarks_seq (a : Lb) (e : Entry) :
    (loadMarks a e).hist = a.hist ∧ (loadMarks a e).histU = a.histU := by
  unfold loadMarks
  split <;> exact ⟨rfl, rfl⟩

theorem withHistU_rel {a b : Lb} (h : LbRel false a b) (u : Nat) :
    LbRel false { a with histU := u } { b with histU := u } :=
  h.upd rfl rfl rfl rfl rfl rfl rfl rfl h.lines h.glob h.lnSz h.mark h.markOff h.histSz rfl h.unsaved

theorem undoGo_rel (seq seq' : Nat) : ∀ (f : Nat) (a b : Lb), LbRel false a b →
    (∀ p, HP a.hist b.hist p → (p.1 = seq ↔ p.2 = seq')) →
    ORel (LbRel false) (undoGo seq f a) (undoGo seq' f b) := by
  intro f
  induction f with
  | zero => intro a b h _; exact h
  | succ f ih =>
    intro a b h hs
    unfold undoGo
    rw [h.histU]
    cases hu : b.histU with
    | zero => exact h
    | succ u =>
      simp only []
      rcases h.hist.getElem? u with ⟨h1, h2⟩ | ⟨e, e', h1, h2, he⟩
      · rw [h1, h2]; trivial
      · rw [h1, h2]
        simp only []
        have hc : e.seq = seq ↔ e'.seq = seq' := hs _ (HP.of_getElem u h1 h2)
        by_cases hq : e.seq = seq
        · rw [if_pos hq, if_pos (hc.mp hq)]
          have hr := replace_rel (withHistU_rel h u) e.del e.pos e.nIns
          rw [← he.del, ← he.pos, ← he.nIns]
          rcases hr.cases with ⟨r1, r2⟩ | ⟨a1, b1, r1, r2, hab⟩
          · rw [r1, r2]; trivial
          · rw [r1, r2]
            simp only []
            refine ih _ _ (loadMarks_rel (loadPos_rel hab he) he) ?_
            rw [(loadMarks_seq _ _).1, (loadMarks_seq _ _).1]
            show ∀ p, HP a1.hist b1.hist p → _
            rw [(replace_seq r1).1, (replace_seq r2).1]
            exact hs
        · rw [if_neg hq, if_neg (fun x => hq (hc.mpr x))]
          exact h

/-- `(rc, lb)` results -/
def PRel (R : Lb → Lb → Prop) (x y : Nat × Lb) : Prop := x.1 = y.1 ∧ R x.2 y.2

theorem undo_rel {a b : Lb} (h : LbRel false a b) : ORel (PRel (LbRel false)) (Lbuf.undo a) (Lbuf.undo b) := by
  unfold Lbuf.undo
  rw [h.histU]
  cases hu : b.histU with
  | zero => exact ⟨rfl, h⟩
  | succ u =>
    simp only []
    rcases h.hist.getElem? u with ⟨h1, h2⟩ | ⟨e, e', h1, h2, he⟩
    · rw [h1, h2]; trivial
    · rw [h1, h2]
      simp only []
      have hr := undoGo_rel e.seq e'.seq (u + 1) a b h (fun p hp =>
        h.eq_iff (Or.inr (Or.inr (Or.inr hp))) (Or.inr (Or.inr (Or.inr (HP.of_getElem u h1 h2)))))
      rcases hr.cases with ⟨r1, r2⟩ | ⟨a1, b1, r1, r2, hab⟩
      · rw [r1, r2]; trivial
      · rw [r1, r2]; exact ⟨rfl, hab⟩

theorem redoGo_rel (seq seq' : Nat) : ∀ (f : Nat) (a b : Lb), LbRel false a b →
    (∀ p, HP a.hist b.hist p → (p.1 = seq ↔ p.2 = seq')) →
    ORel (LbRel false) (redoGo seq f a) (redoGo seq' f b) := by
  intro f
  induction f with
  | zero => intro a b h _; exact h
  | succ f ih =>
    intro a b h hs
    unfold redoGo
    rw [h.histU, h.hist.length_eq]
    split
    · rcases h.hist.getElem? b.histU with ⟨h1, h2⟩ | ⟨e, e', h1, h2, he⟩
      · rw [h1, h2]; trivial
      · rw [h1, h2]
        simp only []
        have hc : e.seq = seq ↔ e'.seq = seq' := hs _ (HP.of_getElem _ h1 h2)
        by_cases hq : e.seq = seq
        · rw [if_pos hq, if_pos (hc.mp hq)]
          have hr := replace_rel (withHistU_rel h (b.histU + 1)) e.ins e.pos e.nDel
          rw [← he.ins, ← he.pos, ← he.nDel]
          rcases hr.cases with ⟨r1, r2⟩ | ⟨a1, b1, r1, r2, hab⟩
          · rw [r1, r2]; trivial
          · rw [r1, r2]
            simp only []
            refine ih _ _ (loadPos_rel hab he) ?_
            show ∀ p, HP a1.hist b1.hist p → _
            rw [(replace_seq r1).1, (replace_seq r2).1]
            exact hs
        · rw [if_neg hq, if_neg (fun x => hq (hc.mpr x))]
          exact h
    · exact h

theorem redo_rel {a b : Lb} (h : LbRel false a b) : ORel (PRel (LbRel false)) (Lbuf.redo a) (Lbuf.redo b) := by
  unfold Lbuf.redo
  rw [h.histU, h.hist.length_eq]
  split
  · exact ⟨rfl, h⟩
  · rcases h.hist.getElem? b.histU with ⟨h1, h2⟩ | ⟨e, e', h1, h2, he⟩
    · rw [h1, h2]; trivial
    · rw [h1, h2]
      simp only []
      have hr := redoGo_rel e.seq e'.seq (b.hist.length - b.histU) a b h (fun p hp =>
        h.eq_iff (Or.inr (Or.inr (Or.inr hp))) (Or.inr (Or.inr (Or.inr (HP.of_getElem _ h1 h2)))))
      rcases hr.cases with ⟨r1, r2⟩ | ⟨a1, b1, r1, r2, hab⟩
      · rw [r1, r2]; trivial
      · rw [r1, r2]; exact ⟨rfl, hab⟩

/-! ### `lbuf_seq`, `lbuf_modified`, `lbuf_saved` -/

/-- the numbers `lbuf_seq` reports correspond -/
theorem seqAt_pair {w : Bool} {a b : Lb} (h : LbRel w a b) : SeqP a b (seqAt a, seqAt b) := by
  unfold seqAt
  rw [h.histU]
  cases hu : b.histU with
  | zero => exact Or.inr (Or.inr (Or.inl rfl))
  | succ u =>
    simp only []
    rcases h.hist.getElem? u with ⟨h1, h2⟩ | ⟨e, e', h1, h2, _⟩
    · rw [h1, h2]; exact Or.inr (Or.inr (Or.inl rfl))
    · rw [h1, h2]; exact Or.inr (Or.inr (Or.inr (HP.of_getElem u h1 h2)))

theorem seqAt_bump (a : Lb) (n : Nat) : seqAt { a with useq := n } = seqAt a := rfl

/-- **`lbuf_modified`**: the counters are bumped on both sides, the dirty flags agree -/
theorem modified_rel {w : Bool} {a b : Lb} (h : LbRel w a b) :
    (modified a).1 = (modified b).1 ∧ LbRel w (modified a).2 (modified b).2 := by
  constructor
  · show (a.unsaved || seqAt { a with useq := a.useq + 1 } != a.useqZero) =
      (b.unsaved || seqAt { b with useq := b.useq + 1 } != b.useqZero)
    have e1 : seqAt { a with useq := a.useq + 1 } = seqAt a := rfl
    have e2 : seqAt { b with useq := b.useq + 1 } = seqAt b := rfl
    rw [e1, e2, h.unsaved]
    have := h.eq_iff (seqAt_pair h) (Or.inr (Or.inl rfl))
    simp only at this
    by_cases hq : seqAt a = a.useqZero
    · rw [hq, this.mp hq]; simp
    · have hq' : seqAt b ≠ b.useqZero := fun x => hq (this.mpr x)
      have n1 : (seqAt a != a.useqZero) = true := bne_iff_ne.mpr hq
      have n2 : (seqAt b != b.useqZero) = true := bne_iff_ne.mpr hq'
      rw [n1, n2]
  · show LbRel w { a with useq := a.useq + 1 } { b with useq := b.useq + 1 }
    have hsub : ∀ p, SeqP { a with useq := a.useq + 1 } { b with useq := b.useq + 1 } p →
        p = (a.useq + 1, b.useq + 1) ∨ SeqP a b p := by
      intro p hp
      rcases hp with rfl | rfl | rfl | hp
      · exact Or.inl rfl
      · exact Or.inr (Or.inr (Or.inl rfl))
      · exact Or.inr (Or.inr (Or.inr (Or.inl rfl)))
      · exact Or.inr (Or.inr (Or.inr (Or.inr hp)))
    refine ⟨h.lines, h.glob, h.lnSz, h.mark, h.markOff, h.histSz, h.histU, h.unsaved, h.hist, ?_, ?_⟩
    · intro p q hp hq
      rcases hsub p hp with rfl | hp <;> rcases hsub q hq with rfl | hq
      · simp
      · have := h.top q hq
        simp only
        omega
      · have := h.top p hp
        simp only
        omega
      · exact h.ord p q hp hq
    · intro p hp
      rcases hsub p hp with rfl | hp
      · exact ⟨Nat.le_refl _, Nat.le_refl _⟩
      · have := h.top p hp
        show p.1 ≤ a.useq + 1 ∧ p.2 ≤ b.useq + 1
        omega

theorem savedCore_rel {w : Bool} {a b : Lb} (h : LbRel w a b) (clear : Bool) :
    LbRel w (savedCore a clear) (savedCore b clear) := by
  cases clear with
  | true =>
    show LbRel w { a with hist := [], histU := 0, useqLast := a.useq, useqZero := a.useq, unsaved := false }
      { b with hist := [], histU := 0, useqLast := b.useq, useqZero := b.useq, unsaved := false }
    refine h.of_sub h.lines h.glob h.lnSz h.mark h.markOff h.histSz rfl rfl All2.nil ?_ rfl rfl
    intro p hp
    rcases hp with rfl | rfl | rfl | hp
    · exact Or.inl rfl
    · exact Or.inl rfl
    · exact Or.inl rfl
    · cases hp
  | false =>
    show LbRel w { a with useqZero := seqAt a, unsaved := false } { b with useqZero := seqAt b, unsaved := false }
    refine h.of_sub h.lines h.glob h.lnSz h.mark h.markOff h.histSz h.histU rfl h.hist ?_ rfl rfl
    intro p hp
    rcases hp with rfl | rfl | rfl | hp
    · exact Or.inl rfl
    · exact seqAt_pair h
    · exact Or.inr (Or.inr (Or.inl rfl))
    · exact Or.inr (Or.inr (Or.inr hp))

theorem unsavedMark_rel {w : Bool} {a b : Lb} (h : LbRel w a b) : LbRel w (unsavedMark a) (unsavedMark b) :=
  h.upd rfl rfl rfl rfl rfl rfl rfl rfl h.lines h.glob h.lnSz h.mark h.markOff h.histSz h.histU rfl

theorem globSet_rel {w : Bool} {a b : Lb} (h : LbRel w a b) (pos dep : Nat) :
    LbRel w (globSet a pos dep) (globSet b pos dep) := by
  refine h.upd rfl rfl rfl rfl rfl rfl rfl rfl h.lines ?_ h.lnSz h.mark h.markOff h.histSz h.histU h.unsaved
  show List.set a.glob _ _ = List.set b.glob _ _
  rw [h.glob]

theorem globGet_rel {w : Bool} {a b : Lb} (h : LbRel w a b) (pos dep : Nat) :
    (globGet a pos dep).1 = (globGet b pos dep).1 ∧ LbRel w (globGet a pos dep).2 (globGet b pos dep).2 := by
  constructor
  · show decide (a.glob.getD pos 0 &&& (1 <<< dep) > 0) = decide (b.glob.getD pos 0 &&& (1 <<< dep) > 0)
    rw [h.glob]
  · refine h.upd rfl rfl rfl rfl rfl rfl rfl rfl h.lines ?_ h.lnSz h.mark h.markOff h.histSz h.histU h.unsaved
    show List.set a.glob _ _ = List.set b.glob _ _
    rw [h.glob]

theorem rd_rel {a b : Lb} (h : LbRel false a b) (chunks : List Bytes) (fe : Bool) (x y : Nat) :
    ORel (PRel (LbRel false)) (rd a chunks fe x y) (rd b chunks fe x y) := by
  unfold rd
  split
  · trivial
  · split
    · exact ⟨rfl, h⟩
    · split
      · trivial
      · rename_i buf _
        rcases (edit_rel h (some (cstr buf)) x y).cases with ⟨r1, r2⟩ | ⟨a1, b1, r1, r2, hab⟩
        · rw [r1, r2]; trivial
        · rw [r1, r2]; exact ⟨rfl, hab⟩

theorem seqOk_make : SeqOk Lbuf.make := ⟨by decide, by decide, fun e he => by cases he⟩

theorem make_rel (w : Bool) : LbRel w Lbuf.make Lbuf.make := LbRel.refl seqOk_make w

end Neatvi.Lemmas.C09c
