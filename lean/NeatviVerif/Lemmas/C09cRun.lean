import NeatviVerif.Lemmas.C09cCmd
import NeatviVerif.Lemmas.C05dRun
/-!
# C09c, part 6: every `ex` command line maps related states to related states

`runCmd_rel` (the dispatcher, handler by handler), `ecEdit_rel`, `ecAt_rel`, `glob_rel`, `exExec_rel`, `exCommand_rel`,
tied together by induction on the fuel (`all_rel`).
-/
namespace Neatvi.Lemmas.C09c
open Neatvi Neatvi.Lbuf Neatvi.LbufIo Neatvi.Ex Neatvi.Rset
open Neatvi.Lemmas.C02d (insertS bufferS runCmd_insert runCmd_buffer)
open Neatvi.Lemmas.C02Ex (runCmd_quit runCmd_edit runCmd_write)
open Neatvi.Lemmas.C05d (runCmd_at runCmd_glob)
open Neatvi.Lemmas.C02c (plusSplit editGuard2 editOpen editRead editFinish editPlus ecEdit_stages)
open Neatvi.Props.C20 (editGuard ewPre)
open Neatvi.Lemmas.C06b (runOne parse1 cmds_succ abbrOf)

def ExecRel (f : Nat) : Prop := ∀ a b ln, EdRel false a b → RRel (exExec f a ln) (exExec f b ln)
def CmdRel (f : Nat) : Prop := ∀ a b ln, EdRel false a b → RRel (exCommand f a ln) (exCommand f b ln)
def RunRel (f : Nat) : Prop :=
  ∀ a b hd loc cmd arg txt, EdRel false a b → RRel (runCmd f a hd loc cmd arg txt) (runCmd f b hd loc cmd arg txt)

/-! ### `:e` -/

theorem editGuard_rel {a b : Ed} (h : EdRel false a b) (cmd : Bytes) : RRel (editGuard a cmd) (editGuard b cmd) := by
  unfold editGuard
  rw [h.cur_isSome, h.xwa]
  split
  · exact bufsModified_rel h 0 _
  · exact RRel.some h

theorem ewPre_rel {a b : Ed} (h : EdRel false a b) (cmd path : Bytes) : EdRel false (ewPre a cmd path) (ewPre b cmd path) := by
  unfold ewPre
  rw [h.bufsFind_eq]
  split
  · exact bufsSwitch_rel h 1
  · exact h

theorem editGuard2_rel {a b : Ed} (h : EdRel false a b) (path : Bytes) : RRel (editGuard2 a path) (editGuard2 b path) := by
  unfold editGuard2
  rw [h.cur_isNone, h.xwa, h.findRoom_eq]
  split
  · exact bufsModified_rel h _ _
  · exact RRel.some h

theorem editOpen_rel {a b : Ed} (h : EdRel false a b) (path : Bytes) : EdRel false (editOpen a path) (editOpen b path) := by
  unfold editOpen
  rw [h.cur_isNone]
  split
  · have ho := bufsOpen_rel h path
    simp only []
    rw [ho.1]
    exact bufsSwitch_rel ho.2 _
  · exact h

theorem editRead_rel {a b : Ed} (h : EdRel false a b) {x y : Buf} (hxy : BufRel false x y) :
    ORel (EdRel false) (editRead a x) (editRead b y) := by
  unfold editRead
  rw [h.findFile_eq, hxy.path]
  cases b.findFile y.path with
  | none => exact h
  | some fl =>
    simp only []
    split
    · exact h
    · rw [hxy.lb.lines]
      rcases (rd_rel hxy.lb [fl.data] false 0 y.lb.lines.length).cases with ⟨r1, r2⟩ | ⟨⟨n, la⟩, ⟨n', lb⟩, r1, r2, _, hl⟩
      · rw [r1, r2]; trivial
      · rw [r1, r2]
        simp only at hl
        simp only []
        rw [hl.lines]
        exact show_rel (setLb_rel h hl) _

/-- the view is clamped into the buffer -/
def clampEd (ed : Ed) : Ed := { ed with xrow := clampRow ed.xrow ed.len, xoff := 0, xtop := clampRow ed.xtop ed.len }

theorem clampEd_rel {a b : Ed} (h : EdRel false a b) : EdRel false (clampEd a) (clampEd b) := by
  unfold clampEd
  rw [h.len_eq, h.xrow, h.xtop]
  exact { h with xrow := rfl, xoff := rfl, xtop := rfl }

theorem editFinish_rel {a b : Ed} (h : EdRel false a b) (path : Bytes) :
    ORel (EdRel false) (editFinish a path) (editFinish b path) := by
  unfold editFinish
  rcases h.cur_cases with ⟨r1, r2⟩ | ⟨x, y, r1, r2, hxy⟩
  · rw [r1, r2]; trivial
  · rw [r1, r2]
    simp only []
    rcases (editRead_rel h hxy).cases with ⟨s1, s2⟩ | ⟨a1, b1, s1, s2, h1⟩
    · rw [s1, s2]; trivial
    · rw [s1, s2]
      simp only []
      rcases h1.cur_cases with ⟨t1, t2⟩ | ⟨x', y', t1, t2, hxy'⟩
      · rw [t1, t2]; trivial
      · rw [t1, t2]
        simp only []
        have hc : BufRel false
            { x' with lb := (modified (savedCore x'.lb (!path.isEmpty))).2, mtime := a1.mtimeOf x'.path }
            { y' with lb := (modified (savedCore y'.lb (!path.isEmpty))).2, mtime := b1.mtimeOf y'.path } :=
          { hxy' with lb := (modified_rel (savedCore_rel hxy'.lb _)).2
                      mtime := by show a1.mtimeOf x'.path = b1.mtimeOf y'.path; rw [hxy'.path, h1.mtimeOf_eq] }
        exact clampEd_rel (setCur_rel h1 hc)

theorem editPlus_rel (f : Nat) (hc : CmdRel f) (pls : Bytes) {a b : Ed} (h : EdRel false a b) :
    RRel (editPlus f pls a) (editPlus f pls b) := by
  unfold editPlus
  split
  · exact hc _ _ _ h
  · exact RRel.some h

theorem ecEdit_rel (f : Nat) (hc : CmdRel f) {a b : Ed} (h : EdRel false a b) (cmd arg : Bytes) :
    RRel (ecEdit (f + 1) a cmd arg) (ecEdit (f + 1) b cmd arg) := by
  rw [ecEdit_stages, ecEdit_stages]
  rrel_cases editGuard_rel h cmd with v a1 b1 h1
  · trivial
  · cases v with
    | true => exact RRel.some h1
    | false =>
      simp only []
      rrel_cases pathExpand_rel h1 (plusSplit arg).2 false with p a2 b2 h2
      · trivial
      · cases p with
        | none => exact RRel.some h2
        | some path =>
          simp only []
          have he := ewPre_rel h2 cmd path
          rw [he.bufsFind_eq]
          split
          · exact editPlus_rel f hc _ (bufsSwitch_rel he _)
          · rrel_cases editGuard2_rel he path with w a3 b3 h3
            · trivial
            · cases w with
              | true => exact RRel.some h3
              | false =>
                simp only []
                rcases (editFinish_rel (editOpen_rel h3 path) path).cases with ⟨s1, s2⟩ | ⟨a4, b4, s1, s2, h4⟩
                · rw [s1, s2]; trivial
                · rw [s1, s2]
                  exact editPlus_rel f hc _ h4

/-! ### `:@` -/

theorem ecAt_rel (f : Nat) (hc : CmdRel f) {a b : Ed} (h : EdRel false a b) (loc cmd arg : Bytes) :
    RRel (ecAt (f + 1) a loc cmd arg) (ecAt (f + 1) b loc cmd arg) := by
  rw [ecAt.eq_2, ecAt.eq_2, h.regGet_eq]
  cases regGet b (regName arg) with
  | none => exact RRel.some h
  | some buf =>
    simp only []
    rrel_cases exRegion_rel h loc with v a1 b1 h1
    · trivial
    · obtain ⟨rc, x, e⟩ := v
      simp only []
      split
      · exact RRel.some h1
      · rw [h1.atDepth]
        split
        · exact RRel.some (show_rel h1 _)
        · split
          · exact RRel.some { h1 with xrow := rfl, atDepth := rfl, unmodelled := rfl }
          · rrel_cases hc { a1 with xrow := x, atDepth := b1.atDepth + 1 } { b1 with xrow := x, atDepth := b1.atDepth + 1 }
              buf { h1 with xrow := rfl, atDepth := rfl } with r a2 b2 h2
            · trivial
            · simp only []
              rw [h2.atDepth]
              exact RRel.some { h2 with atDepth := rfl }

/-! ### the dispatcher -/

theorem print_rel' : ∀ (f : Nat) {a b : Ed}, EdRel false a b → ∀ (loc cmd arg : Bytes) (txt : Option Bytes),
    RRel (runCmd f a "ec_print" loc cmd arg txt) (runCmd f b "ec_print" loc cmd arg txt) := by
  intro f a b h loc cmd arg txt
  cases f with
  | zero => rw [runCmd, runCmd]; trivial
  | succ f =>
    rw [runCmd.eq_2, runCmd.eq_2]
    simp only [String.reduceBEq, Bool.false_eq_true, if_false, if_true]
    rw [h.xrow, h.len_eq]
    split
    · exact RRel.some h
    · rrel_cases exRegion_rel h loc with v a1 b1 h1
      · trivial
      · obtain ⟨rc, x, e⟩ := v
        simp only []
        split
        · exact RRel.some h1
        · exact RRel.some { foldl_print_rel x _ _ _ h1 with xrow := rfl, xoff := rfl }

theorem quit_rel (f : Nat) {a b : Ed} (h : EdRel false a b) (loc cmd arg : Bytes) (txt : Option Bytes) :
    RRel (runCmd (f + 1) a "ec_quit" loc cmd arg txt) (runCmd (f + 1) b "ec_quit" loc cmd arg txt) := by
  rw [runCmd_quit, runCmd_quit]
  have hw : RRel (if (cmd.headD 0 == 119 || cmd.headD 0 == 120) = true then ecWrite a [] cmd arg else some (0, a))
      (if (cmd.headD 0 == 119 || cmd.headD 0 == 120) = true then ecWrite b [] cmd arg else some (0, b)) := by
    split
    · exact ecWrite_rel h _ _ _
    · exact RRel.some h
  rrel_cases hw with rc a1 b1 h1
  · trivial
  · simp only []
    split
    · exact RRel.some h1
    · rw [h1.bufs_length]
      rrel_cases each_rel cmd (cmd.contains 97) (b1.bufs.length + 1) 0 _ _ h1 with v a2 b2 h2
      · trivial
      · cases v with
        | true => exact RRel.some h2
        | false => exact RRel.some { h2 with xquit := rfl }

theorem insert_rel {a b : Ed} (h : EdRel false a b) (loc cmd : Bytes) (txt : Option Bytes) :
    RRel (insertS a loc cmd txt) (insertS b loc cmd txt) := by
  unfold insertS
  rrel_cases exRegion_rel h loc with v a1 b1 h1
  · trivial
  · obtain ⟨rc, x, e⟩ := v
    simp only []
    split
    · exact RRel.some h1
    · rw [h1.len_eq]
      rcases (edit_rel' h1 txt (if (cmd.headD 0 == 97) = true then e else x)
        (if (cmd.headD 0 != 99) = true then (if (cmd.headD 0 == 97) = true then e else x) else e)).cases
        with ⟨s1, s2⟩ | ⟨a2, b2, s1, s2, h2⟩
      · rw [s1, s2]; trivial
      · rw [s1, s2]
        simp only []
        rw [h2.len_eq]
        exact RRel.some { h2 with xrow := rfl }

def EditRel (f : Nat) : Prop := ∀ a b cmd arg, EdRel false a b → RRel (ecEdit f a cmd arg) (ecEdit f b cmd arg)
def AtRel (f : Nat) : Prop := ∀ a b loc cmd arg, EdRel false a b → RRel (ecAt f a loc cmd arg) (ecAt f b loc cmd arg)
def GlobRel (f : Nat) : Prop := ∀ a b loc cmd arg, EdRel false a b → RRel (ecGlob f a loc cmd arg) (ecGlob f b loc cmd arg)

theorem runCmd_rel (f : Nat) (hedit : EditRel f) (hatr : AtRel f) (hglob : GlobRel f) : RunRel (f + 1) := by
  intro a b hd loc cmd arg txt h
  by_cases hs : hd = "ec_substitute"
  · subst hs; exact subst_rel _ h loc cmd arg txt
  by_cases hw : hd = "ec_write"
  · subst hw; rw [runCmd_write, runCmd_write]; exact ecWrite_rel h loc cmd arg
  by_cases hq : hd = "ec_quit"
  · subst hq; exact quit_rel _ h loc cmd arg txt
  by_cases he : hd = "ec_edit"
  · subst he; rw [runCmd_edit, runCmd_edit]; exact hedit _ _ _ _ h
  by_cases hb : hd = "ec_buffer"
  · subst hb; rw [runCmd_buffer, runCmd_buffer]; exact bufferS_rel h cmd arg
  by_cases hi : hd = "ec_insert"
  · subst hi; rw [runCmd_insert, runCmd_insert]; exact insert_rel h loc cmd txt
  by_cases hat : hd = "ec_at"
  · subst hat; rw [runCmd_at, runCmd_at]; exact hatr _ _ _ _ _ h
  by_cases hg : hd = "ec_glob"
  · subst hg; rw [runCmd_glob, runCmd_glob]; exact hglob _ _ _ _ _ h
  by_cases hp : hd = "ec_print"
  · subst hp; exact print_rel' _ h loc cmd arg txt
  have hs' : (hd == "ec_substitute") = false := by simpa using hs
  have hw' : (hd == "ec_write") = false := by simpa using hw
  have hq' : (hd == "ec_quit") = false := by simpa using hq
  have he' : (hd == "ec_edit") = false := by simpa using he
  have hb' : (hd == "ec_buffer") = false := by simpa using hb
  have hi' : (hd == "ec_insert") = false := by simpa using hi
  have hat' : (hd == "ec_at") = false := by simpa using hat
  have hg' : (hd == "ec_glob") = false := by simpa using hg
  have hp' : (hd == "ec_print") = false := by simpa using hp
  rw [runCmd.eq_2, runCmd.eq_2]
  simp only [hs', hw', hq', he', hb', hi', hat', hg', hp', Bool.false_eq_true, if_false]
  -- ec_null
  by_cases c : (hd == "ec_null") = true
  · simp only [c, if_true]
    rw [h.xvis, h.xrow, h.len_eq]
    split
    · refine print_rel' _ ?_ loc cmd arg txt
      exact { h with xrow := rfl, xvis := rfl }
    · rrel_cases exRegion_rel h loc with v a1 b1 h1
      · trivial
      · obtain ⟨rc, x, e⟩ := v
        simp only []
        split
        · exact RRel.some h1
        · exact RRel.some { h1 with xrow := rfl, xoff := rfl }
  have c' : (hd == "ec_null") = false := by simpa using c
  simp only [c', Bool.false_eq_true, if_false]
  clear c c'
  -- ec_delete / ec_yank
  by_cases c : (hd == "ec_delete" || hd == "ec_yank") = true
  · simp only [c, if_true]
    rrel_cases exRegion_rel h loc with v a1 b1 h1
    · trivial
    · obtain ⟨rc, x, e⟩ := v
      simp only []
      rw [h1.len_eq, h1.regs, h1.cp_eq]
      split
      · exact RRel.some h1
      · have h2 : EdRel false { a1 with regs := b1.regs.put (regName arg) (b1.cp x e) 1 }
            { b1 with regs := b1.regs.put (regName arg) (b1.cp x e) 1 } := { h1 with regs := rfl }
        split
        · exact RRel.some h2
        · rcases (edit_rel' h2 none x e).cases with ⟨s1, s2⟩ | ⟨a2, b2, s1, s2, h3⟩
          · rw [s1, s2]; trivial
          · rw [s1, s2]; exact RRel.some { h3 with xrow := rfl }
  have c' : (hd == "ec_delete" || hd == "ec_yank") = false := by simpa using c
  simp only [c', Bool.false_eq_true, if_false]
  clear c c'
  -- ec_put
  by_cases c : (hd == "ec_put") = true
  · simp only [c, if_true]
    rw [h.regGet_eq]
    cases regGet b (regName arg) with
    | none => exact RRel.some h
    | some buf =>
      simp only []
      rrel_cases exRegion_rel h loc with v a1 b1 h1
      · trivial
      · obtain ⟨rc, x, e⟩ := v
        simp only []
        split
        · exact RRel.some h1
        · rw [h1.len_eq]
          rcases (edit_rel' h1 (some buf) e e).cases with ⟨s1, s2⟩ | ⟨a2, b2, s1, s2, h2⟩
          · rw [s1, s2]; trivial
          · rw [s1, s2]
            simp only []
            rw [h2.len_eq]
            exact RRel.some { h2 with xrow := rfl }
  have c' : (hd == "ec_put") = false := by simpa using c
  simp only [c', Bool.false_eq_true, if_false]
  clear c c'
  -- ec_lnum
  by_cases c : (hd == "ec_lnum") = true
  · simp only [c, if_true]
    rrel_cases exRegion_rel h loc with v a1 b1 h1
    · trivial
    · obtain ⟨rc, x, e⟩ := v
      simp only []
      split
      · exact RRel.some h1
      · exact RRel.some (print_rel h1 _)
  have c' : (hd == "ec_lnum") = false := by simpa using c
  simp only [c', Bool.false_eq_true, if_false]
  clear c c'
  -- ec_undo
  by_cases c : (hd == "ec_undo") = true
  · simp only [c, if_true]
    rcases h.lb_cases with ⟨r1, r2⟩ | ⟨la, lb, r1, r2, hl⟩
    · rw [r1, r2]; trivial
    · rw [r1, r2]
      simp only [Option.bind_some]
      rcases (undo_rel hl).cases with ⟨s1, s2⟩ | ⟨⟨n, la'⟩, ⟨n', lb'⟩, s1, s2, hn, hl'⟩
      · rw [s1, s2]; trivial
      · simp only at hn hl'
        subst hn
        rw [s1, s2]
        exact RRel.some (setLb_rel h hl')
  have c' : (hd == "ec_undo") = false := by simpa using c
  simp only [c', Bool.false_eq_true, if_false]
  clear c c'
  -- ec_redo
  by_cases c : (hd == "ec_redo") = true
  · simp only [c, if_true]
    rcases h.lb_cases with ⟨r1, r2⟩ | ⟨la, lb, r1, r2, hl⟩
    · rw [r1, r2]; trivial
    · rw [r1, r2]
      simp only [Option.bind_some]
      rcases (redo_rel hl).cases with ⟨s1, s2⟩ | ⟨⟨n, la'⟩, ⟨n', lb'⟩, s1, s2, hn, hl'⟩
      · rw [s1, s2]; trivial
      · simp only at hn hl'
        subst hn
        rw [s1, s2]
        exact RRel.some (setLb_rel h hl')
  have c' : (hd == "ec_redo") = false := by simpa using c
  simp only [c', Bool.false_eq_true, if_false]
  clear c c'
  -- ec_mark
  by_cases c : (hd == "ec_mark") = true
  · simp only [c, if_true]
    rrel_cases exRegion_rel h loc with v a1 b1 h1
    · trivial
    · obtain ⟨rc, x, e⟩ := v
      simp only []
      split
      · exact RRel.some h1
      · rcases h1.lb_cases with ⟨s1, s2⟩ | ⟨la, lb, s1, s2, hl⟩
        · rw [s1, s2]; trivial
        · rw [s1, s2]
          exact RRel.some (setLb_rel h1 (setMark_rel hl _ _ _))
  have c' : (hd == "ec_mark") = false := by simpa using c
  simp only [c', Bool.false_eq_true, if_false]
  clear c c'
  -- ec_rs
  by_cases c : (hd == "ec_rs") = true
  · simp only [c, if_true]
    rw [h.regs]
    exact RRel.some { h with regs := rfl }
  have c' : (hd == "ec_rs") = false := by simpa using c
  simp only [c', Bool.false_eq_true, if_false]
  clear c c'
  -- ec_exec
  by_cases c : (hd == "ec_exec") = true
  · simp only [c, if_true]
    rw [h.xwa]
    have hgd : RRel (if (b.xwa == 0) = true then bufsModified a 0 (some (strOf "buffer modified")) else some (false, a))
        (if (b.xwa == 0) = true then bufsModified b 0 (some (strOf "buffer modified")) else some (false, b)) := by
      split
      · exact bufsModified_rel h 0 _
      · exact RRel.some h
    rrel_cases hgd with v a1 b1 h1
    · trivial
    · cases v with
      | true => exact RRel.some h1
      | false =>
        simp only []
        rrel_cases pathExpand_rel h1 arg true with p a2 b2 h2
        · trivial
        · cases p with
          | none => exact RRel.some h2
          | some ecmd =>
            simp only []
            split
            · exact RRel.some { h2 with unmodelled := rfl }
            · rrel_cases exRegion_rel h2 loc with v a3 b3 h3
              · trivial
              · obtain ⟨rc, x, e⟩ := v
                simp only []
                split
                · exact RRel.some h3
                · rw [h3.pipe_eq, h3.cp_eq]
                  cases b3.pipe ecmd (b3.cp x e) with
                  | none => exact RRel.some { h3 with unmodelled := rfl }
                  | some o =>
                    cases o with
                    | none => exact RRel.some h3
                    | some rep =>
                      simp only []
                      rcases (edit_rel' h3 (some rep) x e).cases with ⟨s1, s2⟩ | ⟨a4, b4, s1, s2, h4⟩
                      · rw [s1, s2]; trivial
                      · rw [s1, s2]; exact RRel.some h4
  have c' : (hd == "ec_exec") = false := by simpa using c
  simp only [c', Bool.false_eq_true, if_false]
  clear c c'
  -- ec_read
  by_cases c : (hd == "ec_read") = true
  · simp only [c, if_true]
    have hpr : RRel (if (!arg.isEmpty) = true then pathExpand a arg true else some (a.cur.map (·.path), a))
        (if (!arg.isEmpty) = true then pathExpand b arg true else some (b.cur.map (·.path), b)) := by
      split
      · exact pathExpand_rel h arg true
      · rw [h.cur_path]; exact RRel.some h
    rw [h.len_eq]
    rrel_cases hpr with path a1 b1 h1
    · trivial
    · simp only []
      rrel_cases exRegion_rel h1 loc with v a2 b2 h2
      · trivial
      · obtain ⟨rc, x, e⟩ := v
        simp only []
        split
        · exact RRel.some h2
        · rw [h2.len_eq]
          split
          · split
            · exact RRel.some h2
            · rw [h2.pipe_eq]
              cases b2.pipe ((path.getD []).drop 1) [] with
              | none => exact RRel.some { h2 with unmodelled := rfl }
              | some obuf =>
                cases obuf with
                | none =>
                  simp only []
                  rw [h2.len_eq]
                  refine RRel.some (show_rel ?_ _)
                  exact { h2 with xrow := rfl }
                | some o =>
                  simp only []
                  rcases (edit_rel' h2 (some o) (if (b2.len != 0) = true then e else 0)
                    (if (b2.len != 0) = true then e else 0)).cases with ⟨s1, s2⟩ | ⟨a3, b3, s1, s2, h3⟩
                  · rw [s1, s2]; trivial
                  · rw [s1, s2]
                    simp only []
                    rw [h3.len_eq]
                    refine RRel.some (show_rel ?_ _)
                    exact { h3 with xrow := rfl }
          · rw [h2.findFile_eq]
            cases b2.findFile (path.getD []) with
            | none => exact RRel.some (show_rel h2 _)
            | some fl =>
              simp only []
              rcases h2.lb_cases with ⟨s1, s2⟩ | ⟨la, lb, s1, s2, hl⟩
              · rw [s1, s2]; trivial
              · rw [s1, s2]
                simp only [Option.bind_some]
                rcases (rd_rel hl [fl.data] false (if (b2.len != 0) = true then e else 0).toNat
                  (if (b2.len != 0) = true then e else 0).toNat).cases with ⟨t1, t2⟩ | ⟨⟨n, la'⟩, ⟨n', lb'⟩, t1, t2, _, hl'⟩
                · rw [t1, t2]; trivial
                · rw [t1, t2]
                  simp only at hl'
                  simp only []
                  have h3 := setLb_rel h2 hl'
                  rw [h3.len_eq]
                  refine RRel.some (show_rel ?_ _)
                  exact { h3 with xrow := rfl }
  have c' : (hd == "ec_read") = false := by simpa using c
  simp only [c', Bool.false_eq_true, if_false]
  clear c c'
  -- ec_set
  by_cases c : (hd == "ec_set") = true
  · simp only [c, if_true]
    split
    · exact RRel.some h
    · split
      · exact RRel.some (setOpt_rel h _ _)
      · exact RRel.some (show_rel h _)
  have c' : (hd == "ec_set") = false := by simpa using c
  simp only [c', Bool.false_eq_true, if_false]
  clear c c'
  -- ec_echo
  by_cases c : (hd == "ec_echo") = true
  · simp only [c, if_true]
    exact RRel.some (print_rel h _)
  have c' : (hd == "ec_echo") = false := by simpa using c
  simp only [c', Bool.false_eq_true, if_false]
  exact RRel.some { h with unmodelled := rfl }

/-! ### `ex_exec`, `ex_command` -/

theorem runOne_rel (f : Nat) (hr : RunRel f) {a b : Ed} (h : EdRel false a b) (p : C06b.Parsed) (ret : Int) :
    ORel (fun (u v : (Int × Ed) × Bytes) => u.1.1 = v.1.1 ∧ EdRel false u.1.2 v.1.2 ∧ u.2 = v.2)
      (runOne f a p ret) (runOne f b p ret) := by
  obtain ⟨loc, cmd, idx, arg, rest⟩ := p
  unfold runOne
  have ht := exTxt_rel h rest (abbrOf idx)
  cases idx with
  | none =>
    simp only []
    exact ⟨rfl, show_rel ht.2 _, by rw [ht.1]⟩
  | some ah =>
    obtain ⟨ab, hh⟩ := ah
    simp only []
    rw [ht.1]
    rrel_cases hr _ _ hh loc cmd arg (exTxt b rest (abbrOf (some (ab, hh)))).1.1 ht.2 with r a1 b1 h1
    · trivial
    · exact ⟨rfl, h1, rfl⟩

theorem cmds_rel (f : Nat) (hr : RunRel f) : ∀ (g : Nat) (a b : Ed) (ln : Bytes) (ret : Int), EdRel false a b →
    RRel (exExec.cmds f g a ln ret) (exExec.cmds f g b ln ret) := by
  intro g
  induction g with
  | zero => intro a b ln ret h; rw [exExec.cmds, exExec.cmds]; exact RRel.some h
  | succ g ih =>
    intro a b ln ret h
    rw [cmds_succ, cmds_succ]
    split
    · exact RRel.some h
    · rcases (runOne_rel f hr h (parse1 ln) ret).cases with ⟨r1, r2⟩ | ⟨⟨⟨r, a1⟩, rest⟩, ⟨⟨r', b1⟩, rest'⟩, r1, r2, e1, h1, e2⟩
      · rw [r1, r2]; trivial
      · simp only at e1 h1 e2
        subst e1 e2
        rw [r1, r2]
        exact ih _ _ _ _ h1

theorem exExec_rel (f : Nat) (hr : RunRel f) : ExecRel (f + 1) := by
  intro a b ln h
  rw [exExec, exExec]
  split
  · exact RRel.some (show_rel h _)
  · exact cmds_rel f hr _ _ _ _ _ h

theorem exCommand_rel (f : Nat) (hx : ExecRel f) : CmdRel (f + 1) := by
  intro a b ln h
  rw [exCommand, exCommand]
  rrel_cases hx _ _ ln h with r a1 b1 h1
  · trivial
  · exact RRel.some (modifiedAt_rel h1 0).2

/-- everything at one level of fuel -/
def AllRel (f : Nat) : Prop := ExecRel f ∧ CmdRel f ∧ RunRel f ∧ EditRel f ∧ AtRel f ∧ GlobRel f

theorem runRel_zero : RunRel 0 := by
  intro a b hd loc cmd arg txt _; rw [runCmd, runCmd]; trivial

theorem execRel_zero : ExecRel 0 := by
  intro a b ln _; rw [exExec, exExec]; trivial

theorem cmdRel_zero : CmdRel 0 := by
  intro a b ln _; rw [exCommand, exCommand]; trivial

/-- **every function of the `ex` layer maps related states to related states, whatever the fuel** -/
theorem all_rel : ∀ f : Nat, AllRel f := by
  intro f
  induction f with
  | zero =>
    refine ⟨execRel_zero, cmdRel_zero, runRel_zero, ?_, ?_, ?_⟩
    · intro a b cmd arg _; rw [ecEdit, ecEdit]; trivial
    · intro a b loc cmd arg _; rw [ecAt, ecAt]; trivial
    · intro a b loc cmd arg _; rw [ecGlob, ecGlob]; trivial
  | succ f ih =>
    obtain ⟨hx, hc, hr, he, ha, hg⟩ := ih
    exact ⟨exExec_rel f hr, exCommand_rel f hx, runCmd_rel f he ha hg,
      fun a b cmd arg h => ecEdit_rel f hc h cmd arg,
      fun a b loc cmd arg h => ecAt_rel f hc h loc cmd arg,
      fun a b loc cmd arg h => glob_rel f hx h loc cmd arg⟩

/-- **`ex_command`** on related states -/
theorem exCommand_rel_all (f : Nat) {a b : Ed} (h : EdRel false a b) (ln : Bytes) :
    RRel (exCommand f a ln) (exCommand f b ln) := (all_rel f).2.1 a b ln h

end Neatvi.Lemmas.C09c
