import NeatviVerif.Lemmas.C08Uc
import NeatviVerif.Lemmas.C08Regs
import NeatviVerif.Lemmas.C06Ex
/-!
# C08, vi level: the monad, `lbuf_region`, and the exact result states of `vi_yank`, `vi_delete`, `vc_put`
-/
namespace Neatvi.Lemmas.C08
open Neatvi Neatvi.Uc Neatvi.Vi Neatvi.Ex Neatvi.Lbuf Neatvi.Lemmas.Hist

/-! ### the monad -/
theorem bind_apply {α β : Type} (m : M α) (f : α → M β) (s : VS) :
    (m >>= f) s = match m s with | Res.ok a s' => f a s' | Res.eof => Res.eof | Res.trap => Res.trap := rfl
theorem pure_apply {α : Type} (a : α) (s : VS) : (pure a : M α) s = Res.ok a s := rfl
theorem get_apply (s : VS) : Vi.get s = Res.ok s s := rfl
theorem liftO_some {α : Type} (a : α) (s : VS) : liftO (some a) s = Res.ok a s := rfl
theorem liftO_none {α : Type} (s : VS) : (liftO (none : Option α)) s = Res.trap := rfl
theorem regPut_apply (c : Nat) (t : Bytes) (l : Nat) (s : VS) :
    regPut c t l s = Res.ok () { s with ed := { s.ed with regs := s.ed.regs.put c t l } } := rfl
theorem setPos_apply (r o : Int) (s : VS) :
    setPos r o s = Res.ok () { s with ed := { s.ed with xrow := r, xoff := o } } := rfl
theorem setRow_apply (r : Int) (s : VS) : setRow r s = Res.ok () { s with ed := { s.ed with xrow := r } } := rfl
theorem setOff_apply (o : Int) (s : VS) : setOff o s = Res.ok () { s with ed := { s.ed with xoff := o } } := rfl
theorem edEdit_apply (t : Option Bytes) (b e : Int) (s : VS) :
    edEdit t b e s = match s.ed.edit t b e with | some ed => Res.ok () { s with ed := ed } | none => Res.trap := rfl

/-! ### the text of the current buffer -/
theorem lines_eq (s : VS) : Vi.lines s = C06.lines s.ed := rfl

theorem lenOf_eq (s : VS) : lenOf s = s.ed.len := by
  unfold lenOf; rw [C06.len_eq]; rfl

theorem lineE_eq (s : VS) (r : Int) (h0 : 0 ≤ r) (l : Bytes) (h : (Vi.lines s)[r.toNat]? = some l) : lineE s r = l := by
  unfold lineE lineOf Mot.lineAt
  rw [if_neg (by omega), h]; rfl

theorem splitLines_wf (l : Bytes) (h : Props.C01.WfLine l) : splitLines l = [l] := by
  have := Props.C01.split_of_join [l] (by intro x hx; simp at hx; subst hx; exact h)
  simpa using this

/-- `Ed.edit` keeps everything but the buffer table; in particular the registers and the cursor -/
theorem edit_regs {ed ed' : Ed} {t : Option Bytes} {b e : Int} (h : ed.edit t b e = some ed') :
    ed'.regs = ed.regs ∧ ed'.xrow = ed.xrow ∧ ed'.xoff = ed.xoff := by
  have := C06.edit_fields ed ed' t b e h
  rw [this]; exact ⟨rfl, rfl, rfl⟩

/-! ### `lbuf_region` -/

theorem lbufRegion_single (s : VS) (r o1 o2 : Int) : lbufRegion s r o1 r o2 = subI (lineE s r) o1 o2 := by
  unfold lbufRegion; simp

theorem lbufRegion_multi (s : VS) (r1 o1 r2 o2 : Int) (hne : r1 ≠ r2) (t hd : Bytes)
    (h1 : subI (lineE s r1) o1 (-1) = some t) (h2 : subI (lineE s r2) 0 o2 = some hd) :
    lbufRegion s r1 o1 r2 o2 =
      some (t ++ (((Vi.lines s).drop (r1 + 1).toNat).take (r2.toNat - (r1 + 1).toNat)).flatten ++ hd) := by
  unfold lbufRegion
  have : (r1 == r2) = false := by simpa using hne
  rw [this, h1, h2]
  simp only [Bool.false_eq_true, if_false]
  rw [show s.ed.cp (r1 + 1) r2 =
      (((C06.lines s.ed).drop (r1 + 1).toNat).take (r2.toNat - (r1 + 1).toNat)).flatten from by
    unfold Ed.cp C06.lines Lbuf.cp; cases s.ed.lb <;> simp]
  rfl

theorem slice_split {α : Type} (L : List α) (a b : Nat) (x y : α) (hab : a < b)
    (hx : L[a]? = some x) (hy : L[b]? = some y) :
    (L.drop a).take (b - a + 1) = [x] ++ (L.drop (a + 1)).take (b - (a + 1)) ++ [y] := by
  have hb : b < L.length := by
    have := (List.getElem?_eq_some_iff.mp hy).1; exact this
  have e1 : L.drop a = x :: L.drop (a + 1) := by
    rw [List.drop_eq_getElem?_toList_append, hx]; rfl
  rw [e1, show b - a + 1 = (b - (a + 1) + 1) + 1 by omega, List.take_succ_cons]
  simp only [List.cons_append, List.cons.injEq, true_and]
  rw [List.take_add_one, List.getElem?_drop, show a + 1 + (b - (a + 1)) = b by omega, hy]
  rfl

/-- the whole lines `r1..r2` -/
theorem lbufRegion_lines (s : VS) (r1 r2 : Int) (h0 : 0 ≤ r1) (h12 : r1 ≤ r2) (h2 : r2 < lenOf s) :
    lbufRegion s r1 0 r2 (-1) = some (((Vi.lines s).drop r1.toNat).take (r2.toNat - r1.toNat + 1)).flatten := by
  have hlen : r2.toNat < (Vi.lines s).length := by unfold lenOf at h2; omega
  obtain ⟨x, hx⟩ : ∃ x, (Vi.lines s)[r1.toNat]? = some x := ⟨_, List.getElem?_eq_getElem (by omega)⟩
  obtain ⟨y, hy⟩ : ∃ y, (Vi.lines s)[r2.toNat]? = some y := ⟨_, List.getElem?_eq_getElem hlen⟩
  by_cases he : r1 = r2
  · subst he
    rw [lbufRegion_single, lineE_eq s r1 h0 x hx, subI_all]
    rw [show r1.toNat - r1.toNat + 1 = 1 by omega, List.take_one, List.head?_drop, hx]
    simp
  · rw [lbufRegion_multi s r1 0 r2 (-1) he x y (by rw [lineE_eq s r1 h0 x hx, subI_all])
      (by rw [lineE_eq s r2 (by omega) y hy, subI_all])]
    rw [slice_split (Vi.lines s) r1.toNat r2.toNat x y (by omega) hx hy]
    rw [show (r1 + 1).toNat = r1.toNat + 1 by omega]
    simp

/-! ### `vi_yank` -/

theorem viYank_eq (r1 o1 r2 o2 : Int) (ln : Bool) (s s' : VS) (a : Nat) (h : viYank r1 o1 r2 o2 ln s = Res.ok a s') :
    ∃ region, lbufRegion s r1 (if ln then 0 else o1) r2 (if ln then -1 else o2) = some region ∧
      s' = { s with ed := { s.ed with regs := s.ed.regs.put s.ybuf region (if ln then 1 else 0),
                                      xrow := r1, xoff := if ln then s.ed.xoff else o1 } } ∧ a = VC_COL := by
  unfold viYank at h
  simp only [bind_apply, get_apply] at h
  cases hreg : lbufRegion s r1 (if ln then 0 else o1) r2 (if ln then -1 else o2) with
  | none => rw [hreg] at h; simp [liftO_none] at h
  | some region =>
    rw [hreg] at h
    simp only [liftO_some, regPut_apply, setPos_apply, pure_apply, Res.ok.injEq] at h
    exact ⟨region, rfl, h.2.symm, h.1.symm⟩

/-! ### `vi_delete` -/

theorem viDelete_char_eq (r1 o1 r2 o2 : Int) (s s' : VS) (a : Nat) (h : viDelete r1 o1 r2 o2 false s = Res.ok a s') :
    ∃ region pref post ed', lbufRegion s r1 o1 r2 o2 = some region ∧
      subI (lineE s r1) 0 o1 = some pref ∧ subI (lineE s r2) o2 (-1) = some post ∧
      ({ s.ed with regs := s.ed.regs.put s.ybuf region 0 } : Ed).edit (some (pref ++ post)) r1 (r2 + 1) = some ed' ∧
      s' = { s with ed := { ed' with xrow := r1, xoff := o1 } } ∧ a = VC_OK := by
  unfold viDelete at h
  simp only [bind_apply, get_apply] at h
  simp only [Bool.false_eq_true, if_false, Bool.not_false, if_true] at h
  cases hreg : lbufRegion s r1 o1 r2 o2 with
  | none => rw [hreg] at h; simp [liftO_none] at h
  | some region =>
    rw [hreg] at h
    simp only [liftO_some, regPut_apply, bind_apply] at h
    cases hp : subI (lineE s r1) 0 o1 with
    | none => rw [hp] at h; simp [liftO_none] at h
    | some pref =>
      cases hq : subI (lineE s r2) o2 (-1) with
      | none => rw [hp, hq] at h; simp [liftO_none, liftO_some] at h
      | some post =>
        rw [hp, hq] at h
        simp only [liftO_some, edEdit_apply] at h
        cases he : ({ s.ed with regs := s.ed.regs.put s.ybuf region 0 } : Ed).edit (some (pref ++ post)) r1 (r2 + 1) with
        | none => rw [he] at h; simp at h
        | some ed' =>
          rw [he] at h
          simp only [get_apply, setPos_apply, pure_apply, Res.ok.injEq] at h
          exact ⟨region, pref, post, ed', rfl, rfl, rfl, he, h.2.symm, h.1.symm⟩

theorem viDelete_line_eq (r1 o1 r2 o2 : Int) (s s' : VS) (a : Nat) (h : viDelete r1 o1 r2 o2 true s = Res.ok a s') :
    ∃ region ed', lbufRegion s r1 0 r2 (-1) = some region ∧
      ({ s.ed with regs := s.ed.regs.put s.ybuf region 1 } : Ed).edit none r1 (r2 + 1) = some ed' ∧
      s' = { s with ed := { ed' with xrow := min r1 (max 0 (((C06.lines ed').length : Int) - 1)),
                                     xoff := Mot.indents (C06.lines ed') (min r1 (max 0 (((C06.lines ed').length : Int) - 1))) } } ∧
      a = VC_OK := by
  unfold viDelete at h
  simp only [bind_apply, get_apply] at h
  simp only [if_true, Bool.not_true, Bool.false_eq_true, if_false] at h
  cases hreg : lbufRegion s r1 0 r2 (-1) with
  | none => rw [hreg] at h; simp [liftO_none] at h
  | some region =>
    rw [hreg] at h
    simp only [liftO_some, regPut_apply, bind_apply, edEdit_apply] at h
    cases he : ({ s.ed with regs := s.ed.regs.put s.ybuf region 1 } : Ed).edit none r1 (r2 + 1) with
    | none => rw [he] at h; simp at h
    | some ed' =>
      rw [he] at h
      simp only [get_apply, setPos_apply, pure_apply, Res.ok.injEq] at h
      exact ⟨region, ed', rfl, he, h.2.symm, h.1.symm⟩

/-! ### `vi_case` -/

theorem viCase_char_eq (r1 o1 r2 o2 : Int) (cmd : Nat) (s s' : VS) (a : Nat)
    (h : viCase r1 o1 r2 o2 false cmd s = Res.ok a s') :
    ∃ region pref post ed', lbufRegion s r1 o1 r2 o2 = some region ∧
      subI (lineE s r1) 0 o1 = some pref ∧ subI (lineE s r2) o2 (-1) = some post ∧
      s.ed.edit (some (pref ++ caseMap cmd (region.length + 1) region ++ post)) r1 (r2 + 1) = some ed' ∧
      s' = { s with ed := { ed' with xrow := r2, xoff := o2 } } ∧ a = VC_OK := by
  unfold viCase at h
  simp only [bind_apply, get_apply] at h
  simp only [Bool.false_eq_true, if_false, Bool.not_false, if_true] at h
  cases hreg : lbufRegion s r1 o1 r2 o2 with
  | none => rw [hreg] at h; simp [liftO_none] at h
  | some region =>
    rw [hreg] at h
    simp only [liftO_some, bind_apply] at h
    cases hp : subI (lineE s r1) 0 o1 with
    | none => rw [hp] at h; simp [liftO_none] at h
    | some pref =>
      cases hq : subI (lineE s r2) o2 (-1) with
      | none => rw [hp, hq] at h; simp [liftO_none, liftO_some] at h
      | some post =>
        rw [hp, hq] at h
        simp only [liftO_some, edEdit_apply] at h
        cases he : s.ed.edit (some (pref ++ caseMap cmd (region.length + 1) region ++ post)) r1 (r2 + 1) with
        | none => rw [he] at h; simp at h
        | some ed' =>
          rw [he] at h
          simp only [get_apply, setPos_apply, pure_apply, Res.ok.injEq] at h
          exact ⟨region, pref, post, ed', rfl, rfl, rfl, he, h.2.symm, h.1.symm⟩

/-! ### `vc_put` -/

/-- the text a put inserts: `max 1 arg1` copies of the register -/
def putRep (s : VS) (buf : Bytes) : Bytes := (List.replicate (max 1 s.arg1).toNat buf).flatten

/-- linewise `P` on a non-empty buffer -/
theorem vcPut_line_P_eq (s s' : VS) (a : Nat) (buf : Bytes) (lnm : Nat)
    (hreg : regGetLn s.ed s.ybuf = (some buf, some lnm)) (hne : buf ≠ []) (hl : lnm ≠ 0) (hlen : lenOf s ≠ 0)
    (h : vcPut 80 s = Res.ok a s') :
    ∃ ed', s.ed.edit (some (putRep s buf)) s.ed.xrow s.ed.xrow = some ed' ∧
      s' = { s with ed := { ed' with xoff := Mot.indents (C06.lines ed') ed'.xrow } } ∧ a = VC_OK := by
  unfold vcPut at h
  simp only [bind_apply, get_apply, hreg] at h
  have e1 : buf.isEmpty = false := by cases buf <;> simp_all
  have e2 : (lnm != 0) = true := by simpa using hl
  have e3 : (lenOf s == 0) = false := by simpa using hlen
  rw [e1, e2, e3] at h
  simp only [Bool.false_eq_true, if_false, if_true, show ((80 : Nat) == 112) = false by decide] at h
  simp only [bind_apply, get_apply, edEdit_apply] at h
  cases he : s.ed.edit (some (putRep s buf)) s.ed.xrow s.ed.xrow with
  | none => unfold putRep at he; rw [he] at h; simp at h
  | some ed' =>
    unfold putRep at he
    rw [he] at h
    simp only [setOff_apply, pure_apply, Res.ok.injEq] at h
    exact ⟨ed', rfl, h.2.symm, h.1.symm⟩

/-- linewise `p` on a non-empty buffer -/
theorem vcPut_line_p_eq (s s' : VS) (a : Nat) (buf : Bytes) (lnm : Nat)
    (hreg : regGetLn s.ed s.ybuf = (some buf, some lnm)) (hne : buf ≠ []) (hl : lnm ≠ 0) (hlen : lenOf s ≠ 0)
    (h : vcPut 112 s = Res.ok a s') :
    ∃ ed', ({ s.ed with xrow := s.ed.xrow + 1 } : Ed).edit (some (putRep s buf)) (s.ed.xrow + 1) (s.ed.xrow + 1) = some ed' ∧
      s' = { s with ed := { ed' with xoff := Mot.indents (C06.lines ed') ed'.xrow } } ∧ a = VC_OK := by
  unfold vcPut at h
  simp only [bind_apply, get_apply, hreg] at h
  have e1 : buf.isEmpty = false := by cases buf <;> simp_all
  have e2 : (lnm != 0) = true := by simpa using hl
  have e3 : (lenOf s == 0) = false := by simpa using hlen
  rw [e1, e2, e3] at h
  simp only [Bool.false_eq_true, if_false, if_true, show ((112 : Nat) == 112) = true by decide] at h
  simp only [bind_apply, get_apply, edEdit_apply, setRow_apply] at h
  cases he : ({ s.ed with xrow := s.ed.xrow + 1 } : Ed).edit (some (putRep s buf)) (s.ed.xrow + 1) (s.ed.xrow + 1) with
  | none => unfold putRep at he; rw [he] at h; simp at h
  | some ed' =>
    unfold putRep at he
    rw [he] at h
    simp only [setOff_apply, pure_apply, Res.ok.injEq] at h
    exact ⟨ed', rfl, h.2.symm, h.1.symm⟩

/-- the line a charwise put works on -/
def putLine (s : VS) : Bytes := if s.ed.xrow < lenOf s then lineE s s.ed.xrow else [10]

/-- the character offset a charwise put inserts at: the cursor for `P`, one further for `p`
    (except on an empty line) -/
def putOff (cmd : Nat) (s : VS) : Int :=
  Ren.renNoeol (putLine s) s.ed.xoff + (if (putLine s).headD 0 != 10 && cmd == 112 then 1 else 0)

/-- charwise put -/
theorem vcPut_char_eq (cmd : Nat) (s s' : VS) (a : Nat) (buf : Bytes)
    (hreg : regGetLn s.ed s.ybuf = (some buf, some 0)) (hne : buf ≠ [])
    (h : vcPut cmd s = Res.ok a s') :
    ∃ x y ed', subI (putLine s) 0 (putOff cmd s) = some x ∧ subI (putLine s) (putOff cmd s) (-1) = some y ∧
      s.ed.edit (some (x ++ putRep s buf ++ y)) s.ed.xrow (s.ed.xrow + 1) = some ed' ∧
      s' = { s with ed := { ed' with xoff := putOff cmd s + (ucSlen buf : Int) * ((max 1 s.arg1).toNat : Int) - 1 } } ∧
      a = VC_OK := by
  unfold vcPut at h
  simp only [bind_apply, get_apply, hreg] at h
  have e1 : buf.isEmpty = false := by cases buf <;> simp_all
  rw [e1] at h
  simp only [Bool.false_eq_true, if_false, bne_self_eq_false] at h
  simp only [bind_apply] at h
  have hL : (if s.ed.xrow < lenOf s then lineE s s.ed.xrow else [10]) = putLine s := rfl
  rw [hL] at h
  have hO : (Ren.renNoeol (putLine s) s.ed.xoff + (if (putLine s).headD 0 != 10 && cmd == 112 then 1 else 0)) =
      putOff cmd s := rfl
  rw [hO] at h
  have hR : (List.replicate (max 1 s.arg1).toNat buf).flatten = putRep s buf := rfl
  rw [hR] at h
  cases hx : subI (putLine s) 0 (putOff cmd s) with
  | none => rw [hx] at h; simp [liftO_none] at h
  | some x =>
    cases hy : subI (putLine s) (putOff cmd s) (-1) with
    | none => rw [hx, hy] at h; simp [liftO_none, liftO_some] at h
    | some y =>
      rw [hx, hy] at h
      simp only [liftO_some, edEdit_apply] at h
      cases he : s.ed.edit (some (x ++ putRep s buf ++ y)) s.ed.xrow (s.ed.xrow + 1) with
      | none => rw [he] at h; simp at h
      | some ed' =>
        rw [he] at h
        simp only [setOff_apply, pure_apply, Res.ok.injEq] at h
        exact ⟨x, y, ed', rfl, rfl, he, h.2.symm, h.1.symm⟩

/-! ### reading back what `reg_put` stored -/

/-- after `reg_put(c, t, l)` into a plain register (`"` included: it names the unnamed register on both
    sides), `reg_get(c, &lnmode)` returns the text and the mode -/
theorem regGetLn_of_put (ed : Ed) (r : Regs) (c : Nat) (t : Bytes) (l : Nat) (hr : ed.regs = r.put c t l)
    (h : RegsWf r) (hc : c < 256)
    (hu : isUpperC c = false) (h59 : c ≠ 59) (h35 : c ≠ 35) (h94 : c ≠ 94) :
    regGetLn ed c = (some t, some l) := by
  have hu' : isUpperC (regTarget c) = false := by rw [regTarget_upper]; exact hu
  have hg : (r.put c t l).getRaw (regTarget c) = (some t, l) := by
    rw [put_get r c (regTarget c) t l h hc, lowerC_of_not_upper hu', if_pos rfl]
    simp [rawText, hu']
  have hT : (if c == 34 then 0 else c) = regTarget c := rfl
  have e59 : (regTarget c == 59) = false := by
    unfold regTarget; split <;> simp [h59]
  have e35 : (regTarget c == 35) = false := by
    unfold regTarget; split <;> simp [h35]
  have e94 : (regTarget c == 94) = false := by
    unfold regTarget; split <;> simp [h94]
  unfold regGetLn regGet
  simp only [hT, e59, e35, e94, Bool.false_eq_true, if_false, Bool.or_self, hr, hg]

end Neatvi.Lemmas.C08
