import NeatviVerif.Lemmas.C05gDepth
/-!
# C05g lemmas, part 6: nothing but `ec_glob` touches the nesting level of `:g`

`Ed.xgdep` is the `xgdep` counter of `ec_glob` (global commands inside global commands; the marks of a line are
the bits `1 << xgdep` of a `char`).  Every primitive of the ex layer and every handler other than `ec_glob` leaves it
alone; `ec_glob` counts it up for the scan and down again afterwards.  (This file is `Lemmas/C05gDepth.lean` read
for the field `xgdep` instead of `atDepth`.)
-/
namespace Neatvi.Lemmas.C05g
open Neatvi Neatvi.Lbuf Neatvi.LbufIo Neatvi.Ex Neatvi.Rset Neatvi.Lemmas.ExFrame

/-! ### the primitives -/

@[simp] theorem setCur_gdep (ed : Ed) (b : Buf) : (ed.setCur b).xgdep = ed.xgdep := rfl
@[simp] theorem setLb_gdep (ed : Ed) (lb : Lb) : (ed.setLb lb).xgdep = ed.xgdep := by
  unfold Ed.setLb; split <;> rfl
@[simp] theorem show_gdep (ed : Ed) (m : Bytes) : (ed.show m).xgdep = ed.xgdep := rfl
@[simp] theorem print_gdep (ed : Ed) (m : Bytes) : (ed.print m).xgdep = ed.xgdep := rfl
@[simp] theorem putFile_gdep (ed : Ed) (f : File) : (ed.putFile f).xgdep = ed.xgdep := by
  unfold Ed.putFile; split <;> rfl
@[simp] theorem nextFault_gdep (ed : Ed) : ed.nextFault.2.xgdep = ed.xgdep := rfl
@[simp] theorem kwdSet_gdep (ed : Ed) (k : Option Bytes) (d : Int) : (ed.kwdSet k d).xgdep = ed.xgdep := rfl
@[simp] theorem bufsSave_gdep (ed : Ed) : ed.bufsSave.xgdep = ed.xgdep := by
  unfold Ed.bufsSave; split <;> rfl
@[simp] theorem bufsLoad_gdep (ed : Ed) : ed.bufsLoad.xgdep = ed.xgdep := by
  unfold Ed.bufsLoad; split <;> rfl
@[simp] theorem bufsSwitch_gdep (ed : Ed) (i : Nat) : (ed.bufsSwitch i).xgdep = ed.xgdep := by
  unfold Ed.bufsSwitch
  simp only [bufsLoad_gdep]
  split <;> simp only [bufsSave_gdep]
@[simp] theorem bufsOpen_gdep (ed : Ed) (p : Bytes) : (ed.bufsOpen p).2.xgdep = ed.xgdep := rfl
@[simp] theorem bufsShift_gdep (ed : Ed) : ed.bufsShift.xgdep = ed.xgdep := by
  unfold Ed.bufsShift; simp only [bufsLoad_gdep]
@[simp] theorem modifiedAt_gdep (ed : Ed) (i : Nat) : (ed.modifiedAt i).2.xgdep = ed.xgdep := by
  unfold Ed.modifiedAt; split <;> rfl
@[simp] theorem setOpt_gdep (ed : Ed) (v : String) (x : Int) : (setOpt ed v x).xgdep = ed.xgdep := by
  unfold setOpt; repeat' split
  all_goals rfl
@[simp] theorem exTxt_gdep (ed : Ed) (src ex : Bytes) : (exTxt ed src ex).2.xgdep = ed.xgdep := by
  unfold exTxt
  simp only []
  repeat' split
  all_goals rfl

theorem edit_gdep {ed ed' : Ed} {s : Option Bytes} {b e : Int} (h : ed.edit s b e = some ed') :
    ed'.xgdep = ed.xgdep := by
  obtain ⟨_, _, lb, lb', _, _, rfl, _⟩ := Ed_edit_some h
  exact setLb_gdep _ _

/-- close a goal `X.xgdep = ed.xgdep` from the equalities in the hypotheses -/
macro "gdep_omega" : tactic => `(tactic| (
  (repeat' split) <;>
  first
  | rfl
  | omega
  | (simp only [setCur_gdep, setLb_gdep, show_gdep, print_gdep, putFile_gdep, nextFault_gdep, kwdSet_gdep,
      bufsSave_gdep, bufsLoad_gdep, bufsSwitch_gdep, bufsOpen_gdep, bufsShift_gdep, modifiedAt_gdep,
      setOpt_gdep, exTxt_gdep] at * <;> first | rfl | omega)))

/-! ### writing, the guards, addresses, path expansion -/

theorem lbufSave_gdep {ed ed' : Ed} {lb : Lb} {b : Nat} {e : Int} {path : Bytes} {force : Bool} {ts : Int}
    {r : Option Bytes} (h : lbufSave ed lb b e path force ts = some (r, ed')) : ed'.xgdep = ed.xgdep := by
  unfold lbufSave at h
  simp only [] at h
  frame_cases
  all_goals gdep_omega

theorem lbufSaveP_gdep {ed ed' : Ed} {lb : Lb} {b : Nat} {e : Int} {path : Bytes} {force : Bool} {ts : Int}
    {r : Option Bytes} (h : lbufSaveP ed lb b e path force ts = some (r, ed')) : ed'.xgdep = ed.xgdep := by
  unfold lbufSaveP at h
  split at h
  · simp only [] at h
    cases h
    split <;> rfl
  · exact lbufSave_gdep h

theorem bufsModified_gdep {ed ed' : Ed} {i : Nat} {msg : Option Bytes} {r : Bool}
    (h : bufsModified ed i msg = some (r, ed')) : ed'.xgdep = ed.xgdep := by
  unfold bufsModified at h
  simp only [] at h
  frame_cases
  all_goals depth_facts [lbufSave_gdep]
  all_goals gdep_omega

theorem exSearch_gdep {ed ed' : Ed} {loc : Bytes} {r : Int × Bytes} (h : exSearch ed loc = some (r, ed')) :
    ed'.xgdep = ed.xgdep := by
  unfold exSearch at h
  simp only [] at h
  frame_cases
  all_goals gdep_omega

theorem exLineno_gdep {ed ed' : Ed} {loc : Bytes} {r : Int × Bytes} (h : exLineno ed loc = some (r, ed')) :
    ed'.xgdep = ed.xgdep := by
  unfold exLineno at h
  simp only [] at h
  frame_cases
  all_goals depth_facts [exSearch_gdep]
  all_goals gdep_omega

theorem exRegion_go_gdep : ∀ (f : Nat) (ed : Ed) (loc : Bytes) (na : Nat) (b e : Int) (r : Int × Int) (ed' : Ed),
    exRegion.go f ed loc na b e = some (r, ed') → ed'.xgdep = ed.xgdep := by
  intro f
  induction f with
  | zero => intro ed loc na b e r ed' h; rw [exRegion.go] at h; cases h; rfl
  | succ f ih =>
    intro ed loc na b e r ed' h
    rw [exRegion.go] at h
    simp only [] at h
    split at h
    · cases h; rfl
    · split at h
      · cases h
      · rename_i n rest ed1 hl
        have e1 := exLineno_gdep hl
        split at h
        · cases h; exact e1
        · split at h
          · cases h; exact e1
          · have e2 := ih _ _ _ _ _ _ _ h
            rw [e2]
            split <;> exact e1

theorem exRegion_gdep {ed ed' : Ed} {loc : Bytes} {r : Nat × Int × Int} (h : exRegion ed loc = some (r, ed')) :
    ed'.xgdep = ed.xgdep := by
  unfold exRegion at h
  simp only [] at h
  split at h
  · cases h; rfl
  · split at h
    · cases h; rfl
    · split at h
      · cases h
      · rename_i b e ed1 hg
        have e1 := exRegion_go_gdep _ _ _ _ _ _ _ _ hg
        frame_cases
        all_goals exact e1

theorem pathExpand_gdep {ed ed' : Ed} {src : Bytes} {sp : Bool} {r : Option Bytes}
    (h : pathExpand ed src sp = some (r, ed')) : ed'.xgdep = ed.xgdep := by
  unfold pathExpand at h
  frame_cases
  all_goals gdep_omega

theorem foldl_print_gdep (b : Int) : ∀ (l : List Nat) (ed : Ed),
    (l.foldl (fun (ed : Ed) (k : Nat) => match ed.line (b + (k : Int)) with | some l => ed.print l | none => ed) ed).xgdep
      = ed.xgdep := by
  intro l
  induction l with
  | nil => intro ed; rfl
  | cons k l ih =>
    intro ed
    rw [List.foldl_cons, ih]
    split <;> rfl

theorem ecWrite_gdep {ed ed' : Ed} {loc cmd arg : Bytes} {r : Int} (hw : ecWrite ed loc cmd arg = some (r, ed')) :
    ed'.xgdep = ed.xgdep := by
  unfold ecWrite at hw
  simp only [] at hw
  split at hw
  · cases hw
  · rename_i path ed1 hp
    have h1 : ed1.xgdep = ed.xgdep := by
      split at hp
      · exact pathExpand_gdep hp
      · cases hp; rfl
    have hxx : ∀ (m : Bool) (ed2 : Ed), (if (List.headD cmd 0 == 120) = true then some (ed1.modifiedAt 0) else some (true, ed1)) = some (m, ed2) →
        ed2.xgdep = ed.xgdep := by
      intro m ed2 hx
      split at hx
      · have e := (some_pair_inj' (b := (ed1.modifiedAt 0).2) hx).2
        rw [← e, modifiedAt_gdep]; exact h1
      · cases hx; exact h1
    split at hw
    · cases hw
    · rename_i ed2 hx
      cases hw
      exact hxx _ _ hx
    · rename_i ed2 hx
      have h2 := hxx _ _ hx
      split at hw
      · cases hw
      · rename_i rc b e ed3 hr
        have h3 : ed3.xgdep = ed.xgdep := (exRegion_gdep hr).trans h2
        split at hw
        · cases hw; exact h3
        · split at hw
          · cases hw
          · rename_i cur hcur
            split at hw
            · split at hw
              · cases hw; exact h3
              · cases hw; gdep_omega
            · split at hw
              · cases hw
              · rename_i err ed4 hs
                cases hw
                rw [show_gdep]
                exact (lbufSaveP_gdep hs).trans h3
              · rename_i ed4 hs
                have h4 : ed4.xgdep = ed.xgdep := (lbufSaveP_gdep hs).trans h3
                generalize hE : Ed.show ed4 _ = ed5 at hw
                have h5 : ed5.xgdep = ed.xgdep := by rw [← hE]; exact h4
                split at hw
                · cases hw
                · rename_i cur2 hcur2
                  generalize hX : (if cur2.path.isEmpty = true then _ else (cur2, ed5) : Buf × Ed) = X at hw
                  have hX2 : X.2.xgdep = ed.xgdep := by rw [← hX]; split <;> exact h5
                  obtain ⟨c3, ed6⟩ := X
                  simp only [] at hw hX2
                  repeat' (split at hw)
                  all_goals
                    cases hw
                    exact hX2

theorem each_gdep (cmd : Bytes) (all : Bool) : ∀ (g i : Nat) (ed ed' : Ed) (r : Bool),
    runCmd.each cmd all g i ed = some (r, ed') → ed'.xgdep = ed.xgdep := by
  intro g
  induction g with
  | zero => intro i ed ed' r h; rw [runCmd.each.eq_1] at h; cases h; rfl
  | succ g ih =>
    intro i ed ed' r h
    rw [runCmd.each.eq_2] at h
    simp only [] at h
    frame_cases
    all_goals depth_facts [bufsModified_gdep, lbufSaveP_gdep, ih]
    all_goals gdep_omega

/-! ### the handlers that run no command line -/

theorem substPrep_gdep (ed : Ed) (arg : Bytes) : (Props.C14.substPrep ed arg).1.xgdep = ed.xgdep := by
  unfold Props.C14.substPrep
  simp only []
  gdep_omega

open Neatvi.Props in
theorem substLoop_gdep (re : RStr) (g : Bool) (b : Int) : ∀ (n : Nat) (ed ed' : Ed),
    C14.substLoop re g b n ed = some ed' → ed'.xgdep = ed.xgdep := by
  intro n
  induction n with
  | zero => intro ed ed' h; cases h; rfl
  | succ n ih =>
    intro ed ed' h
    rw [C14.substLoop_succ] at h
    cases hm : C14.substLoop re g b n ed with
    | none => rw [hm] at h; cases h
    | some em =>
      rw [hm] at h
      simp only [Option.bind_some] at h
      have hm' := ih _ _ hm
      unfold C14.substStep at h
      frame_cases
      all_goals depth_facts [edit_gdep]
      all_goals gdep_omega

theorem runCmd_print_gdep (f : Nat) (ed ed' : Ed) (loc cmd arg : Bytes) (txt : Option Bytes) (r : Int)
    (h : runCmd f ed "ec_print" loc cmd arg txt = some (r, ed')) : ed'.xgdep = ed.xgdep := by
  cases f with
  | zero => rw [runCmd] at h; cases h
  | succ f =>
    rw [runCmd] at h
    rw [if_neg (by decide), if_pos (by decide)] at h
    split at h
    · cases h; rfl
    · split at h
      · cases h
      · rename_i hr
        have e1 := exRegion_gdep hr
        split at h
        · cases h; exact e1
        · cases h
          exact (foldl_print_gdep _ _ _).trans e1

theorem foldl_pair_gdep {α : Type} (F : Bool × Ed → α → Bool × Ed)
    (hF : ∀ st a, (F st a).2.xgdep = st.2.xgdep) : ∀ (l : List α) (st : Bool × Ed),
    (l.foldl F st).2.xgdep = st.2.xgdep := by
  intro l
  induction l with
  | nil => intro st; rfl
  | cons a l ih => intro st; rw [List.foldl_cons, ih, hF]

/-- every handler other than `ec_at`, `ec_glob`, `ec_edit` (given what those three do) -/
theorem runCmd_gdep (f : Nat) (ed ed' : Ed) (hd : String) (loc cmd arg : Bytes) (txt : Option Bytes) (r : Int)
    (hat : ∀ ed r ed', ecAt f ed loc cmd arg = some (r, ed') → ed'.xgdep = ed.xgdep)
    (hglob : ∀ ed r ed', ecGlob f ed loc cmd arg = some (r, ed') → ed'.xgdep = ed.xgdep)
    (hedit : ∀ ed r ed', ecEdit f ed cmd arg = some (r, ed') → ed'.xgdep = ed.xgdep)
    (h : runCmd (f + 1) ed hd loc cmd arg txt = some (r, ed')) : ed'.xgdep = ed.xgdep := by
  by_cases hs : hd = "ec_substitute"
  · subst hs
    rw [Props.C14.runCmd_subst_eq] at h
    split at h
    · cases h
    · rename_i ed1 hr
      have e1 := exRegion_gdep hr
      have e2 := substPrep_gdep ed1 arg
      repeat' (split at h)
      all_goals (first | cases h | skip)
      · exact e1
      · omega
      · omega
      · rename_i hl
        have := substLoop_gdep _ _ _ _ _ _ hl
        omega
  by_cases hq : hd = "ec_quit"
  · subst hq
    rw [Lemmas.C02Ex.runCmd_quit] at h
    split at h
    · cases h
    · rename_i rc ed1 hw
      have h1 : ed1.xgdep = ed.xgdep := by
        split at hw
        · exact ecWrite_gdep hw
        · cases hw; rfl
      split at h
      · cases h; exact h1
      · split at h
        · cases h
        · rename_i he; cases h; exact (each_gdep _ _ _ _ _ _ _ he).trans h1
        · rename_i he; cases h; exact (each_gdep _ _ _ _ _ _ _ he).trans h1
  by_cases hw : hd = "ec_write"
  · subst hw
    rw [Lemmas.C02Ex.runCmd_write] at h
    exact ecWrite_gdep h
  by_cases he : hd = "ec_edit"
  · subst he
    rw [Lemmas.C02Ex.runCmd_edit] at h
    exact hedit _ _ _ h
  rw [runCmd] at h
  by_cases c : (hd == "ec_insert") = true
  · rw [if_pos c] at h
    simp only [] at h
    clear hat hglob hedit
    frame_cases
    all_goals depth_facts [exRegion_gdep, edit_gdep]
    all_goals gdep_omega
  rw [if_neg c] at h; clear c
  by_cases c : (hd == "ec_print") = true
  · have : hd = "ec_print" := by simpa using c
    subst this
    have h' : runCmd (f + 1) ed "ec_print" loc cmd arg txt = some (r, ed') := by
      rw [runCmd, if_neg (by decide), if_pos (by decide)]
      rw [if_pos c] at h
      exact h
    exact runCmd_print_gdep _ _ _ _ _ _ _ _ h'
  rw [if_neg c] at h; clear c
  by_cases c : (hd == "ec_null") = true
  · rw [if_pos c] at h
    split at h
    · simp only [] at h
      have := runCmd_print_gdep _ _ _ _ _ _ _ _ h
      exact this
    · clear hat hglob hedit
      frame_cases
      all_goals depth_facts [exRegion_gdep]
      all_goals gdep_omega
  rw [if_neg c] at h; clear c
  by_cases c : (hd == "ec_delete" || hd == "ec_yank") = true
  · rw [if_pos c] at h
    simp only [] at h
    clear hat hglob hedit
    frame_cases
    all_goals depth_facts [exRegion_gdep, edit_gdep]
    all_goals gdep_omega
  rw [if_neg c] at h; clear c
  by_cases c : (hd == "ec_put") = true
  · rw [if_pos c] at h
    simp only [] at h
    clear hat hglob hedit
    frame_cases
    all_goals depth_facts [exRegion_gdep, edit_gdep]
    all_goals gdep_omega
  rw [if_neg c] at h; clear c
  by_cases c : (hd == "ec_lnum") = true
  · rw [if_pos c] at h
    clear hat hglob hedit
    frame_cases
    all_goals depth_facts [exRegion_gdep]
    all_goals gdep_omega
  rw [if_neg c] at h; clear c
  by_cases c : (hd == "ec_undo") = true
  · rw [if_pos c] at h
    clear hat hglob hedit
    frame_cases
    all_goals gdep_omega
  rw [if_neg c] at h; clear c
  by_cases c : (hd == "ec_redo") = true
  · rw [if_pos c] at h
    clear hat hglob hedit
    frame_cases
    all_goals gdep_omega
  rw [if_neg c] at h; clear c
  by_cases c : (hd == "ec_mark") = true
  · rw [if_pos c] at h
    clear hat hglob hedit
    frame_cases
    all_goals depth_facts [exRegion_gdep]
    all_goals gdep_omega
  rw [if_neg c] at h; clear c
  by_cases c : (hd == "ec_rs") = true
  · rw [if_pos c] at h
    cases h; rfl
  rw [if_neg c] at h; clear c
  by_cases c : (hd == "ec_at") = true
  · rw [if_pos c] at h
    exact hat _ _ _ h
  rw [if_neg c] at h; clear c
  by_cases c : (hd == "ec_glob") = true
  · rw [if_pos c] at h
    exact hglob _ _ _ h
  rw [if_neg c] at h; clear c
  by_cases c : (hd == "ec_edit") = true
  · exact absurd (by simpa using c) he
  rw [if_neg c] at h; clear c
  by_cases c : (hd == "ec_substitute") = true
  · exact absurd (by simpa using c) hs
  rw [if_neg c] at h; clear c
  by_cases c : (hd == "ec_exec") = true
  · rw [if_pos c] at h
    simp only [] at h
    clear hat hglob hedit
    frame_cases
    all_goals (try (simp only [Option.map_eq_some_iff] at h; obtain ⟨edx, hx1, hx2⟩ := h; cases hx2))
    all_goals depth_facts [exRegion_gdep, edit_gdep, pathExpand_gdep, bufsModified_gdep]
    all_goals gdep_omega
  rw [if_neg c] at h; clear c
  by_cases c : (hd == "ec_read") = true
  · rw [if_pos c] at h
    simp only [] at h
    clear hat hglob hedit
    frame_cases
    all_goals depth_facts [exRegion_gdep, edit_gdep, pathExpand_gdep]
    all_goals gdep_omega
  rw [if_neg c] at h; clear c
  by_cases c : (hd == "ec_write") = true
  · exact absurd (by simpa using c) hw
  rw [if_neg c] at h; clear c
  by_cases c : (hd == "ec_quit") = true
  · exact absurd (by simpa using c) hq
  rw [if_neg c] at h; clear c
  by_cases c : (hd == "ec_buffer") = true
  · rw [if_pos c] at h
    clear hat hglob hedit
    split at h
    · simp only [] at h
      cases h
      rw [foldl_pair_gdep]
      intro st i
      obtain ⟨go, ed0⟩ := st
      simp only []
      gdep_omega
    · split at h
      · simp only [] at h
        frame_cases
        all_goals gdep_omega
      · split at h
        · simp only [] at h
          cases h
          rfl
        · simp only [] at h
          frame_cases
          all_goals depth_facts [bufsModified_gdep]
          all_goals gdep_omega
  rw [if_neg c] at h; clear c
  by_cases c : (hd == "ec_set") = true
  · rw [if_pos c] at h
    simp only [] at h
    clear hat hglob hedit
    frame_cases
    all_goals gdep_omega
  rw [if_neg c] at h; clear c
  by_cases c : (hd == "ec_echo") = true
  · rw [if_pos c] at h
    cases h; rfl
  rw [if_neg c] at h; clear c
  cases h; rfl

end Neatvi.Lemmas.C05g
