import NeatviVerif.Lemmas.C05dWitness
import NeatviVerif.Lemmas.C05dInside
import NeatviVerif.Props.C05b
/-!
# C05d lemmas, part 9: the proofs of the statements of `Props/C05d.lean` that take more than a line
-/
namespace Neatvi.Lemmas.C05d
open Neatvi Neatvi.Lbuf Neatvi.LbufIo Neatvi.Ex
open Neatvi.Props.C02.Ex (exRun)
open Neatvi.Lemmas.C05b (AddrFits)

theorem mark_inside' (lb : Lb) (c : Nat) (p o : Int) (h : LbPos lb) (hj : jump lb c = some (p, o)) :
    0 ≤ p ∧ p ≤ lb.lines.length := by
  unfold jump at hj
  split at hj
  · rename_i i _
    simp only [] at hj
    split at hj
    · cases hj
    · cases hj
      exact ⟨by omega, (h.marks.getD i).2⟩
  · cases hj

theorem current_marks_inside' (M : Option Int) (ed : Ed) (lb : Lb) (c : Nat) (p o : Int) (h : PosOk M ed)
    (hl : ed.lb = some lb) (hj : jump lb c = some (p, o)) : 0 ≤ p ∧ p ≤ ed.len := by
  have := mark_inside' lb c p o (h.lbPos hl) hj
  have hlen : ed.len = lb.lines.length := by unfold Ed.len; rw [hl]
  rw [hlen]; exact this

theorem positions_spelled (ed : Ed) (h : PosOk none ed) :
    -1 ≤ ed.xrow ∧ 0 ≤ ed.xoff ∧
    ∀ i b, ed.bufs.getD i none = some b → -1 ≤ b.row ∧ 0 ≤ b.off ∧
      ∀ c p o, jump b.lb c = some (p, o) → 0 ≤ p ∧ p ≤ b.lb.lines.length := by
  refine ⟨h.xrow.1, h.xoff, fun i b hb => ?_⟩
  have hb' := tabPos_getD h.tab hb
  exact ⟨hb'.row.1, hb'.off, fun c p o hj => mark_inside' b.lb c p o hb'.lb hj⟩

theorem posOk_start_cap (ed0 : Ed) (h0 : ed0.bufs = List.replicate Gen.NBUFS none) (hr : ed0.xrow = 0)
    (ho : ed0.xoff = 0) : PosOk (some NUMMAX) ed0 :=
  posOk_start ed0 _ (fun _ hk => by cases hk; exact Int.le_refl _) h0 hr ho

theorem script_everywhere (ed0 : Ed) (files : List Bytes) (n : Nat) (rc : Int) (ed1 ed : Ed)
    (h0 : ed0.bufs = List.replicate Gen.NBUFS none) (hr : ed0.xrow = 0) (ho : ed0.xoff = 0)
    (hp : ((initArg files).dropWhile (· == 32)).headD 0 ≠ 43)
    (hinit : exInit ed0 files = some (rc, ed1)) (hrun : exRun n ed1 = some ed)
    (hv : ∀ s, VScript n ed1 s → s.len ≤ NUMMAX) : ∀ s, VScript n ed1 s → AddrFits s := by
  have p1 := exInit_pos_noplus (posOk_start_cap ed0 h0 hr ho) hinit hp
  have p := (exRun_pos n ed1 ed p1 hrun (fun s hs _ hk => by cases hk; exact hv s hs)).2
  exact fun s hs => addrFits_of_posOk (p s hs) (hv s hs)

theorem addresses_fit_of (s : Ed) (hf : AddrFits s) :
    (∀ loc : Bytes, loc.length ≤ Gen.EXLEN → Lemmas.C05b.exLinenoChk s loc = exLineno s loc) ∧
    (∀ (loc : Bytes) (k : Nat) (b e : Int) (s' : Ed), exRegion s loc = some ((k, b, e), s') →
      AddrFits s' ∧ -1 ≤ b ∧ b ≤ NUMMAX ∧ -1 ≤ e ∧ e ≤ NUMMAX + 1) :=
  ⟨fun loc hl => Props.C05b.exLineno_no_overflow s loc hf hl,
    fun loc k b e s' h => Props.C05b.exRegion_bounded s s' loc k b e hf h⟩

/-- the conjecture: a handler call takes a state with the row inside the buffer to a state with the row inside -/
def xrow_inside_full : Prop :=
  ∀ (f : Nat) (ed ed' : Ed) (hd : String) (loc cmd arg : Bytes) (txt : Option Bytes) (r : Int),
    PosOk none ed → 0 ≤ ed.xrow → ed.xrow ≤ max 0 (ed.len - 1) → runCmd f ed hd loc cmd arg txt = some (r, ed') →
    0 ≤ ed'.xrow ∧ ed'.xrow ≤ max 0 (ed'.len - 1)

theorem xrow_inside_refuted : ¬ xrow_inside_full := by
  intro hc
  obtain ⟨r, ed', h, hx, hl⟩ := extract w_undo
  have := (hc 1 wEd ed' "ec_undo" [] [117] [] none r wEd_posOk (by decide +kernel) (by decide +kernel) h).2
  rw [hx, hl] at this
  exact absurd this (by decide)

theorem xrow_le_len_refuted :
    ¬ (∀ (f : Nat) (ed ed' : Ed) (loc cmd arg : Bytes) (txt : Option Bytes) (r : Int),
      PosOk none ed → 0 ≤ ed.xrow → ed.xrow < ed.len → runCmd f ed "ec_print" loc cmd arg txt = some (r, ed') →
      ed'.xrow ≤ ed'.len) := by
  intro hc
  obtain ⟨r, ed', h, hx, hl⟩ := extract w_semicolon
  have := hc 1 wEd ed' [57, 59] [112] [] none r wEd_posOk (by decide +kernel) (by decide +kernel) h
  rw [hx, hl] at this
  exact absurd this (by decide)

theorem xrow_nonneg_refuted :
    ¬ (∀ (f : Nat) (ed ed' : Ed) (hd : String) (loc cmd arg : Bytes) (txt : Option Bytes) (r : Int),
      PosOk none ed → 0 ≤ ed.xrow → runCmd f ed hd loc cmd arg txt = some (r, ed') → 0 ≤ ed'.xrow) := by
  intro hc
  obtain ⟨r, ed', h, hx, _⟩ := extract w_change_empty
  have := hc 1 wEd0 ed' "ec_insert" [] [99] [] (some []) r wEd0_posOk (by decide +kernel) h
  rw [hx] at this
  exact absurd this (by decide)

theorem cap_between_lines_refuted :
    ¬ (∀ (m : Int) (ed ed1 ed2 : Ed) (r1 r2 : Int), PosOk none ed → ed.xrow ≤ m → ed.len ≤ m →
      runCmd 1 ed "ec_read" [36] [114] [103] none = some (r1, ed1) →
      runCmd 1 ed1 "ec_undo" [] [117] [] none = some (r2, ed2) → ed2.len ≤ m → ed2.xrow ≤ m) := by
  intro hc
  have hw := w_read_undo
  cases h1 : runCmd 1 wEd "ec_read" [36] [114] [103] none with
  | none => rw [h1] at hw; cases hw
  | some x1 =>
    rw [h1] at hw
    simp only [Option.bind_some] at hw
    obtain ⟨r2, ed2, h2, hx, hl⟩ := extract hw
    have := hc 3 wEd x1.2 ed2 x1.1 r2 wEd_posOk (by decide +kernel) (by decide +kernel) h1 h2 (by rw [hl]; decide)
    rw [hx] at this
    exact absurd this (by decide)

/-! ### concrete runs (the examples of `Props/C05d.lean`) -/

theorem ex_undo : ∃ r ed', runCmd 1 wEd "ec_undo" [] [117] [] none = some (r, ed') ∧ PosOk none ed' ∧ ed'.xrow = 2 ∧
    ed'.len = 1 := by
  obtain ⟨r, ed', h, hx, hl⟩ := extract w_undo
  exact ⟨r, ed', h, runCmd_posOk wEd_posOk h, hx, hl⟩

theorem wEd_posOk_cap : PosOk (some NUMMAX) wEd := (wEdIn_posOk).to rfl rfl rfl

theorem ex_read_capped : ∃ r ed', runCmd 1 wEd "ec_read" [36] [114] [103] none = some (r, ed') ∧ PosOk (some NUMMAX) ed' ∧
    ed'.xrow = 4 ∧ ed'.len = 5 ∧ AddrFits ed' := by
  obtain ⟨r, ed', h, hx, hl⟩ := extract w_read
  have p := (runCmd_pos' wEd_posOk_cap h (fun _ hk => by cases hk; rw [hl]; decide)
    (fun _ hs => absurd hs (vrun_atomic (by decide) (by decide) (by decide)))).1
  exact ⟨r, ed', h, p, hx, hl, addrFits_of_posOk p (by rw [hl]; decide)⟩

theorem ex_step_capped : ∃ r ed', exStep wEdIn = some (r, ed') ∧ ed'.len = 5 ∧ PosOk (some NUMMAX) ed' ∧ AddrFits ed' := by
  obtain ⟨r, ed', h, hl, _⟩ := wEdIn_step
  have p := (exStep_pos wEdIn_posOk h (fun s hs _ hk => by cases hk; rw [wEdIn_visits s hs]; decide)).1
  exact ⟨r, ed', h, hl, p, addrFits_of_posOk p (by rw [hl]; decide)⟩

theorem ex_run : ∃ ed', exRun 1 wEdIn = some ed' ∧ ed'.len = 5 ∧ PosOk none ed' := by
  obtain ⟨r, ed', h, hl, hin⟩ := wEdIn_step
  have hr : exRun 1 wEdIn = some ed' := by
    rw [exRun, if_neg (by decide), h]
    rfl
  exact ⟨ed', hr, hl, exRun_posOk wEdIn_posOk.uncap hr⟩

theorem ex_init : ∃ rc ed1, exInit wEdStart [[102]] = some (rc, ed1) ∧ ed1.len = 3 ∧ PosOk none ed1 := by
  obtain ⟨rc, ed1, h, hl, _⟩ := wEdStart_init
  exact ⟨rc, ed1, h, hl, exInit_posOk (posOk_start wEdStart _ (fun _ h => by cases h) rfl rfl rfl) h⟩

theorem ex_read_row_in : ∃ ed', runCmd 1 wEd "ec_read" [36] [114] [103] none = some (0, ed') ∧ -1 ≤ ed'.xrow ∧
    ed'.xrow ≤ ed'.len := by
  cases h : runCmd 1 wEd "ec_read" [36] [114] [103] none with
  | none => have := w_read; rw [h] at this; cases this
  | some x =>
    have hw := w_read
    rw [h] at hw
    simp only [Option.map_some, Option.some.injEq, Prod.mk.injEq] at hw
    obtain ⟨r, ed'⟩ := x
    simp only [] at hw
    obtain ⟨rfl, _, _⟩ := hw
    exact ⟨ed', rfl, runCmd_row_in 0 wEd ed' "ec_read" [36] [114] [103] none (by simp) wEd_posOk h⟩

end Neatvi.Lemmas.C05d
