import NeatviVerif.Lemmas.C06dParse
import NeatviVerif.Lemmas.C06dFrame
/-!
# C06d, command lines and scripts whose commands have general addresses and arguments

`Cmd1.Parses c t`: the command `c` (address, name, blanks, argument) in front of `t` is split by `ex_exec` into exactly
these pieces.  `C06b.Cmd1.Ok` (simple addresses, plain arguments) and `CmdX.Ok` (address trees, backslash pairs) both
imply it; the theorems about lines and scripts only need `Parses`.
-/
namespace Neatvi.Lemmas.C06d
open Neatvi Neatvi.Ex Neatvi.Lemmas.C06 Neatvi.Lemmas.C06b

/-- `ex_exec` splits `c.bytes ++ t` into the pieces of `c`, leaving `t` without its `|`; and `c` is not `rs` -/
def Parses (c : Cmd1) (t : Bytes) : Prop :=
  parse1 (c.bytes ++ t) = c.parsed (t.drop 1) ∧ isRs (abbrOf (exIdx c.cmd)) = false

theorem parses_of_ok (c : Cmd1) (t : Bytes) (h : c.Ok t) : Parses c t := ⟨parse1_cmd1 c t h, h.notRs⟩

/-- every command is split correctly in front of what follows it, and the last one is not empty -/
def LineParses : List Cmd1 → Prop
  | [] => True
  | [c] => Parses c [] ∧ c.bytes ≠ []
  | c :: d :: cs => Parses c (124 :: joinBar (d :: cs)) ∧ LineParses (d :: cs)

theorem lineParses_of_ok : ∀ (cs : List Cmd1), LineOk cs → LineParses cs := by
  intro cs
  induction cs with
  | nil => intro _; trivial
  | cons c cs ih =>
    intro h
    cases cs with
    | nil => exact ⟨parses_of_ok c [] h.1, h.2⟩
    | cons d ds => exact ⟨parses_of_ok c _ h.1, ih h.2⟩

theorem cmds_line_gen (f : Nat) : ∀ (cs : List Cmd1) (g : Nat) (ed : Ed) (ret : Int), LineParses cs → cs.length ≤ g →
    exExec.cmds f g ed (joinBar cs) ret = runLine f ed cs ret := by
  intro cs
  induction cs with
  | nil => intro g ed ret _ _; rw [joinBar, cmds_nil]; rfl
  | cons c cs ih =>
    intro g ed ret hok hg
    obtain ⟨g, rfl⟩ : ∃ k, g = k + 1 := ⟨g - 1, by simp at hg; omega⟩
    cases cs with
    | nil =>
      obtain ⟨⟨h1, hrs⟩, h2⟩ := hok
      have hp : parse1 c.bytes = c.parsed [] := by simpa using h1
      have hne : c.bytes.isEmpty = false := by
        cases hb : c.bytes with
        | nil => exact absurd hb h2
        | cons x xs => rfl
      rw [joinBar, cmds_succ, hne, hp, runLine]
      simp only [Bool.false_eq_true, if_false, joinBar]
      cases hr : runOne f ed (c.parsed []) ret with
      | none => rfl
      | some x =>
        obtain ⟨⟨r, ed1⟩, rest⟩ := x
        have hrest : rest = [] := by
          unfold runOne at hr
          have ht := exTxt_rest_notRs ed [] (abbrOf (exIdx c.cmd)) hrs
          simp only [Cmd1.parsed] at hr
          split at hr
          · cases hr; exact ht
          · split at hr
            · cases hr
            · cases hr; exact ht
        subst hrest
        simp only [cmds_nil, runLine]
    | cons d ds =>
      obtain ⟨⟨h1, hrs⟩, h2⟩ := hok
      have hp : parse1 (c.bytes ++ 124 :: joinBar (d :: ds)) = c.parsed (joinBar (d :: ds)) := by simpa using h1
      have hne : (c.bytes ++ 124 :: joinBar (d :: ds)).isEmpty = false := by simp
      rw [joinBar, cmds_succ, hne, hp, runLine]
      simp only [Bool.false_eq_true, if_false]
      cases hr : runOne f ed (c.parsed (joinBar (d :: ds))) ret with
      | none => rfl
      | some x =>
        obtain ⟨⟨r, ed1⟩, rest⟩ := x
        have hrest : rest = joinBar (d :: ds) := by
          unfold runOne at hr
          have ht := exTxt_rest_notRs ed (joinBar (d :: ds)) (abbrOf (exIdx c.cmd)) hrs
          simp only [Cmd1.parsed] at hr
          split at hr
          · cases hr; exact ht
          · split at hr
            · cases hr
            · cases hr; exact ht
        subst hrest
        simp only []
        exact ih g ed1 r h2 (by simp at hg ⊢; omega)

/-! ### commands given by an address tree and argument pieces -/

/-- a command in pieces: address tree, letters of the name, `!`/`=`/`@` suffix, blanks, argument pieces -/
structure CmdX where
  loc : Loc
  w : Bytes
  sfx : Bytes
  sp : Bytes
  arg : List PTok

/-- its text, as a `Cmd1` -/
def CmdX.cmd1 (c : CmdX) : Cmd1 := ⟨c.loc.render, c.w, c.sfx, c.sp, rawPat c.arg⟩

/-- the command is well-formed in front of `t` (nothing, or `|…`), takes a plain argument, and is not `rs` -/
structure CmdX.Ok (c : CmdX) (t : Bytes) : Prop where
  gen : GenCmd c.loc c.w c.sfx c.sp c.arg t
  plain : plainAbbr (abbrOf (exIdx (c.w ++ c.sfx))) (rawPat c.arg) = true
  notRs : isRs (abbrOf (exIdx (c.w ++ c.sfx))) = false

theorem parses_of_okX (c : CmdX) (t : Bytes) (h : c.Ok t) : Parses c.cmd1 t := by
  refine ⟨?_, h.notRs⟩
  have := parse1_gen h.gen h.plain
  unfold Cmd1.bytes Cmd1.parsed Cmd1.cmd CmdX.cmd1
  simp only []
  rw [this]

/-- the line `c1|c2|…` of such commands -/
def joinBarX (cs : List CmdX) : Bytes := joinBar (cs.map CmdX.cmd1)

def LineOkX : List CmdX → Prop
  | [] => True
  | [c] => c.Ok [] ∧ c.cmd1.bytes ≠ []
  | c :: d :: cs => c.Ok (124 :: joinBarX (d :: cs)) ∧ LineOkX (d :: cs)

theorem lineParses_of_okX : ∀ (cs : List CmdX), LineOkX cs → LineParses (cs.map CmdX.cmd1) := by
  intro cs
  induction cs with
  | nil => intro _; trivial
  | cons c cs ih =>
    intro h
    cases cs with
    | nil => exact ⟨parses_of_okX c [] h.1, h.2⟩
    | cons d ds => exact ⟨parses_of_okX c _ h.1, ih h.2⟩

/-! ### lines and scripts -/

open Neatvi.Props.C06b in
/-- a line of commands joined by `|`, each split correctly: all of them run, in order -/
theorem exExec_line_gen (f : Nat) (ed : Ed) (cs : List Cmd1) (hok : LineParses cs) (hlen : (joinBar cs).length < Gen.EXLEN) :
    exExec (f + 1) ed (joinBar cs) = runLine f ed cs 0 := by
  rw [exExec_short f ed _ hlen]
  exact cmds_line_gen f cs _ ed 0 hok (joinBar_length cs)

open Neatvi.Props.C06b in
theorem exCommand_line_gen (f : Nat) (ed : Ed) (c : Cmd1) (a : Bytes) (hd : String) (hok : Parses c []) (hne : c.bytes ≠ [])
    (hlen : c.bytes.length < Gen.EXLEN) (hi : exIdx c.cmd = some (a, hd)) :
    exCommand (f + 2) ed c.bytes =
      (runCmd f (exTxt ed [] a).2 hd c.loc c.cmd c.arg (exTxt ed [] a).1.1).map
        (fun x => (x.1, (x.2.modifiedAt 0).2)) := by
  have hl := exExec_line_gen f ed [c] ⟨hok, hne⟩ (by simpa only [joinBar] using hlen)
  simp only [joinBar] at hl
  rw [exCommand, hl]
  simp only [runLine, joinBar, runOne, Cmd1.parsed, hi, abbrOf]
  cases runCmd f (exTxt ed [] a).2 hd c.loc c.cmd c.arg (exTxt ed [] a).1.1 with
  | none => rfl
  | some x => rfl

open Neatvi.Props.C06b in
/-- a script line covered here: one command of the table among `a i c d y pu k = p r`, split correctly by `ex_exec` -/
def CoveredLineG (c : Cmd1) : Prop :=
  Parses c [] ∧ c.bytes ≠ [] ∧ c.bytes.length < Gen.EXLEN ∧ ∃ a hd, exIdx c.cmd = some (a, hd) ∧ hd ∈ covered

open Neatvi.Props.C06b in
theorem script_frame_lines_gen (f : Nat) : ∀ (script : List Cmd1) (ed ed' : Ed) (ss : List Splice),
    (∀ c ∈ script, CoveredLineG c) → runLines f ed script = some (ss, ed') →
    lines ed' = applySplices (lines ed) ss ∧ ss.length = script.length ∧ SplicesOk (lines ed) ss := by
  intro script
  induction script with
  | nil =>
    intro ed ed' ss _ h
    simp only [runLines, Option.some.injEq, Prod.mk.injEq] at h
    obtain ⟨rfl, rfl⟩ := h
    exact ⟨rfl, rfl, trivial⟩
  | cons c cs ih =>
    intro ed ed' ss hcov h
    obtain ⟨hok, hne, hlen, a, hd, hi, hc⟩ := hcov c (by simp)
    simp only [runLines] at h
    split at h
    · cases h
    · rename_i rc ed1 hrun
      simp only [Option.map_eq_some_iff, Prod.mk.injEq] at h
      obtain ⟨⟨ss1, ed2⟩, h1, rfl, rfl⟩ := h
      rw [exCommand_line_gen (f + 1) ed c a hd hok hne hlen hi] at hrun
      simp only [Option.map_eq_some_iff, Prod.mk.injEq] at hrun
      obtain ⟨⟨rc', edr⟩, hr, rfl, rfl⟩ := hrun
      have hlc : lineCmd ed c = (⟨hd, c.loc, c.cmd, c.arg, (exTxt ed [] a).1.1⟩, (exTxt ed [] a).2) := by
        simp only [lineCmd, hi]
      obtain ⟨k1, k2, k3⟩ := cmd_splice f (exTxt ed [] a).2 edr ⟨hd, c.loc, c.cmd, c.arg, (exTxt ed [] a).1.1⟩ rc' hc hr
      rw [exTxt_lines] at k2 k3
      obtain ⟨i1, i2, i3⟩ := ih _ ed2 ss1 (fun x hx => hcov x (by simp [hx])) h1
      rw [modifiedAt0_lines, k3] at i1 i3
      rw [hlc]
      exact ⟨i1, by simp [i2], k1, k2, i3⟩

open Neatvi.Props.C06b in
theorem exCommand_bar_gen (f : Nat) (ed : Ed) (cs : List Cmd1) (hok : LineParses cs) (hlen : (joinBar cs).length < Gen.EXLEN) :
    exCommand (f + 3) ed (joinBar cs) = (runBar f ed cs 0).map (fun x => (x.2.1, (x.2.2.modifiedAt 0).2)) := by
  rw [exCommand, exExec_line_gen (f + 1) ed cs hok hlen, ← runBar_runLine f cs ed 0]
  cases runBar f ed cs 0 with
  | none => rfl
  | some x => rfl

open Neatvi.Props.C06b in
theorem runBarLines_exCommand_gen (f : Nat) (ed : Ed) (l : List Cmd1) (ls : List (List Cmd1)) (hok : LineParses l)
    (hlen : (joinBar l).length < Gen.EXLEN) :
    runBarLines f ed (l :: ls) =
      match runBar f ed l 0, exCommand (f + 3) ed (joinBar l) with
      | some (ss, _, _), some (_, ed1) => (runBarLines f ed1 ls).map (fun x => (ss ++ x.1, x.2))
      | _, _ => none := by
  rw [exCommand_bar_gen f ed l hok hlen]
  simp only [runBarLines]
  cases runBar f ed l 0 with
  | none => rfl
  | some x => rfl

/-! ### `:s/pat/rep/flags` in a line: the `|` inside the pattern does not split the line -/

open Neatvi.Props.C06b in
/-- the line `[addr]s/pat/rep/flags` followed by `t` (nothing, or `|rest`): `ex_exec` runs the substitute with the whole
    delimited argument — `|` inside the pattern or the replacement included — and then, whatever it returned, the
    rest of the line after the `|` that follows the flags -/
theorem exExec_subst (f : Nat) (ed : Ed) {loc : Loc} {w sp : Bytes} {delim : Nat} {pat rep : List PTok} {flags t : Bytes}
    (h : SubstCmd loc w sp delim pat rep flags t) (a : Bytes) (hi : exIdx w = some (a, "ec_substitute"))
    (ht : takesText a = false)
    (hlen : (loc.render ++ (w ++ (sp ++ (substArg delim pat rep flags ++ t)))).length < Gen.EXLEN)
    (hk : t.drop 1 = [] ∨ (parse1 (t.drop 1)).idx.isSome) :
    exExec (f + 1) ed (loc.render ++ (w ++ (sp ++ (substArg delim pat rep flags ++ t)))) =
      match runCmd f ed "ec_substitute" loc.render w (substArg delim pat rep flags) none with
      | none => none
      | some (r, ed1) => if t.drop 1 = [] then some (r, ed1) else exExec (f + 1) ed1 (t.drop 1) := by
  have hp := parse1_subst h
  have hne : loc.render ++ (w ++ (sp ++ (substArg delim pat rep flags ++ t))) ≠ [] := by
    cases hw : w with
    | nil => exact absurd hw h.w_ne
    | cons c w' => simp
  have hone : ∀ ret, runOne f ed (parse1 (loc.render ++ (w ++ (sp ++ (substArg delim pat rep flags ++ t))))) ret =
      (runCmd f ed "ec_substitute" loc.render w (substArg delim pat rep flags) none).map (fun x => (x, t.drop 1)) := by
    intro ret
    rw [hp]
    exact runOne_known f ed _ ret a "ec_substitute" hi ht
  cases hr : runCmd f ed "ec_substitute" loc.render w (substArg delim pat rep flags) none with
  | none =>
    rw [exExec_eq_execFrom f ed _ hlen, exExec_unfold f ed _ 0 hne, hone, hr]
    rfl
  | some x =>
    obtain ⟨r, ed1⟩ := x
    exact exExec_seq f ed ed1 _ (t.drop 1) r hne hlen (by rw [hone, hr]; rfl) hk

end Neatvi.Lemmas.C06d
