import NeatviVerif.Lemmas.C05eP
import NeatviVerif.Lemmas.C05eM
import NeatviVerif.Lemmas.C05eK
/-!
# C05e lemmas, part Q: `:g` over a command list that acts on the current buffer — no trap, no hypothesis left

A *local* flat line: every command is flat and its handler acts on the current buffer only (not `:e`, `:b`, `:q` and
relatives).  Such a line returns and adds no mark (`exec_lflat`), so a `:g` whose command list is one ends within its
budget (`run_glob_lflat`).  `gflatLine`: flat commands and such `:g` commands mixed.
-/
namespace Neatvi.Lemmas.C05e
open Neatvi Neatvi.Lbuf Neatvi.LbufIo Neatvi.Ex Neatvi.Rset Neatvi.Lemmas.C06b
open Neatvi.Lemmas.ExFrame Neatvi.Lemmas.C02Ex Neatvi.Lemmas.C02b Neatvi.Lemmas.C06

/-- the handler acts on the current buffer only and runs no command line -/
def localHandler (hd : String) : Bool :=
  hd != "ec_at" && hd != "ec_glob" && hd != "ec_edit" && hd != "ec_quit" && hd != "ec_buffer"

/-- a flat command with a local handler -/
def lflatCmd (p : Parsed) : Bool :=
  !p.loc.contains 0 && !p.arg.contains 0 &&
  match p.idx with
  | none => true
  | some (_, hd) => localHandler hd && (!pathHandler hd || plainArg p.arg)

def lflatLine : Nat → Bytes → Bool
  | 0, _ => true
  | n + 1, ln => ln.isEmpty || (lflatCmd (parse1 ln) && lflatLine n (restOf ln))

/-- the dispatcher on a local flat command: returns, adds no mark -/
theorem runCmd_lflat (k : Nat) {ed : Ed} (h : Safe ed) (p : Parsed) (a : Bytes) (hd : String) (hi : p.idx = some (a, hd))
    (hf : lflatCmd p = true) (hl : p.arg.length < 1000) (txt : Option Bytes) :
    RetM ed (runCmd (k + 2) ed hd p.loc p.cmd p.arg txt) := by
  have hre := reSafe
  have hgr := reGroups
  unfold lflatCmd at hf
  rw [hi] at hf
  unfold localHandler at hf
  simp only [Bool.and_eq_true, Bool.not_eq_true', Bool.or_eq_true, bne_iff_ne, ne_eq] at hf
  obtain ⟨⟨hloc', harg'⟩, ⟨⟨⟨⟨hnat, hnglob⟩, hnedit⟩, hnquit⟩, hnbuf⟩, hpath⟩ := hf
  have hloc : 0 ∉ p.loc := by intro hm; rw [List.contains_iff_mem.mpr hm] at hloc'; cases hloc'
  have harg : 0 ∉ p.arg := by intro hm; rw [List.contains_iff_mem.mpr hm] at harg'; cases harg'
  have hpf : pathHandler hd = true → ∀ sp, PathFits ed p.arg sp := by
    intro hph sp
    rcases hpath with hp | hp
    · rw [hph] at hp; cases hp
    · exact pathFits_plain ed p.arg sp (plainArg_iff hp) hl
  by_cases c1 : hd = "ec_insert"
  · subst c1; exact run_insert_m hre (k + 1) h _ _ _ _ hloc
  by_cases c2 : hd = "ec_print"
  · subst c2; exact run_print_m hre (k + 1) h _ _ _ _ hloc
  by_cases c3 : hd = "ec_null"
  · subst c3; exact run_null_m hre k h _ _ _ _ hloc
  by_cases c4 : hd = "ec_delete"
  · subst c4; exact run_delete_m hre (k + 1) h _ _ _ _ hloc
  by_cases c5 : hd = "ec_yank"
  · subst c5; exact run_yank_m hre (k + 1) h _ _ _ _ hloc
  by_cases c6 : hd = "ec_put"
  · subst c6; exact run_put_m hre (k + 1) h _ _ _ _ hloc
  by_cases c7 : hd = "ec_lnum"
  · subst c7; exact run_lnum_m hre (k + 1) h _ _ _ _ hloc
  by_cases c8 : hd = "ec_undo"
  · subst c8; exact run_undo_m (k + 1) h _ _ _ _
  by_cases c9 : hd = "ec_redo"
  · subst c9; exact run_redo_m (k + 1) h _ _ _ _
  by_cases c10 : hd = "ec_mark"
  · subst c10; exact run_mark_m hre (k + 1) h _ _ _ _ hloc
  by_cases c11 : hd = "ec_rs"
  · subst c11; exact run_rs_m (k + 1) h _ _ _ _
  by_cases c15 : hd = "ec_substitute"
  · subst c15; exact run_subst_m hre hgr (k + 1) h _ _ _ _ hloc harg
  by_cases c16 : hd = "ec_exec"
  · subst c16; exact run_exec_m hre (k + 1) h _ _ _ _ hloc (hpf rfl true)
  by_cases c17 : hd = "ec_read"
  · subst c17; exact run_read_m hre (k + 1) h _ _ _ _ hloc (hpf rfl true)
  by_cases c18 : hd = "ec_write"
  · subst c18; exact run_write_m hre (k + 1) h _ _ _ _ hloc (hpf rfl true)
  by_cases c21 : hd = "ec_set"
  · subst c21; exact run_set_m (k + 1) h _ _ _ _
  by_cases c22 : hd = "ec_echo"
  · subst c22; exact run_echo_m (k + 1) h _ _ _ _
  rw [run_other (k + 1) ed hd (by simp [modelled, c1, c2, c3, c4, c5, c6, c7, c8, c9, c10, c11, hnat, hnglob, hnedit, c15, c16, c17,
    c18, hnquit, hnbuf, c21, c22])]
  exact RetM.mk (h.of_bufs rfl) rfl (MLe.of_bufs rfl)

theorem exTxt_mle (ed : Ed) (src a : Bytes) : MLe ed (exTxt ed src a).2 := by
  refine MLe.of_bufs ?_
  unfold exTxt
  simp only []
  generalize (if (a.headD 0 != 0) = true then a.getD 1 0 else 0) = c1
  repeat' split
  all_goals rfl

/-- the loop of `ex_exec` over a local flat line -/
theorem cmds_lflat (k : Nat) : ∀ (g : Nat) (ed : Ed) (ln : Bytes) (ret : Int), Safe ed →
    ln.length < 1000 → lflatLine g ln = true → RetM ed (exExec.cmds (k + 2) g ed ln ret) := by
  intro g
  induction g with
  | zero => intro ed ln ret h _ _; rw [exExec.cmds]; exact RetM.mk h rfl (MLe.refl _)
  | succ g ih =>
    intro ed ln ret h hlen hfl
    rw [cmds_succ]
    split
    · exact RetM.mk h rfl (MLe.refl _)
    · rw [lflatLine] at hfl
      have hemp : ln.isEmpty = false := by cases hq : ln.isEmpty <;> simp_all
      rw [hemp, Bool.false_or, Bool.and_eq_true] at hfl
      have hrs := restOf_sublist ln
      have hrest : ∀ (ed1 : Ed) (r : Int), Safe ed1 → ed1.atDepth = ed.atDepth → MLe ed ed1 →
          RetM ed (exExec.cmds (k + 2) g ed1 (restOf ln) r) :=
        fun ed1 r h1 hd1 hm1 => (ih ed1 (restOf ln) r h1 (Nat.lt_of_le_of_lt hrs.length_le hlen) hfl.2).from hd1 hm1
      obtain ⟨hT, hdT⟩ := exTxt_safe h (parse1 ln).rest (abbrOf (parse1 ln).idx)
      have hmT := exTxt_mle ed (parse1 ln).rest (abbrOf (parse1 ln).idx)
      cases hi : (parse1 ln).idx with
      | none =>
        have hro : runOne (k + 2) ed (parse1 ln) ret =
            some ((ret, (exTxt ed (parse1 ln).rest (abbrOf (parse1 ln).idx)).2.show (strOf "unknown command")),
              (exTxt ed (parse1 ln).rest (abbrOf (parse1 ln).idx)).1.2) := by
          unfold runOne; rw [hi]
        rw [hro]
        dsimp only
        rw [show (exTxt ed (parse1 ln).rest (abbrOf (parse1 ln).idx)).1.2 = restOf ln from
          exTxt_rest_indep ed {} _ _]
        exact hrest _ _ (hT.show _) hdT (hmT.trans (MLe.of_bufs rfl))
      | some ah =>
        obtain ⟨a, hh⟩ := ah
        have hal : (parse1 ln).arg.length < 1000 := Nat.lt_of_le_of_lt (parse1_arg_sublist ln).length_le hlen
        obtain ⟨r, ed1, he, h1, hd1, hm1⟩ := runCmd_lflat k hT (parse1 ln) a hh hi hfl.1 hal
          (exTxt ed (parse1 ln).rest (abbrOf (parse1 ln).idx)).1.1
        have hro : runOne (k + 2) ed (parse1 ln) ret =
            some ((r, ed1), (exTxt ed (parse1 ln).rest (abbrOf (parse1 ln).idx)).1.2) := by
          unfold runOne; rw [hi]; dsimp only; rw [hi] at he; rw [he]
        rw [hro]
        dsimp only
        rw [show (exTxt ed (parse1 ln).rest (abbrOf (parse1 ln).idx)).1.2 = restOf ln from
          exTxt_rest_indep ed {} _ _]
        exact hrest _ _ h1 (hd1.trans hdT) (hmT.trans hm1)

/-- **a local flat line returns and adds no mark** -/
theorem exec_lflat (k : Nat) {ed : Ed} (h : Safe ed) (ln : Bytes) (hfl : lflatLine (ln.length + 1) ln = true) :
    RetM ed (exExec (k + 3) ed ln) := by
  by_cases hlong : ln.length ≥ Gen.EXLEN
  · rw [exExec, if_pos hlong]
    exact RetM.mk (h.show _) rfl (MLe.of_bufs rfl)
  · rw [exExec, if_neg hlong]
    exact cmds_lflat k (ln.length + 1) ed ln 0 h (by rw [exlen_eq] at hlong; omega) hfl

/-- **`:g` over a local flat command list**: no trap, and the scan ends within the budget -/
theorem run_glob_lflat (k : Nat) {ed : Ed} (h : Safe ed) (loc cmd arg : Bytes) (txt : Option Bytes)
    (hloc : 0 ∉ loc) (harg : 0 ∉ arg) (hfl : lflatLine ((reRead arg).2.length + 1) (reRead arg).2 = true) :
    Ret ed.atDepth (runCmd (k + 5) ed "ec_glob" loc cmd arg txt) := by
  refine run_glob_marks reSafe (k + 3) h loc cmd arg txt hloc harg ?_ ?_
  · intro ed' i' hs' hd'
    obtain ⟨r, ed2, he, hs2, hd2, _⟩ := exec_lflat k (ed := { ed' with xrow := i' }) (hs'.of_bufs rfl) _ hfl
    exact ⟨r, ed2, he, hs2, hd2.trans hd'⟩
  · intro dep ed' i' r ed'' _ hs' _ he
    obtain ⟨r2, ed2, he2, _, _, hm⟩ := exec_lflat k (ed := { ed' with xrow := i' }) (hs'.of_bufs rfl) _ hfl
    rw [he] at he2
    cases he2
    exact Nat.le_trans (hm dep) ((MLe.of_bufs (ed := ed') (ed' := { ed' with xrow := i' }) rfl) dep)


/-! ### lines that mix flat commands and such `:g` commands -/

/-- a flat command, or a command of the `:g` family whose command list is a local flat line -/
def gflatCmd (p : Parsed) : Bool :=
  flatCmd p ||
  (match p.idx with
   | some (_, hd) => hd == "ec_glob" && !p.loc.contains 0 && !p.arg.contains 0 &&
       lflatLine ((reRead p.arg).2.length + 1) (reRead p.arg).2
   | none => false)

def gflatLine : Nat → Bytes → Bool
  | 0, _ => true
  | n + 1, ln => ln.isEmpty || (gflatCmd (parse1 ln) && gflatLine n (restOf ln))

theorem runCmd_gflat (k : Nat) {ed : Ed} (h : Safe ed) (p : Parsed) (a : Bytes) (hd : String) (hi : p.idx = some (a, hd))
    (hf : gflatCmd p = true) (hl : p.arg.length < 1000) (txt : Option Bytes) :
    Ret ed.atDepth (runCmd (k + 5) ed hd p.loc p.cmd p.arg txt) := by
  unfold gflatCmd at hf
  rw [Bool.or_eq_true] at hf
  rcases hf with hf | hf
  · exact runCmd_flat (k + 3) h p a hd hi hf hl txt
  · rw [hi] at hf
    simp only [Bool.and_eq_true, beq_iff_eq, Bool.not_eq_true'] at hf
    obtain ⟨⟨⟨hg, hloc'⟩, harg'⟩, hbody⟩ := hf
    have hloc : 0 ∉ p.loc := by intro hm; rw [List.contains_iff_mem.mpr hm] at hloc'; cases hloc'
    have harg : 0 ∉ p.arg := by intro hm; rw [List.contains_iff_mem.mpr hm] at harg'; cases harg'
    subst hg
    exact run_glob_lflat k h p.loc p.cmd p.arg txt hloc harg hbody

theorem cmds_gflat (k d : Nat) : ∀ (g : Nat) (ed : Ed) (ln : Bytes) (ret : Int), Safe ed → ed.atDepth = d →
    ln.length < 1000 → gflatLine g ln = true → Ret d (exExec.cmds (k + 5) g ed ln ret) := by
  intro g
  induction g with
  | zero => intro ed ln ret h hd _ _; rw [exExec.cmds]; exact Ret.mk h hd
  | succ g ih =>
    intro ed ln ret h hd hlen hfl
    rw [show k + 5 = (k + 3) + 2 from rfl, cmds_succ]
    split
    · exact Ret.mk h hd
    · rw [gflatLine] at hfl
      have hemp : ln.isEmpty = false := by cases hq : ln.isEmpty <;> simp_all
      rw [hemp, Bool.false_or, Bool.and_eq_true] at hfl
      have hrs := restOf_sublist ln
      have hrest : ∀ (ed1 : Ed) (r : Int), Safe ed1 → ed1.atDepth = d → Ret d (exExec.cmds (k + 5) g ed1 (restOf ln) r) :=
        fun ed1 r h1 hd1 => ih ed1 (restOf ln) r h1 hd1 (Nat.lt_of_le_of_lt hrs.length_le hlen) hfl.2
      obtain ⟨hT, hdT⟩ := exTxt_safe h (parse1 ln).rest (abbrOf (parse1 ln).idx)
      cases hi : (parse1 ln).idx with
      | none =>
        have hro : runOne (k + 3 + 2) ed (parse1 ln) ret =
            some ((ret, (exTxt ed (parse1 ln).rest (abbrOf (parse1 ln).idx)).2.show (strOf "unknown command")),
              (exTxt ed (parse1 ln).rest (abbrOf (parse1 ln).idx)).1.2) := by
          unfold runOne; rw [hi]
        rw [hro]
        dsimp only
        rw [show (exTxt ed (parse1 ln).rest (abbrOf (parse1 ln).idx)).1.2 = restOf ln from
          exTxt_rest_indep ed {} _ _]
        exact hrest _ _ (hT.show _) (by rw [← hd]; exact hdT)
      | some ah =>
        obtain ⟨a, hh⟩ := ah
        have hal : (parse1 ln).arg.length < 1000 := Nat.lt_of_le_of_lt (parse1_arg_sublist ln).length_le hlen
        obtain ⟨r, ed1, he, h1, hd1⟩ := runCmd_gflat k hT (parse1 ln) a hh hi hfl.1 hal
          (exTxt ed (parse1 ln).rest (abbrOf (parse1 ln).idx)).1.1
        have hro : runOne (k + 3 + 2) ed (parse1 ln) ret =
            some ((r, ed1), (exTxt ed (parse1 ln).rest (abbrOf (parse1 ln).idx)).1.2) := by
          unfold runOne; rw [hi]; dsimp only; rw [hi] at he; rw [he]
        rw [hro]
        dsimp only
        rw [show (exTxt ed (parse1 ln).rest (abbrOf (parse1 ln).idx)).1.2 = restOf ln from
          exTxt_rest_indep ed {} _ _]
        exact hrest _ _ h1 (by rw [hd1, hdT, hd])

/-- **a line of flat commands and `:g` over local flat command lists never traps**: every fuel `≥ 6` -/
theorem exec_gflat (k : Nat) {ed : Ed} (h : Safe ed) (ln : Bytes) (hfl : gflatLine (ln.length + 1) ln = true) :
    Ret ed.atDepth (exExec (k + 6) ed ln) := by
  by_cases hlong : ln.length ≥ Gen.EXLEN
  · exact exExec_long (k + 5) h hlong
  · rw [exExec, if_neg hlong]
    exact cmds_gflat k ed.atDepth (ln.length + 1) ed ln 0 h rfl (by rw [exlen_eq] at hlong; omega) hfl

end Neatvi.Lemmas.C05e
