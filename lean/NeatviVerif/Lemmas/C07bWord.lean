import NeatviVerif.Lemmas.C07bSim
/-!
# C07b: what the index scanners `wl`, `wb`, `we` compute

Pure reasoning over a text `c : Nat → Nat` of `N` bytes below 128 whose last byte is the newline.
`ws` / `wen` are the reference's `wordStart` / `wordEnd` written over `c`.
-/
set_option linter.unusedSimpArgs false
set_option linter.unusedVariables false
namespace Neatvi.Lemmas.C07b
open Neatvi Neatvi.Uc Neatvi.Mot Neatvi.Lemmas.C07 Neatvi.Spec.Motion

structure Txt (c : Nat → Nat) (N : Nat) : Prop where
  pos : 0 < N
  lt : ∀ i, c i < 128
  last : c (N - 1) = 10

/-- the class function of the small / big word motions -/
def kk (big : Bool) : Nat → Nat := if big then clsBig else cls

theorem kk_space (big : Bool) (x : Nat) (h : x < 128) : ucIsSpace x = (kk big x == 0) := by
  have : ∀ (bg : Bool) (y : Fin 128), ucIsSpace y.val = (kk bg y.val == 0) := by decide +kernel
  exact this big ⟨x, h⟩

theorem kk_nl (big : Bool) : kk big 10 = 0 := by cases big <;> decide

theorem kk_mask (big : Bool) (x y : Nat) (hx : x < 128) (hy : y < 128) (hk : kk big y ≠ 0) :
    ((ucKind x &&& (if big then 3 else ucKind y)) != 0) = (kk big x == kk big y) := by
  have h1 : ∀ z : Fin 128, ucKind z.val = cls z.val := by decide +kernel
  have h2 : ∀ z : Nat, cls z = 0 ∨ cls z = 1 ∨ cls z = 2 := by
    intro z; unfold cls; split
    · exact Or.inl rfl
    · split
      · exact Or.inr (Or.inl rfl)
      · exact Or.inr (Or.inr rfl)
  rw [h1 ⟨x, hx⟩, h1 ⟨y, hy⟩]
  simp only []
  cases big with
  | true =>
    simp only [kk, if_true, clsBig] at hk ⊢
    rcases h2 x with a | a | a <;> rcases h2 y with e | e | e <;> simp [a, e] at hk ⊢
  | false =>
    simp only [kk, Bool.false_eq_true, if_false] at hk ⊢
    rcases h2 x with a | a | a <;> rcases h2 y with e | e | e <;> simp [a, e] at hk ⊢

theorem kk_blank_kind (big : Bool) (y : Nat) (hy : y < 128) (hk : kk big y = 0) :
    ((if big then 3 else ucKind y) == 0 || (ucKind y &&& (if big then 3 else ucKind y)) == 0) = true := by
  have : ∀ (bg : Bool) (z : Fin 128), kk bg z.val = 0 →
      ((if bg then 3 else ucKind z.val) == 0 || (ucKind z.val &&& (if bg then 3 else ucKind z.val)) == 0) = true := by
    decide +kernel
  exact this big ⟨y, hy⟩ hk

/-- the reference's `wordStart` and `wordEnd` over `c` -/
def emp (c : Nat → Nat) (i : Nat) : Bool := c i == 10 && (i == 0 || c (i - 1) == 10)
def ws (k : Nat → Nat) (c : Nat → Nat) (i : Nat) : Bool :=
  (k (c i) != 0 && (i == 0 || k (c (i - 1)) != k (c i))) || emp c i
def wen (k : Nat → Nat) (c : Nat → Nat) (N : Nat) (i : Nat) : Bool :=
  (k (c i) != 0 && (decide (i + 1 ≥ N) || k (c (i + 1)) != k (c i))) || emp c i

/-! ### `nextWhere` / `prevWhere` -/
theorem nextWhere_some (n : Nat) (p : Nat → Bool) (i j : Nat) (hj : j < n) (hij : i < j) (hp : p j = true)
    (hlt : ∀ m, i < m → m < j → p m = false) : nextWhere n p i = some j := by
  unfold nextWhere
  apply range_find_first _ _ _ hj
  · simp [hij, hp]
  · intro m hm
    by_cases him : i < m
    · simp [hlt m him hm]
    · simp [him]

theorem nextWhere_none (n : Nat) (p : Nat → Bool) (i : Nat) (hlt : ∀ m, i < m → m < n → p m = false) :
    nextWhere n p i = none := by
  unfold nextWhere
  rw [List.find?_eq_none]
  intro m hm
  simp only [List.mem_range] at hm
  by_cases him : i < m
  · simp [hlt m him hm]
  · simp [him]

theorem prevWhere_some (p : Nat → Bool) (i j : Nat) (hj : j < i) (hp : p j = true)
    (hlt : ∀ m, j < m → m < i → p m = false) : prevWhere p i = some j := by
  unfold prevWhere
  induction i with
  | zero => omega
  | succ n ih =>
    rw [List.range_succ, List.reverse_append]
    simp only [List.reverse_cons, List.reverse_nil, List.nil_append, List.cons_append, List.find?_cons]
    by_cases hjn : j = n
    · subst hjn; rw [hp]
    · rw [hlt n (by omega) (by omega)]
      exact ih (by omega) (fun m h1 h2 => hlt m h1 (by omega))

theorem prevWhere_none (p : Nat → Bool) (i : Nat) (hlt : ∀ m, m < i → p m = false) : prevWhere p i = none := by
  unfold prevWhere
  rw [List.find?_eq_none]
  intro m hm
  simp only [List.mem_reverse, List.mem_range] at hm
  simp [hlt m hm]

/-- the shape in which the backward scanners deliver their target -/
theorem prevWhere_getD (p : Nat → Bool) (i j : Nat) (hji : j ≤ i) (hlt : ∀ m, j < m → m < i → p m = false)
    (hj : j ≠ 0 → j < i ∧ p j = true) : (prevWhere p i).getD 0 = j := by
  by_cases h0 : j < i ∧ p j = true
  · rw [prevWhere_some p i j h0.1 h0.2 hlt]; rfl
  · have hj0 : j = 0 := by
      cases j with
      | zero => rfl
      | succ k => exact absurd (hj (by omega)) h0
    subst hj0
    rw [prevWhere_none p i]
    · rfl
    · intro m hm
      cases m with
      | zero =>
        cases hp : p 0 with
        | false => rfl
        | true => exact absurd ⟨hm, hp⟩ h0
      | succ k => exact hlt _ (by omega) hm

/-! ### `wl` forward: to the last character of the run -/
theorem wlGo_fwd (c : Nat → Nat) (N kind : Nat) (hlast : ((ucKind (c (N - 1)) &&& kind) != 0) = false) :
    ∀ f i, i < N → N ≤ i + f → ∃ j, wlGo c N kind 1 f i = (false, j) ∧ i ≤ j ∧ j < N ∧
      (∀ m, i ≤ m → m < j → ((ucKind (c m) &&& kind) != 0) = true) ∧ ((ucKind (c j) &&& kind) != 0) = false := by
  intro f
  induction f with
  | zero => intro i h1 h2; omega
  | succ f ih =>
    intro i h1 h2
    unfold wlGo
    by_cases hm : ((ucKind (c i) &&& kind) != 0) = true
    · rw [if_pos hm]
      have hi : i + 1 < N := by
        rcases Nat.lt_or_ge (i + 1) N with h | h
        · exact h
        · have : i = N - 1 := by omega
          rw [this, hlast] at hm; cases hm
      have hx : nxt N 1 i = some (i + 1) := by unfold nxt; rw [if_pos (by omega), if_pos hi]
      rw [hx]
      obtain ⟨j, e, a1, a2, a3, a4⟩ := ih (i + 1) hi (by omega)
      refine ⟨j, e, by omega, a2, fun m m1 m2 => ?_, a4⟩
      by_cases hmi : m = i
      · subst hmi; exact hm
      · exact a3 m (by omega) m2
    · rw [if_neg hm]
      exact ⟨i, rfl, Nat.le_refl _, h1, fun m m1 m2 => by omega, by simpa using hm⟩

/-- forward `wl` from a non-blank `i`, with the kind of the motion: the end `e` of the run of its class -/
theorem wl_fwd {c : Nat → Nat} {N : Nat} (ht : Txt c N) (big : Bool) (i : Nat) (hi : i < N) (hk : kk big (c i) ≠ 0) :
    ∃ e, wl c N (if big then 3 else ucKind (c i)) 1 (N + 2) i = (false, e) ∧ i ≤ e ∧ e + 1 < N ∧
      (∀ m, i ≤ m → m ≤ e → kk big (c m) = kk big (c i)) ∧ kk big (c (e + 1)) ≠ kk big (c i) := by
  have hmask := fun x => kk_mask big (c x) (c i) (ht.lt x) (ht.lt i) hk
  have hlast : ((ucKind (c (N - 1)) &&& (if big then 3 else ucKind (c i))) != 0) = false := by
    rw [hmask, ht.last, kk_nl]
    cases h : (0 == kk big (c i)) with
    | false => rfl
    | true => rw [beq_iff_eq] at h; exact absurd h.symm hk
  obtain ⟨j, e, a1, a2, a3, a4⟩ := wlGo_fwd c N _ hlast (N + 2) i hi (by omega)
  have hmi : ((ucKind (c i) &&& (if big then 3 else ucKind (c i))) != 0) = true := by rw [hmask]; simp
  have hij : i < j := by
    rcases Nat.lt_or_ge i j with h | h
    · exact h
    · have : j = i := by omega
      rw [this, hmi] at a4; cases a4
  unfold wl
  have hk0 : ((if big then 3 else ucKind (c i)) == 0 || (ucKind (c i) &&& (if big then 3 else ucKind (c i))) == 0) = false := by
    have h3 : ((ucKind (c i) &&& (if big then 3 else ucKind (c i))) == 0) = false := by
      simp only [bne_iff_ne, ne_eq] at hmi; simpa using hmi
    rw [h3, Bool.or_false]
    cases hz : ((if big then 3 else ucKind (c i)) == 0) with
    | false => rfl
    | true => rw [beq_iff_eq] at hz; rw [hz] at hmi; simp at hmi
  rw [if_neg (by rw [hk0]; simp), e]
  simp only []
  have h4 : ((ucKind (c j) &&& (if big then 3 else ucKind (c i))) == 0) = true := by
    simp only [bne_eq_false_iff_eq, beq_iff_eq] at a4; simpa using a4
  rw [if_pos h4]
  have hx : nxt N (-1) j = some (j - 1) := by unfold nxt; rw [if_neg (by omega), if_pos (by omega)]
  rw [hx]
  refine ⟨j - 1, rfl, by omega, by omega, fun m m1 m2 => ?_, ?_⟩
  · have := a3 m m1 (by omega)
    rw [hmask] at this
    exact beq_iff_eq.mp this
  · rw [show j - 1 + 1 = j by omega]
    rw [hmask] at a4
    intro hh; rw [hh] at a4; simp at a4

theorem wl_blank {c : Nat → Nat} {N : Nat} (ht : Txt c N) (big : Bool) (d : Int) (i : Nat) (hk : kk big (c i) = 0) :
    wl c N (if big then 3 else ucKind (c i)) d (N + 2) i = (false, i) := by
  unfold wl
  rw [if_pos (kk_blank_kind big (c i) (ht.lt i) hk)]

/-! ### `wb` forward -/
theorem wbGo_fwd (c : Nat → Nat) (N : Nat) :
    ∀ f i nl, 0 < i → i < N → N ≤ i + f → nl = (if c (i - 1) == 10 then 1 else 0) →
      (∃ j, wbGo c N 1 f i nl = (false, j) ∧ i ≤ j ∧ j < N ∧
        (∀ m, i ≤ m → m < j → ucIsSpace (c m) = true ∧ emp c m = false) ∧
        (ucIsSpace (c j) = false ∨ emp c j = true)) ∨
      (wbGo c N 1 f i nl = (true, N - 1) ∧ ∀ m, i ≤ m → m < N → ucIsSpace (c m) = true ∧ emp c m = false) := by
  intro f
  induction f with
  | zero => intro i nl h0 h1 h2; omega
  | succ f ih =>
    intro i nl h0 h1 h2 hnl
    unfold wbGo
    by_cases hm : ucIsSpace (c i) = true
    · rw [if_pos hm]
      simp only []
      by_cases h2' : ((if (c i == 10) = true then nl + 1 else 0) == 2) = true
      · rw [if_pos h2']
        left
        refine ⟨i, rfl, Nat.le_refl _, h1, fun m m1 m2 => by omega, Or.inr ?_⟩
        by_cases hci : (c i == 10) = true
        · rw [if_pos hci] at h2'
          have hn1 : nl = 1 := by simpa using h2'
          by_cases hp : (c (i - 1) == 10) = true
          · unfold emp; rw [hci, hp]; simp
          · rw [if_neg hp] at hnl; omega
        · rw [if_neg hci] at h2'; simp at h2'
      · rw [if_neg h2']
        have hemp : emp c i = false := by
          unfold emp
          by_cases hci : (c i == 10) = true
          · rw [if_pos hci] at h2'
            by_cases hp : (c (i - 1) == 10) = true
            · rw [if_pos hp] at hnl; subst hnl; simp at h2'
            · have : (i == 0) = false := by simp; omega
              simp [this, hp]
          · simp [hci]
        by_cases hi : i + 1 < N
        · have hx : nxt N 1 i = some (i + 1) := by unfold nxt; rw [if_pos (by omega), if_pos hi]
          rw [hx]
          simp only []
          have hnl' : (if (c i == 10) = true then nl + 1 else 0) = (if (c (i + 1 - 1) == 10) = true then 1 else 0) := by
            rw [show i + 1 - 1 = i by omega]
            by_cases hci : (c i == 10) = true
            · rw [if_pos hci, if_pos hci]
              rw [if_pos hci] at h2'
              by_cases hp : (c (i - 1) == 10) = true
              · rw [if_pos hp] at hnl; subst hnl; simp at h2'
              · rw [if_neg hp] at hnl; omega
            · rw [if_neg hci, if_neg hci]
          rcases ih (i + 1) _ (by omega) hi (by omega) hnl' with ⟨j, e, a1, a2, a3, a4⟩ | ⟨e, a⟩
          · left
            refine ⟨j, e, by omega, a2, fun m m1 m2 => ?_, a4⟩
            by_cases hmi : m = i
            · subst hmi; exact ⟨hm, hemp⟩
            · exact a3 m (by omega) m2
          · right
            refine ⟨e, fun m m1 m2 => ?_⟩
            by_cases hmi : m = i
            · subst hmi; exact ⟨hm, hemp⟩
            · exact a m (by omega) m2
        · have hx : nxt N 1 i = none := by unfold nxt; rw [if_pos (by omega), if_neg hi]
          rw [hx]
          right
          have : i = N - 1 := by omega
          refine ⟨by rw [this], fun m m1 m2 => ?_⟩
          have : m = i := by omega
          subst this; exact ⟨hm, hemp⟩
    · rw [if_neg hm]
      left
      exact ⟨i, rfl, Nat.le_refl _, h1, fun m m1 m2 => by omega, Or.inl (by simpa using hm)⟩

theorem ws_of_nonblank {k : Nat → Nat} {c : Nat → Nat} {j : Nat} (h1 : k (c j) ≠ 0) (h2 : j = 0 ∨ k (c (j - 1)) ≠ k (c j)) :
    ws k c j = true := by
  unfold ws
  have a : (k (c j) != 0) = true := by simpa using h1
  have e : (j == 0 || k (c (j - 1)) != k (c j)) = true := by
    rcases h2 with h | h
    · simp [h]
    · simp [h]
  rw [a, e]; rfl

theorem ws_false_blank {k : Nat → Nat} {c : Nat → Nat} {m : Nat} (h1 : k (c m) = 0) (h2 : emp c m = false) :
    ws k c m = false := by
  unfold ws; rw [h2]; simp [h1]

theorem ws_false_inner {big : Bool} {c : Nat → Nat} {m : Nat} (hm : 0 < m) (h1 : kk big (c m) ≠ 0)
    (h2 : kk big (c (m - 1)) = kk big (c m)) : ws (kk big) c m = false := by
  unfold ws emp
  have : (c m == 10) = false := by
    cases h : (c m == 10) with
    | false => rfl
    | true => rw [beq_iff_eq] at h; rw [h, kk_nl] at h1; exact absurd rfl h1
  rw [this, h2]
  have : (m == 0) = false := by simp; omega
  simp [this]

/-- **one `w` step on indices**: the least word start after `i`, else failure at the last index -/
theorem wb_fwd {c : Nat → Nat} {N : Nat} (ht : Txt c N) (big : Bool) (i : Nat) (hi : i < N) :
    (∃ j, wb c N big 1 i = (false, j) ∧ nextWhere N (ws (kk big) c) i = some j) ∨
    (wb c N big 1 i = (true, N - 1) ∧ nextWhere N (ws (kk big) c) i = none) := by
  have hsp := fun x => kk_space big (c x) (ht.lt x)
  -- the position `p` after `wl`, with: indices in (i, p] are inner characters of a word; the class at
  -- `p + 1` differs from the class at `p` or `p` is blank
  have hp : ∃ p, (wl c N (if big then 3 else ucKind (c i)) 1 (N + 2) i).2 = p ∧ i ≤ p ∧ p < N ∧
      (∀ m, i < m → m ≤ p → ws (kk big) c m = false) ∧
      (kk big (c p) = 0 ∨ (p + 1 < N ∧ kk big (c (p + 1)) ≠ kk big (c p))) := by
    by_cases hk : kk big (c i) = 0
    · rw [wl_blank ht big 1 i hk]
      exact ⟨i, rfl, Nat.le_refl _, hi, fun m m1 m2 => by omega, Or.inl hk⟩
    · obtain ⟨e, he, a1, a2, a3, a4⟩ := wl_fwd ht big i hi hk
      rw [he]
      refine ⟨e, rfl, a1, by omega, fun m m1 m2 => ?_, Or.inr ⟨a2, ?_⟩⟩
      · apply ws_false_inner (by omega)
        · rw [a3 m (by omega) m2]; exact hk
        · rw [a3 m (by omega) m2, a3 (m - 1) (by omega) (by omega)]
      · rw [a3 e a1 (Nat.le_refl _)]; exact a4
  obtain ⟨p, hpe, p1, p2, p3, p4⟩ := hp
  unfold wb
  simp only []
  rw [hpe]
  by_cases hpl : p + 1 < N
  · have hx : nxt N 1 p = some (p + 1) := by unfold nxt; rw [if_pos (by omega), if_pos hpl]
    rw [hx]
    simp only []
    rcases wbGo_fwd c N (N + 2) (p + 1) (if (c p == 10) = true then 1 else 0) (by omega) hpl (by omega)
      (by rw [show p + 1 - 1 = p by omega]) with ⟨j, e, a1, a2, a3, a4⟩ | ⟨e, a⟩
    · left
      refine ⟨j, e, ?_⟩
      apply nextWhere_some _ _ _ _ a2 (by omega)
      · rcases a4 with a4 | a4
        · have hnb : kk big (c j) ≠ 0 := by
            intro h0; rw [hsp, h0] at a4; simp at a4
          apply ws_of_nonblank hnb
          right
          by_cases hjp : j = p + 1
          · subst hjp
            rw [show p + 1 - 1 = p by omega]
            rcases p4 with p4 | p4
            · rw [p4]; exact fun h => hnb h.symm
            · exact fun h => p4.2 h.symm
          · have := (a3 (j - 1) (by omega) (by omega)).1
            rw [hsp] at this
            rw [beq_iff_eq.mp this]; exact fun h => hnb h.symm
        · unfold ws; rw [a4]; simp
      · intro m m1 m2
        by_cases hmp : m ≤ p
        · exact p3 m m1 hmp
        · obtain ⟨b1, b2⟩ := a3 m (by omega) m2
          rw [hsp] at b1
          exact ws_false_blank (beq_iff_eq.mp b1) b2
    · right
      refine ⟨e, ?_⟩
      apply nextWhere_none
      intro m m1 m2
      by_cases hmp : m ≤ p
      · exact p3 m m1 hmp
      · obtain ⟨b1, b2⟩ := a m (by omega) m2
        rw [hsp] at b1
        exact ws_false_blank (beq_iff_eq.mp b1) b2
  · have hx : nxt N 1 p = none := by unfold nxt; rw [if_pos (by omega), if_neg hpl]
    rw [hx]
    right
    have hpN : p = N - 1 := by omega
    refine ⟨by rw [hpN], ?_⟩
    apply nextWhere_none
    intro m m1 m2
    exact p3 m m1 (by omega)

end Neatvi.Lemmas.C07b
