import NeatviVerif.Lemmas.C02Frame
/-!
# C02 lemmas, part 2: the splice simulation of C04 with the resulting group structure exposed

`inv_edit_log` / `splices_inv` of C04 hide the groups behind an existential.  C02 needs to know
them: a command that logs pushes ONE new group carrying the current sequence number on top of the
groups below the cursor and drops every group above it; a command that logs nothing changes nothing.
-/
namespace Neatvi.Lemmas.C02
open Neatvi Neatvi.Lbuf Neatvi.Spec Neatvi.Lemmas.Hist Neatvi.Props.C01 Neatvi.Props.C04

/-- the groups a logging splice keeps below the new group -/
def baseOf (z : Zipper) (pg : List Group) : List Group := if z.open_ then pg.tail else pg

/-- a logging splice (as `inv_edit_log`, with the groups spelled out) -/
theorem inv_edit_log' {T0 lb z pg fg} (h : Inv T0 lb z pg fg) (buf : Option Bytes) (b e : Nat) (hbe : b ≤ e)
    (hlog : ¬ (min b lb.lines.length = min e lb.lines.length ∧ buf = none))
    (f : Text → Text)
    (hf : f lb.lines = splice lb.lines (min b lb.lines.length)
      (min e lb.lines.length - min b lb.lines.length) (optLines buf)) :
    ∃ lb' es, edit lb buf b e = some lb' ∧ lb'.useq = lb.useq ∧
      Inv T0 lb' (z.edit f) ((lb.useq, es) :: baseOf z pg) [] := by
  obtain ⟨lb', en, e1, e2, e3, e4, e5, e6, e7, e8⟩ :=
    edit_log lb buf b e (ents pg.reverse) (ents fg) h.hist h.histU h.wf hbe hlog
  have hchainA : Chain T0 (ents pg.reverse) := by
    have := h.chain; rw [h.hist, chain_append] at this; exact this.1
  have hchain' : Chain T0 (ents pg.reverse ++ [en]) := by
    rw [chain_append]; refine ⟨hchainA, ?_⟩
    rw [chain_single, ← h.lines]; exact e5
  have hlines' : lb'.lines = applyFwd T0 (ents pg.reverse ++ [en]) := by
    rw [applyFwd_append, applyFwd_single, ← h.lines]; exact e6
  have hpres : f z.present = lb'.lines := by rw [h.present, hf, e6, e7]
  cases ho : z.open_ with
  | false =>
    refine ⟨lb', [en], e1, e8, ?_⟩
    have hbase : baseOf z pg = pg := by simp [baseOf, ho]
    rw [hbase]
    have hz : z.edit f = { past := z.present :: z.past, present := f z.present, future := [], open_ := true } := by
      simp [Zipper.edit, ho]
    rw [hz]
    refine
      { hist := by rw [e2]; simp
        histU := by rw [e3]; simp
        gok := ?_, sorted := ?_, le := ?_
        closed := by intro hc; simp at hc
        opened := fun _ => ⟨rfl, _, _, rfl, e8.symm⟩
        chain := by rw [e2]; exact hchain'
        lines := by rw [hlines']; simp
        wf0 := h.wf0
        present := hpres
        past := by show z.present :: z.past = _; rw [h.present, h.past, h.lines]; rfl
        future := rfl }
    · intro g hg
      simp only [List.append_nil, List.mem_cons] at hg
      rcases hg with rfl | hg
      · exact ⟨by simp, by intro x hx; simp at hx; rw [hx]; exact e4⟩
      · exact h.gok g (by simp [hg])
    · simp only [List.reverse_cons, List.append_nil]
      rw [List.pairwise_append]
      refine ⟨?_, by simp, ?_⟩
      · have := h.sorted; rw [List.pairwise_append] at this; exact this.1
      · intro a ha c hc
        simp only [List.mem_singleton] at hc
        subst hc
        exact h.closed ho a (by simp at ha; simp [ha])
    · intro g hg
      simp only [List.append_nil, List.mem_cons] at hg
      rw [e8]
      rcases hg with rfl | hg
      · exact Nat.le_refl _
      · exact h.le g (by simp [hg])
  | true =>
    obtain ⟨hfg, g, ps, hpg, hg1⟩ := h.opened ho
    subst hfg hpg
    obtain ⟨gs, ges⟩ := g
    simp only at hg1
    subst hg1
    refine ⟨lb', ges ++ [en], e1, e8, ?_⟩
    have hbase : baseOf z ((lb.useq, ges) :: ps) = ps := by simp [baseOf, ho]
    rw [hbase]
    have hz : z.edit f = { z with present := f z.present } := by
      simp [Zipper.edit, ho]
    rw [hz]
    have hgok := h.gok (lb.useq, ges) (by simp)
    refine
      { hist := by rw [e2]; simp
        histU := by rw [e3]; simp; omega
        gok := ?_, sorted := ?_, le := ?_
        closed := by intro hc; simp [ho] at hc
        opened := fun _ => ⟨rfl, _, _, rfl, by rw [e8]⟩
        chain := by rw [e2]; exact hchain'
        lines := by rw [hlines']; simp
        wf0 := h.wf0
        present := hpres
        past := by show z.past = _; rw [h.past]; rfl
        future := by show z.future = _; rw [h.future]; rfl }
    · intro g' hg'
      simp only [List.append_nil, List.mem_cons] at hg'
      rcases hg' with rfl | hg'
      · refine ⟨by simp, ?_⟩
        intro x hx
        simp only [List.mem_append, List.mem_singleton] at hx
        rcases hx with hx | hx
        · exact hgok.2 x hx
        · rw [hx, e4]
      · exact h.gok g' (by simp [hg'])
    · have hs := h.sorted
      simp only [List.reverse_cons, List.append_nil] at hs ⊢
      rw [List.pairwise_append] at hs ⊢
      refine ⟨hs.1, by simp, ?_⟩
      intro a ha c hc
      simp only [List.mem_singleton] at hc
      subst hc
      exact hs.2.2 a ha (lb.useq, ges) (by simp)
    · intro g' hg'
      simp only [List.append_nil, List.mem_cons] at hg'
      rw [e8]
      rcases hg' with rfl | hg'
      · exact Nat.le_refl _
      · exact h.le g' (by simp [hg'])

theorem edit_open (z : Zipper) (f : Text → Text) : (z.edit f).open_ = true := by
  unfold Zipper.edit; split <;> simp_all

/-- a whole command's splices: either nothing was logged and nothing changed, or exactly one new
    group with the current sequence number sits on top of the groups that were below the cursor -/
theorem splices_inv' (T0 : Text) (ss : List Splice) : ∀ (lb : Lb) (z : Zipper) (pg fg : List Group),
    Inv T0 lb z pg fg → (∀ s ∈ ss, s.1 ≤ s.2.1) →
    ∃ lb', applySplices ss lb = some lb' ∧ lb'.useq = lb.useq ∧ Frame lb lb' ∧
      ((cmdLogs z.present ss = false ∧ lb' = lb) ∨
       (cmdLogs z.present ss = true ∧
          ∃ es, Inv T0 lb' (ss.foldl refSplice z) ((lb.useq, es) :: baseOf z pg) [])) := by
  induction ss with
  | nil => intro lb z pg fg _ _; exact ⟨lb, rfl, rfl, Frame.refl _, Or.inl ⟨rfl, rfl⟩⟩
  | cons s r ih =>
    intro lb z pg fg h hg
    obtain ⟨b, e, buf⟩ := s
    have hbe : b ≤ e := hg (b, e, buf) (by simp)
    have hr : ∀ s ∈ r, s.1 ≤ s.2.1 := fun s hs => hg s (by simp [hs])
    simp only [List.foldl_cons, applySplices]
    cases hl : logsAt z.present (b, e, buf) with
    | true =>
      have hlog : ¬ (min b lb.lines.length = min e lb.lines.length ∧ buf = none) := by
        intro hc
        rw [h.present] at hl
        simp [logsAt, hc.1, hc.2] at hl
      obtain ⟨lb1, es1, e1, u1, i1⟩ := inv_edit_log' h buf b e hbe hlog (fun t => spliceText t (b, e, buf))
        (by simp only [spliceText, optLines_ref])
      have fr1 := edit_frame _ _ _ _ _ e1
      have hz1 : refSplice z (b, e, buf) = z.edit (fun t => spliceText t (b, e, buf)) := by
        simp only [refSplice, hl, if_true]
      have hopen := edit_open z (fun t => spliceText t (b, e, buf))
      obtain ⟨lb', a1, a2, a3, a4⟩ := ih lb1 _ _ [] i1 hr
      refine ⟨lb', ?_, a2.trans u1, Frame.trans fr1 a3, Or.inr ⟨by simp [cmdLogs, hl], ?_⟩⟩
      · rw [e1]; exact a1
      · rw [hz1]
        rcases a4 with ⟨_, rfl⟩ | ⟨_, es, hi⟩
        · refine ⟨es1, ?_⟩
          have : r.foldl refSplice (z.edit fun t => spliceText t (b, e, buf)) = z.edit fun t => spliceText t (b, e, buf) := by
            apply fold_nolog; assumption
          rw [this]; exact i1
        · refine ⟨es, ?_⟩
          simp only [baseOf, hopen, if_true, List.tail_cons, u1] at hi
          exact hi
    | false =>
      have hz : refSplice z (b, e, buf) = z := by simp [refSplice, hl]
      have hst := spliceText_nolog _ _ hl
      have hcl : cmdLogs z.present ((b, e, buf) :: r) = cmdLogs z.present r := by
        simp only [cmdLogs, hl, Bool.false_or, hst]
      rw [h.present] at hl
      simp only [logsAt, Bool.not_eq_false', Bool.and_eq_true, beq_iff_eq, Option.isNone_iff_eq_none] at hl
      obtain ⟨h1, h2⟩ := hl
      subst h2
      obtain ⟨lb', a1, a2, a3, a4⟩ := ih lb z pg fg h hr
      refine ⟨lb', ?_, a2, a3, ?_⟩
      · rw [edit_noop lb b e h1]; exact a1
      · rw [hz, hcl]; exact a4

end Neatvi.Lemmas.C02
