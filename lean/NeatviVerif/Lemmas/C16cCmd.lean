import NeatviVerif.Lemmas.C16cSubst
import NeatviVerif.Lemmas.C02bCmd
import NeatviVerif.Props.C15
/-!
# C16c, part 6: every branch of the ex dispatcher `runCmd` keeps the editor state valid UTF-8
-/
set_option linter.unusedSimpArgs false
set_option linter.unusedVariables false
namespace Neatvi.Lemmas.C16c
open Neatvi Neatvi.Uc Neatvi.Spec Neatvi.Lbuf Neatvi.LbufIo Neatvi.Ex Neatvi.Rset Neatvi.Props.C11b Neatvi.Props.C16b
open Neatvi.Lemmas.C02Ex (runCmd_quit runCmd_edit runCmd_write)

/-! ## what the dispatcher is handed -/

/-- the handler `h`, called with the command word `cmd` and the argument `arg`, is one the roll-up covers:
* not `@` / `ra` (they run the text of a register as a command line);
* `g` / `v` with a command list that `body` accepts;
* `e` with a valid argument and without a `+command`;
* `s` with `substOk`;
* `!`, `r`, `w`, `q`/`wq`/`x` with a valid argument (a path name or a shell command). -/
def okH (body : Bytes → Bool) (h : String) (arg : Bytes) : Bool :=
  if h == "ec_at" then false
  else if h == "ec_glob" then body (reRead arg).2
  else if h == "ec_edit" then u8chk arg && ((arg.dropWhile (· == 32)).headD 0 != 43)
  else if h == "ec_substitute" then substOk arg
  else if h == "ec_exec" || h == "ec_read" || h == "ec_write" || h == "ec_quit" then u8chk arg
  else true

theorem okH_at {body : Bytes → Bool} {arg : Bytes} : okH body "ec_at" arg = false := rfl
theorem okH_glob {body : Bytes → Bool} {arg : Bytes} (h : okH body "ec_glob" arg = true) : body (reRead arg).2 = true := h
theorem okH_edit {body : Bytes → Bool} {arg : Bytes} (h : okH body "ec_edit" arg = true) :
    IsU8 arg ∧ (arg.dropWhile (· == 32)).headD 0 ≠ 43 := by
  have h' : (u8chk arg && ((arg.dropWhile (· == 32)).headD 0 != 43)) = true := h
  simp only [Bool.and_eq_true, bne_iff_ne, ne_eq] at h'
  exact ⟨(u8chk_iff _).mp h'.1, h'.2⟩
theorem okH_subst {body : Bytes → Bool} {arg : Bytes} (h : okH body "ec_substitute" arg = true) : substOk arg = true := h
theorem okH_exec {body : Bytes → Bool} {arg : Bytes} (h : okH body "ec_exec" arg = true) : IsU8 arg := (u8chk_iff _).mp h
theorem okH_read {body : Bytes → Bool} {arg : Bytes} (h : okH body "ec_read" arg = true) : IsU8 arg := (u8chk_iff _).mp h
theorem okH_write {body : Bytes → Bool} {arg : Bytes} (h : okH body "ec_write" arg = true) : IsU8 arg := (u8chk_iff _).mp h
theorem okH_quit {body : Bytes → Bool} {arg : Bytes} (h : okH body "ec_quit" arg = true) : IsU8 arg := (u8chk_iff _).mp h

/-! ## `:w` -/

theorem ecWrite_ok {ed ed' : Ed} {loc cmd arg : Bytes} {r : Int} (h : EdOk ed) (ha : IsU8 arg)
    (hw : ecWrite ed loc cmd arg = some (r, ed')) : EdOk ed' := by
  unfold ecWrite at hw
  simp only [] at hw
  split at hw
  · cases hw
  · rename_i path ed1 hp
    have h1 : EdOk ed1 ∧ OptValid path := by
      split at hp
      · obtain ⟨a, b⟩ := pathExpand_ok h ha hp
        exact ⟨h.to b, a⟩
      · cases hp
        refine ⟨h, ?_⟩
        intro x hx
        cases hc : ed.cur with
        | none => rw [hc] at hx; cases hx
        | some b => rw [hc] at hx; simp only [Option.map_some] at hx; injection hx with hx; subst hx; exact (h.cur hc).2
    obtain ⟨h1, hpath⟩ := h1
    have hxx : ∀ (m : Bool) (ed2 : Ed), (if (List.headD cmd 0 == 120) = true then some (ed1.modifiedAt 0) else some (true, ed1)) = some (m, ed2) → EdOk ed2 := by
      intro m ed2 hx
      split at hx
      · have e := (Lemmas.C02b.some_pair_inj (b := (ed1.modifiedAt 0).2) hx).2
        rw [← e]; exact h1.modifiedAt 0
      · cases hx; exact h1
    split at hw
    · cases hw
    · rename_i ed2 hx
      cases hw
      exact hxx _ _ hx
    · rename_i ed2 hx
      have h2 : EdOk ed2 := hxx _ _ hx
      split at hw
      · cases hw
      · rename_i rc b e ed3 hr
        have h3 : EdOk ed3 := h2.region hr
        split at hw
        · cases hw; exact h3
        · rename_i hnone
          have hpv : IsU8 (path.getD []) := by
            cases path with
            | none => exact isU8_nil
            | some x => exact hpath x rfl
          split at hw
          · cases hw
          · rename_i cur hcur
            split at hw
            · split at hw
              · cases hw; exact h3
              · -- `:w !cmd`: a message, and `unmodelled` only in vi mode
                cases hw
                repeat' split
                all_goals first | exact (h3.show _).to rfl | exact h3.show _ | exact h3.to rfl
            · split at hw
              · cases hw
              · rename_i err ed4 hs
                have h4 : EdOk ed4 := lbufSaveP_ok h3 (h3.cur hcur).1.lines hs
                cases hw
                exact h4.show _
              · rename_i ed4 hs
                have h4 : EdOk ed4 := lbufSaveP_ok h3 (h3.cur hcur).1.lines hs
                generalize hE : Ed.show ed4 _ = ed5 at hw
                have h5 : EdOk ed5 := by rw [← hE]; exact h4.show _
                split at hw
                · cases hw
                · rename_i cur2 hcur2
                  have hg := h5.cur hcur2
                  generalize hX : (if cur2.path.isEmpty = true then _ else (cur2, ed5) : Buf × Ed) = X at hw
                  have hX1 : X.1.lb = cur2.lb := by rw [← hX]; split <;> rfl
                  have hX3 : IsU8 X.1.path := by
                    rw [← hX]; split
                    · exact hpv
                    · exact hg.2
                  have hX2 : EdOk X.2 := by
                    rw [← hX]; split
                    · exact h5.withRegs (h5.regs.put _ hpv _)
                    · exact h5
                  obtain ⟨c3, ed6⟩ := X
                  simp only [] at hw hX1 hX2 hX3
                  repeat' (split at hw)
                  all_goals
                    cases hw
                    refine EdOk.setCur hX2 ?_ hX3
                    first
                      | (show LbOk (modified (savedCore c3.lb false)).2; rw [hX1]; exact modified_ok (savedCore_ok hg.1 false))
                      | (show LbOk (unsavedMark c3.lb); rw [hX1]; exact unsavedMark_ok hg.1)
                      | (rw [hX1]; exact hg.1)

/-! ## `:q`, `:wq`, `:x`, `:xa` -/

theorem each_ok (cmd : Bytes) (all : Bool) : ∀ (g i : Nat) (ed ed' : Ed) (r : Bool), EdOk ed →
    runCmd.each cmd all g i ed = some (r, ed') → EdOk ed' := by
  intro g
  induction g with
  | zero => intro i ed ed' r hi h; rw [runCmd.each.eq_1] at h; cases h; exact hi
  | succ g ih =>
    intro i ed ed' r hi h
    rw [runCmd.each.eq_2] at h
    split at h
    · cases h; exact hi
    · split at h
      · exact ih _ _ _ _ hi h
      · simp only [] at h
        split at h
        · cases h
        · rename_i ed1 hchk
          have h1 : EdOk ed1 := by
            split at hchk
            · exact bufsModified_ok hi hchk
            · cases hchk
          cases h
          exact h1.bufsSwitch _
        · rename_i ed1 hchk
          have h1 : EdOk ed1 := by
            split at hchk
            · exact bufsModified_ok hi hchk
            · cases hchk; exact hi
          split at h
          · split at h
            · cases h
            · rename_i b hb
              split at h
              · cases h
              · rename_i hs
                have h2 := lbufSaveP_ok h1 (h1.getD hb).1.lines hs
                cases h
                exact (h2.bufsSwitch _).show _
              · rename_i hs
                have h2 := lbufSaveP_ok h1 (h1.getD hb).1.lines hs
                exact ih _ _ _ _ h2 h
          · exact ih _ _ _ _ h1 h

/-! ## `:p` -/

theorem foldl_ok {α β} (P : β → Prop) (F : β → α → β) (hF : ∀ s a, P s → P (F s a)) :
    ∀ (l : List α) (s : β), P s → P (l.foldl F s) := by
  intro l
  induction l with
  | nil => intro s hs; exact hs
  | cons a l ih => intro s hs; exact ih _ (hF s a hs)

theorem foldl_print_ok (b : Int) (l : List Nat) (ed : Ed) (hi : EdOk ed) :
    EdOk (l.foldl (fun (ed : Ed) (k : Nat) => match ed.line (b + (k : Int)) with | some l => ed.print l | none => ed) ed) := by
  refine foldl_ok EdOk _ ?_ l ed hi
  intro s a hs
  split
  · exact hs.print _
  · exact hs

theorem runCmd_print_ok (f : Nat) (ed ed' : Ed) (loc cmd arg : Bytes) (txt : Option Bytes) (r : Int) (hi : EdOk ed)
    (h : runCmd f ed "ec_print" loc cmd arg txt = some (r, ed')) : EdOk ed' := by
  cases f with
  | zero => rw [runCmd] at h; cases h
  | succ f =>
    rw [runCmd] at h
    rw [if_neg (by decide), if_pos (by decide)] at h
    split at h
    · cases h; exact hi
    · split at h
      · cases h
      · rename_i hr
        have e1 := hi.region hr
        split at h
        · cases h; exact e1
        · cases h
          exact (foldl_print_ok _ _ _ e1).to rfl

end Neatvi.Lemmas.C16c
