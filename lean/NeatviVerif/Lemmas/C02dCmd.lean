import NeatviVerif.Lemmas.C02dInv
import NeatviVerif.Lemmas.C02bQuiet
/-!
# C02d lemmas, part 3: `:w`, the loop of `:q`, and every other handler keep the invariant
-/
namespace Neatvi.Lemmas.C02d
open Neatvi Neatvi.Lbuf Neatvi.LbufIo Neatvi.Ex Neatvi.Rset Neatvi.Props Neatvi.Lemmas.C02b Neatvi.Lemmas.C02Ex
open Neatvi.Lemmas.ExFrame

theorem len_of_cur {ed : Ed} {b : Buf} (h : ed.cur = some b) : ed.len = (b.lb.lines.length : Int) := by
  unfold Ed.len Ed.lb; rw [h]; rfl

/-! ### `ec_write` -/

/-- the end of `:w !cmd`: in vi mode the "press a key" protocol is not modelled -/
theorem unmod_if_same (e : Ed) : Same e (if e.xvis = true then { e with unmodelled := true } else e) := by
  split <;> exact ⟨rfl, rfl, rfl⟩

/-- the tail of `ec_write` after a successful `lbuf_save`: the buffer is marked saved only when the whole
    buffer went to its own path, and then the file holds its text (`hfile`) -/
theorem writeFinish_inv (ed : Ed) (cur : Buf) (path : Bytes) (b e : Int) (r : Int) (ed' : Ed)
    (h : Inv ed) (hcur : ed.cur = some cur)
    (hfile : b = 0 → e = ed.len → ∃ fl, ed.findFile path = some fl ∧ fl.data = cur.lb.lines.flatten)
    (hw : writeFinish ed cur path b e = some (r, ed')) : Inv ed' := by
  obtain ⟨hm, d, hr, ha⟩ := h.cur hcur
  have hmt : ed.mtimeOf path ≤ ed.clock := mtimeF_le h.1 path
  -- the three records `ec_write` may store
  have hsaved : ∀ c3 : Buf, c3.lb = cur.lb → c3.path = path → b = 0 → e = ed.len →
      BufOk ed.files ed.clock { c3 with lb := (modified (savedCore c3.lb false)).2, mtime := ed.mtimeOf path } := by
    intro c3 hl hp hb he
    refine ⟨hmt, some c3.lb.lines, by rw [hl]; exact hr.saved, ?_⟩
    intro t ht _ _ fl hfl
    cases ht
    obtain ⟨fl0, hf0, hd0⟩ := hfile hb he
    have : fl = fl0 := by
      have h1 : findF ed.files path = some fl := by rw [← hp]; exact hfl
      have h2 : findF ed.files path = some fl0 := hf0
      rw [h1] at h2; exact Option.some.inj h2
    subst this
    rw [hl]
    exact Or.inr hd0
  have hpart : ∀ c3 : Buf, c3.lb = cur.lb →
      BufOk ed.files ed.clock { c3 with lb := unsavedMark c3.lb, mtime := ed.mtimeOf path } := by
    intro c3 hl
    refine ⟨hmt, none, by rw [hl]; exact hr.partialWrite, ?_⟩
    intro t ht; cases ht
  unfold writeFinish at hw
  by_cases hp : cur.path.isEmpty = true
  · simp only [hp, if_true, beq_self_eq_true, Bool.true_and] at hw
    split at hw
    · rename_i hc
      simp only [Bool.and_eq_true, beq_iff_eq] at hc
      cases hw
      exact inv_setCur (ed := { ed with regs := ed.regs.put 37 path 0 }) h (hsaved { cur with path := path } rfl rfl hc.1 hc.2)
    · cases hw
      exact inv_setCur (ed := { ed with regs := ed.regs.put 37 path 0 }) h (hpart { cur with path := path } rfl)
  · simp only [hp, Bool.false_eq_true, if_false] at hw
    split at hw
    · rename_i hc
      simp only [Bool.and_eq_true, beq_iff_eq] at hc
      cases hw
      exact inv_setCur h (hsaved cur rfl hc.1.1 hc.1.2 hc.2)
    · split at hw
      · cases hw
        exact inv_setCur h (hpart cur rfl)
      · cases hw
        exact inv_setCur h ⟨hm, d, hr, ha⟩

theorem ecWrite_inv {ed ed' : Ed} {loc cmd arg : Bytes} {r : Int} (h : Inv ed)
    (hw : ecWrite ed loc cmd arg = some (r, ed')) : Inv ed' := by
  unfold ecWrite at hw
  simp only [] at hw
  split at hw
  · cases hw
  · rename_i path ed1 hp
    have h1 : Inv ed1 := by
      split at hp
      · exact h.same (pathExpand_same hp)
      · cases hp; exact h
    have hxx : ∀ (m : Bool) (ed2 : Ed), (if (List.headD cmd 0 == 120) = true then some (ed1.modifiedAt 0) else some (true, ed1)) = some (m, ed2) → Inv ed2 := by
      intro m ed2 hx
      split at hx
      · have e := (some_pair_inj (b := (ed1.modifiedAt 0).2) hx).2
        rw [← e]; exact inv_modifiedAt 0 h1
      · cases hx; exact h1
    split at hw
    · cases hw
    · rename_i ed2 hx
      cases hw
      exact hxx _ _ hx
    · rename_i ed2 hx
      have h2 : Inv ed2 := hxx _ _ hx
      split at hw
      · cases hw
      · rename_i rc b e ed3 hr
        have h3 : Inv ed3 := h2.same (exRegion_same hr)
        split at hw
        · cases hw; exact h3
        · split at hw
          · cases hw
          · rename_i cur hcur
            split at hw
            · split at hw
              · cases hw; exact h3
              · cases hw; exact (h3.to (by rfl) (by rfl) (by rfl)).same (unmod_if_same _)
            · split at hw
              · cases hw
              · rename_i err ed4 hs
                have h4 : Inv ed4 := inv_save h3 (lbufSaveP_eff _ _ _ _ _ _ _ _ _ hs)
                cases hw
                exact h4
              · rename_i ed4 hs
                have hb4 := lbufSaveP_bufs _ _ _ _ _ _ _ _ _ hs
                have h4 : Inv ed4 := inv_save h3 (lbufSaveP_eff _ _ _ _ _ _ _ _ _ hs)
                obtain ⟨hpne, hs'⟩ := lbufSaveP_ok _ _ _ _ _ _ _ _ hs
                generalize hE : Ed.show ed4 _ = ed5 at hw
                have hb5 : ed5.bufs = ed3.bufs := by rw [← hE]; exact hb4
                have h5 : Inv ed5 := by rw [← hE]; exact h4
                have hc5 : ed5.cur = some cur := by rw [cur_congr hb5]; exact hcur
                have hf5 : ed5.files = ed4.files := by rw [← hE]; rfl
                rw [hc5] at hw
                simp only [] at hw
                refine writeFinish_inv ed5 cur _ _ _ r ed' h5 hc5 ?_ hw
                intro hb0 he0
                rw [hb0] at hs'
                have hlen : ed5.len = (cur.lb.lines.length : Int) := len_of_cur hc5
                obtain ⟨fl, hfl, hd⟩ := lbufSave_whole ed3 ed4 cur.lb _ _ _ _ (Or.inr (he0.trans hlen)) hs'
                exact ⟨fl, by unfold Ed.findFile; rw [hf5]; exact hfl, hd⟩

/-! ### small frame facts: the clock -/

theorem substPrep_clock (ed : Ed) (arg : Bytes) : (C14.substPrep ed arg).1.clock = ed.clock := by
  unfold C14.substPrep
  simp only []
  repeat' split
  all_goals rfl

theorem substPrep_same (ed : Ed) (arg : Bytes) : Same ed (C14.substPrep ed arg).1 :=
  ⟨C14.substPrep_bufs ed arg, substPrep_files ed arg, substPrep_clock ed arg⟩

theorem foldl_print_clock (b : Int) : ∀ (l : List Nat) (ed : Ed),
    (l.foldl (fun (ed : Ed) (k : Nat) => match ed.line (b + (k : Int)) with | some l => ed.print l | none => ed) ed).clock
      = ed.clock := by
  intro l
  induction l with
  | nil => intro ed; rfl
  | cons k l ih =>
    intro ed
    rw [List.foldl_cons, ih]
    split <;> rfl

theorem foldl_print_same (b : Int) (l : List Nat) (ed : Ed) :
    Same ed (l.foldl (fun (ed : Ed) (k : Nat) => match ed.line (b + (k : Int)) with | some l => ed.print l | none => ed) ed) :=
  ⟨C15.foldl_print_bufs b l ed, foldl_print_files b l ed, foldl_print_clock b l ed⟩

theorem setOpt_clock (ed : Ed) (v : String) (val : Int) : (setOpt ed v val).clock = ed.clock := by
  unfold setOpt
  repeat' split
  all_goals rfl

theorem setOpt_same (ed : Ed) (v : String) (val : Int) : Same ed (setOpt ed v val) :=
  ⟨C15.setOpt_bufs ed v val, setOpt_files ed v val, setOpt_clock ed v val⟩

theorem globPrep_clock (ed : Ed) (arg : Bytes) : (C15.globPrep ed arg).clock = ed.clock := by
  unfold C15.globPrep
  repeat' split
  all_goals rfl

theorem globPrep_same (ed : Ed) (arg : Bytes) : Same ed (C15.globPrep ed arg) :=
  ⟨C15.globPrep_bufs ed arg, globPrep_files ed arg, globPrep_clock ed arg⟩

theorem exTxt_clock (ed : Ed) (src ex : Bytes) : (exTxt ed src ex).2.clock = ed.clock := by
  unfold exTxt
  simp only []
  repeat' split
  all_goals rfl

theorem exTxt_same (ed : Ed) (src ex : Bytes) : Same ed (exTxt ed src ex).2 :=
  ⟨C15.exTxt_bufs ed src ex, exTxt_files ed src ex, exTxt_clock ed src ex⟩

/-! ### the handlers -/

theorem substLoop_inv (re : RStr) (g : Bool) (b : Int) : ∀ (n : Nat) (ed ed' : Ed), Inv ed →
    C14.substLoop re g b n ed = some ed' → Inv ed' := by
  intro n
  induction n with
  | zero => intro ed ed' hi h; cases h; exact hi
  | succ n ih =>
    intro ed ed' hi h
    rw [C14.substLoop_succ] at h
    cases hm : C14.substLoop re g b n ed with
    | none => rw [hm] at h; cases h
    | some em =>
      rw [hm] at h
      simp only [Option.bind_some] at h
      have hm' := ih _ _ hi hm
      unfold C14.substStep at h
      repeat' (split at h)
      all_goals (first | cases h | skip)
      · exact hm'
      · exact inv_edit hm' h

theorem runCmd_print_inv (f : Nat) (ed ed' : Ed) (loc cmd arg : Bytes) (txt : Option Bytes) (r : Int) (hi : Inv ed)
    (h : runCmd f ed "ec_print" loc cmd arg txt = some (r, ed')) : Inv ed' := by
  cases f with
  | zero => rw [runCmd] at h; cases h
  | succ f =>
    rw [runCmd] at h
    rw [if_neg (by decide), if_pos (by decide)] at h
    split at h
    · cases h; exact hi
    · split at h
      · cases h
      · rename_i hr
        have e1 := hi.same (exRegion_same hr)
        split at h
        · cases h; exact e1
        · cases h
          exact (e1.same (foldl_print_same _ _ _)).to rfl rfl rfl

theorem each_inv (cmd : Bytes) (all : Bool) : ∀ (g i : Nat) (ed ed' : Ed) (r : Bool), Inv ed →
    runCmd.each cmd all g i ed = some (r, ed') → Inv ed' := by
  intro g
  induction g with
  | zero => intro i ed ed' r hi h; rw [runCmd.each.eq_1] at h; cases h; exact hi
  | succ g ih =>
    intro i ed ed' r hi h
    rw [runCmd.each.eq_2] at h
    split at h
    · cases h; exact hi
    · split at h
      · exact ih _ _ _ _ hi h
      · simp only [] at h
        split at h
        · cases h
        · rename_i ed1 hchk
          have h1 : Inv ed1 := by
            split at hchk
            · exact inv_bufsModified hi hchk
            · cases hchk
          cases h
          exact inv_bufsSwitch _ h1
        · rename_i ed1 hchk
          have h1 : Inv ed1 := by
            split at hchk
            · exact inv_bufsModified hi hchk
            · cases hchk; exact hi
          split at h
          · split at h
            · cases h
            · split at h
              · cases h
              · rename_i hs
                have h2 := inv_save h1 (lbufSaveP_eff _ _ _ _ _ _ _ _ _ hs)
                cases h
                exact inv_bufsSwitch _ h2
              · rename_i hs
                have h2 := inv_save h1 (lbufSaveP_eff _ _ _ _ _ _ _ _ _ hs)
                exact ih _ _ _ _ h2 h
          · exact ih _ _ _ _ h1 h

/-- every branch of the dispatcher keeps the invariant, given that the three recursive handlers do -/
theorem runCmd_inv (f : Nat) (ed ed' : Ed) (hd : String) (loc cmd arg : Bytes) (txt : Option Bytes) (r : Int)
    (hat : ∀ ed r ed', Inv ed → ecAt f ed loc cmd arg = some (r, ed') → Inv ed')
    (hglob : ∀ ed r ed', Inv ed → ecGlob f ed loc cmd arg = some (r, ed') → Inv ed')
    (hedit : ∀ ed r ed', Inv ed → ecEdit f ed cmd arg = some (r, ed') → Inv ed')
    (hi : Inv ed)
    (h : runCmd (f + 1) ed hd loc cmd arg txt = some (r, ed')) : Inv ed' := by
  by_cases hs : hd = "ec_substitute"
  · subst hs
    rw [Props.C14.runCmd_subst_eq] at h
    split at h
    · cases h
    · rename_i ed1 hr
      have e1 := hi.same (exRegion_same hr)
      have e2 : Inv (Props.C14.substPrep ed1 arg).1 := e1.same (substPrep_same ed1 arg)
      repeat' (split at h)
      all_goals (first | cases h | skip)
      · exact e1
      · exact e2
      · exact e2
      · rename_i hl
        exact substLoop_inv _ _ _ _ _ _ e2 hl
  by_cases hq : hd = "ec_quit"
  · subst hq
    rw [runCmd_quit] at h
    split at h
    · cases h
    · rename_i rc ed1 hw
      have h1 : Inv ed1 := by
        split at hw
        · exact ecWrite_inv hi hw
        · cases hw; exact hi
      split at h
      · cases h; exact h1
      · split at h
        · cases h
        · rename_i he; cases h; exact (each_inv _ _ _ _ _ _ _ h1 he).to rfl rfl rfl
        · rename_i he; cases h; exact (each_inv _ _ _ _ _ _ _ h1 he).to rfl rfl rfl
  by_cases hw : hd = "ec_write"
  · subst hw
    rw [runCmd_write] at h
    exact ecWrite_inv hi h
  by_cases he : hd = "ec_edit"
  · subst he
    rw [runCmd_edit] at h
    exact hedit _ _ _ hi h
  rw [runCmd] at h
  by_cases c : (hd == "ec_insert") = true
  · rw [if_pos c] at h
    simp only [] at h
    split at h
    · cases h
    · rename_i hr
      have e1 := hi.same (exRegion_same hr)
      repeat' (split at h)
      all_goals (first | cases h | skip)
      all_goals (first | exact e1 | exact inv_edit3 (by assumption) e1 (by exact ⟨rfl, rfl, rfl⟩) (by exact ⟨rfl, rfl, rfl⟩))
  rw [if_neg c] at h; clear c
  by_cases c : (hd == "ec_print") = true
  · have : hd = "ec_print" := by simpa using c
    subst this
    have h' : runCmd (f + 1) ed "ec_print" loc cmd arg txt = some (r, ed') := by
      rw [runCmd, if_neg (by decide), if_pos (by decide)]
      rw [if_pos c] at h
      exact h
    exact runCmd_print_inv _ _ _ _ _ _ _ _ hi h'
  rw [if_neg c] at h; clear c
  by_cases c : (hd == "ec_null") = true
  · rw [if_pos c] at h
    split at h
    · exact runCmd_print_inv _ _ _ _ _ _ _ _ (by exact hi) h
    · split at h
      · cases h
      · rename_i hr
        have e1 := hi.same (exRegion_same hr)
        split at h
        · cases h; exact e1
        · cases h; exact e1
  rw [if_neg c] at h; clear c
  by_cases c : (hd == "ec_delete" || hd == "ec_yank") = true
  · rw [if_pos c] at h
    simp only [] at h
    split at h
    · cases h
    · rename_i hr
      have e1 := hi.same (exRegion_same hr)
      repeat' (split at h)
      all_goals (first | cases h | skip)
      all_goals (first | exact e1 | exact inv_edit3 (by assumption) e1 (by exact ⟨rfl, rfl, rfl⟩) (by exact ⟨rfl, rfl, rfl⟩))
  rw [if_neg c] at h; clear c
  by_cases c : (hd == "ec_put") = true
  · rw [if_pos c] at h
    simp only [] at h
    split at h
    · cases h; exact hi
    · split at h
      · cases h
      · rename_i hr
        have e1 := hi.same (exRegion_same hr)
        repeat' (split at h)
        all_goals (first | cases h | skip)
        all_goals (first | exact e1 | exact inv_edit3 (by assumption) e1 (by exact ⟨rfl, rfl, rfl⟩) (by exact ⟨rfl, rfl, rfl⟩))
  rw [if_neg c] at h; clear c
  by_cases c : (hd == "ec_lnum") = true
  · rw [if_pos c] at h
    split at h
    · cases h
    · rename_i hr
      have e1 := hi.same (exRegion_same hr)
      split at h
      · cases h; exact e1
      · cases h; exact e1
  rw [if_neg c] at h; clear c
  by_cases c : (hd == "ec_undo") = true
  · rw [if_pos c] at h
    split at h
    · cases h
    · rename_i rc lb hu
      cases h
      cases hl : ed.lb with
      | none => rw [hl] at hu; cases hu
      | some lb0 =>
        rw [hl] at hu
        exact inv_setLb hi hl (fun _ hd => hd.undo hu)
  rw [if_neg c] at h; clear c
  by_cases c : (hd == "ec_redo") = true
  · rw [if_pos c] at h
    split at h
    · cases h
    · rename_i rc lb hu
      cases h
      cases hl : ed.lb with
      | none => rw [hl] at hu; cases hu
      | some lb0 =>
        rw [hl] at hu
        exact inv_setLb hi hl (fun _ hd => hd.redo hu)
  rw [if_neg c] at h; clear c
  by_cases c : (hd == "ec_mark") = true
  · rw [if_pos c] at h
    split at h
    · cases h
    · rename_i hr
      have e1 := hi.same (exRegion_same hr)
      split at h
      · cases h; exact e1
      · split at h
        · cases h
        · rename_i lb hlb
          cases h
          exact inv_setLb e1 hlb (fun _ hd => hd.setMark _ _ _)
  rw [if_neg c] at h; clear c
  by_cases c : (hd == "ec_rs") = true
  · rw [if_pos c] at h
    cases h; exact hi
  rw [if_neg c] at h; clear c
  by_cases c : (hd == "ec_at") = true
  · rw [if_pos c] at h
    exact hat _ _ _ hi h
  rw [if_neg c] at h; clear c
  by_cases c : (hd == "ec_glob") = true
  · rw [if_pos c] at h
    exact hglob _ _ _ hi h
  rw [if_neg c] at h; clear c
  by_cases c : (hd == "ec_edit") = true
  · exact absurd (by simpa using c) he
  rw [if_neg c] at h; clear c
  by_cases c : (hd == "ec_substitute") = true
  · exact absurd (by simpa using c) hs
  rw [if_neg c] at h; clear c
  by_cases c : (hd == "ec_exec") = true
  · rw [if_pos c] at h
    simp only [] at h
    split at h
    · cases h
    · rename_i ed1 hg
      cases h
      exact inv_guard hi hg
    · rename_i ed1 hg
      have e0 : Inv ed1 := inv_guard hi hg
      split at h
      · cases h
      · rename_i ed2 hp
        cases h
        exact e0.same (pathExpand_same hp)
      · rename_i ecmd ed2 hp
        have e1 : Inv ed2 := e0.same (pathExpand_same hp)
        split at h
        · cases h; exact e1
        · split at h
          · cases h
          · rename_i hr
            have e2 := e1.same (exRegion_same hr)
            repeat' (split at h)
            all_goals (first | cases h | skip)
            all_goals (first | exact e2 | skip)
            · rename_i hm
              cases hx : Ed.edit _ _ _ _ with
              | none => rw [hx] at h; cases h
              | some edx =>
                rw [hx] at h
                cases h
                exact inv_edit e2 hx
  rw [if_neg c] at h; clear c
  by_cases c : (hd == "ec_read") = true
  · rw [if_pos c] at h
    simp only [] at h
    split at h
    · cases h
    · rename_i path ed1 hp
      have e0 : Inv ed1 := by
        split at hp
        · exact hi.same (pathExpand_same hp)
        · cases hp; exact hi
      split at h
      · cases h
      · rename_i edr hr
        have e1 := e0.same (exRegion_same hr)
        repeat' (split at h)
        all_goals (first | cases h | skip)
        all_goals (first | exact e1 | skip)
        · rename_i hm
          split at hm
          · exact (inv_edit e1 hm).to rfl rfl rfl
          · cases hm; exact e1
        · rename_i lb1 hrd
          cases hl : edr.lb with
          | none => rw [hl] at hrd; cases hrd
          | some lb0 =>
            rw [hl] at hrd
            simp only [Option.bind_some] at hrd
            exact (inv_setLb (lb := lb1) e1 hl (fun _ hd => hd.rd hrd)).to rfl rfl rfl
  rw [if_neg c] at h; clear c
  by_cases c : (hd == "ec_write") = true
  · exact absurd (by simpa using c) hw
  rw [if_neg c] at h; clear c
  by_cases c : (hd == "ec_quit") = true
  · exact absurd (by simpa using c) hq
  rw [if_neg c] at h; clear c
  by_cases c : (hd == "ec_buffer") = true
  · rw [if_pos c] at h
    split at h
    · simp only [] at h
      cases h
      refine foldl_inv (fun st : Bool × Ed => Inv st.2) _ ?_ _ _ hi
      intro st i hst
      obtain ⟨go, ed0⟩ := st
      simp only [] at hst ⊢
      split
      · exact hst
      · split
        · exact hst
        · have hm := inv_modifiedAt i hst
          generalize ed0.modifiedAt i = p at hm
          obtain ⟨m, ed1⟩ := p
          exact hm
    · split at h
      · simp only [] at h
        have e1 := inv_bufsShift hi
        split at h
        · cases h
          exact core_set e1 0 (bufOk_fresh e1.1 _ rfl rfl)
        · cases h; exact e1
      · split at h
        · simp only [] at h
          cases h
          show Core _ _ _
          refine core_congr_view ?_ hi
          exact (renumber_view ed.bufs [] 0).trans (by simp)
        · simp only [] at h
          repeat' (split at h)
          all_goals (try cases h)
          all_goals first
            | exact hi
            | exact inv_guard hi (by assumption)
            | exact inv_bufsSwitch _ (inv_guard hi (by assumption))
  rw [if_neg c] at h; clear c
  by_cases c : (hd == "ec_set") = true
  · rw [if_pos c] at h
    simp only [] at h
    repeat' (split at h)
    all_goals (first | cases h | skip)
    all_goals (first | exact hi | exact hi.same (setOpt_same _ _ _))
  rw [if_neg c] at h; clear c
  by_cases c : (hd == "ec_echo") = true
  · rw [if_pos c] at h
    cases h; exact hi
  rw [if_neg c] at h; clear c
  cases h; exact hi

end Neatvi.Lemmas.C02d
