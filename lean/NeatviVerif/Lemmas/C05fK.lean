import NeatviVerif.Lemmas.C05fJ
/-!
# C05f, part K: `vi_motion`

`SearchOk s`: the hypotheses that exclude the traps of the searches — a counted `/` search whose match reaches the
end of its line (then `lbuf_search` is restarted beyond the line and `uc_chr` returns its static `""`), a remembered
pattern with a NUL, and a repeated search restarted from a hit on the end of its line.  `MarksIn s`: a mark whose row is beyond the buffer has column 0 (the model lets `uc_sub` trap on a
missing line with a positive offset, where the C code, handed NULL, is safe).
-/
set_option linter.unusedSimpArgs false
set_option linter.unusedVariables false
namespace Neatvi.Lemmas.C05f
open Neatvi Neatvi.Uc Neatvi.Lbuf Neatvi.Ex Neatvi.Mot Neatvi.Vi Neatvi.Rset

/-- `s1` is a state in which a `/` typed among the pending keys of `s` has just been read: same text, same
    registers, same last pattern -/
def SlashAt (s s1 : VS) : Prop :=
  (47 : Int) :: allQ s1 <:+ allQ s ∧ lines s1 = lines s ∧ s1.ed.regs = s.ed.regs ∧ s1.ed.xkwd = s.ed.xkwd

/-- the cursor as a start of a motion: an existing character, or `(0, 0)`-like in an empty buffer -/
def CurOk (s : VS) (r o : Int) : Prop := PosIn (lines s) r o ∧ (lenOf s ≠ 0 → o < slenAt (lines s) r)

/-- the keys that start a search: `/ ? n N ^A` -/
def searchKeys : List Int := [47, 63, 110, 78, 1]

/-- `s1` is a state in which a search key typed among the pending keys of `s` has just been read: same text, same
    registers; the last pattern is that of `s`, or the word pattern `^A` has just made of the word under the cursor -/
def SearchAt (s s1 : VS) : Prop :=
  (∃ k ∈ searchKeys, k :: allQ s1 <:+ allQ s) ∧ lines s1 = lines s ∧ s1.ed.regs = s.ed.regs ∧
    (s1.ed.xkwd = s.ed.xkwd ∨ ∃ cw, s1.ed.xkwd = (([92, 60] ++ cw ++ [92, 62]).take 127).take (Gen.EXLEN - 1))

/-- **the hypotheses about the searches of one iteration** (per state; `kwd` is in fact an invariant of the editor —
    part of C05e's `Safe` — but C05f's `SOk` does not carry it):
    * `slash`: no counted `/` search that can be typed from the pending keys overruns a line of the buffer;
    * `kwd`: the remembered pattern has no NUL (`rstr_make` traps in the model on `\` NUL);
    * `pos`: the pattern in force after the prompt of a search `? n N ^A` typed from the pending keys matches *inside*
      the lines (`PatIn`, decidable per pattern and line; for both settings of `ic`).  It is what allows a repeated
      search (`2n`) to restart from its previous hit; it can fail only on a line that ends in a truncated multi-byte
      character (C05h `search_hit_beyond_last_char`). -/
structure SearchOk (s : VS) : Prop where
  slash : ∀ (s1 : VS) (cnt r o : Int), SlashAt s s1 → 2 ≤ cnt → CurOk s r o → viSearch 47 cnt r o s1 ≠ Res.trap
  kwd : NoNul s.ed.xkwd
  pos : ∀ (s1 : VS) (cmd : Nat) (ab : Bool) (s2 : VS), SearchAt s s1 → cmd ≠ 47 → sPre cmd s1 = Res.ok ab s2 →
    ∀ ic, PatIn s2.ed.xkwd ic (lines s)

theorem SearchAt.mono {s s' s1 : VS} (h : SearchAt s' s1) (hq : allQ s' <:+ allQ s) (hl : lines s' = lines s)
    (hr : s'.ed.regs = s.ed.regs) (hk : s'.ed.xkwd = s.ed.xkwd) : SearchAt s s1 := by
  obtain ⟨⟨k, hk1, hk2⟩, a2, a3, a4⟩ := h
  exact ⟨⟨k, hk1, hk2.trans hq⟩, a2.trans hl, a3.trans hr, by rw [← hk]; exact a4⟩

theorem SearchOk.mono {s s' : VS} (h : SearchOk s) (hq : allQ s' <:+ allQ s) (hl : lines s' = lines s)
    (hr : s'.ed.regs = s.ed.regs) (hk : s'.ed.xkwd = s.ed.xkwd) : SearchOk s' := by
  refine ⟨?_, by rw [hk]; exact h.kwd, ?_⟩
  · intro s1 cnt r o ⟨a1, a2, a3, a4⟩ hc ho
    have hlen : lenOf s' = lenOf s := by unfold lenOf; rw [hl]
    unfold CurOk at ho
    rw [hl, hlen] at ho
    exact h.slash s1 cnt r o ⟨a1.trans hq, a2.trans hl, a3.trans hr, a4.trans hk⟩ hc ho
  · intro s1 cmd ab s2 hat hc hm ic
    rw [hl]
    exact h.pos s1 cmd ab s2 (hat.mono hq hl hr hk) hc hm ic

theorem SearchOk.pfx {s s' : VS} (h : SearchOk s) (hp : PfxPost s s') : SearchOk s' :=
  h.mono hp.2 (by rw [show lines s' = lines s from by unfold Vi.lines; rw [hp.1]]) (by rw [hp.1]) (by rw [hp.1])

/-- pushing back a key that does not start a search, for any description of the new state -/
theorem SearchOk.back' {s s' : VS} (h : SearchOk s) {c : Int} (hc : c ∉ searchKeys) (hq : allQ s' = c :: allQ s)
    (hl : lines s' = lines s) (hr : s'.ed.regs = s.ed.regs) (hk : s'.ed.xkwd = s.ed.xkwd) : SearchOk s' := by
  have hsuf : ∀ (k : Int) (q : List Int), k ∈ searchKeys → k :: q <:+ allQ s' → k :: q <:+ allQ s := by
    intro k q hk1 a1
    rw [hq] at a1
    rcases List.suffix_cons_iff.mp a1 with h1 | h1
    · injection h1 with h2 _; exact absurd (h2 ▸ hk1) hc
    · exact h1
  refine ⟨?_, by rw [hk]; exact h.kwd, ?_⟩
  · intro s1 cnt r o ⟨a1, a2, a3, a4⟩ hcn ho
    have hlen : lenOf s' = lenOf s := by unfold lenOf; rw [hl]
    unfold CurOk at ho
    rw [hl, hlen] at ho
    exact h.slash s1 cnt r o ⟨hsuf 47 _ (by decide) a1, a2.trans hl, a3.trans hr, a4.trans hk⟩ hcn ho
  · intro s1 cmd ab s2 ⟨⟨k, hk1, hk2⟩, a2, a3, a4⟩ hcm hm ic
    rw [hl]
    exact h.pos s1 cmd ab s2 ⟨⟨k, hk1, hsuf k _ hk1 hk2⟩, a2.trans hl, a3.trans hr, by rw [← hk]; exact a4⟩ hcm hm ic

/-- pushing back a key that does not start a search -/
theorem SearchOk.back {s : VS} (h : SearchOk s) {c : Int} (hc : c ∉ searchKeys) : SearchOk { s with vibuf := c :: s.vibuf } :=
  h.back' hc (allQ_viBack _ _) rfl rfl rfl

/-- the word `^A` takes from under the cursor is a piece of a line: no NUL -/
theorem curword_noNul {s : VS} (hl : ∀ l ∈ lines s, LineOk l) {r o : Int} {cw : Bytes} (h : curword s r o = some cw) :
    NoNul cw := by
  unfold curword at h
  cases hln : lineOf s r with
  | none => rw [hln] at h; cases h
  | some ln =>
    rw [hln] at h
    dsimp only at h
    have hmem : ln ∈ lines s := by
      unfold lineOf lineAt at hln
      split at hln
      · cases hln
      · exact List.mem_of_getElem? hln
    repeat' split at h
    all_goals first
      | (cases h; done)
      | (cases h
         intro h0
         exact (hl ln hmem).noNul (List.mem_of_mem_drop (List.mem_of_mem_take (List.mem_of_mem_take h0))))

/-- a mark that points beyond the buffer has column 0 -/
def MarksIn (s : VS) : Prop :=
  ∀ lb m p q, s.ed.lb = some lb → jump lb m = some (p, q) → lineAt (lines s) p = none → q ≤ 0

theorem repeatMove_pos (ls : Lines) (step : Int → Int → Option (Int × Int))
    (hstep : ∀ r o r' o', PosIn ls r o → step r o = some (r', o') → PosIn ls r' o') :
    ∀ (k : Nat) (r o : Int), PosIn ls r o → PosIn ls (repeatMove step k r o).1 (repeatMove step k r o).2 := by
  intro k
  induction k with
  | zero => intro r o h; exact h
  | succ k ih =>
    intro r o h
    unfold repeatMove
    cases hs : step r o with
    | none => exact h
    | some p => obtain ⟨r', o'⟩ := p; exact ih r' o' (hstep r o r' o' h hs)

theorem viMotion_go_pos (mv : Int) (ls : Lines) (big : Bool) : ∀ (k : Nat) (r o : Int), PosIn ls r o →
    PosIn ls (viMotion.go mv ls big k r o).1 (viMotion.go mv ls big k r o).2 := by
  intro k
  induction k with
  | zero => intro r o h; exact h
  | succ k ih =>
    intro r o h
    unfold viMotion.go
    have key : PosIn ls
        (if mv == 87 || mv == 119 then wordbeg ls big 1 r o
          else wordend ls big (if mv == 66 || mv == 98 then -1 else 1) r o).2.1
        (if mv == 87 || mv == 119 then wordbeg ls big 1 r o
          else wordend ls big (if mv == 66 || mv == 98 then -1 else 1) r o).2.2 := by
      split
      · exact wordbeg_pos ls big 1 r o h
      · exact wordend_pos ls big _ r o h
    generalize (if mv == 87 || mv == 119 then wordbeg ls big 1 r o
          else wordend ls big (if mv == 66 || mv == 98 then -1 else 1) r o) = q at key
    obtain ⟨b, r1, o1⟩ := q
    dsimp only
    split
    · exact key
    · exact ih _ _ key

theorem posIn_of_lines {ls ls' : Lines} (h : ls' = ls) {r o : Int} (hp : PosIn ls' r o) : PosIn ls r o := h ▸ hp

/-- **`vi_motion`**: no trap (given the hypotheses on the marks, the regex layer and counted `/` searches);
    a motion that succeeds returns a position inside the buffer -/
theorem wp_viMotion (row off : Int) (s : VS) {c : Prop} (hs : SOk s c) (hcur : CurOk s row off)
    (hmk : MarksIn s) (hsl : SearchOk s) (Q : Int × Int × Int → VS → Prop)
    (hQ : ∀ mv r o s', MvF s s' → (0 < mv → PosIn (lines s) r o) →
      (mv = 0 → s'.ed = s.ed ∧ allQ s' <:+ allQ s) → Q (mv, r, o) s') :
    wp (viMotion row off) Q s := by
  obtain ⟨⟨hrow, hoff⟩, hoff'⟩ := hcur
  unfold viMotion
  wpn
  refine wp_viMotionln row 0 s hrow _ (fun mvl r1 sa pa hr1 h0 => ?_)
  dsimp only
  wpif hmvl
  · refine (wp_pure _ _ _).mpr (hQ _ _ _ _ (MvF.of_ed pa.1) (fun _ => ⟨h0, ?_⟩)
      (fun hz => absurd hz (by simpa using hmvl)))
    have := slenAt_nonneg (lines s) r1; omega
  have hr1' : r1 = row := hr1 (by simpa using hmvl)
  subst hr1'
  wpn
  refine wp_viRead sa _ (fun mv sb eb qb => ?_)
  wpn
  have mb : MvF s sb := MvF.of_ed (eb.trans pa.1)
  by_cases hmv0 : mv = 0
  · -- the key is NUL: no motion, the key is pushed back
    subst hmv0
    repeat (refine (wp_ite _ _ _ _ _).mpr ⟨fun hc => absurd hc (by decide), fun _ => ?_⟩)
    wpn
    refine hQ _ _ _ _ (mb.trans (MvF.of_ed rfl)) (fun h => by omega) (fun _ => ⟨eb.trans pa.1, ?_⟩)
    rw [allQ_viBack, ← qb]; exact pa.2
  have hQ3 : ∀ mv', mv' ≠ 0 → ∀ r o s', MvF s s' → (0 < mv' → PosIn (lines s) r o) → Q (mv', r, o) s' :=
    fun mv' hne r o s' m p => hQ mv' r o s' m p (fun hz => absurd hz hne)
  have hlb : lines sb = lines s := mb.lines
  have hfail : wp (pure ((-1 : Int), r1, off) : M (Int × Int × Int)) Q sb :=
    (wp_pure _ _ _).mpr (hQ3 _ (by first | exact hmv0 | decide) _ _ _ mb (fun h => by omega))
  have hcurp : PosIn (lines sb) r1 off := by rw [hlb]; exact ⟨hrow, hoff⟩
  -- f F t T
  wpif hc
  · wpn
    refine wp_viChar sb _ (fun cs sc ec hcs => ?_)
    have mc : MvF s sc := mb.trans (MvF.of_EdF ec)
    cases cs with
    | none => exact (wp_pure _ _ _).mpr (hQ3 _ (by first | exact hmv0 | decide) _ _ _ mc (fun h => by omega))
    | some cs =>
      dsimp only
      wpn
      cases hf : findchar (lines sb) cs mv.toNat (cntOf s) r1 off with
      | none => exact (wp_pure _ _ _).mpr (hQ3 _ (by first | exact hmv0 | decide) _ _ _ (mc.trans (MvF.of_ed rfl)) (fun h => by omega))
      | some o =>
        refine (wp_pure _ _ _).mpr (hQ3 _ (by first | exact hmv0 | decide) _ _ _ (mc.trans (MvF.of_ed rfl)) (fun _ => ⟨hrow, ?_⟩))
        rw [← hlb]; exact findchar_le _ _ _ _ _ _ _ hf
  -- ; ,
  wpif hc
  · wpif hcl
    · exact hfail
    · cases hf : findchar (lines sb) sb.charlast sb.charcmd (if mv == 59 then cntOf s else -cntOf s) r1 off with
      | none => exact hfail
      | some o =>
        refine (wp_pure _ _ _).mpr (hQ3 _ (by first | exact hmv0 | decide) _ _ _ mb (fun _ => ⟨hrow, ?_⟩))
        rw [← hlb]; exact findchar_le _ _ _ _ _ _ _ hf
  -- h l
  wpif hc
  · have := repeatMove_pos (lines sb)
      (fun r o => (nextcol sb (if mv == 104 then -(if dirCtx s ((lineOf s r1).getD []) ≥ 0 then (1 : Int) else -1)
        else (if dirCtx s ((lineOf s r1).getD []) ≥ 0 then 1 else -1)) r o).map (fun o' => (r, o')))
      (by
        intro r o r' o' hp hst
        cases hn : nextcol sb (if mv == 104 then -(if dirCtx s ((lineOf s r1).getD []) ≥ 0 then (1 : Int) else -1)
          else (if dirCtx s ((lineOf s r1).getD []) ≥ 0 then 1 else -1)) r o with
        | none => rw [hn] at hst; cases hst
        | some x =>
          rw [hn] at hst
          cases hst
          exact ⟨hp.1, nextcol_le _ _ _ _ _ hn⟩) (cntOf s).toNat r1 off hcurp
    generalize repeatMove _ _ _ _ = q at this ⊢
    obtain ⟨r2, o2⟩ := q
    exact (wp_pure _ _ _).mpr (hQ3 _ (by first | exact hmv0 | decide) _ _ _ mb (fun _ => posIn_of_lines hlb this))
  -- B E W b e w
  wpif hc
  · have := viMotion_go_pos mv (lines sb) (mv == 66 || mv == 69 || mv == 87) (cntOf s).toNat r1 off hcurp
    generalize viMotion.go _ _ _ _ _ _ = q at this ⊢
    obtain ⟨r2, o2⟩ := q
    exact (wp_pure _ _ _).mpr (hQ3 _ (by first | exact hmv0 | decide) _ _ _ mb (fun _ => posIn_of_lines hlb this))
  -- { }
  wpif hc
  · have := repeatMove_pos (lines sb)
      (fun r _ => some (paragraphbeg (lines sb) (if mv == 123 then -1 else 1) r))
      (by
        intro r o r' o' hp hst
        cases hst
        exact paragraphbeg_pos _ _ _) (cntOf s).toNat r1 off hcurp
    generalize repeatMove _ _ _ _ = q at this ⊢
    obtain ⟨r2, o2⟩ := q
    exact (wp_pure _ _ _).mpr (hQ3 _ (by first | exact hmv0 | decide) _ _ _ mb (fun _ => posIn_of_lines hlb this))
  -- [[ ]]
  wpif hc
  · wpn
    refine wp_viRead sb _ (fun c2 sc ec qc => ?_)
    have mc : MvF s sc := mb.trans (MvF.of_ed ec)
    wpif hc2
    · exact (wp_pure _ _ _).mpr (hQ3 _ (by first | exact hmv0 | decide) _ _ _ mc (fun h => by omega))
    · wpn
      exact hQ3 _ (by first | exact hmv0 | decide) _ _ _ (mc.trans (MvF.of_ed rfl)) (fun _ => ⟨hrow, hoff⟩)
  -- 0 ^ $ |
  wpif hc
  · refine (wp_pure _ _ _).mpr (hQ3 _ (by first | exact hmv0 | decide) _ _ _ mb (fun _ => ⟨hrow, slenAt_nonneg _ _⟩))
  wpif hc
  · refine (wp_pure _ _ _).mpr (hQ3 _ (by first | exact hmv0 | decide) _ _ _ mb (fun _ => ⟨hrow, ?_⟩))
    rw [← hlb]; exact indents_le _ _
  wpif hc
  · refine (wp_pure _ _ _).mpr (hQ3 _ (by first | exact hmv0 | decide) _ _ _ mb (fun _ => ⟨hrow, ?_⟩))
    rw [← hlb]; exact eol_le _ _
  wpif hc
  · wpn
    refine hQ3 _ (by first | exact hmv0 | decide) _ _ _ (mb.trans (MvF.of_ed rfl)) (fun _ => ⟨hrow, ?_⟩)
    rw [← hlb]; exact col2off_le _ _ _
  -- / ? n N
  wpif hc
  · wpn
    have hsb : SOk sb c := mb.sok hs
    have hmvk : mv ∈ searchKeys := by
      simp only [Bool.or_eq_true, beq_iff_eq] at hc
      unfold searchKeys
      simp only [List.mem_cons, List.not_mem_nil, or_false]
      omega
    have hsuf : mv :: allQ sb <:+ allQ s := by rw [← qb]; exact pa.2
    refine wp_viSearch mv.toNat (cntOf s) r1 off sb hsb (by rw [eb, pa.1]; exact hsl.kwd) hcurp ?_ ?_ ?_ _
      (fun res sc mc _ hres => ?_)
    · intro hl
      rw [hlb]
      apply hoff'
      have : lenOf sb = lenOf s := by unfold lenOf; rw [hlb]
      rw [← this]; exact hl
    · intro h47 hcnt
      have hmv : mv = 47 := by
        simp only [Bool.or_eq_true, beq_iff_eq] at hc
        omega
      rw [h47]
      refine hsl.slash sb (cntOf s) r1 off ⟨?_, hlb, by rw [eb, pa.1], by rw [eb, pa.1]⟩ hcnt ⟨⟨hrow, hoff⟩, hoff'⟩
      rw [hmv] at hsuf; exact hsuf
    · intro hne _ ab s2 hm ic
      rw [hlb]
      exact hsl.pos sb mv.toNat ab s2 ⟨⟨mv, hmvk, hsuf⟩, hlb, by rw [eb, pa.1], Or.inl (by rw [eb, pa.1])⟩ hne hm ic
    · cases res with
      | none => exact (wp_pure _ _ _).mpr (hQ3 _ (by first | exact hmv0 | decide) _ _ _ (mb.trans mc) (fun h => by omega))
      | some p =>
        obtain ⟨r2, o2⟩ := p
        exact (wp_pure _ _ _).mpr (hQ3 _ (by first | exact hmv0 | decide) _ _ _ (mb.trans mc) (fun _ => posIn_of_lines hlb (hres r2 o2 rfl)))
  -- ^A
  wpif hc
  · cases hcw : curword sb r1 off with
    | none => exact hfail
    | some cw =>
      dsimp only
      wpn
      have md : MvF s { sb with ed := sb.ed.kwdSet (some (([92, 60] ++ cw ++ [92, 62]).take 127)) 1, soset := false } :=
        mb.trans ⟨rfl, rfl, rfl, rfl, id⟩
      have hmv1 : mv = 1 := by
        simp only [beq_iff_eq] at hc
        omega
      have hsuf : (1 : Int) :: allQ sb <:+ allQ s := by rw [← hmv1, ← qb]; exact pa.2
      refine wp_viSearch 110 (cntOf s) r1 off _ (md.sok hs) ?_ ?_ ?_ (fun h => by omega) ?_ _
        (fun res sc mc _ hres => ?_)
      · show NoNul ((sb.ed.kwdSet (some (([92, 60] ++ cw ++ [92, 62]).take 127)) 1).xkwd)
        unfold Ed.kwdSet
        dsimp only
        intro hmem
        have h1 := List.mem_of_mem_take (List.mem_of_mem_take hmem)
        simp only [List.cons_append, List.nil_append, List.mem_cons, List.mem_append, List.not_mem_nil, or_false] at h1
        rcases h1 with h1 | h1 | h1 | h1 | h1
        · omega
        · omega
        · exact curword_noNul (mb.sok hs).linesOk hcw h1
        · omega
        · omega
      · rw [md.lines]; exact ⟨hrow, hoff⟩
      · intro hl
        rw [md.lines]
        apply hoff'
        have : lenOf { sb with ed := sb.ed.kwdSet (some (([92, 60] ++ cw ++ [92, 62]).take 127)) 1, soset := false }
            = lenOf s := by unfold lenOf; rw [md.lines]
        rw [← this]; exact hl
      · intro _ _ ab s2 hm ic
        rw [md.lines]
        exact hsl.pos ({ sb with ed := sb.ed.kwdSet (some (([92, 60] ++ cw ++ [92, 62]).take 127)) 1, soset := false } : VS)
          110 ab s2 ⟨⟨1, by decide, hsuf⟩, md.lines, by show sb.ed.regs = s.ed.regs; rw [eb, pa.1],
          Or.inr ⟨cw, rfl⟩⟩ (by decide) hm ic
      · cases res with
        | none => exact (wp_pure _ _ _).mpr (hQ3 _ (by first | exact hmv0 | decide) _ _ _ (md.trans mc) (fun h => by omega))
        | some p =>
          obtain ⟨r2, o2⟩ := p
          exact (wp_pure _ _ _).mpr (hQ3 _ (by first | exact hmv0 | decide) _ _ _ (md.trans mc) (fun _ => posIn_of_lines md.lines (hres r2 o2 rfl)))
  -- space
  wpif hc
  · have := repeatMove_pos (lines sb)
      (fun r o => if o + 1 < 0 || (lineAt (lines sb) r).isNone || o + 1 ≥ slenAt (lines sb) r then none else some (r, o + 1))
      (by
        intro r o r' o' hp hst
        split at hst
        · cases hst
        · rename_i hcc
          cases hst
          simp only [Bool.or_eq_true, decide_eq_true_eq, not_or] at hcc
          exact ⟨hp.1, by omega⟩) (cntOf s).toNat r1 off hcurp
    generalize repeatMove _ _ _ _ = q at this ⊢
    obtain ⟨r2, o2⟩ := q
    exact (wp_pure _ _ _).mpr (hQ3 _ (by first | exact hmv0 | decide) _ _ _ mb (fun _ => posIn_of_lines hlb this))
  -- DEL ^H
  wpif hc
  · have := repeatMove_pos (lines sb)
      (fun r o => if o - 1 < 0 || (lineAt (lines sb) r).isNone || o - 1 ≥ slenAt (lines sb) r then none else some (r, o - 1))
      (by
        intro r o r' o' hp hst
        split at hst
        · cases hst
        · rename_i hcc
          cases hst
          simp only [Bool.or_eq_true, decide_eq_true_eq, not_or] at hcc
          exact ⟨hp.1, by omega⟩) (cntOf s).toNat r1 off hcurp
    generalize repeatMove _ _ _ _ = q at this ⊢
    obtain ⟨r2, o2⟩ := q
    exact (wp_pure _ _ _).mpr (hQ3 _ (by first | exact hmv0 | decide) _ _ _ mb (fun _ => posIn_of_lines hlb this))
  -- `mark
  wpif hc
  · wpn
    refine wp_viRead sb _ (fun m sc ec qc => ?_)
    have mc : MvF s sc := mb.trans (MvF.of_ed ec)
    wpif hm
    · exact (wp_pure _ _ _).mpr (hQ3 _ (by first | exact hmv0 | decide) _ _ _ mc (fun h => by omega))
    · cases hj : sb.ed.lb.bind (fun lb => jump lb m.toNat) with
      | none => exact (wp_pure _ _ _).mpr (hQ3 _ (by first | exact hmv0 | decide) _ _ _ mc (fun h => by omega))
      | some pq =>
        obtain ⟨p, q⟩ := pq
        dsimp only
        have hlb' : sb.ed.lb = s.ed.lb := mb.lb
        obtain ⟨lb, hlbs, hjj⟩ : ∃ lb, s.ed.lb = some lb ∧ jump lb m.toNat = some (p, q) := by
          rw [hlb'] at hj
          cases hl : s.ed.lb with
          | none => rw [hl] at hj; cases hj
          | some lb => rw [hl] at hj; exact ⟨lb, rfl, hj⟩
        have hp0 : 0 ≤ p := by
          unfold jump at hjj
          split at hjj
          · simp only [] at hjj
            split at hjj
            · cases hjj
            · cases hjj; omega
          · cases hjj
        cases hln : lineAt (lines sb) p with
        | some ln =>
          refine (wp_pure _ _ _).mpr (hQ3 _ (by first | exact hmv0 | decide) _ _ _ mc (fun _ => ⟨hp0, ?_⟩))
          rw [← hlb]; unfold slenAt; rw [hln]
          dsimp only
          omega
        | none =>
          refine (wp_pure _ _ _).mpr (hQ3 _ (by first | exact hmv0 | decide) _ _ _ mc (fun _ => ⟨hp0, ?_⟩))
          have := hmk lb m.toNat p q hlbs hjj (by rw [← hlb]; exact hln)
          have h2 := slenAt_nonneg (lines s) p
          omega
  -- %
  wpif hc
  · cases hpr : pair (lines sb) r1 off with
    | none => exact hfail
    | some x =>
      obtain ⟨r2, o2⟩ := x
      exact (wp_pure _ _ _).mpr (hQ3 _ (by first | exact hmv0 | decide) _ _ _ mb (fun _ => posIn_of_lines hlb (pair_pos _ _ _ _ hpr)))
  · wpn
    refine hQ _ _ _ _ (mb.trans (MvF.of_ed rfl)) (fun h => by omega) (fun _ => ⟨eb.trans pa.1, ?_⟩)
    rw [allQ_viBack, ← qb]; exact pa.2

end Neatvi.Lemmas.C05f
