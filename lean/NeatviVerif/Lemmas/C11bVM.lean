import NeatviVerif.Lemmas.C11bLit
/-!
# C11b, part 5: the VM started at a character boundary only visits character boundaries
-/
namespace Neatvi.Props.C11b
open Neatvi Neatvi.Uc Neatvi.Regex Neatvi.Spec
open Neatvi.Props.C11 (loop_induction loop_none loop_atom loop_mark loop_jump loop_fork loop_mtch act_eq
  lt_of_getElem?)

/-- a reported offset: unset (`-1`) or a character boundary -/
def OffB (cs : List Nat) (x : Int) : Prop := x = -1 ∨ ∃ k : Nat, x = (k : Int) ∧ Boundary cs k

/-- every mark is unset or a character boundary -/
def MarksB (cs : List Nat) (m : Marks) : Prop := ∀ x ∈ m, OffB cs x

theorem marksB_replicate (cs : List Nat) (n : Nat) : MarksB cs (List.replicate n (-1)) := by
  intro x hx
  exact Or.inl (List.mem_replicate.mp hx).2

theorem marksB_set {cs : List Nat} {m : Marks} (k pos : Nat) (h : MarksB cs m)
    (hp : Boundary cs pos) : MarksB cs (m.set k (pos : Int)) := by
  intro x hx
  rcases List.mem_or_eq_of_mem_set hx with hx | hx
  · exact h x hx
  · exact Or.inr ⟨pos, hx, hp⟩

theorem offB_getD {cs : List Nat} {m : Marks} (h : MarksB cs m) (i : Nat) : OffB cs (m.getD i (-1)) := by
  rw [List.getD_eq_getElem?_getD]
  cases hi : m[i]? with
  | none => exact Or.inl rfl
  | some x => exact h x (List.mem_of_getElem? hi)

variable (cx : Ctx)

/-- the hypothesis on the atoms of the program: each leads from a boundary to a boundary -/
def AtomB (cs : List Nat) : Prop :=
  ∀ a, Inst.atom a ∈ cx.prog → ∀ pos pos', Boundary cs pos →
    atomMatch a cx.subj cx.flg pos = AR.ok pos' → Boundary cs pos'

/-- it holds when the subject is valid UTF-8 and every atom of the program is well formed -/
theorem atomB_of_wf {cs : List Nat} (hv : Valid cs) (hs : cx.subj = encStr cs)
    (hwf : ∀ a, Inst.atom a ∈ cx.prog → WfAtom a) : AtomB cx cs := by
  intro a ha pos pos' hp h
  rw [hs] at h
  exact atomMatch_boundary_aux a cs cx.flg pos pos' hv (fun hk _ => hwf a ha hk) hp h

/-- with ICASE no hypothesis on the program is needed at all -/
theorem atomB_of_icase {cs : List Nat} (hv : Valid cs) (hs : cx.subj = encStr cs)
    (hic : hasFlag cx.flg REG_ICASE = true) : AtomB cx cs := by
  intro a _ pos pos' hp h
  rw [hs] at h
  exact atomMatch_boundary_aux a cs cx.flg pos pos' hv
    (fun _ hf => by rw [hic] at hf; cases hf) hp h

theorem loop_boundary {cs : List Nat} (hat : AtomB cx cs) :
    ∀ dep pc pos m cuts p' m' c', Boundary cs pos → MarksB cs m →
      loop cx dep pc pos m cuts = Res.ok p' m' c' → Boundary cs p' ∧ MarksB cs m' := by
  apply loop_induction cx (fun dep pc => ∀ pos m cuts p' m' c', Boundary cs pos → MarksB cs m →
      loop cx dep pc pos m cuts = Res.ok p' m' c' → Boundary cs p' ∧ MarksB cs m')
  intro dep pc ihd ihp pos m cuts p' m' c' hb hm h
  cases hi : cx.prog[pc]? with
  | none => rw [loop_none cx hi] at h; cases h
  | some inst =>
    have hpc := lt_of_getElem? hi
    cases inst with
    | atom a =>
      rw [loop_atom cx hi] at h
      split at h
      · cases h
      · cases h
      · rename_i pos1 heq
        have h1 := hat a (List.mem_of_getElem? hi) pos pos1 hb heq
        exact ihp (pc + 1) (by omega) hpc _ _ _ _ _ _ h1 hm h
    | mark k =>
      rw [loop_mark cx hi] at h
      refine ihp (pc + 1) (by omega) hpc _ _ _ _ _ _ hb ?_ h
      split
      · exact marksB_set k pos hm hb
      · exact hm
    | jump a =>
      rw [loop_jump cx hi] at h
      split at h
      · rename_i hgt
        exact ihp a hgt hpc _ _ _ _ _ _ hb hm h
      · cases h
    | fork a1 a2 =>
      rw [loop_fork cx hi] at h
      split at h
      · rename_i p1 m1 c1 heq
        cases h
        rw [act_eq] at heq
        split at heq
        · cases heq
        · exact ihd a1 (by omega) _ _ _ _ _ _ hb hm heq
      · cases h
      · split at h
        · rename_i hgt
          exact ihp a2 hgt hpc _ _ _ _ _ _ hb hm h
        · cases h
    | mtch =>
      rw [loop_mtch cx hi] at h
      cases h
      exact ⟨hb, hm⟩

theorem recmatch_boundary {cs : List Nat} (hat : AtomB cx cs) {start cuts pos : Nat} {m : Marks}
    {c : Nat} (hs : Boundary cs start) (h : recmatch cx start cuts = Res.ok pos m c) :
    Boundary cs pos ∧ MarksB cs m := by
  unfold recmatch at h
  rw [act_eq] at h
  split at h
  · cases h
  · exact loop_boundary cx hat _ _ _ _ _ _ _ _ hs (marksB_replicate _ _) h

/-! ## every state of the machine, not only those on the successful path

`Reach` over-approximates the states `(pc, pos, marks)` that `re_rec` visits from a start position:
both branches of every fork, at any depth. -/
inductive Reach (start : Nat) : Nat → Nat → Marks → Prop
  | init : Reach start 0 start (List.replicate (2 * cx.ngrps) (-1))
  | atom {pc pos m a pos'} : Reach start pc pos m → cx.prog[pc]? = some (Inst.atom a) →
      atomMatch a cx.subj cx.flg pos = AR.ok pos' → Reach start (pc + 1) pos' m
  | mark {pc pos m k} : Reach start pc pos m → cx.prog[pc]? = some (Inst.mark k) →
      Reach start (pc + 1) pos (if k < cx.ngrps then m.set k (pos : Int) else m)
  | jump {pc pos m a} : Reach start pc pos m → cx.prog[pc]? = some (Inst.jump a) → Reach start a pos m
  | fork1 {pc pos m a1 a2} : Reach start pc pos m → cx.prog[pc]? = some (Inst.fork a1 a2) →
      Reach start a1 pos m
  | fork2 {pc pos m a1 a2} : Reach start pc pos m → cx.prog[pc]? = some (Inst.fork a1 a2) →
      Reach start a2 pos m

theorem reach_boundary {cs : List Nat} (hat : AtomB cx cs) {start : Nat} (hs : Boundary cs start)
    {pc pos : Nat} {m : Marks} (h : Reach cx start pc pos m) : Boundary cs pos ∧ MarksB cs m := by
  induction h with
  | init => exact ⟨hs, marksB_replicate _ _⟩
  | atom _ hi hm ih => exact ⟨hat _ (List.mem_of_getElem? hi) _ _ ih.1 hm, ih.2⟩
  | @mark pc pos m k _ hi ih =>
    refine ⟨ih.1, ?_⟩
    split
    · exact marksB_set k pos ih.2 ih.1
    · exact ih.2
  | jump _ _ ih => exact ih
  | fork1 _ _ ih => exact ih
  | fork2 _ _ ih => exact ih

/-! ## the start-position loop -/

theorem execLoop_boundary {cs : List Nat} (hv : Valid cs) (hsubj : cx.subj = encStr cs)
    (hat : AtomB cx cs) : ∀ f start cuts m c, Boundary cs start →
    execLoop cx f start cuts = ExecRes.found m c → MarksB cs m := by
  intro f
  induction f with
  | zero => intro start cuts m c _ h; simp [execLoop] at h
  | succ f ih =>
    intro start cuts m c hs h
    rw [execLoop] at h
    split at h
    · cases h
    · split at h
      · rename_i p1 m1 c1 heq
        cases h
        exact (recmatch_boundary cx hat hs heq).2
      · cases h
      · split at h
        · cases h
        · refine ih _ _ _ _ ?_ h
          rw [hsubj]
          exact boundary_rx hv hs

/-- every start position `regexec` tries is a character boundary -/
inductive Tried : Nat → Prop
  | zero : Tried 0
  | step {i : Nat} : Tried i → Tried (i + rxLen cx.subj i)

theorem tried_boundary {cs : List Nat} (hv : Valid cs) (hsubj : cx.subj = encStr cs) {i : Nat}
    (h : Tried cx i) : Boundary cs i := by
  induction h with
  | zero => exact boundary_zero cs
  | step _ ih => rw [hsubj]; exact boundary_rx hv ih

end Neatvi.Props.C11b
