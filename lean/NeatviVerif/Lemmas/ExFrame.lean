import NeatviVerif.Model.ExCmd
import NeatviVerif.Lemmas.Hist
/-!
# Frame lemmas for the ex layer (used by Props/C14 and Props/C15)

What the address parser and the small helpers leave alone: the buffer table.
-/
namespace Neatvi.Lemmas.ExFrame
open Neatvi Neatvi.Lbuf Neatvi.Ex Neatvi.Rset

theorem cur_some_set (ed : Ed) (b b' : Buf) (h : ed.cur = some b) :
    (ed.setCur b').cur = some b' := by
  unfold Ed.cur Ed.setCur at *
  cases hb : ed.bufs with
  | nil => rw [hb] at h; simp at h
  | cons x r => simp

theorem setLb_lb (ed : Ed) (lb : Lb) : (ed.setLb lb).lb = ed.lb.map (fun _ => lb) := by
  unfold Ed.setLb Ed.lb
  cases h : ed.cur with
  | none => simp [h]
  | some b => simp [cur_some_set ed b _ h]

theorem lb_of_bufs {ed ed' : Ed} (h : ed'.bufs = ed.bufs) : ed'.lb = ed.lb := by
  unfold Ed.lb Ed.cur; rw [h]

theorem len_of_bufs {ed ed' : Ed} (h : ed'.bufs = ed.bufs) : ed'.len = ed.len := by
  unfold Ed.len; rw [lb_of_bufs h]

theorem line_of_bufs {ed ed' : Ed} (h : ed'.bufs = ed.bufs) (i : Int) : ed'.line i = ed.line i := by
  unfold Ed.line; rw [lb_of_bufs h]

@[simp] theorem kwdSet_bufs (ed : Ed) (k : Option Bytes) (d : Int) : (ed.kwdSet k d).bufs = ed.bufs := rfl
@[simp] theorem show_bufs (ed : Ed) (m : Bytes) : (ed.show m).bufs = ed.bufs := rfl
@[simp] theorem print_bufs (ed : Ed) (m : Bytes) : (ed.print m).bufs = ed.bufs := rfl

/-- split a hypothesis `h : (nested matches) = some (_, ed')` into its leaves and close those in which
    `ed'` is syntactically an update of `ed` that keeps `bufs` -/
macro "frame_split" h:ident : tactic => `(tactic| (
  repeat' (split at $h:ident)
  all_goals (try (simp only [Option.some.injEq, Prod.mk.injEq, reduceCtorEq] at $h:ident))
  all_goals (try (have h2 := And.right $h:ident; subst h2))
  all_goals (first | rfl | skip)))

theorem exSearch_bufs {ed ed' : Ed} {loc : Bytes} {r : Int × Bytes}
    (h : exSearch ed loc = some (r, ed')) : ed'.bufs = ed.bufs := by
  unfold exSearch at h
  simp only [] at h
  frame_split h

theorem exLineno_bufs {ed ed' : Ed} {loc : Bytes} {r : Int × Bytes}
    (h : exLineno ed loc = some (r, ed')) : ed'.bufs = ed.bufs := by
  unfold exLineno at h
  simp only [] at h
  split at h
  · cases h
  · rename_i n rest ed1 hb
    have h1 : ed1.bufs = ed.bufs := by
      frame_split hb
      rename_i hs _
      exact exSearch_bufs hs
      rename_i hs _
      exact exSearch_bufs hs
    frame_split h
    all_goals exact h1

theorem exRegion_go_bufs : ∀ (f : Nat) (ed : Ed) (loc : Bytes) (na : Nat) (b e : Int) (r : Int × Int) (ed' : Ed),
    exRegion.go f ed loc na b e = some (r, ed') → ed'.bufs = ed.bufs := by
  intro f
  induction f with
  | zero => intro ed loc na b e r ed' h; rw [exRegion.go] at h; cases h; rfl
  | succ f ih =>
    intro ed loc na b e r ed' h
    rw [exRegion.go] at h
    simp only [] at h
    split at h
    · cases h; rfl
    · split at h
      · cases h
      · rename_i n rest ed1 hl
        have h1 := exLineno_bufs hl
        split at h
        · cases h; exact h1
        · split at h
          · cases h; exact h1
          · have := ih _ _ _ _ _ _ _ h
            rw [this]
            split <;> exact h1

theorem exRegion_bufs {ed ed' : Ed} {loc : Bytes} {r : Nat × Int × Int}
    (h : exRegion ed loc = some (r, ed')) : ed'.bufs = ed.bufs := by
  unfold exRegion at h
  simp only [] at h
  split at h
  · cases h; rfl
  · split at h
    · cases h; rfl
    · split at h
      · cases h
      · rename_i hg
        have h1 := exRegion_go_bufs _ _ _ _ _ _ _ _ hg
        frame_split h
        all_goals exact h1

/-! ### `lbuf_edit` on the current buffer -/
open Neatvi.Lemmas.Hist Neatvi.Spec Neatvi.Props.C01

theorem replace_lines {lb lb' : Lb} {s : Option Bytes} {pos nDel : Nat} (h : replace lb s pos nDel = some lb') :
    pos + nDel ≤ lb.lines.length ∧ lb'.lines = lb.lines.take pos ++ optLines s ++ lb.lines.drop (pos + nDel) ∧
      lb'.useq = lb.useq := by
  by_cases hb : pos + nDel ≤ lb.lines.length
  · obtain ⟨lb2, h1, h2, _, _, h5⟩ := replace_spec lb s pos nDel hb
    rw [h] at h1; cases h1
    exact ⟨hb, h2, h5⟩
  · unfold replace at h
    simp only [hb, if_false] at h
    cases h

/-- lines after a successful `lbuf_edit` with a non-inverted range -/
theorem edit_lines {lb lb' : Lb} {buf : Option Bytes} {b e : Nat} (h : edit lb buf b e = some lb') (hbe : b ≤ e) :
    lb'.lines = lb.lines.take (min b lb.lines.length) ++ optLines buf ++ lb.lines.drop (min e lb.lines.length) := by
  unfold edit at h
  simp only [] at h
  split at h
  · omega
  · split at h
    · rename_i hc
      cases h
      simp only [Bool.and_eq_true, beq_iff_eq, Option.isNone_iff_eq_none] at hc
      rw [hc.2, ← hc.1]
      simp [optLines]
    · obtain ⟨_, h2, _⟩ := replace_lines h
      rw [h2, opt_lines]
      congr 2
      omega

theorem edit_useq {lb lb' : Lb} {buf : Option Bytes} {b e : Nat} (h : edit lb buf b e = some lb') :
    lb'.useq = lb.useq := by
  unfold edit at h
  simp only [] at h
  split at h
  · cases h
  · split at h
    · cases h; rfl
    · obtain ⟨_, _, h3⟩ := replace_lines h
      rw [h3]; rfl

/-- what `Ed.edit` does when it succeeds -/
theorem Ed_edit_some {ed ed' : Ed} {s : Option Bytes} {b e : Int} (h : ed.edit s b e = some ed') :
    0 ≤ b ∧ 0 ≤ e ∧ ∃ lb lb', ed.lb = some lb ∧ Lbuf.edit lb s b.toNat e.toNat = some lb' ∧
      ed' = ed.setLb lb' ∧ ed'.lb = some lb' := by
  unfold Ed.edit at h
  split at h
  · cases h
  · rename_i hneg
    simp only [Bool.or_eq_true, decide_eq_true_eq, not_or, Int.not_lt] at hneg
    split at h
    · cases h
    · rename_i lb hlb
      cases he : Lbuf.edit lb s b.toNat e.toNat with
      | none => rw [he] at h; cases h
      | some lb' =>
        rw [he] at h
        simp only [Option.map_some, Option.some.injEq] at h
        refine ⟨hneg.1, hneg.2, lb, lb', hlb, he, h.symm, ?_⟩
        rw [← h, setLb_lb, hlb]; rfl

end Neatvi.Lemmas.ExFrame
