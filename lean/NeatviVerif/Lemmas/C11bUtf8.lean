import NeatviVerif.Lemmas.C12Utf8
/-!
# C11b, part 1: character boundaries of an encoded string
-/
namespace Neatvi.Props.C11b
open Neatvi Neatvi.Uc Neatvi.Regex Neatvi.Spec

/-- every code point is one the editor handles (U+0001 .. U+10FFFF; the newline that ends a line is
    the code point 10) -/
def Valid (cs : List Nat) : Prop := ∀ c ∈ cs, ValidCp c

instance (cs : List Nat) : Decidable (Valid cs) := by unfold Valid; exact inferInstance

/-- `k` is a character boundary of `encStr cs`: the byte offset of some character, or the end -/
def Boundary (cs : List Nat) (k : Nat) : Prop :=
  ∃ j, j ≤ cs.length ∧ k = (encStr (cs.take j)).length

instance (cs : List Nat) (k : Nat) : Decidable (Boundary cs k) := by
  unfold Boundary; exact inferInstance

/-- a continuation byte -/
def Cont (b : Nat) : Prop := 128 ≤ b ∧ b < 192

instance (b : Nat) : Decidable (Cont b) := by unfold Cont; infer_instance

theorem valid_append {a b : List Nat} : Valid (a ++ b) ↔ Valid a ∧ Valid b := by
  unfold Valid
  constructor
  · intro h; exact ⟨fun c hc => h c (by simp [hc]), fun c hc => h c (by simp [hc])⟩
  · intro h c hc
    simp at hc
    rcases hc with hc | hc
    · exact h.1 c hc
    · exact h.2 c hc

theorem valid_cons {a : Nat} {b : List Nat} : Valid (a :: b) ↔ ValidCp a ∧ Valid b := by
  unfold Valid
  constructor
  · intro h; exact ⟨h a (by simp), fun c hc => h c (by simp [hc])⟩
  · intro h c hc
    simp at hc
    rcases hc with hc | hc
    · subst hc; exact h.1
    · exact h.2 c hc

theorem valid_nil : Valid [] := by intro c hc; simp at hc

theorem valid_take {cs : List Nat} (h : Valid cs) (j : Nat) : Valid (cs.take j) :=
  fun c hc => h c (List.mem_of_mem_take hc)

theorem valid_drop {cs : List Nat} (h : Valid cs) (j : Nat) : Valid (cs.drop j) :=
  fun c hc => h c (List.mem_of_mem_drop hc)

theorem boundary_split {cs : List Nat} {k : Nat} :
    Boundary cs k ↔ ∃ pre post, cs = pre ++ post ∧ k = (encStr pre).length := by
  constructor
  · rintro ⟨j, _, hk⟩
    exact ⟨cs.take j, cs.drop j, (List.take_append_drop j cs).symm, hk⟩
  · rintro ⟨pre, post, h1, h2⟩
    refine ⟨pre.length, by rw [h1]; simp, ?_⟩
    rw [h1, List.take_left']
    · exact h2
    · rfl

theorem boundary_zero (cs : List Nat) : Boundary cs 0 := ⟨0, Nat.zero_le _, by simp⟩

theorem boundary_length (cs : List Nat) : Boundary cs (encStr cs).length :=
  ⟨cs.length, Nat.le_refl _, by simp⟩

theorem boundary_le {cs : List Nat} {k : Nat} (h : Boundary cs k) : k ≤ (encStr cs).length := by
  obtain ⟨pre, post, h1, h2⟩ := boundary_split.mp h
  rw [h1, encStr_append, h2]; simp

/-- what follows a boundary is the encoding of the remaining characters -/
theorem boundary_drop {cs : List Nat} {k : Nat} (h : Boundary cs k) :
    ∃ pre post, cs = pre ++ post ∧ k = (encStr pre).length ∧ (encStr cs).drop k = encStr post := by
  obtain ⟨pre, post, h1, h2⟩ := boundary_split.mp h
  refine ⟨pre, post, h1, h2, ?_⟩
  rw [h1, encStr_append, h2, List.drop_left']
  rfl

/-- the engine's step (`uc_len` of the lead byte, capped at the terminator) leads from a boundary to
    the next one; at the end of the subject it is 0 -/
theorem boundary_rx {cs : List Nat} (hv : Valid cs) {k : Nat} (h : Boundary cs k) :
    Boundary cs (k + rxLen (encStr cs) k) := by
  obtain ⟨pre, post, h1, h2⟩ := boundary_split.mp h
  cases post with
  | nil =>
    have hk : k = (encStr cs).length := by rw [h1, List.append_nil]; exact h2
    have : rxLen (encStr cs) k ≤ (encStr cs).length - k := Nat.min_le_right _ _
    rw [show k + rxLen (encStr cs) k = k by omega]
    exact h
  | cons c post =>
    have hc : ValidCp c := hv c (by rw [h1]; simp)
    have hsplit : encStr cs = encStr pre ++ (enc c ++ encStr post) := by
      rw [h1, encStr_append, encStr_cons]
    have hrx : rxLen (encStr cs) k = (enc c).length := by
      rw [h2]
      conv => lhs; rw [hsplit]
      exact C12.rxLen_at hc _ _
    rw [hrx]
    refine boundary_split.mpr ⟨pre ++ [c], post, by rw [h1]; simp, ?_⟩
    rw [h2, encStr_append]; simp

/-- at a boundary strictly inside the subject the step is positive -/
theorem boundary_rx_pos {cs : List Nat} (hv : Valid cs) {k : Nat} (h : Boundary cs k)
    (hlt : k < (encStr cs).length) : 0 < rxLen (encStr cs) k := by
  obtain ⟨pre, post, h1, h2⟩ := boundary_split.mp h
  cases post with
  | nil =>
    rw [h1, List.append_nil] at hlt; omega
  | cons c post =>
    have hc : ValidCp c := hv c (by rw [h1]; simp)
    have hsplit : encStr cs = encStr pre ++ (enc c ++ encStr post) := by
      rw [h1, encStr_append, encStr_cons]
    have hrx : rxLen (encStr cs) k = (enc c).length := by
      rw [h2]
      conv => lhs; rw [hsplit]
      exact C12.rxLen_at hc _ _
    rw [hrx]; exact enc_length_pos c

/-! ## UTF-8 is a prefix code -/

theorem enc_len_of_hd {c d : Nat} (hc : ValidCp c) (hd : ValidCp d)
    (h : Bytes.hd (enc c) = Bytes.hd (enc d)) : (enc c).length = (enc d).length := by
  rw [← Props.C16.len_enc hc, ← Props.C16.len_enc hd, h]

/-- if the encoding of `ls` is a prefix of the encoding of `post`, it ends on a character boundary
    of `post` -/
theorem prefix_code : ∀ (ls post : List Nat), Valid ls → Valid post →
    (encStr post).take (encStr ls).length = encStr ls →
    ∃ p1 p2, post = p1 ++ p2 ∧ (encStr p1).length = (encStr ls).length := by
  intro ls
  induction ls with
  | nil => intro post _ _ _; exact ⟨[], post, rfl, rfl⟩
  | cons l ls ih =>
    intro post hl hp h
    have hlv := (valid_cons.mp hl).1
    cases post with
    | nil =>
      rw [encStr_cons] at h
      have h' := congrArg List.length h
      have := enc_length_pos l
      simp at h'
      omega
    | cons c post =>
      have hcv := (valid_cons.mp hp).1
      rw [encStr_cons, encStr_cons] at h
      obtain ⟨a, t, he, _⟩ := enc_chr hcv
      obtain ⟨a', t', he', _⟩ := enc_chr hlv
      have hhd : Bytes.hd (enc c) = Bytes.hd (enc l) := by
        rw [he, he'] at h
        simp at h
        rw [he, he']; exact h.1
      have hlen := enc_len_of_hd hcv hlv hhd
      rw [List.length_append, ← hlen, List.take_append] at h
      have h2 := List.append_inj h (by simp; omega)
      have h3 : (encStr post).take (encStr ls).length = encStr ls := by
        have := h2.2
        rw [Nat.add_sub_cancel_left] at this
        exact this
      obtain ⟨p1, p2, e1, e2⟩ := ih post (valid_cons.mp hl).2 (valid_cons.mp hp).2 h3
      refine ⟨c :: p1, p2, by rw [e1]; rfl, ?_⟩
      rw [encStr_cons, encStr_cons, List.length_append, List.length_append, e2, hlen]

/-- a byte-wise literal match of an encoded literal leads from a boundary to a boundary -/
theorem boundary_literal {cs ls : List Nat} (hv : Valid cs) (hl : Valid ls) {k : Nat}
    (h : Boundary cs k) (hm : ((encStr cs).drop k).take (encStr ls).length = encStr ls) :
    Boundary cs (k + (encStr ls).length) := by
  obtain ⟨pre, post, h1, h2, h3⟩ := boundary_drop h
  rw [h3] at hm
  have hpost : Valid post := by rw [h1] at hv; exact (valid_append.mp hv).2
  obtain ⟨p1, p2, e1, e2⟩ := prefix_code ls post hl hpost hm
  refine boundary_split.mpr ⟨pre ++ p1, p2, by rw [h1, e1]; simp, ?_⟩
  rw [encStr_append, List.length_append, h2, e2]

/-- a literal that starts with a continuation byte never matches at a boundary -/
theorem boundary_dead {cs : List Nat} (hv : Valid cs) {k b : Nat} {r : Bytes}
    (h : Boundary cs k) (hb : Cont b) :
    ((encStr cs).drop k).take (b :: r).length ≠ b :: r := by
  obtain ⟨pre, post, h1, h2, h3⟩ := boundary_drop h
  rw [h3]
  have hpost : Valid post := by rw [h1] at hv; exact (valid_append.mp hv).2
  have hs := startOk_encStr hpost
  intro he
  cases hp : encStr post with
  | nil => rw [hp] at he; simp at he
  | cons x xs =>
    rw [hp] at he hs
    simp at he
    simp [StartOk] at hs
    have := hb.1; have := hb.2
    omega

end Neatvi.Props.C11b
