import NeatviVerif.Props.C07b
import NeatviVerif.Props.C16
import NeatviVerif.Lemmas.C08Uc
/-!
# C07c helper lemmas: valid UTF-8 buffers

A UTF-8 buffer is `lsOfU b = b.map (fun w => encStr (w ++ [10]))` for a reference buffer `b` whose lines
consist of valid code points other than the newline (`Utf8B b`).  The flat sequence, `Rep`, `total`,
`rowStart`, `cp` of `Lemmas/C07bFlat` are about the reference buffer and are reused as they are; this
file supplies the decoder round trip, and the access lemmas of the model on such a buffer: the line,
its length in characters, the character at an offset, its first byte / class / code point.
-/
set_option linter.unusedSimpArgs false
set_option linter.unusedVariables false
namespace Neatvi.Lemmas.C07c
open Neatvi Neatvi.Uc Neatvi.Mot Neatvi.Spec Neatvi.Spec.Motion Neatvi.Lemmas.C07 Neatvi.Lemmas.C07b

/-- the text of a UTF-8 line: valid code points, none of them the newline -/
def Utf8W (w : List Nat) : Prop := (∀ c ∈ w, ValidCp c) ∧ 10 ∉ w
def Utf8B (b : Buf) : Prop := ∀ w ∈ b, Utf8W w
/-- the lines of the model for the reference buffer `b` -/
def lsOfU (b : Buf) : Lines := b.map (fun w => encStr (w ++ [10]))
/-- every line is the UTF-8 encoding of valid code points (no newline among them) followed by the newline -/
def Utf8Buf (ls : Lines) : Prop :=
  ∀ l ∈ ls, ∃ body, l = encStr (body ++ [10]) ∧ (∀ c ∈ body, ValidCp c) ∧ 10 ∉ body
/-- the code points of a line (reference decoder) -/
def decLine (l : Bytes) : List Nat := decodeStr l.length l
/-- the reference buffer of a list of lines: every line decoded, without its newline -/
def refBufU (ls : Lines) : Buf := ls.map (fun l => (decLine l).dropLast)

/-! ### the decoder inverts the encoder -/
theorem enc_ascii {c : Nat} (h : c < 128) : enc c = [c] := by unfold enc; rw [if_pos h]

theorem encStr_ascii {w : List Nat} (h : ∀ c ∈ w, c < 128) : encStr w = w := by
  induction w with
  | nil => rfl
  | cons c r ih =>
    rw [encStr_cons, enc_ascii (h c (by simp)), ih (fun d hd => h d (by simp [hd]))]; rfl

theorem dec1_enc {c : Nat} (h : ValidCp c) : dec1 (enc c) = c := by
  obtain ⟨h0, h1⟩ := h
  unfold enc
  split
  · rfl
  split
  · simp only [dec1]
    rw [if_neg (by omega), if_pos (by omega)]; omega
  split
  · simp only [dec1]
    rw [if_neg (by omega), if_neg (by omega), if_pos (by omega)]; omega
  · simp only [dec1]
    rw [if_neg (by omega), if_neg (by omega), if_neg (by omega)]; omega

theorem specLen_hd_enc {c : Nat} (h : ValidCp c) : specLen (Bytes.hd (enc c)) = (enc c).length := by
  rw [← Props.C16.len_enc h]
  obtain ⟨a, t, he, hch⟩ := enc_chr h
  rw [he]
  exact (Props.C16.len_spec a hch.lt).symm

theorem decodeStr_encStr {cs : List Nat} (h : ∀ c ∈ cs, ValidCp c) :
    ∀ f, (encStr cs).length ≤ f → decodeStr f (encStr cs) = cs := by
  induction cs with
  | nil => intro f _; cases f <;> rfl
  | cons c r ih =>
    intro f hf
    have hc := h c (by simp)
    have hr : ∀ d ∈ r, ValidCp d := fun d hd => h d (by simp [hd])
    have hl := enc_length_pos c
    rw [encStr_cons] at hf ⊢
    cases f with
    | zero => rw [List.length_append] at hf; omega
    | succ f =>
      have hsl := specLen_hd_enc hc
      obtain ⟨a, t, he, hch⟩ := enc_chr hc
      have hsl' : specLen a = (a :: t).length := by rw [he] at hsl; exact hsl
      have hne : (specLen a == 0) = false := by rw [hsl']; simp
      have e1 : (a :: t ++ encStr r).take (a :: t).length = a :: t := List.take_left
      have e2 : (a :: t ++ encStr r).drop (a :: t).length = encStr r := List.drop_left
      rw [he]
      show decodeStr (f + 1) (a :: (t ++ encStr r)) = c :: r
      unfold decodeStr
      simp only [hne, Bool.false_eq_true, if_false]
      rw [hsl']
      rw [show a :: (t ++ encStr r) = a :: t ++ encStr r by rfl, e1, e2, ← he, dec1_enc hc]
      rw [ih hr f (by rw [List.length_append] at hf; omega)]

theorem decLine_enc {cs : List Nat} (h : ∀ c ∈ cs, ValidCp c) : decLine (encStr cs) = cs :=
  decodeStr_encStr h _ (Nat.le_refl _)

theorem valid_ten : ValidCp 10 := by decide

theorem Utf8W.line {w : List Nat} (h : Utf8W w) : ∀ c ∈ w ++ [10], ValidCp c := by
  intro c hc
  simp only [List.mem_append, List.mem_cons, List.not_mem_nil, or_false] at hc
  rcases hc with hc | rfl
  · exact h.1 c hc
  · exact valid_ten

theorem utf8Buf_eq (ls : Lines) (h : Utf8Buf ls) : ls = lsOfU (refBufU ls) ∧ Utf8B (refBufU ls) := by
  induction ls with
  | nil => exact ⟨rfl, fun w hw => by simp [refBufU] at hw⟩
  | cons l t ih =>
    obtain ⟨w, rfl, hw1, hw2⟩ := h l (by simp)
    obtain ⟨e, a⟩ := ih (fun l' hl' => h l' (by simp [hl']))
    have hd : (decLine (encStr (w ++ [10]))).dropLast = w := by
      rw [decLine_enc (Utf8W.line ⟨hw1, hw2⟩)]; simp
    constructor
    · show encStr (w ++ [10]) :: t = encStr ((decLine (encStr (w ++ [10]))).dropLast ++ [10]) :: lsOfU (refBufU t)
      rw [← e, hd]
    · intro x hx
      simp only [refBufU, List.map_cons, List.mem_cons] at hx
      rcases hx with hx | hx
      · rw [hx, hd]; exact ⟨hw1, hw2⟩
      · exact a x hx

theorem utf8Buf_lsOfU {b : Buf} (hb : Utf8B b) : Utf8Buf (lsOfU b) := by
  intro l hl
  simp only [lsOfU, List.mem_map] at hl
  obtain ⟨w, hw, rfl⟩ := hl
  exact ⟨w, rfl, (hb w hw).1, (hb w hw).2⟩

theorem refBufU_lsOfU {b : Buf} (hb : Utf8B b) : refBufU (lsOfU b) = b := by
  induction b with
  | nil => rfl
  | cons w b ih =>
    show (decLine (encStr (w ++ [10]))).dropLast :: refBufU (lsOfU b) = w :: b
    rw [decLine_enc (Utf8W.line (hb w (by simp))), ih (fun x hx => hb x (by simp [hx]))]
    simp

/-- an ASCII buffer is a UTF-8 buffer, with the same reference buffer -/
theorem asciiBuf_utf8 (ls : Lines) (h : AsciiBuf ls) : Utf8Buf ls ∧ refBufU ls = refBuf ls := by
  induction ls with
  | nil => exact ⟨fun l hl => by simp at hl, rfl⟩
  | cons l t ih =>
    obtain ⟨w, rfl, hw⟩ := h l (by simp)
    obtain ⟨a, e⟩ := ih (fun l' hl' => h l' (by simp [hl']))
    have henc : encStr (w ++ [10]) = w ++ [10] := by
      apply encStr_ascii
      intro c hc
      simp only [List.mem_append, List.mem_cons, List.not_mem_nil, or_false] at hc
      rcases hc with hc | rfl
      · exact (hw c hc).2.1
      · omega
    have hv : Utf8W w := ⟨fun c hc => ⟨(hw c hc).1, by have := (hw c hc).2.1; omega⟩, fun h10 => (hw 10 h10).2.2 rfl⟩
    constructor
    · intro l hl
      simp only [List.mem_cons] at hl
      rcases hl with rfl | hl
      · exact ⟨w, henc.symm, hv.1, hv.2⟩
      · exact a l hl
    · show (decLine (w ++ [10])).dropLast :: refBufU t = (w ++ [10]).dropLast :: refBuf t
      rw [e, ← henc, decLine_enc (Utf8W.line hv), henc]

theorem Utf8B.tail {w : List Nat} {b : Buf} (h : Utf8B (w :: b)) : Utf8B b := fun x hx => h x (by simp [hx])

theorem rowOf_utf8 {b : Buf} (hb : Utf8B b) {r : Nat} (hr : r < b.length) : Utf8W (rowOf b r) := by
  unfold rowOf
  rw [List.getD_eq_getElem?_getD, List.getElem?_eq_getElem hr]
  exact hb _ (List.getElem_mem hr)

/-! ### sizes: the scanners' fuel (bytes) bounds the number of characters -/
theorem encStr_length_ge (cs : List Nat) : cs.length ≤ (encStr cs).length := by
  induction cs with
  | nil => simp
  | cons c r ih =>
    rw [encStr_cons, List.length_append, List.length_cons]
    have := enc_length_pos c; omega

theorem foldl_totalU_aux (b : Buf) (a : Nat) : a + total b ≤ (lsOfU b).foldl (fun a l => a + l.length) a := by
  induction b generalizing a with
  | nil => simp [lsOfU, total]
  | cons w b ih =>
    simp only [lsOfU, List.map_cons, List.foldl_cons] at ih ⊢
    have h1 := encStr_length_ge (w ++ [10])
    have h2 := ih (a + (encStr (w ++ [10])).length)
    simp only [List.length_append, List.length_cons, List.length_nil] at h1
    simp only [total]
    omega

theorem foldl_totalU (b : Buf) : total b ≤ (lsOfU b).foldl (fun a l => a + l.length) 0 := by
  have := foldl_totalU_aux b 0; omega

/-! ### the flat sequence of a buffer without newlines inside the lines -/
theorem cp_rep_nlU {b : Buf} (hb : Utf8B b) {rn cn : Nat} (hr : rn < b.length) (hc : cn ≤ (rowOf b rn).length) :
    cp b (rowStart b rn + cn) = 10 ↔ cn = (rowOf b rn).length := by
  rw [cp_rep hr hc]
  constructor
  · intro h
    by_cases hlt : cn < (rowOf b rn).length
    · rw [getD_line_lt _ _ hlt] at h
      exact absurd (h ▸ List.getElem_mem hlt) (rowOf_utf8 hb hr).2
    · omega
  · intro h; rw [h, getD_line_eq]

theorem cp_validU {b : Buf} (hb : Utf8B b) (i : Nat) : ValidCp (cp b i) := by
  by_cases hi : i < total b
  · obtain ⟨r, o, rn, cn, rfl, rfl, h1, h2, rfl⟩ := rep_exists b i hi
    rw [cp_rep h1 h2]
    by_cases hlt : cn < (rowOf b rn).length
    · rw [getD_line_lt _ _ hlt]
      exact (rowOf_utf8 hb h1).1 _ (List.getElem_mem hlt)
    · have : cn = (rowOf b rn).length := by omega
      rw [this, getD_line_eq]; exact valid_ten
  · unfold cp
    rw [List.getD_eq_getElem?_getD, List.getElem?_eq_none (by rw [cat_length]; omega)]
    exact valid_ten

theorem colAt_zero_iffU {b : Buf} (hb : Utf8B b) (i : Nat) (hi : i < total b) :
    colAt (flat b) i = 0 ↔ (i = 0 ∨ cp b (i - 1) = 10) := by
  obtain ⟨r, o, rn, cn, rfl, rfl, h1, h2, rfl⟩ := rep_exists b i hi
  rw [colAt_rep h1 h2]
  constructor
  · intro h
    subst h
    cases rn with
    | zero => left; simp
    | succ k =>
      right
      have hs := rowStart_step b k (by omega)
      rw [show rowStart b (k + 1) + 0 - 1 = rowStart b k + (rowOf b k).length by omega]
      exact (cp_rep_nlU hb (by omega) (Nat.le_refl _)).2 rfl
  · intro h
    rcases h with h | h
    · cases rn with
      | zero => simpa using h
      | succ k => have := rowStart_step b k (by omega); omega
    · by_cases hc : cn = 0
      · exact hc
      · rw [show rowStart b rn + cn - 1 = rowStart b rn + (cn - 1) by omega] at h
        have := (cp_rep_nlU hb h1 (by omega : cn - 1 ≤ _)).1 h
        omega

/-! ### the model on a UTF-8 buffer -/
theorem lsOfU_length (b : Buf) : (lsOfU b).length = b.length := by simp [lsOfU]

theorem lineAt_repU (b : Buf) (rn : Nat) (hr : rn < b.length) :
    lineAt (lsOfU b) (rn : Int) = some (encStr (rowOf b rn ++ [10])) := by
  unfold lineAt lsOfU rowOf
  rw [if_neg (by omega)]
  simp [List.getElem?_eq_getElem hr, List.getD]

theorem lineAt_noneU (b : Buf) (r : Int) (hr : r < 0 ∨ (b.length : Int) ≤ r) : lineAt (lsOfU b) r = none := by
  unfold lineAt lsOfU
  split
  · rfl
  · rw [List.getElem?_eq_none]; simp; omega

theorem slenAt_repU {b : Buf} (hb : Utf8B b) (rn : Nat) (hr : rn < b.length) :
    slenAt (lsOfU b) (rn : Int) = ((rowOf b rn).length + 1 : Nat) := by
  unfold slenAt
  rw [lineAt_repU b rn hr]
  simp only []
  rw [Props.C16.slen_spec (Utf8W.line (rowOf_utf8 hb hr))]
  simp

theorem eol_repU {b : Buf} (hb : Utf8B b) (rn : Nat) (hr : rn < b.length) :
    eol (lsOfU b) (rn : Int) = ((rowOf b rn).length : Nat) := by
  rw [eol_closed, slenAt_repU hb rn hr]; omega

theorem drop_byteOff (cs : List Nat) (k : Nat) : (encStr cs).drop (byteOff cs k) = encStr (cs.drop k) := by
  have e : encStr cs = encStr (cs.take k) ++ encStr (cs.drop k) := by
    rw [← encStr_append, List.take_append_drop]
  unfold byteOff
  rw [e, List.drop_left]

/-- `uc_chr` on an encoded line: the encoding of the rest of the code points -/
theorem chrAt_enc {cs : List Nat} (h : ∀ c ∈ cs, ValidCp c) (k : Nat) (hk : k ≤ cs.length) :
    chrAt (encStr cs) (k : Int) = encStr (cs.drop k) := by
  unfold chrAt
  rw [if_neg (by omega), Int.toNat_natCast, Props.C16.chr_spec h, if_pos hk]
  exact drop_byteOff cs k

theorem chrAt_enc_beyond {cs : List Nat} (h : ∀ c ∈ cs, ValidCp c) (k : Nat) (hk : cs.length < k) :
    chrAt (encStr cs) (k : Int) = [] := by
  unfold chrAt
  rw [if_neg (by omega), Int.toNat_natCast, Props.C16.chr_spec h, if_neg (by omega)]

theorem lbufChr_repU {b : Buf} (hb : Utf8B b) {rn cn : Nat} (hr : rn < b.length) (hc : cn ≤ (rowOf b rn).length) :
    lbufChr (lsOfU b) (rn : Int) (cn : Int) = encStr ((rowOf b rn ++ [10]).drop cn) := by
  unfold lbufChr
  rw [lineAt_repU b rn hr]
  simp only []
  exact chrAt_enc (Utf8W.line (rowOf_utf8 hb hr)) cn (by simp; omega)

theorem drop_getD_cons (l : List Nat) (k : Nat) (hk : k < l.length) : l.drop k = l.getD k 0 :: l.drop (k + 1) := by
  rw [List.drop_eq_getElem_cons hk]
  congr 1
  rw [List.getD_eq_getElem?_getD, List.getElem?_eq_getElem hk]; rfl

/-- the character at a position of the buffer: the encoding of its code point, then the rest of the line -/
theorem lbufChr_cp {b : Buf} (hb : Utf8B b) {r o : Int} {i : Nat} (h : Rep b r o i) :
    ∃ rest, lbufChr (lsOfU b) r o = enc (cp b i) ++ rest := by
  obtain ⟨rn, cn, rfl, rfl, h1, h2, rfl⟩ := h
  rw [lbufChr_repU hb h1 h2, cp_rep h1 h2, drop_getD_cons _ cn (by simp; omega), encStr_cons]
  exact ⟨_, rfl⟩

theorem codeAt_repU {b : Buf} (hb : Utf8B b) {r o : Int} {i : Nat} (h : Rep b r o i) :
    codeAt (lsOfU b) r o = cp b i := by
  obtain ⟨rest, e⟩ := lbufChr_cp hb h
  unfold codeAt
  rw [e, Props.C16.code_enc (cp_validU hb i)]
  rfl

/-- ASCII stays, everything beyond is a letter: the classes of the model depend on the first byte only -/
def prj (x : Nat) : Nat := if x < 128 then x else 97
/-- the projected text of the buffer: below 128 everywhere, same classes and same newlines as `cp b` -/
def cpp (b : Buf) (i : Nat) : Nat := prj (cp b i)

theorem prj_lt (x : Nat) : prj x < 128 := by unfold prj; split <;> omega
theorem prj_low {x : Nat} (h : x < 128) : prj x = x := by unfold prj; rw [if_pos h]
theorem prj_eq_iff (x y : Nat) (hy : y < 128) (hy97 : y ≠ 97) : prj x = y ↔ x = y := by
  unfold prj; split <;> omega
theorem prj_beq_ten (x : Nat) : (prj x == 10) = (x == 10) := by
  rw [Bool.eq_iff_iff, beq_iff_eq, beq_iff_eq]; exact prj_eq_iff x 10 (by omega) (by omega)

theorem cls_prj (x : Nat) : cls (prj x) = cls x := by
  unfold prj
  split
  · rfl
  · next h =>
    have h1 : ¬ (x = 32) := by omega
    have h2 : ¬ (x ≤ 13) := by omega
    have h3 : x > 127 := by omega
    unfold cls
    simp [h1, h2, h3]

theorem clsBig_prj (x : Nat) : clsBig (prj x) = clsBig x := by unfold clsBig; rw [cls_prj]

theorem kk_prj (big : Bool) (x : Nat) : kk big (prj x) = kk big x := by
  cases big
  · exact cls_prj x
  · exact clsBig_prj x

theorem hd_enc_high {x : Nat} (h : ValidCp x) (hx : ¬ x < 128) (rest : Bytes) : 192 ≤ Bytes.hd (enc x ++ rest) := by
  obtain ⟨h0, h1⟩ := h
  unfold enc
  rw [if_neg hx]
  split
  · simp only [List.cons_append, Bytes.hd_cons]; omega
  split
  · simp only [List.cons_append, Bytes.hd_cons]; omega
  · simp only [List.cons_append, Bytes.hd_cons]; omega

theorem hd_enc_low {x : Nat} (hx : x < 128) (rest : Bytes) : Bytes.hd (enc x ++ rest) = x := by
  rw [enc_ascii hx]; rfl

theorem ucKind_high (a : Nat) (h : 192 ≤ a) : ucKind a = 1 := by
  unfold ucKind ucIsSpace ucIsAlpha
  have h1 : ¬ (a ≤ 127) := by omega
  have h2 : a > 127 := by omega
  simp [h1, h2]

theorem ucIsSpace_high (a : Nat) (h : 192 ≤ a) : ucIsSpace a = false := by
  unfold ucIsSpace
  have h1 : ¬ (a ≤ 127) := by omega
  simp [h1]

theorem ucKind_hd_enc {x : Nat} (h : ValidCp x) (rest : Bytes) : ucKind (Bytes.hd (enc x ++ rest)) = ucKind (prj x) := by
  by_cases hx : x < 128
  · rw [hd_enc_low hx, prj_low hx]
  · rw [ucKind_high _ (hd_enc_high h hx rest)]
    unfold prj; rw [if_neg hx]; decide

theorem ucIsSpace_hd_enc {x : Nat} (h : ValidCp x) (rest : Bytes) :
    ucIsSpace (Bytes.hd (enc x ++ rest)) = ucIsSpace (prj x) := by
  by_cases hx : x < 128
  · rw [hd_enc_low hx, prj_low hx]
  · rw [ucIsSpace_high _ (hd_enc_high h hx rest)]
    unfold prj; rw [if_neg hx]; decide

theorem kindAt_repU {b : Buf} (hb : Utf8B b) {r o : Int} {i : Nat} (h : Rep b r o i) :
    kindAt (lsOfU b) r o = ucKind (cpp b i) := by
  obtain ⟨rest, e⟩ := lbufChr_cp hb h
  unfold kindAt cpp
  rw [e, ucKind_hd_enc (cp_validU hb i)]

theorem isSpaceAt_repU {b : Buf} (hb : Utf8B b) {r o : Int} {i : Nat} (h : Rep b r o i) :
    isSpaceAt (lsOfU b) r o = ucIsSpace (cpp b i) := by
  obtain ⟨rest, e⟩ := lbufChr_cp hb h
  unfold isSpaceAt cpp
  rw [e, ucIsSpace_hd_enc (cp_validU hb i)]

theorem code10_repU {b : Buf} (hb : Utf8B b) {r o : Int} {i : Nat} (h : Rep b r o i) :
    (codeAt (lsOfU b) r o == 10) = (cpp b i == 10) := by
  rw [codeAt_repU hb h]; unfold cpp; rw [prj_beq_ten]

/-- the first byte of the character at a position: the code point itself below 128, a lead byte beyond -/
theorem hd_repU {b : Buf} (hb : Utf8B b) {r o : Int} {i : Nat} (h : Rep b r o i) :
    (cp b i < 128 ∧ Bytes.hd (lbufChr (lsOfU b) r o) = cp b i) ∨
    (¬ cp b i < 128 ∧ 192 ≤ Bytes.hd (lbufChr (lsOfU b) r o)) := by
  obtain ⟨rest, e⟩ := lbufChr_cp hb h
  rw [e]
  by_cases hx : cp b i < 128
  · exact Or.inl ⟨hx, hd_enc_low hx rest⟩
  · exact Or.inr ⟨hx, hd_enc_high (cp_validU hb i) hx rest⟩

end Neatvi.Lemmas.C07c
