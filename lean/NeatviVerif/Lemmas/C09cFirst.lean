import NeatviVerif.Lemmas.C09cDot
/-!
# C09c, part 14: the first iteration after `.` — the mark `^` is overwritten before it is read

The state after `.` and the state in which the recorded keys are typed instead differ in the mark `^` (`.` has set
it).  `viStep_weak`: when the next iteration is a *command* (`viPre` finds no motion and the command key is positive,
`cmdFirst`), it ends in `Sim false`-related states — `commandTail` sets the mark `^` before anything reads it.
A motion to the mark (`` `^ ``, `'^`) would read it; then the iteration is a motion on both sides.
-/
namespace Neatvi.Lemmas.C09c
open Neatvi Neatvi.Uc Neatvi.Lbuf Neatvi.Ex Neatvi.Vi Neatvi.Mot
open Neatvi.Lemmas.C09 (bind_apply pure_apply mapS)
open Neatvi.Lemmas.C09b (viStep_eq_mid stepMid stepMid_zero marked)

theorem rel2_viPre_w {w : Bool} : Rel2 w (EscMv w) viPre viPre := by
  unfold viPre
  repeat' (first | with_reducible exact rel2_viMotion _ _ | rel_step)

/-- the iteration that starts in `t` is a command: `viPre` finds no motion and the key of the command is positive
(if `viPre` or the read of the key fails, nothing is required) -/
def cmdFirst (t : VS) : Bool :=
  match viPre t with
  | Res.ok (mv, _, _) t1 => mv == 0 && (match viRead t1 with | Res.ok c _ => decide (0 < c) | _ => true)
  | _ => true

theorem RR.bind {α β : Type} {m m' : M α} {f f' : α → M β} {s t : VS} (hm : RR false NoEsc (m s) (m' t))
    (hf : ∀ a s' t', Sim false s' t' → RR false NoEsc (f a s') (f' a t')) :
    RR false NoEsc ((m >>= f) s) ((m' >>= f') t) := by
  rw [bind_apply, bind_apply]
  revert hm
  generalize m s = r1
  generalize m' t = r2
  intro hm
  cases hm with
  | ok a s' t' h' => exact hf a s' t' h'
  | esc a b s' t' h' => exact h'.elim
  | eof => exact RR.eof
  | trap => exact RR.trap

theorem sim_marked {x y : VS} (h : Sim true x y) : Sim false (marked x) (marked y) := by
  unfold marked
  rw [h.xrow, h.xoff]
  exact { h with ed := markCaret_rel h.ed _ _ }

/-- the command switch on states that differ in the mark `^`, for a positive command key -/
theorem commandTail_weak {x y : VS} (h : Sim true x y)
    (hc : ∀ c y', viRead y = Res.ok c y' → 0 < c) : RR false NoEsc (commandTail x) (commandTail y) := by
  rw [commandTail_eq, bind_apply, bind_apply]
  have hr := rel2_viRead (w := true) (E := NoEsc) x y h
  revert hr
  revert hc
  generalize viRead x = r1
  generalize viRead y = r2
  intro hc
  intro hr
  cases hr with
  | ok c x1 y1 h1 =>
    have hpos := hc c y1 rfl
    simp only []
    rw [if_neg (show ¬ c ≤ 0 by omega)]
    show RR false NoEsc (cmdA c (marked x1) (marked x1)) (cmdA c (marked y1) (marked y1))
    exact rel2_cmdA c (sim_marked h1) _ _ (sim_marked h1)
  | esc a b _ _ he => exact he.elim
  | eof => exact RR.eof
  | trap => exact RR.trap

/-- **the first iteration after `.`**: from states that differ in the mark `^`, a command iteration ends in fully
related states -/
theorem viStep_weak {x y : VS} (h : Sim true x y) (hc : cmdFirst y = true) : RR false NoEsc (viStep x) (viStep y) := by
  have hp := rel2_viPre_w x y h
  rw [viStep_eq_mid, bind_apply, bind_apply]
  unfold cmdFirst at hc
  revert hp
  revert hc
  generalize viPre x = px
  generalize viPre y = py
  intro hc
  intro hp
  cases hp with
  | ok a x1 y1 h1 =>
    obtain ⟨mv, r, o⟩ := a
    simp only [Bool.and_eq_true, beq_iff_eq] at hc
    obtain ⟨hmv, hk⟩ := hc
    subst hmv
    simp only []
    rw [stepMid_zero]
    refine RR.bind (commandTail_weak h1 ?_) (fun cont s' t' h' => rel2_viPost cont s' t' h')
    intro c y' hy
    rw [hy] at hk
    simpa using hk
  | esc a b _ _ he =>
    obtain ⟨mv, r, o⟩ := b
    simp only [Bool.and_eq_true, beq_iff_eq] at hc
    exact absurd hc.1 he.2.2
  | eof => exact RR.eof
  | trap => exact RR.trap

/-! ### `viPre` overwrites `arg1`, `arg2`, `ybuf`, `icmd` and, on a drained queue, `ibuf` -/

/-- `m` neither reads nor writes what `g` changes -/
def Comm {α : Type} (g : VS → VS) (m : M α) : Prop := ∀ S, m (g S) = mapS g (m S)

theorem comm_pure {α : Type} (g : VS → VS) (a : α) : Comm g (pure a : M α) := fun _ => rfl

theorem comm_bind {α β : Type} {g : VS → VS} {m : M α} {f : α → M β} (hm : Comm g m) (hf : ∀ a, Comm g (f a)) :
    Comm g (m >>= f) := by
  intro S
  rw [bind_apply, bind_apply, hm S]
  cases m S with
  | ok a S' => exact hf a S'
  | eof => rfl
  | trap => rfl

theorem comm_ite {α : Type} {g : VS → VS} {c : Prop} [Decidable c] {a b : M α} (ha : Comm g a) (hb : Comm g b) :
    Comm g (if c then a else b) := by
  split
  · exact ha
  · exact hb

/-- overwrite `arg1` and `ybuf` -/
def setAY (a : Int) (y : Nat) (S : VS) : VS := { S with arg1 := a, ybuf := y }
def setA (a : Int) (S : VS) : VS := { S with arg1 := a }

theorem comm_termRead_AY (a : Int) (y : Nat) : Comm (setAY a y) termRead := by
  intro S
  unfold termRead setAY mapS
  dsimp only
  by_cases h1 : (decide (S.ibufPos ≥ S.ibuf.length) && S.typed.isEmpty) = true
  · simp only [h1, if_true]
  · simp only [h1, Bool.false_eq_true, if_false]
    by_cases h2 : S.ibufPos ≥ S.ibuf.length
    · simp only [h2, ↓reduceIte]
    · simp only [h2, ↓reduceIte]

theorem comm_termRead_A (a : Int) : Comm (setA a) termRead := by
  intro S
  unfold termRead setA mapS
  dsimp only
  by_cases h1 : (decide (S.ibufPos ≥ S.ibuf.length) && S.typed.isEmpty) = true
  · simp only [h1, if_true]
  · simp only [h1, Bool.false_eq_true, if_false]
    by_cases h2 : S.ibufPos ≥ S.ibuf.length
    · simp only [h2, ↓reduceIte]
    · simp only [h2, ↓reduceIte]


theorem comm_viRead_AY (a : Int) (y : Nat) : Comm (setAY a y) viRead := by
  intro S
  unfold viRead
  show (match S.vibuf with | c :: r => Res.ok c { setAY a y S with vibuf := r } | [] => termRead (setAY a y S)) = _
  cases S.vibuf with
  | nil => exact comm_termRead_AY a y S
  | cons c r => rfl

theorem comm_viRead_A (a : Int) : Comm (setA a) viRead := by
  intro S
  unfold viRead
  show (match S.vibuf with | c :: r => Res.ok c { setA a S with vibuf := r } | [] => termRead (setA a S)) = _
  cases S.vibuf with
  | nil => exact comm_termRead_A a S
  | cons c r => rfl

theorem comm_viBack_AY (a : Int) (y : Nat) (c : Int) : Comm (setAY a y) (viBack c) := fun _ => rfl
theorem comm_viBack_A (a : Int) (c : Int) : Comm (setA a) (viBack c) := fun _ => rfl

theorem comm_viYankbuf_AY (a : Int) (y : Nat) : Comm (setAY a y) viYankbuf := by
  unfold viYankbuf
  refine comm_bind (comm_viRead_AY a y) fun c => comm_ite ?_ ?_
  · refine comm_bind (comm_viRead_AY a y) fun c => comm_ite ?_ (comm_pure _ _)
    exact comm_bind (comm_viRead_AY a y) fun d => comm_pure _ _
  · exact comm_bind (comm_viBack_AY a y c) fun _ => comm_pure _ _

theorem comm_digits_A (a : Int) (f : Nat) (n c : Int) : Comm (setA a) (viPrefix.digits f n c) := by
  induction f generalizing n c with
  | zero =>
    unfold viPrefix.digits
    exact comm_bind (comm_viBack_A a c) fun _ => comm_pure _ _
  | succ f ih =>
    unfold viPrefix.digits
    refine comm_ite ?_ ?_
    · exact comm_bind (comm_viRead_A a) fun c' => ih _ _
    · exact comm_bind (comm_viBack_A a c) fun _ => comm_pure _ _

theorem comm_viPrefix_A (a : Int) : Comm (setA a) viPrefix := by
  unfold viPrefix
  refine comm_bind (comm_viRead_A a) fun c => comm_ite ?_ ?_
  · exact comm_digits_A a _ _ _
  · exact comm_bind (comm_viBack_A a c) fun _ => comm_pure _ _

/-- `viPre` from the count on -/
def preTail2 (nrow noff : Int) (yb : Nat) : M (Int × Int × Int) := do
  let a1 ← viPrefix
  Vi.modify fun s => { s with arg1 := a1 }
  if yb == 0 then do
    let yb ← viYankbuf
    Vi.modify fun s => { s with ybuf := yb }
  viMotion nrow noff

/-- `viPre` after its first three steps -/
def preTail (nrow noff : Int) : M (Int × Int × Int) := do
  let yb ← viYankbuf
  Vi.modify fun s => { s with ybuf := yb }
  preTail2 nrow noff yb

theorem viPre_eq (S : VS) :
    viPre S = preTail S.ed.xrow (noeol S S.ed.xrow S.ed.xoff) { S with icmd := [], arg2 := 0 } := rfl

theorem preTail2_A (r o : Int) (yb : Nat) (a : Int) (V : VS) : preTail2 r o yb (setA a V) = preTail2 r o yb V := by
  unfold preTail2
  rw [bind_apply, bind_apply, comm_viPrefix_A a V]
  cases viPrefix V with
  | eof => rfl
  | trap => rfl
  | ok a1 V1 => rfl

/-- `viPre` overwrites `arg1` and `ybuf` before it reads them -/
theorem preTail_AY (r o : Int) (a : Int) (y : Nat) (U : VS) : preTail r o (setAY a y U) = preTail r o U := by
  unfold preTail
  rw [bind_apply, bind_apply, comm_viYankbuf_AY a y U]
  cases viYankbuf U with
  | eof => rfl
  | trap => rfl
  | ok yb U1 =>
    show preTail2 r o yb (setA a { U1 with ybuf := yb }) = preTail2 r o yb { U1 with ybuf := yb }
    exact preTail2_A r o yb a _

theorem viRead_drained (U : VS) (ib : Bytes) (ip : Nat) (hv : U.vibuf = []) (h : ib.length ≤ ip) :
    viRead { U with ibuf := ib, ibufPos := ip } = viRead { U with ibuf := [], ibufPos := 0 } := by
  unfold viRead
  simp only [hv]
  unfold termRead
  simp [h]

theorem preTail_drained (r o : Int) (U : VS) (ib : Bytes) (ip : Nat) (hv : U.vibuf = []) (h : ib.length ≤ ip) :
    preTail r o { U with ibuf := ib, ibufPos := ip } = preTail r o { U with ibuf := [], ibufPos := 0 } := by
  unfold preTail viYankbuf
  simp only [bind_apply, viRead_drained U ib ip hv h]

/-- **`viPre` does not look at `arg1`, `arg2`, `ybuf`, `icmd`, nor — with nothing pushed unread — at `ibuf`** -/
theorem viPre_typed (s : VS) (keys : Bytes) (hv : s.vibuf = []) (hd : s.ibuf.length ≤ s.ibufPos) :
    viPre { s with typed := keys } = viPre (typedAt s keys) := by
  rw [viPre_eq, viPre_eq]
  show preTail s.ed.xrow (noeol ({ s with typed := keys } : VS) s.ed.xrow s.ed.xoff)
      (setAY s.arg1 s.ybuf { ({ s with typed := keys, icmd := [], arg1 := 0, arg2 := 0, ybuf := 0 } : VS) with
        ibuf := s.ibuf, ibufPos := s.ibufPos }) =
    preTail s.ed.xrow (noeol (typedAt s keys) s.ed.xrow s.ed.xoff)
      { ({ s with typed := keys, icmd := [], arg1 := 0, arg2 := 0, ybuf := 0 } : VS) with ibuf := [], ibufPos := 0 }
  rw [preTail_AY, preTail_drained _ _ ({ s with typed := keys, icmd := [], arg1 := 0, arg2 := 0, ybuf := 0 } : VS) _ _ hv hd]
  rfl

theorem viStep_typed (s : VS) (keys : Bytes) (hv : s.vibuf = []) (hd : s.ibuf.length ≤ s.ibufPos) :
    viStep { s with typed := keys } = viStep (typedAt s keys) := by
  rw [Lemmas.C09b.viStep_eq_mid, bind_apply, bind_apply, viPre_typed s keys hv hd]

theorem cmdFirst_typed (s : VS) (keys : Bytes) (hv : s.vibuf = []) (hd : s.ibuf.length ≤ s.ibufPos) :
    cmdFirst { s with typed := keys } = cmdFirst (typedAt s keys) := by
  unfold cmdFirst
  rw [viPre_typed s keys hv hd]

end Neatvi.Lemmas.C09c
