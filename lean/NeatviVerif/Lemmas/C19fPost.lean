import NeatviVerif.Lemmas.C19fTail
import NeatviVerif.Props.C07
/-!
# C19f helper lemmas: the end of an iteration of `vi()` in closed form

`viPost (some mod)` is `vi_wfix()`, then (unless the editor is quitting) `xcol = vi_off2col(..)` when
`mod ≠ 0`, the adjustment of `xleft`, and `vi_wait()`, `lbuf_modified()` twice — which leave the
horizontal snapshot, the text and the cursor alone.

* `postLeft xcol xleft xcols`: the `xleft` adjustment as a function; `postLeft_window`,
  `postLeft_nonneg`, `postLeft_same`: its arithmetic.
* `viPostRest_run`, `viPost_run`: the state `viPost (some mod)` ends in.
-/
set_option linter.unusedSimpArgs false
set_option linter.unusedVariables false

namespace Neatvi.Lemmas.C19f
open Neatvi Neatvi.Uc Neatvi.Lbuf Neatvi.Ex Neatvi.Mot Neatvi.Vi
open Neatvi.Lemmas.C05b (CountsFit bind_apply)
open Neatvi.Lemmas.C05c (bind_inv)
open Neatvi.Lemmas.C07 (lbText viPostRest viPost_some lines_of_lbText lineOf_of_lbText)

/-- the adjustment of `xleft` at the end of an iteration (vi.c:1848–1851) -/
def postLeft (xcol xleft xcols : Int) : Int :=
  let l1 := if xcol ≥ xleft + xcols then xcol - xcols / 2 else xleft
  if xcol < l1 then (if xcol < xcols then 0 else xcol - xcols / 2) else l1

/-- the sticky column at the end of an iteration: recomputed from the cursor when `mod ≠ 0` -/
def postCol (mod : Nat) (s : VS) : Int := if mod != 0 then off2col s s.ed.xrow s.ed.xoff else s.xcol

/-- `vi_wait(); lbuf_modified(xb); lbuf_modified(xb)` -/
def postEnd : M Unit := viWait >>= fun _ => lbufModified >>= fun _ => lbufModified

/-! ### the arithmetic of the adjustment -/

/-- with a window at least one column wide and a non-negative column, the column is inside the
    adjusted window -/
theorem postLeft_window (x l c : Int) (hc : 0 < c) (hx : 0 ≤ x) :
    postLeft x l c ≤ x ∧ x < postLeft x l c + c := by
  unfold postLeft
  simp only []
  constructor <;> (repeat' split) <;> omega

/-- the adjusted `xleft` is not negative if the old one was not -/
theorem postLeft_nonneg (x l c : Int) (hc : 0 ≤ c) (hl : 0 ≤ l) : 0 ≤ postLeft x l c := by
  unfold postLeft
  simp only []
  (repeat' split) <;> omega

/-- no gratuitous horizontal scrolling: a column inside the old window leaves `xleft` alone -/
theorem postLeft_same (x l c : Int) (h1 : l ≤ x) (h2 : x < l + c) : postLeft x l c = l := by
  unfold postLeft
  simp only []
  (repeat' split) <;> omega

/-- when the column is right of the window, or left of it and at least a window's width from column
    0, it ends up in the middle of the new window; left of the window and near column 0, the window
    returns to column 0 -/
theorem postLeft_moved (x l c : Int) :
    (l + c ≤ x → 0 ≤ c → postLeft x l c = x - c / 2) ∧
    (x < l → c ≤ x → 0 ≤ c → postLeft x l c = x - c / 2) ∧
    (x < l → x < c → 0 ≤ c → postLeft x l c = 0) := by
  unfold postLeft
  simp only []
  refine ⟨fun _ _ => ?_, fun _ _ _ => ?_, fun _ _ _ => ?_⟩ <;> (repeat' split) <;> omega

theorem postLeft_of (x l c v : Int)
    (h : v = (if x < (if x ≥ l + c then x - c / 2 else l) then (if x < c then 0 else x - c / 2)
      else (if x ≥ l + c then x - c / 2 else l))) : v = postLeft x l c := h

/-! ### the run of `viPostRest` -/

/-- after `vi_wfix()`, when the editor is not quitting: the sticky column and `xleft` are assigned,
    then `postEnd` runs -/
theorem viPostRest_run (mod : Nat) (s s' : VS) (h : viPostRest mod s = Res.ok () s') (hq : s.ed.xquit = false) :
    ∃ sm, postEnd sm = Res.ok () s' ∧
      sm = { s with xcol := sm.xcol, ed := { s.ed with xleft := sm.ed.xleft } } ∧
      sm.xcol = postCol mod s ∧ sm.ed.xleft = postLeft (postCol mod s) s.ed.xleft s.xcols := by
  unfold viPostRest at h
  simp only [bind_apply, Vi.get, Vi.modify, Vi.withEd, hq, Bool.false_eq_true, if_false] at h
  unfold postCol
  split at h <;> rename_i h1 <;> simp only [bind_apply, Vi.get, Vi.modify, Vi.withEd] at h <;>
    split at h <;> rename_i h2 <;> simp only [bind_apply, Vi.get, Vi.modify, Vi.withEd] at h <;>
    split at h <;> rename_i h3 <;> simp only [bind_apply, Vi.get, Vi.modify, Vi.withEd] at h <;>
    refine ⟨_, h, rfl, ?_, ?_⟩ <;> simp only [h1, if_true, if_false, Bool.false_eq_true] <;>
    first
      | rfl
      | (apply postLeft_of; (repeat' split) <;> omega)

/-- when the editor is quitting nothing more is done -/
theorem viPostRest_quit (mod : Nat) (s s' : VS) (h : viPostRest mod s = Res.ok () s') (hq : s.ed.xquit = true) :
    s' = s := by
  unfold viPostRest at h
  simp only [bind_apply, Vi.get, hq, if_true] at h
  cases h
  rfl

/-! ### `postEnd` is a frame -/

theorem pres_postEnd {P : VS → Prop} (hP : HG P) : Pres P postEnd := by
  unfold postEnd
  exact Pres.bind (pres_viWait hP) (fun _ => Pres.bind (pres_lbufModified hP) (fun _ => pres_lbufModified hP))

theorem postEnd_hsnap (s s' : VS) (h : postEnd s = Res.ok () s') : hsnap s' = hsnap s :=
  hz_frame (fun v => pres_postEnd (HG.hz v)) s () s' h

theorem keeps_postEnd : C07.Keeps true postEnd := by
  unfold postEnd
  exact C07.Keeps.bind C07.keeps_viWait (fun _ => C07.Keeps.bind C07.keeps_lbufModified (fun _ => C07.keeps_lbufModified))

/-- `vi_off2col` depends on the text and on the text direction only -/
theorem off2col_congr {s s' : VS} (ht : lbText s' = lbText s) (hd : s'.ed.xtd = s.ed.xtd) (r o : Int) :
    off2col s' r o = off2col s r o := by
  unfold off2col posTab renOpts
  rw [lineOf_of_lbText ht, hd]

theorem col2off_congr {s s' : VS} (ht : lbText s' = lbText s) (hd : s'.ed.xtd = s.ed.xtd) (r c : Int) :
    col2off s' r c = col2off s r c := by
  unfold col2off posTab renOpts
  rw [lineOf_of_lbText ht, hd]

theorem posTab_congr {s s' : VS} (hd : s'.ed.xtd = s.ed.xtd) (ln : Bytes) : posTab s' ln = posTab s ln := by
  unfold posTab renOpts
  rw [hd]

/-! ### the run of `viPost` -/

/-- the state after `vi_wfix()` -/
def wfixState (s : VS) : VS :=
  { s with ed := { s.ed with xrow := Props.C07.wfixRow s, xtop := Props.C07.wfixTop s, xoff := Props.C07.wfixOff s } }

theorem wfixState_hsnap (s : VS) : hsnap (wfixState s) = hsnap s := rfl
theorem wfixState_lbText (s : VS) : lbText (wfixState s) = lbText s := rfl

/-- **`viPost (some mod)` in closed form**: the window fix; then nothing if the editor is quitting;
    otherwise the sticky column is `postCol` (recomputed from the fixed cursor when `mod ≠ 0`),
    `xleft` is `postLeft` of it, and the text, the cursor, the text direction and the window width
    are those after the window fix -/
theorem viPost_run (mod : Nat) (s s' : VS) (h : viPost (some mod) s = Res.ok () s') :
    (s.ed.xquit = true → s' = wfixState s) ∧
    (s.ed.xquit = false →
      s'.ed.xquit = false ∧ s'.xcols = s.xcols ∧ s'.ed.xtd = s.ed.xtd ∧ lbText s' = lbText s ∧
      s'.ed.xrow = Props.C07.wfixRow s ∧ s'.ed.xoff = Props.C07.wfixOff s ∧
      s'.xcol = postCol mod (wfixState s) ∧
      s'.ed.xleft = postLeft s'.xcol s.ed.xleft s.xcols) := by
  rw [viPost_some] at h
  obtain ⟨u, sw, hw, hrest⟩ := bind_inv _ _ _ _ _ h
  rw [Props.C07.viWfix_eq] at hw
  cases hw
  change viPostRest mod (wfixState s) = Res.ok () s' at hrest
  refine ⟨fun hq => viPostRest_quit mod _ _ hrest hq, fun hq => ?_⟩
  obtain ⟨sm, he, hsm, hx, hl⟩ := viPostRest_run mod _ _ hrest hq
  obtain ⟨e1, e2, e3, e4, e5⟩ := hsnap_fields (postEnd_hsnap _ _ he)
  have ht := keeps_postEnd.text he
  have hcur := keeps_postEnd.cursor he
  unfold C07.curOf at hcur
  simp only [Prod.mk.injEq] at hcur
  have m1 : sm.xcols = s.xcols := by rw [hsm]; rfl
  have m2 : sm.ed.xtd = s.ed.xtd := by rw [hsm]; rfl
  have m3 : sm.ed.xquit = false := by rw [hsm]; exact hq
  have m4 : lbText sm = lbText s := by rw [hsm]; rfl
  have m5 : sm.ed.xrow = Props.C07.wfixRow s := by rw [hsm]; rfl
  have m6 : sm.ed.xoff = Props.C07.wfixOff s := by rw [hsm]; rfl
  refine ⟨by rw [e5, m3], by rw [e2, m1], by rw [e4, m2], by rw [ht, m4], by rw [hcur.1, m5],
    by rw [hcur.2.1, m6], by rw [e1, hx], ?_⟩
  rw [e3, hl, e1, hx]
  rfl

/-- when `mod ≠ 0` the sticky column is the column of the cursor character in the final state -/
theorem viPost_xcol_mod (mod : Nat) (hmod : mod ≠ 0) (s s' : VS) (h : viPost (some mod) s = Res.ok () s')
    (hq : s.ed.xquit = false) : s'.xcol = off2col s' s'.ed.xrow s'.ed.xoff := by
  obtain ⟨_, a2, a3, a4, a5, a6, a7, _⟩ := (viPost_run mod s s' h).2 hq
  rw [a7, a5, a6]
  unfold postCol
  have : (mod != 0) = true := by simpa using hmod
  rw [if_pos this]
  rw [off2col_congr (s := wfixState s) (s' := s') (by rw [a4]; rfl) (by rw [a3]; rfl)]
  rfl

/-- when `mod = 0` the sticky column is kept -/
theorem viPost_xcol_zero (s s' : VS) (h : viPost (some 0) s = Res.ok () s') (hq : s.ed.xquit = false) :
    s'.xcol = s.xcol := by
  obtain ⟨_, _, _, _, _, _, a7, _⟩ := (viPost_run 0 s s' h).2 hq
  rw [a7]
  rfl

/-- a state that is not quitting after `viPost` was not quitting before -/
theorem viPost_quit_before (mod : Nat) (s s' : VS) (h : viPost (some mod) s = Res.ok () s')
    (hq : s'.ed.xquit = false) : s.ed.xquit = false := by
  cases hb : s.ed.xquit with
  | false => rfl
  | true =>
    have := (viPost_run mod s s' h).1 hb
    rw [this] at hq
    exact hq.symm.trans hb |>.symm ▸ rfl

end Neatvi.Lemmas.C19f
