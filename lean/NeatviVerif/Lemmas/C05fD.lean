import NeatviVerif.Lemmas.C05fC
import NeatviVerif.Lemmas.C05fStr
/-!
# C05f, part D: the primitives that touch the line buffer and the registers

`lbuf_edit`, `lbuf_mark`, `lbuf_modified`, `lbuf_undo` / `lbuf_redo`, `reg_put` as the vi layer calls them.
-/
set_option linter.unusedSimpArgs false
set_option linter.unusedVariables false
namespace Neatvi.Lemmas.C05f
open Neatvi Neatvi.Uc Neatvi.Lbuf Neatvi.Ex Neatvi.Mot Neatvi.Vi Neatvi.Spec
open Neatvi.Lemmas.Hist

/-! ### `Ed.setLb` -/

@[simp] theorem setLb_regs (ed : Ed) (lb : Lb) : (ed.setLb lb).regs = ed.regs := by unfold Ed.setLb; split <;> rfl
@[simp] theorem setLb_xrow (ed : Ed) (lb : Lb) : (ed.setLb lb).xrow = ed.xrow := by unfold Ed.setLb; split <;> rfl
@[simp] theorem setLb_xoff (ed : Ed) (lb : Lb) : (ed.setLb lb).xoff = ed.xoff := by unfold Ed.setLb; split <;> rfl
@[simp] theorem setLb_xtop (ed : Ed) (lb : Lb) : (ed.setLb lb).xtop = ed.xtop := by unfold Ed.setLb; split <;> rfl
@[simp] theorem setLb_xleft (ed : Ed) (lb : Lb) : (ed.setLb lb).xleft = ed.xleft := by unfold Ed.setLb; split <;> rfl
@[simp] theorem setLb_xtd (ed : Ed) (lb : Lb) : (ed.setLb lb).xtd = ed.xtd := by unfold Ed.setLb; split <;> rfl
@[simp] theorem setLb_xquit (ed : Ed) (lb : Lb) : (ed.setLb lb).xquit = ed.xquit := by unfold Ed.setLb; split <;> rfl
@[simp] theorem setLb_xkwd (ed : Ed) (lb : Lb) : (ed.setLb lb).xkwd = ed.xkwd := by unfold Ed.setLb; split <;> rfl
@[simp] theorem setLb_xkwddir (ed : Ed) (lb : Lb) : (ed.setLb lb).xkwddir = ed.xkwddir := by unfold Ed.setLb; split <;> rfl
@[simp] theorem setLb_xic (ed : Ed) (lb : Lb) : (ed.setLb lb).xic = ed.xic := by unfold Ed.setLb; split <;> rfl
@[simp] theorem setLb_out (ed : Ed) (lb : Lb) : (ed.setLb lb).out = ed.out := by unfold Ed.setLb; split <;> rfl

theorem BufsOk.lb {bufs : List (Option Buf)} {c : Prop} (h : BufsOk bufs c) (ed : Ed) (hb : ed.bufs = bufs) :
    ∃ lb, ed.lb = some lb ∧ HistOk lb c := by
  obtain ⟨b, h1, h2⟩ := h
  refine ⟨b.lb, ?_, h2⟩
  unfold Ed.lb Ed.cur
  rw [hb, h1]; rfl

theorem bufsOk_setLb {ed : Ed} {c c' : Prop} (h : BufsOk ed.bufs c) {lb : Lb} (hl : HistOk lb c') :
    BufsOk (ed.setLb lb).bufs c' := by
  obtain ⟨b, h1, _⟩ := h
  unfold Ed.setLb Ed.cur
  rw [h1]
  simp only [Ed.setCur]
  refine ⟨{ b with lb := lb }, ?_, hl⟩
  have hne : 0 < ed.bufs.length := by
    cases hb : ed.bufs with
    | nil => rw [hb] at h1; simp at h1
    | cons x r => simp
  rw [List.getD_eq_getElem?_getD, List.getElem?_set_self hne]
  rfl

theorem setLb_lb {ed : Ed} {c : Prop} (h : BufsOk ed.bufs c) (lb : Lb) : (ed.setLb lb).lb = some lb := by
  obtain ⟨b, h1, _⟩ := h
  have := Lemmas.C07.setLb_lb ed lb
  rw [this]
  unfold Ed.lb Ed.cur
  rw [h1]; rfl

/-- the lines of the current buffer -/
theorem lines_of_lb {s : VS} {lb : Lb} (h : s.ed.lb = some lb) : lines s = lb.lines := by
  unfold lines; rw [h]

theorem lenOf_of_lb {s : VS} {lb : Lb} (h : s.ed.lb = some lb) : lenOf s = lb.lines.length := by
  unfold lenOf; rw [lines_of_lb h]

theorem BufsOk.linesOk {s : VS} {c : Prop} (h : BufsOk s.ed.bufs c) : ∀ l ∈ lines s, LineOk l := by
  obtain ⟨lb, h1, h2⟩ := h.lb s.ed rfl
  rw [lines_of_lb h1]
  exact h2.lines

/-! ### `lbuf_edit` -/

/-- **`lbuf_edit(xb, txt, b, e)`** with `0 ≤ b ≤ e` and a text without NUL: no trap; the lines are spliced, the
    history invariant is kept (a command is now in progress), nothing else changes -/
theorem wp_edEdit {s : VS} {c : Prop} (hb : BufsOk s.ed.bufs c) (txt : Option Bytes) (b e : Int) (h0 : 0 ≤ b)
    (hbe : b ≤ e) (ht : NoNulO txt) (Q : Unit → VS → Prop)
    (hQ : ∀ lb lb', s.ed.lb = some lb → HistOk lb' False →
      lb'.lines = splice lb.lines (min b.toNat lb.lines.length)
        (min e.toNat lb.lines.length - min b.toNat lb.lines.length) (optLines txt) →
      Q () { s with ed := s.ed.setLb lb' }) : wp (edEdit txt b e) Q s := by
  obtain ⟨lb, h1, h2⟩ := hb.lb s.ed rfl
  obtain ⟨lb', e1, e2, e3⟩ := h2.edit txt b.toNat e.toNat (by omega) ht
  have : edEdit txt b e s = Res.ok () { s with ed := s.ed.setLb lb' } := by
    unfold edEdit Ed.edit
    rw [if_neg (by simp; omega), h1]
    simp only [e1, Option.map_some]
  unfold wp
  rw [this]
  exact hQ lb lb' h1 e2 e3

/-! ### marks, `lbuf_modified` -/

/-- `ed` after `lbuf_mark(xb, k, p, o)` -/
def markEd (ed : Ed) (k : Nat) (p o : Int) : Ed :=
  match ed.lb with | some lb => ed.setLb (setMark lb k p o) | none => ed

/-- `ed` after `lbuf_modified(xb)` -/
def modEd (ed : Ed) : Ed :=
  match ed.lb with | some lb => ed.setLb (Lbuf.modified lb).2 | none => ed

theorem bufsOk_markSet {s : VS} {c : Prop} (hb : BufsOk s.ed.bufs c) (k : Nat) (p o : Int) :
    BufsOk (markEd s.ed k p o).bufs c := by
  obtain ⟨lb, h1, h2⟩ := hb.lb s.ed rfl
  unfold markEd
  rw [h1]
  exact bufsOk_setLb hb (h2.setMark k p o)

@[simp] theorem wp_markSet (k : Nat) (p o : Int) (Q : Unit → VS → Prop) (s : VS) :
    wp (markSet k p o) Q s ↔ Q () { s with ed := markEd s.ed k p o } := Iff.rfl

@[simp] theorem wp_lbufModified (Q : Unit → VS → Prop) (s : VS) :
    wp lbufModified Q s ↔ Q () { s with ed := modEd s.ed } := Iff.rfl

theorem bufsOk_modified {s : VS} {c : Prop} (hb : BufsOk s.ed.bufs c) : BufsOk (modEd s.ed).bufs True := by
  obtain ⟨lb, h1, h2⟩ := hb.lb s.ed rfl
  unfold modEd
  rw [h1]
  exact bufsOk_setLb hb h2.modified

/-- the other fields of `ed` after `lbuf_mark` / `lbuf_modified` -/
@[simp] theorem markEd_regs (ed : Ed) (k : Nat) (p o : Int) : (markEd ed k p o).regs = ed.regs := by
  unfold markEd; split <;> simp
@[simp] theorem markEd_xrow (ed : Ed) (k : Nat) (p o : Int) : (markEd ed k p o).xrow = ed.xrow := by
  unfold markEd; split <;> simp
@[simp] theorem markEd_xoff (ed : Ed) (k : Nat) (p o : Int) : (markEd ed k p o).xoff = ed.xoff := by
  unfold markEd; split <;> simp
@[simp] theorem markEd_xquit (ed : Ed) (k : Nat) (p o : Int) : (markEd ed k p o).xquit = ed.xquit := by
  unfold markEd; split <;> simp
@[simp] theorem markEd_xtop (ed : Ed) (k : Nat) (p o : Int) : (markEd ed k p o).xtop = ed.xtop := by
  unfold markEd; split <;> simp
@[simp] theorem markEd_xkwd (ed : Ed) (k : Nat) (p o : Int) : (markEd ed k p o).xkwd = ed.xkwd := by
  unfold markEd; split <;> simp
@[simp] theorem modEd_regs (ed : Ed) : (modEd ed).regs = ed.regs := by unfold modEd; split <;> simp
@[simp] theorem modEd_xrow (ed : Ed) : (modEd ed).xrow = ed.xrow := by unfold modEd; split <;> simp
@[simp] theorem modEd_xoff (ed : Ed) : (modEd ed).xoff = ed.xoff := by unfold modEd; split <;> simp
@[simp] theorem modEd_xquit (ed : Ed) : (modEd ed).xquit = ed.xquit := by unfold modEd; split <;> simp

/-! ### registers -/

theorem regsOk_putRaw {r : Regs} (h : RegsOk r) (c : Nat) {x : Bytes} (hx : NoNul x) (ln : Nat) :
    RegsOk (r.putRaw c x ln) := by
  intro k y hy
  unfold Regs.putRaw at hy
  simp only [] at hy
  rw [List.getD_eq_getElem?_getD, List.getElem?_set] at hy
  split at hy
  · split at hy
    · simp only [Option.getD_some, Option.some.injEq] at hy
      subst hy
      refine noNul_append.mpr ⟨?_, hx⟩
      split
      · cases hp : r.buf.getD (lowerC c) none with
        | none => exact noNul_nil
        | some p => exact h _ _ hp
      · exact noNul_nil
    · simp at hy
  · rw [← List.getD_eq_getElem?_getD] at hy
    exact h k y hy

theorem regsOk_shift {r : Regs} (h : RegsOk r) : ∀ (l : List Nat),
    RegsOk (l.foldl (fun (acc : Regs) i =>
      match acc.getRaw (48 + i) with
      | (some x, l) => acc.putRaw (48 + i + 1) x l
      | (none, _) => acc) r) := by
  intro l
  induction l generalizing r with
  | nil => exact h
  | cons i l ih =>
    simp only [List.foldl_cons]
    apply ih
    split
    · rename_i y l' hy
      refine regsOk_putRaw h _ ?_ _
      unfold Regs.getRaw at hy
      injection hy with hy1 _
      exact h _ _ hy1
    · exact h

theorem regsOk_put {r : Regs} (h : RegsOk r) (c : Nat) {x : Bytes} (hx : NoNul x) (ln : Nat) :
    RegsOk (r.put c x ln) := by
  unfold Regs.put
  simp only []
  generalize (if (c == 34) = true then 0 else c) = c'
  refine regsOk_putRaw ?_ _ hx _
  by_cases hc : ((ln != 0 || List.contains x 10) && (c' == 0 || isAlphaC c')) = true
  · rw [if_pos hc]
    exact regsOk_putRaw (regsOk_shift h _) _ hx _
  · rw [if_neg hc]
    exact h

theorem regsOk_regGet {ed : Ed} (h : RegsOk ed.regs) (hl : ∀ l, ed.line ed.xrow = some l → NoNul l) (c : Nat) :
    NoNulO (regGet ed c) := by
  intro x hx
  unfold regGet at hx
  simp only [] at hx
  generalize (if (c == 34) = true then 0 else c) = c' at hx
  by_cases h1 : (c' == 59) = true
  · rw [if_pos h1] at hx
    cases hx
    cases hq : ed.line ed.xrow with
    | none => simp [NoNul]
    | some l => exact ((hl l hq).takeWhile _)
  · rw [if_neg h1] at hx
    by_cases h2 : (c' == 35) = true
    · rw [if_pos h2] at hx
      cases hx
      intro h0
      have := intStr_ascii _ 0 h0
      omega
    · rw [if_neg h2] at hx
      by_cases h3 : (c' == 94) = true
      · rw [if_pos h3] at hx
        cases hx
        intro h0
        have := intStr_ascii _ 0 h0
        omega
      · rw [if_neg h3] at hx
        exact h _ _ hx

end Neatvi.Lemmas.C05f
