import NeatviVerif.Lemmas.C20cStep
/-!
# C20c lemmas, part 12: the parked buffers do not influence a local command (helpers)

`withTail L ed`: the editor `ed` with the parked slots (1, 2, …) replaced by the list `L`.  The
helpers of the ex layer commute with this replacement: they neither read nor write the parked
slots — except `ex_pathexpand`, which reads the *path* of slot 1 for `#`.
-/
namespace Neatvi.Lemmas.C20c
open Neatvi Neatvi.Lbuf Neatvi.Ex Neatvi.Rset Neatvi.Props.C20 Neatvi.Props.C20b Neatvi.Lemmas.C20b
open Neatvi.Lemmas.ExFrame Neatvi.Lemmas.C02Ex

/-- the editor with the parked slots replaced by `L` -/
def withTail (L : List (Option Buf)) (ed : Ed) : Ed := { ed with bufs := ed.bufs.getD 0 none :: L }

/-- `(r, ed) ↦ (r, withTail L ed)` on results -/
def tailR {α : Type} (L : List (Option Buf)) (x : R α) : R α := x.map (fun p => (p.1, withTail L p.2))

@[simp] theorem tailR_none {α : Type} (L : List (Option Buf)) : tailR L (none : R α) = none := rfl
@[simp] theorem tailR_some {α : Type} (L : List (Option Buf)) (a : α) (ed : Ed) :
    tailR L (some (a, ed)) = some (a, withTail L ed) := rfl

theorem withTail_cur (L : List (Option Buf)) (ed : Ed) : (withTail L ed).cur = ed.cur := rfl
theorem withTail_lb (L : List (Option Buf)) (ed : Ed) : (withTail L ed).lb = ed.lb := rfl
theorem withTail_len (L : List (Option Buf)) (ed : Ed) : (withTail L ed).len = ed.len := rfl
theorem withTail_line (L : List (Option Buf)) (ed : Ed) (i : Int) : (withTail L ed).line i = ed.line i := rfl
theorem withTail_cp (L : List (Option Buf)) (ed : Ed) (b e : Int) : (withTail L ed).cp b e = ed.cp b e := rfl
theorem withTail_show (L : List (Option Buf)) (ed : Ed) (m : Bytes) : withTail L (ed.show m) = (withTail L ed).show m := rfl
theorem withTail_print (L : List (Option Buf)) (ed : Ed) (m : Bytes) : withTail L (ed.print m) = (withTail L ed).print m := rfl
theorem withTail_kwdSet (L : List (Option Buf)) (ed : Ed) (k : Option Bytes) (d : Int) :
    withTail L (ed.kwdSet k d) = (withTail L ed).kwdSet k d := rfl
theorem withTail_mkRe (L : List (Option Buf)) (ed : Ed) (p : Bytes) : (withTail L ed).mkRe p = ed.mkRe p := rfl
theorem withTail_pipe (L : List (Option Buf)) (ed : Ed) (c i : Bytes) : (withTail L ed).pipe c i = ed.pipe c i := rfl
theorem withTail_findFile (L : List (Option Buf)) (ed : Ed) (p : Bytes) : (withTail L ed).findFile p = ed.findFile p := rfl
theorem withTail_mtimeOf (L : List (Option Buf)) (ed : Ed) (p : Bytes) : (withTail L ed).mtimeOf p = ed.mtimeOf p := rfl

theorem withTail_setCur (L : List (Option Buf)) (ed : Ed) (b0 b : Buf) (h : ed.cur = some b0) :
    withTail L (ed.setCur b) = (withTail L ed).setCur b := by
  have hlt : 0 < ed.bufs.length := (getD_some (show ed.bufs.getD 0 none = some b0 from h)).1
  unfold withTail Ed.setCur
  simp only []
  rw [C02Ex.getD_set_self _ _ _ hlt]
  rfl

theorem withTail_setLb (L : List (Option Buf)) (ed : Ed) (lb : Lb) :
    withTail L (ed.setLb lb) = (withTail L ed).setLb lb := by
  unfold Ed.setLb
  rw [withTail_cur]
  cases h : ed.cur with
  | none => rfl
  | some b => exact withTail_setCur L ed b _ h

theorem withTail_edit (L : List (Option Buf)) (ed : Ed) (s : Option Bytes) (b e : Int) :
    (withTail L ed).edit s b e = (ed.edit s b e).map (withTail L) := by
  unfold Ed.edit
  rw [withTail_lb]
  split
  · rfl
  · cases ed.lb with
    | none => rfl
    | some lb =>
      simp only []
      cases Lbuf.edit lb s b.toNat e.toNat with
      | none => rfl
      | some lb' => simp only [Option.map_some, withTail_setLb]

/-! ### the address parser -/

theorem exSearch_scan_withTail (L : List (Option Buf)) (ed : Ed) (re : RStr) (dir len : Int) :
    ∀ (f : Nat) (a : Int), exSearch.scan (withTail L ed) re dir len f a = exSearch.scan ed re dir len f a := by
  intro f
  induction f with
  | zero => intro a; rw [exSearch.scan.eq_1, exSearch.scan.eq_1]
  | succ f ih =>
    intro a
    rw [exSearch.scan.eq_2, exSearch.scan.eq_2, withTail_line]
    simp only [ih]

/-- the first stage of `ex_search`: the pattern, if one is given, is remembered -/
def searchPrep (ed : Ed) (loc : Bytes) : Ed :=
  match (reRead loc).1 with
  | some k => if !k.isEmpty then ed.kwdSet (some k) (if loc.headD 0 == 47 then 1 else -1) else ed
  | none => ed

/-- the second stage: the scan for the remembered pattern -/
def searchRun (ed : Ed) (rest : Bytes) : R (Int × Bytes) :=
  if ed.xkwddir == 0 then some ((-1, rest), ed) else
  match ed.mkRe ed.xkwd with
  | none => none
  | some none => some ((-1, rest), ed)
  | some (some re) =>
    match exSearch.scan ed re ed.xkwddir ed.len (ed.len.toNat + 1) (ed.xrow + ed.xkwddir) with
    | none => none
    | some row => some ((row, rest), ed)

theorem exSearch_eq (ed : Ed) (loc : Bytes) : exSearch ed loc = searchRun (searchPrep ed loc) (reRead loc).2 := by
  unfold exSearch searchRun searchPrep
  rfl

theorem searchPrep_withTail (L : List (Option Buf)) (ed : Ed) (loc : Bytes) :
    searchPrep (withTail L ed) loc = withTail L (searchPrep ed loc) := by
  unfold searchPrep
  cases (reRead loc).1 with
  | none => rfl
  | some k =>
    simp only []
    split <;> rfl

theorem searchRun_withTail (L : List (Option Buf)) (ed : Ed) (rest : Bytes) :
    searchRun (withTail L ed) rest = tailR L (searchRun ed rest) := by
  unfold searchRun
  have h1 : (withTail L ed).xkwddir = ed.xkwddir := rfl
  have h2 : (withTail L ed).xkwd = ed.xkwd := rfl
  have h3 : (withTail L ed).xrow = ed.xrow := rfl
  rw [h1, h2, h3, withTail_mkRe, withTail_len]
  split
  · rfl
  · cases ed.mkRe ed.xkwd with
    | none => rfl
    | some o =>
      cases o with
      | none => rfl
      | some re =>
        simp only [exSearch_scan_withTail]
        cases exSearch.scan ed re ed.xkwddir ed.len (ed.len.toNat + 1) (ed.xrow + ed.xkwddir) with
        | none => rfl
        | some row => rfl

theorem exSearch_withTail (L : List (Option Buf)) (ed : Ed) (loc : Bytes) :
    exSearch (withTail L ed) loc = tailR L (exSearch ed loc) := by
  rw [exSearch_eq, exSearch_eq, searchPrep_withTail, searchRun_withTail]

end Neatvi.Lemmas.C20c
