import NeatviVerif.Lemmas.C06bRead
import NeatviVerif.Lemmas.C02Ex
/-!
# C06c, helpers: what the unsaved-changes guard of `ec_exec` (`bufs_modified`) and `ex_pathexpand` may change
-/
namespace Neatvi.Lemmas.C06c
open Neatvi Neatvi.Lbuf Neatvi.LbufIo Neatvi.Ex Neatvi.Lemmas.C06 Neatvi.Lemmas.C06b

/-! ### `lbuf_save` only touches the file system part of the state -/

/-- `ed'` is `ed` up to the file system: the files, the virtual clock, the position in the fault schedule -/
def FsOnly (ed ed' : Ed) : Prop :=
  ∃ fl ck ca fi, ed' = { ed with files := fl, clock := ck, calls := ca, fired := fi }

theorem FsOnly.refl (ed : Ed) : FsOnly ed ed := ⟨_, _, _, _, rfl⟩

theorem FsOnly.trans {a b c : Ed} (h1 : FsOnly a b) (h2 : FsOnly b c) : FsOnly a c := by
  obtain ⟨_, _, _, _, rfl⟩ := h1
  obtain ⟨_, _, _, _, rfl⟩ := h2
  exact ⟨_, _, _, _, rfl⟩

theorem putFile_fsOnly (ed : Ed) (f : File) : FsOnly ed (ed.putFile f) := by
  unfold Ed.putFile; split <;> exact ⟨_, _, _, _, rfl⟩

theorem nextFault_fsOnly (ed : Ed) : FsOnly ed ed.nextFault.2 := ⟨_, _, _, _, rfl⟩

theorem fsOnly_clock (ed : Ed) (c : Int) : FsOnly ed { ed with clock := c } := ⟨_, _, _, _, rfl⟩
theorem fsOnly_fired (ed : Ed) (c : Nat) : FsOnly ed { ed with fired := c } := ⟨_, _, _, _, rfl⟩
theorem fsOnly_clock_calls (ed : Ed) (c : Int) (k : Nat) : FsOnly ed { ed with clock := c, calls := k } :=
  ⟨_, _, _, _, rfl⟩

theorem lbufSave_fsOnly (ed ed' : Ed) (lb : Lb) (b : Nat) (e : Int) (path : Bytes) (force : Bool) (ts : Int)
    (r : Option Bytes) (h : lbufSave ed lb b e path force ts = some (r, ed')) : FsOnly ed ed' := by
  unfold lbufSave at h
  rcases hnf : ed.nextFault with ⟨fo, ed1⟩
  have h1 : FsOnly ed ed1 := by
    have := nextFault_fsOnly ed
    rw [hnf] at this; exact this
  simp only [hnf] at h
  generalize LbufIo.wrFinal _ _ _ _ _ _ = w at h
  split at h
  · simp only [Option.some.injEq, Prod.mk.injEq] at h; rw [← h.2]; exact FsOnly.refl _
  · split at h
    · simp only [Option.some.injEq, Prod.mk.injEq] at h; rw [← h.2]; exact FsOnly.refl _
    · cases hfo : fo == 101
      · simp only [hfo, Bool.false_eq_true, if_false] at h
        cases w with
        | none => cases h
        | some st =>
          simp only at h
          have h2 : ∀ (f1 f2 : File) (c1 c2 : Int) (k : Nat),
              FsOnly ed ({ ({ ed1.putFile f1 with clock := c1 } : Ed).putFile f2 with clock := c2, calls := k }) :=
            fun f1 f2 c1 c2 k =>
              h1.trans ((putFile_fsOnly _ _).trans ((fsOnly_clock _ _).trans
                ((putFile_fsOnly _ _).trans (fsOnly_clock_calls _ _ _))))
          cases hok : st.ok
          · simp only [hok, Bool.not_false, if_true, Option.some.injEq, Prod.mk.injEq] at h
            rw [← h.2]
            exact (h2 _ _ _ _ _).trans (nextFault_fsOnly _)
          · simp only [hok, Bool.not_true, Bool.false_eq_true, if_false] at h
            generalize hX : Ed.nextFault _ = nf at h
            have h3 : FsOnly ed nf.2 := by
              rw [← hX]
              exact (h2 _ _ _ _ _).trans (nextFault_fsOnly _)
            obtain ⟨fc, ed2⟩ := nf
            simp only at h h3
            split at h
            · simp only [Option.some.injEq, Prod.mk.injEq] at h; rw [← h.2]; exact h3
            · simp only [Option.some.injEq, Prod.mk.injEq] at h; rw [← h.2]; exact h3
      · simp only [hfo, if_true, Option.some.injEq, Prod.mk.injEq] at h
        rw [← h.2]
        exact h1.trans (fsOnly_fired _ _)

/-! ### the guard -/

/-- the unsaved-changes guard of `ec_exec`: `if (!xwa && bufs_modified(0, "buffer modified")) return 1;` -/
def execGuard (ed : Ed) : R Bool :=
  if ed.xwa == 0 then bufsModified ed 0 (some (strOf "buffer modified")) else some (false, ed)

/-- what the guard may change: the sequence counter of the current buffer (`lbuf_modified` bumps it: the buffer
    table is either the same or the one `Ed.modifiedAt 0` produces), with autowrite the file system, and the
    message line.  Everything else — the text, the registers, the current row, the search keyword, the options, the
    pipe table, the output, the pending input — is the same. -/
structure GuardFrame (ed edg : Ed) : Prop where
  fields : edg = { ed with bufs := edg.bufs, files := edg.files, clock := edg.clock, calls := edg.calls,
                           fired := edg.fired, msg := edg.msg }
  bufs : edg.bufs = ed.bufs ∨ edg.bufs = (ed.modifiedAt 0).2.bufs

theorem GuardFrame.refl (ed : Ed) : GuardFrame ed ed := ⟨rfl, Or.inl rfl⟩

theorem lines_of_bufs {ed ed' : Ed} (h : ed'.bufs = ed.bufs) : lines ed' = lines ed := by
  unfold lines; rw [ExFrame.lb_of_bufs h]

theorem GuardFrame.lines {ed edg : Ed} (h : GuardFrame ed edg) : lines edg = lines ed := by
  rcases h.bufs with hb | hb
  · exact lines_of_bufs hb
  · rw [lines_of_bufs hb, modifiedAt0_lines]

theorem GuardFrame.len {ed edg : Ed} (h : GuardFrame ed edg) : edg.len = ed.len := by
  rw [len_eq, len_eq, h.lines]

theorem GuardFrame.pipes {ed edg : Ed} (h : GuardFrame ed edg) : edg.pipes = ed.pipes := by rw [h.fields]
theorem GuardFrame.regs {ed edg : Ed} (h : GuardFrame ed edg) : edg.regs = ed.regs := by rw [h.fields]
theorem GuardFrame.xrow {ed edg : Ed} (h : GuardFrame ed edg) : edg.xrow = ed.xrow := by rw [h.fields]
theorem GuardFrame.out {ed edg : Ed} (h : GuardFrame ed edg) : edg.out = ed.out := by rw [h.fields]
theorem GuardFrame.input {ed edg : Ed} (h : GuardFrame ed edg) : edg.input = ed.input := by rw [h.fields]
theorem GuardFrame.unmodelled {ed edg : Ed} (h : GuardFrame ed edg) : edg.unmodelled = ed.unmodelled := by
  rw [h.fields]

theorem fsOnly_frame {ed ed' : Ed} (h : FsOnly ed ed') :
    ed' = { ed with bufs := ed'.bufs, files := ed'.files, clock := ed'.clock, calls := ed'.calls,
                    fired := ed'.fired, msg := ed'.msg } ∧ ed'.bufs = ed.bufs := by
  obtain ⟨_, _, _, _, rfl⟩ := h
  exact ⟨rfl, rfl⟩

theorem modifiedAt_fields (ed : Ed) (idx : Nat) :
    (ed.modifiedAt idx).2 = { ed with bufs := (ed.modifiedAt idx).2.bufs } := by
  unfold Ed.modifiedAt
  split <;> rfl

/-- `bufs_modified(0, msg)`, whatever its outcome and whatever the options -/
theorem bufsModified0_frame (ed edg : Ed) (msg : Option Bytes) (r : Bool)
    (h : bufsModified ed 0 msg = some (r, edg)) : GuardFrame ed edg := by
  unfold bufsModified at h
  split at h
  · cases h; exact GuardFrame.refl _
  · have hm := modifiedAt_fields ed 0
    generalize hp : ed.modifiedAt 0 = p at h hm
    obtain ⟨m, ed1⟩ := p
    simp only [] at h hm
    have hb1 : ed1.bufs = (ed.modifiedAt 0).2.bufs := by rw [hp]
    split at h
    · cases h
      exact ⟨by rw [hm], Or.inr hb1⟩
    · split at h
      · cases h
      · split at h
        · split at h
          · cases h
          · rename_i err ed2 hs
            cases h
            obtain ⟨k1, k2⟩ := fsOnly_frame (lbufSave_fsOnly _ _ _ _ _ _ _ _ _ hs)
            refine ⟨?_, Or.inr (k2.trans hb1)⟩
            rw [k1, hm]
        · cases h
          refine ⟨?_, Or.inr ?_⟩
          · cases msg <;> (simp only [Ed.show]; rw [hm])
          · cases msg <;> exact hb1

theorem execGuard_frame (ed edg : Ed) (r : Bool) (h : execGuard ed = some (r, edg)) : GuardFrame ed edg := by
  unfold execGuard at h
  split at h
  · exact bufsModified0_frame _ _ _ _ h
  · cases h; exact GuardFrame.refl _

/-- with `wa` set the guard is off -/
theorem execGuard_wa (ed : Ed) (h : ed.xwa ≠ 0) : execGuard ed = some (false, ed) := by
  unfold execGuard
  rw [if_neg (by simpa using h)]

end Neatvi.Lemmas.C06c
