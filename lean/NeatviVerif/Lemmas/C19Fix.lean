import NeatviVerif.Lemmas.C19Update
/-!
# C19, `vi_drawfix`: the screen after a partial redraw, row by row
-/
namespace Neatvi.Lemmas.C19
open Neatvi Neatvi.Mot Neatvi.Screen

/-- `term_room` on a freshly painted screen, with integer conditions only -/
theorem room_repaint_getElem? (old : Lines) (xtop xleft r a : Int) (rows j : Nat)
    (hr0 : 0 ≤ r) (hr : r < (rows : Int)) (hj : j < rows) :
    (room (repaint old xtop xleft rows) r a)[j]? =
      if (j : Int) < r then some (some (img old xleft (xtop + (j : Int))))
      else if a < 0 then
        (if (j : Int) - a < (rows : Int) then some (some (img old xleft (xtop + (j : Int) - a))) else some none)
      else if (j : Int) < r + a then some none
      else some (some (img old xleft (xtop + (j : Int) - a))) := by
  obtain ⟨r', rfl⟩ : ∃ r' : Nat, r = (r' : Int) := ⟨r.toNat, by omega⟩
  have hl := repaint_length old xtop xleft rows
  by_cases h1 : (j : Int) < (r' : Int)
  · rw [if_pos h1]
    by_cases ha : a < 0
    · rw [room_del_getElem? _ _ _ (by omega) ha, if_pos (by omega), repaint_getElem _ _ _ _ _ hj]
    · by_cases ha' : 0 < a
      · rw [room_ins_getElem? _ _ _ (by omega) ha', if_pos (by omega), repaint_getElem _ _ _ _ _ hj]
      · rw [show a = 0 by omega, room_zero, repaint_getElem _ _ _ _ _ hj]
  · rw [if_neg h1]
    by_cases ha : a < 0
    · rw [if_pos ha, room_del_getElem? _ _ _ (by omega) ha, if_neg (by omega), hl]
      by_cases h2 : (j : Int) - a < (rows : Int)
      · rw [if_pos h2, if_pos (by omega), repaint_getElem _ _ _ _ _ (by omega)]
        congr 3; omega
      · rw [if_neg h2, if_neg (by omega), if_pos hj]
    · rw [if_neg ha]
      by_cases ha' : 0 < a
      · rw [room_ins_getElem? _ _ _ (by omega) ha', if_neg (by omega), hl]
        by_cases h2 : (j : Int) < (r' : Int) + a
        · rw [if_pos h2, if_pos (by omega)]
        · rw [if_neg h2, if_neg (by omega), if_pos hj, repaint_getElem _ _ _ _ _ (by omega)]
          congr 3; omega
      · rw [show a = 0 by omega, room_zero, repaint_getElem _ _ _ _ _ hj, if_neg (by omega)]
        congr 3; omega

/-- the routine as it was before the repair (`vi_drawfix` without the guard for a range that starts
    above the window); kept to state what was wrong with it -/
def drawFixOld (s : Scr) (ls : Lines) (xtop xleft : Int) (r1 r2 n : Int) (preview : Bool) : Scr × Int :=
  let xrows : Int := s.length
  let dis := n - (r2 - r1 + 1)
  let xtop := if preview && r1 < xtop then r1 else xtop
  let r1 := min (max r1 xtop) (xtop + xrows - 1)
  let r2 := min (max r2 xtop) (xtop + xrows - 1)
  let s := room s (r1 - xtop) (r1 - r2 - 1 + n)
  let s :=
    if dis < 0 && r1 + n < xtop + xrows then
      let xt := xtop + (if preview then -dis else 0)
      let from_ := r1 + n + (if preview then -dis else 0)
      drawRows s ls xt xleft ((List.range (xt + xrows - from_).toNat).map (fun (i : Nat) => from_ + (i : Int)))
    else s
  let s := drawRows s ls xtop xleft ((List.range (xtop + xrows - r1).toNat).filterMap (fun (i : Nat) =>
    let row := r1 + (i : Int); if row < r1 + n then some row else none))
  (s, xtop)

/-- the repaired routine is the old one behind a guard -/
theorem drawFix_eq (s : Scr) (ls : Lines) (xtop xleft r1 r2 n : Int) (p : Bool) :
    drawFix s ls xtop xleft r1 r2 n p =
      if r1 < (if p && r1 < xtop then r1 else xtop) then
        (drawRows s ls (if p && r1 < xtop then r1 else xtop) xleft
          ((List.range s.length).map (fun (k : Nat) => (if p && r1 < xtop then r1 else xtop) + (k : Int))),
         if p && r1 < xtop then r1 else xtop)
      else drawFixOld s ls xtop xleft r1 r2 n p := by
  unfold drawFix drawFixOld
  simp only []

/-- drawing every row of the window is the full repaint -/
theorem drawRows_all (s : Scr) (ls : Lines) (xtop xleft : Int) :
    drawRows s ls xtop xleft ((List.range s.length).map (fun (k : Nat) => xtop + (k : Int))) =
      repaint ls xtop xleft s.length := by
  rw [eq_repaint_iff]
  refine ⟨drawRows_length .., fun k hk => ?_⟩
  rw [drawRows_getElem?, if_pos ⟨hk, (mem_rangeMap ..).mpr ⟨by omega, by omega⟩⟩]

/-- in preview mode the guard never fires -/
theorem drawFix_preview_eq (s : Scr) (ls : Lines) (xtop xleft r1 r2 n : Int) :
    drawFix s ls xtop xleft r1 r2 n true = drawFixOld s ls xtop xleft r1 r2 n true := by
  rw [drawFix_eq, if_neg]
  simp only [Bool.true_and, decide_eq_true_eq]
  split <;> omega

theorem length_ite {α : Type} (c : Prop) [Decidable c] (a b : List α) (m : Nat)
    (h1 : a.length = m) (h2 : b.length = m) : (if c then a else b).length = m := by
  split <;> assumption

theorem drawFixOld_length (s : Scr) (ls : Lines) (xtop xleft r1 r2 n : Int) (p : Bool) :
    (drawFixOld s ls xtop xleft r1 r2 n p).1.length = s.length := by
  unfold drawFixOld
  simp only []
  rw [drawRows_length]
  apply length_ite
  · rw [drawRows_length, room_length]
  · rw [room_length]

theorem drawFixOld_snd (s : Scr) (ls : Lines) (xtop xleft r1 r2 n : Int) (p : Bool) :
    (drawFixOld s ls xtop xleft r1 r2 n p).2 = if p && r1 < xtop then r1 else xtop := rfl

theorem img_congr {a b : Lines} {i j : Int} (xleft : Int) (h : lineAt a i = lineAt b j) :
    (some (some (img a xleft i)) : Option (Option Img)) = some (some (img b xleft j)) := by
  unfold img; rw [h]

/-- the partial redraw without preview, for any two buffers that agree above `r1` and agree up to the
    displacement `dis = n - (r2 - r1 + 1)` from `r1 + n` on -/
theorem drawFixOld_repaint_of_shift (old new : Lines) (xtop xleft r1 r2 n : Int) (rows : Nat)
    (h12 : r1 ≤ r2) (hn : 0 ≤ n)
    (hlo : ∀ i, i < r1 → lineAt new i = lineAt old i)
    (hhi : ∀ i, r1 + n ≤ i → lineAt new i = lineAt old (i - (n - (r2 - r1 + 1))))
    (hwin : xtop ≤ r1 ∨ n < r2 - r1 + 1 ∨ r1 = r2 ∨ (rows : Int) ≤ n ∨ xtop + (rows : Int) ≤ r2) :
    (drawFixOld (repaint old xtop xleft rows) new xtop xleft r1 r2 n false).1 = repaint new xtop xleft rows := by
  rw [eq_repaint_iff]
  refine ⟨by rw [drawFixOld_length, repaint_length], fun k hk => ?_⟩
  unfold drawFixOld
  simp only [Bool.false_and, Bool.false_eq_true, if_false, repaint_length, Int.add_zero]
  generalize hc1 : min (max r1 xtop) (xtop + (rows : Int) - 1) = c1
  generalize hc2 : min (max r2 xtop) (xtop + (rows : Int) - 1) = c2
  have hr := room_repaint_getElem? old xtop xleft (c1 - xtop) (c1 - c2 - 1 + n) rows k (by omega) (by omega) hk
  by_cases hB : n - (r2 - r1 + 1) < 0 ∧ c1 + n < xtop + (rows : Int)
  · rw [if_pos (by simp only [Bool.and_eq_true, decide_eq_true_eq]; exact hB)]
    rw [drawRows_getElem?, drawRows_getElem?, drawRows_length, room_length, repaint_length]
    simp only [mem_rangeFilterMap, mem_rangeMap]
    split
    · rfl
    · split
      · rfl
      · rw [hr, if_pos (by omega)]
        exact (img_congr xleft (hlo _ (by omega))).symm
  · rw [if_neg (by simp only [Bool.and_eq_true, decide_eq_true_eq]; exact hB)]
    rw [drawRows_getElem?, room_length, repaint_length]
    simp only [mem_rangeFilterMap]
    split
    · rfl
    · rename_i hA
      rw [hr]
      by_cases h1 : (k : Int) < c1 - xtop
      · rw [if_pos h1]
        exact (img_congr xleft (hlo _ (by omega))).symm
      · have hd : 0 ≤ n - (r2 - r1 + 1) := by omega
        have ha : c1 - c2 - 1 + n = n - (r2 - r1 + 1) := by omega
        rw [if_neg h1, if_neg (by omega), if_neg (by omega), ha]
        exact (img_congr xleft (hhi _ (by omega))).symm


/-- the preview redraw of `c`: the buffer is unchanged, the screen is drawn as if the lines after
    `r1 + n - 1` up to `r2` were already gone -/
theorem drawFixOld_preview_getElem? (ls : Lines) (xtop xleft r1 r2 n : Int) (rows : Nat)
    (h12 : r1 ≤ r2) (hn : 0 ≤ n) (hvis : r1 < xtop + (rows : Int))
    (hwin : xtop ≤ r1 ∨ n < r2 - r1 + 1 ∨ (rows : Int) ≤ n) (k : Nat) (hk : k < rows) :
    (drawFixOld (repaint ls xtop xleft rows) ls xtop xleft r1 r2 n true).1[k]? =
      some (some (img ls xleft
        (if min xtop r1 + (k : Int) < r1 + n then min xtop r1 + (k : Int)
         else min xtop r1 + (k : Int) - (n - (r2 - r1 + 1))))) := by
  unfold drawFixOld
  have ht : (if (true && decide (r1 < xtop)) = true then r1 else xtop) = min xtop r1 := by
    simp only [Bool.true_and, decide_eq_true_eq]; split <;> omega
  simp only [ht, ↓reduceIte, repaint_length]
  generalize hT : min xtop r1 = t
  generalize hc1 : min (max r1 t) (t + (rows : Int) - 1) = c1
  generalize hc2 : min (max r2 t) (t + (rows : Int) - 1) = c2
  have hr := room_repaint_getElem? ls xtop xleft (c1 - t) (c1 - c2 - 1 + n) rows k (by omega) (by omega) hk
  by_cases hB : n - (r2 - r1 + 1) < 0 ∧ c1 + n < t + (rows : Int)
  · rw [if_pos (by simp only [Bool.and_eq_true, decide_eq_true_eq]; exact hB)]
    rw [drawRows_getElem?, drawRows_getElem?, drawRows_length, room_length, repaint_length]
    simp only [mem_rangeFilterMap, mem_rangeMap]
    split
    · rw [if_pos (by omega)]
    · split
      · rw [if_neg (by omega)]
        congr 3; omega
      · rw [hr, if_pos (by omega), if_pos (by omega)]
        congr 3; omega
  · rw [if_neg (by simp only [Bool.and_eq_true, decide_eq_true_eq]; exact hB)]
    rw [drawRows_getElem?, room_length, repaint_length]
    simp only [mem_rangeFilterMap]
    split
    · rw [if_pos (by omega)]
    · rw [hr]
      by_cases h1 : (k : Int) < c1 - t
      · rw [if_pos h1, if_pos (by omega)]
        congr 3; omega
      · have hd : 0 ≤ n - (r2 - r1 + 1) := by omega
        have ha : c1 - c2 - 1 + n = n - (r2 - r1 + 1) := by omega
        rw [if_neg h1, if_neg (by omega), if_neg (by omega), if_neg (by omega), ha]
        congr 3; omega

/-- the repaired routine without preview: no hypothesis on the window -/
theorem drawFix_repaint_of_shift (old new : Lines) (xtop xleft r1 r2 n : Int) (rows : Nat)
    (h12 : r1 ≤ r2) (hn : 0 ≤ n)
    (hlo : ∀ i, i < r1 → lineAt new i = lineAt old i)
    (hhi : ∀ i, r1 + n ≤ i → lineAt new i = lineAt old (i - (n - (r2 - r1 + 1)))) :
    drawFix (repaint old xtop xleft rows) new xtop xleft r1 r2 n false = (repaint new xtop xleft rows, xtop) := by
  rw [drawFix_eq]
  simp only [Bool.false_and, Bool.false_eq_true, if_false]
  split
  · rw [drawRows_all, repaint_length]
  · apply Prod.ext
    · exact drawFixOld_repaint_of_shift old new xtop xleft r1 r2 n rows h12 hn hlo hhi (Or.inl (by omega))
    · rfl

theorem drawFix_length (s : Scr) (ls : Lines) (xtop xleft r1 r2 n : Int) (p : Bool) :
    (drawFix s ls xtop xleft r1 r2 n p).1.length = s.length := by
  rw [drawFix_eq]
  by_cases h : r1 < (if p && r1 < xtop then r1 else xtop)
  · rw [if_pos h, drawRows_length]
  · rw [if_neg h]; exact drawFixOld_length ..

theorem drawFix_snd (s : Scr) (ls : Lines) (xtop xleft r1 r2 n : Int) (p : Bool) :
    (drawFix s ls xtop xleft r1 r2 n p).2 = if p && r1 < xtop then r1 else xtop := by
  rw [drawFix_eq]
  by_cases h : r1 < (if p && r1 < xtop then r1 else xtop)
  · rw [if_pos h]
  · rw [if_neg h]; rfl

theorem drawFix_preview_getElem? (ls : Lines) (xtop xleft r1 r2 n : Int) (rows : Nat)
    (h12 : r1 ≤ r2) (hn : 0 ≤ n) (hvis : r1 < xtop + (rows : Int))
    (hwin : xtop ≤ r1 ∨ n < r2 - r1 + 1 ∨ (rows : Int) ≤ n) (k : Nat) (hk : k < rows) :
    (drawFix (repaint ls xtop xleft rows) ls xtop xleft r1 r2 n true).1[k]? =
      some (some (img ls xleft
        (if min xtop r1 + (k : Int) < r1 + n then min xtop r1 + (k : Int)
         else min xtop r1 + (k : Int) - (n - (r2 - r1 + 1))))) := by
  rw [drawFix_preview_eq]
  exact drawFixOld_preview_getElem? ls xtop xleft r1 r2 n rows h12 hn hvis hwin k hk

/-! ### the lines of a spliced buffer -/

theorem lineAt_splice_lo (old mid : Lines) (a b : Nat) (ha : a ≤ old.length) (i : Int) (hi : i < (a : Int)) :
    lineAt (old.take a ++ mid ++ old.drop b) i = lineAt old i := by
  unfold lineAt
  split
  · rfl
  · rw [List.append_assoc, List.getElem?_append_left (by rw [List.length_take]; omega),
      List.getElem?_take, if_pos (by omega)]

theorem lineAt_splice_hi (old mid : Lines) (a b : Nat) (ha : a ≤ old.length) (i : Int)
    (hi : (a : Int) + (mid.length : Int) ≤ i) :
    lineAt (old.take a ++ mid ++ old.drop b) i = lineAt old (i - ((a : Int) + (mid.length : Int)) + (b : Int)) := by
  unfold lineAt
  rw [if_neg (by omega), if_neg (by omega)]
  have hl : (old.take a ++ mid).length = a + mid.length := by
    rw [List.length_append, List.length_take]; omega
  rw [List.getElem?_append_right (by rw [hl]; omega), hl, List.getElem?_drop]
  congr 1; omega

end Neatvi.Lemmas.C19
