import NeatviVerif.Model.ExCmd
/-!
# C06b, the splitting of a command line: `ex_loc`, `ex_cmd`, `ex_arg` on a simple command followed by `|`
-/
namespace Neatvi.Lemmas.C06b
open Neatvi Neatvi.Ex

theorem locChars_eq : locChars = [46, 36, 48, 49, 50, 51, 52, 53, 54, 55, 56, 57, 39, 47, 63, 43, 45, 44, 59, 37] := by
  decide +kernel

theorem unknown_eq : strOf "unknown" = [117, 110, 107, 110, 111, 119, 110] := by decide +kernel

/-- the address characters that do not start a pattern or a mark: `.$0123456789+-,;%` -/
def simpleLoc : Bytes := [46, 36, 48, 49, 50, 51, 52, 53, 54, 55, 56, 57, 43, 45, 44, 59, 37]

theorem simpleLoc_facts (c : Nat) (h : c ∈ simpleLoc) :
    locChars.contains c = true ∧ c ≠ 39 ∧ c ≠ 47 ∧ c ≠ 63 ∧ c ≠ 58 ∧ c ≠ 32 ∧ c ≠ 9 := by
  rw [locChars_eq]
  simp only [simpleLoc, List.mem_cons, List.not_mem_nil, or_false] at h
  rcases h with rfl | rfl | rfl | rfl | rfl | rfl | rfl | rfl | rfl | rfl | rfl | rfl | rfl | rfl | rfl | rfl | rfl <;> decide

theorem locChars_lt (c : Nat) (h : locChars.contains c = true) : c < 64 := by
  rw [locChars_eq] at h
  simp only [List.contains_eq_mem, List.mem_cons, List.not_mem_nil, or_false, decide_eq_true_eq] at h
  omega

theorem alpha_ge (c : Nat) (h : isAlphaC c = true) : 65 ≤ c := by
  unfold isAlphaC at h
  simp only [Bool.or_eq_true, Bool.and_eq_true, decide_eq_true_eq] at h
  omega

theorem alpha_not_loc (c : Nat) (h : isAlphaC c = true) : locChars.contains c = false := by
  cases hc : locChars.contains c with
  | false => rfl
  | true => have := locChars_lt c hc; have := alpha_ge c h; omega

theorem dropWhile_head {α : Type} (p : α → Bool) (l : List α) (d : α) (h : l = [] ∨ p (l.headD d) = false) :
    l.dropWhile p = l := by
  cases l with
  | nil => rfl
  | cons x xs =>
    rcases h with h | h
    · cases h
    · simp only [List.headD_cons] at h
      simp [h]

theorem dropWhile_all_append {α : Type} (p : α → Bool) (s l : List α) (hs : ∀ x ∈ s, p x = true) :
    (s ++ l).dropWhile p = l.dropWhile p := by
  induction s with
  | nil => rfl
  | cons x xs ih =>
    simp only [List.cons_append, List.dropWhile_cons, hs x (by simp), if_true]
    exact ih (fun y hy => hs y (by simp [hy]))

/-! ### `ex_loc` -/

theorem exLoc_go_simple : ∀ (loc r acc : Bytes) (f : Nat), (∀ c ∈ loc, c ∈ simpleLoc) →
    locChars.contains (r.headD 0) = false → loc.length < f → exLoc.go f (loc ++ r) acc = (acc ++ loc, r) := by
  intro loc
  induction loc with
  | nil =>
    intro r acc f _ hr hf
    obtain ⟨f, rfl⟩ : ∃ g, f = g + 1 := ⟨f - 1, by simp at hf; omega⟩
    cases r with
    | nil => rw [List.append_nil, exLoc.go]; simp
    | cons c r =>
      simp only [List.headD_cons] at hr
      rw [List.nil_append, exLoc.go, if_pos (by rw [hr]; rfl)]
      simp
  | cons c loc ih =>
    intro r acc f hl hr hf
    obtain ⟨f, rfl⟩ : ∃ g, f = g + 1 := ⟨f - 1, by simp at hf; omega⟩
    obtain ⟨k1, k2, k3, k4, _⟩ := simpleLoc_facts c (hl c (by simp))
    have e1 : (c == 39) = false := by simp [k2]
    have e2 : (c == 47) = false := by simp [k3]
    have e3 : (c == 63) = false := by simp [k4]
    rw [List.cons_append, exLoc.go]
    simp only [k1, Bool.not_true, Bool.false_eq_true, if_false, e1, List.headD_cons, e2, e3, Bool.or_self]
    rw [ih r (acc ++ [c]) f (fun x hx => hl x (by simp [hx])) hr (by simp at hf; omega)]
    simp

theorem exLoc_simple (loc r : Bytes) (hl : ∀ c ∈ loc, c ∈ simpleLoc) (hr : locChars.contains (r.headD 0) = false)
    (hstart : loc = [] → r.headD 0 ≠ 58 ∧ r.headD 0 ≠ 32 ∧ r.headD 0 ≠ 9) : exLoc (loc ++ r) = (loc, r) := by
  unfold exLoc
  have hd : (loc ++ r).dropWhile (fun c => c == 58 || c == 32 || c == 9) = loc ++ r := by
    apply dropWhile_head _ _ 0
    cases loc with
    | nil =>
      obtain ⟨a, b, c⟩ := hstart rfl
      cases r with
      | nil => left; rfl
      | cons x xs =>
        right
        simp only [List.headD_cons] at a b c
        simp [a, b, c]
    | cons c loc =>
      obtain ⟨_, _, _, _, a, b, c'⟩ := simpleLoc_facts c (hl c (by simp))
      right
      simp [a, b, c']
  simp only [hd]
  rw [exLoc_go_simple loc r [] _ hl hr (by simp; omega)]
  simp

/-! ### `ex_cmd` -/

theorem exCmd_go_alpha : ∀ (w acc rest : Bytes) (f : Nat), (∀ c ∈ w, isAlphaC c = true) →
    (acc = [] → w.headD 0 ≠ 107) → acc.length + w.length ≤ 16 → isAlphaC (rest.headD 0) = false → w.length < f →
    exCmd.go f (w ++ rest) acc = (acc ++ w, rest) := by
  intro w
  induction w with
  | nil =>
    intro acc rest f _ _ _ hr hf
    obtain ⟨f, rfl⟩ : ∃ g, f = g + 1 := ⟨f - 1, by simp at hf; omega⟩
    cases rest with
    | nil => rw [List.append_nil, exCmd.go]; simp
    | cons c r =>
      simp only [List.headD_cons] at hr
      rw [List.nil_append, exCmd.go]
      simp [hr]
  | cons c w ih =>
    intro acc rest f hw hk hlen hr hf
    obtain ⟨f, rfl⟩ : ∃ g, f = g + 1 := ⟨f - 1, by simp at hf; omega⟩
    have hc := hw c (by simp)
    have hlt : acc.length < 16 := by simp at hlen; omega
    have hk' : (c == 107 && acc.isEmpty) = false := by
      cases acc with
      | nil => have := hk rfl; simp at this; simp [this]
      | cons a as => simp
    rw [List.cons_append, exCmd.go]
    simp only [hc, hlt, decide_true, Bool.and_self, if_true, hk', Bool.false_eq_true, if_false]
    rw [ih (acc ++ [c]) rest f (fun x hx => hw x (by simp [hx])) (fun h => by simp at h)
      (by simp at hlen ⊢; omega) hr (by simp at hf; omega)]
    simp

theorem headD_append (a b : Bytes) : (a ++ b).headD 0 = if a = [] then b.headD 0 else a.headD 0 := by
  cases a <;> simp

theorem exCmd_simple (w sfx rest : Bytes) (hw : ∀ c ∈ w, isAlphaC c = true) (hlen : w.length ≤ 16)
    (hk : w.headD 0 = 107 → w = [107]) (hsfx : sfx = [] ∨ sfx = [33] ∨ sfx = [61] ∨ sfx = [64])
    (hend : sfx = [] → (w = [107] ∨ isAlphaC (rest.headD 0) = false) ∧
      rest.headD 0 ≠ 33 ∧ rest.headD 0 ≠ 61 ∧ rest.headD 0 ≠ 64)
    (hstart : w = [] → sfx = [] → rest.headD 0 ≠ 32 ∧ rest.headD 0 ≠ 9) :
    exCmd (w ++ sfx ++ rest) = (w ++ sfx, rest) := by
  unfold exCmd
  rw [List.append_assoc]
  have hd : (w ++ (sfx ++ rest)).dropWhile (fun c => c == 32 || c == 9) = w ++ (sfx ++ rest) := by
    apply dropWhile_head _ _ 0
    cases w with
    | nil =>
      rcases hsfx with rfl | rfl | rfl | rfl
      · obtain ⟨a, b⟩ := hstart rfl rfl
        cases rest with
        | nil => left; rfl
        | cons x xs =>
          right
          simp only [List.headD_cons] at a b
          simp [a, b]
      all_goals (right; rfl)
    | cons c w =>
      have := alpha_ge c (hw c (by simp))
      right
      have a : c ≠ 32 := by omega
      have b : c ≠ 9 := by omega
      simp [a, b]
  have hna : isAlphaC ((sfx ++ rest).headD 0) = false ∨ w = [107] := by
    rcases hsfx with rfl | rfl | rfl | rfl
    · rcases (hend rfl).1 with h | h
      · exact Or.inr h
      · exact Or.inl h
    all_goals (left; rfl)
  have hgo : exCmd.go ((w ++ (sfx ++ rest)).length + 1) (w ++ (sfx ++ rest)) [] = (w, sfx ++ rest) := by
    by_cases hk1 : w = [107]
    · subst hk1
      rw [List.cons_append, exCmd.go]
      simp [isAlphaC]
    · have h1 : isAlphaC ((sfx ++ rest).headD 0) = false := by
        rcases hna with h | h
        · exact h
        · exact absurd h hk1
      rw [exCmd_go_alpha w [] (sfx ++ rest) _ hw (fun _ h107 => hk1 (hk h107)) (by simp; omega) h1 (by simp; omega)]
      simp
  simp only [hd, hgo]
  rcases hsfx with rfl | rfl | rfl | rfl
  · obtain ⟨_, a, b, c⟩ := hend rfl
    simp only [List.nil_append, List.append_nil]
    generalize rest.headD 0 = x at a b c
    simp [a, b, c]
  all_goals simp

/-! ### `ex_arg` -/

theorem copyUntil_plain (stop : Nat → Bool) : ∀ (arg acc t : Bytes) (f : Nat),
    (∀ c ∈ arg, stop c = false ∧ c ≠ 92) → (t = [] ∨ stop (t.headD 0) = true) → arg.length < f →
    copyUntil stop f (arg ++ t) acc = (acc ++ arg, t) := by
  intro arg
  induction arg with
  | nil =>
    intro acc t f _ ht hf
    obtain ⟨f, rfl⟩ : ∃ g, f = g + 1 := ⟨f - 1, by simp at hf; omega⟩
    cases t with
    | nil => rw [List.append_nil, copyUntil]; simp
    | cons c r =>
      rcases ht with ht | ht
      · cases ht
      · simp only [List.headD_cons] at ht
        rw [List.nil_append, copyUntil, if_pos ht]
        simp
  | cons c arg ih =>
    intro acc t f ha ht hf
    obtain ⟨f, rfl⟩ : ∃ g, f = g + 1 := ⟨f - 1, by simp at hf; omega⟩
    obtain ⟨a, b⟩ := ha c (by simp)
    have e : (c == 92) = false := by simp [b]
    rw [List.cons_append, copyUntil]
    simp only [a, Bool.false_eq_true, if_false, e, Bool.false_and]
    rw [ih (acc ++ [c]) t f (fun x hx => ha x (by simp [hx])) ht (by simp at hf; omega)]
    simp

/-- the command (by its abbreviation in the table) takes a plain argument: `ex_arg` copies it up to `|`
    (not `!`, `g`, `v`, `r !…`, `w !…`, which take the rest of the line; not `s`, `&`, `~`, which take a
    delimited pattern) -/
def plainAbbr (abbr arg : Bytes) : Bool :=
  let c0 := abbr.headD 0
  let c1 := if c0 != 0 then abbr.getD 1 0 else 0
  !(c0 == 33 || c0 == 103 || c0 == 118 || (c0 == 114 || c0 == 119) && c1 == 0 && arg.headD 0 == 33) &&
  !(c0 == 115 && c1 != 101 || c0 == 38 || c0 == 126)

theorem exArg_simple (abbr sp arg t : Bytes) (hsp : ∀ c ∈ sp, c = 32 ∨ c = 9)
    (harg : ∀ c ∈ arg, c ≠ 10 ∧ c ≠ 124 ∧ c ≠ 34 ∧ c ≠ 92) (hstart : arg.headD 0 ≠ 32 ∧ arg.headD 0 ≠ 9)
    (ht : t = [] ∨ ∃ c2, t = 124 :: c2) (hp : plainAbbr abbr arg = true) :
    exArg (sp ++ arg ++ t) abbr = (arg, t.drop 1) := by
  unfold exArg
  have hth : t.headD 0 = 0 ∨ t.headD 0 = 124 := by
    rcases ht with rfl | ⟨c2, rfl⟩
    · exact Or.inl rfl
    · exact Or.inr rfl
  have hhead : (arg ++ t).headD 0 ≠ 32 ∧ (arg ++ t).headD 0 ≠ 9 := by
    rw [headD_append]
    split
    · rcases hth with h | h <;> rw [h] <;> decide
    · exact hstart
  have hsrc : (sp ++ arg ++ t).dropWhile (fun c => c == 32 || c == 9) = arg ++ t := by
    rw [List.append_assoc, dropWhile_all_append _ _ _ (fun x hx => by rcases hsp x hx with rfl | rfl <;> rfl)]
    apply dropWhile_head _ _ 0
    right
    generalize (arg ++ t).headD 0 = x at hhead
    simp [hhead.1, hhead.2]
  have hh : ((arg ++ t).headD 0 == 33) = (arg.headD 0 == 33) := by
    rw [headD_append]
    split
    · rename_i h0
      subst h0
      rcases hth with h | h <;> rw [h] <;> rfl
    · rfl
  simp only [plainAbbr, Bool.and_eq_true, Bool.not_eq_true'] at hp
  obtain ⟨hp1, hp2⟩ := hp
  have hnil : (([] : Bytes) == [0, 0, 0, 0]) = false := by decide
  simp only [hsrc, hh, hp1, hp2, Bool.false_eq_true, if_false, hnil]
  rw [copyUntil_plain _ arg [] t _ (fun c hc => by
        obtain ⟨a, b, c', d⟩ := harg c hc
        simp [a, b, c', d])
      (by
        rcases ht with rfl | ⟨c2, rfl⟩
        · exact Or.inl rfl
        · right; rfl)
      (by simp; omega)]
  rcases ht with rfl | ⟨c2, rfl⟩
  · simp
  · simp

/-! ### one command of a line -/

/-- the abbreviation `ex_exec` hands to `ex_arg` / `ex_txt` -/
def abbrOf (idx : Option (Bytes × String)) : Bytes :=
  match idx with | some (a, _) => a | none => strOf "unknown"

structure Parsed where
  loc : Bytes
  cmd : Bytes
  idx : Option (Bytes × String)
  arg : Bytes
  rest : Bytes

/-- the first command of a line, split as `ex_exec` does: address, name, table entry, argument, rest of the line
    (before `ex_txt` had a look at it) -/
def parse1 (ln : Bytes) : Parsed :=
  let p1 := exLoc ln
  let p2 := exCmd p1.2
  let idx := exIdx p2.1
  let p3 := exArg p2.2 (abbrOf idx)
  ⟨p1.1, p2.1, idx, p3.1, p3.2⟩

/-- a simple command `loc ++ w ++ sfx ++ sp ++ arg` followed by `t` (nothing, or `|` and more):
    the address uses only `.$0-9+-,;%`, the name is letters plus an optional `!`, `=`, `@`, then blanks, then an
    argument free of newline, `|`, `"` and backslash -/
structure SimpleCmd (loc w sfx sp arg t : Bytes) : Prop where
  loc_ok : ∀ c ∈ loc, c ∈ simpleLoc
  w_alpha : ∀ c ∈ w, isAlphaC c = true
  w_len : w.length ≤ 16
  w_k : w.headD 0 = 107 → w = [107]
  sfx_ok : sfx = [] ∨ sfx = [33] ∨ sfx = [61] ∨ sfx = [64]
  sp_ok : ∀ c ∈ sp, c = 32 ∨ c = 9
  arg_ok : ∀ c ∈ arg, c ≠ 10 ∧ c ≠ 124 ∧ c ≠ 34 ∧ c ≠ 92
  arg_start : arg.headD 0 ≠ 32 ∧ arg.headD 0 ≠ 9
  t_ok : t = [] ∨ ∃ c2, t = 124 :: c2
  /-- where the name ends: the next byte is no letter (except after `k`) and none of `!`, `=`, `@` -/
  name_end : sfx = [] → (w = [107] ∨ isAlphaC ((sp ++ arg ++ t).headD 0) = false) ∧
    (sp ++ arg ++ t).headD 0 ≠ 33 ∧ (sp ++ arg ++ t).headD 0 ≠ 61 ∧ (sp ++ arg ++ t).headD 0 ≠ 64
  /-- a bare address: the argument follows at once and does not continue the address -/
  bare : w = [] → sfx = [] → sp = [] ∧ locChars.contains ((arg ++ t).headD 0) = false ∧
    (loc = [] → (arg ++ t).headD 0 ≠ 58)

theorem parse1_simple {loc w sfx sp arg t : Bytes} (h : SimpleCmd loc w sfx sp arg t)
    (hp : plainAbbr (abbrOf (exIdx (w ++ sfx))) arg = true) :
    parse1 (loc ++ w ++ sfx ++ sp ++ arg ++ t) = ⟨loc, w ++ sfx, exIdx (w ++ sfx), arg, t.drop 1⟩ := by
  have hth : t.headD 0 = 0 ∨ t.headD 0 = 124 := by
    rcases h.t_ok with rfl | ⟨c2, rfl⟩
    · exact Or.inl rfl
    · exact Or.inr rfl
  have hat : (arg ++ t).headD 0 ≠ 32 ∧ (arg ++ t).headD 0 ≠ 9 := by
    rw [headD_append]
    split
    · rcases hth with h | h <;> rw [h] <;> decide
    · exact h.arg_start
  -- the byte after the address
  have hr : locChars.contains ((w ++ sfx ++ sp ++ arg ++ t).headD 0) = false ∧
      (loc = [] → (w ++ sfx ++ sp ++ arg ++ t).headD 0 ≠ 58 ∧ (w ++ sfx ++ sp ++ arg ++ t).headD 0 ≠ 32 ∧
        (w ++ sfx ++ sp ++ arg ++ t).headD 0 ≠ 9) := by
    cases hw : w with
    | nil =>
      rcases h.sfx_ok with hs | hs | hs | hs
      · obtain ⟨b1, b2, b3⟩ := h.bare hw hs
        subst hs; subst b1
        simp only [List.nil_append]
        refine ⟨b2, fun hl => ⟨b3 hl, hat.1, hat.2⟩⟩
      all_goals
        subst hs
        simp only [List.nil_append, List.cons_append, List.headD_cons]
        exact ⟨by rw [locChars_eq]; decide, fun _ => by decide⟩
    | cons c w' =>
      have hc : isAlphaC c = true := h.w_alpha c (by rw [hw]; simp)
      have := alpha_ge c hc
      simp only [List.cons_append, List.headD_cons]
      exact ⟨alpha_not_loc c hc, fun _ => ⟨by omega, by omega, by omega⟩⟩
  have e1 : exLoc (loc ++ w ++ sfx ++ sp ++ arg ++ t) = (loc, w ++ sfx ++ sp ++ arg ++ t) := by
    have := exLoc_simple loc (w ++ sfx ++ sp ++ arg ++ t) h.loc_ok hr.1 hr.2
    simpa only [List.append_assoc] using this
  have e2 : exCmd (w ++ sfx ++ sp ++ arg ++ t) = (w ++ sfx, sp ++ arg ++ t) := by
    have := exCmd_simple w sfx (sp ++ arg ++ t) h.w_alpha h.w_len h.w_k h.sfx_ok h.name_end
      (fun hw hs => by
        obtain ⟨b1, _, _⟩ := h.bare hw hs
        subst b1
        simpa only [List.nil_append] using hat)
    simpa only [List.append_assoc] using this
  have e3 := exArg_simple (abbrOf (exIdx (w ++ sfx))) sp arg t h.sp_ok h.arg_ok h.arg_start h.t_ok hp
  unfold parse1
  simp only [e1, e2, e3]

end Neatvi.Lemmas.C06b
