import NeatviVerif.Lemmas.C05fF
/-!
# C05f, part G: `led_line` and `vi_prompt`

The line `led_line` returns holds no NUL, whatever is typed; the indentation it returns holds neither a NUL
nor a newline.
-/
set_option linter.unusedSimpArgs false
set_option linter.unusedVariables false
namespace Neatvi.Lemmas.C05f
open Neatvi Neatvi.Uc Neatvi.Lbuf Neatvi.Ex Neatvi.Mot Neatvi.Vi Neatvi.Spec

/-- what the paste keys `^P` / `^R` need: the registers and the current line hold no NUL -/
def PasteOk (ed : Ed) : Prop := RegsOk ed.regs ∧ ∀ l, ed.line ed.xrow = some l → NoNul l

theorem PasteOk.of_EdF {e e' : Ed} (h : PasteOk e) (hf : EdF e e') : PasteOk e' := by
  refine ⟨by rw [hf.regs]; exact h.1, ?_⟩
  intro l hl
  rw [hf.xrow, hf.line] at hl
  exact h.2 l hl

theorem PasteOk.get {ed : Ed} (h : PasteOk ed) (c : Nat) : NoNul ((Ex.regGet ed c).getD []) := by
  cases hr : Ex.regGet ed c with
  | none => exact noNul_nil
  | some x => exact regsOk_regGet h.1 h.2 c x hr

theorem wp_ledLine_go (post : Bytes) (aiMax : Nat) (im pe : Bool) (setKmap : Option Nat → M Unit)
    (getKmap : M Nat) (redraw : Bytes → Bytes → Bytes → M Unit)
    (h1 : ∀ k, Rd (setKmap k)) (h2 : Rd getKmap) (h3 : ∀ a b c, Rd (redraw a b c))
    (s0 : VS) (hp : PasteOk s0.ed) :
    ∀ (f : Nat) (sb ai : Bytes) (c1 : Int) (s : VS) (Q : Bytes × Int × Bytes → VS → Prop),
      EdF s0.ed s.ed → NoNul sb → NoNul ai → 10 ∉ ai →
      (∀ sb' key ai' s', EdF s0.ed s'.ed → NoNul sb' → NoNul ai' → 10 ∉ ai' → Q (sb', key, ai') s') →
      wp (ledLine.go post aiMax im pe setKmap getKmap redraw f sb ai c1) Q s := by
  intro f
  induction f with
  | zero =>
    intro sb ai c1 s Q he hsb hai hnl hQ
    unfold ledLine.go
    wpn
    exact hQ _ _ _ _ he hsb hai hnl
  | succ f ih =>
    intro sb ai c1 s Q he hsb hai hnl hQ
    unfold ledLine.go
    wpn
    refine h3 _ _ _ s _ (fun _ s1 e1 => ?_)
    wpn
    refine rd_termRead s1 _ (fun c s2 e2 => ?_)
    have he2 : EdF s0.ed s2.ed := he.trans (e1.trans e2)
    wpif hc
    · wpn
      refine h1 _ s2 _ (fun _ s3 e3 => ?_)
      exact ih _ _ _ _ Q (he2.trans e3) hsb hai hnl hQ
    wpif hc
    · wpn
      refine h1 _ s2 _ (fun _ s3 e3 => ?_)
      exact ih _ _ _ _ Q (he2.trans e3) hsb hai hnl hQ
    wpif hc
    · refine ih _ _ _ _ Q he2 ?_ hai hnl hQ
      split
      · exact hsb
      · exact hsb.take _
    wpif hc
    · exact ih _ _ _ _ Q he2 noNul_nil hai hnl hQ
    wpif hc
    · refine ih _ _ _ _ Q he2 ?_ hai hnl hQ
      split
      · exact hsb
      · exact hsb.take _
    wpif hc
    · refine ih _ _ _ _ Q he2 hsb ?_ ?_ hQ
      · split
        · exact noNul_append.mpr ⟨hai, by simp [NoNul]⟩
        · exact hai
      · split
        · simp [hnl]
        · exact hnl
    wpif hc
    · refine ih _ _ _ _ Q he2 ?_ hai.dropLast ?_ hQ
      · split
        · exact hsb.drop _
        · exact hsb
      · intro h; exact hnl ((List.dropLast_sublist ai).subset h)
    wpif hc
    · wpn
      refine ih _ _ _ _ Q he2 ?_ hai hnl hQ
      exact noNul_append.mpr ⟨hsb, (hp.of_EdF he2).get 0⟩
    wpif hc
    · wpn
      refine rd_readKey s2 _ (fun y s3 e3 => ?_)
      wpn
      refine ih _ _ _ _ Q (he2.trans e3) ?_ hai hnl hQ
      split
      · exact noNul_append.mpr ⟨hsb, (hp.of_EdF (he2.trans e3)).get _⟩
      · exact hsb
    wpif hc
    · split
      · wpn
        exact ih _ _ _ _ Q he2 hsb hai hnl hQ
      · exact ih _ _ _ _ Q he2 hsb hai hnl hQ
    wpif hc
    · wpn
      refine h3 _ _ _ s2 _ (fun _ s3 e3 => ?_)
      wpn
      exact hQ _ _ _ _ (he2.trans e3) hsb hai hnl
    wpif hc
    · wpn
      exact hQ _ _ _ _ he2 hsb hai hnl
    · wpn
      refine h2 s2 _ (fun km s3 e3 => ?_)
      wpn
      refine wp_readCharS _ _ s3 _ (fun r s4 e4 hr => ?_)
      have he4 : EdF s0.ed s4.ed := he2.trans (e3.trans e4)
      cases r with
      | none => exact ih _ _ _ _ Q he4 hsb hai hnl hQ
      | some cs => exact ih _ _ _ _ Q he4 (noNul_append.mpr ⟨hsb, hr cs rfl⟩) hai hnl hQ

/-- **`led_line`**: no trap; the text and the indentation hold no NUL, the indentation no newline -/
theorem wp_ledLine (pref post ai0 : Bytes) (aiMax : Nat) (im ex : Bool) (s : VS) (hp : PasteOk s.ed)
    (hai : NoNul ai0) (hnl : 10 ∉ ai0) (Q : Bytes × Int × Bytes → VS → Prop)
    (hQ : ∀ sb key ai s', EdF s.ed s'.ed → NoNul sb → NoNul ai → 10 ∉ ai → Q (sb, key, ai) s') :
    wp (ledLine pref post ai0 aiMax im ex) Q s := by
  unfold ledLine
  refine wp_ledLine_go _ _ _ _ _ _ _ ?_ ?_ ?_ s hp _ _ _ _ s Q (EdF.refl _) noNul_nil hai hnl hQ
  · intro k s Q hQ
    wps
    split <;> exact hQ _ _ (EdF.refl _)
  · intro s Q hQ
    exact hQ _ _ (EdF.refl _)
  · intro a b c s Q hQ
    split
    · wps; exact hQ _ _ ⟨rfl, rfl, rfl, rfl, rfl, rfl⟩
    · wps; exact hQ _ _ (EdF.refl _)

/-- **`vi_prompt`**: no trap; the text typed holds no NUL -/
theorem wp_viPrompt (ex : Bool) (s : VS) (hp : PasteOk s.ed) (Q : Option Bytes → VS → Prop)
    (hQ : ∀ r s', EdF s.ed s'.ed → (∀ txt, r = some txt → NoNul txt) → Q r s') : wp (viPrompt ex) Q s := by
  unfold viPrompt
  wps
  refine wp_ledLine _ _ _ _ _ _ s hp noNul_nil (by simp) _ (fun sb key ai s' e hsb _ _ => ?_)
  simp only []
  split
  · wps; exact hQ _ _ e (fun txt h => by cases h; exact hsb)
  · wps; exact hQ _ _ e (fun txt h => by cases h)

end Neatvi.Lemmas.C05f
