import NeatviVerif.Lemmas.C05fB
import NeatviVerif.Lemmas.C13Uc
/-!
# C05f, part H: the scanners of `mot.c` and `ren.c` stay inside the buffer

`PosIn ls r o`: the row is not negative and the offset is at most the number of characters of the line
(`0` for a row beyond the buffer); a negative offset (the marker of a line motion) is allowed.  Every scanner
returns such a position — `lbuf_next`, the word motions, `%`, `{ }`, `f t ; ,`, `lbuf_eol`, `lbuf_indents`,
`ren_off`.
-/
set_option linter.unusedSimpArgs false
set_option linter.unusedVariables false
namespace Neatvi.Lemmas.C05f
open Neatvi Neatvi.Uc Neatvi.Lbuf Neatvi.Ex Neatvi.Mot Neatvi.Vi

/-- a position the operators can work with -/
def PosIn (ls : Lines) (r o : Int) : Prop := 0 ≤ r ∧ o ≤ slenAt ls r

theorem lineAt_nonneg {ls : Lines} {r : Int} {l : Bytes} (h : lineAt ls r = some l) : 0 ≤ r := by
  unfold lineAt at h
  split at h
  · cases h
  · omega

theorem lineAt_isSome_nonneg {ls : Lines} {r : Int} (h : ¬ lineAt ls r = none) : 0 ≤ r := by
  cases hl : lineAt ls r with
  | none => exact absurd hl h
  | some l => exact lineAt_nonneg hl

theorem eol_le (ls : Lines) (r : Int) : eol ls r ≤ slenAt ls r := by
  have := slenAt_nonneg ls r
  unfold eol
  simp only []
  split <;> omega

theorem eol_nonneg (ls : Lines) (r : Int) : 0 ≤ eol ls r := by
  have := slenAt_nonneg ls r
  unfold eol
  simp only []
  split
  · rename_i h; simp at h; omega
  · omega

/-- `lbuf_next` once the row has been pulled back into the buffer -/
def nextCore (ls : Lines) (dir r o : Int) : Option (Int × Int) :=
  match lnNext ls dir r o with
  | some o' => some (r, o')
  | none =>
    if (lineAt ls (r + dir)).isNone then none
    else some (r + dir, if dir > 0 then 0 else eol ls (r + dir))

theorem next_eq (ls : Lines) (dir r o : Int) :
    next ls dir r o = nextCore ls dir (if dir < 0 && r ≥ ls.length then max 0 ((ls.length : Int) - 1) else r) o := rfl

theorem lnNext_some {ls : Lines} {dir r o o' : Int} (h : lnNext ls dir r o = some o') :
    0 ≤ r ∧ 0 ≤ o' ∧ o' < slenAt ls r ∧ o' = o + dir := by
  unfold lnNext at h
  simp only [] at h
  by_cases hc : (decide (o + dir < 0) || (lineAt ls r).isNone || decide (o + dir ≥ slenAt ls r)) = true
  · rw [if_pos hc] at h; cases h
  · rw [if_neg hc] at h
    cases h
    simp only [Bool.or_eq_true, decide_eq_true_eq, not_or] at hc
    refine ⟨lineAt_isSome_nonneg (by simpa using hc.1.2), by omega, by omega, rfl⟩

theorem nextCore_pos {ls : Lines} {dir r o r' o' : Int} (h : nextCore ls dir r o = some (r', o')) : PosIn ls r' o' := by
  unfold nextCore at h
  cases hl : lnNext ls dir r o with
  | some o1 =>
    rw [hl] at h
    cases h
    obtain ⟨a, b, c, _⟩ := lnNext_some hl
    exact ⟨a, by omega⟩
  | none =>
    rw [hl] at h
    simp only [] at h
    by_cases hc : (lineAt ls (r + dir)).isNone = true
    · rw [if_pos hc] at h; cases h
    · rw [if_neg hc] at h
      cases h
      refine ⟨lineAt_isSome_nonneg (by simpa using hc), ?_⟩
      split
      · exact slenAt_nonneg _ _
      · exact eol_le _ _

/-- `lbuf_next` returns a position inside the buffer, whatever it starts from -/
theorem next_pos {ls : Lines} {dir r o r' o' : Int} (h : next ls dir r o = some (r', o')) : PosIn ls r' o' := by
  rw [next_eq] at h
  exact nextCore_pos h

/-- a property of the value of an option -/
def OptAll {α : Type} (P : α → Prop) : Option α → Prop
  | none => True
  | some x => P x

theorem OptAll.of_eq {α : Type} {P : α → Prop} {o : Option α} (h : OptAll P o) {x : α} (hx : o = some x) : P x := by
  subst hx; exact h

/-- split every `if` / `match` of the goal, unfolding the `let`s in between -/
macro "splits" : tactic => `(tactic| repeat' (first | split | dsimp only))

/-! ### the word motions -/

theorem wordlast_go_pos (ls : Lines) (kind : Nat) (dir : Int) : ∀ (f : Nat) (r o : Int), PosIn ls r o →
    PosIn ls (wordlast.go ls kind dir f r o).2.1 (wordlast.go ls kind dir f r o).2.2 := by
  intro f
  induction f with
  | zero => intro r o h; unfold wordlast.go; exact h
  | succ f ih =>
    intro r o h
    unfold wordlast.go
    splits
    all_goals first | exact h | exact ih _ _ (next_pos (by assumption))

theorem wordlast_go_eq {ls : Lines} {kind : Nat} {dir : Int} {f : Nat} {r o : Int} {b : Bool} {r' o' : Int}
    (he : wordlast.go ls kind dir f r o = (b, r', o')) (h : PosIn ls r o) : PosIn ls r' o' := by
  have := wordlast_go_pos ls kind dir f r o h
  rw [he] at this; exact this

theorem wordlast_pos (ls : Lines) (kind : Nat) (dir r o : Int) (h : PosIn ls r o) :
    PosIn ls (wordlast ls kind dir r o).2.1 (wordlast ls kind dir r o).2.2 := by
  unfold wordlast
  splits
  all_goals first | exact h | exact next_pos (by assumption) | exact wordlast_go_eq (by assumption) h

theorem wordlast_eq {ls : Lines} {kind : Nat} {dir r o : Int} {b : Bool} {r' o' : Int}
    (he : wordlast ls kind dir r o = (b, r', o')) (h : PosIn ls r o) : PosIn ls r' o' := by
  have := wordlast_pos ls kind dir r o h
  rw [he] at this; exact this

theorem wordbeg_go_pos (ls : Lines) (dir : Int) : ∀ (f : Nat) (r o : Int) (nl : Nat), PosIn ls r o →
    PosIn ls (wordbeg.go ls dir f r o nl).2.1 (wordbeg.go ls dir f r o nl).2.2 := by
  intro f
  induction f with
  | zero => intro r o nl h; unfold wordbeg.go; exact h
  | succ f ih =>
    intro r o nl h
    unfold wordbeg.go
    splits
    all_goals first | exact h | exact ih _ _ _ (next_pos (by assumption))

/-- `lbuf_wordbeg` -/
theorem wordbeg_pos (ls : Lines) (big : Bool) (dir r o : Int) (h : PosIn ls r o) :
    PosIn ls (wordbeg ls big dir r o).2.1 (wordbeg ls big dir r o).2.2 := by
  unfold wordbeg
  splits
  all_goals first
    | exact wordlast_eq (by assumption) h
    | exact wordbeg_go_pos ls dir _ _ _ _ (next_pos (by assumption))

theorem wordend_go_pos (ls : Lines) (dir : Int) : ∀ (f : Nat) (r o : Int) (nl : Nat), PosIn ls r o →
    OptAll (fun x => PosIn ls x.2.1 x.2.2) (wordend.go ls dir f r o nl) := by
  intro f
  induction f with
  | zero => intro r o nl h; unfold wordend.go; exact h
  | succ f ih =>
    intro r o nl h
    unfold wordend.go
    splits
    all_goals first
      | exact h
      | trivial
      | exact ih _ _ _ (next_pos (by assumption))
      | exact (show PosIn _ _ _ from next_pos (by assumption))

theorem wordend_pos_pos (ls : Lines) (dir : Int) : ∀ (f : Nat) (r o : Int) (nl : Nat), PosIn ls r o →
    PosIn ls (wordend.pos ls dir f r o nl).1 (wordend.pos ls dir f r o nl).2 := by
  intro f
  induction f with
  | zero => intro r o nl h; unfold wordend.pos; exact h
  | succ f ih =>
    intro r o nl h
    unfold wordend.pos
    splits
    all_goals first | exact h | exact ih _ _ _ (next_pos (by assumption)) | exact next_pos (by assumption)

theorem wordend_pos_eq {ls : Lines} {dir : Int} {f : Nat} {r o : Int} {nl : Nat} {r' o' : Int}
    (he : wordend.pos ls dir f r o nl = (r', o')) (h : PosIn ls r o) : PosIn ls r' o' := by
  have := wordend_pos_pos ls dir f r o nl h
  rw [he] at this; exact this

/-- the first step of `lbuf_wordend` -/
theorem wordend_step1 {ls : Lines} {dir r o r1 o1 : Int} {nl : Nat} (h : PosIn ls r o)
    (hs : (if (!isSpaceAt ls r o) = true then
        match next ls dir r o with
        | none => none
        | some (r', o') => some (r', o', if (decide (dir < 0) && codeAt ls r' o' == 10) = true then 1 else 0)
      else some (r, o, 0)) = some (r1, o1, nl)) : PosIn ls r1 o1 := by
  by_cases hc : (!isSpaceAt ls r o) = true
  · rw [if_pos hc] at hs
    cases hn : next ls dir r o with
    | none => rw [hn] at hs; cases hs
    | some p =>
      obtain ⟨r', o'⟩ := p
      rw [hn] at hs
      cases hs
      exact next_pos hn
  · rw [if_neg hc] at hs
    cases hs; exact h

/-- `lbuf_wordend` -/
theorem wordend_pos (ls : Lines) (big : Bool) (dir r o : Int) (h : PosIn ls r o) :
    PosIn ls (wordend ls big dir r o).2.1 (wordend ls big dir r o).2.2 := by
  unfold wordend
  dsimp only
  split
  · exact h
  · rename_i r1 o1 nl hs
    have h1 : PosIn ls r1 o1 := wordend_step1 h hs
    split
    · rename_i res hg
      exact (wordend_go_pos ls dir _ r1 o1 _ h1).of_eq hg
    · splits
      all_goals exact wordlast_pos ls _ dir _ _ (wordend_pos_pos ls dir _ r1 o1 _ h1)

/-! ### `%`, `{ }` -/

theorem pair_go_pos (ls : Lines) (pchr other : Nat) (dir : Int) : ∀ (f : Nat) (r o dep : Int),
    OptAll (fun x => PosIn ls x.1 x.2) (pair.go ls pchr other dir f r o dep) := by
  intro f
  induction f with
  | zero => intro r o dep; unfold pair.go; trivial
  | succ f ih =>
    intro r o dep
    unfold pair.go
    splits
    all_goals first
      | trivial
      | exact ih _ _ _
      | exact (show PosIn _ _ _ from next_pos (by assumption))

/-- `lbuf_pair` -/
theorem pair_pos (ls : Lines) (r o : Int) (x : Int × Int) (h : pair ls r o = some x) : PosIn ls x.1 x.2 := by
  unfold pair at h
  simp only [] at h
  split at h
  · cases h
  · exact (pair_go_pos ls _ _ _ _ _ _ _).of_eq h

/-- `lbuf_paragraphbeg` -/
theorem paragraphbeg_pos (ls : Lines) (dir r : Int) : PosIn ls (paragraphbeg ls dir r).1 (paragraphbeg ls dir r).2 := by
  unfold paragraphbeg
  exact ⟨by simp only []; omega, slenAt_nonneg _ _⟩

/-! ### `f t F T ; ,` -/

/-- `uc_nextdir` as `lbuf_findchar` uses it -/
def stepd (len : Int) (p d : Int) : Option Int :=
  if d < 0 then (if p ≤ 0 then none else some (p - 1)) else (if p + 1 ≥ len then none else some (p + 1))

theorem stepd_le {len p d q : Int} (hp : p ≤ len) (h : stepd len p d = some q) : q ≤ len := by
  unfold stepd at h
  by_cases hd : d < 0
  · rw [if_pos hd] at h
    by_cases h0 : p ≤ 0
    · rw [if_pos h0] at h; cases h
    · rw [if_neg h0] at h; cases h; omega
  · rw [if_neg hd] at h
    by_cases h0 : p + 1 ≥ len
    · rw [if_pos h0] at h; cases h
    · rw [if_neg h0] at h; cases h; omega

theorem findchar_go_le (ln : Bytes) (dir : Int) (want : Nat) (len : Int) :
    ∀ (f : Nat) (p k : Int), p ≤ len → (findchar.go ln dir want (stepd len) f p k).1 ≤ len := by
  intro f
  induction f with
  | zero => intro p k h; unfold findchar.go; exact h
  | succ f ih =>
    intro p k h
    unfold findchar.go
    splits
    all_goals first | exact h | exact ih _ _ (stepd_le h (by assumption))

/-- `lbuf_findchar`: the offset found is inside the line -/
theorem findchar_le (ls : Lines) (cs : Bytes) (cmd : Nat) (n r o p : Int)
    (h : findchar ls cs cmd n r o = some p) : p ≤ slenAt ls r := by
  unfold findchar at h
  cases hl : lineAt ls r with
  | none => rw [hl] at h; cases h
  | some ln =>
    rw [hl] at h
    simp only [] at h
    have hs : slenAt ls r = ucSlen ln := by unfold slenAt; rw [hl]
    rw [hs]
    change (match findchar.go ln _ _ (stepd (ucSlen ln)) _ _ _ with
      | (p, k) => if (k != 0) = true then none else
        some (if (cmd == 116 || cmd == 84) = true then (stepd (ucSlen ln) p _).getD p else p)) = some p at h
    have hstart : (if o < (ucSlen ln : Int) then o else (ucSlen ln : Int)) ≤ (ucSlen ln : Int) := by split <;> omega
    have hg := findchar_go_le ln (if n < 0 then -(if cmd == 102 || cmd == 116 then 1 else -1) else
      (if cmd == 102 || cmd == 116 then (1 : Int) else -1)) ((ucCode cs).getD 0) (ucSlen ln) (ln.length + 2)
      (if o < (ucSlen ln : Int) then o else (ucSlen ln : Int)) (if n < 0 then -n else n) hstart
    revert h
    generalize findchar.go ln _ _ _ _ _ _ = q at hg ⊢
    obtain ⟨p1, k1⟩ := q
    simp only [] at hg ⊢
    intro h
    by_cases hk : (k1 != 0) = true
    · rw [if_pos hk] at h; cases h
    · rw [if_neg hk] at h
      cases h
      by_cases hc : (cmd == 116 || cmd == 84) = true
      · rw [if_pos hc]
        cases hq : stepd (ucSlen ln) p1 (-(if n < 0 then -(if (cmd == 102 || cmd == 116) = true then (1 : Int) else -1)
            else if (cmd == 102 || cmd == 116) = true then 1 else -1)) with
        | none => exact hg
        | some q => exact stepd_le hg hq
      · rw [if_neg hc]; exact hg

/-! ### `lbuf_indents`, `ren_off`, `uc_off` -/

theorem takeWhile_ascii_le_slen (p : Nat → Bool) (hp : ∀ c, p c = true → 0 < c ∧ c < 128) :
    ∀ ln : Bytes, (ln.takeWhile p).length ≤ ucSlen ln := by
  intro ln
  induction ln with
  | nil => simp
  | cons c r ih =>
    rw [List.takeWhile_cons]
    split
    · rename_i hc
      obtain ⟨h0, h1⟩ := hp c hc
      have hs := Lemmas.C08.slen_chr (c :: r) (by simp; omega)
      rw [Lemmas.C07.ucNext_ascii c r h0 h1] at hs
      simp only [List.drop_succ_cons, List.drop_zero] at hs
      simp only [List.length_cons]
      omega
    · simp

theorem indents_le (ls : Lines) (r : Int) : indents ls r ≤ slenAt ls r := by
  unfold indents slenAt
  cases lineAt ls r with
  | none => simp
  | some ln =>
    simp only []
    have := takeWhile_ascii_le_slen (fun c => c != 10 && ucIsSpace c) (by
      intro c hc
      simp only [Bool.and_eq_true, bne_iff_ne, ne_eq] at hc
      have h2 := hc.2
      unfold ucIsSpace isSpaceB at h2
      simp only [Bool.and_eq_true, decide_eq_true_eq, Bool.or_eq_true, beq_iff_eq] at h2
      omega) ln
    exact_mod_cast this

theorem indents_nonneg (ls : Lines) (r : Int) : 0 ≤ indents ls r := by
  unfold indents
  cases lineAt ls r <;> simp

theorem foldl_range_le (n : Nat) (g : Option Nat → Nat → Option Nat)
    (hg : ∀ o i, (g o i = o) ∨ g o i = some i) : ∀ (m : Nat) (init : Option Nat), m ≤ n →
    (∀ x, init = some x → x < n) → ∀ x, (List.range m).foldl g init = some x → x < n := by
  intro m
  induction m with
  | zero => intro init _ hi x hx; simp at hx; exact hi x hx
  | succ m ih =>
    intro init hm hi x hx
    rw [List.range_succ, List.foldl_append] at hx
    simp only [List.foldl_cons, List.foldl_nil] at hx
    rcases hg ((List.range m).foldl g init) m with h | h
    · rw [h] at hx; exact ih init (by omega) hi x hx
    · rw [h] at hx; cases hx; omega

/-- `ren_off` returns the index of a character of the line (or 0) -/
theorem renOffT_le (pos : List Nat) (n : Nat) (p : Int) : Ren.renOffT pos n p ≤ n := by
  unfold Ren.renOffT
  simp only []
  cases h : (List.range n).foldl (fun (o : Option Nat) i =>
      if (pos.getD i 0 : Int) == Ren.posPrev pos n p true then some i else o) none with
  | none => simp
  | some x =>
    simp only [Option.getD_some]
    have := foldl_range_le n _ (by
        intro o i
        by_cases hc : ((pos.getD i 0 : Int) == Ren.posPrev pos n p true) = true
        · right; rw [if_pos hc]
        · left; rw [if_neg hc]) n none (Nat.le_refl _)
      (by intro x hx; cases hx) x h
    omega

theorem col2off_le (s : VS) (r c : Int) : col2off s r c ≤ slenAt (lines s) r := by
  unfold col2off slenAt lineOf
  cases lineAt (lines s) r with
  | none => exact Int.le_refl _
  | some ln => simp only []; exact_mod_cast renOffT_le _ _ _

theorem nextcol_le (s : VS) (dir r o : Int) (o' : Int) (h : nextcol s dir r o = some o') : o' ≤ slenAt (lines s) r := by
  unfold nextcol lineOf at h
  unfold slenAt
  cases hl : lineAt (lines s) r with
  | none => rw [hl] at h; cases h
  | some ln =>
    rw [hl] at h
    simp only [] at h
    split at h
    · cases h
    · cases h
      show ((Ren.renOffT _ _ _ : Nat) : Int) ≤ ((ucSlen ln : Nat) : Int)
      exact_mod_cast renOffT_le _ _ _

theorem ucOffF_le_slen : ∀ (f : Nat) (s : Bytes) (rem : Nat), s.length ≤ f → ucOffF f s rem ≤ ucSlen s := by
  intro f
  induction f with
  | zero => intro s rem _; simp [ucOffF]
  | succ f ih =>
    intro s rem hf
    unfold ucOffF
    split
    · rename_i hc
      simp only [Bool.and_eq_true, decide_eq_true_eq, bne_iff_ne, ne_eq] at hc
      have h0 := hc.2
      rw [Lemmas.C08.slen_chr s h0]
      have hp := Lemmas.C08.ucNext_pos s h0
      have := ih (s.drop (ucNext s)) (rem - ucNext s) (by simp; omega)
      omega
    · omega

/-- `uc_off(s, n)` counts at most the characters of `s` -/
theorem ucOff_le_slen (s : Bytes) (n : Nat) : ucOff s n ≤ ucSlen s := ucOffF_le_slen _ s n (Nat.le_refl _)

end Neatvi.Lemmas.C05f
