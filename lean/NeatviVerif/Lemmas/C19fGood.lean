import NeatviVerif.Lemmas.C19fFrame
/-!
# C19f helper lemmas: `viPre` keeps the horizontal snapshot; `GoodB bl c` is an invariant of every
function of the vi loop

* `pres_viMotion`, `pres_viPre` (both families): the prefixes and the motion of an iteration leave
  `xcol`, `xcols`, `xleft`, `xtd`, `xquit` alone (`Hz`), and keep `GoodB bl c` — the only assignments
  they make to the fields of `Good` are `vi_arg2 = 0`, `vi_arg1 = vi_prefix()` (C05b) and
  `vi_pcol = vi_cnt() - 1`, where `vi_cnt() ≥ 1` because the counts are within bounds.
* `good_*`: every other function, up to `good_viStep`.
-/
set_option linter.unusedSimpArgs false
set_option linter.unusedVariables false

namespace Neatvi.Lemmas.C19f
open Neatvi Neatvi.Uc Neatvi.Lbuf Neatvi.Ex Neatvi.Mot Neatvi.Vi
open Neatvi.Lemmas.C05b (CountsFit bind_apply)
open Neatvi.Lemmas.C05c (bind_inv)

/-! ### the motion -/

theorem pres_viMotion {P : VS → Prop} (hP : HG P) (row off : Int) : Pres P (viMotion row off) := by
  cases hP with
  | hz v => unfold viMotion; pres_tac
  | good bl c =>
    unfold viMotion
    refine Pres.bind_get (fun s0 hs0 => ?_)
    have hc := (Props.C05b.cntOf_bounded_of_fit s0 hs0.2.2.2.1).1
    repeat' (first
      | ((with_reducible refine Pres.modify (fun s hs => ?_));
          exact ⟨hs.1, hs.2.1, (by show 0 ≤ cntOf s0 - 1; omega), hs.2.2.2⟩)
      | pres_step)
macro_rules | `(tactic| pres_leaf) => `(tactic| with_reducible exact pres_viMotion (by constructor) _ _)

/-! ### the three places that assign a count -/

/-- `vi_arg2 = 0` -/
theorem good_reset_arg2 (bl : Bool) (c : Int) : Pres (GoodB bl c) (Vi.modify fun s => { s with arg2 := 0 }) := by
  refine Pres.modify (fun s hs => ?_)
  exact ⟨hs.1, hs.2.1, hs.2.2.1,
    ⟨hs.2.2.2.1.1, hs.2.2.2.1.2.1, Int.le_refl 0, (by decide : (0 : Int) ≤ 999999999)⟩, hs.2.2.2.2⟩

/-- `vi_arg1 = vi_prefix()` -/
theorem good_assign_arg1 (bl : Bool) (c : Int) {β : Type} {f : Int → M β} (hf : ∀ a, Pres (GoodB bl c) (f a)) :
    Pres (GoodB bl c) (viPrefix >>= fun a => Vi.modify (fun s => { s with arg1 := a }) >>= fun _ => f a) := by
  intro s b s' hs h
  obtain ⟨a, s1, h1, h2⟩ := bind_inv _ _ _ _ _ h
  obtain ⟨u, s2, h3, h4⟩ := bind_inv _ _ _ _ _ h2
  cases h3
  have g1 := pres_viPrefix (HG.good bl c) s a s1 hs h1
  obtain ⟨b0, b1⟩ := Props.C05b.viPrefix_bounded _ _ _ h1
  have g2 : GoodB bl c { s1 with arg1 := a } := ⟨g1.1, g1.2.1, g1.2.2.1, ⟨b0, b1, g1.2.2.2.1.2.2.1, g1.2.2.2.1.2.2.2⟩, g1.2.2.2.2⟩
  exact hf a _ _ _ g2 h4

/-- `vi_arg2 = vi_prefix()` -/
theorem good_assign_arg2 (bl : Bool) (c : Int) {β : Type} {f : Int → M β} (hf : ∀ a, Pres (GoodB bl c) (f a)) :
    Pres (GoodB bl c) (viPrefix >>= fun a => Vi.modify (fun s => { s with arg2 := a }) >>= fun _ => f a) := by
  intro s b s' hs h
  obtain ⟨a, s1, h1, h2⟩ := bind_inv _ _ _ _ _ h
  obtain ⟨u, s2, h3, h4⟩ := bind_inv _ _ _ _ _ h2
  cases h3
  have g1 := pres_viPrefix (HG.good bl c) s a s1 hs h1
  obtain ⟨b0, b1⟩ := Props.C05b.viPrefix_bounded _ _ _ h1
  have g2 : GoodB bl c { s1 with arg2 := a } := ⟨g1.1, g1.2.1, g1.2.2.1, ⟨g1.2.2.2.1.1, g1.2.2.2.1.2.1, b0, b1⟩, g1.2.2.2.2⟩
  exact hf a _ _ _ g2 h4

macro "good_step" : tactic => `(tactic| first
  | with_reducible exact good_reset_arg2 _ _
  | with_reducible refine good_assign_arg1 _ _ (fun _ => ?_)
  | with_reducible refine good_assign_arg2 _ _ (fun _ => ?_)
  | pres_step)

macro "good_tac" : tactic => `(tactic| repeat' good_step)

/-- the start of an iteration of `vi()` -/
theorem pres_viPre {P : VS → Prop} (hP : HG P) : Pres P viPre := by
  cases hP with
  | hz v => unfold viPre; pres_tac
  | good bl c => unfold viPre; good_tac

/-- `viPre` leaves `xcol`, `xcols`, `xleft`, `xtd` and `xquit` alone -/
theorem viPre_hsnap (s : VS) (r : Int × Int × Int) (s' : VS) (h : viPre s = Res.ok r s') : hsnap s' = hsnap s :=
  hz_frame (fun v => pres_viPre (HG.hz v)) s r s' h

/-! ### `GoodB bl c` through the commands (nothing below mentions a field of `Good` except the sticky
column assignments at the end) -/

/-- `lbuf_edit` on the current buffer keeps the saved `left` of every buffer -/
theorem lOk_edit (ed ed' : Ed) (txt : Option Bytes) (b e : Int) (h : ed.edit txt b e = some ed') (hl : LOk ed) :
    LOk ed' := by
  unfold Ed.edit at h
  split at h
  · cases h
  · split at h
    · cases h
    · rename_i lb _
      cases hm : Lbuf.edit lb txt b.toNat e.toNat with
      | none => rw [hm] at h; cases h
      | some lb' =>
        rw [hm] at h
        cases h
        exact lOk_setLb ed lb' hl

theorem good_edEdit (bl : Bool) (c : Int) (txt : Option Bytes) (b e : Int) : Pres (GoodB bl c) (edEdit txt b e) := by
  intro s a s' hs h
  unfold edEdit at h
  split at h
  · rename_i ed he
    cases h
    refine ⟨hs.1, hs.2.1, hs.2.2.1, hs.2.2.2.1, fun hb => ⟨(hs.2.2.2.2 hb).1, ?_⟩⟩
    exact lOk_edit s.ed ed _ _ _ he (hs.2.2.2.2 hb).2
  · cases h
macro_rules | `(tactic| pres_leaf) => `(tactic| with_reducible exact good_edEdit _ _ _ _ _)

/-- the ex commands entered through `:` (and `ZZ`): they work on `VS.ed`; `LOk` is kept if the ex layer
    keeps it -/
theorem good_exCommandV (bl : Bool) (c : Int) (hX : bl = true → ExKeepsLeft) (ln : Bytes) :
    Pres (GoodB bl c) (exCommandV ln) := by
  intro s a s' hs h
  unfold exCommandV at h
  split at h
  · cases h; exact hs
  · simp only [] at h
    split at h
    · cases h
    · rename_i rc ed he
      cases h
      refine ⟨?_, ?_, ?_, ?_, fun hb => ⟨?_, ?_⟩⟩
      · show (match setOf ln with | some (v, val) => _ | none => s).xcols = c
        split
        · split
          · exact hs.1
          · split <;> exact hs.1
        · exact hs.1
      · show 0 ≤ (match setOf ln with | some (v, val) => _ | none => s).xcol
        split
        · split
          · exact hs.2.1
          · split <;> exact hs.2.1
        · exact hs.2.1
      · show 0 ≤ (match setOf ln with | some (v, val) => _ | none => s).pcol
        split
        · split
          · exact hs.2.2.1
          · split <;> exact hs.2.2.1
        · exact hs.2.2.1
      · show CountsFit (match setOf ln with | some (v, val) => _ | none => s)
        split
        · split
          · exact hs.2.2.2.1
          · split <;> exact hs.2.2.2.1
        · exact hs.2.2.2.1
      · show 0 ≤ (match setOf ln with | some (v, val) => _ | none => s).xcols
        split
        · split
          · exact (hs.2.2.2.2 hb).1
          · split <;> exact (hs.2.2.2.2 hb).1
        · exact (hs.2.2.2.2 hb).1
      · refine hX hb _ ed ln _ he ?_
        show LOk (match setOf ln with | some (v, val) => _ | none => s).ed
        split
        · split
          · exact (hs.2.2.2.2 hb).2
          · split <;> exact (hs.2.2.2.2 hb).2
        · exact (hs.2.2.2.2 hb).2
macro_rules | `(tactic| pres_leaf) => `(tactic| with_reducible exact good_exCommandV _ _ (by assumption) _)

theorem good_markSave (bl : Bool) (c : Int) : Pres (GoodB bl c) markSave := by
  unfold markSave
  pres_tac
macro_rules | `(tactic| pres_leaf) => `(tactic| with_reducible exact good_markSave _ _)

theorem good_drawfixTop (bl : Bool) (c : Int) (r : Int) (p : Bool) : Pres (GoodB bl c) (drawfixTop r p) := by
  unfold drawfixTop
  pres_tac
macro_rules | `(tactic| pres_leaf) => `(tactic| with_reducible exact good_drawfixTop _ _ _ _)

theorem good_viNextlineR (bl : Bool) (c : Int) : Pres (GoodB bl c) viNextlineR := by
  unfold viNextlineR
  refine Pres.bind_get (fun s0 _ => ?_)
  refine Pres.withEd (fun s hs => ?_)
  refine ⟨hs.1, hs.2.1, hs.2.2.1, hs.2.2.2.1, fun hb => ⟨(hs.2.2.2.2 hb).1, ?_⟩⟩
  have hl := (hs.2.2.2.2 hb).2
  show LOk (if _ then _ else _)
  split <;> exact hl
macro_rules | `(tactic| pres_leaf) => `(tactic| with_reducible exact good_viNextlineR _ _)

/-- the `*left` update of `led_printparts` keeps `xleft` non-negative -/
theorem ledLeft_nonneg (s : VS) (ai pref main post : Bytes) (left : Int) (hc : 0 ≤ s.xcols) (hl : 0 ≤ left) :
    0 ≤ ledLeft s ai pref main post left := by
  unfold ledLeft
  simp only []
  (repeat' split) <;> omega

/-- `led_line` in any mode: the redraw of insert mode moves `xleft`, which `Good` does not mention -/
theorem good_ledLine (bl : Bool) (c : Int) (pref post ai0 : Bytes) (aiMax : Nat) (im ex : Bool) :
    Pres (GoodB bl c) (ledLine pref post ai0 aiMax im ex) := by
  unfold ledLine
  dsimp only
  apply pres_ledLine_go (HG.good bl c)
  · intro k
    refine Pres.modify (fun s hs => ?_)
    split <;> exact hs
  · intro s a s' hs h
    cases h
    exact hs
  · intro a b d
    split
    · refine Pres.modify (fun s hs => ?_)
      refine ⟨hs.1, hs.2.1, hs.2.2.1, hs.2.2.2.1, fun hb => ⟨(hs.2.2.2.2 hb).1, ?_, (hs.2.2.2.2 hb).2.2⟩⟩
      exact ledLeft_nonneg s _ _ _ _ _ (hs.2.2.2.2 hb).1 (hs.2.2.2.2 hb).2.1
    · exact Pres.pure _
macro_rules | `(tactic| pres_leaf) => `(tactic| with_reducible exact good_ledLine _ _ _ _ _ _ _ _)

theorem good_ledInput_loop (bl : Bool) (c : Int) (xai : Bool) (f : Nat) (sb : Bytes) (pref : Option Bytes) (post ai : Bytes) :
    Pres (GoodB bl c) (ledInput.loop xai f sb pref post ai) := by
  induction f generalizing sb pref post ai with
  | zero => unfold ledInput.loop; exact Pres.pure _
  | succ f ih =>
    unfold ledInput.loop
    repeat' (first | exact ih _ _ _ _ | pres_step)

theorem good_ledInput (bl : Bool) (c : Int) (pref post : Bytes) : Pres (GoodB bl c) (ledInput pref post) := by
  unfold ledInput
  repeat' (first | exact good_ledInput_loop _ _ _ _ _ _ _ _ | pres_step)
macro_rules | `(tactic| pres_leaf) => `(tactic| with_reducible exact good_ledInput _ _ _ _)

theorem good_viInput (bl : Bool) (c : Int) (pref post : Bytes) : Pres (GoodB bl c) (viInput pref post) := by
  unfold viInput
  pres_tac
macro_rules | `(tactic| pres_leaf) => `(tactic| with_reducible exact good_viInput _ _ _ _)

theorem good_viYank (bl : Bool) (c : Int) (r1 o1 r2 o2 : Int) (ln : Bool) : Pres (GoodB bl c) (viYank r1 o1 r2 o2 ln) := by
  unfold viYank
  pres_tac
macro_rules | `(tactic| pres_leaf) => `(tactic| with_reducible exact good_viYank _ _ _ _ _ _ _)

theorem good_viDelete (bl : Bool) (c : Int) (r1 o1 r2 o2 : Int) (ln : Bool) : Pres (GoodB bl c) (viDelete r1 o1 r2 o2 ln) := by
  unfold viDelete
  pres_tac
macro_rules | `(tactic| pres_leaf) => `(tactic| with_reducible exact good_viDelete _ _ _ _ _ _ _)

theorem good_viChange (bl : Bool) (c : Int) (r1 o1 r2 o2 : Int) (ln : Bool) : Pres (GoodB bl c) (viChange r1 o1 r2 o2 ln) := by
  unfold viChange
  pres_tac
macro_rules | `(tactic| pres_leaf) => `(tactic| with_reducible exact good_viChange _ _ _ _ _ _ _)

theorem good_viCase (bl : Bool) (c : Int) (r1 o1 r2 o2 : Int) (ln : Bool) (cmd : Nat) :
    Pres (GoodB bl c) (viCase r1 o1 r2 o2 ln cmd) := by
  unfold viCase
  pres_tac
macro_rules | `(tactic| pres_leaf) => `(tactic| with_reducible exact good_viCase _ _ _ _ _ _ _ _)

theorem good_viShift_go (bl : Bool) (c : Int) (r2 dir : Int) (f : Nat) (i : Int) : Pres (GoodB bl c) (viShift.go r2 dir f i) := by
  induction f generalizing i with
  | zero => unfold viShift.go; exact Pres.pure _
  | succ f ih =>
    unfold viShift.go
    repeat' (first | exact ih _ | pres_step)

theorem good_viShift (bl : Bool) (c : Int) (r1 r2 dir : Int) : Pres (GoodB bl c) (viShift r1 r2 dir) := by
  unfold viShift
  repeat' (first | exact good_viShift_go _ _ _ _ _ _ | pres_step)
macro_rules | `(tactic| pres_leaf) => `(tactic| with_reducible exact good_viShift _ _ _ _ _)

theorem good_vcMotion (bl : Bool) (c : Int) (cmd : Nat) : Pres (GoodB bl c) (vcMotion cmd) := by
  unfold vcMotion
  good_tac
macro_rules | `(tactic| pres_leaf) => `(tactic| with_reducible exact good_vcMotion _ _ _)

theorem good_vcInsert (bl : Bool) (c : Int) (cmd : Nat) : Pres (GoodB bl c) (vcInsert cmd) := by
  unfold vcInsert
  pres_tac
macro_rules | `(tactic| pres_leaf) => `(tactic| with_reducible exact good_vcInsert _ _ _)

theorem good_vcPut (bl : Bool) (c : Int) (cmd : Nat) : Pres (GoodB bl c) (vcPut cmd) := by
  unfold vcPut
  pres_tac
macro_rules | `(tactic| pres_leaf) => `(tactic| with_reducible exact good_vcPut _ _ _)

theorem good_vcJoin (bl : Bool) (c : Int) : Pres (GoodB bl c) vcJoin := by
  unfold vcJoin
  pres_tac
macro_rules | `(tactic| pres_leaf) => `(tactic| with_reducible exact good_vcJoin _ _)

theorem good_vcReplace (bl : Bool) (c : Int) : Pres (GoodB bl c) vcReplace := by
  unfold vcReplace
  pres_tac
macro_rules | `(tactic| pres_leaf) => `(tactic| with_reducible exact good_vcReplace _ _)

theorem good_scrollForward (bl : Bool) (c : Int) (cnt : Int) : Pres (GoodB bl c) (scrollForward cnt) := by
  unfold scrollForward
  pres_tac
macro_rules | `(tactic| pres_leaf) => `(tactic| with_reducible exact good_scrollForward _ _ _)

theorem good_scrollBackward (bl : Bool) (c : Int) (cnt : Int) : Pres (GoodB bl c) (scrollBackward cnt) := by
  unfold scrollBackward
  pres_tac
macro_rules | `(tactic| pres_leaf) => `(tactic| with_reducible exact good_scrollBackward _ _ _)

theorem pres_viWfix {P : VS → Prop} (hP : HG P) : Pres P viWfix := by
  cases hP <;> (unfold viWfix; pres_tac)
macro_rules | `(tactic| pres_leaf) => `(tactic| with_reducible exact pres_viWfix (by constructor))

theorem pres_viWait {P : VS → Prop} (hP : HG P) : Pres P viWait := by
  cases hP <;> (unfold viWait; pres_tac)
macro_rules | `(tactic| pres_leaf) => `(tactic| with_reducible exact pres_viWait (by constructor))

theorem good_vcExecute (bl : Bool) (c : Int) : Pres (GoodB bl c) vcExecute := by
  unfold vcExecute
  pres_tac
macro_rules | `(tactic| pres_leaf) => `(tactic| with_reducible exact good_vcExecute _ _)

theorem good_vcRepeat (bl : Bool) (c : Int) : Pres (GoodB bl c) vcRepeat := by
  unfold vcRepeat
  pres_tac
macro_rules | `(tactic| pres_leaf) => `(tactic| with_reducible exact good_vcRepeat _ _)

/-! ### the sticky column assignments -/

theorem off2col_nonneg (s : VS) (r o : Int) : 0 ≤ off2col s r o := by
  unfold off2col
  split <;> omega

/-- `xcol = vi_off2col(..)`: a column is not negative -/
theorem good_xcol_off2col (bl : Bool) (c : Int) (g : VS → Int × Int) :
    Pres (GoodB bl c) (Vi.modify fun s => { s with xcol := off2col s (g s).1 (g s).2 }) := by
  refine Pres.modify (fun s hs => ?_)
  exact ⟨hs.1, off2col_nonneg _ _ _, hs.2.2.1, hs.2.2.2⟩

/-- `xcol = vi_pcol` -/
theorem good_xcol_pcol (bl : Bool) (c : Int) : Pres (GoodB bl c) (Vi.modify fun s => { s with xcol := s.pcol }) := by
  refine Pres.modify (fun s hs => ?_)
  exact ⟨hs.1, hs.2.2.1, hs.2.2.1, hs.2.2.2⟩

theorem good_motionTail (bl : Bool) (c : Int) (mv nrow noff : Int) : Pres (GoodB bl c) (motionTail mv nrow noff) := by
  unfold motionTail
  repeat' (first
    | with_reducible exact good_xcol_pcol _ _
    | ((with_reducible refine Pres.modify (fun s hs => ?_));
        exact ⟨hs.1, off2col_nonneg _ _ _, hs.2.2.1, hs.2.2.2⟩)
    | pres_step)

/-- the two `xleft` assignments at the end of an iteration -/
theorem good_xleft_right (bl : Bool) (c : Int) (s0 : VS) (hs0 : GoodB bl c s0) (hcond : s0.xcol ≥ s0.ed.xleft + s0.xcols) :
    Pres (GoodB bl c) (Vi.withEd fun ed => { ed with xleft := s0.xcol - s0.xcols / 2 }) := by
  refine Pres.withEd (fun s hs => ?_)
  refine ⟨hs.1, hs.2.1, hs.2.2.1, hs.2.2.2.1, fun hb => ⟨(hs.2.2.2.2 hb).1, ?_, (hs.2.2.2.2 hb).2.2⟩⟩
  have h0 := hs0.2.2.2.2 hb
  have : 0 ≤ s0.ed.xleft := h0.2.1
  show 0 ≤ s0.xcol - s0.xcols / 2
  omega

theorem good_xleft_left (bl : Bool) (c : Int) (x : Int) (s0 : VS) (hs0 : GoodB bl c s0) :
    Pres (GoodB bl c) (Vi.withEd fun ed => { ed with xleft := if x < s0.xcols then 0 else x - s0.xcols / 2 }) := by
  refine Pres.withEd (fun s hs => ?_)
  refine ⟨hs.1, hs.2.1, hs.2.2.1, hs.2.2.2.1, fun hb => ⟨(hs.2.2.2.2 hb).1, ?_, (hs.2.2.2.2 hb).2.2⟩⟩
  have h0 := (hs0.2.2.2.2 hb).1
  show 0 ≤ (if x < s0.xcols then 0 else x - s0.xcols / 2)
  split <;> omega

theorem Pres.ite_cond {α : Type} {P : VS → Prop} {p : Prop} [Decidable p] {a b : M α}
    (ha : p → Pres P a) (hb : ¬ p → Pres P b) : Pres P (if p then a else b) := by
  split
  · exact ha (by assumption)
  · exact hb (by assumption)

theorem good_viPost (bl : Bool) (c : Int) (cont : Option Nat) : Pres (GoodB bl c) (viPost cont) := by
  cases cont with
  | none => exact Pres.pure _
  | some mod =>
    rw [C07.viPost_some]
    refine Pres.bind (pres_viWfix (HG.good bl c)) (fun _ => ?_)
    unfold C07.viPostRest
    refine Pres.bind_get (fun s hs => ?_)
    refine Pres.ite (Pres.pure _) ?_
    have hxc : Pres (GoodB bl c) (if (mod != 0) = true then
        Vi.modify fun s => { s with xcol := off2col s s.ed.xrow s.ed.xoff } else Pure.pure PUnit.unit) := by
      refine Pres.ite ?_ (Pres.pure _)
      refine Pres.modify (fun s hs => ?_)
      exact ⟨hs.1, off2col_nonneg _ _ _, hs.2.2.1, hs.2.2.2⟩
    have hend : Pres (GoodB bl c) (viWait >>= fun _ => lbufModified >>= fun _ => lbufModified) :=
      Pres.bind (pres_viWait (HG.good bl c)) (fun _ =>
        Pres.bind (pres_lbufModified (HG.good bl c)) (fun _ => pres_lbufModified (HG.good bl c)))
    repeat' (first
      | exact hend
      | exact hxc
      | with_reducible exact Pres.pure _
      | ((with_reducible refine Pres.modify (fun s hs => ?_));
          exact ⟨hs.1, off2col_nonneg _ _ _, hs.2.2.1, hs.2.2.2⟩)
      | (with_reducible refine Pres.bind_get (fun s1 hs1 => ?_))
      | (with_reducible refine Pres.ite_cond (fun hcond => ?_) (fun hcond => ?_))
      | (with_reducible refine Pres.bind ?_ (fun _ => ?_))
      | (with_reducible exact good_xleft_right _ _ _ (by assumption) (by assumption))
      | (with_reducible exact good_xleft_left _ _ _ _ (by assumption))
      | dsimp only)

end Neatvi.Lemmas.C19f
