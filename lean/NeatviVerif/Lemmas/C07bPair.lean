import NeatviVerif.Lemmas.C07bSim
import NeatviVerif.Lemmas.C07bPara
/-!
# C07b: `lbuf_pair` (`%`) against `pairOf`
-/
set_option linter.unusedSimpArgs false
set_option linter.unusedVariables false
namespace Neatvi.Lemmas.C07b
open Neatvi Neatvi.Uc Neatvi.Mot Neatvi.Lemmas.C07 Neatvi.Spec.Motion

/-! ### brackets -/
theorem openOf_cases {c p : Nat} {o : Bool} (h : openOf c = some (p, o)) :
    (c = 40 ∧ p = 41 ∧ o = true) ∨ (c = 41 ∧ p = 40 ∧ o = false) ∨ (c = 91 ∧ p = 93 ∧ o = true) ∨
    (c = 93 ∧ p = 91 ∧ o = false) ∨ (c = 123 ∧ p = 125 ∧ o = true) ∨ (c = 125 ∧ p = 123 ∧ o = false) := by
  unfold openOf at h
  by_cases h1 : c = 40
  · subst h1; simp at h; obtain ⟨rfl, rfl⟩ := h; simp
  by_cases h2 : c = 41
  · subst h2; simp at h; obtain ⟨rfl, rfl⟩ := h; simp
  by_cases h3 : c = 91
  · subst h3; simp at h; obtain ⟨rfl, rfl⟩ := h; simp
  by_cases h4 : c = 93
  · subst h4; simp at h; obtain ⟨rfl, rfl⟩ := h; simp
  by_cases h5 : c = 123
  · subst h5; simp at h; obtain ⟨rfl, rfl⟩ := h; simp
  by_cases h6 : c = 125
  · subst h6; simp at h; obtain ⟨rfl, rfl⟩ := h; simp
  simp [h1, h2, h3, h4, h5, h6] at h

theorem contains_openOf (c : Nat) : ([40, 41, 91, 93, 123, 125] : List Nat).contains c = (openOf c).isSome := by
  unfold openOf
  by_cases h1 : c = 40
  · subst h1; decide
  by_cases h2 : c = 41
  · subst h2; decide
  by_cases h3 : c = 91
  · subst h3; decide
  by_cases h4 : c = 93
  · subst h4; decide
  by_cases h5 : c = 123
  · subst h5; decide
  by_cases h6 : c = 125
  · subst h6; decide
  simp [h1, h2, h3, h4, h5, h6]

theorem bracket_facts {c p : Nat} {o : Bool} (h : openOf c = some (p, o)) :
    ([40, 41, 91, 93, 123, 125] : List Nat).getD (List.idxOf c [40, 41, 91, 93, 123, 125] ^^^ 1) 0 = p ∧
    (if (List.idxOf c [40, 41, 91, 93, 123, 125] &&& 1 == 1) = true then (-1 : Int) else 1) = (if o then 1 else -1) ∧
    c ≠ p := by
  rcases openOf_cases h with ⟨rfl, rfl, rfl⟩ | ⟨rfl, rfl, rfl⟩ | ⟨rfl, rfl, rfl⟩ | ⟨rfl, rfl, rfl⟩ | ⟨rfl, rfl, rfl⟩ |
    ⟨rfl, rfl, rfl⟩ <;> decide

/-! ### the scan for a bracket on the line -/
theorem findFrom_hit (n : Nat) (p : Nat → Bool) (r : Nat) (hr : r < n) (hp : p r = true) :
    (List.range n).find? (fun j => decide (j ≥ r) && p j) = some r :=
  range_find_first n r _ hr (by simp [hp]) (fun j hj => by simp; omega)

theorem findFrom_skip (n : Nat) (p : Nat → Bool) (r : Nat) (hp : p r = false) :
    (List.range n).find? (fun j => decide (j ≥ r) && p j) = (List.range n).find? (fun j => decide (j ≥ r + 1) && p j) := by
  apply find_congr'
  intro x _
  by_cases hx : x = r
  · subst hx; simp [hp]
  · have : decide (x ≥ r) = decide (x ≥ r + 1) := by
      rw [decide_eq_decide]; omega
    rw [this]

theorem findFrom_end (n : Nat) (p : Nat → Bool) (r : Nat) (hr : n ≤ r) :
    (List.range n).find? (fun j => decide (j ≥ r) && p j) = none := by
  rw [List.find?_eq_none]
  intro x hx
  simp only [List.mem_range] at hx
  simp; omega

theorem lbufChr_end {b : Buf} (hb : AsciiB b) {rn : Nat} (hr : rn < b.length) :
    lbufChr (lsOf b) (rn : Int) (((rowOf b rn).length + 1 : Nat) : Int) = [] := by
  unfold lbufChr
  rw [lineAt_rep b rn hr]
  simp only []
  rw [chrAt_ascii _ (asciiW_line (rowOf_ascii hb hr)) _ (by omega) (by simp)]
  simp

theorem pfind_spec {b : Buf} (hb : AsciiB b) (rn : Nat) (hr : rn < b.length) :
    ∀ f (o : Nat), o ≤ (rowOf b rn).length + 1 → (rowOf b rn).length + 2 ≤ o + f →
      pair.find (lsOf b) (rn : Int) [40, 41, 91, 93, 123, 125] f (o : Int) =
        (match (List.range (rowOf b rn).length).find?
            (fun j => decide (j ≥ o) && (openOf ((rowOf b rn).getD j 0)).isSome) with
          | some j => some ((j : Int), (rowOf b rn).getD j 0)
          | none => none) := by
  intro f
  induction f with
  | zero => intro o h1 h2; omega
  | succ f ih =>
    intro o h1 h2
    unfold pair.find
    simp only []
    by_cases ho : o < (rowOf b rn).length
    · rw [lbufChr_rep hb hr (by omega), hd_drop_getD, getD_line_lt _ _ ho]
      have hc := rowOf_ascii hb hr _ (List.getElem_mem ho)
      rw [if_neg (by simp; omega), contains_openOf]
      have hg : (rowOf b rn).getD o 0 = (rowOf b rn)[o] := by
        simp [List.getD, List.getElem?_eq_getElem ho]
      by_cases hbr : (openOf (rowOf b rn)[o]).isSome = true
      · rw [if_pos hbr, findFrom_hit _ _ o ho (by rw [hg]; exact hbr)]
        simp only []
        rw [hg]
      · rw [if_neg hbr, findFrom_skip _ _ o (by rw [hg]; simpa using hbr)]
        rw [show ((o : Int) + 1) = ((o + 1 : Nat) : Int) by omega]
        exact ih (o + 1) (by omega) (by omega)
    · rw [findFrom_end _ _ o (by omega)]
      simp only []
      by_cases ho' : o = (rowOf b rn).length
      · subst ho'
        rw [lbufChr_rep hb hr (Nat.le_refl _), hd_drop_getD, getD_line_eq]
        rw [if_neg (by decide), if_neg (by decide)]
        rw [show (((rowOf b rn).length : Int) + 1) = (((rowOf b rn).length + 1 : Nat) : Int) by omega]
        rw [ih _ (by omega) (by omega), findFrom_end _ _ _ (by omega)]
      · have : o = (rowOf b rn).length + 1 := by omega
        subst this
        rw [lbufChr_end hb hr]
        simp

/-! ### the search for the partner, on indices -/
def mstep (pchr other ch : Nat) (dep : Int) : Int :=
  let dep := if ch == other then dep - 1 else dep
  if ch == pchr then dep + 1 else dep

def pgo (c : Nat → Nat) (N : Nat) (pchr other : Nat) (d : Int) : Nat → Nat → Int → Option Nat
  | 0, _, _ => none
  | f + 1, i, dep =>
    match nxt N d i with
    | none => none
    | some j =>
      if mstep pchr other (c j) dep == 0 then some j else pgo c N pchr other d f j (mstep pchr other (c j) dep)

def SimP (b : Buf) (x : Option (Int × Int)) (y : Option Nat) : Prop :=
  match x, y with
  | some (r, o), some j => Rep b r o j
  | none, none => True
  | _, _ => False

theorem pgo_sim {b : Buf} (hb : AsciiB b) (pchr other : Nat) (d : Int) (hd : d = 1 ∨ d = -1) :
    ∀ f {r o : Int} {i : Nat} (dep : Int), Rep b r o i →
      SimP b (pair.go (lsOf b) pchr other d f r o dep) (pgo (cp b) (total b) pchr other d f i dep) := by
  intro f
  induction f with
  | zero => intro r o i dep h; trivial
  | succ f ih =>
    intro r o i dep h
    unfold pair.go pgo
    have hn := next_nxt hb d hd h
    cases hx : nxt (total b) d i with
    | none => rw [hx] at hn; simp only [] at hn; rw [hn]; trivial
    | some j =>
      rw [hx] at hn
      obtain ⟨r', o', e, hr⟩ := hn
      rw [e]
      simp only []
      rw [hd_rep hb hr]
      show SimP b (if (mstep pchr other (cp b j) dep == 0) = true then some (r', o')
          else pair.go (lsOf b) pchr other d f r' o' (mstep pchr other (cp b j) dep))
        (if (mstep pchr other (cp b j) dep == 0) = true then some j
          else pgo (cp b) (total b) pchr other d f j (mstep pchr other (cp b j) dep))
      by_cases hz : (mstep pchr other (cp b j) dep == 0) = true
      · rw [if_pos hz, if_pos hz]; exact hr
      · rw [if_neg hz, if_neg hz]; exact ih _ hr

def rstep (c partner ch : Nat) (d : Nat) : Int :=
  if ch == c then (d : Int) + 1 else if ch == partner then (d : Int) - 1 else d

theorem refgo_cons (c partner : Nat) (f : List (Nat × Nat × Nat)) (k : Nat) (ks : List Nat) (d : Nat) :
    pairOf.go c partner f (k :: ks) d =
      (if rstep c partner (cpAt f k) d == 0 then some k else pairOf.go c partner f ks (rstep c partner (cpAt f k) d).toNat) := rfl

theorem refgo_nil (c partner : Nat) (f : List (Nat × Nat × Nat)) (d : Nat) : pairOf.go c partner f [] d = none := rfl

theorem mstep_rstep (pchr other ch : Nat) (dep : Int) (hne : pchr ≠ other) (hdep : 1 ≤ dep) :
    mstep pchr other ch dep = rstep pchr other ch dep.toNat ∧ 0 ≤ mstep pchr other ch dep := by
  unfold mstep rstep
  simp only []
  have hd : ((dep.toNat : Nat) : Int) = dep := by omega
  rw [hd]
  by_cases h1 : ch = pchr
  · have h2 : ¬ ch = other := fun h => hne (h1.symm.trans h)
    simp [h1, h2, hne]; omega
  · by_cases h2 : ch = other
    · simp [h1, h2]
      have : ¬ other = pchr := fun h => hne h.symm
      simp [this]; omega
    · simp [h1, h2]; omega

theorem pgo_fwd_eq (b : Buf) (pchr other : Nat) (hne : pchr ≠ other) :
    ∀ f i (dep : Int), total b ≤ i + f → 1 ≤ dep →
      pgo (cp b) (total b) pchr other 1 f i dep =
        pairOf.go pchr other (flat b) (List.range' (i + 1) (total b - (i + 1))) dep.toNat := by
  intro f
  induction f with
  | zero =>
    intro i dep h1 h2
    rw [show total b - (i + 1) = 0 by omega]
    rfl
  | succ f ih =>
    intro i dep h1 h2
    unfold pgo
    by_cases hi : i + 1 < total b
    · have hx : nxt (total b) 1 i = some (i + 1) := by unfold nxt; rw [if_pos (by omega), if_pos hi]
      rw [hx]
      simp only []
      rw [show total b - (i + 1) = (total b - (i + 1 + 1)) + 1 by omega, List.range'_succ, refgo_cons, cpAt_flat]
      obtain ⟨e, h0⟩ := mstep_rstep pchr other (cp b (i + 1)) dep hne h2
      rw [← e]
      by_cases hz : (mstep pchr other (cp b (i + 1)) dep == 0) = true
      · rw [if_pos hz, if_pos hz]
      · rw [if_neg hz, if_neg hz]
        have hz' : mstep pchr other (cp b (i + 1)) dep ≠ 0 := by simpa using hz
        exact ih (i + 1) _ (by omega) (by omega)
    · have hx : nxt (total b) 1 i = none := by unfold nxt; rw [if_pos (by omega), if_neg hi]
      rw [hx, show total b - (i + 1) = 0 by omega]
      rfl

theorem pgo_bwd_eq (b : Buf) (pchr other : Nat) (hne : pchr ≠ other) :
    ∀ f i (dep : Int), i ≤ f → 1 ≤ dep →
      pgo (cp b) (total b) pchr other (-1) f i dep =
        pairOf.go pchr other (flat b) (List.range i).reverse dep.toNat := by
  intro f
  induction f with
  | zero =>
    intro i dep h1 h2
    have : i = 0 := by omega
    subst this
    rfl
  | succ f ih =>
    intro i dep h1 h2
    unfold pgo
    cases i with
    | zero =>
      have hx : nxt (total b) (-1) 0 = none := by unfold nxt; rw [if_neg (by omega), if_neg (by omega)]
      rw [hx]
      rfl
    | succ k =>
      have hx : nxt (total b) (-1) (k + 1) = some k := by
        unfold nxt; rw [if_neg (by omega), if_pos (by omega)]; rfl
      rw [hx]
      simp only []
      rw [List.range_succ, List.reverse_append]
      simp only [List.reverse_cons, List.reverse_nil, List.nil_append, List.cons_append]
      rw [refgo_cons, cpAt_flat]
      obtain ⟨e, h0⟩ := mstep_rstep pchr other (cp b k) dep hne h2
      rw [← e]
      by_cases hz : (mstep pchr other (cp b k) dep == 0) = true
      · rw [if_pos hz, if_pos hz]
      · rw [if_neg hz, if_neg hz]
        have hz' : mstep pchr other (cp b k) dep ≠ 0 := by simpa using hz
        exact ih k _ (by omega) (by omega)

theorem filter_gt_range (n i : Nat) :
    (List.range n).filter (fun x => decide (x > i)) = List.range' (i + 1) (n - (i + 1)) := by
  induction n with
  | zero => simp
  | succ n ih =>
    rw [List.range_succ, List.filter_append, ih]
    by_cases h : n > i
    · rw [show n + 1 - (i + 1) = (n - (i + 1)) + 1 by omega, List.range'_1_concat]
      simp [h]; omega
    · rw [show n + 1 - (i + 1) = 0 by omega, show n - (i + 1) = 0 by omega]
      simp [h]

theorem getElem?_rowOf (b : Buf) (rn : Nat) (hr : rn < b.length) : b[rn]? = some (rowOf b rn) := by
  unfold rowOf
  rw [List.getD_eq_getElem?_getD, List.getElem?_eq_getElem hr]
  rfl

/-- **`%` on an ASCII buffer**, from any character of the buffer -/
theorem pair_rep {b : Buf} (hb : AsciiB b) {rn cn : Nat} (hr : rn < b.length) (hc : cn ≤ (rowOf b rn).length) :
    pair (lsOf b) (rn : Int) (cn : Int) =
      (pairOf b ⟨rn, cn⟩).map (fun p => ((p.row : Int), (p.col : Int))) := by
  unfold pair pairOf
  simp only []
  rw [slenAt_rep hb rn hr, getElem?_rowOf b rn hr]
  simp only []
  rw [pfind_spec hb rn hr _ cn (by omega) (by simp; omega)]
  cases hfind : (List.range (rowOf b rn).length).find?
      (fun j => decide (j ≥ cn) && (openOf ((rowOf b rn).getD j 0)).isSome) with
  | none => rfl
  | some j =>
    simp only []
    have hj : j < (rowOf b rn).length := by
      have := List.mem_of_find?_eq_some hfind
      simpa using this
    have hop := List.find?_some hfind
    simp only [Bool.and_eq_true] at hop
    cases hopen : openOf ((rowOf b rn).getD j 0) with
    | none => rw [hopen] at hop; simp at hop
    | some po =>
      obtain ⟨partner, opening⟩ := po
      simp only []
      obtain ⟨f1, f2, f3⟩ := bracket_facts hopen
      rw [f1, f2, indexOf_rep hr (by omega : j ≤ (rowOf b rn).length), foldl_total]
      simp only []
      have hrep : Rep b (rn : Int) (j : Int) (rowStart b rn + j) := ⟨rn, j, rfl, rfl, hr, by omega, rfl⟩
      have hlt := rep_lt hrep
      have hsim := pgo_sim hb ((rowOf b rn).getD j 0) partner (if opening then 1 else -1)
        (by cases opening <;> simp) (total b + 2) 1 hrep
      have heq : pgo (cp b) (total b) ((rowOf b rn).getD j 0) partner (if opening then 1 else -1) (total b + 2)
            (rowStart b rn + j) 1 =
          pairOf.go ((rowOf b rn).getD j 0) partner (flat b)
            (if opening = true then List.filter (fun x => decide (x > rowStart b rn + j)) (List.range (flat b).length)
              else (List.range (rowStart b rn + j)).reverse) 1 := by
        cases opening with
        | true =>
          simp only [if_true]
          rw [flat_length, filter_gt_range]
          exact pgo_fwd_eq b _ _ f3 _ _ 1 (by omega) (by omega)
        | false =>
          simp only [Bool.false_eq_true, if_false]
          exact pgo_bwd_eq b _ _ f3 _ _ 1 (by omega) (by omega)
      rw [← heq]
      generalize pair.go (lsOf b) ((rowOf b rn).getD j 0) partner (if opening then 1 else -1) (total b + 2) rn j 1 = x at hsim ⊢
      generalize pgo (cp b) (total b) ((rowOf b rn).getD j 0) partner (if opening then 1 else -1) (total b + 2)
        (rowStart b rn + j) 1 = y at hsim ⊢
      cases x with
      | none =>
        cases y with
        | none => rfl
        | some k => exact absurd hsim (by simp [SimP])
      | some ro =>
        obtain ⟨r', o'⟩ := ro
        cases y with
        | none => exact absurd hsim (by simp [SimP])
        | some k =>
          obtain ⟨rn', cn', rfl, rfl, a1, a2, rfl⟩ := hsim
          simp only [Option.map_some]
          rw [posAt_rep a1 a2]

end Neatvi.Lemmas.C07b
