import NeatviVerif.Props.C14
import NeatviVerif.Props.C11b
/-!
# C16b, part 1: valid UTF-8 byte strings, byte-level character boundaries, slices, and the
  expansion of a replacement text
-/
namespace Neatvi.Props.C16b
open Neatvi Neatvi.Uc Neatvi.Spec Neatvi.Props.C11b Neatvi.Props.C14

/-- a byte string is valid UTF-8: the encoding of code points U+0001 .. U+10FFFF
    (this is `C11b.StrictLit`, under the name the property uses) -/
def IsU8 (s : Bytes) : Prop := ∃ cs, Valid cs ∧ s = encStr cs

theorem isU8_iff_strictLit (s : Bytes) : IsU8 s ↔ StrictLit s := Iff.rfl

theorem isU8_nil : IsU8 [] := ⟨[], valid_nil, rfl⟩

theorem isU8_encStr {cs : List Nat} (h : Valid cs) : IsU8 (encStr cs) := ⟨cs, h, rfl⟩

theorem isU8_enc {c : Nat} (h : ValidCp c) : IsU8 (enc c) :=
  ⟨[c], valid_cons.mpr ⟨h, valid_nil⟩, by simp⟩

/-- concatenation of valid strings is valid -/
theorem isU8_append {a b : Bytes} (ha : IsU8 a) (hb : IsU8 b) : IsU8 (a ++ b) := by
  obtain ⟨x, hx, rfl⟩ := ha
  obtain ⟨y, hy, rfl⟩ := hb
  exact ⟨x ++ y, valid_append.mpr ⟨hx, hy⟩, (encStr_append x y).symm⟩

theorem isU8_flatMap {α : Type} (l : List α) (f : α → Bytes) (h : ∀ x ∈ l, IsU8 (f x)) :
    IsU8 (l.flatMap f) := by
  induction l with
  | nil => exact isU8_nil
  | cons x l ih =>
    rw [List.flatMap_cons]
    exact isU8_append (h x (by simp)) (ih (fun y hy => h y (by simp [hy])))

/-- a valid string has no NUL byte (it is a C string) and all its bytes are bytes -/
theorem isU8_wf {s : Bytes} (h : IsU8 s) : Bytes.wf s := by
  obtain ⟨cs, hv, rfl⟩ := h
  exact encStr_wf hv

theorem isU8_no_nul {s : Bytes} (h : IsU8 s) : ∀ b ∈ s, b ≠ 0 := by
  intro b hb
  have := (isU8_wf h b hb).1
  omega

/-- left cancellation: what follows a valid prefix of a valid string is valid (UTF-8 is a prefix
    code) -/
theorem isU8_cancel_left {p q : List Nat} {x : Bytes} (hp : Valid p) (hq : Valid q)
    (h : encStr p = encStr q ++ x) : IsU8 x := by
  have ht : (encStr p).take (encStr q).length = encStr q := by
    rw [h, List.take_left' rfl]
  obtain ⟨p1, p2, e1, e2⟩ := prefix_code q p hq hp ht
  rw [e1, encStr_append] at h
  have := List.append_inj h e2
  exact ⟨p2, (valid_append.mp (e1 ▸ hp)).2, this.2.symm⟩

/-! ## character boundaries of a byte string -/

/-- `k` is a character boundary of the byte string `s`: the bytes before and the bytes from `k` on are
    both valid UTF-8.  (For `k ≥ s.length` this says that `s` is valid.) -/
def IsBd (s : Bytes) (k : Nat) : Prop := IsU8 (s.take k) ∧ IsU8 (s.drop k)

theorem IsBd.isU8 {s : Bytes} {k : Nat} (h : IsBd s k) : IsU8 s := by
  rw [← List.take_append_drop k s]
  exact isU8_append h.1 h.2

theorem isBd_zero {s : Bytes} (h : IsU8 s) : IsBd s 0 := ⟨by simpa using isU8_nil, by simpa using h⟩

theorem isBd_of_ge {s : Bytes} {k : Nat} (h : IsU8 s) (hk : s.length ≤ k) : IsBd s k :=
  ⟨by rw [List.take_of_length_le hk]; exact h, by rw [List.drop_eq_nil_of_le hk]; exact isU8_nil⟩

/-- the code-point level notion of `C11b` gives the byte level one … -/
theorem isBd_of_boundary {cs : List Nat} {k : Nat} (hv : Valid cs) (hb : Boundary cs k) :
    IsBd (encStr cs) k := strict_take_drop hv hb

/-- … and conversely (within the string) -/
theorem boundary_of_isBd {cs : List Nat} {k : Nat} (hv : Valid cs) (hk : k ≤ (encStr cs).length)
    (h : IsBd (encStr cs) k) : Boundary cs k := by
  obtain ⟨q, hq, eq⟩ := h.1
  have hlen : (encStr q).length = k := by
    rw [← eq, List.length_take]; omega
  obtain ⟨p1, p2, e1, e2⟩ := prefix_code q cs hq hv (by rw [hlen]; exact eq)
  exact boundary_split.mpr ⟨p1, p2, e1, by omega⟩

theorem isBd_iff_boundary {cs : List Nat} {k : Nat} (hv : Valid cs) (hk : k ≤ (encStr cs).length) :
    IsBd (encStr cs) k ↔ Boundary cs k :=
  ⟨boundary_of_isBd hv hk, isBd_of_boundary hv⟩

/-- **a slice between two boundaries is valid** -/
theorem isU8_slice {s : Bytes} {k k' : Nat} (h1 : IsBd s k) (h2 : IsBd s k') (hle : k ≤ k') :
    IsU8 ((s.drop k).take (k' - k)) := by
  obtain ⟨q, hq, eq⟩ := h1.1
  obtain ⟨p, hp, ep⟩ := h2.1
  have hsplit : s.take k' = s.take k ++ (s.drop k).take (k' - k) := by
    rw [← List.take_add]
    congr 1
    omega
  rw [ep, eq] at hsplit
  exact isU8_cancel_left hp hq hsplit

/-- the same slice, written as `ec_substitute` cuts the matched text -/
theorem isU8_slice' {s : Bytes} {k k' : Nat} (h1 : IsBd s k) (h2 : IsBd s k') (hle : k ≤ k') :
    IsU8 ((s.take k').drop k) := by
  have : (s.take k').drop k = (s.drop k).take (k' - k) := by
    rw [List.drop_take]
  rw [this]
  exact isU8_slice h1 h2 hle

/-- a boundary of the rest after a boundary is a boundary of the whole -/
theorem isBd_drop {s : Bytes} {k j : Nat} (h1 : IsBd s k) (h2 : IsBd (s.drop k) j) : IsBd s (k + j) := by
  refine ⟨?_, ?_⟩
  · rw [List.take_add]
    exact isU8_append h1.1 h2.1
  · rw [← List.drop_drop]
    exact h2.2

/-- **one whole character**: at the start of a valid string, `uc_len` of the first byte is the length
    of the first character (0 at the end): those bytes are valid, what follows is valid, and the
    character is not truncated -/
theorem isU8_head_char {s : Bytes} (h : IsU8 s) :
    ucLen (s.headD 0) ≤ s.length ∧ IsU8 (s.take (ucLen (s.headD 0))) ∧ IsU8 (s.drop (ucLen (s.headD 0))) := by
  obtain ⟨cs, hv, rfl⟩ := h
  cases cs with
  | nil =>
    have : ucLen 0 = 0 := by decide
    simp only [encStr_nil, List.headD_nil, this, List.take_nil, List.drop_nil]
    exact ⟨Nat.le_refl _, isU8_nil, isU8_nil⟩
  | cons c cs =>
    have hc := (valid_cons.mp hv).1
    have hcs := (valid_cons.mp hv).2
    have hhd : (encStr (c :: cs)).headD 0 = Bytes.hd (enc c) := by
      rw [encStr_cons]
      exact C12.hd_enc_append hc _
    rw [hhd, C16.len_enc hc, encStr_cons]
    refine ⟨by simp, ?_, ?_⟩
    · rw [List.take_left' rfl]; exact isU8_enc hc
    · rw [List.drop_left' rfl]; exact isU8_encStr hcs

/-- at a boundary, the next character ends on a boundary -/
theorem isBd_next {s : Bytes} {k : Nat} (h : IsBd s k) : IsBd s (k + ucLen ((s.drop k).headD 0)) := by
  obtain ⟨_, h2, h3⟩ := isU8_head_char h.2
  exact isBd_drop h ⟨h2, h3⟩

/-! ## what valid strings look like at the front (used to refute validity) -/

/-- after an ASCII byte a valid string goes on validly -/
theorem isU8_ascii_cons {a : Nat} {r : Bytes} (h : IsU8 (a :: r)) (ha : a < 128) : IsU8 r := by
  obtain ⟨cs, hv, e⟩ := h
  cases cs with
  | nil => simp at e
  | cons c cs =>
    have hc := (valid_cons.mp hv).1
    obtain ⟨a', t, he, _⟩ := enc_chr hc
    rw [encStr_cons, he, List.cons_append] at e
    obtain ⟨e1, e2⟩ := List.cons.inj e
    subst e1
    obtain ⟨_, ht⟩ := C12.enc_lead_low hc he ha
    subst ht
    exact ⟨cs, (valid_cons.mp hv).2, by simpa using e2⟩

/-- a lead byte is followed by a continuation byte -/
theorem isU8_lead_cont {a : Nat} {r : Bytes} (h : IsU8 (a :: r)) (ha : 192 ≤ a) :
    128 ≤ r.headD 0 ∧ r.headD 0 < 192 := by
  obtain ⟨cs, hv, e⟩ := h
  cases cs with
  | nil => simp at e
  | cons c cs =>
    have hc := (valid_cons.mp hv).1
    rw [encStr_cons] at e
    unfold enc at e
    split at e
    · simp at e; omega
    · split at e
      · simp at e; obtain ⟨_, e2⟩ := e; rw [e2]; simp; omega
      · split at e
        · simp at e; obtain ⟨_, e2⟩ := e; rw [e2]; simp; omega
        · simp at e; obtain ⟨_, e2⟩ := e; rw [e2]; simp; omega

/-- a valid string does not start with a continuation byte -/
theorem isU8_not_cont {a : Nat} {r : Bytes} (h : IsU8 (a :: r)) : ¬ (128 ≤ a ∧ a < 192) := by
  obtain ⟨cs, hv, e⟩ := h
  have := startOk_encStr hv
  rw [← e] at this
  exact this

/-! ## offsets as `regexec` reports them -/

/-- an offset is unset (`-1`) or a character boundary (the byte-level form of `C11b.OffB`) -/
def OffBd (s : Bytes) (x : Int) : Prop := x = -1 ∨ ∃ k : Nat, x = (k : Int) ∧ IsBd s k

theorem offBd_of_offB {cs : List Nat} {x : Int} (hv : Valid cs) (h : OffB cs x) : OffBd (encStr cs) x := by
  rcases h with h | ⟨k, hk, hb⟩
  · exact Or.inl h
  · exact Or.inr ⟨k, hk, isBd_of_boundary hv hb⟩

/-- whatever a boundary offset is, its `toNat` (how `ec_substitute` uses `offs[0]`, `offs[1]`) is a
    boundary: `-1` becomes `0` -/
theorem isBd_toNat {s : Bytes} {x : Int} (hs : IsU8 s) (h : OffBd s x) : IsBd s x.toNat := by
  rcases h with h | ⟨k, hk, hb⟩
  · rw [h]; exact isBd_zero hs
  · rw [hk]; exact hb

/-- **the text of a usable group with both ends on boundaries is valid** -/
theorem grpText_valid {ln : Bytes} {offs : List Int} {d : Nat} (hok : GrpOk ln offs d)
    (h1 : OffBd ln (grpSo offs d)) (h2 : OffBd ln (grpEo offs d)) : IsU8 (grpText ln offs d) := by
  unfold grpText
  rcases hok with he | ⟨h0, hle, _⟩
  · have : (grpEo offs d - grpSo offs d).toNat = 0 := by omega
    rw [this, List.take_zero]
    exact isU8_nil
  · rcases h1 with h1 | ⟨k, hk, hb⟩
    · omega
    · rcases h2 with h2 | ⟨k', hk', hb'⟩
      · omega
      · have e1 : (grpSo offs d).toNat = k := by omega
        have e2 : (grpEo offs d - grpSo offs d).toNat = k' - k := by omega
        rw [e1, e2]
        exact isU8_slice hb hb' (by omega)

/-! ## the expansion of the replacement -/

theorem expandRef_noesc (t r ln : Bytes) (offs : List Int) (ht : ∀ x ∈ t, x ≠ 92) :
    expandRef (t ++ r) ln offs = t ++ expandRef r ln offs := by
  induction t with
  | nil => rfl
  | cons a t ih =>
    rw [List.cons_append, expandRef_other _ _ _ _ (ht a (by simp)), ih (fun x hx => ht x (by simp [hx]))]
    rfl

theorem refs_noesc (t r : Bytes) (ht : ∀ x ∈ t, x ≠ 92) : refs (t ++ r) = refs r := by
  induction t with
  | nil => rfl
  | cons a t ih =>
    rw [List.cons_append, refs_other _ _ (ht a (by simp)), ih (fun x hx => ht x (by simp [hx]))]

theorem chr_tail_noesc {a : Nat} {t : Bytes} (h : Chr a t) : ∀ x ∈ t, x ≠ 92 := by
  intro x hx
  have := h.tl x hx
  omega

theorem isU8_backslash : IsU8 [92] := ⟨[92], by decide, by decide⟩

/-- the expansion of a valid replacement with valid group texts is valid.  A backslash before the lead
    byte of a multi-byte character drops the backslash only: the continuation bytes follow as ordinary
    bytes, so the character stays whole. -/
theorem expandRef_valid_aux (ln : Bytes) (offs : List Int) : ∀ (n : Nat) (rs : List Nat), rs.length ≤ n →
    Valid rs → (∀ d ∈ refs (encStr rs), IsU8 (grpText ln offs d)) →
    IsU8 (expandRef (encStr rs) ln offs) := by
  intro n
  induction n using Nat.strongRecOn with
  | _ n ih =>
    intro rs hn hv hg
    cases rs with
    | nil => exact isU8_nil
    | cons c rs =>
      have hc := (valid_cons.mp hv).1
      have hrs := (valid_cons.mp hv).2
      obtain ⟨a, t, he, hch⟩ := enc_chr hc
      have htn := chr_tail_noesc hch
      simp only [List.length_cons] at hn
      by_cases ha : a = 92
      · -- an escape
        obtain ⟨hca, ht⟩ := C12.enc_lead_low hc he (by omega)
        subst ht
        subst ha
        rw [encStr_cons, he] at hg ⊢
        cases rs with
        | nil => simpa [expandRef] using isU8_backslash
        | cons d rs =>
          have hd := (valid_cons.mp hrs).1
          have hrs' := (valid_cons.mp hrs).2
          obtain ⟨a', t', he', hch'⟩ := enc_chr hd
          have htn' := chr_tail_noesc hch'
          simp only [List.length_cons] at hn
          rw [encStr_cons, he'] at hg ⊢
          simp only [List.cons_append, List.nil_append] at hg ⊢
          by_cases hdg : isDigit a'
          · obtain ⟨_, ht'⟩ := C12.enc_lead_low hd he' (by unfold isDigit at hdg; omega)
            subst ht'
            simp only [List.nil_append] at hg ⊢
            rw [expandRef_group _ _ _ _ hdg]
            rw [refs_group _ _ hdg] at hg
            exact isU8_append (hg _ (by simp))
              (ih (n - 2) (by omega) rs (by omega) hrs' (fun d' hd' => hg d' (by simp [hd'])))
          · rw [expandRef_esc _ _ _ _ hdg, expandRef_noesc _ _ _ _ htn']
            rw [refs_esc _ _ hdg, refs_noesc _ _ htn'] at hg
            have := isU8_append (isU8_enc hd) (ih (n - 2) (by omega) rs (by omega) hrs' hg)
            rw [he'] at this
            simpa using this
      · rw [encStr_cons, he] at hg ⊢
        simp only [List.cons_append] at hg ⊢
        rw [expandRef_other _ _ _ _ ha, expandRef_noesc _ _ _ _ htn]
        rw [refs_other _ _ ha, refs_noesc _ _ htn] at hg
        have := isU8_append (isU8_enc hc) (ih (n - 1) (by omega) rs (by omega) hrs hg)
        rw [he] at this
        simpa using this

/-- **the expansion is valid** when the replacement is valid and every group it refers to has a
    valid text -/
theorem expandRef_valid {rep ln : Bytes} {offs : List Int} (hrep : IsU8 rep)
    (hg : ∀ d ∈ refs rep, IsU8 (grpText ln offs d)) : IsU8 (expandRef rep ln offs) := by
  obtain ⟨rs, hv, rfl⟩ := hrep
  exact expandRef_valid_aux ln offs rs.length rs (Nat.le_refl _) hv hg

end Neatvi.Props.C16b
