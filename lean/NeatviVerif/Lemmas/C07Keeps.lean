import NeatviVerif.Lemmas.C07Frame
/-!
# C07 helper lemmas: every step of the motion part of the vi loop keeps the buffer text

A small tactic (`keeps`) decomposes a monadic term along its binds, `if`s and `match`es and closes
the leaves with the primitive facts of `Lemmas/C07Frame`; the recursive loops go by induction on
their fuel.
-/
set_option linter.unusedSimpArgs false
set_option linter.unusedVariables false

namespace Neatvi.Lemmas.C07
open Neatvi Neatvi.Uc Neatvi.Lbuf Neatvi.Ex Neatvi.Mot Neatvi.Vi

macro "keeps_step" : tactic => `(tactic| first
  | assumption
  | exact Keeps.pure _
  | exact Keeps.get
  | exact Keeps.trap
  | exact keeps_viRead
  | exact keeps_termRead
  | exact keeps_termCmd
  | exact keeps_viBack _
  | exact keeps_unmodelled
  | exact keeps_setMsg _
  | exact keeps_setRow _
  | exact keeps_setOff _
  | exact keeps_setPos _
  | exact keeps_setTop _
  | exact keeps_markSet _ _ _
  | exact keeps_lbufModified
  | ((with_reducible apply Keeps.modify); intro _; rfl)
  | ((with_reducible apply Keeps.withEd); intro _; rfl)
  | with_reducible apply Keeps.bind
  | with_reducible apply Keeps.ite
  | simp only []
  | intro _
  | split)

macro "keeps" : tactic => `(tactic| repeat' keeps_step)

theorem keeps_viYankbuf {cb : Bool} : Keeps cb viYankbuf := by
  unfold viYankbuf
  keeps

theorem keeps_digits {cb : Bool} (f : Nat) (n c : Int) : Keeps cb (viPrefix.digits f n c) := by
  induction f generalizing n c with
  | zero => unfold viPrefix.digits; keeps
  | succ f ih => unfold viPrefix.digits; keeps; all_goals apply ih

theorem keeps_viPrefix {cb : Bool} : Keeps cb viPrefix := by
  unfold viPrefix
  keeps
  apply keeps_digits

theorem keeps_more {cb : Bool} (k : Nat) (acc : Bytes) : Keeps cb (readCharS.more k acc) := by
  induction k generalizing acc with
  | zero => unfold readCharS.more; keeps
  | succ k ih => unfold readCharS.more; keeps; apply ih

theorem keeps_readKey_more {cb : Bool} (k : Nat) : Keeps cb (readKey.more k) := by
  induction k with
  | zero => unfold readKey.more; keeps
  | succ k ih => unfold readKey.more; keeps

/-- `led_readkey()` keeps the text and the cursor, like `termRead` -/
theorem keeps_readKey {cb : Bool} : Keeps cb readKey := by
  unfold readKey
  keeps
  apply keeps_readKey_more

theorem keeps_readCharS {cb : Bool} (c : Int) (kmap : Nat) : Keeps cb (readCharS c kmap) := by
  unfold readCharS
  keeps
  all_goals first | apply keeps_more | apply keeps_readKey

theorem keeps_viChar_go {cb : Bool} (f : Nat) : Keeps cb (viChar.go f) := by
  induction f with
  | zero => unfold viChar.go; keeps
  | succ f ih =>
    unfold viChar.go
    keeps
    apply keeps_readCharS

theorem keeps_viChar {cb : Bool} : Keeps cb viChar := by
  unfold viChar
  apply keeps_viChar_go

theorem keeps_ledLine_go {cb : Bool} (post : Bytes) (aiMax : Nat) (im pe : Bool) (setKmap : Option Nat → M Unit)
    (getKmap : M Nat) (redraw : Bytes → Bytes → Bytes → M Unit)
    (h1 : ∀ k, Keeps cb (setKmap k)) (h2 : Keeps cb getKmap) (h3 : ∀ a b c, Keeps cb (redraw a b c))
    (f : Nat) (sb ai : Bytes) (c1 : Int) :
    Keeps cb (ledLine.go post aiMax im pe setKmap getKmap redraw f sb ai c1) := by
  induction f generalizing sb ai c1 with
  | zero => unfold ledLine.go; keeps
  | succ f ih =>
    unfold ledLine.go
    keeps
    all_goals first | apply ih | apply h1 | apply h3 | apply keeps_readCharS | apply keeps_readKey

theorem keeps_ledLine {cb : Bool} (pref post ai0 : Bytes) (aiMax : Nat) (im ex : Bool) :
    Keeps cb (ledLine pref post ai0 aiMax im ex) := by
  unfold ledLine
  apply keeps_ledLine_go
  · intro k; keeps
  · apply Keeps.of_fun; intro s a s' h; cases h; exact ⟨rfl, rfl⟩
  · intro a b c; keeps

theorem keeps_viPrompt {cb : Bool} (ex : Bool) : Keeps cb (viPrompt ex) := by
  unfold viPrompt
  keeps
  apply keeps_ledLine

theorem kwdSet_bufs (ed : Ed) (k : Option Bytes) (d : Int) : (ed.kwdSet k d).bufs = ed.bufs := rfl
theorem keeps_viSearch {cb : Bool} (cmd : Nat) (cnt r o : Int) : Keeps cb (viSearch cmd cnt r o) := by
  unfold viSearch
  keeps
  all_goals first | apply keeps_viPrompt | skip

theorem keeps_viMotionln {cb : Bool} (row cmd : Int) : Keeps cb (viMotionln row cmd) := by
  unfold viMotionln
  keeps

theorem keeps_viMotion {cb : Bool} (row off : Int) : Keeps cb (viMotion row off) := by
  unfold viMotion
  keeps
  all_goals first | apply keeps_viMotionln | apply keeps_viChar | apply keeps_viSearch | skip

theorem keeps_markSave {cb : Bool} : Keeps cb markSave := by
  unfold markSave
  keeps

theorem keeps_viWait {cb : Bool} : Keeps cb viWait := by
  unfold viWait
  keeps
  all_goals apply keeps_ledLine

theorem keeps_viWfix : Keeps false viWfix := by
  unfold viWfix
  keeps

theorem keeps_viPre {cb : Bool} : Keeps cb viPre := by
  unfold viPre
  keeps
  all_goals first | apply keeps_viYankbuf | apply keeps_viPrefix | apply keeps_viMotion

theorem keeps_motionTail (mv r o : Int) : Keeps false (motionTail mv r o) := by
  unfold motionTail
  keeps
  all_goals apply keeps_markSave

theorem keeps_viPost (k : Option Nat) : Keeps false (viPost k) := by
  unfold viPost
  keeps
  all_goals first | apply keeps_viWfix | apply keeps_viWait

/-- what `viPost (some mod)` does after `vi_wfix()` -/
def viPostRest (mod : Nat) : M Unit := do
  let s ← get
  if s.ed.xquit then pure () else
  if mod != 0 then modify fun s => { s with xcol := off2col s s.ed.xrow s.ed.xoff }
  let s ← get
  let xcol := s.xcol
  if xcol ≥ s.ed.xleft + s.xcols then withEd fun ed => { ed with xleft := xcol - s.xcols / 2 }
  let s ← get
  if xcol < s.ed.xleft then withEd fun ed => { ed with xleft := if xcol < s.xcols then 0 else xcol - s.xcols / 2 }
  viWait
  lbufModified
  lbufModified

theorem viPost_some (mod : Nat) : viPost (some mod) = (viWfix >>= fun _ => viPostRest mod) := rfl
theorem viPost_none : viPost none = pure () := rfl

/-- after `vi_wfix()` the rest of the iteration moves neither the cursor nor the window -/
theorem keeps_viPostRest {cb : Bool} (mod : Nat) : Keeps cb (viPostRest mod) := by
  unfold viPostRest
  keeps
  all_goals apply keeps_viWait

end Neatvi.Lemmas.C07
