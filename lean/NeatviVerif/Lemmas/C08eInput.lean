import NeatviVerif.Lemmas.C08dInsert
/-!
# C08 (insert mode): `led_input` over typed lines that may be empty or start with blanks

The loop of `led_input` one iteration at a time for an arbitrary typed line (`loop_step_nl_gen`,
`loop_step_end_gen`), the text it builds as a recursive function of the typed lines (`loopText`, with the
auto-indent threaded through by `aiNext`), then the loop over the lines (`loop_lines_gen`) and `led_input`
itself (`ledInput_lines_gen`).
-/
set_option linter.unusedSimpArgs false
namespace Neatvi.Lemmas.C08e
open Neatvi Neatvi.Uc Neatvi.Vi Neatvi.Ex Neatvi.Spec Neatvi.Lemmas.C08 Neatvi.Lemmas.C08b Neatvi.Lemmas.C09
open Neatvi.Lemmas.C08d

/-! ### the typed keys -/

/-- a key that types itself: a valid code point that is not a control character other than TAB, not DEL -/
def TKey (c : Nat) : Prop := ValidCp c ∧ (32 ≤ c ∨ c = 9) ∧ c ≠ 127

/-- a typed line: such keys (blanks and tabs anywhere, the line may be empty), within the bound of the
model's loop -/
def TLine (l : List Nat) : Prop := (∀ c ∈ l, TKey c) ∧ l.length < 100000

instance (c : Nat) : Decidable (TKey c) := by unfold TKey ValidCp; exact inferInstance
instance (l : List Nat) : Decidable (TLine l) := by unfold TLine; exact inferInstance

theorem TLine.valid {l : List Nat} (h : TLine l) : ∀ c ∈ l, ValidCp c := fun c hc => (h.1 c hc).1
theorem TLine.no10 {l : List Nat} (h : TLine l) : 10 ∉ l := fun hc => by
  have := h.1 10 hc
  rcases this.2.1 with h | h <;> omega

theorem tline_of_plain {l : List Nat} (h : PlainLine l) : TLine l :=
  ⟨fun c hc => ⟨(h.1 c hc).1, Or.inl (h.1 c hc).2.1, (h.1 c hc).2.2⟩, h.2.2⟩

theorem ledSim_key (pe : Bool) (aiMax f : Nat) (c : Nat) (ks sb ai : Bytes) (hc : TKey c) :
    ledSim pe aiMax (f + 1) (enc c ++ ks) sb ai = ledSim pe aiMax f ks (sb ++ enc c) ai := by
  obtain ⟨hv, h | h, h127⟩ := hc
  · exact ledSim_char pe aiMax f c ks sb ai ⟨hv, h, h127⟩
  · subst h
    exact ledSim_ascii pe aiMax f 9 ks sb ai (Or.inr rfl)

theorem ledSim_keys (pe : Bool) (aiMax : Nat) : ∀ (cs : List Nat) (f : Nat) (ks sb ai : Bytes),
    (∀ c ∈ cs, TKey c) →
    ledSim pe aiMax (f + cs.length) (encStr cs ++ ks) sb ai = ledSim pe aiMax f ks (sb ++ encStr cs) ai := by
  intro cs
  induction cs with
  | nil => intro f ks sb ai _; simp
  | cons c cs ih =>
    intro f ks sb ai h
    rw [encStr_cons, List.append_assoc, List.length_cons, ← Nat.add_assoc,
      ledSim_key pe aiMax _ c _ sb ai (h c (by simp)), ih f ks _ ai (fun d hd => h d (by simp [hd]))]
    rw [List.append_assoc]

/-- `led_line` on a typed line and its ending key -/
theorem ledLine_tline (pref post ai : Bytes) (s : VS) (l : List Nat) (e : Nat) (rest : Bytes)
    (hp : pending s = encStr l ++ e :: rest) (hl : TLine l) (he : e = 10 ∨ e = 27) (hk : s.xkmap = 0) :
    ∃ s1, ledLine pref post ai 127 true false s = Res.ok (encStr l, (e : Int), ai) s1 ∧ pending s1 = rest ∧
      Reads true (encStr l ++ [e]) s s1 := by
  have hs : ledSim pref.isEmpty 127 (0 + 1 + l.length) (encStr l ++ e :: rest) [] ai = some (encStr l, e, ai, rest) := by
    rw [ledSim_keys pref.isEmpty 127 l (0 + 1) (e :: rest) [] ai hl.1, List.nil_append]
    exact ledSim_end pref.isEmpty 127 0 e rest _ ai (by rcases he with h | h; exact Or.inl h; exact Or.inr (Or.inl h))
  have hs' := ledSim_mono _ _ _ _ _ _ _ hs 100000 (by have := hl.2; omega)
  obtain ⟨s', used, h1, h2, h3, h4⟩ := go_sim pref post 127 true false 100000 _ [] ai 0 s _ _ _ _ hs' hp hk
  refine ⟨s', by rw [ledLine_eq]; exact h1, h4, ?_⟩
  have : used = encStr l ++ [e] := by
    have h2' : (encStr l ++ [e]) ++ rest = used ++ rest := by rw [← h2]; simp
    exact (List.append_cancel_right h2').symm
  rw [← this]; exact h3

/-! ### one iteration of the loop of `led_input` -/

/-- the leading blanks (spaces, tabs) of a typed line -/
def lnBlanks (ln : Bytes) : Bytes := ln.takeWhile isBlankC

/-- is there text before the insertion point on this line (`pref && *pref`)? -/
def pneOf (pref : Option Bytes) : Bool := match pref with | some p => !p.isEmpty | none => false

/-- does something other than the newline follow the insertion point? -/
def postNE (post : Bytes) : Bool := !post.isEmpty && post.headD 0 != 10

/-- is the auto-indent written in front of the typed line `ln`?  Not when the line is blank (empty, or
blanks only), nothing precedes it, and (`lastNE`) it is not the last line in front of further text -/
def keepB (pne lastNE : Bool) (ln : Bytes) : Bool := decide ((lnBlanks ln).length < ln.length) || pne || lastNE

/-- the auto-indent of the next line: with `autoindent`, the current one followed by the leading blanks of
the line just typed, as far as 127 bytes allow (unchanged when the line followed a non-empty prefix);
nothing without `autoindent` -/
def aiNext (xai pne : Bool) (ai ln : Bytes) : Bytes :=
  if !xai then [] else if pne then ai else ai ++ (lnBlanks ln).take (127 - ai.length)

theorem take_min_blanks (ln : Bytes) (k : Nat) :
    ln.take (min (ln.takeWhile isBlankC).length k) = (lnBlanks ln).take k := by
  unfold lnBlanks
  rw [Nat.min_comm, ← List.take_take]
  congr 1
  exact (List.prefix_iff_eq_take.mp (List.takeWhile_prefix _)).symm

theorem loop_step_nl_gen (b : Bool) (f : Nat) (sb : Bytes) (pref : Option Bytes) (post ai ln : Bytes) (s s1 : VS)
    (hn : nlCount ln = 0)
    (hL : ledLine (pref.getD []) post ai 127 true false s = Res.ok (ln, ((10 : Nat) : Int), ai) s1) :
    ledInput.loop b (f + 1) sb pref post ai s =
      ledInput.loop b f (sb ++ (if keepB (pneOf pref) false ln then ai else []) ++ pref.getD [] ++ ln ++ [10]) none
        (dropB b post) (aiNext b (pneOf pref) ai ln) (nextlineSt s1) := by
  have hai : ∀ (p : Bool), (if (!b) = true then [] else
      if (!p) = true then ai ++ List.take (min (ln.takeWhile isBlankC).length (127 - ai.length)) ln else ai) =
        aiNext b p ai ln := by
    intro p
    unfold aiNext
    rw [take_min_blanks]
    cases b <;> cases p <;> simp
  have hif : ∀ c : Bool, (if c = true then sb ++ ai else sb) = sb ++ (if c = true then ai else []) := by
    intro c; cases c <;> simp
  cases pref with
  | none =>
    have hL' : ledLine [] post ai 127 true false s = _ := hL
    rw [ledInput.loop]
    simp only [bind_apply, hL', hn, show ((((10 : Nat) : Int)) == 10) = true from rfl,
      show ((((10 : Nat) : Int)) != 10) = false from rfl, if_true,
      Vi.repeatM, viNextlineR_apply, pure_apply, Bool.false_eq_true, if_false, Nat.zero_add, hai, Bool.false_and,
      Bool.or_false, Option.getD_none, pneOf, keepB, lnBlanks, hif, List.append_nil, List.append_assoc]
    rfl
  | some p =>
    have hL' : ledLine p post ai 127 true false s = _ := hL
    rw [ledInput.loop]
    simp only [bind_apply, hL', hn, show ((((10 : Nat) : Int)) == 10) = true from rfl,
      show ((((10 : Nat) : Int)) != 10) = false from rfl, if_true,
      Vi.repeatM, viNextlineR_apply, pure_apply, Bool.false_eq_true, if_false, Nat.zero_add, hai, Bool.false_and,
      Bool.or_false, Option.getD_some, pneOf, keepB, lnBlanks, hif, List.append_nil, List.append_assoc]
    rfl

theorem loop_step_end_gen (b : Bool) (f : Nat) (sb : Bytes) (pref : Option Bytes) (post ai ln : Bytes) (s s1 : VS)
    (hn : nlCount ln = 0)
    (hL : ledLine (pref.getD []) post ai 127 true false s = Res.ok (ln, ((27 : Nat) : Int), ai) s1) :
    ledInput.loop b (f + 1) sb pref post ai s =
      Res.ok (sb ++ (if keepB (pneOf pref) (postNE post) ln then ai else []) ++ pref.getD [] ++ ln ++ post, post) s1 := by
  have hif : ∀ c : Bool, (if c = true then sb ++ ai else sb) = sb ++ (if c = true then ai else []) := by
    intro c; cases c <;> simp
  cases pref with
  | none =>
    have hL' : ledLine [] post ai 127 true false s = _ := hL
    rw [ledInput.loop]
    simp only [bind_apply, hL', hn, show ((((27 : Nat) : Int)) == 10) = false from rfl,
      show ((((27 : Nat) : Int)) != 10) = true from rfl, if_true,
      Vi.repeatM, pure_apply, Bool.false_eq_true, if_false, Nat.add_zero, Bool.true_and,
      Bool.or_false, Option.getD_none, pneOf, keepB, postNE, lnBlanks, hif, List.append_nil, List.nil_append, List.append_assoc]
    rfl
  | some p =>
    have hL' : ledLine p post ai 127 true false s = _ := hL
    rw [ledInput.loop]
    simp only [bind_apply, hL', hn, show ((((27 : Nat) : Int)) == 10) = false from rfl,
      show ((((27 : Nat) : Int)) != 10) = true from rfl, if_true,
      Vi.repeatM, pure_apply, Bool.false_eq_true, if_false, Nat.add_zero, Bool.true_and,
      Bool.or_false, Option.getD_some, pneOf, keepB, postNE, lnBlanks, hif, List.append_nil, List.nil_append, List.append_assoc]
    rfl

/-! ### the loop over the typed lines -/

/-- the text the loop of `led_input` builds from an iteration on: `pref` is what `led_line` shows before the
typed text (`some` on the first line only), `post` the rest of the line, `ai` the auto-indent in force, `ls`
the typed lines that end with a newline, `last` the line ended by ESC.  Each typed line is written after the
auto-indent (unless `keepB` drops it) and the prefix; then the auto-indent is updated (`aiNext`) and the rest
of the line loses its leading blanks (`dropB`, with `autoindent`). -/
def loopText (b : Bool) : Option Bytes → Bytes → Bytes → List Bytes → Bytes → Bytes
  | pref, post, ai, [], last =>
    (if keepB (pneOf pref) (postNE post) last then ai else []) ++ pref.getD [] ++ last ++ post
  | pref, post, ai, l :: ls, last =>
    (if keepB (pneOf pref) false l then ai else []) ++ pref.getD [] ++ l ++ [10] ++
      loopText b none (dropB b post) (aiNext b (pneOf pref) ai l) ls last

theorem loop_lines_gen (b : Bool) (last : List Nat) (rest : Bytes) (hlast : TLine last) :
    ∀ (ls : List (List Nat)) (f : Nat) (sb : Bytes) (pref : Option Bytes) (post ai : Bytes) (s : VS),
      pending s = lineKeys ls last ++ rest → (∀ l ∈ ls, TLine l) → ls.length < f → s.xkmap = 0 →
      ∃ s', ledInput.loop b f sb pref post ai s =
          Res.ok (sb ++ loopText b pref post ai (ls.map encStr) (encStr last),
            if ls = [] then post else dropB b post) s' ∧
        pending s' = rest ∧ Typed (lineKeys ls last) ls.length s s' := by
  intro ls
  induction ls with
  | nil =>
    intro f sb pref post ai s hp _ hf hk
    obtain ⟨f, rfl⟩ : ∃ g, f = g + 1 := ⟨f - 1, by simp at hf; omega⟩
    obtain ⟨s1, h1, h2, h3⟩ := ledLine_tline (pref.getD []) post ai s last 27 rest
      (by rw [hp, lineKeys_nil]; simp) hlast (Or.inr rfl) hk
    refine ⟨s1, ?_, h2, ?_⟩
    · rw [loop_step_end_gen b f sb pref post ai _ s s1 (nlCount_encStr hlast.no10) h1]
      simp only [loopText, List.map_nil, if_true, List.append_assoc]
    · rw [lineKeys_nil]; exact Typed.of_reads h3
  | cons l ls ih =>
    intro f sb pref post ai s hp hls hf hk
    obtain ⟨f, rfl⟩ : ∃ g, f = g + 1 := ⟨f - 1, by simp at hf; omega⟩
    have hl := hls l (by simp)
    obtain ⟨s1, h1, h2, h3⟩ := ledLine_tline (pref.getD []) post ai s l 10 (lineKeys ls last ++ rest)
      (by rw [hp, lineKeys_cons]; simp) hl (Or.inl rfl) hk
    obtain ⟨s', h4, h5, h6⟩ := ih f
      (sb ++ (if keepB (pneOf pref) false (encStr l) then ai else []) ++ pref.getD [] ++ encStr l ++ [10]) none
      (dropB b post) (aiNext b (pneOf pref) ai (encStr l)) (nextlineSt s1)
      (by rw [pending_nextlineSt, h2]) (fun l' hl' => hls l' (by simp [hl'])) (by simp at hf; omega)
      (by rw [xkmap_nextlineSt]; have := h3.kmap false; simpa [hk] using this)
    refine ⟨s', ?_, h5, ?_⟩
    · rw [loop_step_nl_gen b f sb pref post ai _ s s1 (nlCount_encStr hl.no10) h1, h4, dropB_idem]
      simp only [loopText, List.map_cons, List.append_assoc, ite_self, reduceCtorEq, if_false]
    · have := (Typed.nextline h3).trans h6
      rw [lineKeys_cons, List.length_cons, Nat.add_comm]
      exact this

/-- the text `led_input` returns for the typed lines `ls`, `last` (as bytes) -/
def inputTextB (xai : Bool) (pref post : Bytes) (ls : List Bytes) (last : Bytes) : Bytes :=
  loopText xai (some (prefRest pref)) post (aiOf pref) ls last

/-- **`led_input` over typed lines that may be empty or start with blanks** -/
theorem ledInput_lines_gen (pref post : Bytes) (s : VS) (ls : List (List Nat)) (last : List Nat) (rest : Bytes)
    (hp : pending s = lineKeys ls last ++ rest) (hpl : ∀ l ∈ last :: ls, TLine l)
    (hlen : ls.length < 100000) (hk : s.xkmap = 0) :
    ∃ s', ledInput pref post s =
        Res.ok (inputTextB s.xai pref post (ls.map encStr) (encStr last), postOf s ls post) s' ∧
      pending s' = rest ∧ Typed (lineKeys ls last) ls.length s s' := by
  have hunf : ledInput pref post s = ledInput.loop s.xai 100000 [] (some (prefRest pref)) post (aiOf pref) s := rfl
  rw [hunf]
  obtain ⟨s', h1, h2, h3⟩ := loop_lines_gen s.xai last rest (hpl last (by simp)) ls 100000 [] (some (prefRest pref)) post
    (aiOf pref) s hp (fun l hl => hpl l (by simp [hl])) hlen hk
  refine ⟨s', ?_, h2, h3⟩
  rw [h1]
  simp only [List.nil_append, inputTextB, postOf, postAfterNl_eq]

/-! ### the auto-indent as a function of the typed lines -/

/-- the auto-indent in force after the typed lines `ls` (the first of them typed after a prefix that is
non-empty iff `pne`) -/
def aiAfter (xai : Bool) : Bool → Bytes → List Bytes → Bytes
  | _, ai, [] => ai
  | pne, ai, l :: ls => aiAfter xai false (aiNext xai pne ai l) ls

/-- the auto-indents in force when each of the typed lines `ls` is read, and after the last of them -/
def aiSeq (xai : Bool) : Bool → Bytes → List Bytes → List Bytes
  | _, ai, [] => [ai]
  | pne, ai, l :: ls => ai :: aiSeq xai false (aiNext xai pne ai l) ls

theorem aiSeq_length (xai : Bool) : ∀ (ls : List Bytes) (pne : Bool) (ai : Bytes),
    (aiSeq xai pne ai ls).length = ls.length + 1 := by
  intro ls
  induction ls with
  | nil => intro pne ai; rfl
  | cons l ls ih => intro pne ai; simp [aiSeq, ih]

theorem aiSeq_getLast (xai : Bool) : ∀ (ls : List Bytes) (pne : Bool) (ai : Bytes),
    (aiSeq xai pne ai ls).getLast? = some (aiAfter xai pne ai ls) := by
  intro ls
  induction ls with
  | nil => intro pne ai; rfl
  | cons l ls ih =>
    intro pne ai
    have := ih false (aiNext xai pne ai l)
    cases h : aiSeq xai false (aiNext xai pne ai l) ls with
    | nil => rw [h] at this; simp at this
    | cons x xs =>
      rw [h] at this
      simp only [aiSeq, aiAfter, h, List.getLast?_cons_cons]
      exact this

theorem aiSeq_getElem (xai : Bool) : ∀ (ls : List Bytes) (pne : Bool) (ai : Bytes) (k : Nat), k ≤ ls.length →
    (aiSeq xai pne ai ls)[k]? = some (aiAfter xai pne ai (ls.take k)) := by
  intro ls
  induction ls with
  | nil => intro pne ai k hk; simp at hk; subst hk; rfl
  | cons l ls ih =>
    intro pne ai k hk
    cases k with
    | zero => rfl
    | succ k =>
      simp only [aiSeq, List.getElem?_cons_succ, List.take_succ_cons, aiAfter]
      exact ih false _ k (by simpa using hk)

/-- **the 127-byte clamp**: the auto-indent never exceeds 127 bytes -/
theorem aiNext_length (xai pne : Bool) (ai ln : Bytes) (h : ai.length ≤ 127) : (aiNext xai pne ai ln).length ≤ 127 := by
  unfold aiNext
  split
  · simp
  · split
    · exact h
    · rw [List.length_append, List.length_take]; omega

theorem aiOf_length (pref : Bytes) : (aiOf pref).length ≤ 127 := by
  unfold aiOf
  rw [List.length_take]; omega

theorem aiAfter_length (xai : Bool) : ∀ (ls : List Bytes) (pne : Bool) (ai : Bytes), ai.length ≤ 127 →
    (aiAfter xai pne ai ls).length ≤ 127 := by
  intro ls
  induction ls with
  | nil => intro pne ai h; exact h
  | cons l ls ih => intro pne ai h; exact ih false _ (aiNext_length xai pne ai l h)

/-- the auto-indent consists of blanks when it starts so -/
theorem aiNext_blank (xai pne : Bool) (ai ln : Bytes) (h : ∀ c ∈ ai, isBlankC c = true) :
    ∀ c ∈ aiNext xai pne ai ln, isBlankC c = true := by
  unfold aiNext
  split
  · intro c hc; simp at hc
  · split
    · exact h
    · intro c hc
      rcases List.mem_append.mp hc with hc | hc
      · exact h c hc
      · exact blanks_takeWhile ln c (List.mem_of_mem_take hc)

/-- the text of the lines typed after the first newline, with the auto-indents `aiSeq` -/
theorem loopText_none (b : Bool) : ∀ (ls : List Bytes) (post ai last : Bytes),
    loopText b none post ai ls last =
      (List.zipWith (fun a l => (if keepB false false l then a else []) ++ l ++ [10]) (aiSeq b false ai ls) ls).flatten ++
        (if keepB false (postNE (if ls = [] then post else dropB b post)) last then aiAfter b false ai ls else []) ++
        last ++ (if ls = [] then post else dropB b post) := by
  intro ls
  induction ls with
  | nil => intro post ai last; simp [loopText, aiSeq, aiAfter, pneOf]; rfl
  | cons l ls ih =>
    intro post ai last
    rw [loopText, ih]
    simp only [pneOf, Option.getD_none, List.append_nil, aiSeq, List.zipWith_cons_cons, List.flatten_cons, aiAfter,
      dropB_idem, ite_self, reduceCtorEq, if_false, List.append_assoc]
    rfl

/-! ### lines that do not start with a blank: the statement of `Lemmas/C08dInput.lean` -/

theorem keepB_plain (pne lastNE : Bool) (ln : Bytes) (h : PlainLn ln) : keepB pne lastNE ln = true := by
  unfold keepB lnBlanks
  rw [h.tw]
  simp [h.pos]

theorem aiNext_plain (b pne : Bool) (ai ln : Bytes) (h : PlainLn ln) : aiNext b pne ai ln = if b then ai else [] := by
  unfold aiNext lnBlanks
  rw [h.tw]
  cases b <;> cases pne <;> simp

theorem loopText_none_plain (b : Bool) (last : Bytes) (hlast : PlainLn last) : ∀ (ls : List Bytes) (post ai : Bytes),
    (b = false → ai = []) → (∀ l ∈ ls, PlainLn l) →
    loopText b none post ai ls last =
      (ls.map (fun l => ai ++ l ++ [10])).flatten ++ ai ++ last ++ (if ls = [] then post else dropB b post) := by
  intro ls
  induction ls with
  | nil =>
    intro post ai _ _
    simp [loopText, keepB_plain _ _ _ hlast, pneOf]
  | cons l ls ih =>
    intro post ai hai hls
    have haib : (if b = true then ai else []) = ai := by
      cases b
      · rw [hai rfl]; rfl
      · rfl
    rw [loopText, keepB_plain _ _ _ (hls l (by simp)), aiNext_plain _ _ _ _ (hls l (by simp)), haib,
      ih _ _ hai (fun l' hl' => hls l' (by simp [hl']))]
    simp only [if_true, Option.getD_none, List.append_nil, List.map_cons, List.flatten_cons, dropB_idem, ite_self,
      reduceCtorEq, if_false, List.append_assoc]

/-- for lines that do not start with a blank the general text is the one of `ledInput_lines` -/
theorem inputTextB_plain (s : VS) (pref post : Bytes) (ls : List (List Nat)) (last : List Nat)
    (hpl : ∀ l ∈ last :: ls, PlainLine l) :
    inputTextB s.xai pref post (ls.map encStr) (encStr last) =
      pref ++ (ls.map (fun l => encStr l ++ [10] ++ aiAfterNl s pref)).flatten ++ encStr last ++ postOf s ls post := by
  have hlast := (hpl last (by simp)).plainLn
  have hpre := aiOf_append_prefRest pref
  unfold inputTextB
  cases ls with
  | nil =>
    simp only [List.map_nil, loopText, keepB_plain _ _ _ hlast, if_true, Option.getD_some, hpre, List.flatten_nil,
      List.append_nil, postOf]
  | cons l ls =>
    have hl := (hpl l (by simp)).plainLn
    have hai : aiNext s.xai (pneOf (some (prefRest pref))) (aiOf pref) (encStr l) = aiAfterNl s pref :=
      aiNext_plain _ _ _ _ hl
    rw [List.map_cons, loopText, keepB_plain _ _ _ hl, hai,
      loopText_none_plain s.xai _ hlast (ls.map encStr) _ (aiAfterNl s pref)
        (by intro h; unfold aiAfterNl; rw [h]; rfl)
        (by
          intro x hx
          obtain ⟨l', hl', rfl⟩ := List.mem_map.mp hx
          exact (hpl l' (by simp [hl'])).plainLn)]
    have e3 := flatten_ai_shift (aiAfterNl s pref) ls
    simp only [List.map_map, Function.comp_def] at e3 ⊢
    simp only [if_true, Option.getD_some, dropB_idem, ite_self, postOf, reduceCtorEq, if_false, postAfterNl_eq,
      List.map_cons, List.flatten_cons, List.append_assoc]
    rw [← List.append_assoc (aiOf pref), hpre]
    have e4 : ∀ X : Bytes, (ls.map (fun l => aiAfterNl s pref ++ (encStr l ++ [10]))).flatten ++ (aiAfterNl s pref ++ X) =
        aiAfterNl s pref ++ ((ls.map (fun l => encStr l ++ ([10] ++ aiAfterNl s pref))).flatten ++ X) := by
      intro X
      have := congrArg (· ++ X) e3
      simpa only [List.append_assoc] using this
    rw [e4]

end Neatvi.Lemmas.C08e
