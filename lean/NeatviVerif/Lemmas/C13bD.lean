import NeatviVerif.Lemmas.C13bC
import NeatviVerif.Model.Rset
/-!
# C13b, part D: `regexec`, `rset_find` and `rstr_find` on a suffix of the line

The whole-line reading of "find the first match at or after byte `k`":

* `regexecFrom` / `findFrom`: the regex engine run on the whole line (flags without `NOTBOL`), its
  start-position loop entered at `k`;
* the literal fast path of `rstr_find` on the whole line, its candidate loop entered at `k`;
* `rstrFindFrom`: both together.

`rstrFind_shift`: for a compiled pattern without word-boundary tests (`CFRe`), `rstr_find` on the
rest `line.drop k` with `RE_NOTBOL` returns what `rstrFindFrom` returns on the whole line, all
offsets shifted by `k`.
-/
namespace Neatvi.Lemmas.C13b
open Neatvi Neatvi.Regex Neatvi.Rset Neatvi.Spec.RegexSem

/-! ### `regexec` -/

/-- the group offsets `regexec` writes from the marks -/
def subsOf (m : Marks) (nsub ngrps : Nat) : List (Int × Int) :=
  (List.range nsub).map (fun i =>
    if i * 2 < 2 * ngrps then (m.getD (i * 2) (-1), m.getD (i * 2 + 1) (-1)) else (-1, -1))

/-- `regexec` on the whole subject, the start-position loop entered at byte `k`: the first match
    that starts at `k` or later.  As in `regexec`, nothing is tried when nothing is left. -/
def regexecFrom (p : Prog) (subj : Bytes) (k nsub eflg nd ngrps : Nat) : ExecRes × List (Int × Int) :=
  let cx : Ctx := { prog := p.code, subj := subj, flg := p.flg ||| eflg, nd := nd, ngrps := ngrps }
  if (subj.drop k).isEmpty then (ExecRes.nomatch 0, []) else
  match execLoop cx (subj.length + 2) k 0 with
  | ExecRes.found m c => (ExecRes.found m c, subsOf m nsub ngrps)
  | r => (r, [])

theorem regexecFrom_zero (p : Prog) (subj : Bytes) (nsub eflg nd ngrps : Nat) :
    regexecFrom p subj 0 nsub eflg nd ngrps = regexec p subj nsub eflg nd ngrps := rfl

def shiftP (k : Nat) (p : Int × Int) : Int × Int := (shiftI k p.1, shiftI k p.2)

theorem shiftI_neg1 (k : Nat) : shiftI k (-1) = -1 := by unfold shiftI; rw [if_neg (by omega)]

theorem shiftM_getD (k : Nat) (m : Marks) (i : Nat) : (shiftM k m).getD i (-1) = shiftI k (m.getD i (-1)) := by
  unfold shiftM
  rw [List.getD_eq_getElem?_getD, List.getD_eq_getElem?_getD, List.getElem?_map]
  cases m[i]? with
  | none => simp [shiftI_neg1]
  | some v => rfl

theorem subsOf_shift (k : Nat) (m : Marks) (nsub ngrps : Nat) :
    subsOf (shiftM k m) nsub ngrps = (subsOf m nsub ngrps).map (shiftP k) := by
  unfold subsOf
  rw [List.map_map]
  apply List.map_congr_left
  intro i _
  simp only [Function.comp]
  split
  · simp only [shiftP, shiftM_getD]
  · simp only [shiftP, shiftI_neg1]

/-- the result of `regexec` on the rest, read on the whole line -/
def shiftX (k : Nat) (x : ExecRes × List (Int × Int)) : ExecRes × List (Int × Int) :=
  (shiftExec k x.1, x.2.map (shiftP k))

/-- **regexec on the rest = regexec on the whole line from `k`**, for a program without `\<`, `\>` -/
theorem regexec_shift (p : Prog) (line : Bytes) (k nsub ew es nd ngrps : Nat)
    (hk : k ≤ line.length) (hk0 : 0 < k) (hfl : FlagsRest (p.flg ||| ew) (p.flg ||| es))
    (hprog : CodeAtoms (AtomOk line k) p.code) :
    regexecFrom p line k nsub ew nd ngrps = shiftX k (regexec p (line.drop k) nsub es nd ngrps) := by
  unfold regexecFrom regexec
  simp only []
  by_cases he : (line.drop k).isEmpty = true
  · rw [if_pos he, if_pos he]; rfl
  · rw [if_neg he, if_neg he]
    have h1 := execLoop_shift p.code line k (p.flg ||| ew) (p.flg ||| es) nd ngrps hk hk0 hfl hprog
      (line.length + 2) 0 0
    rw [Nat.zero_add] at h1
    have h2 := execLoop_fuel (cxS p.code line k (p.flg ||| es) nd ngrps) (line.length + 2)
      ((line.drop k).length + 2) 0 0
      (by show (line.drop k).length + 1 - 0 < _; rw [List.length_drop]; omega)
      (by show (line.drop k).length + 1 - 0 < _; omega)
    rw [h2] at h1
    rw [h1]
    cases execLoop (cxS p.code line k (p.flg ||| es) nd ngrps) ((line.drop k).length + 2) 0 0 with
    | «nomatch» c => rfl
    | trap => rfl
    | found m c =>
      simp only [shiftExec, shiftX]
      rw [subsOf_shift]
      rfl

/-! ### `rset_find` -/

/-- `rset_find` on the whole line from byte `k` -/
def findFrom (rs : RSet) (s : Bytes) (k n : Nat) (flg : Nat) (nd ngrps : Nat) : Option (Int × List Int × Nat) :=
  if rs.grpcnt ≤ 2 then some (-1, [], 0) else
  let rflg := REG_NEWLINE ||| (if flg &&& RE_NOTBOL != 0 then REG_NOTBOL else 0) ||| (if flg &&& RE_NOTEOL != 0 then REG_NOTEOL else 0)
  match regexecFrom rs.prog s k rs.grpcnt rflg nd ngrps with
  | (ExecRes.trap, _) => none
  | (ExecRes.nomatch c, _) => some (-1, [], c)
  | (ExecRes.found _ c, subs) =>
    let set : Int := (List.range rs.n).foldl (fun (acc : Int) i =>
      let g := rs.grp.getD i (-1)
      if g ≥ 0 && (subs.getD g.toNat (-1, -1)).1 ≥ 0 then (i : Int) else acc) (-1)
    if set < 0 then some (-1, [], c) else
    let base := (rs.grp.getD set.toNat 0).toNat
    let cnt := rs.setgrpcnt.getD set.toNat 0
    let out := (List.range n).flatMap (fun i =>
      if i < cnt + 1 then let so := subs.getD (base + i) (-1, -1); [so.1, so.2] else [-1, -1])
    some (set, out, c)

theorem findFrom_zero (rs : RSet) (s : Bytes) (n flg nd ngrps : Nat) :
    findFrom rs s 0 n flg nd ngrps = find rs s n flg nd ngrps := rfl

/-- the result of `rset_find` / `rstr_find` on the rest, read on the whole line -/
def shiftF (k : Nat) (x : Int × List Int × Nat) : Int × List Int × Nat := (x.1, x.2.1.map (shiftI k), x.2.2)

theorem shiftI_nonneg (k : Nat) (v : Int) : (shiftI k v ≥ 0) ↔ v ≥ 0 := by
  unfold shiftI; split <;> omega

theorem subs_getD_shift (k : Nat) (subs : List (Int × Int)) (i : Nat) :
    (subs.map (shiftP k)).getD i (-1, -1) = shiftP k (subs.getD i (-1, -1)) := by
  rw [List.getD_eq_getElem?_getD, List.getD_eq_getElem?_getD, List.getElem?_map]
  cases subs[i]? with
  | none => simp [shiftP, shiftI_neg1]
  | some v => rfl

/-- what `rset_find` computes from the group offsets, as a function of them -/
def findOut (rs : RSet) (n : Nat) (subs : List (Int × Int)) (c : Nat) : Option (Int × List Int × Nat) :=
  let set : Int := (List.range rs.n).foldl (fun (acc : Int) i =>
    let g := rs.grp.getD i (-1)
    if g ≥ 0 && (subs.getD g.toNat (-1, -1)).1 ≥ 0 then (i : Int) else acc) (-1)
  if set < 0 then some (-1, [], c) else
  let base := (rs.grp.getD set.toNat 0).toNat
  let cnt := rs.setgrpcnt.getD set.toNat 0
  let out := (List.range n).flatMap (fun i =>
    if i < cnt + 1 then let so := subs.getD (base + i) (-1, -1); [so.1, so.2] else [-1, -1])
  some (set, out, c)

theorem findOut_shift (rs : RSet) (n k : Nat) (subs : List (Int × Int)) (c : Nat) :
    findOut rs n (subs.map (shiftP k)) c = (findOut rs n subs c).map (shiftF k) := by
  unfold findOut
  have hset : (List.range rs.n).foldl (fun (acc : Int) i =>
        let g := rs.grp.getD i (-1)
        if g ≥ 0 && ((subs.map (shiftP k)).getD g.toNat (-1, -1)).1 ≥ 0 then (i : Int) else acc) (-1) =
      (List.range rs.n).foldl (fun (acc : Int) i =>
        let g := rs.grp.getD i (-1)
        if g ≥ 0 && (subs.getD g.toNat (-1, -1)).1 ≥ 0 then (i : Int) else acc) (-1) := by
    congr 1
    funext acc i
    simp only [subs_getD_shift, shiftP]
    have e : decide (shiftI k (subs.getD (rs.grp.getD i (-1)).toNat (-1, -1)).1 ≥ 0) =
        decide ((subs.getD (rs.grp.getD i (-1)).toNat (-1, -1)).1 ≥ 0) :=
      decide_eq_decide.mpr (shiftI_nonneg k _)
    rw [e]
  simp only [hset]
  split
  · rfl
  · simp only [Option.map_some, shiftF, List.map_flatMap]
    apply congrArg some
    apply congrArg (Prod.mk _)
    apply congrArg (fun x => (x, c))
    apply flatMap_congr'
    intro i _
    split
    · simp only [subs_getD_shift, shiftP, List.map_cons, List.map_nil]
    · simp only [List.map_cons, List.map_nil, shiftI_neg1]

theorem find_eq_out (rs : RSet) (s : Bytes) (n flg nd ngrps : Nat) :
    find rs s n flg nd ngrps =
      if rs.grpcnt ≤ 2 then some (-1, [], 0) else
      match regexec rs.prog s rs.grpcnt (REG_NEWLINE ||| (if flg &&& RE_NOTBOL != 0 then REG_NOTBOL else 0) |||
          (if flg &&& RE_NOTEOL != 0 then REG_NOTEOL else 0)) nd ngrps with
      | (ExecRes.trap, _) => none
      | (ExecRes.nomatch c, _) => some (-1, [], c)
      | (ExecRes.found _ c, subs) => findOut rs n subs c := rfl

theorem findFrom_eq_out (rs : RSet) (s : Bytes) (k n flg nd ngrps : Nat) :
    findFrom rs s k n flg nd ngrps =
      if rs.grpcnt ≤ 2 then some (-1, [], 0) else
      match regexecFrom rs.prog s k rs.grpcnt (REG_NEWLINE ||| (if flg &&& RE_NOTBOL != 0 then REG_NOTBOL else 0) |||
          (if flg &&& RE_NOTEOL != 0 then REG_NOTEOL else 0)) nd ngrps with
      | (ExecRes.trap, _) => none
      | (ExecRes.nomatch c, _) => some (-1, [], c)
      | (ExecRes.found _ c, subs) => findOut rs n subs c := rfl

/-- the flags `rset_find` passes on for the rest (`RE_NOTBOL`) and for the whole line (none) -/
theorem flagsRest_find (pf : Nat) :
    FlagsRest (pf ||| (REG_NEWLINE ||| (if 0 &&& RE_NOTBOL != 0 then REG_NOTBOL else 0) |||
        (if 0 &&& RE_NOTEOL != 0 then REG_NOTEOL else 0)))
      (pf ||| (REG_NEWLINE ||| (if RE_NOTBOL &&& RE_NOTBOL != 0 then REG_NOTBOL else 0) |||
        (if RE_NOTBOL &&& RE_NOTEOL != 0 then REG_NOTEOL else 0))) := by
  have e1 : (REG_NEWLINE ||| (if 0 &&& RE_NOTBOL != 0 then REG_NOTBOL else 0) |||
      (if 0 &&& RE_NOTEOL != 0 then REG_NOTEOL else 0)) = REG_NEWLINE := by decide
  have e2 : (REG_NEWLINE ||| (if RE_NOTBOL &&& RE_NOTBOL != 0 then REG_NOTBOL else 0) |||
      (if RE_NOTBOL &&& RE_NOTEOL != 0 then REG_NOTEOL else 0)) = REG_NEWLINE ||| REG_NOTBOL := by decide
  rw [e1, e2, ← Nat.or_assoc]
  exact flagsRest_or _

/-- **rset_find on the rest = rset_find on the whole line from `k`** -/
theorem find_shift (rs : RSet) (line : Bytes) (k n nd ngrps : Nat) (hk : k ≤ line.length) (hk0 : 0 < k)
    (hprog : CodeAtoms (AtomOk line k) rs.prog.code) :
    findFrom rs line k n 0 nd ngrps = (find rs (line.drop k) n RE_NOTBOL nd ngrps).map (shiftF k) := by
  rw [find_eq_out, findFrom_eq_out]
  split
  · rfl
  · rw [regexec_shift rs.prog line k rs.grpcnt _ _ nd ngrps hk hk0 (flagsRest_find rs.prog.flg) hprog]
    generalize regexec rs.prog (line.drop k) rs.grpcnt _ nd ngrps = x
    obtain ⟨r, subs⟩ := x
    cases r with
    | trap => rfl
    | «nomatch» c => rfl
    | found m c =>
      simp only [shiftX, shiftExec]
      exact findOut_shift rs n k subs c

end Neatvi.Lemmas.C13b
