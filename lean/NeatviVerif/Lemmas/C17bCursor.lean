import NeatviVerif.Lemmas.C17bSpec
/-! Helper lemmas for C17b: `ren_off` on a character's own column, and the cell computed by the
tail of `ren_cursor`. -/
namespace Neatvi.Lemmas.C17b
open Neatvi Neatvi.Ren

theorem IsLeast.congr {pos : List Nat} {n : Nat} {P Q : Nat → Prop} (h : ∀ x, P x ↔ Q x) {i : Nat}
    (hi : IsLeast pos n P i) : IsLeast pos n Q i :=
  ⟨hi.1, (h _).mp hi.2.1, fun j hj hq => hi.2.2 j hj ((h _).mpr hq)⟩

theorem IsGreatest.congr {pos : List Nat} {n : Nat} {P Q : Nat → Prop} (h : ∀ x, P x ↔ Q x) {i : Nat}
    (hi : IsGreatest pos n P i) : IsGreatest pos n Q i :=
  ⟨hi.1, (h _).mp hi.2.1, fun j hj hq => hi.2.2 j hj ((h _).mpr hq)⟩

theorem NoCol.congr {pos : List Nat} {n : Nat} {P Q : Nat → Prop} (h : ∀ x, P x ↔ Q x)
    (hi : NoCol pos n P) : NoCol pos n Q := fun j hj hq => hi j hj ((h _).mpr hq)

theorem nextP_false_nat (a x : Nat) : NextP (a : Int) false x ↔ a < x := by
  unfold NextP; simp

theorem prevP_false_nat (a x : Nat) : PrevP (a : Int) false x ↔ x < a := by
  unfold PrevP; simp

theorem prevP_true_nat (a x : Nat) : PrevP (a : Int) true x ↔ x ≤ a := by
  unfold PrevP; simp

theorem nextP_neg_one (cur : Bool) (x : Nat) : NextP (-1) cur x ↔ True := by
  unfold NextP; cases cur <;> simp <;> omega

theorem prevP_neg_one (cur : Bool) (x : Nat) : PrevP (-1) cur x ↔ False := by
  unfold PrevP; cases cur <;> simp <;> omega

/-- two characters with the greatest (least) admissible column are the same character -/
theorem IsGreatest.unique {pos : List Nat} {n : Nat} (h : ColTable pos n) {P : Nat → Prop} {i j : Nat}
    (hi : IsGreatest pos n P i) (hj : IsGreatest pos n P j) : i = j :=
  h.inj i j hi.1 hj.1 (Nat.le_antisymm (hj.2.2 i hi.1 hi.2.1) (hi.2.2 j hj.1 hj.2.1))

theorem IsLeast.unique {pos : List Nat} {n : Nat} (h : ColTable pos n) {P : Nat → Prop} {i j : Nat}
    (hi : IsLeast pos n P i) (hj : IsLeast pos n P j) : i = j :=
  h.inj i j hi.1 hj.1 (Nat.le_antisymm (hi.2.2 j hj.1 hj.2.1) (hj.2.2 i hi.1 hi.2.1))

/-- a character is the one at or before its own column -/
theorem isGreatest_self {pos : List Nat} {n : Nat} (i : Nat) (hi : i < n) :
    IsGreatest pos n (PrevP (pos.getD i 0 : Int) true) i :=
  ⟨hi, (prevP_true_nat _ _).mpr (Nat.le_refl _), fun _ _ hP => (prevP_true_nat _ _).mp hP⟩

/-- `ren_off` with distinct columns: the character at or before column `p` -/
theorem renOffT_of_greatest {pos : List Nat} {n : Nat} (h : ColTable pos n) (p : Int) (i : Nat)
    (hi : IsGreatest pos n (PrevP p true) i) : renOffT pos n p = i := by
  rcases renOffT_spec_gen pos n p (by rw [h.len]; omega) with ⟨hg, _⟩ | ⟨hno, _⟩
  · exact IsGreatest.unique h hg hi
  · exact absurd hi.2.1 (hno i hi.1)

theorem renOffT_col {pos : List Nat} {n : Nat} (h : ColTable pos n) (i : Nat) (hi : i < n) :
    renOffT pos n (pos.getD i 0 : Int) = i :=
  renOffT_of_greatest h _ i (isGreatest_self i hi)

theorem renOffT_of_none {pos : List Nat} {n : Nat} (hn : n ≤ pos.length) (p : Int)
    (hno : NoCol pos n (PrevP p true)) : renOffT pos n p = 0 := by
  rcases renOffT_spec_gen pos n p hn with ⟨hg, _⟩ | ⟨_, he⟩
  · exact absurd hg.2.1 (hno _ hg.1)
  · exact he

theorem renOffT_neg_one {pos : List Nat} {n : Nat} (hn : n ≤ pos.length) : renOffT pos n (-1) = 0 :=
  renOffT_of_none hn _ (fun _ _ hP => (prevP_neg_one true _).mp hP)

/-- `c` is the last cell before the next occupied column to the right of character `i`
    (before the end column when no character is displayed further right) -/
def LastCellOf (pos : List Nat) (n : Nat) (i : Nat) (c : Int) : Prop :=
  (∃ j, IsLeast pos n (fun x => pos.getD i 0 < x) j ∧ c + 1 = (pos.getD j 0 : Int)) ∨
  (NoCol pos n (fun x => pos.getD i 0 < x) ∧ c + 1 = (pos.getD n 0 : Int))

/-- the tail of `ren_cursor`: from the column `p2` of the character to show the cursor on -/
def cursorCell (pos : List Nat) (n : Nat) (p2 : Int) : Int :=
  let next := posNext pos n p2 false
  let r := (if next ≥ 0 then next else (pos.getD n 0 : Int)) - 1
  if r ≥ 0 then r else 0

theorem renCursorT_eq (s : Bytes) (pos : List Nat) (n : Nat) (p : Int) :
    renCursorT s pos n p = cursorCell pos n
      (if chrHd s (renOffT pos n (posPrev pos n p true)) == 10
        then posPrev pos n (posPrev pos n p true) false else posPrev pos n p true) := rfl

theorem cursorCell_char {pos : List Nat} {n : Nat} (h : ColTable pos n) (i : Nat) (hi : i < n) :
    (pos.getD i 0 : Int) ≤ cursorCell pos n (pos.getD i 0 : Int) ∧
    LastCellOf pos n i (cursorCell pos n (pos.getD i 0 : Int)) := by
  have hn : n ≤ pos.length := by rw [h.len]; omega
  unfold cursorCell LastCellOf
  rcases posNext_spec pos n (pos.getD i 0 : Int) false hn with ⟨j, hj, he⟩ | ⟨hno, he⟩
  · have hj' := IsLeast.congr (nextP_false_nat _) hj
    have hlt : pos.getD i 0 < pos.getD j 0 := hj'.2.1
    rw [he]
    simp only []
    have e1 : (if (pos.getD j 0 : Int) ≥ 0 then (pos.getD j 0 : Int) else (pos.getD n 0 : Int)) = (pos.getD j 0 : Int) :=
      if_pos (by omega)
    rw [e1, if_pos (by omega)]
    refine ⟨by omega, Or.inl ⟨j, hj', by omega⟩⟩
  · have hno' := NoCol.congr (nextP_false_nat _) hno
    have hlt := h.lt_end i hi
    rw [he]
    simp only []
    have e1 : (if (-1 : Int) ≥ 0 then (-1 : Int) else (pos.getD n 0 : Int)) = (pos.getD n 0 : Int) :=
      if_neg (by decide)
    rw [e1, if_pos (by omega)]
    refine ⟨by omega, Or.inr ⟨hno', by omega⟩⟩

/-- from `-1` (no character at or before): one before the leftmost column, clamped at 0 -/
theorem cursorCell_neg_one {pos : List Nat} {n : Nat} (hn : n ≤ pos.length) (i : Nat)
    (hi : IsLeast pos n (fun _ => True) i) :
    cursorCell pos n (-1) = if pos.getD i 0 = 0 then 0 else (pos.getD i 0 : Int) - 1 := by
  unfold cursorCell
  rw [posNext_of_least pos n (-1) false hn i (IsLeast.congr (fun x => (nextP_neg_one false x).symm) hi)]
  simp only []
  have e1 : (if (pos.getD i 0 : Int) ≥ 0 then (pos.getD i 0 : Int) else (pos.getD n 0 : Int)) = (pos.getD i 0 : Int) :=
    if_pos (by omega)
  rw [e1]
  split <;> split <;> omega

end Neatvi.Lemmas.C17b
