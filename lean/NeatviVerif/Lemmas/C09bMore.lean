import NeatviVerif.Lemmas.C09bMain
/-!
# C09b: composition, the need for the proviso, what `N.` does to the recorded count, the 4 KiB buffers
-/
namespace Neatvi.Lemmas.C09b
open Neatvi Neatvi.Vi Neatvi.Ex Neatvi.Lemmas.C09
open Neatvi.Props.C05c (iterate)

/-! ### composition: every `.` / `@` replaced -/

/-- the run in which, after every iteration, whatever was pushed is moved to the terminal side: every `.`
and `@` is *replaced* by the keys it stands for in the user's input stream -/
def iterateT : Nat → VS → Option VS
  | 0, s => some s
  | n + 1, s => match viStep s with
    | Res.ok _ s' => iterateT n (C09.norm s')
    | _ => none

theorem iterateT_ok (n : Nat) (s s' : VS) (u : Unit) (h : viStep s = Res.ok u s') :
    iterateT (n + 1) s = iterateT n (C09.norm s') := by
  conv => lhs; unfold iterateT
  rw [h]

theorem iterateT_eof (n : Nat) (s : VS) (h : viStep s = Res.eof) : iterateT (n + 1) s = none := by
  conv => lhs; unfold iterateT
  rw [h]

theorem iterateT_trap (n : Nat) (s : VS) (h : viStep s = Res.trap) : iterateT (n + 1) s = none := by
  conv => lhs; unfold iterateT
  rw [h]

theorem K.norm_right {s t : VS} (h : K s t) : K s (C09.norm t) :=
  ⟨h.keq.trans (keyEq_norm t), h.wfs, Nat.le_refl 0, by simp [unread, C09.norm], by simp [C09.norm],
    fun _ => rfl, h.rep, h.icm⟩

/-- **composition**: under the proviso along the run, the run equals (up to `K`) the run in which every
`.` / `@` has been replaced by its keys -/
theorem run_retyped (n : Nat) (s t : VS) (h : K s t) (hok : runOk n s = true) :
    RelO (iterate n s) (iterateT n t) := by
  induction n generalizing s t with
  | zero => exact RelO.some s t h
  | succ n ih =>
    unfold runOk at hok
    simp only [Bool.and_eq_true] at hok
    have hrel := viStep_K s t h (Or.inl hok.1)
    cases hs : viStep s with
    | ok u s' =>
      rw [hs] at hrel
      obtain ⟨t', ht, h'⟩ := relK_ok_inv hrel
      rw [Props.C05c.iterate_succ n s s' u hs, iterateT_ok n t t' u ht]
      refine ih s' (C09.norm t') h'.norm_right ?_
      have := hok.2
      rw [hs] at this
      exact this
    | eof =>
      rw [hs] at hrel
      rw [iterate_eof n s hs, iterateT_eof n t (relK_eof_inv hrel)]
      exact RelO.none
    | trap =>
      rw [hs] at hrel
      rw [iterate_trap n s hs, iterateT_trap n t (relK_trap_inv hrel)]
      exact RelO.none

/-- in the replaced run nothing is ever pushed and unread at the start of an iteration -/
theorem iterateT_drained (n : Nat) (s s' : VS) (h0 : s.ibuf = [] ∧ s.ibufPos = 0)
    (h : iterateT n s = some s') : s'.ibuf = [] ∧ s'.ibufPos = 0 := by
  induction n generalizing s with
  | zero =>
    unfold iterateT at h
    cases h
    exact h0
  | succ n ih =>
    cases hs : viStep s with
    | ok u s1 =>
      rw [iterateT_ok n s s1 u hs] at h
      exact ih _ ⟨rfl, rfl⟩ h
    | eof => rw [iterateT_eof n s hs] at h; cases h
    | trap => rw [iterateT_trap n s hs] at h; cases h

/-! ### the proviso is needed -/

/-- the state in which the macro `. j` has been pushed (by `@r`, say) and `x` is the recorded change -/
def exMacro (ed : Ed) : VS := { ed := ed, repCmd := [120], ibuf := [46, 106] }

theorem inv_exMacro (ed : Ed) : Inv (exMacro ed) :=
  ⟨Nat.zero_le _, by simp [exMacro], by simp [exMacro]⟩

/-- **the proviso is needed**: with `. j` pushed and `x` recorded, the iteration that executes `.` violates
the proviso, and it leaves the keys `j x` pending, whereas the same iteration with `. j` typed at the
terminal leaves `x j`: the recorded change runs after the rest of the macro -/
theorem proviso_needed (ed : Ed) (hout : nlCount ed.out ≤ 1) :
    stepOk (exMacro ed) = false ∧
    ∃ s' t', iterate 1 (exMacro ed) = some s' ∧ iterate 1 (C09.norm (exMacro ed)) = some t' ∧
      pending s' = [106, 120] ∧ pending t' = [120, 106] ∧ ¬ KeyEq s' t' := by
  obtain ⟨ib, ip, ty, hpre, -, -, h4, -⟩ := viPre_cmdkey (exMacro ed) 46 (Or.inl rfl) [106] rfl
    (by simp [pending, exMacro])
  obtain ⟨e1, e2, e3⟩ := h4 (by simp [exMacro])
  rw [e1, e2, e3] at hpre
  refine ⟨?_, ?_⟩
  · unfold stepOk
    rw [hpre]
    simp [viRead, pushOk, exMacro]
  · obtain ⟨ed', hstep, -⟩ := dot_step (exMacro ed) _
      { exMacro ed with ibuf := [46, 106], ibufPos := 1, typed := [], icmd := [46], vibuf := [], arg1 := 0, arg2 := 0, ybuf := 0 }
      _ _ hpre rfl hout (by simp [cnt1, exMacro, max10])
    obtain ⟨t', g1, -, g3, -, -, -⟩ := dot_run (C09.norm (exMacro ed)) [106]
      (K.norm (inv_exMacro ed)).inv_right rfl (Nat.le_refl 0) (by simp [C09.norm, pending, exMacro]) hout
    have hg3 : pending t' = [120, 106] := g3
    obtain ⟨s', hs', hps⟩ : ∃ s', viStep (exMacro ed) = Res.ok () s' ∧ pending s' = [106, 120] :=
      ⟨_, hstep, by simp [pending, cnt1, max10, exMacro]⟩
    refine ⟨s', t', ?_, ?_, hps, hg3, ?_⟩
    · rw [Props.C05c.iterate_succ 0 (exMacro ed) s' () hs']; rfl
    · rw [Props.C05c.iterate_succ 0 _ t' () g1]; rfl
    · intro hk
      have := hk.pending
      rw [hps, hg3] at this
      simp at this

/-! ### `N.` keeps the recorded count -/

/-- the state after `2x`, with `3.` typed next -/
def exCount (ed : Ed) (rest : Bytes) : VS := { ed := ed, repCmd := [50, 120], typed := 51 :: 46 :: rest }

theorem inv_exCount (ed : Ed) (rest : Bytes) : Inv (exCount ed rest) :=
  ⟨Nat.zero_le _, by simp [exCount], by simp [exCount]⟩

/-- **`3.` after `2x` is `2x2x2x`** (six characters are deleted; in vi `3.` would be `3x`) -/
theorem count_dot_keeps_recorded_count (ed : Ed) (rest : Bytes) (hout : nlCount ed.out ≤ 1) :
    ∃ s', viStep (exCount ed rest) = Res.ok () s' ∧ pending s' = [50, 120, 50, 120, 50, 120] ++ rest := by
  obtain ⟨s', h1, -, h3, -⟩ := count_dot_run (exCount ed rest) 51 rest (inv_exCount ed rest) rfl
    (Nat.le_refl 0) (by decide) (by decide) rfl hout (by simp [exCount])
  refine ⟨s', h1, ?_⟩
  rw [h3]
  simp [exCount, List.replicate]

/-- the conjecture "the count of `N.` replaces the recorded count" is false for neatvi -/
theorem count_replaces_recorded_count_is_false :
    ¬ (∀ (s : VS) (rest : Bytes), Inv s → s.vibuf = [] → s.ibuf.length ≤ s.ibufPos →
        s.typed = 51 :: 46 :: rest → s.repCmd = [50, 120] → nlCount s.ed.out ≤ 1 →
        ∀ s', viStep s = Res.ok () s' → pending s' = [51, 120] ++ rest) := by
  intro h
  have hout : nlCount ({} : Ed).out ≤ 1 := by show nlCount [] ≤ 1; decide
  obtain ⟨s', h1, h2⟩ := count_dot_keeps_recorded_count {} [] hout
  have := h (exCount {} []) [] (inv_exCount _ _) rfl (Nat.le_refl 0) rfl rfl hout s' h1
  rw [h2] at this
  simp at this

/-! ### the iteration that executes `.` is more than a substitution of keys -/

/-- the strict form of "`.` equals retyping" — the state after the iteration that executes `.` is the
state before it with the recorded keys in place of the `.` — is false whenever there is a buffer: the
iteration bumps the sequence number of the buffer twice (`lbuf_modified()` at the end of the loop body). -/
theorem dot_iteration_not_pure_substitution (s : VS) (rest : Bytes) (hinv : Inv s) (hv : s.vibuf = [])
    (hd : s.ibuf.length ≤ s.ibufPos) (ht : s.typed = 46 :: rest) (hout : nlCount s.ed.out ≤ 1)
    (hlb : s.ed.lb.isSome = true) (hq : s.ed.xquit = false) :
    ∃ s', viStep s = Res.ok () s' ∧ ¬ KeyEq s' (retype s (s.repCmd ++ rest)) ∧
      s'.ed.lb.map (·.useq) = (s.ed.lb.map (·.useq)).map (· + 2) := by
  obtain ⟨s', h1, -, -, -, h5, -⟩ := dot_run s rest hinv hv hd ht hout
  refine ⟨s', h1, ?_, h5.useq hq⟩
  intro hk
  have he : s'.ed = (retype s (s.repCmd ++ rest)).ed := keyEq_ed hk
  have he : s'.ed = s.ed := he
  have hu := h5.useq hq
  rw [he] at hu
  cases hl : s.ed.lb with
  | none => rw [hl] at hlb; cases hlb
  | some lb =>
    rw [hl] at hu
    simp at hu

/-- the hypotheses of `dot_iteration_not_pure_substitution` are satisfiable -/
def exBuf : Ed := { bufs := [some { path := [], lb := { lines := [[97, 10]] } }] }

theorem exBuf_lb : exBuf.lb.isSome = true := by decide

/-! ### the 4 KiB buffers -/

theorem inv_viInit (ed : Ed) (keys : Bytes) (rows cols : Int) : Inv (viInit ed keys rows cols) :=
  ⟨Nat.le_refl 0, by simp [viInit], by simp [viInit]⟩

/-- **in every state the editor reaches, `ibuf_pos ≤ ibuf_cnt`, the recorded change is shorter than its
4096-byte buffer (with its terminator), and at most 4096 keys are remembered since the last `term_cmd()`** -/
theorem reachable_inv (ed : Ed) (keys : Bytes) (rows cols : Int) (n : Nat) (s : VS)
    (h : iterate n (viInit ed keys rows cols) = some s) : Inv s :=
  run_inv n _ s (inv_viInit ed keys rows cols) h

/-- a command of 4095 keys or more is **not recorded at all**: `rep_cmd` and register `.` keep the change
recorded before (`.` then repeats that older change) -/
theorem finRec_long (c k : Int) (mod : Nat) (s : VS) (h : 4096 ≤ s.icmd.length + 1) :
    finRec c k mod s = Res.ok (some mod) { s with icmd := [] } := by
  rw [finRec_eq]
  have : decide (s.icmd.length + 1 < 4096) = false := by simp; omega
  simp [this]

/-- reading keys beyond the 4096 that `icmd` holds: the rest is not remembered -/
theorem readKeys_sat (ks rest : Bytes) (s : VS) (hp : pending s = ks ++ rest) (hl : s.icmd.length ≤ 4096) :
    ∃ ib ip ty, readKeys ks.length s = Res.ok (ks.map Int.ofNat)
        { s with ibuf := ib, ibufPos := ip, typed := ty, icmd := (s.icmd ++ ks).take 4096 } ∧
      ib.drop ip ++ ty = rest := by
  induction ks generalizing s with
  | nil =>
    refine ⟨s.ibuf, s.ibufPos, s.typed, ?_, by simpa [pending] using hp⟩
    have : (s.icmd ++ []).take 4096 = s.icmd := by
      rw [List.append_nil]; exact List.take_of_length_le hl
    simp only [List.length_nil, readKeys, pure_apply, List.map_nil, this]
  | cons k ks ih =>
    obtain ⟨ib, ip, ty, h1, h2, -⟩ := termRead_ok s k (ks ++ rest) hp
    have hl' : (icmdAfter s.icmd k).length ≤ 4096 := by
      unfold icmdAfter; split
      · simp only [List.length_append, List.length_singleton]; omega
      · exact hl
    obtain ⟨ib', ip', ty', e1, e2⟩ := ih { s with ibuf := ib, ibufPos := ip, typed := ty, icmd := icmdAfter s.icmd k }
      h2 hl'
    refine ⟨ib', ip', ty', ?_, e2⟩
    have hic : (icmdAfter s.icmd k ++ ks).take 4096 = (s.icmd ++ k :: ks).take 4096 := by
      unfold icmdAfter
      split
      · simp
      · have : s.icmd.length = 4096 := by omega
        rw [List.take_append_of_le_length (by omega), List.take_append_of_le_length (by omega)]
    simp only [List.length_cons, readKeys, bind_apply, h1, e1, pure_apply, List.map_cons, hic]
    rfl

/-- **a command of 4095 keys or more leaves the recorded change alone** -/
theorem recordRun_long (c k : Int) (mod : Nat) (ks rest : Bytes) (s : VS) (hp : pending s = ks ++ rest)
    (hl : 4096 ≤ ks.length + 1) :
    ∃ s', recordRun c k mod ks.length s = Res.ok (some mod) s' ∧
      s'.repCmd = s.repCmd ∧ s'.ed = s.ed ∧ s'.icmd = [] ∧ pending s' = rest := by
  obtain ⟨ib, ip, ty, e1, e2⟩ := readKeys_sat ks rest { s with icmd := [] } hp (by simp)
  simp only [List.nil_append] at e1
  have hlen : 4096 ≤ (ks.take 4096).length + 1 := by
    rw [List.length_take]; omega
  refine ⟨{ s with ibuf := ib, ibufPos := ip, typed := ty, icmd := [] }, ?_, rfl, rfl, rfl, e2⟩
  simp only [recordRun, bind_apply, termCmd_eq, e1]
  rw [finRec_long _ _ _ _ hlen]

/-- **`term_push` without room**: `n` pushes of `x` append what fits of the `n` copies, the rest is dropped -/
theorem pushN_trunc (n : Nat) (x : Bytes) (s : VS) :
    pushN n x s = { s with ibuf := s.ibuf ++ ((List.replicate n x).flatten).take (4096 - s.ibuf.length) } := by
  induction n generalizing s with
  | zero => simp [pushN]
  | succ n ih =>
    rw [pushN, ih]
    simp only [push, List.replicate_succ, List.flatten_cons, List.length_append, List.length_take,
      List.append_assoc, List.take_append]
    congr 2
    congr 1
    by_cases h : x.length ≤ 4096 - s.ibuf.length
    · rw [Nat.min_eq_right h]
      congr 1
      omega
    · have h' : 4096 - s.ibuf.length ≤ x.length := by omega
      rw [Nat.min_eq_left h']
      rw [show 4096 - (s.ibuf.length + (4096 - s.ibuf.length)) = 0 by omega,
        show 4096 - s.ibuf.length - x.length = 0 by omega]

/-! ### what the simulation relation says about the editor -/

/-- `K`-related states have the same text, cursor, registers (the whole of `ed`), sticky column, recorded
change, `@@` register, counts, recording and push-back buffers, and the same pending keys -/
theorem K.fields {a b : VS} (h : K a b) :
    a.ed = b.ed ∧ lines a = lines b ∧ a.ed.xrow = b.ed.xrow ∧ a.ed.xoff = b.ed.xoff ∧
    a.ed.regs = b.ed.regs ∧ a.xcol = b.xcol ∧ a.repCmd = b.repCmd ∧ a.execReg = b.execReg ∧
    a.arg1 = b.arg1 ∧ a.arg2 = b.arg2 ∧ a.icmd = b.icmd ∧ a.vibuf = b.vibuf ∧ pending a = pending b := by
  obtain ⟨h1, h4, h0, h5, h6, h7, h8, -, -, -, -, -, -, -, h16, h17, -⟩ := (keyEq_iff a b).mp h.keq
  refine ⟨h0, ?_, by rw [h0], by rw [h0], by rw [h0], h6, h16, h17, h7, h8, h4, h5, h1⟩
  unfold lines; rw [h0]

/-- the iteration that executes a `.` typed at the terminal satisfies the proviso -/
theorem stepOk_dot_typed (s : VS) (rest : Bytes) (hinv : Inv s) (hv : s.vibuf = [])
    (hd : s.ibuf.length ≤ s.ibufPos) (ht : s.typed = 46 :: rest) : stepOk s = true := by
  have hp : pending s = ((46 : Nat)) :: rest := by
    unfold pending; rw [List.drop_eq_nil_of_le hd, ht]; rfl
  obtain ⟨ib, ip, ty, hpre, -, -, -, h5⟩ := viPre_cmdkey s 46 (Or.inl rfl) rest hv hp
  obtain ⟨e1, e2, e3⟩ := h5 hd
  rw [e1, e2, e3] at hpre
  have hrep := hinv.rep
  unfold stepOk
  rw [hpre]
  simp [viRead, pushOk, cnt1, max10]
  omega

/-! ### restatements used by `Props/C09b.lean` -/

theorem relO_cases (o o' : Option VS) (h : RelO o o') :
    (o = none ∧ o' = none) ∨ ∃ a b, o = some a ∧ o' = some b ∧ K a b := by
  cases h with
  | some a b hk => exact Or.inr ⟨a, b, rfl, rfl, hk⟩
  | none => exact Or.inl ⟨rfl, rfl⟩

theorem stepOk_meaning (s s1 : VS) (r o : Int) (hp : viPre s = Res.ok (0, r, o) s1) (hok : stepOk s = true)
    (c : Int) (s2 : VS) (hr : viRead s1 = Res.ok c s2) :
    (c = 46 → s2.ibuf.length ≤ s2.ibufPos ∧ max 1 s2.ibuf.length + cnt1 s2 * s2.repCmd.length ≤ 4096) ∧
    (c = 64 → ∀ n x s3, execHead (marked s2) = Res.ok (some (n, x)) s3 →
      s3.ibuf.length ≤ s3.ibufPos ∧ max 1 s3.ibuf.length + n * x.length ≤ 4096) := by
  obtain ⟨h1, h2⟩ := stepOk_spec s s1 r o hp hok c s2 hr
  exact ⟨fun e => (pushOk_iff _ _ _).mp (h1 e), fun e n x s3 he => (pushOk_iff _ _ _).mp (h2 e n x s3 he)⟩

theorem dot_run_same_text (s : VS) (rest : Bytes) (hinv : Inv s) (hv : s.vibuf = [])
    (hd : s.ibuf.length ≤ s.ibufPos) (ht : s.typed = 46 :: rest) (hout : nlCount s.ed.out ≤ 1) :
    ∃ s', viStep s = Res.ok () s' ∧ ∀ k a, runOk k s' = true → iterate (k + 1) s = some a →
      ∃ b, iterate k (retype s' (s.repCmd ++ rest)) = some b ∧ a.ed = b.ed ∧ lines a = lines b ∧
        a.ed.xrow = b.ed.xrow ∧ a.ed.xoff = b.ed.xoff ∧ a.ed.regs = b.ed.regs := by
  obtain ⟨s', h1, -, -, -, -, h6⟩ := dot_run s rest hinv hv hd ht hout
  refine ⟨s', h1, fun k a hk ha => ?_⟩
  have := h6 k hk
  rw [ha] at this
  obtain ⟨b, hb, hkab⟩ := relO_some_inv this
  obtain ⟨f1, f2, f3, f4, f5, -⟩ := hkab.fields
  exact ⟨b, hb, f1, f2, f3, f4, f5⟩

theorem recordRun_short (c k : Int) (mod : Nat) (ks rest : Bytes) (s : VS)
    (hp : pending s = ks ++ rest) (hl : ks.length + 1 < 4096) (hr : isRepeatable c k = true) :
    ∃ s', recordRun c k mod ks.length s = Res.ok (some mod) s' ∧ s'.repCmd = ks ∧ pending s' = rest := by
  obtain ⟨s', h1, h2, -, h4, -⟩ := record_is_keys_read c k mod ks rest s hp hl hr
  exact ⟨s', h1, h2, h4⟩

theorem readKeys_saturates (ks rest : Bytes) (s : VS) (hp : pending s = ks ++ rest) (hl : s.icmd.length ≤ 4096) :
    ∃ s', readKeys ks.length s = Res.ok (ks.map Int.ofNat) s' ∧
      s'.icmd = (s.icmd ++ ks).take 4096 ∧ pending s' = rest := by
  obtain ⟨ib, ip, ty, h1, h2⟩ := readKeys_sat ks rest s hp hl
  exact ⟨_, h1, rfl, h2⟩

end Neatvi.Lemmas.C09b
