import NeatviVerif.Lemmas.C09bDotStep
/-!
# C09b: `.`, `N.`, `@r`, `N@r`, `@@` over whole runs

`retype s keys` is the state `s` with nothing pushed and `keys` waiting at the terminal.  The theorems
say: the iteration that executes `.` (resp. `@r`) ends in a state `s'` whose pending keys are the recorded
keys (resp. the register's text) `N` times followed by the rest of the input, and from there on the run is
`K`-related (in particular `KeyEq`: same `ed`, same everything but the split of the queue) to the run from
`retype s' (those keys)`, for as many iterations as the proviso `runOk` holds.
-/
namespace Neatvi.Lemmas.C09b
open Neatvi Neatvi.Vi Neatvi.Ex Neatvi.Lemmas.C09
open Neatvi.Props.C05c (iterate)

theorem max10 : (max (1 : Int) 0).toNat = 1 := by decide

/-- the state `s` with nothing pushed and `keys` waiting at the terminal -/
def retype (s : VS) (keys : Bytes) : VS := { s with ibuf := [], ibufPos := 0, typed := keys }

theorem norm_eq_retype (s : VS) : C09.norm s = retype s (pending s) := rfl

theorem pending_retype (s : VS) (keys : Bytes) : pending (retype s keys) = keys := by
  simp [retype, pending]

/-- a computation that keeps `K` keeps the unary invariants -/
theorem inv_of_resp {α : Type} {m : M α} (hm : Resp m) {s s' : VS} {a : α} (h : Inv s)
    (he : m s = Res.ok a s') : Inv s' := by
  have := hm s s (K.refl h)
  rw [he] at this
  obtain ⟨t, _, hk⟩ := relK_ok_inv this
  exact hk.inv_left

theorem inv_marked {s : VS} (h : Inv s) : Inv (marked s) := (K.upd frame_marked (K.refl h)).inv_left

theorem relO_some_inv {a : VS} {o : Option VS} (h : RelO (some a) o) : ∃ b, o = some b ∧ K a b := by
  cases h with
  | some _ b hk => exact ⟨b, rfl, hk⟩

theorem relO_none_inv {o : Option VS} (h : RelO none o) : o = none := by
  cases h; rfl

/-- **after a push on a drained queue the run goes on as if the keys had been typed** -/
theorem after_push_run (s S : VS) (ed' : Ed) (X : Bytes) (hinv : Inv s) (hS : Inv S)
    (hstep : viStep s = Res.ok () { S with ed := ed', icmd := [], ibuf := S.ibuf ++ X })
    (hd : S.ibuf.length ≤ S.ibufPos) :
    Inv ({ S with ed := ed', icmd := [], ibuf := S.ibuf ++ X } : VS) ∧
    pending ({ S with ed := ed', icmd := [], ibuf := S.ibuf ++ X } : VS) = X ++ S.typed ∧
    ∀ k, runOk k { S with ed := ed', icmd := [], ibuf := S.ibuf ++ X } = true →
      RelO (iterate (k + 1) s)
        (iterate k (retype { S with ed := ed', icmd := [], ibuf := S.ibuf ++ X } (X ++ S.typed))) := by
  have hwf := hS.wf
  unfold QWf at hwf
  have hp : pending ({ S with ed := ed', icmd := [], ibuf := S.ibuf ++ X } : VS) = X ++ S.typed := by
    simp only [pending, List.drop_append]
    rw [List.drop_eq_nil_of_le hd, show S.ibufPos - S.ibuf.length = 0 by omega]
    rfl
  have hinv' : Inv ({ S with ed := ed', icmd := [], ibuf := S.ibuf ++ X } : VS) := by
    have h1 : iterate 1 s = some { S with ed := ed', icmd := [], ibuf := S.ibuf ++ X } := by
      rw [Props.C05c.iterate_succ 0 s _ () hstep]; rfl
    exact run_inv 1 s _ hinv h1
  refine ⟨hinv', hp, fun k hk => ?_⟩
  rw [Props.C05c.iterate_succ k s _ () hstep, ← hp, ← norm_eq_retype]
  exact run_norm k _ hinv' hk

/-- the state after `viPre` and the read of the command key `k`, typed at the terminal without a count -/
def afterKey (s : VS) (k : Nat) (rest : Bytes) : VS :=
  { s with ibuf := [k], ibufPos := 1, typed := rest, icmd := [k], vibuf := [], arg1 := 0, arg2 := 0, ybuf := 0 }

/-- the same with a one-digit count `d` -/
def afterCountKey (s : VS) (ib : Bytes) (ip : Nat) (ty : Bytes) (d k : Nat) : VS :=
  { s with ibuf := ib, ibufPos := ip, typed := ty, icmd := [d, k], vibuf := [], arg1 := (d : Int) - 48, arg2 := 0, ybuf := 0 }

/-! ### `.` -/

/-- **`.` over a whole run** (given what `viPre` returned and that the command key is `.`) -/
theorem dot_run_sem (s s1 s2 : VS) (r o : Int) (hinv : Inv s)
    (hpre : viPre s = Res.ok (0, r, o) s1) (hkey : viRead s1 = Res.ok 46 s2)
    (hok : pushOk s2 (cnt1 s2) s2.repCmd = true) (hout : nlCount s2.ed.out ≤ 1) :
    ∃ s', viStep s = Res.ok () s' ∧ Inv s' ∧
      pending s' = (List.replicate (cnt1 s2) s2.repCmd).flatten ++ s2.typed ∧
      s'.repCmd = s2.repCmd ∧ EdStep 2 s2.ed s'.ed ∧
      ∀ k, runOk k s' = true →
        RelO (iterate (k + 1) s)
          (iterate k (retype s' ((List.replicate (cnt1 s2) s2.repCmd).flatten ++ s2.typed))) := by
  obtain ⟨hd, hroom⟩ := (pushOk_iff _ _ _).mp hok
  have hS : Inv s2 := inv_of_resp resp_viRead (inv_of_resp resp_viPre hinv hpre) hkey
  obtain ⟨ed', hstep, hes⟩ := dot_step s s1 s2 r o hpre hkey hout (by omega)
  obtain ⟨a, b, c⟩ := after_push_run s s2 ed' _ hinv hS hstep hd
  exact ⟨_, hstep, a, b, rfl, hes, c⟩

/-- **`.` typed at the terminal, no count**: the next keys are the recorded change and then what follows.
No room hypothesis: `rep_cmd` and `ibuf` have the same size. -/
theorem dot_run (s : VS) (rest : Bytes) (hinv : Inv s) (hv : s.vibuf = [])
    (hd : s.ibuf.length ≤ s.ibufPos) (ht : s.typed = 46 :: rest) (hout : nlCount s.ed.out ≤ 1) :
    ∃ s', viStep s = Res.ok () s' ∧ Inv s' ∧ pending s' = s.repCmd ++ rest ∧
      s'.repCmd = s.repCmd ∧ EdStep 2 s.ed s'.ed ∧
      ∀ k, runOk k s' = true → RelO (iterate (k + 1) s) (iterate k (retype s' (s.repCmd ++ rest))) := by
  have hp : pending s = ((46 : Nat)) :: rest := by
    unfold pending; rw [List.drop_eq_nil_of_le hd, ht]; rfl
  obtain ⟨ib, ip, ty, hpre, -, -, -, h5⟩ := viPre_cmdkey s 46 (Or.inl rfl) rest hv hp
  obtain ⟨e1, e2, e3⟩ := h5 hd
  rw [e1, e2, e3] at hpre
  have hrep := hinv.rep
  obtain ⟨s', h1, h2, h3, h4, h5', h6⟩ := dot_run_sem s _ (afterKey s 46 rest) _ _ hinv hpre rfl
    (by rw [pushOk_iff]; simp [cnt1, afterKey, max10]; omega) hout
  have hc : cnt1 (afterKey s 46 rest) = 1 := by simp [cnt1, afterKey, max10]
  have hrc : (afterKey s 46 rest).repCmd = s.repCmd := rfl
  have hty : (afterKey s 46 rest).typed = rest := rfl
  have hx : (List.replicate (cnt1 (afterKey s 46 rest)) (afterKey s 46 rest).repCmd).flatten ++
      (afterKey s 46 rest).typed = s.repCmd ++ rest := by
    rw [hc, hrc, hty]; simp
  rw [hx] at h3 h6
  exact ⟨s', h1, h2, h3, h4, h5', h6⟩

/-- **`d.` typed at the terminal** (`d` a digit 1..9): the recorded change `d` times -/
theorem count_dot_run (s : VS) (d : Nat) (rest : Bytes) (hinv : Inv s) (hv : s.vibuf = [])
    (hd : s.ibuf.length ≤ s.ibufPos) (hd1 : 49 ≤ d) (hd2 : d ≤ 57) (ht : s.typed = d :: 46 :: rest)
    (hout : nlCount s.ed.out ≤ 1) (hroom : 1 + (d - 48) * s.repCmd.length ≤ 4096) :
    ∃ s', viStep s = Res.ok () s' ∧ Inv s' ∧
      pending s' = (List.replicate (d - 48) s.repCmd).flatten ++ rest ∧
      s'.repCmd = s.repCmd ∧ EdStep 2 s.ed s'.ed ∧
      ∀ k, runOk k s' = true →
        RelO (iterate (k + 1) s) (iterate k (retype s' ((List.replicate (d - 48) s.repCmd).flatten ++ rest))) := by
  have hp : pending s = d :: 46 :: rest := by
    unfold pending; rw [List.drop_eq_nil_of_le hd, ht]; rfl
  obtain ⟨ib, ip, ty, hpre, -, h3, h4, h5⟩ := viPre_digit_cmdkey s d 46 hd1 hd2 (Or.inl rfl) rest hv hp
  obtain ⟨e1, e2, e3⟩ := h5 hd
  rw [e1, e2, e3] at hpre
  have hc : cnt1 (afterCountKey s [46] 1 rest d 46) = d - 48 := by
    simp only [cnt1, afterCountKey]; omega
  obtain ⟨s', g1, g2, g3, g4, g5, g6⟩ := dot_run_sem s _ (afterCountKey s [46] 1 rest d 46) _ _ hinv hpre rfl
    (by rw [pushOk_iff, hc]; simp only [afterCountKey, List.length_singleton]; omega) hout
  have hx : (List.replicate (cnt1 (afterCountKey s [46] 1 rest d 46)) (afterCountKey s [46] 1 rest d 46).repCmd).flatten ++
      (afterCountKey s [46] 1 rest d 46).typed = (List.replicate (d - 48) s.repCmd).flatten ++ rest := by
    rw [hc]; rfl
  rw [hx] at g3 g6
  exact ⟨s', g1, g2, g3, g4, g5, g6⟩

/-! ### `@` -/

/-- **`@` over a whole run** (given what `viPre` returned, that the command key is `@`, and what
`vc_execute()` decided to push) -/
theorem at_run_sem (s s1 s2 s3 : VS) (r o : Int) (n : Nat) (x : Bytes) (hinv : Inv s)
    (hpre : viPre s = Res.ok (0, r, o) s1) (hkey : viRead s1 = Res.ok 64 s2)
    (hhead : execHead (marked s2) = Res.ok (some (n, x)) s3)
    (hok : pushOk s3 n x = true) (hout : nlCount s3.ed.out ≤ 1) :
    ∃ s', viStep s = Res.ok () s' ∧ Inv s' ∧
      pending s' = (List.replicate n x).flatten ++ s3.typed ∧ s'.execReg = s3.execReg ∧
      EdStep 2 s3.ed s'.ed ∧
      ∀ k, runOk k s' = true →
        RelO (iterate (k + 1) s) (iterate k (retype s' ((List.replicate n x).flatten ++ s3.typed))) := by
  obtain ⟨hd, hroom⟩ := (pushOk_iff _ _ _).mp hok
  have hS2 : Inv s2 := inv_of_resp resp_viRead (inv_of_resp resp_viPre hinv hpre) hkey
  have hS : Inv s3 := inv_of_resp resp_execHead (inv_marked hS2) hhead
  obtain ⟨ed', hstep, hes⟩ := at_step s s1 s2 s3 r o n x hpre hkey hhead hout (by omega)
  obtain ⟨a, b, c⟩ := after_push_run s s3 ed' _ hinv hS hstep hd
  exact ⟨_, hstep, a, b, rfl, hes, c⟩

/-- the state in which `vc_execute()` starts when `@` was typed at the terminal without a count -/
theorem at_prelude (s : VS) (rest : Bytes) (hv : s.vibuf = []) (hd : s.ibuf.length ≤ s.ibufPos)
    (ht : s.typed = 64 :: rest) :
    viPre s = Res.ok (0, s.ed.xrow, noeol s s.ed.xrow s.ed.xoff)
      { afterKey s 64 rest with vibuf := [64] } := by
  have hp : pending s = ((64 : Nat)) :: rest := by
    unfold pending; rw [List.drop_eq_nil_of_le hd, ht]; rfl
  obtain ⟨ib, ip, ty, hpre, -, -, -, h5⟩ := viPre_cmdkey s 64 (Or.inr rfl) rest hv hp
  obtain ⟨e1, e2, e3⟩ := h5 hd
  rw [e1, e2, e3] at hpre
  exact hpre

/-- **`@r` typed at the terminal** (`r` a plain register name): the next keys are the register's text (as a C
string) and then what follows; `r` is remembered for `@@` -/
theorem at_run (s : VS) (r : Nat) (rest buf : Bytes) (hinv : Inv s) (hv : s.vibuf = [])
    (hd : s.ibuf.length ≤ s.ibufPos) (ht : s.typed = 64 :: r :: rest)
    (h92 : r ≠ 92) (h64 : r ≠ 64) (h27 : r ≠ 27) (h3 : r ≠ 3)
    (hreg : regGet s.ed r = some buf) (hout : nlCount s.ed.out ≤ 1)
    (hroom : 1 + (buf.takeWhile (· != 0)).length ≤ 4096) :
    ∃ s', viStep s = Res.ok () s' ∧ Inv s' ∧ pending s' = buf.takeWhile (· != 0) ++ rest ∧
      s'.execReg = (r : Int) ∧ EdStep 2 s.ed s'.ed ∧
      ∀ k, runOk k s' = true →
        RelO (iterate (k + 1) s) (iterate k (retype s' (buf.takeWhile (· != 0) ++ rest))) := by
  have hpre := at_prelude s (r :: rest) hv hd ht
  have hreg' : regGet (marked (afterKey s 64 (r :: rest))).ed r = some buf := by
    rw [marked_regGet]; exact hreg
  obtain ⟨ib, ip, ty, hhead, -, -, h4, h5⟩ := execHead_reg
    (marked (afterKey s 64 (r :: rest)))
    r rest buf rfl (by simp [pending, marked, afterKey]) h92 h64 h27 h3 hreg'
  obtain ⟨e1, e2⟩ := h5 (by show 1 ≤ 1 + 1; omega)
  rw [e2] at hhead
  have hl : ib.length ≤ 1 := h4
  have hc : cnt1 (marked (afterKey s 64 (r :: rest))) = 1 := by simp [cnt1, marked, afterKey, max10]
  rw [hc] at hhead
  obtain ⟨s', g1, g2, g3, g4, g5, g6⟩ := at_run_sem s _ (afterKey s 64 (r :: rest))
    _ _ _ 1 _ hinv hpre rfl hhead
    (by rw [pushOk_iff]; dsimp only; omega)
    (by show nlCount (marked _).ed.out ≤ 1; rw [marked_out]; exact hout)
  simp only [List.replicate_one, List.flatten_cons, List.flatten_nil, List.append_nil] at g3 g6
  exact ⟨s', g1, g2, g3, g4, (edStep_marked (afterKey s 64 _) hout).trans g5, g6⟩

/-- **`@@` typed at the terminal**: the register of the last `@` -/
theorem atat_run (s : VS) (rest buf : Bytes) (hinv : Inv s) (hv : s.vibuf = [])
    (hd : s.ibuf.length ≤ s.ibufPos) (ht : s.typed = 64 :: 64 :: rest)
    (h0 : 0 ≤ s.execReg) (hreg : regGet s.ed s.execReg.toNat = some buf) (hout : nlCount s.ed.out ≤ 1)
    (hroom : 1 + (buf.takeWhile (· != 0)).length ≤ 4096) :
    ∃ s', viStep s = Res.ok () s' ∧ Inv s' ∧ pending s' = buf.takeWhile (· != 0) ++ rest ∧
      s'.execReg = s.execReg ∧ EdStep 2 s.ed s'.ed ∧
      ∀ k, runOk k s' = true →
        RelO (iterate (k + 1) s) (iterate k (retype s' (buf.takeWhile (· != 0) ++ rest))) := by
  have hpre := at_prelude s (64 :: rest) hv hd ht
  have hreg' : regGet (marked (afterKey s 64 (64 :: rest))).ed s.execReg.toNat = some buf := by
    rw [marked_regGet]; exact hreg
  obtain ⟨ib, ip, ty, hhead, -, -, h4, h5⟩ := execHead_again
    (marked (afterKey s 64 (64 :: rest)))
    rest buf rfl (by simp [pending, marked, afterKey]) h0 hreg'
  obtain ⟨e1, e2⟩ := h5 (by show 1 ≤ 1 + 1; omega)
  rw [e2] at hhead
  have hl : ib.length ≤ 1 := h4
  have hc : cnt1 (marked (afterKey s 64 (64 :: rest))) = 1 := by simp [cnt1, marked, afterKey, max10]
  rw [hc] at hhead
  obtain ⟨s', g1, g2, g3, g4, g5, g6⟩ := at_run_sem s _ (afterKey s 64 (64 :: rest))
    _ _ _ 1 _ hinv hpre rfl hhead
    (by rw [pushOk_iff]; dsimp only; omega)
    (by show nlCount (marked _).ed.out ≤ 1; rw [marked_out]; exact hout)
  simp only [List.replicate_one, List.flatten_cons, List.flatten_nil, List.append_nil] at g3 g6
  exact ⟨s', g1, g2, g3, g4, (edStep_marked (afterKey s 64 _) hout).trans g5, g6⟩

/-- **`d@r` typed at the terminal** (`d` a digit 1..9): the register's text `d` times -/
theorem count_at_run (s : VS) (d r : Nat) (rest buf : Bytes) (hinv : Inv s) (hv : s.vibuf = [])
    (hd : s.ibuf.length ≤ s.ibufPos) (hd1 : 49 ≤ d) (hd2 : d ≤ 57) (ht : s.typed = d :: 64 :: r :: rest)
    (h92 : r ≠ 92) (h64 : r ≠ 64) (h27 : r ≠ 27) (h3 : r ≠ 3)
    (hreg : regGet s.ed r = some buf) (hout : nlCount s.ed.out ≤ 1)
    (hroom : 1 + (d - 48) * (buf.takeWhile (· != 0)).length ≤ 4096) :
    ∃ s', viStep s = Res.ok () s' ∧ Inv s' ∧
      pending s' = (List.replicate (d - 48) (buf.takeWhile (· != 0))).flatten ++ rest ∧
      s'.execReg = (r : Int) ∧ EdStep 2 s.ed s'.ed ∧
      ∀ k, runOk k s' = true →
        RelO (iterate (k + 1) s)
          (iterate k (retype s' ((List.replicate (d - 48) (buf.takeWhile (· != 0))).flatten ++ rest))) := by
  have hp : pending s = d :: 64 :: r :: rest := by
    unfold pending; rw [List.drop_eq_nil_of_le hd, ht]; rfl
  obtain ⟨ib, ip, ty, hpre, -, -, -, h5⟩ := viPre_digit_cmdkey s d 64 hd1 hd2 (Or.inr rfl) (r :: rest) hv hp
  obtain ⟨e1, e2, e3⟩ := h5 hd
  rw [e1, e2, e3] at hpre
  have hreg' : regGet (marked (afterCountKey s [64] 1 (r :: rest) d 64)).ed r = some buf := by
    rw [marked_regGet]; exact hreg
  obtain ⟨ib, ip, ty, hhead, -, -, h4, h5⟩ := execHead_reg
    (marked (afterCountKey s [64] 1 (r :: rest) d 64))
    r rest buf rfl (by simp [pending, marked, afterCountKey]) h92 h64 h27 h3 hreg'
  obtain ⟨e1, e2⟩ := h5 (by show 1 ≤ 1 + 1; omega)
  rw [e2] at hhead
  have hl : ib.length ≤ 1 := h4
  have hc : cnt1 (marked (afterCountKey s [64] 1 (r :: rest) d 64)) = d - 48 := by
    simp only [cnt1, marked, afterCountKey]; omega
  rw [hc] at hhead
  obtain ⟨s', g1, g2, g3, g4, g5, g6⟩ := at_run_sem s _ (afterCountKey s [64] 1 (r :: rest) d 64)
    _ _ _ (d - 48) _ hinv hpre rfl hhead
    (by rw [pushOk_iff]; dsimp only; omega)
    (by show nlCount (marked _).ed.out ≤ 1; rw [marked_out]; exact hout)
  exact ⟨s', g1, g2, g3, g4, (edStep_marked (afterCountKey s [64] 1 (r :: rest) d 64) hout).trans g5, g6⟩

end Neatvi.Lemmas.C09b
