import NeatviVerif.Lemmas.C10bIdeal
/-!
# C10b lemmas, part 2: the backtracker `bt` simulates the idealised backtracker `btJ`

`Sim c res o`: the run with result `res` was started with the cut counter `c`; the counter never
decreases, and if the run ended (without trap) with the counter unchanged — no depth cut happened —
its result is the idealised outcome `o`.  In particular an idealised outcome `bad` means the real run
did cut (or trap).
-/
namespace Neatvi.Lemmas.C10b
open Neatvi Neatvi.Regex Neatvi.Spec.RegexSem Neatvi.Lemmas.C10

def Sim (c : Nat) : Res → O3 → Prop
  | Res.trap, _ => True
  | Res.ok p m c', o => c ≤ c' ∧ (c' = c → o = O3.ok (p, m))
  | Res.fail c', o => c ≤ c' ∧ (c' = c → o = O3.fail)

theorem Sim.weaken {c c1 : Nat} {res : Res} {o : O3} (h : Sim c1 res o) (hlt : c < c1) (o' : O3) :
    Sim c res o' := by
  cases res with
  | trap => trivial
  | ok p m c' => exact ⟨by have := h.1; omega, fun e => absurd e (by have := h.1; omega)⟩
  | fail c' => exact ⟨by have := h.1; omega, fun e => absurd e (by have := h.1; omega)⟩

/-- the continuations correspond from depth `dep` on -/
def KSim (dep : Nat) (k : K) (kJ : KJ) : Prop :=
  ∀ d p m c, dep ≤ d → Sim c (k d p m c) (kJ (p, m))

theorem KSim.mono {dep dep' : Nat} {k : K} {kJ : KJ} (h : KSim dep k kJ) (hd : dep ≤ dep') :
    KSim dep' k kJ := fun d p m c hd' => h d p m c (by omega)

def BSim (B : Body) (BJ : BodyJ) : Prop :=
  ∀ dep p m c k kJ, KSim dep k kJ → Sim c (B dep p m c k) (BJ (p, m) kJ)

theorem sim_fork_cut {nd dep cuts : Nat} {first second : Nat → Res} {o2 : O3} (hd : dep ≥ nd)
    (h2 : ∀ c', Sim c' (second c') o2) (o : O3) : Sim cuts (forkBt nd dep cuts first second) o := by
  unfold forkBt
  rw [if_pos hd]
  exact (h2 (cuts + 1)).weaken (by omega) o

theorem sim_fork {nd dep cuts : Nat} {first second : Nat → Res} {o1 o2 : O3}
    (h1 : dep < nd → Sim cuts (first (dep + 1)) o1) (h2 : ∀ c', Sim c' (second c') o2) :
    Sim cuts (forkBt nd dep cuts first second) (o1.seq o2) := by
  by_cases hd : dep ≥ nd
  · exact sim_fork_cut hd h2 _
  · have h := h1 (by omega)
    unfold forkBt
    rw [if_neg hd]
    cases hf : first (dep + 1) with
    | ok p m c' =>
      rw [hf] at h
      exact ⟨h.1, fun e => by rw [h.2 e]; rfl⟩
    | trap => trivial
    | fail c' =>
      rw [hf] at h
      show Sim cuts (second c') (o1.seq o2)
      by_cases e : c' = cuts
      · rw [h.2 e, e]; exact h2 cuts
      · exact (h2 c').weaken (by have := h.1; omega) _

variable {B : Body} {BJ : BodyJ}

theorem sim_copies (hB : BSim B BJ) : ∀ n, BSim (btCopies B n) (copiesJ BJ n) := by
  intro n
  induction n with
  | zero => intro dep p m c k kJ hk; exact hk dep p m c (Nat.le_refl _)
  | succ n ih =>
    intro dep p m c k kJ hk
    simp only [btCopies, copiesJ]
    exact hB dep p m c _ _ (fun d p' m' c' hd => ih d p' m' c' k kJ (hk.mono hd))

theorem sim_opts (nd : Nat) (hB : BSim B BJ) : ∀ n, BSim (btOpts nd B n) (optsJ BJ n) := by
  intro n
  induction n with
  | zero => intro dep p m c k kJ hk; exact hk dep p m c (Nat.le_refl _)
  | succ n ih =>
    intro dep p m c k kJ hk
    simp only [btOpts, optsJ]
    exact sim_fork
      (fun _ => hB (dep + 1) p m c _ _ (fun d p' m' c' hd => ih d p' m' c' k kJ (hk.mono (by omega))))
      (fun c' => hk dep p m c' (Nat.le_refl _))

/-- the real budget `fR` of the closing fork is at least the remaining depth and at most the
    idealised budget `fJ` -/
theorem sim_star (nd : Nat) (hB : BSim B BJ) {k : K} {kJ : KJ} :
    ∀ fJ fR d p m c, KSim d k kJ → nd - d ≤ fR → fR ≤ fJ →
      Sim c (btStar nd B k fR d p m c) (starJ BJ kJ fJ (p, m)) := by
  intro fJ
  induction fJ with
  | zero =>
    intro fR d p m c hk h1 h2
    have : fR = 0 := by omega
    subst this
    simp only [btStar]
    exact sim_fork_cut (by omega) (fun c' => hk d p m c' (Nat.le_refl _)) _
  | succ fJ ih =>
    intro fR d p m c hk h1 h2
    cases fR with
    | zero =>
      simp only [btStar]
      exact sim_fork_cut (by omega) (fun c' => hk d p m c' (Nat.le_refl _)) _
    | succ fR =>
      simp only [btStar, starJ]
      exact sim_fork
        (fun _ => hB (d + 1) p m c _ _
          (fun d' p' m' c' hd => ih fR d' p' m' c' (hk.mono (by omega)) (by omega) (by omega)))
        (fun c' => hk d p m c' (Nat.le_refl _))

theorem sim_rep (nd : Nat) (hB : BSim B BJ) (mn mx : Int) : BSim (btRep nd B mn mx) (repJ nd BJ mn mx) := by
  intro dep p m c k kJ hk
  by_cases h00 : mn = 0 ∧ mx = 0
  · simp only [btRep, repJ, h00]; exact hk dep p m c (Nat.le_refl _)
  by_cases h11 : mn = 1 ∧ mx = 1
  · simp only [btRep, repJ, h11]; exact hB dep p m c k kJ hk
  rw [btRep_general h00 h11, repJ_general h00 h11]
  have main : ∀ d, dep ≤ d → Sim c
      (btCopies B (max 1 mn).toNat d p m c (fun d p m' c =>
        if mx < 0 then btStar nd B k (nd - d) d p m' c
        else btOpts nd B (mx - max 1 mn).toNat d p m' c k))
      (copiesJ BJ (max 1 mn).toNat (p, m) (fun r' =>
        if mx < 0 then starJ BJ kJ nd r' else optsJ BJ (mx - max 1 mn).toNat r' kJ)) := by
    intro d hd
    apply sim_copies hB
    intro d' p' m' c' hd'
    show Sim c' (if mx < 0 then _ else _) (if mx < 0 then _ else _)
    split
    · exact sim_star nd hB _ _ _ _ _ _ (hk.mono (by omega)) (Nat.le_refl _) (by omega)
    · exact sim_opts nd hB _ _ _ _ _ _ _ (hk.mono (by omega))
  split
  · exact sim_fork (fun _ => main _ (by omega)) (fun c' => hk dep p m c' (Nat.le_refl _))
  · exact main dep (Nat.le_refl _)

theorem sim_atom (cx : Ctx) (a : Atom) : BSim (btAtom cx a) (atomJ ⟨cx.subj, cx.flg⟩ a) := by
  intro dep p m c k kJ hk
  unfold btAtom atomJ
  cases h : atomMatch a cx.subj cx.flg p with
  | fail => exact ⟨Nat.le_refl _, fun _ => rfl⟩
  | trap => trivial
  | ok j => exact hk dep j m c (Nat.le_refl _)

theorem sim_grp (cx : Ctx) {inner : Body} {innerJ : BodyJ} (hi : BSim inner innerJ) (g : Nat)
    (hg : 2 * g + 1 < cx.ngrps) : BSim (btGrp cx inner g) (grpJ innerJ g) := by
  intro dep p m c k kJ hk
  unfold btGrp grpJ
  have e1 : setMk cx.ngrps m (2 * g) p = setMark m (2 * g) p := by
    simp [setMk, setMark, show 2 * g < cx.ngrps by omega]
  rw [e1]
  apply hi
  intro d p' m' c' hd
  have e2 : setMk cx.ngrps m' (2 * g + 1) p' = setMark m' (2 * g + 1) p' := by
    simp [setMk, setMark, hg]
  show Sim c' (k d p' (setMk cx.ngrps m' (2 * g + 1) p') c') (kJ (p', setMark m' (2 * g + 1) p'))
  rw [e2]
  exact hk d p' _ c' hd

/-- every group of the tree writes marks the VM really sets (`Inst.mark k` is a no-op for
    `k ≥ ngrps`) -/
def GrpsIn (n : Nat) : RNode → Prop
  | .nul => True
  | .atom _ _ _ => True
  | .cat a b => GrpsIn n a ∧ GrpsIn n b
  | .alt a b => GrpsIn n a ∧ GrpsIn n b
  | .grp a g _ _ => 2 * g + 1 < n ∧ GrpsIn n a

def decGrpsIn (n : Nat) : (t : RNode) → Decidable (GrpsIn n t)
  | .nul => isTrue trivial
  | .atom _ _ _ => isTrue trivial
  | .cat a b =>
    match decGrpsIn n a, decGrpsIn n b with
    | isTrue h1, isTrue h2 => isTrue ⟨h1, h2⟩
    | isFalse h1, _ => isFalse (fun h => h1 h.1)
    | _, isFalse h2 => isFalse (fun h => h2 h.2)
  | .alt a b =>
    match decGrpsIn n a, decGrpsIn n b with
    | isTrue h1, isTrue h2 => isTrue ⟨h1, h2⟩
    | isFalse h1, _ => isFalse (fun h => h1 h.1)
    | _, isFalse h2 => isFalse (fun h => h2 h.2)
  | .grp a g _ _ =>
    match decGrpsIn n a with
    | isTrue h2 => if h1 : 2 * g + 1 < n then isTrue ⟨h1, h2⟩ else isFalse (fun h => h1 h.1)
    | isFalse h2 => isFalse (fun h => h2 h.2)

instance (n : Nat) (t : RNode) : Decidable (GrpsIn n t) := decGrpsIn n t

/-- the backtracker on the tree simulates the idealised backtracker with budget `cx.nd` -/
theorem bt_sim (cx : Ctx) (t : RNode) (hg : GrpsIn cx.ngrps t) :
    BSim (bt cx t) (btJ ⟨cx.subj, cx.flg⟩ cx.nd t) := by
  induction t with
  | nul => intro dep p m c k kJ hk; exact hk dep p m c (Nat.le_refl _)
  | atom a mn mx => simp only [bt, btJ]; exact sim_rep cx.nd (sim_atom cx a) mn mx
  | cat a b iha ihb =>
    intro dep p m c k kJ hk
    simp only [bt, btJ]
    exact iha hg.1 dep p m c _ _ (fun d p' m' c' hd => ihb hg.2 d p' m' c' k kJ (hk.mono hd))
  | alt a b iha ihb =>
    intro dep p m c k kJ hk
    simp only [bt, btJ]
    exact sim_fork (fun _ => iha hg.1 (dep + 1) p m c k kJ (hk.mono (by omega)))
      (fun c' => ihb hg.2 dep p m c' k kJ hk)
  | grp a g mn mx iha =>
    simp only [bt, btJ]
    exact sim_rep cx.nd (sim_grp cx (iha hg.2) g hg.1) mn mx

end Neatvi.Lemmas.C10b
