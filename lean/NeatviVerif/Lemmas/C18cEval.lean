import NeatviVerif.Model.Vi
import NeatviVerif.Lemmas.C10Eval
/-!
# C18c helpers: a kernel-computable copy of `Vi.dirOracle`

`Regex.regexec` runs the VM, which is defined by well-founded recursion; `Lemmas.C10.regexecF` is its
fuel-bounded copy with `regexecF_sound`.  `dirOracleF` is `Vi.dirOracle` over `regexecF`;
`dirOracleF_sound` lets `decide +kernel` evaluate the editor's oracle on concrete subjects.
-/
namespace Neatvi.Props.C18c
open Neatvi Neatvi.Regex Neatvi.Rset Neatvi.Lemmas.C10

/-- what `rset_find` does with the result of `regexec` -/
def findPost (rs : RSet) (n : Nat) (r : ExecRes × List (Int × Int)) : Option (Int × List Int × Nat) :=
  match r with
  | (ExecRes.trap, _) => none
  | (ExecRes.nomatch c, _) => some (-1, [], c)
  | (ExecRes.found _ c, subs) =>
    let set : Int := (List.range rs.n).foldl (fun (acc : Int) i =>
      let g := rs.grp.getD i (-1)
      if g ≥ 0 && (subs.getD g.toNat (-1, -1)).1 ≥ 0 then (i : Int) else acc) (-1)
    if set < 0 then some (-1, [], c) else
    let base := (rs.grp.getD set.toNat 0).toNat
    let cnt := rs.setgrpcnt.getD set.toNat 0
    let out := (List.range n).flatMap (fun i =>
      if i < cnt + 1 then let so := subs.getD (base + i) (-1, -1); [so.1, so.2] else [-1, -1])
    some (set, out, c)

def findFlags (flg : Nat) : Nat :=
  REG_NEWLINE ||| (if flg &&& RE_NOTBOL != 0 then REG_NOTBOL else 0) ||| (if flg &&& RE_NOTEOL != 0 then REG_NOTEOL else 0)

theorem find_eq (rs : RSet) (s : Bytes) (n flg nd ngrps : Nat) :
    Rset.find rs s n flg nd ngrps =
      if rs.grpcnt ≤ 2 then some (-1, [], 0)
      else findPost rs n (regexec rs.prog s rs.grpcnt (findFlags flg) nd ngrps) := by
  unfold Rset.find findPost findFlags
  split
  · rfl
  · dsimp only
    split <;> simp_all

/-- `rset_find` over the fuel-bounded VM; the outer `none` = out of fuel -/
def findF (fuel : Nat) (rs : RSet) (s : Bytes) (n flg nd ngrps : Nat) : Option (Option (Int × List Int × Nat)) :=
  if rs.grpcnt ≤ 2 then some (some (-1, [], 0))
  else (regexecF fuel rs.prog s rs.grpcnt (findFlags flg) nd ngrps).map (findPost rs n)

theorem findF_sound {fuel : Nat} {rs : RSet} {s : Bytes} {n flg nd ngrps : Nat}
    {r : Option (Int × List Int × Nat)} (h : findF fuel rs s n flg nd ngrps = some r) :
    Rset.find rs s n flg nd ngrps = r := by
  rw [find_eq]
  unfold findF at h
  split at h
  · next hc => rw [if_pos hc]; exact Option.some.inj h
  · next hc =>
    rw [if_neg hc]
    cases hx : regexecF fuel rs.prog s rs.grpcnt (findFlags flg) nd ngrps with
    | none => rw [hx] at h; cases h
    | some x =>
      rw [hx] at h
      rw [regexecF_sound hx]
      exact Option.some.inj h

/-- `Vi.dirOracle` over the fuel-bounded VM; the outer `none` = out of fuel -/
def dirOracleF (fuel : Nat) (which : Nat) (s : Bytes) (flg : Nat) : Option (Option (Nat × List Int)) :=
  match Vi.dirSets with
  | none => some none
  | some (a, b, c) =>
    let rs := if which == 0 then a else if which == 1 then b else c
    (findF fuel rs s (if which == 2 then 0 else 16) flg Gen.NDEPT Gen.NGRPS).map fun r =>
      match r with
      | some (set, grps, _) => if set < 0 then none else some (set.toNat, grps)
      | none => none

theorem dirOracleF_sound {fuel which : Nat} {s : Bytes} {flg : Nat} {r : Option (Nat × List Int)}
    (h : dirOracleF fuel which s flg = some r) : Vi.dirOracle which s flg = r := by
  unfold dirOracleF at h
  unfold Vi.dirOracle
  split at h
  · next hd => rw [hd]; exact Option.some.inj h
  · next a b c hd =>
    rw [hd]
    dsimp only at h ⊢
    cases hx : findF fuel (if (which == 0) = true then a else if (which == 1) = true then b else c) s
        (if (which == 2) = true then 0 else 16) flg Gen.NDEPT Gen.NGRPS with
    | none => rw [hx] at h; cases h
    | some x =>
      rw [hx] at h
      rw [findF_sound hx]
      exact Option.some.inj h

end Neatvi.Props.C18c
