import NeatviVerif.Lemmas.C05fP
/-!
# C05f, part Q: the command switch of `vi()` (`commandTail`)
-/
set_option linter.unusedSimpArgs false
set_option linter.unusedVariables false
namespace Neatvi.Lemmas.C05f
open Neatvi Neatvi.Uc Neatvi.Lbuf Neatvi.Ex Neatvi.Mot Neatvi.Vi Neatvi.Rset

/-- (superseded, **false** as stated: `Props/C05h.lean`, `exNoTrap_is_false`; kept because C05h refers to it) the old
    assumption on the ex layer: an ex command entered from vi, on a state with the invariant, does not trap … -/
def ExNoTrap : Prop :=
  ∀ (ln : Bytes) (s : VS), SOk s True → RowOk s → NoNul ln → exCommandV ln s ≠ Res.trap

/-- (superseded, false as stated: kept for C05h) … and keeps the invariant of the buffers and the registers -/
def ExKeeps : Prop :=
  ∀ (ln : Bytes) (s : VS) (rc : Int) (s' : VS), SOk s True → RowOk s → NoNul ln →
    exCommandV ln s = Res.ok rc s' → SOk s' False

/-- **what the loop of `vi()` needs of one ex command** `ln` entered in the state `s` (from `:` or `ZZ`): it does not
    trap, and it keeps the buffer / register part of the invariant.  Parameterised by the line and the state: the
    first half follows from C05e for the lines of its class `ColonLineOk` (`Props/C05i.lean`) -/
def ExCallOk (ln : Bytes) (s : VS) : Prop :=
  exCommandV ln s ≠ Res.trap ∧ ∀ rc s', exCommandV ln s = Res.ok rc s' → SOk s' False

theorem wp_exCommandV {ln : Bytes} {s : VS} (h : ExCallOk ln s) (Q : Int → VS → Prop)
    (hQ : ∀ rc s', SOk s' False → Q rc s') : wp (exCommandV ln) Q s :=
  wp_of h.1 (fun rc s' hm => hQ rc s' (h.2 rc s' hm))

/-- what `commandTail` leaves: after a command that goes on to `viPost` the invariant (a command may be in
    progress); otherwise either the editor is quitting or nothing but the marks and the queue changed -/
def CtPost (r : Option Nat) (s' : VS) : Prop :=
  match r with
  | none => s'.ed.xquit = true ∨ (SOk s' True ∧ RowOk s' ∧ s'.ed.xoff ≤ slenAt (lines s') s'.ed.xrow)
  | some _ => SOk s' False

theorem wp_scrollForward (cnt : Int) (s : VS) (Q : Bool → VS → Prop)
    (hQ : ∀ a s', s'.ed.bufs = s.ed.bufs → s'.ed.regs = s.ed.regs → Q a s') : wp (scrollForward cnt) Q s := by
  unfold scrollForward
  wpn
  wpif h
  · exact (wp_pure _ _ _).mpr (hQ _ _ rfl rfl)
  · wpn; exact hQ _ _ rfl rfl

theorem wp_scrollBackward (cnt : Int) (s : VS) (Q : Bool → VS → Prop)
    (hQ : ∀ a s', s'.ed.bufs = s.ed.bufs → s'.ed.regs = s.ed.regs → Q a s') : wp (scrollBackward cnt) Q s := by
  unfold scrollBackward
  wpn
  wpif h
  · exact (wp_pure _ _ _).mpr (hQ _ _ rfl rfl)
  · wpn; exact hQ _ _ rfl rfl

theorem wp_repeat_push (x : Bytes) : ∀ (n : Nat) (s : VS) (Q : Unit → VS → Prop),
    (∀ s', s'.ed = s.ed → Q () s') → wp (Vi.repeatM n (termPush x)) Q s := by
  intro n
  induction n with
  | zero => intro s Q hQ; unfold Vi.repeatM; exact (wp_pure _ _ _).mpr (hQ s rfl)
  | succ n ih =>
    intro s Q hQ
    unfold Vi.repeatM
    wp1
    unfold termPush
    wp1
    exact ih _ Q (fun s' h => hQ s' h)

theorem wp_vcRepeat (s : VS) (Q : Unit → VS → Prop) (hQ : ∀ s', s'.ed = s.ed → Q () s') : wp vcRepeat Q s := by
  unfold vcRepeat
  wpn
  exact wp_repeat_push _ _ s Q hQ

theorem wp_vcExecute (s : VS) (Q : Unit → VS → Prop) (hQ : ∀ s', s'.ed = s.ed → Q () s') : wp vcExecute Q s := by
  unfold vcExecute
  wpn
  refine wp_viRead s _ (fun c0 s1 e1 _ => ?_)
  wpn
  have hrest : ∀ (c : Int) (s2 : VS), s2.ed = s.ed →
      wp (if tkInt c = true then pure () else do
        let s ← get
        let reg := if c == 64 then s.execReg else c
        modify fun s => { s with execReg := reg }
        if reg < 0 then pure () else
        match regGet s.ed reg.toNat with
        | none => pure ()
        | some buf => Vi.repeatM (max 1 s.arg1).toNat (termPush (buf.takeWhile (· != 0)))) Q s2 := by
    intro c s2 e2
    wpif ht
    · exact (wp_pure _ _ _).mpr (hQ _ e2)
    wpn
    wpif hneg
    · exact (wp_pure _ _ _).mpr (hQ _ e2)
    cases regGet s2.ed (if c == 64 then s2.execReg else c).toNat with
    | none => exact (wp_pure _ _ _).mpr (hQ _ e2)
    | some buf => exact wp_repeat_push _ _ _ Q (fun s' h => hQ s' (h.trans e2))
  wpif h92
  · wpn
    refine wp_viRead s1 _ (fun d s2 e2 _ => ?_)
    wpn
    exact hrest _ s2 (e2.trans e1)
  · wpn
    exact hrest _ s1 e1

/-! ### the caret mark set at the start of a command -/

theorem getD_set_int (l : List Int) (i j : Nat) (a d : Int) :
    (l.set i a).getD j d = if i = j ∧ i < l.length then a else l.getD j d := by
  rw [List.getD_eq_getElem?_getD, List.getD_eq_getElem?_getD, List.getElem?_set]
  by_cases h : i = j
  · subst h
    by_cases h2 : i < l.length
    · simp [h2]
    · simp [h2]
  · simp [h]

theorem jump_setMark {lb : Lb} (hlen : lb.mark.length = lb.markOff.length) {k : Nat} {p o : Int} {m : Nat}
    {p' q' : Int} (h : jump (setMark lb k p o) m = some (p', q')) : (p' = p ∧ q' = o) ∨ jump lb m = some (p', q') := by
  unfold setMark at h
  cases hk : markIdx k with
  | none => rw [hk] at h; right; exact h
  | some i =>
    rw [hk] at h
    unfold jump at h ⊢
    cases hm : markIdx m with
    | none => rw [hm] at h; cases h
    | some j =>
      rw [hm] at h
      dsimp only at h ⊢
      rw [getD_set_int, getD_set_int] at h
      rw [← hlen] at h
      by_cases hc : i = j ∧ i < lb.mark.length
      · simp only [if_pos hc] at h
        left
        by_cases hp : p < 0
        · rw [if_pos hp] at h; cases h
        · rw [if_neg hp] at h; cases h; exact ⟨rfl, rfl⟩
      · simp only [if_neg hc] at h
        right; exact h

/-- the state after `lbuf_mark(xb, '^', xrow, xoff)`, the first thing a command does -/
def markCaret (s : VS) : VS := { s with ed := markEd s.ed 94 s.ed.xrow s.ed.xoff }

/-- `s0` is a state in which the key `k` (`:`, or the second `Z`) among the pending keys of `s` has just been read and
    the caret mark set: the editor is that of `markCaret s`, the rest of the queue is pending -/
def ColonAt (k : Int) (s s0 : VS) : Prop := s0.ed = (markCaret s).ed ∧ k :: allQ s0 <:+ allQ s

/-- **the hypothesis about the ex commands of one iteration** (per state): the line the `:` prompt returns for the
    pending keys, and the `x` of `ZZ`, are handled by `ex_command` without a trap and keep the invariant -/
structure ColonOk (s : VS) : Prop where
  colon : ∀ (s0 : VS) (ln : Bytes) (s1 : VS), ColonAt 58 s s0 → viPrompt true s0 = Res.ok (some ln) s1 → ln.isEmpty = false →
    ExCallOk (if ln.headD 0 != 58 then 58 :: ln else ln) s1
  zz : ∀ (s0 : VS), ColonAt 90 s s0 → ExCallOk (strOf "x") s0

theorem ColonOk.mono {s s' : VS} (h : ColonOk s) (he : s'.ed = s.ed) (hq : allQ s' <:+ allQ s) : ColonOk s' := by
  have hm : (markCaret s').ed = (markCaret s).ed := by unfold markCaret; dsimp only; rw [he]
  exact ⟨fun s0 ln s1 ⟨a1, a2⟩ h1 h2 => h.colon s0 ln s1 ⟨a1.trans hm, a2.trans hq⟩ h1 h2,
    fun s0 ⟨a1, a2⟩ => h.zz s0 ⟨a1.trans hm, a2.trans hq⟩⟩

theorem markCaret_regs (s : VS) : (markCaret s).ed.regs = s.ed.regs := by
  unfold markCaret; simp
theorem markCaret_xrow (s : VS) : (markCaret s).ed.xrow = s.ed.xrow := by
  unfold markCaret; simp
theorem markCaret_xoff (s : VS) : (markCaret s).ed.xoff = s.ed.xoff := by
  unfold markCaret; simp
theorem markCaret_xkwd (s : VS) : (markCaret s).ed.xkwd = s.ed.xkwd := by
  unfold markCaret; simp
theorem markCaret_xquit (s : VS) : (markCaret s).ed.xquit = s.ed.xquit := by
  unfold markCaret; simp

/-- with mark tables of equal length (as `lbuf_make` creates them and every operation keeps them), setting the
    caret mark at a cursor that is inside its line keeps `MarksIn` -/
theorem marksIn_caret {s : VS} {c : Prop} (hs : SOk s c) (hm : MarksIn s)
    (hlen : ∀ lb, s.ed.lb = some lb → lb.mark.length = lb.markOff.length)
    (hoff : s.ed.xoff ≤ slenAt (lines s) s.ed.xrow) : MarksIn (markCaret s) := by
  obtain ⟨lb, hlb, _⟩ := hs.1.lb s.ed rfl
  intro lb2 m p q h1 h2 h3
  have hl2 : (markCaret s).ed.lb = some (setMark lb 94 s.ed.xrow s.ed.xoff) := by
    unfold markCaret markEd
    dsimp only
    rw [hlb]
    exact setLb_lb hs.1 _
  rw [hl2] at h1
  cases h1
  have hlines : lines (markCaret s) = lines s := by
    unfold Vi.lines
    rw [hl2, hlb]
    exact Lemmas.C07.setMark_lines _ _ _ _
  rw [hlines] at h3
  rcases jump_setMark (hlen lb hlb) h2 with ⟨rfl, rfl⟩ | h
  · have : slenAt (lines s) s.ed.xrow = 0 := by unfold slenAt; rw [h3]
    omega
  · exact hm lb m p q hlb h h3

end Neatvi.Lemmas.C05f
