import NeatviVerif.Lemmas.C09cExtra
import NeatviVerif.Props.C09b
/-!
# C09c, part 17: witnesses — the statement left open in C09b is false as stated; the hypotheses are satisfiable
-/
namespace Neatvi.Lemmas.C09c
open Neatvi Neatvi.Uc Neatvi.Lbuf Neatvi.Ex Neatvi.Vi Neatvi.Mot
open Neatvi.Lemmas.C09b (Inv retype runOk stepOk)
open Neatvi.Props.C05c (iterate)

/-- an undo record of an (unreachable) initial state whose sequence number lies *above* the counter -/
def wEntry : Entry :=
  { pos := 0, nIns := 1, nDel := 1, ins := some [97, 98, 99, 100, 10], del := some [122, 97, 98, 99, 100, 10], seq := 5,
    posOff := 0, marks := none }
def wLb : Lb := { lines := [[97, 98, 99, 100, 10]], hist := [wEntry], histU := 1, histSz := 8, useq := 1 }
def wEd : Ed := { bufs := [some { path := [], lb := wLb }] ++ List.replicate 9 none }
/-- keys `x u . u` -/
def wInit : VS := viInit wEd [120, 117, 46, 117] 24 80

/-- everything `dot_retyped_observable_full` asks of the state after `x u`, and the two runs it compares -/
def wCheck (s : VS) : Bool :=
  decide (s.vibuf = []) && decide (s.ibuf.length ≤ s.ibufPos) && decide (s.repCmd ≠ []) && decide (s.typed = [46, 117]) &&
  decide (nlCount s.ed.out ≤ 1) && decide (s.ed.xquit = false) && runOk 3 s &&
  (match iterate 3 s, iterate 2 { s with typed := s.repCmd ++ [117] } with
   | some a, some b => decide (lines a ≠ lines b)
   | _, _ => false)

theorem wCheck_true : (match iterate 2 wInit with | some s => wCheck s | none => false) = true := by decide +kernel

/-- **`C09b.dot_retyped_observable_full` is false as stated**: its `Reachable` starts from an *arbitrary* `ed`, and
an `ed` whose undo history carries a sequence number above the counter makes the two runs group the records
differently.  Start: one line `abcd`, counter 1, one undo record (restoring `zabcd`) numbered 5.  Keys `x u`, then
`. u` against `x u`: in the retyped run the second `x` is numbered 5 as well and `u` undoes both records (`zabcd`);
in the `.` run the counter has moved on to 7 and `u` undoes only the `x` (`abcd`).  No state of the real editor has a
record numbered above the counter (`seqOk_iterate`). -/
theorem full_is_false : ¬ Neatvi.Props.C09b.dot_retyped_observable_full := by
  intro h
  have hc := wCheck_true
  cases hs : iterate 2 wInit with
  | none => rw [hs] at hc; cases hc
  | some s =>
    rw [hs] at hc
    unfold wCheck at hc
    simp only [Bool.and_eq_true, decide_eq_true_eq] at hc
    obtain ⟨⟨⟨⟨⟨⟨⟨hv, hd⟩, hrep⟩, ht⟩, hout⟩, hq⟩, hrun⟩, hdiff⟩ := hc
    have := h s [117] 2 ⟨wEd, _, 24, 80, 2, hs⟩ hv hd hrep ht hout hq hrun
    revert this hdiff
    cases iterate 3 s <;> cases iterate 2 { s with typed := s.repCmd ++ [117] } <;> simp
    intro h1 h2
    exact absurd h2 h1

/-! ### the hypotheses of `dot_retyped` are satisfiable -/

/-- a fresh buffer holding two lines -/
def gEd : Ed := { bufs := [some { path := [], lb := { lines := [[97, 98, 99, 100, 10], [101, 102, 10]] } }] ++ List.replicate 9 none }
/-- keys `x . u j` -/
def gInit : VS := viInit gEd [120, 46, 117, 106] 24 80

/-- the hypotheses of `dot_retyped` (but `Inv`, which every run keeps) for `rest = u j`, `k = 2`, as a boolean -/
def gCheck (s : VS) : Bool :=
  decide (s.vibuf = []) && decide (s.ibuf.length ≤ s.ibufPos) && decide (s.typed = [46, 117, 106]) &&
  decide (s.ed.out = []) && decide (s.ed.xquit = false) && dotSeqOkB s.ed && decide (DotSettled s [117, 106]) &&
  cmdFirst { s with typed := s.repCmd ++ [117, 106] } && runOk 3 s && decide (s.repCmd = [120])

theorem gCheck_true : (match iterate 1 gInit with | some s => gCheck s | none => false) = true := by decide +kernel

/-- the state after `x` on `abcd / ef`, with `. u j` waiting: all hypotheses of `dot_retyped` hold -/
theorem hypotheses_satisfiable : ∃ s : VS, Inv s ∧ s.vibuf = [] ∧ s.ibuf.length ≤ s.ibufPos ∧
    s.typed = 46 :: [117, 106] ∧ s.ed.out = [] ∧ s.ed.xquit = false ∧ DotSeqOk s.ed ∧ DotSettled s [117, 106] ∧
    cmdFirst { s with typed := s.repCmd ++ [117, 106] } = true ∧ runOk (2 + 1) s = true ∧ s.repCmd = [120] := by
  have hc := gCheck_true
  cases hs : iterate 1 gInit with
  | none => rw [hs] at hc; cases hc
  | some s =>
    rw [hs] at hc
    unfold gCheck at hc
    simp only [Bool.and_eq_true, decide_eq_true_eq] at hc
    obtain ⟨⟨⟨⟨⟨⟨⟨⟨⟨hv, hd⟩, ht⟩, hout⟩, hq⟩, hseq⟩, hset⟩, hcmd⟩, hrun⟩, hrep⟩ := hc
    exact ⟨s, Lemmas.C09b.run_inv 1 gInit s (Lemmas.C09b.inv_viInit _ _ _ _) hs, hv, hd, ht, hout, hq,
      dotSeqOk_of_b hseq, hset, hcmd, hrun, hrep⟩

/-! ### right after `.` the mark `^` does differ -/

/-- keys `x l .` on `abcd`: `x` sets the mark `^` at column 0, `l` moves to column 1, `.` sets the mark there -/
def cInit : VS := viInit gEd [120, 108, 46] 24 80

/-- **the exemption of the mark `^` at `k = 0` is needed**: after `x l` the mark `^` is where `x` was given; the
iteration that executes `.` moves it to the cursor, while the state with the recorded keys typed instead still has the
old mark (the retyped `x` will move it, too: from `k = 1` on the marks agree, `dot_retyped`) -/
theorem caret_differs_after_dot :
    (match iterate 2 cInit with
     | some s => (match iterate 1 s with
        | some a => decide ((a.ed.lb.bind fun lb => jump lb 94) ≠ (s.ed.lb.bind fun lb => jump lb 94))
        | none => false)
     | none => false) = true := by decide +kernel

end Neatvi.Lemmas.C09c
