import NeatviVerif.Lemmas.C08fRow
import NeatviVerif.Props.C17b
/-!
# C08f: `l` / `h` (`vi_nextcol`) on a row laid out left to right
-/
set_option linter.unusedSimpArgs false
set_option linter.unusedVariables false
namespace Neatvi.Lemmas.C08f
open Neatvi Neatvi.Uc Neatvi.Vi Neatvi.Ex Neatvi.Lbuf Neatvi.Mot Neatvi.Spec Neatvi.Ren
open Neatvi.Lemmas.C08 Neatvi.Lemmas.C09 Neatvi.Lemmas.C08b Neatvi.Lemmas.C17b Neatvi.Props.C17b

theorem getD_body_ne_ten (body : List Nat) (hb10 : 10 ∉ body) (k : Nat) (hk : k < body.length) :
    (body ++ [10]).getD k 0 ≠ 10 := by
  rw [List.getD_eq_getElem?_getD, List.getElem?_append_left hk, List.getElem?_eq_getElem hk]
  intro h
  exact hb10 (by simp at h; rw [← h]; exact List.getElem_mem hk)

theorem getD_body_nl (body : List Nat) : (body ++ [10]).getD body.length 0 = 10 := by
  rw [List.getD_eq_getElem?_getD, List.getElem?_append_right (Nat.le_refl _)]
  simp

/-- `vi_nextcol(+1)` on a left-to-right row: the next character, none on the last one -/
theorem nextcol_right (s : VS) (r : Int) (body : List Nat) (o : Nat) (h0 : 0 ≤ r) (hb : ∀ c ∈ body, ValidCp c)
    (hb10 : 10 ∉ body) (hline : (lines s)[r.toNat]? = some (encStr (body ++ [10])))
    (hfast : posTab s (encStr (body ++ [10])) = renPositionFast (encStr (body ++ [10]))) (ho : o < body.length) :
    nextcol s 1 r (o : Int) = if o + 1 < body.length then some ((o + 1 : Nat) : Int) else none := by
  have hv := valid_snoc_ten hb
  have hn : ucSlen (encStr (body ++ [10])) = (body ++ [10]).length := Props.C16.slen_spec hv
  have hs : StrictInc (renPositionFast (encStr (body ++ [10]))) (ucSlen (encStr (body ++ [10]))) := by
    rw [hn]; exact fast_strictInc _ hv
  have hlen : (body ++ [10]).length = body.length + 1 := by simp
  unfold nextcol
  rw [lineOf_of_get s r _ h0 hline]
  simp only [hfast, Int.toNat_natCast]
  rw [renNextT_inc_right _ hs o (by rw [hn, hlen]; omega) 1 (by omega)]
  by_cases hl : o + 1 < body.length
  · rw [if_pos hl, if_neg (fun hc => getD_body_ne_ten body hb10 (o + 1) hl
      ((chrHd_enc_eq_10 hv (o + 1) (by rw [hlen]; omega)).mp hc))]
    rw [if_neg (by omega), renOffT_renPosT (strictInc_colTable hs) (o + 1) (by rw [hn, hlen]; omega)]
  · have : o + 1 = body.length := by omega
    rw [if_neg hl, if_pos ((chrHd_enc_eq_10 hv (o + 1) (by rw [hlen]; omega)).mpr (by rw [this]; exact getD_body_nl body))]
    rfl

/-- `vi_nextcol(-1)`: the previous character, none on the first one -/
theorem nextcol_left (s : VS) (r : Int) (body : List Nat) (o : Nat) (h0 : 0 ≤ r) (hb : ∀ c ∈ body, ValidCp c)
    (hb10 : 10 ∉ body) (hline : (lines s)[r.toNat]? = some (encStr (body ++ [10])))
    (hfast : posTab s (encStr (body ++ [10])) = renPositionFast (encStr (body ++ [10]))) (ho : o < body.length) :
    nextcol s (-1) r (o : Int) = if 0 < o then some ((o - 1 : Nat) : Int) else none := by
  have hv := valid_snoc_ten hb
  have hn : ucSlen (encStr (body ++ [10])) = (body ++ [10]).length := Props.C16.slen_spec hv
  have hs : StrictInc (renPositionFast (encStr (body ++ [10]))) (ucSlen (encStr (body ++ [10]))) := by
    rw [hn]; exact fast_strictInc _ hv
  have hlen : (body ++ [10]).length = body.length + 1 := by simp
  unfold nextcol
  rw [lineOf_of_get s r _ h0 hline]
  simp only [hfast, Int.toNat_natCast]
  by_cases hl : 0 < o
  · obtain ⟨p, rfl⟩ : ∃ p, o = p + 1 := ⟨o - 1, by omega⟩
    rw [renNextT_inc_left _ hs p (by rw [hn, hlen]; omega) (-1) (by omega)]
    rw [if_pos hl, if_neg (fun hc => getD_body_ne_ten body hb10 p (by omega)
      ((chrHd_enc_eq_10 hv p (by rw [hlen]; omega)).mp hc))]
    rw [if_neg (by omega), renOffT_renPosT (strictInc_colTable hs) p (by rw [hn, hlen]; omega)]
    rfl
  · have : o = 0 := by omega
    subst this
    rw [renNextT_inc_left_first _ hs (by rw [hn, hlen]; omega) (-1) (by omega), if_neg hl]
    rfl

/-- `l` with count `c`: `c` characters to the right, at most to the last character -/
theorem repeatMove_l (s : VS) (r : Int) (body : List Nat) (h0 : 0 ≤ r) (hb : ∀ c ∈ body, ValidCp c)
    (hb10 : 10 ∉ body) (hline : (lines s)[r.toNat]? = some (encStr (body ++ [10])))
    (hfast : posTab s (encStr (body ++ [10])) = renPositionFast (encStr (body ++ [10]))) :
    ∀ (c o : Nat), o < body.length →
      repeatMove (fun r o => (nextcol s 1 r o).map (fun o' => (r, o'))) c r (o : Int) =
        (r, ((min (o + c) (body.length - 1) : Nat) : Int)) := by
  intro c
  induction c with
  | zero => intro o ho; simp [repeatMove]; omega
  | succ c ih =>
    intro o ho
    unfold repeatMove
    rw [nextcol_right s r body o h0 hb hb10 hline hfast ho]
    by_cases hl : o + 1 < body.length
    · rw [if_pos hl]
      simp only [Option.map_some]
      rw [ih (o + 1) hl]
      congr 2
      omega
    · rw [if_neg hl]
      simp only [Option.map_none]
      congr 2
      omega

/-- `h` with count `c`: `c` characters to the left, at most to the first -/
theorem repeatMove_h (s : VS) (r : Int) (body : List Nat) (h0 : 0 ≤ r) (hb : ∀ c ∈ body, ValidCp c)
    (hb10 : 10 ∉ body) (hline : (lines s)[r.toNat]? = some (encStr (body ++ [10])))
    (hfast : posTab s (encStr (body ++ [10])) = renPositionFast (encStr (body ++ [10]))) :
    ∀ (c o : Nat), o < body.length →
      repeatMove (fun r o => (nextcol s (-1) r o).map (fun o' => (r, o'))) c r (o : Int) =
        (r, ((o - c : Nat) : Int)) := by
  intro c
  induction c with
  | zero => intro o ho; simp [repeatMove]
  | succ c ih =>
    intro o ho
    unfold repeatMove
    rw [nextcol_left s r body o h0 hb hb10 hline hfast ho]
    by_cases hl : 0 < o
    · rw [if_pos hl]
      simp only [Option.map_some]
      rw [ih (o - 1) (by omega)]
      congr 2
      omega
    · rw [if_neg hl]
      simp only [Option.map_none]
      congr 2
      omega

/-- an ASCII line is laid out left to right: no reordering is attempted (`uc_slen(s) = strlen(s)`) -/
theorem posTab_fast_ascii (s : VS) (body : List Nat) (hb : ∀ c ∈ body, 0 < c ∧ c < 128) :
    posTab s (encStr (body ++ [10])) = renPositionFast (encStr (body ++ [10])) := by
  have hv : ∀ c ∈ body ++ [10], ValidCp c := by
    intro c hc
    rcases List.mem_append.mp hc with hc | hc
    · have := hb c hc; exact ⟨this.1, by omega⟩
    · simp at hc; subst hc; decide
  have hlt : ∀ c ∈ body ++ [10], c < 128 := by
    intro c hc
    rcases List.mem_append.mp hc with hc | hc
    · exact (hb c hc).2
    · simp at hc; omega
  have he : encStr (body ++ [10]) = body ++ [10] := encStr_ascii _ hlt
  have hn : ucSlen (encStr (body ++ [10])) = (encStr (body ++ [10])).length := by
    rw [Props.C16.slen_spec hv, he]
  unfold posTab renPosition
  simp only [hn, Nat.lt_irrefl, decide_false, Bool.and_false, Bool.or_false]
  unfold renOpts
  simp

/-- the motion `l` -/
theorem viMotion_l (row off : Int) (s s1 : VS) (hk : viRead s = Res.ok 108 s1)
    (hdir : 0 ≤ dirCtx s ((lineOf s row).getD [])) :
    viMotion row off s = Res.ok (108,
      repeatMove (fun r o => (nextcol s1 1 r o).map (fun o' => (r, o'))) (cntOf s).toNat row off) s1 := by
  unfold viMotion
  simp only [bind_apply, get_apply]
  rw [viMotionln_other row 0 s s1 108 hk (by decide)]
  simp (config := {decide := true}) only [bind_apply, get_apply, viRead_back, if_false, if_true, hdir, ge_iff_le]
  rfl

/-- the motion `h` -/
theorem viMotion_h (row off : Int) (s s1 : VS) (hk : viRead s = Res.ok 104 s1)
    (hdir : 0 ≤ dirCtx s ((lineOf s row).getD [])) :
    viMotion row off s = Res.ok (104,
      repeatMove (fun r o => (nextcol s1 (-1) r o).map (fun o' => (r, o'))) (cntOf s).toNat row off) s1 := by
  unfold viMotion
  simp only [bind_apply, get_apply]
  rw [viMotionln_other row 0 s s1 104 hk (by decide)]
  simp (config := {decide := true}) only [bind_apply, get_apply, viRead_back, if_false, if_true, hdir, ge_iff_le]
  rfl

end Neatvi.Lemmas.C08f
