import NeatviVerif.Props.C04
/-!
# C02 lemmas, part 1: the saved-state fields are framed by the history operations, and a
version of the splice simulation of C04 that exposes the group structure it produces
-/
namespace Neatvi.Lemmas.C02
open Neatvi Neatvi.Lbuf Neatvi.Spec Neatvi.Lemmas.Hist Neatvi.Props.C01 Neatvi.Props.C04

/-- the fields only `lbuf_saved` / `lbuf_unsaved` write -/
def Frame (lb lb' : Lb) : Prop :=
  lb'.useqZero = lb.useqZero ∧ lb'.unsaved = lb.unsaved ∧ lb'.useqLast = lb.useqLast

theorem Frame.refl (lb : Lb) : Frame lb lb := ⟨rfl, rfl, rfl⟩

theorem Frame.trans {a b c : Lb} (h1 : Frame a b) (h2 : Frame b c) : Frame a c :=
  ⟨h2.1.trans h1.1, h2.2.1.trans h1.2.1, h2.2.2.trans h1.2.2⟩

theorem setMark_frame (lb : Lb) (c : Nat) (p o : Int) : Frame lb (setMark lb c p o) := by
  unfold setMark; split <;> exact ⟨rfl, rfl, rfl⟩

theorem loadMarks_frame (lb : Lb) (e : Entry) : Frame lb (loadMarks lb e) := by
  unfold loadMarks; split <;> exact ⟨rfl, rfl, rfl⟩

theorem loadPos_frame (lb : Lb) (e : Entry) : Frame lb (loadPos lb e) := ⟨rfl, rfl, rfl⟩

theorem opt_frame (lb : Lb) (buf : Option Bytes) (pos nDel : Nat) : Frame lb (opt lb buf pos nDel) :=
  ⟨rfl, rfl, rfl⟩

theorem replace_frame (lb lb' : Lb) (s : Option Bytes) (pos nDel : Nat)
    (h : replace lb s pos nDel = some lb') : Frame lb lb' := by
  unfold replace at h
  by_cases hb : pos + nDel ≤ lb.lines.length
  · simp only [hb, if_true, Option.some.injEq] at h
    subst h
    refine Frame.trans (Frame.trans ?_ (setMark_frame _ _ _ _)) (setMark_frame _ _ _ _)
    exact ⟨rfl, rfl, rfl⟩
  · simp only [hb, if_false] at h
    cases h

theorem edit_frame (lb lb' : Lb) (buf : Option Bytes) (b e : Nat)
    (h : edit lb buf b e = some lb') : Frame lb lb' := by
  unfold edit at h
  simp only at h
  split at h
  · cases h
  · split at h
    · simp only [Option.some.injEq] at h; subst h; exact Frame.refl _
    · exact Frame.trans (opt_frame _ _ _ _) (replace_frame _ _ _ _ _ h)

theorem undoGo_frame (s : Nat) : ∀ (f : Nat) (lb lb' : Lb), undoGo s f lb = some lb' → Frame lb lb' := by
  intro f
  induction f with
  | zero =>
    intro lb lb' h
    simp only [undoGo, Option.some.injEq] at h
    subst h; exact Frame.refl _
  | succ f ih =>
    intro lb lb' h
    rw [undoGo] at h
    split at h
    · simp only [Option.some.injEq] at h; subst h; exact Frame.refl _
    · split at h
      · cases h
      · split at h
        · split at h
          · cases h
          · rename_i lb1 h1
            have f1 := replace_frame _ _ _ _ _ h1
            have f2 := ih _ _ h
            refine Frame.trans (Frame.trans (Frame.trans ?_ f1) ?_) f2
            · exact ⟨rfl, rfl, rfl⟩
            · exact Frame.trans (loadPos_frame _ _) (loadMarks_frame _ _)
        · simp only [Option.some.injEq] at h; subst h; exact Frame.refl _

theorem undo_frame (lb lb' : Lb) (rc : Nat) (h : undo lb = some (rc, lb')) : Frame lb lb' := by
  unfold undo at h
  split at h
  · simp only [Option.some.injEq, Prod.mk.injEq] at h
    rw [← h.2]; exact Frame.refl _
  · split at h
    · cases h
    · simp only [Option.map_eq_some_iff, Prod.mk.injEq] at h
      obtain ⟨l, hl, _, rfl⟩ := h
      exact undoGo_frame _ _ _ _ hl

theorem redoGo_frame (s : Nat) : ∀ (f : Nat) (lb lb' : Lb), redoGo s f lb = some lb' → Frame lb lb' := by
  intro f
  induction f with
  | zero =>
    intro lb lb' h
    simp only [redoGo, Option.some.injEq] at h
    subst h; exact Frame.refl _
  | succ f ih =>
    intro lb lb' h
    rw [redoGo] at h
    split at h
    · split at h
      · cases h
      · split at h
        · split at h
          · cases h
          · rename_i lb1 h1
            have f1 := replace_frame _ _ _ _ _ h1
            have f2 := ih _ _ h
            refine Frame.trans (Frame.trans (Frame.trans ?_ f1) (loadPos_frame _ _)) f2
            exact ⟨rfl, rfl, rfl⟩
        · simp only [Option.some.injEq] at h; subst h; exact Frame.refl _
    · simp only [Option.some.injEq] at h; subst h; exact Frame.refl _

theorem redo_frame (lb lb' : Lb) (rc : Nat) (h : redo lb = some (rc, lb')) : Frame lb lb' := by
  unfold redo at h
  split at h
  · simp only [Option.some.injEq, Prod.mk.injEq] at h
    rw [← h.2]; exact Frame.refl _
  · split at h
    · cases h
    · simp only [Option.map_eq_some_iff, Prod.mk.injEq] at h
      obtain ⟨l, hl, _, rfl⟩ := h
      exact redoGo_frame _ _ _ _ hl

/-- the invariant of C04 reads only four fields of the buffer -/
theorem inv_congr {T0 : Text} {lb lb' : Lb} {z : Zipper} {pg fg : List Group} (h : Inv T0 lb z pg fg)
    (h1 : lb'.hist = lb.hist) (h2 : lb'.histU = lb.histU) (h3 : lb'.useq = lb.useq)
    (h4 : lb'.lines = lb.lines) : Inv T0 lb' z pg fg where
  hist := by rw [h1]; exact h.hist
  histU := by rw [h2]; exact h.histU
  gok := h.gok
  sorted := h.sorted
  le := by rw [h3]; exact h.le
  closed := by rw [h3]; exact h.closed
  opened := by rw [h3]; exact h.opened
  chain := by rw [h1]; exact h.chain
  lines := by rw [h4]; exact h.lines
  wf0 := h.wf0
  present := by rw [h4]; exact h.present
  past := h.past
  future := by rw [h4]; exact h.future

end Neatvi.Lemmas.C02
