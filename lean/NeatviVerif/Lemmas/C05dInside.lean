import NeatviVerif.Lemmas.C05dCmd
/-!
# C05d lemmas, part 8: the commands that set the current row set it inside the buffer

`:p` (and the empty command), `:d`, `:a` / `:i` / `:c`, `:pu`, `:r`, when they succeed (return 0), leave
`-1 ≤ xrow ≤ len`; `-1` and `len` are reached (`:1c` with no text; `:$d`).
-/
namespace Neatvi.Lemmas.C05d
open Neatvi Neatvi.Lbuf Neatvi.Ex Neatvi.Rset Neatvi.Spec Neatvi.Lemmas.ExFrame Neatvi.Lemmas.C02Ex
open Neatvi.Lemmas.Hist

/-- the row is inside the buffer, in the wide sense: `-1` (before the first line) up to `len` (after the last) -/
def RowIn (ed : Ed) : Prop := -1 ≤ ed.xrow ∧ ed.xrow ≤ ed.len

theorem rowIn_of {ed' ed1 : Ed} {r : Int} (hb : ed'.bufs = ed1.bufs) (hx : ed'.xrow = r) (h0 : -1 ≤ r)
    (h1 : r ≤ ed1.len) : RowIn ed' :=
  ⟨by rw [hx]; exact h0, by rw [hx, len_of_bufs hb]; exact h1⟩

theorem edit_row_in {ed1 ed2 : Ed} {s : Option Bytes} {b e : Int} (h : PosOk none ed1)
    (he : ed1.edit s b e = some ed2) :
    -1 ≤ min (ed2.len - 1) (e + ed2.len - ed1.len - 1) ∧ min (ed2.len - 1) (e + ed2.len - ed1.len - 1) ≤ ed2.len := by
  obtain ⟨_, _, _, hb0, he0, hmin, hlen⟩ := posOk_edit h he
  have l1 := len_nonneg ed1
  have l2 := len_nonneg ed2
  have hn : (0 : Int) ≤ (optLines s).length := by omega
  constructor <;> omega

theorem print_row_in (f : Nat) (ed ed' : Ed) (loc cmd arg : Bytes) (txt : Option Bytes)
    (h : runCmd f ed "ec_print" loc cmd arg txt = some (0, ed')) : RowIn ed' := by
  cases f with
  | zero => rw [runCmd] at h; cases h
  | succ f =>
    rw [runCmd] at h
    rw [if_neg (by decide), if_pos (by decide)] at h
    split at h
    · cases h
    · split at h
      · cases h
      · rename_i rc b e ed1 hr
        obtain ⟨hreg, hbe, _⟩ := exRegion_ok hr
        split at h
        · cases h
        · rename_i hrc
          cases h
          have hf := foldl_print_fr b (List.range (e - b).toNat) ed1
          obtain ⟨b0, b1, b2⟩ := hbe (by simpa using hrc)
          exact rowIn_of (ed1 := ed1) (r := max b (e - 1)) hf.1 rfl (by omega) (by omega)

/-- **the commands that set the row**: after a successful `:p` / empty command, `:d`, `:a`, `:i`, `:c`, `:pu`, `:r`
    the current row is `-1 … len` -/
theorem runCmd_row_in (f : Nat) (ed ed' : Ed) (hd : String) (loc cmd arg : Bytes) (txt : Option Bytes)
    (hh : hd = "ec_insert" ∨ hd = "ec_print" ∨ hd = "ec_null" ∨ hd = "ec_delete" ∨ hd = "ec_put" ∨ hd = "ec_read")
    (hi : PosOk none ed) (h : runCmd (f + 1) ed hd loc cmd arg txt = some (0, ed')) : RowIn ed' := by
  rcases hh with rfl | rfl | rfl | rfl | rfl | rfl
  · -- insert
    rw [runCmd] at h
    rw [if_pos (by decide)] at h
    simp only [] at h
    split at h
    · cases h
    · rename_i hr
      have e1 := hi.reg (exRegion_ok hr).1
      split at h
      · cases h
      · split at h
        · cases h
        · rename_i ed2 hed
          cases h
          exact edit_row_in e1 hed
  · exact print_row_in _ _ _ _ _ _ _ h
  · -- null
    rw [runCmd] at h
    rw [if_neg (by decide), if_neg (by decide), if_pos (by decide)] at h
    split at h
    · simp only [] at h
      exact print_row_in _ { ed with xrow := if ed.xrow + 1 < ed.len then ed.xrow + 1 else ed.xrow } _ _ _ _ _ h
    · split at h
      · cases h
      · rename_i rc b e ed1 hr
        obtain ⟨hreg, hbe, _⟩ := exRegion_ok hr
        split at h
        · cases h
        · rename_i hrc
          cases h
          obtain ⟨b0, b1, b2⟩ := hbe (by simpa using hrc)
          exact ⟨by show -1 ≤ max b (e - 1); omega, by show max b (e - 1) ≤ ed1.len; omega⟩
  · -- delete
    rw [runCmd] at h
    rw [if_neg (by decide), if_neg (by decide), if_neg (by decide), if_pos (by decide)] at h
    simp only [] at h
    split at h
    · cases h
    · rename_i rc b e ed1 hr
      obtain ⟨hreg, hbe, _⟩ := exRegion_ok hr
      have e1 := hi.reg hreg
      split at h
      · cases h
      · rename_i hrc
        simp only [Bool.or_eq_true, bne_iff_ne, ne_eq, beq_iff_eq, not_or, Decidable.not_not] at hrc
        obtain ⟨b0, b1, b2⟩ := hbe hrc.1
        split at h
        · rename_i hy; exact absurd hy (by decide)
        · split at h
          · cases h
          · rename_i ed2 hed
            cases h
            have e1' : PosOk none { ed1 with regs := ed1.regs.put (regName arg) (ed1.cp b e) 1 } := e1.to rfl rfl rfl
            obtain ⟨_, _, _, _, _, _, hlen⟩ := posOk_edit e1' hed
            have hlen' : ed2.len = ed1.len - (min e ed1.len - min b ed1.len) + ((optLines none).length : Int) := hlen
            simp only [optLines, List.length_nil] at hlen'
            exact ⟨by show -1 ≤ b; omega, by show b ≤ ed2.len; omega⟩
  · -- put
    rw [runCmd] at h
    rw [if_neg (by decide), if_neg (by decide), if_neg (by decide), if_neg (by decide), if_pos (by decide)] at h
    simp only [] at h
    split at h
    · cases h
    · split at h
      · cases h
      · rename_i hr
        have e1 := hi.reg (exRegion_ok hr).1
        split at h
        · cases h
        · split at h
          · cases h
          · rename_i ed2 hed
            cases h
            exact edit_row_in e1 hed
  · -- read
    rw [runCmd] at h
    simp only [String.reduceBEq, Bool.false_eq_true, ↓reduceIte, Bool.or_self] at h
    split at h
    · cases h
    · rename_i path ed1 hp
      have f0 : Fr ed ed1 := by
        split at hp
        · exact fr_pathExpand hp
        · cases hp; exact Fr.refl _
      have e0 : PosOk none ed1 := hi.fr f0
      split at h
      · cases h
      · rename_i rc b e edr hr
        obtain ⟨hreg, hbe, _⟩ := exRegion_ok hr
        have e1 := e0.reg hreg
        have hn : ed.len = edr.len := by rw [hreg.len, f0.len]
        have lr := len_nonneg edr
        split at h
        · cases h
        · rename_i hrc
          simp only [Bool.or_eq_true, bne_iff_ne, ne_eq, not_or, Decidable.not_not] at hrc
          obtain ⟨b0, b1, b2⟩ := hbe hrc.1
          split at h
          · split at h
            · cases h
            · split at h
              · rename_i hpipe
                unfold Ed.pipe at hpipe
                split at hpipe <;> cases hpipe
              · split at h
                · cases h
                · rename_i obuf _ ed3 hm
                  cases h
                  have key : edr.len ≤ ed3.len := by
                    split at hm
                    · obtain ⟨_, _, _, _, _, _, hlen⟩ := posOk_edit e1 hm
                      omega
                    · cases hm; exact Int.le_refl _
                  have l3 := len_nonneg ed3
                  exact ⟨by show -1 ≤ e + ed3.len - ed.len - 1; omega, by show e + ed3.len - ed.len - 1 ≤ ed3.len; omega⟩
          · split at h
            · cases h
            · split at h
              · cases h
              · rename_i lb1 hrd
                cases h
                cases hlb : edr.lb with
                | none => rw [hlb] at hrd; cases hrd
                | some lb0 =>
                  rw [hlb] at hrd
                  simp only [Option.bind_some] at hrd
                  have hge : edr.len ≤ (edr.setLb lb1).len := by
                    rw [setLb_len hlb]
                    have : edr.len = lb0.lines.length := by unfold Ed.len; rw [hlb]
                    rw [this]
                    exact_mod_cast rd_len_ge hrd
                  have l3 := len_nonneg (edr.setLb lb1)
                  exact ⟨by show -1 ≤ e + (edr.setLb lb1).len - ed.len - 1; omega,
                    by show e + (edr.setLb lb1).len - ed.len - 1 ≤ (edr.setLb lb1).len; omega⟩

end Neatvi.Lemmas.C05d
