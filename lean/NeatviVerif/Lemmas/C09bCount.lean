import NeatviVerif.Lemmas.C09bMore
/-!
# C09b: a decimal count of up to nine digits in front of `.` / `@`

`decVal ds` is the number the digits `ds` (ASCII) denote.  `vi_prefix()` computes it as long as the
accumulator stays below `10^8` before each digit is added, which is the case for at most nine digits.
-/
namespace Neatvi.Lemmas.C09b
open Neatvi Neatvi.Vi Neatvi.Ex Neatvi.Lemmas.C09
open Neatvi.Props.C05c (iterate)

/-- one step of the accumulation of `vi_prefix()` -/
def decStep (a : Int) (d : Nat) : Int := a * 10 + ((d : Int) - 48)

/-- the value of a string of ASCII digits -/
def decVal (ds : List Nat) : Int := ds.foldl decStep 0

/-- the cap `n < 100000000` of `vi_prefix()` never triggers while the digits `l` are added to `n` -/
def noCap : Int → List Nat → Prop
  | _, [] => True
  | n, c :: t => n < 100000000 ∧ noCap (decStep n c) t

def isDigit (d : Nat) : Prop := 48 ≤ d ∧ d ≤ 57

/-- the loop of `vi_prefix()` on the digit `c` already read, the digits `ds` and the key `k` still in the
queue -/
theorem digits_loop (ds : List Nat) : ∀ (f : Nat) (n : Int) (c : Nat) (S : VS) (k : Nat) (rest : Bytes),
    ds.length < f → S.vibuf = [] → pending S = ds ++ k :: rest → isDigit c → (∀ d ∈ ds, isDigit d) →
    ¬ isDigit k → noCap n (c :: ds) → S.icmd.length + ds.length + 1 ≤ 4096 →
    ∃ ib ip ty, viPrefix.digits f n c S = Res.ok ((c :: ds).foldl decStep n)
        { S with ibuf := ib, ibufPos := ip, typed := ty, icmd := S.icmd ++ ds ++ [k], vibuf := [(k : Int)] } ∧
      ib.drop ip ++ ty = rest ∧ ip ≤ ib.length ∧
      (S.ibuf.length ≤ S.ibufPos → ib = [k] ∧ ip = 1 ∧ ty = rest) := by
  induction ds with
  | nil =>
    intro f n c S k rest hf hv hp hc _ hk hcap hic
    obtain ⟨f', rfl⟩ : ∃ f', f = f' + 1 := ⟨f - 1, by simp at hf; omega⟩
    obtain ⟨ib, ip, ty, h1, h2, h3, -, h5⟩ := termRead_ok S k rest hp
    refine ⟨ib, ip, ty, ?_, h2, h3, h5⟩
    have hcd : (decide (48 ≤ (c : Int)) && decide ((c : Int) ≤ 57)) = true := by
      unfold isDigit at hc; simp; omega
    have hkd : (decide (48 ≤ (k : Int)) && decide ((k : Int) ≤ 57)) = false := by
      unfold isDigit at hk
      by_cases h48 : 48 ≤ k
      · have : ¬ k ≤ 57 := fun h => hk ⟨h48, h⟩
        simp; omega
      · simp; omega
    rw [Lemmas.C05b.digits_step f' n c S hcd, viRead_nil S hv, h1]
    dsimp only
    have hn : n < 100000000 := hcap.1
    rw [if_pos hn]
    have hia : icmdAfter S.icmd k = S.icmd ++ [] ++ [k] := by
      unfold icmdAfter; rw [if_pos (by simp at hic; omega)]; simp
    cases f' with
    | zero => rw [Lemmas.C05b.digits_zero]; simp only [hv, hia]; rfl
    | succ f'' => rw [Lemmas.C05b.digits_stop f'' _ _ _ hkd]; simp only [hv, hia]; rfl
  | cons d t ih =>
    intro f n c S k rest hf hv hp hc hds hk hcap hic
    obtain ⟨f', rfl⟩ : ∃ f', f = f' + 1 := ⟨f - 1, by simp at hf; omega⟩
    obtain ⟨ib1, ip1, ty1, h1, h2, h3, -, h5⟩ := termRead_ok S d (t ++ k :: rest) hp
    have hcd : (decide (48 ≤ (c : Int)) && decide ((c : Int) ≤ 57)) = true := by
      unfold isDigit at hc; simp; omega
    have hia : icmdAfter S.icmd d = S.icmd ++ [d] := by
      unfold icmdAfter; rw [if_pos (by simp at hic; omega)]
    rw [hia] at h1
    obtain ⟨ib, ip, ty, g1, g2, g3, g5⟩ := ih f' (decStep n c) d
      { S with ibuf := ib1, ibufPos := ip1, typed := ty1, icmd := S.icmd ++ [d] } k rest
      (by simp at hf; omega) hv h2 (hds d (by simp)) (fun x hx => hds x (by simp [hx])) hk hcap.2
      (by simp at hic ⊢; omega)
    refine ⟨ib, ip, ty, ?_, g2, g3, ?_⟩
    · rw [Lemmas.C05b.digits_step f' n c S hcd, viRead_nil S hv, h1]
      dsimp only
      rw [if_pos hcap.1]
      have : (n * 10 + ((c : Int) - 48)) = decStep n c := rfl
      rw [this, g1]
      simp [List.append_assoc]
    · intro hd
      obtain ⟨a, b, _⟩ := h5 hd
      exact g5 (by rw [a, b]; simp)

theorem pow_succ_int (j : Nat) : ((10 : Int) ^ (j + 1)) = 10 ^ j * 10 := by
  rw [Int.pow_succ]

/-- with at most nine digits in all the cap never triggers -/
theorem noCap_of_short (l : List Nat) : ∀ (n : Int), 0 ≤ n → l.length ≤ 9 → n < 10 ^ (9 - l.length) →
    (∀ d ∈ l, isDigit d) → noCap n l := by
  induction l with
  | nil => intro n _ _ _ _; trivial
  | cons c t ih =>
    intro n h0 hl hn hd
    simp only [List.length_cons] at hl hn
    have hc := hd c (by simp)
    unfold isDigit at hc
    have e9 : 9 - (t.length + 1) = 8 - t.length := by omega
    rw [e9] at hn
    have hp8 : (10 : Int) ^ (8 - t.length) ≤ 10 ^ 8 := by
      have : (10 : Nat) ^ (8 - t.length) ≤ 10 ^ 8 := Nat.pow_le_pow_right (by decide) (by omega)
      exact_mod_cast this
    have e10 : (10 : Int) ^ 8 = 100000000 := by decide
    refine ⟨by omega, ih (decStep n c) ?_ (by omega) ?_ (fun d hd' => hd d (by simp [hd']))⟩
    · unfold decStep; omega
    · have e : 9 - t.length = (8 - t.length) + 1 := by omega
      rw [e, pow_succ_int]
      unfold decStep
      omega

theorem decVal_pos (d0 : Nat) (ds : List Nat) (h1 : 49 ≤ d0) (hds : ∀ d ∈ ds, isDigit d) :
    1 ≤ decVal (d0 :: ds) := by
  have key : ∀ (l : List Nat) (a : Int), 1 ≤ a → (∀ d ∈ l, isDigit d) → 1 ≤ l.foldl decStep a := by
    intro l
    induction l with
    | nil => intro a ha _; exact ha
    | cons c t ih =>
      intro a ha hd
      have hc := hd c (by simp)
      unfold isDigit at hc
      exact ih (decStep a c) (by unfold decStep; omega) (fun d hd' => hd d (by simp [hd']))
  unfold decVal
  rw [List.foldl_cons]
  exact key ds _ (by unfold decStep; omega) hds

/-- **`viPre` on a decimal count followed by `.` or `@`** (first digit 1..9, at most nine digits) -/
theorem viPre_count_cmdkey (s : VS) (d0 : Nat) (ds : List Nat) (k : Nat) (hd1 : 49 ≤ d0) (hd2 : d0 ≤ 57)
    (hds : ∀ d ∈ ds, isDigit d) (hlen : ds.length + 1 ≤ 9) (hk : k = 46 ∨ k = 64)
    (rest : Bytes) (hv : s.vibuf = []) (hp : pending s = d0 :: (ds ++ k :: rest)) :
    ∃ ib ip ty, viPre s = Res.ok (0, s.ed.xrow, noeol s s.ed.xrow s.ed.xoff)
        { s with ibuf := ib, ibufPos := ip, typed := ty, icmd := d0 :: ds ++ [k], vibuf := [(k : Int)],
                 arg1 := decVal (d0 :: ds), arg2 := 0, ybuf := 0 } ∧
      ib.drop ip ++ ty = rest ∧ ip ≤ ib.length ∧
      (s.ibuf.length ≤ s.ibufPos → ib = [k] ∧ ip = 1 ∧ ty = rest) := by
  obtain ⟨ib1, ip1, ty1, g1, g2, g3, -, g5⟩ := termRead_ok { s with icmd := [], arg2 := 0 } d0 (ds ++ k :: rest) hp
  have hkd : ¬ isDigit k := by unfold isDigit; omega
  have hd0 : isDigit d0 := ⟨by omega, hd2⟩
  obtain ⟨ib, ip, ty, h1, h2, h3, h5⟩ := digits_loop ds 64 0 d0
    { s with icmd := [d0], arg2 := 0, ibuf := ib1, ibufPos := ip1, typed := ty1, ybuf := 0 } k rest
    (by omega) hv g2 hd0 hds hkd
    (noCap_of_short (d0 :: ds) 0 (Int.le_refl 0) (by simp; omega)
      (by have : (0 : Int) < 10 ^ (9 - (d0 :: ds).length) := Int.pow_pos (by decide)
          exact this)
      (fun d hd => by
        rcases List.mem_cons.mp hd with rfl | hd
        · exact hd0
        · exact hds d hd))
    (by simp; omega)
  refine ⟨ib, ip, ty, ?_, h2, h3, ?_⟩
  · have hki : (k : Int) = 46 ∨ (k : Int) = 64 := by omega
    have hk34 : (k : Int) ≠ 34 := by omega
    have hd34 : (d0 : Int) ≠ 34 := by omega
    have hr1 : viRead { s with icmd := [], arg2 := 0 } = Res.ok (d0 : Int)
        { s with icmd := [d0], arg2 := 0, ibuf := ib1, ibufPos := ip1, typed := ty1 } :=
      (viRead_nil { s with icmd := [], arg2 := 0 } hv).trans g1
    have hpre : viPrefix ({ s with icmd := [d0], arg2 := 0, ibuf := ib1, ibufPos := ip1, typed := ty1, vibuf := (d0 : Int) :: s.vibuf, ybuf := 0 } : VS)
        = viPrefix.digits 64 0 (d0 : Int) { s with icmd := [d0], arg2 := 0, ibuf := ib1, ibufPos := ip1, typed := ty1, ybuf := 0 } := by
      rw [Lemmas.C05b.viPrefix_eq]
      show (if (decide (49 ≤ (d0 : Int)) && decide ((d0 : Int) ≤ 57)) = true then _ else _) = _
      rw [if_pos (by simp; omega)]
    unfold viPre
    simp only [bind_apply, Vi.get, termCmd_eq, Vi.modify]
    rw [viYankbuf_plain _ _ _ hd34 hr1]
    dsimp only
    rw [hpre, h1]
    dsimp only
    simp only [BEq.rfl, if_true, bind_apply]
    rw [viYankbuf_id _ (k : Int) [] rfl hk34]
    dsimp only [Vi.modify]
    rw [viMotion_id _ _ _ (k : Int) [] rfl hki]
    simp [decVal, List.foldl_cons]
  · intro hd
    obtain ⟨a, b, _⟩ := g5 hd
    exact h5 (by show ib1.length ≤ ip1; rw [a, b]; simp)

/-- the state after `viPre` and the read of the command key `k`, typed after the decimal count `d0 ds` -/
def afterDecKey (s : VS) (d0 : Nat) (ds : List Nat) (k : Nat) (rest : Bytes) : VS :=
  { s with ibuf := [k], ibufPos := 1, typed := rest, icmd := d0 :: ds ++ [k], vibuf := [], arg1 := decVal (d0 :: ds), arg2 := 0, ybuf := 0 }

/-- **`N.` typed at the terminal, `N` a decimal number of up to nine digits**: the recorded change `N` times -/
theorem decimal_dot_run (s : VS) (d0 : Nat) (ds : List Nat) (rest : Bytes) (hinv : Inv s) (hv : s.vibuf = [])
    (hd : s.ibuf.length ≤ s.ibufPos) (hd1 : 49 ≤ d0) (hd2 : d0 ≤ 57) (hds : ∀ d ∈ ds, isDigit d)
    (hlen : ds.length + 1 ≤ 9) (ht : s.typed = d0 :: (ds ++ 46 :: rest))
    (hout : nlCount s.ed.out ≤ 1) (hroom : 1 + (decVal (d0 :: ds)).toNat * s.repCmd.length ≤ 4096) :
    ∃ s', viStep s = Res.ok () s' ∧ Inv s' ∧
      pending s' = (List.replicate (decVal (d0 :: ds)).toNat s.repCmd).flatten ++ rest ∧
      s'.repCmd = s.repCmd ∧ EdStep 2 s.ed s'.ed ∧
      ∀ k, runOk k s' = true →
        RelO (iterate (k + 1) s)
          (iterate k (retype s' ((List.replicate (decVal (d0 :: ds)).toNat s.repCmd).flatten ++ rest))) := by
  have hp : pending s = d0 :: (ds ++ 46 :: rest) := by
    unfold pending; rw [List.drop_eq_nil_of_le hd, ht]; rfl
  obtain ⟨ib, ip, ty, hpre, -, -, h5⟩ := viPre_count_cmdkey s d0 ds 46 hd1 hd2 hds hlen (Or.inl rfl) rest hv hp
  obtain ⟨e1, e2, e3⟩ := h5 hd
  rw [e1, e2, e3] at hpre
  have hpos := decVal_pos d0 ds hd1 hds
  have hc : cnt1 (afterDecKey s d0 ds 46 rest) = (decVal (d0 :: ds)).toNat := by
    simp only [cnt1, afterDecKey]
    rw [Int.max_eq_right hpos]
  obtain ⟨s', g1, g2, g3, g4, g5, g6⟩ := dot_run_sem s _ (afterDecKey s d0 ds 46 rest) _ _ hinv hpre rfl
    (by rw [pushOk_iff, hc]; simp only [afterDecKey, List.length_singleton]; omega) hout
  have hx : (List.replicate (cnt1 (afterDecKey s d0 ds 46 rest)) (afterDecKey s d0 ds 46 rest).repCmd).flatten ++
      (afterDecKey s d0 ds 46 rest).typed = (List.replicate (decVal (d0 :: ds)).toNat s.repCmd).flatten ++ rest := by
    rw [hc]; rfl
  rw [hx] at g3 g6
  exact ⟨s', g1, g2, g3, g4, g5, g6⟩

/-- **`N@r` typed at the terminal, `N` a decimal number of up to nine digits**: the register's text `N` times -/
theorem decimal_at_run (s : VS) (d0 : Nat) (ds : List Nat) (r : Nat) (rest buf : Bytes) (hinv : Inv s)
    (hv : s.vibuf = []) (hd : s.ibuf.length ≤ s.ibufPos) (hd1 : 49 ≤ d0) (hd2 : d0 ≤ 57)
    (hds : ∀ d ∈ ds, isDigit d) (hlen : ds.length + 1 ≤ 9) (ht : s.typed = d0 :: (ds ++ 64 :: r :: rest))
    (h92 : r ≠ 92) (h64 : r ≠ 64) (h27 : r ≠ 27) (h3 : r ≠ 3)
    (hreg : regGet s.ed r = some buf) (hout : nlCount s.ed.out ≤ 1)
    (hroom : 1 + (decVal (d0 :: ds)).toNat * (buf.takeWhile (· != 0)).length ≤ 4096) :
    ∃ s', viStep s = Res.ok () s' ∧ Inv s' ∧
      pending s' = (List.replicate (decVal (d0 :: ds)).toNat (buf.takeWhile (· != 0))).flatten ++ rest ∧
      s'.execReg = (r : Int) ∧ EdStep 2 s.ed s'.ed ∧
      ∀ k, runOk k s' = true →
        RelO (iterate (k + 1) s)
          (iterate k (retype s' ((List.replicate (decVal (d0 :: ds)).toNat (buf.takeWhile (· != 0))).flatten ++ rest))) := by
  have hp : pending s = d0 :: (ds ++ 64 :: r :: rest) := by
    unfold pending; rw [List.drop_eq_nil_of_le hd, ht]; rfl
  obtain ⟨ib, ip, ty, hpre, -, -, h5⟩ := viPre_count_cmdkey s d0 ds 64 hd1 hd2 hds hlen (Or.inr rfl) (r :: rest) hv hp
  obtain ⟨e1, e2, e3⟩ := h5 hd
  rw [e1, e2, e3] at hpre
  have hpos := decVal_pos d0 ds hd1 hds
  have hreg' : regGet (marked (afterDecKey s d0 ds 64 (r :: rest))).ed r = some buf := by
    rw [marked_regGet]; exact hreg
  obtain ⟨ib, ip, ty, hhead, -, -, h4, h5⟩ := execHead_reg (marked (afterDecKey s d0 ds 64 (r :: rest)))
    r rest buf rfl (by simp [pending, marked, afterDecKey]) h92 h64 h27 h3 hreg'
  obtain ⟨e1, e2⟩ := h5 (by show 1 ≤ 1 + 1; omega)
  rw [e2] at hhead
  have hl : ib.length ≤ 1 := h4
  have hc : cnt1 (marked (afterDecKey s d0 ds 64 (r :: rest))) = (decVal (d0 :: ds)).toNat := by
    simp only [cnt1, marked, afterDecKey]
    rw [Int.max_eq_right hpos]
  rw [hc] at hhead
  obtain ⟨s', g1, g2, g3, g4, g5, g6⟩ := at_run_sem s _ (afterDecKey s d0 ds 64 (r :: rest))
    _ _ _ (decVal (d0 :: ds)).toNat _ hinv hpre rfl hhead
    (by rw [pushOk_iff]; dsimp only; omega)
    (by show nlCount (marked _).ed.out ≤ 1; rw [marked_out]; exact hout)
  exact ⟨s', g1, g2, g3, g4, (edStep_marked (afterDecKey s d0 ds 64 (r :: rest)) hout).trans g5, g6⟩

/-- `12.` : twelve copies -/
theorem decVal_example : decVal [49, 50] = 12 := by decide

end Neatvi.Lemmas.C09b
