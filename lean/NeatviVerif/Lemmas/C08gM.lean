import NeatviVerif.Lemmas.C08gL
/-!
# C08g: one whole iteration of `vi()` on a command: `viStep_via`

`Idle s`: the state between two commands — nothing pushed back, the editor not quitting, no output waiting to be
shown.  `viStep_via`: on a plain command key (`isCmdKey`, no count, no register prefix) the iteration is `viPre`
(`Lemmas/C08gK`), `commandTail` from the state `preSt …` — in which the key is read back from the push-back stack,
leaving `cmdSt …` —, and `viPost`.  `Settled s' s''`: what `finRec` and `viPost` do to the state `s'` the command
left.
-/
set_option linter.unusedSimpArgs false
set_option linter.unusedVariables false
namespace Neatvi.Lemmas.C08g
open Neatvi Neatvi.Uc Neatvi.Vi Neatvi.Ex Neatvi.Lbuf Neatvi.Mot Neatvi.Spec
open Neatvi.Lemmas.C08 Neatvi.Lemmas.C08b Neatvi.Lemmas.C08f
open Neatvi.Lemmas.C09 (finRec pending)
open Neatvi.Props.C08f

/-- the state between two commands -/
structure Idle (s : VS) : Prop where
  vibuf : s.vibuf = []
  xquit : s.ed.xquit = false
  out : nlCount s.ed.out ≤ 1

/-- the state once the command key has been read back from the push-back stack: the counts and the register prefix
are clear, `icmd` holds the key, the rest of the keys is pending -/
def cmdSt (s : VS) (c : Nat) (ib : Bytes) (ip : Nat) (ty : Bytes) : VS :=
  { s with ibuf := ib, ibufPos := ip, typed := ty, icmd := [c], arg1 := 0, arg2 := 0, ybuf := 0, vibuf := [] }

theorem viRead_preSt (s : VS) (c : Nat) (ib : Bytes) (ip : Nat) (ty : Bytes) :
    viRead (preSt s c ib ip ty) = Res.ok (c : Int) (cmdSt s c ib ip ty) := rfl

/-- what `finRec` and `viPost` do to the state `s'` a command left: the cursor is settled by the window fix, the
output is shown, the command is recorded in register `.` (when repeatable); the text, the other registers, the key
queues are as in `s'` -/
structure Settled (s' s'' : VS) : Prop where
  lines : lines s'' = lines s'
  xrow : s''.ed.xrow = wfixRow s'
  xoff : s''.ed.xoff = wfixOff s'
  vibuf : s''.vibuf = s'.vibuf
  pending : pending s'' = pending s'
  xquit : s''.ed.xquit = false
  out : s''.ed.out = []
  xkmap : s''.xkmap = s'.xkmap
  xai : s''.xai = s'.xai
  xtd : s''.ed.xtd = s'.ed.xtd
  wf : RegsWf s'.ed.regs → RegsWf s''.ed.regs
  regs : RegsWf s'.ed.regs → ∀ d, d ≠ 46 → s''.ed.regs.getRaw d = s'.ed.regs.getRaw d

theorem Settled.idle {s' s'' : VS} (h : Settled s' s'') (hv : s'.vibuf = []) : Idle s'' :=
  ⟨by rw [h.vibuf]; exact hv, h.xquit, by rw [h.out]; decide⟩

theorem put46_frame (r : Regs) (txt : Bytes) (h : RegsWf r) (d : Nat) (hd : d ≠ 46) : (r.put 46 txt 0).getRaw d = r.getRaw d := by
  refine Props.C08.put_frame r 46 d txt 0 h (by omega) (by rw [show lowerC (regTarget 46) = 46 by decide]; exact hd) (Or.inl ?_)
  rw [Bool.eq_false_iff]
  intro hs
  have := (Props.C08.shifts_iff (regTarget 46) txt 0).1 hs
  rcases this.2 with h0 | h0
  · revert h0; decide
  · revert h0; decide

/-- the state `finRec` leaves for a repeatable command -/
def recSt (s' : VS) : VS :=
  { s' with icmd := [], repCmd := s'.icmd, ed := { s'.ed with regs := s'.ed.regs.put 46 (s'.icmd.takeWhile (· != 0)) 0 } }

/-- `finRec` then `viPost` -/
theorem finish_step (c k : Int) (m : Nat) (s' : VS) (hq : s'.ed.xquit = false) (hout : nlCount s'.ed.out ≤ 1) :
    ∃ sf s'', finRec c k m s' = Res.ok (some m) sf ∧ viPost (some m) sf = Res.ok () s'' ∧ Settled s' s'' := by
  rw [Lemmas.C09.finRec_eq]
  by_cases hrep : (isRepeatable c k && decide (s'.icmd.length + 1 < 4096)) = true
  · rw [if_pos hrep]
    obtain ⟨s'', e, hf⟩ := viPost_spec m (recSt s') hq hout
    obtain ⟨xc, xt, xl, B, e2⟩ := hf.eq
    have hl := hf.lines
    subst e2
    exact ⟨_, _, rfl, e, ⟨hl, rfl, rfl, rfl, rfl, hq, rfl, rfl, rfl, rfl, fun h => Props.C08.put_wf _ _ _ _ h,
      fun h d hd => put46_frame _ _ h d hd⟩⟩
  · rw [if_neg hrep]
    obtain ⟨s'', e, hf⟩ := viPost_spec m { s' with icmd := [] } hq hout
    obtain ⟨xc, xt, xl, B, e2⟩ := hf.eq
    have hl := hf.lines
    subst e2
    exact ⟨_, _, rfl, e, ⟨hl, rfl, rfl, rfl, rfl, hq, rfl, rfl, rfl, rfl, fun h => h, fun h d hd => rfl⟩⟩

/-- **one iteration on a plain command key `c`**: `s0` is the state in which the dispatcher starts (the key on the
push-back stack), `s1` the state once it has read the key.  Whatever `commandTail` does — it ends in `finRec` from
a state `s'` that kept `xquit`, `out`, `xtd` — the iteration returns, and leaves `s'` settled -/
theorem viStep_via (c : Nat) (hc : isCmdKey c) (s : VS) (more : Bytes) (hi : Idle s) (hp : pending s = c :: more) :
    ∃ s0 s1, viRead s0 = Res.ok (c : Int) s1 ∧ s1.ed = s.ed ∧ s1.vibuf = [] ∧ pending s1 = more ∧
      s1.arg1 = 0 ∧ s1.ybuf = 0 ∧ s1.xkmap = s.xkmap ∧ s1.xai = s.xai ∧ s1.icmd = [c] ∧
      ∀ (k : Int) (m : Nat) (s' : VS), commandTail s0 = finRec (c : Int) k m s' → edk s' = edk s1 →
        ∃ s'', viStep s = Res.ok () s'' ∧ Settled s' s'' := by
  obtain ⟨ib, ip, ty, hpre, hq⟩ := viPre_cmd c hc s more hi.vibuf hp
  refine ⟨preSt s c ib ip ty, cmdSt s c ib ip ty, viRead_preSt s c ib ip ty, rfl, rfl, hq, rfl, rfl, rfl, rfl, rfl, ?_⟩
  intro k m s' hct hek
  have hq' : s'.ed.xquit = false := by
    have := congrArg (fun t => t.1) hek
    simp only [edk] at this
    rw [this]; exact hi.xquit
  have hout' : nlCount s'.ed.out ≤ 1 := by
    have := congrArg (fun t => t.2.1) hek
    simp only [edk] at this
    rw [this]; exact hi.out
  obtain ⟨sf, s'', e1, e2, e3⟩ := finish_step (c : Int) k m s' hq' hout'
  refine ⟨s'', ?_, e3⟩
  rw [Lemmas.C07.viStep_of_pre s _ 0 _ _ hpre]
  have : Lemmas.C07.stepCont 0 s.ed.xrow (noeol s s.ed.xrow s.ed.xoff) = commandTail := rfl
  rw [this]
  simp only [bind_apply, hct, e1, e2]

end Neatvi.Lemmas.C08g
