import NeatviVerif.Lemmas.C05fN
/-!
# C05f, part O: the commands that edit without a motion — `i a I A o O`, `p P`, `J`, `r`
-/
set_option linter.unusedSimpArgs false
set_option linter.unusedVariables false
namespace Neatvi.Lemmas.C05f
open Neatvi Neatvi.Uc Neatvi.Lbuf Neatvi.Ex Neatvi.Mot Neatvi.Vi Neatvi.Rset

/-- cutting a line at a character offset: the two halves make up the line -/
theorem subI_cut {l : Bytes} {off : Int} (h : off ≤ ucSlen l) :
    ∃ pref post, subI l 0 off = some pref ∧ subI l off (-1) = some post ∧ pref ++ post = l := by
  obtain ⟨i, hi, hle⟩ := chrI_some h
  have h0 : chrI l 0 = some 0 := by rw [Lemmas.C08.chrI_nonneg l 0 (by omega)]; exact Lemmas.C08.chr_zero l
  have h1 : chrI l (-1) = some l.length := Lemmas.C08.chrI_neg l (-1) (by omega)
  refine ⟨l.take i, l.drop i, ?_, ?_, List.take_append_drop i l⟩
  · unfold subI; rw [h0, hi]; simp
  · unfold subI; rw [hi, h1]
    simp only [hle, if_true]
    rw [List.take_of_length_le (by simp)]

theorem nlCount_lineOk {l : Bytes} (h : LineOk l) : nlCount l = 1 := by
  obtain ⟨w, rfl, hw, _⟩ := h
  rw [nlCount_append, nlCount_of_not_mem hw, nlCount_singleton_nl]

theorem lineOf_lineOk {s : VS} {c : Prop} (hs : SOk s c) {r : Int} {l : Bytes} (h : lineOf s r = some l) : LineOk l := by
  refine hs.linesOk l ?_
  unfold lineOf lineAt at h
  split at h
  · cases h
  · exact List.mem_of_getElem? h

/-- `vc_insert` after the text has been typed -/
def insEdit (isO : Bool) (rep : Bytes) (row off' : Int) : M Nat := do
  let s ← get
  if isO && lenOf s == 0 then edEdit (some [10]) 0 0
  let s ← get
  let beg := s.ed.xrow - row + 1
  edEdit (some rep) beg (beg + (if isO then 0 else 1))
  setOff off'
  pure VC_OK

/-- `vc_insert` from the point where the text around the cursor is cut -/
def insText (cmd : Nat) (s : VS) (ln : Option Bytes) (xoff : Int) : M Nat := do
  let off : Int := if cmd == 105 || cmd == 73 then xoff else if cmd == 97 || cmd == 65 then xoff + 1 else 0
  let off := if (match ln with | some l => l.headD 0 == 10 | none => false) then 0 else off
  let isO := cmd == 111 || cmd == 79
  let pref ← (match ln with
    | some l => if !isO then liftO (subI l 0 off) else pure (viIndents s ln)
    | none => pure [])
  let post ← (match ln with
    | some l => if !isO then liftO (subI l off (-1)) else pure [10]
    | none => pure [10])
  let (rep, row, off') ← viInput pref post
  insEdit isO rep row off'

/-- `vc_insert` from the point where the offset is clamped -/
def insGo (cmd : Nat) (ln : Option Bytes) : M Nat := do
  let s ← get
  let xoff := match ln with | some l => Ren.renNoeol l s.ed.xoff | none => Ren.renNoeol [] s.ed.xoff
  setOff xoff
  if cmd == 111 then viNextlineR
  insText cmd s ln xoff

theorem vcInsert_eq (cmd : Nat) : vcInsert cmd = (do
    let s ← get
    if cmd == 73 then setOff (indents (lines s) s.ed.xrow)
    if cmd == 65 then setOff (eol (lines s) s.ed.xrow)
    insGo cmd (lineOf s s.ed.xrow)) := by
  unfold vcInsert insGo insText insEdit
  rfl

theorem wp_insEdit (isO : Bool) (rep : Bytes) (row off' : Int) {s s0 : VS} {c : Prop} (hs : SOk s c)
    (hq : s.ed.xquit = s0.ed.xquit) (hrep : NoNul rep) (hbeg : 0 ≤ s.ed.xrow - row + 1) (Q : Nat → VS → Prop)
    (hQ : ∀ a s', OpPost s0 s' → Q a s') : wp (insEdit isO rep row off') Q s := by
  unfold insEdit
  wpn
  have hfin : ∀ s1, SOk s1 False → s1.ed.xrow = s.ed.xrow → s1.ed.xquit = s.ed.xquit →
      wp (do
        let s ← get
        edEdit (some rep) (s.ed.xrow - row + 1) (s.ed.xrow - row + 1 + if isO = true then 0 else 1)
        setOff off'
        pure VC_OK) Q s1 := by
    intro s1 h1 hx hq1
    wpn
    refine wp_edEdit_sok h1 _ _ _ (by rw [hx]; exact hbeg) (by split <;> omega) (noNulO_some.mpr hrep) _
      (fun s2 h2 _ _ q2 _ => ?_)
    wpn
    exact hQ _ _ ⟨h2.congr rfl rfl, (q2.trans hq1).trans hq⟩
  wpif hc
  · wpn
    refine wp_edEdit_sok hs _ _ _ (Int.le_refl 0) (Int.le_refl 0) (noNulO_some.mpr (by simp [NoNul])) _
      (fun s1 h1 hx _ hq1 _ => ?_)
    exact hfin s1 h1 hx hq1
  · wp1; wp1
    exact hfin s hs.weaken rfl rfl

theorem wp_insText (cmd : Nat) (s0 : VS) (ln : Option Bytes) (xoff : Int) {s : VS} {c : Prop} (hs : SOk s c)
    (hs0 : SOk s0 c) (hq : s.ed.xquit = s0.ed.xquit) (hx : 0 ≤ s.ed.xrow)
    (hln : ∀ l, ln = some l → LineOk l ∧ xoff + 1 ≤ ucSlen l ∧ ln = lineOf s0 s0.ed.xrow)
    (Q : Nat → VS → Prop) (hQ : ∀ a s', OpPost s0 s' → Q a s') : wp (insText cmd s0 ln xoff) Q s := by
  unfold insText
  -- the common rest, for texts whose newlines add up to one
  have hrest : ∀ (pref post : Bytes), NoNul pref → NoNul post → nlCount pref + nlCount post = 1 →
      wp (viInput pref post) (fun a s' => wp (insEdit (cmd == 111 || cmd == 79) a.1 a.2.1 a.2.2) Q s') s := by
    intro pref post hp hq' hn
    refine wp_viInput pref post s hs.textOk hp hq' _ (fun rep row off s1 f1 hrep hxr => ?_)
    refine wp_insEdit _ _ _ _ (f1.sok hs) (f1.2.2.trans hq) hrep ?_ Q hQ
    rw [hxr]
    have : (nlCount pref : Int) + nlCount post = 1 := by exact_mod_cast hn
    omega
  cases ln with
  | none =>
    dsimp only
    wpn
    exact hrest [] [10] noNul_nil (by simp [NoNul]) rfl
  | some l =>
    obtain ⟨hl, hxo, hle⟩ := hln l rfl
    dsimp only
    wp1
    wpif hisO
    · generalize hoff : (if (l.headD 0 == 10) = true then (0 : Int) else
          if (cmd == 105 || cmd == 73) = true then xoff else if (cmd == 97 || cmd == 65) = true then xoff + 1 else 0) = off
      have hoffle : off ≤ ucSlen l := by
        have := hl.slen_pos
        rw [← hoff]
        splits <;> omega
      obtain ⟨pref, post, h1, h2, h3⟩ := subI_cut hoffle
      wpn
      rw [h1]; wpn
      rw [if_pos hisO, h2]; wpn
      have hn : nlCount pref + nlCount post = 1 := by rw [← nlCount_append, h3]; exact nlCount_lineOk hl
      have hnn : NoNul (pref ++ post) := by rw [h3]; exact hl.noNul
      exact hrest pref post (noNul_append.mp hnn).1 (noNul_append.mp hnn).2 hn
    · wpn
      rw [if_neg hisO]; wpn
      have hi : NoNul (viIndents s0 (some l)) := by rw [hle]; exact viIndents_noNul hs0 _
      refine hrest _ [10] hi (by simp [NoNul]) ?_
      have : 10 ∉ viIndents s0 (some l) := by
        unfold viIndents
        dsimp only
        split
        · exact blanks_no_nl l
        · simp
      rw [nlCount_of_not_mem this]; rfl

theorem wp_insGo (cmd : Nat) {s : VS} {c : Prop} (hs : SOk s c) (hr : RowOk s) (Q : Nat → VS → Prop)
    (hQ : ∀ a s', OpPost s s' → Q a s') : wp (insGo cmd (lineOf s s.ed.xrow)) Q s := by
  unfold insGo
  wpn
  have hln : ∀ l, lineOf s s.ed.xrow = some l → LineOk l ∧
      (match lineOf s s.ed.xrow with | some l => Ren.renNoeol l s.ed.xoff | none => Ren.renNoeol [] s.ed.xoff : Int) + 1 ≤ (ucSlen l : Int) ∧
      lineOf s s.ed.xrow = lineOf s s.ed.xrow := by
    intro l hl
    have hlo := lineOf_lineOk hs hl
    refine ⟨hlo, ?_, rfl⟩
    rw [hl]
    dsimp only
    have := Lemmas.C07.renNoeol_lt l s.ed.xoff
    have := hlo.slen_pos
    omega
  wpif h111
  · unfold viNextlineR
    wpn
    refine wp_insText cmd s _ _ (hs.congr ?_ ?_) hs ?_ ?_ hln Q hQ
    · split <;> rfl
    · split <;> rfl
    · split <;> rfl
    · have := hr.1
      split <;> (dsimp only; omega)
  · wpn
    refine wp_insText cmd s _ _ (hs.congr ?_ ?_) hs ?_ ?_ hln Q hQ
    · rfl
    · rfl
    · rfl
    · exact hr.1

/-- **`vc_insert`** (`i a I A o O`): no trap; the invariant is kept -/
theorem wp_vcInsert (cmd : Nat) {s : VS} {c : Prop} (hs : SOk s c) (hr : RowOk s) (Q : Nat → VS → Prop)
    (hQ : ∀ a s', OpPost s s' → Q a s') : wp (vcInsert cmd) Q s := by
  rw [vcInsert_eq]
  wpn
  have key : ∀ (o : Int), wp (insGo cmd (lineOf s s.ed.xrow)) Q { s with ed := { s.ed with xoff := o } } := by
    intro o
    exact wp_insGo (s := { s with ed := { s.ed with xoff := o } }) cmd (hs.congr rfl rfl) hr Q
      (fun a s' hp => hQ a s' hp)
  have key0 : wp (insGo cmd (lineOf s s.ed.xrow)) Q s := wp_insGo cmd hs hr Q hQ
  wpif h73
  · wpn
    wpif h65
    · wpn; exact key _
    · wpn; exact key _
  · wpn
    wpif h65
    · wpn; exact key _
    · wpn; exact key0

/-! ### `r`: the characters before the newline -/

theorem contRun_snoc_nl (r : Bytes) : contRun (r ++ [10]) = contRun r := by
  induction r with
  | nil => simp [contRun, contB]
  | cons b r ih =>
    simp only [List.cons_append, contRun]
    split
    · rw [ih]
    · rfl

theorem ucEnd_snoc_nl (c : Nat) (r : Bytes) : ucEnd (c :: (r ++ [10])) = ucEnd (c :: r) := by
  simp only [ucEnd]
  rw [contRun_snoc_nl]
  have : contRun (c :: (r ++ [10])) = contRun (c :: r) := contRun_snoc_nl (c :: r)
  rw [this]

theorem ucSlenF_snoc_nl : ∀ (f : Nat) (w : Bytes), w.length ≤ f → NoNul w → ucSlen (w ++ [10]) = ucSlen w + 1 := by
  intro f
  induction f with
  | zero =>
    intro w hf _
    have : w = [] := by cases w <;> simp_all
    subst this
    decide
  | succ f ih =>
    intro w hf hn
    cases w with
    | nil => decide
    | cons c r =>
      obtain ⟨hc, hr⟩ := noNul_cons.mp hn
      have h0 : Bytes.hd (c :: r) ≠ 0 := by simpa using hc
      have h0' : Bytes.hd ((c :: r) ++ [10]) ≠ 0 := by simpa using hc
      rw [Lemmas.C08.slen_chr _ h0', Lemmas.C08.slen_chr _ h0]
      have hn1 : ucNext ((c :: r) ++ [10]) = ucNext (c :: r) := by
        rw [Lemmas.C08.ucNext_eq _ h0', Lemmas.C08.ucNext_eq _ h0]
        show ucEnd (c :: (r ++ [10])) + 1 = _
        rw [ucEnd_snoc_nl]
      rw [hn1]
      have hle := Lemmas.C08.ucNext_le (c :: r) h0
      have hpos := Lemmas.C08.ucNext_pos (c :: r) h0
      rw [List.drop_append_of_le_length hle]
      rw [ih ((c :: r).drop (ucNext (c :: r))) (by simp at hf ⊢; omega) (hn.drop _)]

/-- a line has one character more than its text before the newline -/
theorem slen_takeWhile_nl {l : Bytes} (h : LineOk l) : ucSlen l = ucSlen (l.takeWhile (· != 10)) + 1 := by
  obtain ⟨w, rfl, hw, hn⟩ := h
  have : (w ++ [10]).takeWhile (· != 10) = w := by
    rw [List.takeWhile_append_of_pos (by intro x hx; simp; intro h; subst h; exact hw hx)]
    simp
  rw [this]
  exact ucSlenF_snoc_nl _ w (Nat.le_refl _) hn

end Neatvi.Lemmas.C05f
