import NeatviVerif.Props.C08
import NeatviVerif.Props.C08b
/-!
# C08 (third part): the charwise delete / put round trip across several rows
-/
namespace Neatvi.Lemmas.C08c
open Neatvi Neatvi.Uc Neatvi.Vi Neatvi.Ex Neatvi.Lbuf Neatvi.Spec Neatvi.Lemmas.C08

/-- putting back the rows `a..b` in place of the one row they were replaced by -/
theorem splice_restore_multi {α : Type} (L : List α) (a b : Nat) (y : α) (hab : a ≤ b) (hb : b < L.length) :
    (L.take a ++ [y] ++ L.drop (b + 1)).take a ++ (L.drop a).take (b - a + 1) ++
      (L.take a ++ [y] ++ L.drop (b + 1)).drop (a + 1) = L := by
  have hl : (L.take a).length = a := by simp; omega
  have e1 : (L.take a ++ [y] ++ L.drop (b + 1)).take a = L.take a := by
    rw [List.append_assoc, List.take_append_of_le_length (by omega)]
    exact List.take_of_length_le (by omega)
  have hl2 : (L.take a ++ [y]).length = a + 1 := by rw [List.length_append, hl]; rfl
  have e2 : (L.take a ++ [y] ++ L.drop (b + 1)).drop (a + 1) = L.drop (b + 1) := by
    rw [List.drop_append_of_le_length (by omega)]
    rw [List.drop_of_length_le (l := L.take a ++ [y]) (by omega), List.nil_append]
  rw [e1, e2]
  rw [show L.drop (b + 1) = (L.drop a).drop (b - a + 1) by rw [List.drop_drop]; congr 1; omega]
  rw [List.append_assoc, List.take_append_drop, List.take_append_drop]

/-- the row that replaced the rows `a..b` sits at index `a` -/
theorem splice_get {α : Type} (L : List α) (a b : Nat) (y : α) (ha : a ≤ L.length) :
    (L.take a ++ [y] ++ L.drop (b + 1))[a]? = some y := by
  rw [List.append_assoc, List.getElem?_append_right (by simp; omega)]
  simp only [List.length_take]
  rw [show a - min a L.length = 0 by omega]
  rfl

open Neatvi.Props.C08 in
/-- charwise across rows: `d` from character `n1` of row `r1` up to (not including) character `n2` of
row `r2 > r1` into the unnamed register, then `P`, restores the text.  Rows `r1` and `r2` are valid
UTF-8 (`body1`, `body2` and the newline), every line of the buffer is well formed; `n1` may be the
newline of row `r1`, `n2` is a character of `body2` (so the cursor of the joined line is on a character
and `ren_noeol` leaves it there). -/
theorem delete_put_roundtrip_char_multi (s s1 s2 : VS) (a b : Nat) (r1 r2 : Int) (n1 n2 : Nat)
    (body1 body2 : List Nat)
    (hwf : RegsWf s.ed.regs) (hy : s.ybuf = 0) (ha : s.arg1 ≤ 1)
    (h0 : 0 ≤ r1) (h12 : r1 < r2) (h2 : r2 < lenOf s)
    (hlines : ∀ l ∈ Vi.lines s, Props.C01.WfLine l)
    (hl1 : (Vi.lines s)[r1.toNat]? = some (encStr (body1 ++ [10])))
    (hl2 : (Vi.lines s)[r2.toNat]? = some (encStr (body2 ++ [10])))
    (hv1 : ∀ c ∈ body1, ValidCp c) (hv2 : ∀ c ∈ body2, ValidCp c) (h10a : 10 ∉ body1) (h10b : 10 ∉ body2)
    (hn1 : n1 ≤ body1.length) (hn2 : n2 < body2.length)
    (hd : viDelete r1 n1 r2 n2 false s = Res.ok a s1)
    (hp : vcPut 80 s1 = Res.ok b s2) :
    Vi.lines s2 = Vi.lines s ∧ s2.ed.xrow = r1 := by
  have hlineE1 : lineE s r1 = encStr (body1 ++ [10]) := lineE_eq s r1 h0 _ hl1
  have hlineE2 : lineE s r2 = encStr (body2 ++ [10]) := lineE_eq s r2 (by omega) _ hl2
  obtain ⟨region, pref, post, hreg, hpref, hpost, hls1, hregs1, hx1, hoff1, _, hy1, ha1⟩ :=
    viDelete_char_spec r1 n1 r2 n2 s s1 a hd h0 (by omega) h2
  have hva := Neatvi.Lemmas.C08b.valid_snoc_ten hv1
  have hvb := Neatvi.Lemmas.C08b.valid_snoc_ten hv2
  obtain ⟨p1, t1⟩ := Neatvi.Lemmas.C08b.subI_line body1 hv1 n1 hn1
  obtain ⟨p2, t2⟩ := Neatvi.Lemmas.C08b.subI_line body2 hv2 n2 (by omega)
  rw [hlineE1, p1] at hpref
  rw [hlineE2, t2] at hpost
  rw [Props.C08.lbufRegion_multi s r1 n1 r2 n2 (by omega) _ _ (by rw [hlineE1]; exact t1) (by rw [hlineE2]; exact p2)] at hreg
  cases hreg; cases hpref; cases hpost
  rw [show (r1 + 1).toNat = r1.toNat + 1 by omega] at hregs1
  generalize hmid : ((Vi.lines s).drop (r1.toNat + 1)).take (r2.toNat - (r1.toNat + 1)) = mid at hregs1
  generalize hregion : encStr (body1.drop n1 ++ [10]) ++ mid.flatten ++ encStr (body2.take n2) = region at hregs1
  -- the joined line
  rw [← encStr_append, ← List.append_assoc] at hls1
  generalize hb' : body1.take n1 ++ body2.drop n2 = body' at hls1
  have hb'len : body'.length = n1 + (body2.length - n2) := by
    rw [← hb']; simp; omega
  have hnl' : 10 ∉ body' := by
    rw [← hb']; intro hm
    rcases List.mem_append.mp hm with hm | hm
    · exact h10a (List.mem_of_mem_take hm)
    · exact h10b (List.mem_of_mem_drop hm)
  have hvalid' : ∀ c ∈ body' ++ [10], ValidCp c := by
    intro c hc
    rcases List.mem_append.mp hc with hc | hc
    · rw [← hb'] at hc
      rcases List.mem_append.mp hc with hc | hc
      · exact hv1 c (List.mem_of_mem_take hc)
      · exact hv2 c (List.mem_of_mem_drop hc)
    · simp at hc; subst hc; decide
  rw [splitLines_wf _ (wfLine_enc hnl')] at hls1
  -- the state before the put
  have hL : lenOf s = ((Vi.lines s).length : Int) := rfl
  have hr1lt : r1.toNat < (Vi.lines s).length := by omega
  have hr2lt : r2.toNat < (Vi.lines s).length := by omega
  have hL1 : r1 < lenOf s1 := by
    show r1 < ((Vi.lines s1).length : Int)
    rw [hls1]
    simp only [List.length_append, List.length_take, List.length_drop, List.length_singleton]
    omega
  have hline1 : (Vi.lines s1)[r1.toNat]? = some (encStr (body' ++ [10])) := by
    rw [hls1]; exact splice_get _ _ _ _ (by omega)
  have hlineE1' : lineE s1 r1 = encStr (body' ++ [10]) := lineE_eq s1 r1 h0 _ hline1
  have hregion_ne : region ≠ [] := by
    rw [← hregion, encStr_append, encStr_cons, enc_ten]
    simp
  have hrd : regGetLn s1.ed s1.ybuf = (some region, some 0) := by
    rw [hy1, hy]
    exact yank_readback s1.ed s.ed.regs 0 _ 0 (by rw [hregs1, hy]) hwf (by omega) (by decide)
      (by decide) (by decide) (by decide)
  obtain ⟨x, y, hx, hy', hls2, hx2, _, _⟩ := vcPut_char_spec 80 s1 s2 b _ hrd hregion_ne
    (by rw [hx1]; exact h0) (by rw [hx1]; exact hL1) hp
  -- where the put inserts
  have hc0 : (body' ++ [10])[n1]? = some (body2[n2]'hn2) := by
    rw [← hb', List.append_assoc, List.getElem?_append_right (by simp; omega)]
    simp only [List.length_take]
    rw [show n1 - min n1 body1.length = 0 by omega]
    rw [List.getElem?_append_left (by simp; omega)]
    simp
  have hc10 : body2[n2]'hn2 ≠ 10 := fun he => h10b (he ▸ List.getElem_mem hn2)
  have hoff : putOff 80 s1 = (n1 : Int) := by
    unfold putOff putLine
    rw [hx1, if_pos hL1, hlineE1', hoff1, renNoeol_keep hvalid' n1 _ hc0 hc10]
    simp
  rw [hx1, hlineE1', hoff] at hx hy'
  rw [subI_enc_head hvalid' n1 (by simp; omega)] at hx
  rw [subI_enc_tail hvalid' n1 (by simp; omega)] at hy'
  cases hx; cases hy'
  have t4 : (body' ++ [10]).take n1 = body1.take n1 := by
    rw [← hb', List.append_assoc, List.take_append_of_le_length (by simp; omega)]
    exact List.take_of_length_le (by simp; omega)
  have t5 : (body' ++ [10]).drop n1 = body2.drop n2 ++ [10] := by
    rw [← hb', List.append_assoc, List.drop_append_of_le_length (by simp; omega)]
    rw [List.drop_of_length_le (l := body1.take n1) (by simp; omega), List.nil_append]
  have hslice := slice_split (Vi.lines s) r1.toNat r2.toNat _ _ (by omega) hl1 hl2
  rw [hmid] at hslice
  have hjoin : encStr ((body' ++ [10]).take n1) ++ putRep s1 region ++ encStr ((body' ++ [10]).drop n1) =
      (((Vi.lines s).drop r1.toNat).take (r2.toNat - r1.toNat + 1)).flatten := by
    rw [putRep_one s1 _ (by rw [ha1]; exact ha), t4, t5, hslice, ← hregion]
    simp only [List.flatten_append, List.flatten_cons, List.flatten_nil, List.append_nil, List.append_assoc]
    rw [← List.append_assoc (encStr (body1.take n1)), ← encStr_append, ← List.append_assoc (body1.take n1),
      List.take_append_drop]
    congr 2
    rw [← encStr_append, ← List.append_assoc, List.take_append_drop]
  have hsl_wf : ∀ l ∈ ((Vi.lines s).drop r1.toNat).take (r2.toNat - r1.toNat + 1), Props.C01.WfLine l :=
    fun l hl => hlines l (List.mem_of_mem_drop (List.mem_of_mem_take hl))
  rw [hjoin, hx1, Props.C01.split_of_join _ hsl_wf, hls1] at hls2
  refine ⟨?_, by rw [hx2, hx1]⟩
  rw [hls2]
  exact splice_restore_multi (Vi.lines s) r1.toNat r2.toNat _ (by omega) hr2lt

end Neatvi.Lemmas.C08c
