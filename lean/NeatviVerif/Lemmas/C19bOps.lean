import NeatviVerif.Props.C19
/-!
# C19b, the logged operations of `vi_drawfix`: definitions and fold lemmas

`drawFixOps` (in `Model/Screen.lean`) lists the primitive operations of `vi_drawfix` with *screen* rows, as
the harness logs them.  To replay them on the abstract terminal one has to know which buffer row a screen
row stands for, i.e. the `xtop` in force when the row is drawn: in preview mode the first loop of
`vi_drawfix` runs with `xtop` shifted by `-dis`.  `drawFixOpsX` is the same list with that `xtop` attached
to every operation; `applyOpAt` replays one such pair.
-/
namespace Neatvi.Lemmas.C19b
open Neatvi Neatvi.Mot Neatvi.Screen Neatvi.Lemmas.C19 Neatvi.Props.C19

/-- the effect of one logged operation, given the `xtop` in force when it was performed:
    `Op.row k` draws the buffer row `xt + k` on the text row `k` -/
def applyOpAt (ls : Lines) (xleft : Int) (s : Scr) : Op × Int → Scr
  | (Op.room r n, _) => room s r n
  | (Op.row k, xt) => drawRow s ls xt xleft (xt + k)

/-- `drawFixOps` with the `xtop` in force attached to every operation -/
def drawFixOpsX (rows : Nat) (xtop : Int) (r1 r2 n : Int) (preview : Bool) : List (Op × Int) :=
  let xrows : Int := rows
  let dis := n - (r2 - r1 + 1)
  let xtop := if preview && r1 < xtop then r1 else xtop
  if r1 < xtop then (List.range rows).map (fun (k : Nat) => (Op.row (k : Int), xtop)) else
  let r1 := min (max r1 xtop) (xtop + xrows - 1)
  let r2 := min (max r2 xtop) (xtop + xrows - 1)
  [(Op.room (r1 - xtop) (r1 - r2 - 1 + n), xtop)] ++
  (if dis < 0 && r1 + n < xtop + xrows then
    let xt := xtop + (if preview then -dis else 0)
    let from_ := r1 + n + (if preview then -dis else 0)
    (List.range (xt + xrows - from_).toNat).map (fun (i : Nat) => (Op.row (from_ + (i : Int) - xt), xt))
   else []) ++
  ((List.range (xtop + xrows - r1).toNat).filterMap (fun (i : Nat) =>
    let row := r1 + (i : Int); if row < r1 + n then some (Op.row (row - xtop), xtop) else none))

theorem applyOpAt_eq_applyOp (ls : Lines) (xtop xleft : Int) (s : Scr) (o : Op) :
    applyOpAt ls xleft s (o, xtop) = applyOp ls xtop xleft s o := by
  cases o <;> rfl

/-- replaying with a constant `xtop` is the plain replay -/
theorem foldl_applyOpAt_const (ls : Lines) (xtop xleft : Int) (l : List Op) (s : Scr) :
    (l.map (fun o => (o, xtop))).foldl (applyOpAt ls xleft) s = l.foldl (applyOp ls xtop xleft) s := by
  rw [List.foldl_map]
  congr 1
  funext s o
  exact applyOpAt_eq_applyOp ls xtop xleft s o

theorem foldl_applyOpAt_rows (ls : Lines) (xt xleft : Int) (f g : Nat → Int) (l : List Nat) (s : Scr)
    (h : ∀ i, xt + g i = f i) :
    (l.map (fun i => (Op.row (g i), xt))).foldl (applyOpAt ls xleft) s = drawRows s ls xt xleft (l.map f) := by
  unfold drawRows
  rw [List.foldl_map, List.foldl_map]
  congr 1
  funext s i
  simp only [applyOpAt, h]

theorem foldl_applyOpAt_filterMap (ls : Lines) (xt xleft : Int) (f g : Nat → Int) (c : Nat → Prop)
    [DecidablePred c] (l : List Nat) (s : Scr) (h : ∀ i, xt + g i = f i) :
    (l.filterMap (fun i => if c i then some (Op.row (g i), xt) else none)).foldl (applyOpAt ls xleft) s =
      drawRows s ls xt xleft (l.filterMap (fun i => if c i then some (f i) else none)) := by
  induction l generalizing s with
  | nil => rfl
  | cons a l ih =>
    by_cases hc : c a
    · rw [List.filterMap_cons_some (by rw [if_pos hc]), List.filterMap_cons_some (by rw [if_pos hc]),
        List.foldl_cons, drawRows_cons, ih]
      simp only [applyOpAt, h]
    · rw [List.filterMap_cons_none (by rw [if_neg hc]), List.filterMap_cons_none (by rw [if_neg hc]), ih]

/-- the extended replay of `drawFixOpsX`, for both values of `preview` -/
theorem drawFix_opsX (s : Scr) (ls : Lines) (xtop xleft r1 r2 n : Int) (p : Bool) :
    (drawFix s ls xtop xleft r1 r2 n p).1 =
      (drawFixOpsX s.length xtop r1 r2 n p).foldl (applyOpAt ls xleft) s := by
  unfold drawFix drawFixOpsX
  simp only []
  generalize (if (p && decide (r1 < xtop)) = true then r1 else xtop) = t
  by_cases hg : r1 < t
  · rw [if_pos hg, if_pos hg]
    exact (foldl_applyOpAt_rows ls t xleft (fun k => t + (k : Int)) (fun k => (k : Int)) _ s (fun _ => rfl)).symm
  · rw [if_neg hg, if_neg hg, List.foldl_append, List.foldl_append, List.foldl_cons, List.foldl_nil]
    simp only [applyOpAt]
    generalize min (max r1 t) (t + (s.length : Int) - 1) = c1
    generalize min (max r2 t) (t + (s.length : Int) - 1) = c2
    generalize room s (c1 - t) (c1 - c2 - 1 + n) = s1
    rw [foldl_applyOpAt_filterMap ls t xleft (fun i => c1 + (i : Int)) (fun i => c1 + (i : Int) - t)
      (fun i => c1 + (i : Int) < c1 + n) _ _ (fun i => by omega)]
    congr 1
    split
    · rw [foldl_applyOpAt_rows]
      intro i; omega
    · rfl

/-- forgetting the attached `xtop` gives the list the harness compares -/
theorem drawFixOps_eq_map_fst (rows : Nat) (xtop r1 r2 n : Int) (p : Bool) :
    drawFixOps rows xtop r1 r2 n p = (drawFixOpsX rows xtop r1 r2 n p).map Prod.fst := by
  unfold drawFixOps drawFixOpsX
  simp only []
  generalize (if (p && decide (r1 < xtop)) = true then r1 else xtop) = t
  by_cases hg : r1 < t
  · rw [if_pos hg, if_pos hg, List.map_map]; rfl
  · rw [if_neg hg, if_neg hg, List.map_append, List.map_append, List.map_filterMap]
    congr 1
    · congr 1
      split
      · rw [List.map_map]; rfl
      · rfl
    · congr 1
      funext i
      split <;> rfl

/-- without preview every operation is performed under the `xtop` of the call -/
theorem drawFixOpsX_false (rows : Nat) (xtop r1 r2 n : Int) :
    drawFixOpsX rows xtop r1 r2 n false = (drawFixOps rows xtop r1 r2 n false).map (fun o => (o, xtop)) := by
  unfold drawFixOps drawFixOpsX
  simp only [Bool.false_and, Bool.false_eq_true, if_false, Int.add_zero]
  split
  · rw [List.map_map]; rfl
  · rw [List.map_append, List.map_append, List.map_filterMap]
    congr 1
    · congr 1
      split
      · rw [List.map_map]; rfl
      · rfl
    · congr 1
      funext i
      split <;> rfl

/-! ### membership of `Op.row k` in the lists the routines build -/

theorem row_mem_rangeMap (g : Nat → Int) (m : Nat) (k : Int) :
    Op.row k ∈ (List.range m).map (fun (i : Nat) => Op.row (g i)) ↔ ∃ i, i < m ∧ g i = k := by
  simp only [List.mem_map, List.mem_range, Op.row.injEq]

theorem row_mem_rangeFilterMap (g : Nat → Int) (c : Nat → Prop) [DecidablePred c] (m : Nat) (k : Int) :
    Op.row k ∈ (List.range m).filterMap (fun (i : Nat) => if c i then some (Op.row (g i)) else none) ↔
      ∃ i, i < m ∧ c i ∧ g i = k := by
  simp only [List.mem_filterMap, List.mem_range]
  constructor
  · rintro ⟨i, hi, h⟩
    split at h
    · rename_i hc
      simp only [Option.some.injEq, Op.row.injEq] at h
      exact ⟨i, hi, hc, h⟩
    · cases h
  · rintro ⟨i, hi, hc, h⟩
    exact ⟨i, hi, by rw [if_pos hc, h]⟩

end Neatvi.Lemmas.C19b
