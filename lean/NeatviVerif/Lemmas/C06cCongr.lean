import NeatviVerif.Lemmas.C06cGuard
import NeatviVerif.Lemmas.C05bEx
/-!
# C06c, helpers: address evaluation and `ex_pathexpand` do not see what the guard of `ec_exec` changed

`exRegion`, run in a state `y` that shows the same text, marks, current row, search keyword and `ic` option as `x`,
returns what it returns in `x`, with the same address side effects.
-/
namespace Neatvi.Lemmas.C06c
open Neatvi Neatvi.Lbuf Neatvi.Ex Neatvi.Lemmas.C06 Neatvi.Lemmas.C06b Neatvi.Lemmas.C05b

/-- `y` shows the same text, marks, current row, search keyword and `ic` option as `x` -/
structure SameAddr (x y : Ed) : Prop where
  xrow : y.xrow = x.xrow
  xkwd : y.xkwd = x.xkwd
  xkwddir : y.xkwddir = x.xkwddir
  xic : y.xic = x.xic
  len : y.len = x.len
  line : ∀ i, y.line i = x.line i
  jump : ∀ c, y.lb.bind (fun l => jump l c) = x.lb.bind (fun l => jump l c)

/-- carry the address side effects of `x'` over to `y` -/
def carry (y x' : Ed) : Ed := { y with xrow := x'.xrow, xkwd := x'.xkwd, xkwddir := x'.xkwddir }

theorem carry_self {x y : Ed} (h : SameAddr x y) : carry y x = y := by
  unfold carry
  rw [← h.xrow, ← h.xkwd, ← h.xkwddir]

theorem carry_carry (y x' x'' : Ed) : carry (carry y x') x'' = carry y x'' := rfl

theorem sameAddr_carry {x y x' : Ed} (h : SameAddr x y) (ha : AddrOnly x x') : SameAddr x' (carry y x') := by
  obtain ⟨r, k, d, rfl⟩ := ha
  exact ⟨rfl, rfl, rfl, h.xic, h.len, h.line, h.jump⟩

theorem carry_addrOnly (y x' : Ed) : AddrOnly y (carry y x') := ⟨_, _, _, rfl⟩

theorem scan_congr {x y : Ed} (h : SameAddr x y) (re : Rset.RStr) (dir len : Int) :
    ∀ (f : Nat) (row : Int), exSearch.scan y re dir len f row = exSearch.scan x re dir len f row := by
  intro f
  induction f with
  | zero => intro row; rfl
  | succ f ih =>
    intro row
    rw [exSearch.scan, exSearch.scan, h.line row]
    split
    · rfl
    · split
      · rfl
      · split
        · rfl
        · split
          · rfl
          · rw [ih]

theorem kwEd_congr {x y : Ed} (h : SameAddr x y) (kw : Option Bytes) (d : Int) :
    kwEd y kw d = carry y (kwEd x kw d) := by
  unfold kwEd
  split
  · split
    · unfold Ed.kwdSet carry
      simp only []
      rw [← h.xrow]
    · exact (carry_self h).symm
  · exact (carry_self h).symm

theorem exSearch_congr {x y : Ed} (h : SameAddr x y) (loc : Bytes) :
    exSearch y loc = (exSearch x loc).map (fun p => (p.1, carry y p.2)) := by
  rw [exSearch_eq, exSearch_eq, kwEd_congr h]
  have ha : AddrOnly x (kwEd x (reRead loc).1 (if loc.headD 0 == 47 then 1 else -1)) := kw_addrOnly _ _ _
  generalize kwEd x (reRead loc).1 (if loc.headD 0 == 47 then 1 else -1) = x1 at ha
  have h1 := sameAddr_carry h ha
  simp only []
  rw [h1.xkwddir]
  split
  · rfl
  · have hre : (carry y x1).mkRe (carry y x1).xkwd = x1.mkRe x1.xkwd := by
      unfold Ed.mkRe; rw [h1.xic, h1.xkwd]
    rw [hre]
    split
    · rfl
    · rfl
    · rw [h1.len, h1.xrow, scan_congr h1]
      split <;> rfl

theorem exLinenoBase_congr {x y : Ed} (h : SameAddr x y) (loc : Bytes) :
    exLinenoBase y loc = (exLinenoBase x loc).map (fun p => (p.1, carry y p.2)) := by
  have hs := carry_self h
  unfold exLinenoBase
  rw [h.xrow, h.len, h.jump, exSearch_congr h]
  split
  · simp only [Option.map_some, hs]
  · split
    · simp only [Option.map_some, hs]
    · split
      · split <;> simp only [Option.map_some, hs]
      · split
        · cases exSearch x loc with
          | none => rfl
          | some p =>
            obtain ⟨⟨n, rest⟩, x1⟩ := p
            simp only [Option.map_some]
            split <;> rfl
        · split <;> simp only [Option.map_some, hs]

theorem exLineno_congr {x y : Ed} (h : SameAddr x y) (loc : Bytes) :
    exLineno y loc = (exLineno x loc).map (fun p => (p.1, carry y p.2)) := by
  rw [exLineno_eq, exLineno_eq, exLinenoBase_congr h]
  cases exLinenoBase x loc with
  | none => rfl
  | some p =>
    obtain ⟨⟨n, rest⟩, x1⟩ := p
    simp only [Option.map_some]
    split <;> rfl

theorem go_congr : ∀ (f : Nat) (x y : Ed), SameAddr x y → ∀ (loc : Bytes) (na : Nat) (b e : Int),
    exRegion.go f y loc na b e = (exRegion.go f x loc na b e).map (fun p => (p.1, carry y p.2)) := by
  intro f
  induction f with
  | zero =>
    intro x y h loc na b e
    simp only [exRegion.go, Option.map_some, carry_self h]
  | succ f ih =>
    intro x y h loc na b e
    rw [exRegion.go, exRegion.go, exLineno_congr h]
    split
    · simp only [Option.map_some, carry_self h]
    · cases hl : exLineno x loc with
      | none => rfl
      | some p =>
        obtain ⟨⟨n, rest⟩, x1⟩ := p
        have h1 := sameAddr_carry h (exLineno_addrOnly _ _ _ _ hl)
        simp only [Option.map_some]
        split
        · rfl
        · split
          · rfl
          · split
            · have h2 : SameAddr { x1 with xrow := n + 1 - 1 } { carry y x1 with xrow := n + 1 - 1 } :=
                ⟨rfl, h1.xkwd, h1.xkwddir, h1.xic, h1.len, h1.line, h1.jump⟩
              rw [ih _ _ h2]
              rfl
            · rw [ih _ _ h1]
              rfl

/-- **address evaluation only looks at the text, the marks, the current row, the keyword and `ic`** -/
theorem exRegion_congr {x y : Ed} (h : SameAddr x y) (loc : Bytes) :
    exRegion y loc = (exRegion x loc).map (fun p => (p.1, carry y p.2)) := by
  have hs := carry_self h
  unfold exRegion
  simp only []
  rw [h.len, h.xrow, go_congr _ _ _ h]
  split
  · simp only [Option.map_some, hs]
  · split
    · simp only [Option.map_some, hs]
    · cases hg : exRegion.go (loc.length + 1) x loc 0 0 0 with
      | none => rfl
      | some p =>
        obtain ⟨⟨b, e⟩, x1⟩ := p
        have h1 := sameAddr_carry h (go_addrOnly _ _ _ _ _ _ _ _ hg)
        simp only [Option.map_some]
        rw [h1.len]
        repeat' split
        all_goals rfl

/-! ### the guard's frame -/

theorem lb_modifiedAt0 (ed : Ed) : (ed.modifiedAt 0).2.lb = ed.lb.map (fun l => (modified l).2) := by
  unfold Ed.modifiedAt Ed.lb Ed.cur
  cases hb : ed.bufs with
  | nil => simp [hb]
  | cons x xs =>
    cases x with
    | none => simp [hb]
    | some b => simp

theorem GuardFrame.lb {ed edg : Ed} (h : GuardFrame ed edg) :
    edg.lb = ed.lb ∨ edg.lb = ed.lb.map (fun l => (modified l).2) := by
  rcases h.bufs with hb | hb
  · exact Or.inl (ExFrame.lb_of_bufs hb)
  · right; rw [ExFrame.lb_of_bufs hb, lb_modifiedAt0]

theorem GuardFrame.sameAddr {ed edg : Ed} (h : GuardFrame ed edg) : SameAddr ed edg := by
  have hf := h.fields
  refine ⟨by rw [hf], by rw [hf], by rw [hf], by rw [hf], h.len, ?_, ?_⟩
  · intro i
    unfold Ed.line
    rcases h.lb with hl | hl <;> rw [hl]
    cases ed.lb <;> rfl
  · intro c
    rcases h.lb with hl | hl <;> rw [hl]
    cases ed.lb <;> rfl

/-- the paths of the buffer table -/
def SamePaths (x y : Ed) : Prop :=
  ∀ i, (y.bufs.getD i none).map (·.path) = (x.bufs.getD i none).map (·.path)

theorem GuardFrame.samePaths {ed edg : Ed} (h : GuardFrame ed edg) : SamePaths ed edg := by
  intro i
  rcases h.bufs with hb | hb
  · rw [hb]
  · rw [hb]
    unfold Ed.modifiedAt
    cases h0 : ed.bufs.getD 0 none with
    | none => rfl
    | some b =>
      simp only []
      by_cases hi : i = 0
      · subst hi
        obtain ⟨hlt, _⟩ := C02Ex.getD_some h0
        rw [C02Ex.getD_set_self _ _ _ hlt, h0]
        rfl
      · rw [C02Ex.getD_set_ne _ _ _ _ (fun h => hi h.symm)]

theorem pathExpand_go_congr {x y : Ed} (h : SamePaths x y) (sp : Bool) :
    ∀ (f : Nat) (src dst : Bytes), pathExpand.go y sp f src dst = pathExpand.go x sp f src dst := by
  have hcur : y.cur.map (·.path) = x.cur.map (·.path) := h 0
  intro f
  induction f with
  | zero => intro src dst; rfl
  | succ f ih =>
    intro src dst
    cases src with
    | nil => rfl
    | cons c r =>
      rw [pathExpand.go, pathExpand.go]
      split
      · rfl
      · split
        · have := h (if (c == 35) = true then 1 else 0)
          cases hy : y.bufs.getD (if (c == 35) = true then 1 else 0) none with
          | none =>
            cases hx : x.bufs.getD (if (c == 35) = true then 1 else 0) none with
            | none => rfl
            | some bx => rw [hy, hx] at this; cases this
          | some by' =>
            cases hx : x.bufs.getD (if (c == 35) = true then 1 else 0) none with
            | none => rw [hy, hx] at this; cases this
            | some bx =>
              rw [hy, hx] at this
              simp only [Option.map_some, Option.some.injEq] at this
              simp only [this, ih]
        · split
          · cases hy : y.cur with
            | none =>
              cases hx : x.cur with
              | none => simp only [ih]
              | some bx => rw [hy, hx] at hcur; cases hcur
            | some by' =>
              cases hx : x.cur with
              | none => rw [hy, hx] at hcur; cases hcur
              | some bx =>
                rw [hy, hx] at hcur
                simp only [Option.map_some, Option.some.injEq] at hcur
                simp only [hcur, ih]
          · split <;> rw [ih]

/-- **`ex_pathexpand` only looks at the paths of the buffer table** -/
theorem pathExpand_congr {x y : Ed} (h : SamePaths x y) (src : Bytes) (sp : Bool) (p : Bytes) :
    pathExpand y src sp = some (some p, y) ↔ pathExpand x src sp = some (some p, x) := by
  unfold pathExpand
  rw [pathExpand_go_congr h]
  cases pathExpand.go x sp (src.length + 1) src [] with
  | none => simp
  | some o =>
    cases o with
    | none => simp
    | some q =>
      simp only []
      split <;> simp

theorem pathExpand_congr_none {x y : Ed} (h : SamePaths x y) (src : Bytes) (sp : Bool) :
    (∃ y', pathExpand y src sp = some (none, y')) ↔ (∃ x', pathExpand x src sp = some (none, x')) := by
  unfold pathExpand
  rw [pathExpand_go_congr h]
  cases pathExpand.go x sp (src.length + 1) src [] with
  | none => simp
  | some o =>
    cases o with
    | none => simp
    | some q =>
      simp only []
      split <;> simp

end Neatvi.Lemmas.C06c
