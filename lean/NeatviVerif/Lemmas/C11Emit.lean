import NeatviVerif.Lemmas.C11Parse
/-!
# C11, part 2: the length of the emitted code and the size estimate
-/
namespace Neatvi.Props.C11
open Neatvi Neatvi.Regex

/-! ## `emit_length_aux` -/

theorem emitCopies_length (body : Nat → List Inst) (bl : Nat) (hb : ∀ b, (body b).length = bl) :
    ∀ k base, (emitCopies body bl k base).length = k * bl := by
  intro k
  induction k with
  | zero => intro base; simp [emitCopies]
  | succ k ih => intro base; simp [emitCopies, hb, ih, Nat.succ_mul]; omega

theorem emitOpts_length (body : Nat → List Inst) (bl endA : Nat) (hb : ∀ b, (body b).length = bl) :
    ∀ k base, (emitOpts body bl endA k base).length = k * (1 + bl) := by
  intro k
  induction k with
  | zero => intro base; simp [emitOpts]
  | succ k ih => intro base; simp [emitOpts, hb, ih, Nat.succ_mul]; omega

theorem emitRep_length (body : Nat → List Inst) (bl : Nat) (mn mx : Int) (base : Nat)
    (hb : ∀ b, (body b).length = bl) : (emitRep body bl mn mx base).length = repLen bl mn mx := by
  unfold emitRep repLen
  split
  · rfl
  · split
    · exact hb base
    · simp only [List.length_append, emitCopies_length body bl hb, emitOpts_length body bl _ hb]
      congr 1
      congr 1
      · congr 1
        split <;> rfl
      · split <;> rfl

/-- the code emitted for a tree has the length `emitLen` computes, whatever the base address -/
theorem emit_length_aux (t : RNode) : ∀ base, (emit t base).length = emitLen t := by
  induction t with
  | nul => intro base; simp [emit, emitLen]
  | atom a mn mx =>
    intro base
    simp only [emit, emitLen]
    exact emitRep_length _ 1 mn mx base (fun _ => rfl)
  | cat a b iha ihb => intro base; simp [emit, emitLen, iha, ihb]
  | alt a b iha ihb => intro base; simp [emit, emitLen, iha, ihb]; omega
  | grp a g mn mx iha =>
    intro base
    simp only [emit, emitLen]
    exact emitRep_length _ (emitLen a + 2) mn mx base (fun b => by simp [iha])

/-! ## `emitLen_le_count` -/

theorem emitLen_grpnum (t : RNode) : ∀ num, emitLen (grpnum t num).1 = emitLen t := by
  induction t with
  | nul => intro num; rfl
  | atom a mn mx => intro num; rfl
  | cat a b iha ihb => intro num; simp [grpnum, emitLen, iha, ihb]
  | alt a b iha ihb => intro num; simp [grpnum, emitLen, iha, ihb]
  | grp a g mn mx iha => intro num; simp [grpnum, emitLen, iha]

/-- the arithmetic core: the wrapper around a body of `bl` instructions is within the estimate
    computed from any `n ≥ bl` -/
theorem repLen_le_countRep (bl : Nat) (n mn mx : Int) (hn : (bl : Int) ≤ n) (hr : RepOk mn mx) :
    (repLen bl mn mx : Int) ≤ countRep n mn mx := by
  obtain ⟨h0, _, _, hmx⟩ := hr
  unfold repLen countRep
  split
  · simp
  · rename_i h00
    split
    · exact hn
    · rename_i h11
      simp only [Bool.and_eq_true, beq_iff_eq, not_and] at h00 h11
      have hn0 : (0 : Int) ≤ n := by omega
      obtain ⟨N, rfl⟩ := Int.eq_ofNat_of_zero_le hn0
      obtain ⟨a, rfl⟩ := Int.eq_ofNat_of_zero_le h0
      have hbl : bl ≤ N := by omega
      by_cases hneg : mx < 0
      · -- unbounded
        have hopt : (mx - max 1 (a : Int)).toNat = 0 := by omega
        have hcop : (max 1 (a : Int)).toNat = max 1 a := by omega
        simp only [hneg, if_true, hopt, hcop]
        have hm : max 1 a * bl ≤ (a + 1) * N := Nat.mul_le_mul (by omega) hbl
        have e : ((a : Int) + 1) * (N : Int) = (((a + 1) * N : Nat) : Int) := by simp
        rw [e]
        by_cases ha : a = 0
        · have hz : ((a : Int) == 0) = true := by simp [ha]
          simp only [hz, if_true]
          omega
        · have hz : ((a : Int) == 0) = false := by simp; omega
          simp only [hz, Bool.false_eq_true, if_false]
          omega
      · -- bounded
        have hmx0 : 0 ≤ mx := by omega
        obtain ⟨b, rfl⟩ := Int.eq_ofNat_of_zero_le hmx0
        have hab : a ≤ b := by omega
        have hb1 : 1 ≤ b := by
          rcases Nat.eq_zero_or_pos b with hb | hb
          · subst hb
            have : a = 0 := by omega
            subst this
            exact absurd rfl (h00 rfl)
          · exact hb
        have hopt : ((b : Int) - max 1 (a : Int)).toNat = b - max 1 a := by omega
        have hcop : (max 1 (a : Int)).toNat = max 1 a := by omega
        simp only [hneg, if_false, hopt, hcop]
        have e : ((a : Int) + (b : Int)) * (N : Int) = (((a + b) * N : Nat) : Int) := by simp
        rw [e]
        have e2 : max 1 a * bl + (b - max 1 a) * (1 + bl) = b * bl + (b - max 1 a) := by
          have : b = max 1 a + (b - max 1 a) := by omega
          conv => rhs; rw [this]
          rw [Nat.add_mul, Nat.mul_add]
          omega
        have hm : b * bl ≤ b * N := Nat.mul_le_mul (Nat.le_refl b) hbl
        have e3 : (a + b) * N = a * N + b * N := Nat.add_mul _ _ _
        by_cases ha : a = 0
        · have hz : ((a : Int) == 0) = true := by simp [ha]
          simp only [hz, if_true]
          omega
        · have hz : ((a : Int) == 0) = false := by simp; omega
          simp only [hz, Bool.false_eq_true, if_false]
          omega

/-- the code of a well-formed tree is within the size estimate `rnode_count` -/
theorem emitLen_le_count_aux (t : RNode) : TreeOk t → (emitLen t : Int) ≤ count t := by
  induction t with
  | nul => intro _; simp [emitLen, count]
  | atom a mn mx =>
    intro h
    simp only [emitLen, count]
    exact repLen_le_countRep 1 1 mn mx (by simp) h
  | cat a b iha ihb =>
    intro h
    have := iha h.1
    have := ihb h.2
    simp only [emitLen, count]
    omega
  | alt a b iha ihb =>
    intro h
    have := iha h.1
    have := ihb h.2
    simp only [emitLen, count]
    omega
  | grp a g mn mx iha =>
    intro h
    have := iha h.1
    simp only [emitLen, count]
    exact repLen_le_countRep (emitLen a + 2) (count a + 2) mn mx (by omega) h.2

/-! ## `jmpend_bounded` -/

theorem jmpend_bounded_aux (mn mx : Int) (h : RepOk mn mx) :
    (if mn = 0 then 1 else 0) + (mx - max 1 mn).toNat ≤ Gen.NREPS := by
  obtain ⟨h0, h1, h2, h3⟩ := h
  have e : 1 ≤ Gen.NREPS := by decide
  split <;> omega

end Neatvi.Props.C11
