import NeatviVerif.Lemmas.C05bVi
/-!
# C05c helper lemmas: the two counts of the state are a frame of (almost) every function of vi.c

`Same m`: a computation that returns normally leaves `VS.arg1` and `VS.arg2` as they were.  It is closed
under `pure`, bind, `if`, `match`, recursion by fuel, and holds of every primitive state update that does
not mention the counts.  A small syntax-directed tactic (`same_tac`) walks a `do` block; its table of
leaves (`same_leaf`) grows with every function proved.

Every monadic function of `Model/Vi.lean` and `Model/ViCmd.lean` is covered here except the three that
assign a count (`viPre`, `vcMotion`) or call one of those (`commandTail`, `viStep`); these are in
`Props/C05c.lean`.
-/
set_option linter.unusedSimpArgs false
set_option linter.unusedVariables false

namespace Neatvi.Lemmas.C05c
open Neatvi Neatvi.Uc Neatvi.Lbuf Neatvi.Ex Neatvi.Mot Neatvi.Vi
open Neatvi.Lemmas.C05b

/-- a computation that returns normally leaves both counts alone -/
def Same {α : Type} (m : M α) : Prop :=
  ∀ s a s', m s = Res.ok a s' → s'.arg1 = s.arg1 ∧ s'.arg2 = s.arg2

theorem bind_inv {α β : Type} (m : M α) (f : α → M β) (s : VS) (b : β) (s' : VS)
    (h : (m >>= f) s = Res.ok b s') : ∃ a s1, m s = Res.ok a s1 ∧ f a s1 = Res.ok b s' := by
  rw [bind_apply] at h
  split at h
  · rename_i a s1 h1; exact ⟨a, s1, h1, h⟩
  · cases h
  · cases h

namespace Same

theorem pure {α : Type} (a : α) : Same (Pure.pure a : M α) := by
  intro s b s' h
  cases h
  exact ⟨rfl, rfl⟩

theorem bind {α β : Type} {m : M α} {f : α → M β} (hm : Same m) (hf : ∀ a, Same (f a)) :
    Same (m >>= f) := by
  intro s b s' h
  rw [bind_apply] at h
  split at h
  · rename_i a s1 h1
    obtain ⟨a1, a2⟩ := hm _ _ _ h1
    obtain ⟨b1, b2⟩ := hf a _ _ _ h
    exact ⟨b1.trans a1, b2.trans a2⟩
  · cases h
  · cases h

theorem get : Same Vi.get := by
  intro s a s' h
  cases h
  exact ⟨rfl, rfl⟩

theorem trap {α : Type} : Same (Vi.trap : M α) := by
  intro s a s' h
  cases h

theorem modify {f : VS → VS} (hf : ∀ s, (f s).arg1 = s.arg1 ∧ (f s).arg2 = s.arg2) : Same (Vi.modify f) := by
  intro s a s' h
  cases h
  exact hf s

/-- an update of the `Ed` component never touches the counts -/
theorem withEd (f : Ed → Ed) : Same (Vi.withEd f) := modify (fun _ => ⟨rfl, rfl⟩)

theorem ite {α : Type} {p : Prop} [Decidable p] {a b : M α} (ha : Same a) (hb : Same b) :
    Same (if p then a else b) := by
  split <;> assumption

theorem liftO {α : Type} (o : Option α) : Same (Vi.liftO o) := by
  intro s a s' h
  unfold Vi.liftO at h
  split at h
  · cases h; exact ⟨rfl, rfl⟩
  · cases h

theorem repeatM (n : Nat) {m : M Unit} (hm : Same m) : Same (Vi.repeatM n m) := by
  induction n with
  | zero => exact pure _
  | succ n ih => exact bind hm (fun _ => ih)

end Same

/-! ### the primitives -/

theorem same_termRead : Same termRead := fun s a s' h => termRead_args s s' a h
theorem same_viRead : Same viRead := fun s a s' h => viRead_args s s' a h
theorem same_viPrefix : Same viPrefix := fun s a s' h => viPrefix_args s s' a h
theorem same_termCmd : Same termCmd := by
  intro s a s' h
  cases h
  exact ⟨rfl, rfl⟩
theorem same_termPush (x : Bytes) : Same (termPush x) := Same.modify (fun _ => ⟨rfl, rfl⟩)
theorem same_viBack (c : Int) : Same (viBack c) := Same.modify (fun _ => ⟨rfl, rfl⟩)
theorem same_unmodelled : Same Vi.unmodelled := Same.modify (fun _ => ⟨rfl, rfl⟩)
theorem same_setMsg (m : Bytes) : Same (setMsg m) := Same.modify (fun _ => ⟨rfl, rfl⟩)
theorem same_setPos (r o : Int) : Same (setPos r o) := Same.withEd _
theorem same_setRow (r : Int) : Same (setRow r) := Same.withEd _
theorem same_setOff (o : Int) : Same (setOff o) := Same.withEd _
theorem same_setTop (t : Int) : Same (setTop t) := Same.withEd _
theorem same_markSet (c : Nat) (r o : Int) : Same (markSet c r o) := Same.withEd _
theorem same_regPut (c : Nat) (txt : Bytes) (ln : Nat) : Same (regPut c txt ln) := Same.withEd _
theorem same_viNextline : Same viNextline := Same.withEd _
theorem same_lbufModified : Same lbufModified := Same.withEd _

theorem same_edEdit (txt : Option Bytes) (b e : Int) : Same (edEdit txt b e) := by
  intro s a s' h
  unfold edEdit at h
  split at h
  · cases h; exact ⟨rfl, rfl⟩
  · cases h

/-- `ex_command` from the vi loop works on `VS.ed` (and the `xai` / `unmodelled` flags) only -/
theorem same_exCommandV (ln : Bytes) : Same (exCommandV ln) := by
  intro s a s' h
  unfold exCommandV at h
  split at h
  · cases h; exact ⟨rfl, rfl⟩
  · simp only [] at h
    split at h
    · cases h
    · cases h
      simp only []
      split
      · split
        · exact ⟨rfl, rfl⟩
        · split <;> exact ⟨rfl, rfl⟩
      · exact ⟨rfl, rfl⟩

/-! ### the tactic -/

/-- the table of leaves: extended by `macro_rules` after every function proved -/
syntax "same_leaf" : tactic
macro_rules | `(tactic| same_leaf) => `(tactic| first
  | with_reducible assumption
  | with_reducible exact Same.pure _
  | with_reducible exact Same.get
  | with_reducible exact Same.trap
  | with_reducible exact same_viRead
  | with_reducible exact same_termRead
  | with_reducible exact same_termCmd
  | with_reducible exact same_viBack _
  | with_reducible exact same_termPush _
  | with_reducible exact same_unmodelled
  | with_reducible exact same_setMsg _
  | with_reducible exact same_setPos _ _
  | with_reducible exact same_setRow _
  | with_reducible exact same_setOff _
  | with_reducible exact same_setTop _
  | with_reducible exact same_markSet _ _ _
  | with_reducible exact same_regPut _ _ _
  | with_reducible exact same_viNextline
  | with_reducible exact same_lbufModified
  | with_reducible exact same_edEdit _ _ _
  | with_reducible exact same_exCommandV _
  | with_reducible exact same_viPrefix
  | with_reducible exact Same.liftO _
  | with_reducible exact Same.withEd _
  | (with_reducible refine Same.modify (fun _ => ?_)); exact ⟨rfl, rfl⟩)

macro "same_step" : tactic => `(tactic| first
  | same_leaf
  | with_reducible refine Same.repeatM _ ?_
  | with_reducible refine Same.bind ?_ (fun _ => ?_)
  | with_reducible refine Same.ite ?_ ?_
  | dsimp only
  | (show Same _; split))

macro "same_tac" : tactic => `(tactic| repeat' same_step)

/-! ### prefixes, characters, prompts -/

theorem same_viYankbuf : Same viYankbuf := by
  unfold viYankbuf
  same_tac
macro_rules | `(tactic| same_leaf) => `(tactic| with_reducible exact same_viYankbuf)

theorem same_more (k : Nat) (acc : Bytes) : Same (readCharS.more k acc) := by
  induction k generalizing acc with
  | zero => unfold readCharS.more; same_tac
  | succ k ih => unfold readCharS.more; repeat' (first | exact ih _ | same_step)

theorem same_readKey_more (k : Nat) : Same (readKey.more k) := by
  induction k with
  | zero => unfold readKey.more; same_tac
  | succ k ih => unfold readKey.more; repeat' (first | exact ih | same_step)

/-- `led_readkey()` touches only the key queue, like `termRead` -/
theorem same_readKey : Same readKey := by
  unfold readKey
  repeat' (first | exact same_readKey_more _ | same_step)
macro_rules | `(tactic| same_leaf) => `(tactic| with_reducible exact same_readKey)

theorem same_readCharS (c : Int) (kmap : Nat) : Same (readCharS c kmap) := by
  unfold readCharS
  repeat' (first | exact same_more _ _ | same_step)
macro_rules | `(tactic| same_leaf) => `(tactic| with_reducible exact same_readCharS _ _)

theorem same_viChar_go (f : Nat) : Same (viChar.go f) := by
  induction f with
  | zero => unfold viChar.go; same_tac
  | succ f ih => unfold viChar.go; repeat' (first | exact ih | same_step)

theorem same_viChar : Same viChar := by
  unfold viChar
  exact same_viChar_go _
macro_rules | `(tactic| same_leaf) => `(tactic| with_reducible exact same_viChar)

theorem same_ledLine_go (post : Bytes) (aiMax : Nat) (im pe : Bool) (setKmap : Option Nat → M Unit)
    (getKmap : M Nat) (redraw : Bytes → Bytes → Bytes → M Unit)
    (h1 : ∀ k, Same (setKmap k)) (h2 : Same getKmap) (h3 : ∀ a b c, Same (redraw a b c))
    (f : Nat) (sb ai : Bytes) (c1 : Int) :
    Same (ledLine.go post aiMax im pe setKmap getKmap redraw f sb ai c1) := by
  induction f generalizing sb ai c1 with
  | zero => unfold ledLine.go; same_tac
  | succ f ih =>
    unfold ledLine.go
    repeat' (first | exact h1 _ | exact h2 | exact h3 _ _ _ | exact ih _ _ _ | same_step)

theorem same_ledLine (pref post ai0 : Bytes) (aiMax : Nat) (im ex : Bool) :
    Same (ledLine pref post ai0 aiMax im ex) := by
  unfold ledLine
  dsimp only
  apply same_ledLine_go
  · intro k
    refine Same.modify (fun s => ?_)
    split <;> exact ⟨rfl, rfl⟩
  · intro s a s' h
    cases h
    exact ⟨rfl, rfl⟩
  · intro a b c
    same_tac
macro_rules | `(tactic| same_leaf) => `(tactic| with_reducible exact same_ledLine _ _ _ _ _ _)

theorem same_viPrompt (ex : Bool) : Same (viPrompt ex) := by
  unfold viPrompt
  same_tac
macro_rules | `(tactic| same_leaf) => `(tactic| with_reducible exact same_viPrompt _)

/-! ### searching and motions -/

theorem same_viSearch (cmd : Nat) (cnt r o : Int) : Same (viSearch cmd cnt r o) := by
  unfold viSearch
  same_tac
macro_rules | `(tactic| same_leaf) => `(tactic| with_reducible exact same_viSearch _ _ _ _)

theorem same_viMotionln (row cmd : Int) : Same (viMotionln row cmd) := by
  unfold viMotionln
  same_tac
macro_rules | `(tactic| same_leaf) => `(tactic| with_reducible exact same_viMotionln _ _)

theorem same_viMotion (row off : Int) : Same (viMotion row off) := by
  unfold viMotion
  same_tac
macro_rules | `(tactic| same_leaf) => `(tactic| with_reducible exact same_viMotion _ _)

end Neatvi.Lemmas.C05c
