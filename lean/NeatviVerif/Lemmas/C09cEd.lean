import NeatviVerif.Lemmas.C09cLb
import NeatviVerif.Lemmas.C20cSoloC
/-!
# C09c, part 3: the primitives of `ex.c` on related states

What related states (`EdRel`) show alike (`len`, `line`, `cp`, marks, registers, the files, the buffer table's paths
and numbers), and the operations on the buffer table and on the current buffer: they map related states to related
states.
-/
namespace Neatvi.Lemmas.C09c
open Neatvi Neatvi.Lbuf Neatvi.LbufIo Neatvi.Ex Neatvi.Rset
open Neatvi.Lemmas.C20c (lbufSave_eq saveBody saveClose saveSched saveWritten pathExpand_eq pathFin)

/-- related results of a function of the `ex` layer -/
def RRel {α : Type} (x y : R α) : Prop := ORel (fun p q => p.1 = q.1 ∧ EdRel false p.2 q.2) x y

theorem RRel.cases {α : Type} {x y : R α} (h : RRel x y) :
    (x = none ∧ y = none) ∨ ∃ v a b, x = some (v, a) ∧ y = some (v, b) ∧ EdRel false a b := by
  rcases ORel.cases h with h | ⟨⟨v, a⟩, ⟨v', b⟩, h1, h2, h3, h4⟩
  · exact Or.inl h
  · simp only at h3; subst h3
    exact Or.inr ⟨v, a, b, h1, h2, h4⟩

theorem RRel.none {α : Type} : RRel (none : R α) none := trivial
theorem RRel.some {α : Type} {v : α} {a b : Ed} (h : EdRel false a b) : RRel (some (v, a)) (some (v, b)) := ⟨rfl, h⟩

/-! ### what related states show alike -/

section reads
variable {w : Bool} {a b : Ed}

theorem EdRel.cur (h : EdRel w a b) : OBufRel w a.cur b.cur := by
  unfold Ed.cur
  have hb := h.bufs
  cases ha : a.bufs <;> cases hb' : b.bufs <;> rw [ha, hb'] at hb
  · trivial
  · exact hb.elim
  · exact hb.elim
  · exact hb.1

theorem EdRel.lb (h : EdRel w a b) : ORel (LbRel w) a.lb b.lb := by
  unfold Ed.lb
  have := h.cur
  cases ha : a.cur <;> cases hb : b.cur <;> rw [ha, hb] at this
  · trivial
  · exact this.elim
  · exact this.elim
  · exact this.lb

theorem EdRel.lb_cases (h : EdRel w a b) :
    (a.lb = none ∧ b.lb = none) ∨ ∃ la lb, a.lb = some la ∧ b.lb = some lb ∧ LbRel w la lb := h.lb.cases

theorem EdRel.cur_cases (h : EdRel w a b) :
    (a.cur = none ∧ b.cur = none) ∨ ∃ x y, a.cur = some x ∧ b.cur = some y ∧ BufRel w x y := by
  have := h.cur
  cases ha : a.cur <;> cases hb : b.cur <;> rw [ha, hb] at this
  · exact Or.inl ⟨rfl, rfl⟩
  · exact this.elim
  · exact this.elim
  · exact Or.inr ⟨_, _, rfl, rfl, this⟩

theorem EdRel.lines_eq (h : EdRel w a b) : a.lb.map (·.lines) = b.lb.map (·.lines) := by
  rcases h.lb_cases with ⟨r1, r2⟩ | ⟨la, lb, r1, r2, hl⟩
  · rw [r1, r2]
  · rw [r1, r2]; simp [hl.lines]

theorem EdRel.len_eq (h : EdRel w a b) : a.len = b.len := by
  unfold Ed.len
  rcases h.lb_cases with ⟨r1, r2⟩ | ⟨la, lb, r1, r2, hl⟩
  · rw [r1, r2]
  · rw [r1, r2]; simp [hl.lines]

theorem EdRel.line_eq (h : EdRel w a b) (i : Int) : a.line i = b.line i := by
  unfold Ed.line
  rcases h.lb_cases with ⟨r1, r2⟩ | ⟨la, lb, r1, r2, hl⟩
  · rw [r1, r2]
  · rw [r1, r2]; simp [hl.lines]

theorem EdRel.cp_eq (h : EdRel w a b) (x y : Int) : a.cp x y = b.cp x y := by
  unfold Ed.cp
  rcases h.lb_cases with ⟨r1, r2⟩ | ⟨la, lb, r1, r2, hl⟩
  · rw [r1, r2]
  · rw [r1, r2]; exact cp_rel hl _ _

theorem EdRel.findFile_eq (h : EdRel w a b) (p : Bytes) : a.findFile p = b.findFile p := by
  unfold Ed.findFile; rw [h.files]

theorem EdRel.mtimeOf_eq (h : EdRel w a b) (p : Bytes) : a.mtimeOf p = b.mtimeOf p := by
  unfold Ed.mtimeOf; rw [h.findFile_eq]

theorem EdRel.mkRe_eq (h : EdRel w a b) (p : Bytes) : a.mkRe p = b.mkRe p := by
  unfold Ed.mkRe; rw [h.xic]

theorem EdRel.pipe_eq (h : EdRel w a b) (c i : Bytes) : a.pipe c i = b.pipe c i := by
  unfold Ed.pipe; rw [h.pipes]

theorem EdRel.regGet_eq (h : EdRel w a b) (c : Nat) : regGet a c = regGet b c := by
  unfold regGet
  rw [h.line_eq, h.xrow, h.xoff, h.regs]

theorem EdRel.cur_isSome (h : EdRel w a b) : a.cur.isSome = b.cur.isSome := by
  rcases h.cur_cases with ⟨r1, r2⟩ | ⟨x, y, r1, r2, _⟩ <;> rw [r1, r2] <;> rfl

theorem EdRel.cur_isNone (h : EdRel w a b) : a.cur.isNone = b.cur.isNone := by
  rcases h.cur_cases with ⟨r1, r2⟩ | ⟨x, y, r1, r2, _⟩ <;> rw [r1, r2] <;> rfl

theorem EdRel.cur_path (h : EdRel w a b) : a.cur.map (·.path) = b.cur.map (·.path) := by
  rcases h.cur_cases with ⟨r1, r2⟩ | ⟨x, y, r1, r2, hxy⟩
  · rw [r1, r2]
  · rw [r1, r2]; simp [hxy.path]

theorem EdRel.cur_id (h : EdRel w a b) : a.cur.map (·.id) = b.cur.map (·.id) := by
  rcases h.cur_cases with ⟨r1, r2⟩ | ⟨x, y, r1, r2, hxy⟩
  · rw [r1, r2]
  · rw [r1, r2]; simp [hxy.id]

theorem EdRel.jump_eq (h : EdRel false a b) (c : Nat) :
    a.lb.bind (fun l => jump l c) = b.lb.bind (fun l => jump l c) := by
  rcases h.lb_cases with ⟨r1, r2⟩ | ⟨la, lb, r1, r2, hl⟩
  · rw [r1, r2]
  · rw [r1, r2]; exact jump_rel hl c

end reads

/-- the strong relation implies the one that exempts the mark `^` -/
theorem EdRel.weaken {a b : Ed} (h : EdRel false a b) : EdRel true a b := by
  refine { h with bufs := ?_ }
  have hb := h.bufs
  cases ha : a.bufs <;> cases hb' : b.bufs <;> rw [ha, hb'] at hb
  · trivial
  · exact hb.elim
  · exact hb.elim
  · exact ⟨hb.1.weaken true, hb.2⟩

/-- the whole table, slot by slot -/
theorem EdRel.all {a b : Ed} (h : EdRel false a b) : All2 (OBufRel false) a.bufs b.bufs := bufsRel_false.mp h.bufs

theorem EdRel.bufs_length {a b : Ed} (h : EdRel false a b) : a.bufs.length = b.bufs.length := h.all.length_eq

theorem EdRel.getD {a b : Ed} (h : EdRel false a b) (i : Nat) :
    OBufRel false (a.bufs.getD i none) (b.bufs.getD i none) := h.all.getD (by trivial) i

theorem OBufRel.isSome_eq {w : Bool} {x y : Option Buf} (h : OBufRel w x y) : x.isSome = y.isSome := by
  cases x <;> cases y <;> first | rfl | exact h.elim

theorem OBufRel.isNone_eq {w : Bool} {x y : Option Buf} (h : OBufRel w x y) : x.isNone = y.isNone := by
  cases x <;> cases y <;> first | rfl | exact h.elim

theorem OBufRel.path_eq {w : Bool} {x y : Option Buf} (h : OBufRel w x y) : x.map (·.path) = y.map (·.path) := by
  cases x <;> cases y <;> first | rfl | exact h.elim | simp [BufRel.path h]

theorem OBufRel.id_eq {w : Bool} {x y : Option Buf} (h : OBufRel w x y) : x.map (·.id) = y.map (·.id) := by
  cases x <;> cases y <;> first | rfl | exact h.elim | simp [BufRel.id h]

theorem OBufRel.cases {w : Bool} {x y : Option Buf} (h : OBufRel w x y) :
    (x = none ∧ y = none) ∨ ∃ p q, x = some p ∧ y = some q ∧ BufRel w p q := by
  cases x <;> cases y
  · exact Or.inl ⟨rfl, rfl⟩
  · exact h.elim
  · exact h.elim
  · exact Or.inr ⟨_, _, rfl, rfl, h⟩

/-- a predicate on slots that related slots satisfy alike selects the same slot -/
theorem find_range_eq {a b : Ed} (h : EdRel false a b) (n : Nat) (P : Option Buf → Bool)
    (hP : ∀ x y, OBufRel false x y → P x = P y) :
    (List.range n).find? (fun i => P (a.bufs.getD i none)) = (List.range n).find? (fun i => P (b.bufs.getD i none)) := by
  have : (fun i => P (a.bufs.getD i none)) = (fun i => P (b.bufs.getD i none)) := by
    funext i; exact hP _ _ (h.getD i)
  rw [this]

theorem EdRel.bufsFind_eq {a b : Ed} (h : EdRel false a b) (p : Bytes) : a.bufsFind p = b.bufsFind p := by
  unfold Ed.bufsFind
  simp only []
  rw [h.bufs_length]
  congr 2
  funext i
  rcases (h.getD i).cases with ⟨r1, r2⟩ | ⟨x, y, r1, r2, hxy⟩
  · rw [r1, r2]
  · rw [r1, r2]
    show (x.path == _) = (y.path == _)
    rw [hxy.path]

theorem EdRel.findRoom_eq {a b : Ed} (h : EdRel false a b) : a.findRoom = b.findRoom := by
  unfold Ed.findRoom
  rw [h.bufs_length]
  congr 2
  funext i
  exact (h.getD i).isNone_eq

/-! ### updates of the current buffer -/

theorem bufsRel_set0 {w : Bool} {l l' : List (Option Buf)} (h : BufsRel w l l') {x y : Buf} (hxy : BufRel w x y) :
    BufsRel w (l.set 0 (some x)) (l'.set 0 (some y)) := by
  cases l <;> cases l'
  · trivial
  · exact h.elim
  · exact h.elim
  · exact ⟨hxy, h.2⟩

theorem setCur_rel {w : Bool} {a b : Ed} (h : EdRel w a b) {x y : Buf} (hxy : BufRel w x y) :
    EdRel w (a.setCur x) (b.setCur y) :=
  { h with bufs := bufsRel_set0 h.bufs hxy }

theorem setLb_rel {w : Bool} {a b : Ed} (h : EdRel w a b) {la lb : Lb} (hl : LbRel w la lb) :
    EdRel w (a.setLb la) (b.setLb lb) := by
  unfold Ed.setLb
  have := h.cur
  cases ha : a.cur <;> cases hb : b.cur <;> rw [ha, hb] at this
  · exact h
  · exact this.elim
  · exact this.elim
  · exact setCur_rel h { this with lb := hl }

/-- `lbuf_mark` on the current buffer -/
theorem markCur_rel {w : Bool} {a b : Ed} (h : EdRel w a b) (c : Nat) (p o : Int) :
    EdRel w (match a.lb with | some l => a.setLb (setMark l c p o) | none => a)
      (match b.lb with | some l => b.setLb (setMark l c p o) | none => b) := by
  have := h.lb
  cases ha : a.lb <;> cases hb : b.lb <;> rw [ha, hb] at this
  · exact h
  · exact this.elim
  · exact this.elim
  · exact setLb_rel h (setMark_rel this c p o)

/-- setting the mark `^` of the current buffer ends the exemption -/
theorem bufsRel_caret {l l' : List (Option Buf)} (h : BufsRel true l l') {x y : Buf} (hxy : BufRel false x y) :
    BufsRel false (l.set 0 (some x)) (l'.set 0 (some y)) := by
  cases l <;> cases l'
  · trivial
  · exact h.elim
  · exact h.elim
  · exact ⟨hxy, h.2⟩

theorem markCaret_rel {a b : Ed} (h : EdRel true a b) (p o : Int) :
    EdRel false (match a.lb with | some l => a.setLb (setMark l 94 p o) | none => a)
      (match b.lb with | some l => b.setLb (setMark l 94 p o) | none => b) := by
  have hc := h.cur
  have hl : a.lb = a.cur.map (·.lb) := rfl
  have hl' : b.lb = b.cur.map (·.lb) := rfl
  rw [hl, hl']
  unfold Ed.setLb
  cases ha : a.cur <;> cases hb : b.cur <;> rw [ha, hb] at hc
  · -- no current buffer: the table is empty or its slot 0 is empty; nothing is exempt
    simp only [Option.map_none]
    refine { h with bufs := ?_ }
    have hb' := h.bufs
    unfold Ed.cur at ha hb
    cases hx : a.bufs <;> cases hy : b.bufs <;> rw [hx, hy] at hb'
    · trivial
    · exact hb'.elim
    · exact hb'.elim
    · rw [hx] at ha; rw [hy] at hb
      simp only [List.getD_cons_zero] at ha hb
      subst ha hb
      exact ⟨trivial, hb'.2⟩
  · exact hc.elim
  · exact hc.elim
  · simp only [Option.map_some]
    exact { h with bufs := bufsRel_caret h.bufs { hc with lb := setMark_caret_rel hc.lb p o } }

theorem edit_rel' {a b : Ed} (h : EdRel false a b) (s : Option Bytes) (x y : Int) :
    ORel (EdRel false) (a.edit s x y) (b.edit s x y) := by
  unfold Ed.edit
  split
  · trivial
  · have := h.lb
    cases ha : a.lb <;> cases hb : b.lb <;> rw [ha, hb] at this
    · trivial
    · exact this.elim
    · exact this.elim
    · rcases (edit_rel this s x.toNat y.toNat).cases with ⟨r1, r2⟩ | ⟨a1, b1, r1, r2, hab⟩
      · simp only [r1, r2, Option.map_none]; trivial
      · simp only [r1, r2, Option.map_some]
        exact setLb_rel h hab

/-! ### small updates of the other fields -/

theorem show_rel {w : Bool} {a b : Ed} (h : EdRel w a b) (m : Bytes) : EdRel w (a.show m) (b.show m) :=
  { h with msg := by show a.msg ++ m ++ [10] = b.msg ++ m ++ [10]; rw [h.msg] }

theorem print_rel {w : Bool} {a b : Ed} (h : EdRel w a b) (m : Bytes) : EdRel w (a.print m) (b.print m) :=
  { h with out := by show a.out ++ m ++ _ = b.out ++ m ++ _; rw [h.out] }

theorem kwdSet_rel {w : Bool} {a b : Ed} (h : EdRel w a b) (k : Option Bytes) (d : Int) :
    EdRel w (a.kwdSet k d) (b.kwdSet k d) :=
  { h with xkwd := by show (match k with | some k => _ | none => a.xkwd) = (match k with | some k => _ | none => b.xkwd); rw [h.xkwd]
           xkwddir := rfl }

theorem putFile_rel {w : Bool} {a b : Ed} (h : EdRel w a b) (f : File) : EdRel w (a.putFile f) (b.putFile f) := by
  unfold Ed.putFile
  rw [h.files]
  split
  · exact { h with files := rfl }
  · exact { h with files := rfl }

theorem nextFault_rel {w : Bool} {a b : Ed} (h : EdRel w a b) :
    a.nextFault.1 = b.nextFault.1 ∧ EdRel w a.nextFault.2 b.nextFault.2 := by
  constructor
  · show ((a.faults.find? _).map _).getD 0 = ((b.faults.find? _).map _).getD 0
    rw [h.faults, h.calls]
  · exact { h with calls := by show a.calls + 1 = b.calls + 1; rw [h.calls] }

theorem setOpt_rel {w : Bool} {a b : Ed} (h : EdRel w a b) (v : String) (n : Int) : EdRel w (setOpt a v n) (setOpt b v n) := by
  unfold setOpt
  split
  · exact { h with xaw := rfl }
  · split
    · exact { h with xwa := rfl }
    · split
      · exact { h with xic := rfl }
      · split
        · exact { h with xtd := rfl }
        · exact h

/-! ### the buffer table -/

theorem bufsSave_rel {a b : Ed} (h : EdRel false a b) : EdRel false a.bufsSave b.bufsSave := by
  unfold Ed.bufsSave
  have := h.cur
  cases ha : a.cur <;> cases hb : b.cur <;> rw [ha, hb] at this
  · exact h
  · exact this.elim
  · exact this.elim
  · exact setCur_rel h { this with row := h.xrow, off := h.xoff, top := h.xtop, left := h.xleft, td := h.xtd }

theorem bufsLoad_rel {a b : Ed} (h : EdRel false a b) : EdRel false a.bufsLoad b.bufsLoad := by
  unfold Ed.bufsLoad
  have := h.cur
  cases ha : a.cur <;> cases hb : b.cur <;> rw [ha, hb] at this
  · exact { h with xrow := rfl, xoff := rfl, xtop := rfl, xleft := rfl, xtd := rfl
                   regs := by show a.regs.put 37 [] 0 = b.regs.put 37 [] 0; rw [h.regs] }
  · exact this.elim
  · exact this.elim
  · rename_i x y
    exact { h with xrow := this.row, xoff := this.off, xtop := this.top, xleft := this.left, xtd := this.td
                   regs := by show a.regs.put 37 x.path 0 = b.regs.put 37 y.path 0; rw [h.regs, this.path] }

theorem withBufs_rel {a b : Ed} (h : EdRel false a b) {l l' : List (Option Buf)} (hl : All2 (OBufRel false) l l') :
    EdRel false { a with bufs := l } { b with bufs := l' } :=
  { h with bufs := bufsRel_false.mpr hl }

theorem bufRel_modified {w : Bool} {x y : Buf} (h : BufRel w x y) :
    BufRel w { x with lb := (modified x.lb).2 } { y with lb := (modified y.lb).2 } :=
  { h with lb := (modified_rel h.lb).2 }

/-- `lbuf_modified` on the buffer that is left -/
def bumpCur (ed : Ed) : Ed :=
  match ed.bufs.getD 0 none with
  | some b => { ed with bufs := ed.bufs.set 0 (some { b with lb := (Lbuf.modified b.lb).2 }) }
  | none => ed

/-- slot `idx` moves to the front -/
def rotTo (ed : Ed) (idx : Nat) : Ed :=
  { ed with bufs := [ed.bufs.getD idx none] ++ ed.bufs.take idx ++ ed.bufs.drop (idx + 1) }

theorem bufsSwitch_eq (ed : Ed) (idx : Nat) : ed.bufsSwitch idx = (rotTo (bumpCur ed.bufsSave) idx).bufsLoad := rfl

theorem bumpCur_rel {a b : Ed} (h : EdRel false a b) : EdRel false (bumpCur a) (bumpCur b) := by
  unfold bumpCur
  rcases (h.getD 0).cases with ⟨r1, r2⟩ | ⟨p, q, r1, r2, hpq⟩
  · rw [r1, r2]; exact h
  · rw [r1, r2]
    exact withBufs_rel h (h.all.set 0 (show OBufRel false (some _) (some _) from bufRel_modified hpq))

theorem rotTo_rel {a b : Ed} (h : EdRel false a b) (idx : Nat) : EdRel false (rotTo a idx) (rotTo b idx) :=
  withBufs_rel h (All2.append (All2.append (All2.single (h.getD idx)) (h.all.take idx)) (h.all.drop (idx + 1)))

theorem bufsSwitch_rel {a b : Ed} (h : EdRel false a b) (idx : Nat) :
    EdRel false (a.bufsSwitch idx) (b.bufsSwitch idx) := by
  rw [bufsSwitch_eq, bufsSwitch_eq]
  exact bufsLoad_rel (rotTo_rel (bumpCur_rel (bufsSave_rel h)) idx)

theorem bufsOpen_rel {a b : Ed} (h : EdRel false a b) (p : Bytes) :
    (a.bufsOpen p).1 = (b.bufsOpen p).1 ∧ EdRel false (a.bufsOpen p).2 (b.bufsOpen p).2 := by
  unfold Ed.bufsOpen
  simp only []
  rw [h.findRoom_eq, h.bufsCnt]
  refine ⟨rfl, ?_⟩
  have hb : BufRel false ({ path := normPath p, lb := Lbuf.make, id := b.bufsCnt + 1 } : Buf)
      { path := normPath p, lb := Lbuf.make, id := b.bufsCnt + 1 } := BufRel.refl seqOk_make false
  exact { withBufs_rel h (h.all.set b.findRoom (show OBufRel false (some _) (some _) from hb)) with bufsCnt := rfl }

theorem bufsShift_rel {a b : Ed} (h : EdRel false a b) : EdRel false a.bufsShift b.bufsShift := by
  unfold Ed.bufsShift
  apply bufsLoad_rel
  exact withBufs_rel h (All2.append (h.all.drop 1) (All2.single (by trivial)))

theorem modifiedAt_rel {a b : Ed} (h : EdRel false a b) (idx : Nat) :
    (a.modifiedAt idx).1 = (b.modifiedAt idx).1 ∧ EdRel false (a.modifiedAt idx).2 (b.modifiedAt idx).2 := by
  unfold Ed.modifiedAt
  rcases (h.getD idx).cases with ⟨r1, r2⟩ | ⟨p, q, r1, r2, hpq⟩
  · rw [r1, r2]; exact ⟨rfl, h⟩
  · rw [r1, r2]
    exact ⟨(modified_rel hpq.lb).1,
      withBufs_rel h (h.all.set idx (show OBufRel false (some _) (some _) from bufRel_modified hpq))⟩

/-! ### `lbuf_save` -/

theorem saveSched_rel {w : Bool} {a b : Ed} (h : EdRel w a b) (n : Nat) : saveSched a n = saveSched b n := by
  unfold saveSched; rw [h.faults, h.calls]

theorem saveWritten_rel {w : Bool} {a b : Ed} (h : EdRel w a b) (path data : Bytes) (o u : Nat) :
    EdRel w (saveWritten a path data o u) (saveWritten b path data o u) := by
  unfold saveWritten
  rw [h.clock, h.calls]
  exact { putFile_rel h _ with clock := rfl, calls := rfl }

theorem saveClose_rel {a b : Ed} (h : EdRel false a b) (ok : Bool) : RRel (saveClose a ok) (saveClose b ok) := by
  unfold saveClose
  have := nextFault_rel h
  cases ok with
  | false => exact ⟨rfl, this.2⟩
  | true =>
    simp only [Bool.not_true, Bool.false_eq_true, if_false]
    rw [this.1]
    split
    · exact ⟨rfl, this.2⟩
    · exact ⟨rfl, this.2⟩

theorem saveBody_rel {a b : Ed} (h : EdRel false a b) {la lb : Lb} (hl : la.lines = lb.lines) (x e' : Nat)
    (path old : Bytes) : RRel (saveBody a la x e' path old) (saveBody b lb x e' path old) := by
  unfold saveBody
  rw [hl, saveSched_rel h]
  split
  · trivial
  · exact saveClose_rel (saveWritten_rel h _ _ _ _) _

theorem lbufSave_rel {a b : Ed} (h : EdRel false a b) {la lb : Lb} (hl : la.lines = lb.lines) (x : Nat) (e : Int)
    (path : Bytes) (force : Bool) (ts : Int) :
    RRel (lbufSave a la x e path force ts) (lbufSave b lb x e path force ts) := by
  rw [lbufSave_eq, lbufSave_eq]
  have hn := nextFault_rel h
  rw [h.mtimeOf_eq, hn.1, hl]
  split
  · exact ⟨rfl, h⟩
  · split
    · exact ⟨rfl, h⟩
    · split
      · exact ⟨rfl, { hn.2 with fired := by show a.nextFault.2.fired + 1 = b.nextFault.2.fired + 1; rw [hn.2.fired] }⟩
      · rw [hn.2.findFile_eq, hn.2.clock]
        refine saveBody_rel ?_ hl _ _ _ _
        exact { putFile_rel hn.2 _ with clock := rfl }

theorem lbufSaveP_rel {a b : Ed} (h : EdRel false a b) {la lb : Lb} (hl : la.lines = lb.lines) (x : Nat) (e : Int)
    (path : Bytes) (force : Bool) (ts : Int) :
    RRel (lbufSaveP a la x e path force ts) (lbufSaveP b lb x e path force ts) := by
  unfold lbufSaveP
  split
  · have hn := nextFault_rel h
    simp only []
    rw [hn.1]
    refine ⟨rfl, ?_⟩
    show EdRel false (if _ then _ else _) (if _ then _ else _)
    split
    · exact { hn.2 with fired := by show a.nextFault.2.fired + 1 = b.nextFault.2.fired + 1; rw [hn.2.fired] }
    · exact hn.2
  · exact lbufSave_rel h hl x e path force ts

/-- `bufs_modified(idx, msg)` -/
theorem bufsModified_rel {a b : Ed} (h : EdRel false a b) (idx : Nat) (msg : Option Bytes) :
    RRel (bufsModified a idx msg) (bufsModified b idx msg) := by
  unfold bufsModified
  rcases (h.getD idx).cases with ⟨r1, r2⟩ | ⟨p, q, r1, r2, hpq⟩
  · rw [r1, r2]; exact ⟨rfl, h⟩
  · rw [r1, r2]
    simp only []
    have hm := modifiedAt_rel h idx
    rw [hm.1]
    split
    · exact ⟨rfl, hm.2⟩
    · rcases (hm.2.getD idx).cases with ⟨s1, s2⟩ | ⟨p', q', s1, s2, hpq'⟩
      · rw [s1, s2]; trivial
      · rw [s1, s2]
        simp only []
        rw [hm.2.xaw, hpq'.path, hpq'.mtime]
        split
        · rcases (lbufSave_rel hm.2 hpq'.lb.lines 0 (-1) q'.path false q'.mtime).cases with ⟨t1, t2⟩ | ⟨v, a1, b1, t1, t2, hab⟩
          · rw [t1, t2]; trivial
          · rw [t1, t2]; exact ⟨rfl, hab⟩
        · refine ⟨rfl, ?_⟩
          cases msg with
          | none => exact hm.2
          | some m => exact show_rel hm.2 m

end Neatvi.Lemmas.C09c
