import NeatviVerif.Props.C20
/-!
# C20b lemmas: the buffer table as a list — shifting, setting a slot, renumbering, unique ids,
  occupied prefix, and the "best so far" fold of `:b +` / `:b -`
-/
namespace Neatvi.Lemmas.C20b
open Neatvi Neatvi.Lbuf Neatvi.Ex

abbrev Tab := List (Option Buf)

/-! ### slots of a shifted table, of a table with one slot set -/

/-- `bufs_shift()` on the table: slot `i` holds what slot `i + 1` held; this covers the last slot
    (it becomes empty) and everything beyond the table (empty on both sides) -/
theorem getD_shift (L : Tab) (i : Nat) : (L.drop 1 ++ [none]).getD i none = L.getD (i + 1) none := by
  simp only [List.getD_eq_getElem?_getD]
  by_cases h : i < (L.drop 1).length
  · rw [List.getElem?_append_left h, List.getElem?_drop, Nat.add_comm]
  · rw [List.getElem?_append_right (by omega)]
    have h2 : L.length ≤ i + 1 := by simp at h; omega
    rw [List.getElem?_eq_none h2]
    cases hk : i - (L.drop 1).length with
    | zero => rfl
    | succ k => rfl

theorem length_shift (L : Tab) (h : 0 < L.length) : (L.drop 1 ++ [none]).length = L.length := by
  simp; omega

theorem getD_set (L : Tab) (k i : Nat) (x : Option Buf) :
    (L.set k x).getD i none = if i = k ∧ k < L.length then x else L.getD i none := by
  by_cases hik : i = k
  · subst hik
    by_cases hl : i < L.length
    · rw [if_pos ⟨rfl, hl⟩]; exact Props.C20.getD_set_eq _ _ _ _ hl
    · rw [if_neg (fun h => hl h.2), List.set_eq_of_length_le (by omega)]
  · rw [if_neg (fun h => hik h.1)]; exact Props.C20.getD_set_ne _ _ _ _ _ hik

/-! ### unique buffer numbers -/

/-- the numbers of a table are within `1..c` and pairwise different (`0 ≤ c`: the counter never goes
    below zero — needed so that the next number `c + 1` is at least 1 when the table is empty) -/
def IdsOkL (L : Tab) (c : Int) : Prop :=
  0 ≤ c ∧
  (∀ i b, L.getD i none = some b → 1 ≤ b.id ∧ b.id ≤ c) ∧
  (∀ i j bi bj, i ≠ j → L.getD i none = some bi → L.getD j none = some bj → bi.id ≠ bj.id)

/-- a table whose slots come, by an injective map of indices, from slots of an `IdsOkL` table with
    the same numbers is `IdsOkL` -/
theorem idsOkL_transfer {old new : Tab} {c c' : Int} (σ : Nat → Nat) (hσ : ∀ i j, σ i = σ j → i = j)
    (hc : c ≤ c')
    (h : ∀ i b, new.getD i none = some b → ∃ b', old.getD (σ i) none = some b' ∧ b'.id = b.id)
    (hok : IdsOkL old c) : IdsOkL new c' := by
  obtain ⟨h0, h1, h2⟩ := hok
  refine ⟨by omega, ?_, ?_⟩
  · intro i b hb
    obtain ⟨b', hb', hid⟩ := h i b hb
    have := h1 _ _ hb'
    omega
  · intro i j bi bj hij hbi hbj
    obtain ⟨bi', hbi', hidi⟩ := h i bi hbi
    obtain ⟨bj', hbj', hidj⟩ := h j bj hbj
    have := h2 (σ i) (σ j) bi' bj' (fun e => hij (hσ i j e)) hbi' hbj'
    omega

/-- putting a buffer with the next number into any slot and advancing the counter -/
theorem idsOkL_set_fresh {L : Tab} {c : Int} (k : Nat) (b : Buf) (hb : b.id = c + 1)
    (hok : IdsOkL L c) : IdsOkL (L.set k (some b)) (c + 1) := by
  obtain ⟨h0, h1, h2⟩ := hok
  refine ⟨by omega, ?_, ?_⟩
  · intro i x hx
    rw [getD_set] at hx
    split at hx
    · cases hx; omega
    · have := h1 i x hx; omega
  · intro i j bi bj hij hbi hbj
    rw [getD_set] at hbi hbj
    split at hbi
    · next hi =>
      split at hbj
      · next hj => omega
      · cases hbi
        have := h1 j bj hbj; omega
    · split at hbj
      · cases hbj
        have := h1 i bi hbi; omega
      · exact h2 i j bi bj hij hbi hbj

theorem idsOkL_shift {L : Tab} {c : Int} (hok : IdsOkL L c) : IdsOkL (L.drop 1 ++ [none]) c :=
  idsOkL_transfer (fun i => i + 1) (fun i j e => by omega) (Int.le_refl _)
    (fun i b hb => ⟨b, by rw [← getD_shift]; exact hb, rfl⟩) hok

/-! ### the occupied slots form a prefix -/

def PackedL (L : Tab) : Prop :=
  ∀ i j, i ≤ j → (L.getD j none).isSome = true → (L.getD i none).isSome = true

theorem packedL_shift {L : Tab} (h : PackedL L) : PackedL (L.drop 1 ++ [none]) := by
  intro i j hij hj
  rw [getD_shift] at hj ⊢
  exact h (i + 1) (j + 1) (by omega) hj

/-- setting the first free slot (or any slot all of whose predecessors are occupied and whose
    successors are free or which is the last one) keeps the table packed; here: every slot before
    `k` is occupied, and every slot after `k` is free unless all slots before it are occupied -/
theorem packedL_set {L : Tab} (k : Nat) (b : Buf)
    (hbefore : ∀ j, j < k → (L.getD j none).isSome = true) (h : PackedL L) :
    PackedL (L.set k (some b)) := by
  intro i j hij hj
  rw [getD_set] at hj ⊢
  by_cases hik : i = k ∧ k < L.length
  · rw [if_pos hik]; rfl
  · rw [if_neg hik]
    by_cases hlt : i < k
    · exact hbefore i hlt
    · split at hj
      · next hjk =>
        have : i = k := by omega
        exact absurd ⟨this, hjk.2⟩ hik
      · exact h i j hij hj

/-! ### renumbering -/

/-- the number of occupied slots -/
def occ : Tab → Nat
  | [] => 0
  | none :: r => occ r
  | some _ :: r => occ r + 1

/-- `:b ~` on the table: the occupied slots get the numbers `k + 1, k + 2, …` in slot order -/
def renumFrom (k : Int) : Tab → Tab
  | [] => []
  | none :: r => none :: renumFrom k r
  | some x :: r => some { x with id := k + 1 } :: renumFrom (k + 1) r

/-- the step of the fold of `:b ~` in `ec_buffer` -/
def renumStep (acc : Tab × Int) (b : Option Buf) : Tab × Int :=
  match b with
  | some x => (acc.1 ++ [some { x with id := acc.2 + 1 }], acc.2 + 1)
  | none => (acc.1 ++ [none], acc.2)

theorem renum_fold (L : Tab) (acc : Tab) (k : Int) :
    L.foldl renumStep (acc, k) = (acc ++ renumFrom k L, k + occ L) := by
  induction L generalizing acc k with
  | nil => simp [renumFrom, occ]
  | cons a r ih =>
    cases a with
    | none =>
      simp only [List.foldl_cons, renumStep, renumFrom, occ]
      rw [ih]; simp
    | some x =>
      simp only [List.foldl_cons, renumStep, renumFrom, occ]
      rw [ih]; simp; omega

theorem renumFrom_length (k : Int) (L : Tab) : (renumFrom k L).length = L.length := by
  induction L generalizing k with
  | nil => rfl
  | cons a r ih => cases a <;> simp [renumFrom, ih]

/-- slot by slot: the buffer stays, only its number changes: it becomes `k` plus the number of
    occupied slots up to and including its own -/
theorem renumFrom_getD (k : Int) (L : Tab) (i : Nat) :
    (renumFrom k L).getD i none =
      (L.getD i none).map (fun x => { x with id := k + (occ (L.take (i + 1)) : Nat) }) := by
  induction L generalizing k i with
  | nil => simp [renumFrom]
  | cons a r ih =>
    cases a with
    | none =>
      cases i with
      | zero => simp [renumFrom]
      | succ i =>
        simp only [renumFrom, List.getD_cons_succ, List.take_succ_cons, occ]
        exact ih k i
    | some x =>
      cases i with
      | zero => simp [renumFrom, occ]
      | succ i =>
        simp only [renumFrom, List.getD_cons_succ, List.take_succ_cons, occ]
        rw [ih (k + 1) i]
        congr 1
        funext y
        congr 1
        omega

theorem occ_take_le (L : Tab) (m : Nat) : occ (L.take m) ≤ occ L := by
  induction L generalizing m with
  | nil => simp [occ]
  | cons a r ih =>
    cases m with
    | zero => simp [occ]
    | succ m =>
      cases a with
      | none => simpa [occ] using ih m
      | some x => simpa [occ] using ih m

theorem occ_take_pos (L : Tab) (j : Nat) (h : (L.getD j none).isSome = true) : 1 ≤ occ (L.take (j + 1)) := by
  induction L generalizing j with
  | nil => simp at h
  | cons a r ih =>
    cases j with
    | zero =>
      cases a with
      | none => simp at h
      | some x => simp [occ]
    | succ j =>
      have := ih j (by simpa using h)
      cases a with
      | none => simpa [occ] using this
      | some x => simp only [List.take_succ_cons, occ]; omega

/-- the numbers given by `:b ~` grow strictly with the slot -/
theorem occ_take_lt (L : Tab) (i j : Nat) (hij : i < j) (h : (L.getD j none).isSome = true) :
    occ (L.take (i + 1)) < occ (L.take (j + 1)) := by
  induction L generalizing i j with
  | nil => simp at h
  | cons a r ih =>
    cases j with
    | zero => omega
    | succ j =>
      have hj : (r.getD j none).isSome = true := by simpa using h
      cases i with
      | zero =>
        have := occ_take_pos r j hj
        cases a with
        | none => simp only [List.take_succ_cons, occ, List.take_zero]; omega
        | some x => simp only [List.take_succ_cons, occ, List.take_zero]; omega
      | succ i =>
        have := ih i j (by omega) hj
        cases a with
        | none => simpa [occ] using this
        | some x => simpa [occ] using this

/-- in a packed table the occupied slots up to slot `i` are all of them -/
theorem occ_take_packed (L : Tab) (i : Nat) (h : ∀ j, j ≤ i → (L.getD j none).isSome = true) :
    occ (L.take (i + 1)) = i + 1 := by
  induction L generalizing i with
  | nil => have := h 0 (by omega); simp at this
  | cons a r ih =>
    cases a with
    | none => have := h 0 (by omega); simp at this
    | some x =>
      cases i with
      | zero => simp [occ]
      | succ i =>
        simp only [List.take_succ_cons, occ]
        rw [ih i (fun j hj => by simpa using h (j + 1) (by omega))]

/-- in a packed table slot `i` is occupied exactly when `i < occ L` -/
theorem packed_isSome_iff (L : Tab) (hp : PackedL L) (i : Nat) :
    (L.getD i none).isSome = true ↔ i < occ L := by
  constructor
  · intro h
    have h1 := occ_take_packed L i (fun j hj => hp j i hj h)
    have h2 := occ_take_le L (i + 1)
    omega
  · induction L generalizing i with
    | nil => simp [occ]
    | cons a r ih =>
      have hpr : PackedL r := fun i j hij hj => by
        have := hp (i + 1) (j + 1) (by omega) (by simpa using hj)
        simpa using this
      cases a with
      | none =>
        -- slot 0 free: a packed table is then empty of buffers
        intro h
        exfalso
        have hnone : ∀ j, (r.getD j none).isSome = false := by
          intro j
          cases hx : (r.getD j none).isSome with
          | false => rfl
          | true =>
            have := hp 0 (j + 1) (by omega) (by simpa using hx)
            simp at this
        have : occ r = 0 := by
          clear ih hp hpr h
          induction r with
          | nil => rfl
          | cons b s ihs =>
            cases b with
            | none =>
              simp only [occ]
              exact ihs (fun j => by simpa using hnone (j + 1))
            | some y => have := hnone 0; simp at this
        simp only [occ] at h
        omega
      | some x =>
        intro h
        cases i with
        | zero => simp
        | succ i =>
          simp only [occ] at h
          simpa using ih hpr i (by omega)

/-- `:b ~` gives an `IdsOkL` table with counter `occ L`, whatever the numbers were before -/
theorem idsOkL_renum (L : Tab) : IdsOkL (renumFrom 0 L) (occ L) := by
  refine ⟨by omega, ?_, ?_⟩
  · intro i b hb
    rw [renumFrom_getD] at hb
    cases hx : L.getD i none with
    | none => rw [hx] at hb; cases hb
    | some x =>
      rw [hx] at hb
      simp only [Option.map_some, Option.some.injEq] at hb
      subst hb
      have h1 := occ_take_pos L i (by rw [hx]; rfl)
      have h2 := occ_take_le L (i + 1)
      simp only
      omega
  · intro i j bi bj hij hbi hbj
    rw [renumFrom_getD] at hbi hbj
    cases hx : L.getD i none with
    | none => rw [hx] at hbi; cases hbi
    | some x =>
      cases hy : L.getD j none with
      | none => rw [hy] at hbj; cases hbj
      | some y =>
        rw [hx] at hbi; rw [hy] at hbj
        simp only [Option.map_some, Option.some.injEq] at hbi hbj
        subst hbi; subst hbj
        simp only
        rcases Nat.lt_or_gt_of_ne hij with hlt | hlt
        · have := occ_take_lt L i j hlt (by rw [hy]; rfl); omega
        · have := occ_take_lt L j i hlt (by rw [hx]; rfl); omega

/-! ### the fold of `:b +` and `:b -` -/

/-- the loop of `ec_buffer` for `+` and `-`: `P` selects the candidates (number above / below the
    current one), `R x y` says that `x` beats the best number `y` found so far -/
def pickFold (idOf : Nat → Option Int) (P : Int → Bool) (R : Int → Int → Bool) (n : Nat) : Int :=
  (List.range n).foldl (fun (best : Int) i =>
    match idOf i with
    | some x => if P x && (decide (best < 0) || R x ((idOf best.toNat).getD 0)) then (i : Int) else best
    | none => best) (-1)

theorem pickFold_succ (idOf : Nat → Option Int) (P : Int → Bool) (R : Int → Int → Bool) (n : Nat) :
    pickFold idOf P R (n + 1) =
      match idOf n with
      | some x => if P x && (decide (pickFold idOf P R n < 0) || R x ((idOf (pickFold idOf P R n).toNat).getD 0))
          then (n : Int) else pickFold idOf P R n
      | none => pickFold idOf P R n := by
  unfold pickFold
  rw [List.range_succ, List.foldl_append]
  rfl

/-- the result: `-1` when there is no candidate, otherwise a slot holding a candidate that no other
    candidate beats -/
theorem pickFold_spec (idOf : Nat → Option Int) (P : Int → Bool) (R : Int → Int → Bool)
    (hirr : ∀ x, R x x = false)
    (htrans : ∀ x y z, R x y = true → R z y = false → R z x = false) (n : Nat) :
    (pickFold idOf P R n = -1 ∧ ∀ i x, i < n → idOf i = some x → P x = false) ∨
    (∃ k : Nat, ∃ y, pickFold idOf P R n = (k : Int) ∧ k < n ∧ idOf k = some y ∧ P y = true ∧
      ∀ i x, i < n → idOf i = some x → P x = true → R x y = false) := by
  induction n with
  | zero => left; exact ⟨rfl, fun i x hi => by omega⟩
  | succ n ih =>
    rw [pickFold_succ]
    cases hn : idOf n with
    | none =>
      simp only
      rcases ih with ⟨h1, h2⟩ | ⟨k, y, h1, hk, hy, hpy, hbest⟩
      · left
        refine ⟨h1, fun i x hi hx => ?_⟩
        by_cases hin : i = n
        · subst hin; rw [hn] at hx; cases hx
        · exact h2 i x (by omega) hx
      · right
        refine ⟨k, y, h1, by omega, hy, hpy, fun i x hi hx hp => ?_⟩
        by_cases hin : i = n
        · subst hin; rw [hn] at hx; cases hx
        · exact hbest i x (by omega) hx hp
    | some xn =>
      simp only
      rcases ih with ⟨h1, h2⟩ | ⟨k, y, h1, hk, hy, hpy, hbest⟩
      · rw [h1]
        simp only [show decide ((-1 : Int) < 0) = true by decide, Bool.true_or, Bool.and_true]
        cases hp : P xn with
        | false =>
          left
          simp only [Bool.false_eq_true, if_false]
          refine ⟨trivial, fun i x hi hx => ?_⟩
          by_cases hin : i = n
          · subst hin; rw [hn] at hx; cases hx; exact hp
          · exact h2 i x (by omega) hx
        | true =>
          right
          simp only [if_true]
          refine ⟨n, xn, rfl, by omega, hn, hp, fun i x hi hx hpx => ?_⟩
          by_cases hin : i = n
          · subst hin; rw [hn] at hx; cases hx; exact hirr _
          · have := h2 i x (by omega) hx; rw [this] at hpx; cases hpx
      · rw [h1]
        have hneg : decide ((k : Int) < 0) = false := by simp
        simp only [hneg, Bool.false_or, Int.toNat_natCast, hy, Option.getD_some]
        right
        cases hc : (P xn && R xn y) with
        | true =>
          simp only [if_true]
          simp only [Bool.and_eq_true] at hc
          refine ⟨n, xn, rfl, by omega, hn, hc.1, fun i x hi hx hpx => ?_⟩
          by_cases hin : i = n
          · subst hin; rw [hn] at hx; cases hx; exact hirr _
          · exact htrans xn y x hc.2 (hbest i x (by omega) hx hpx)
        | false =>
          simp only [Bool.false_eq_true, if_false]
          refine ⟨k, y, rfl, by omega, hy, hpy, fun i x hi hx hpx => ?_⟩
          by_cases hin : i = n
          · subst hin; rw [hn] at hx; cases hx
            rw [hpx] at hc
            simpa using hc
          · exact hbest i x (by omega) hx hpx

/-! ### checking the invariants on a concrete table -/

def checkIds (L : Tab) (c : Int) : Bool :=
  decide (0 ≤ c) &&
  (List.range L.length).all (fun i =>
    match L.getD i none with
    | none => true
    | some b => decide (1 ≤ b.id) && decide (b.id ≤ c) &&
        (List.range L.length).all (fun j => i == j ||
          (match L.getD j none with
           | none => true
           | some b' => b.id != b'.id)))

theorem idsOkL_of_check (L : Tab) (c : Int) (h : checkIds L c = true) : IdsOkL L c := by
  unfold checkIds at h
  simp only [Bool.and_eq_true, List.all_eq_true, List.mem_range, decide_eq_true_eq] at h
  obtain ⟨h0, hall⟩ := h
  refine ⟨h0, ?_, ?_⟩
  · intro i b hb
    have := hall i (Props.C20.mem_of_getD _ _ _ hb).2
    rw [hb] at this
    simp only [Bool.and_eq_true, decide_eq_true_eq] at this
    exact this.1
  · intro i j bi bj hij hbi hbj
    have := hall i (Props.C20.mem_of_getD _ _ _ hbi).2
    rw [hbi] at this
    simp only [Bool.and_eq_true, decide_eq_true_eq, List.all_eq_true, List.mem_range] at this
    have := this.2 j (Props.C20.mem_of_getD _ _ _ hbj).2
    rw [hbj] at this
    simpa [hij] using this

def checkPacked (L : Tab) : Bool :=
  (List.range L.length).all (fun j => (L.getD j none).isNone || (List.range j).all (fun i => (L.getD i none).isSome))

theorem packedL_of_check (L : Tab) (h : checkPacked L = true) : PackedL L := by
  unfold checkPacked at h
  simp only [List.all_eq_true, List.mem_range, Bool.or_eq_true] at h
  intro i j hij hj
  by_cases he : i = j
  · rw [he]; exact hj
  · cases hb : L.getD j none with
    | none => rw [hb] at hj; cases hj
    | some b =>
      rcases h j (Props.C20.mem_of_getD _ _ _ hb).2 with h1 | h1
      · rw [hb] at h1; cases h1
      · exact h1 i (by omega)

end Neatvi.Lemmas.C20b
