import NeatviVerif.Lemmas.C08fRow
import NeatviVerif.Props.C07c
/-!
# C08f: the word motions `e`, `w` and the finds `f`, `t` on one row, through C07c
-/
set_option linter.unusedSimpArgs false
set_option linter.unusedVariables false
namespace Neatvi.Lemmas.C08f
open Neatvi Neatvi.Uc Neatvi.Vi Neatvi.Ex Neatvi.Lbuf Neatvi.Mot Neatvi.Spec Neatvi.Spec.Motion
open Neatvi.Lemmas.C08 Neatvi.Lemmas.C09 Neatvi.Lemmas.C08b Neatvi.Props.C07c

theorem ucSlen_line (body : List Nat) (hb : ∀ c ∈ body, ValidCp c) : ucSlen (encStr (body ++ [10])) = body.length + 1 := by
  rw [Props.C16.slen_spec (valid_snoc_ten hb)]; simp

/-- the position `(r, o)`, `o ≤ |body|`, has a flat index -/
theorem idxU_row (ls : Lines) (h : Utf8Buf ls) (r : Int) (o : Nat) (body : List Nat) (hr0 : 0 ≤ r)
    (hline : ls[r.toNat]? = some (encStr (body ++ [10]))) (hb : ∀ c ∈ body, ValidCp c) (ho : o ≤ body.length) :
    ∃ i, idxU ls r (o : Int) = some i :=
  (idxU_isSome_iff ls h r o).2 ⟨_, lineAt_of_get ls r _ hr0 hline, by omega, by rw [ucSlen_line body hb]; omega⟩

/-- a position with a flat index on the row `r` lies on the line or on its newline -/
theorem idxU_row_bound (ls : Lines) (h : Utf8Buf ls) (r o' : Int) (body : List Nat) (hr0 : 0 ≤ r)
    (hline : ls[r.toNat]? = some (encStr (body ++ [10]))) (hb : ∀ c ∈ body, ValidCp c) (j : Nat)
    (hj : idxU ls r o' = some j) : 0 ≤ o' ∧ o'.toNat ≤ body.length := by
  obtain ⟨ln, h1, h2, h3⟩ := (idxU_isSome_iff ls h r o').1 ⟨j, hj⟩
  rw [lineAt_of_get ls r _ hr0 hline] at h1
  cases h1
  rw [ucSlen_line body hb] at h3
  exact ⟨h2, by omega⟩

/-- **`e` with a count** from `(r, o)`, when the reference motion `wordEndFwdRaw` stays on the row: the loop
of `vi_motion` lands on the reference target -/
theorem go_e_row (ls : Lines) (h : Utf8Buf ls) (cnt : Nat) (r : Int) (o t : Nat) (body : List Nat) (hr0 : 0 ≤ r)
    (hline : ls[r.toNat]? = some (encStr (body ++ [10]))) (hb : ∀ c ∈ body, ValidCp c) (ho : o ≤ body.length)
    (href : wordEndFwdRaw false (refBufU ls) ⟨r.toNat, o⟩ cnt = ⟨r.toNat, t⟩) :
    viMotion.go 101 ls false cnt r (o : Int) = (r, (t : Int)) ∧ t ≤ body.length := by
  obtain ⟨i, hi⟩ := idxU_row ls h r o body hr0 hline hb ho
  have hstep : (fun r o => if ((101 : Int) == 87 || (101 : Int) == 119) = true then wordbeg ls false 1 r o
      else wordend ls false (if ((101 : Int) == 66 || (101 : Int) == 98) = true then -1 else 1) r o) = wordend ls false 1 := by
    funext r o
    simp (config := {decide := true}) only [if_false]
  rw [viMotion_go_runWord, hstep]
  obtain ⟨r', o', e, hj⟩ := run_fwd ls (wordend ls false 1)
    (wordEnd (if false then clsBig else cls) (flat (refBufU ls))) (flat (refBufU ls)).length
    (fun r o i hi => idxU_lt ls hi) (fun r o i hi => wordend_fwd_spec_utf8 ls h false r o i hi) cnt r o i hi
  obtain ⟨p1, p2, p3⟩ := idxU_pos ls h hj
  have href' : wordEndFwdRaw false (refBufU ls) ⟨r.toNat, o⟩ cnt = ⟨r'.toNat, o'.toNat⟩ := by
    unfold wordEndFwdRaw
    simp only []
    have hi' := idxU_indexOf ls hi
    rw [Int.toNat_natCast] at hi'
    rw [hi']
    exact p3
  rw [href] at href'
  injection href' with e1 e2
  have hr : r' = r := by omega
  subst hr
  obtain ⟨b1, b2⟩ := idxU_row_bound ls h r' o' body hr0 hline hb _ hj
  rw [e]
  exact ⟨by congr 1; omega, by omega⟩

/-- **`w` with a count** from `(r, o)`, when the reference motion `wordFwdRaw` stays on the row -/
theorem go_w_row (ls : Lines) (h : Utf8Buf ls) (cnt : Nat) (r : Int) (o t : Nat) (body : List Nat) (hr0 : 0 ≤ r)
    (hline : ls[r.toNat]? = some (encStr (body ++ [10]))) (hb : ∀ c ∈ body, ValidCp c) (ho : o ≤ body.length)
    (href : wordFwdRaw false (refBufU ls) ⟨r.toNat, o⟩ cnt = ⟨r.toNat, t⟩) :
    viMotion.go 119 ls false cnt r (o : Int) = (r, (t : Int)) ∧ t ≤ body.length := by
  obtain ⟨i, hi⟩ := idxU_row ls h r o body hr0 hline hb ho
  have hstep : (fun r o => if ((119 : Int) == 87 || (119 : Int) == 119) = true then wordbeg ls false 1 r o
      else wordend ls false (if ((119 : Int) == 66 || (119 : Int) == 98) = true then -1 else 1) r o) = wordbeg ls false 1 := by
    funext r o
    simp (config := {decide := true}) only [if_true]
  rw [viMotion_go_runWord, hstep]
  obtain ⟨r', o', e, hj⟩ := run_fwd ls (wordbeg ls false 1)
    (wordStart (if false then clsBig else cls) (flat (refBufU ls))) (flat (refBufU ls)).length
    (fun r o i hi => idxU_lt ls hi) (fun r o i hi => wordbeg_spec_utf8 ls h false r o i hi) cnt r o i hi
  obtain ⟨p1, p2, p3⟩ := idxU_pos ls h hj
  have href' : wordFwdRaw false (refBufU ls) ⟨r.toNat, o⟩ cnt = ⟨r'.toNat, o'.toNat⟩ := by
    unfold wordFwdRaw
    simp only []
    have hi' := idxU_indexOf ls hi
    rw [Int.toNat_natCast] at hi'
    rw [hi']
    exact p3
  rw [href] at href'
  injection href' with e1 e2
  have hr : r' = r := by omega
  subst hr
  obtain ⟨b1, b2⟩ := idxU_row_bound ls h r' o' body hr0 hline hb _ hj
  rw [e]
  exact ⟨by congr 1; omega, by omega⟩

/-! ### `f` / `t` -/

theorem findChar_fwd_bounds (l : List Nat) (o c n t : Nat) (till : Bool) (h : findChar l o c true till n = some t) :
    o ≤ t ∧ t < l.length ∧ (till = false → o < t) := by
  unfold findChar at h
  split at h
  · cases h
  · simp only [if_true] at h
    split at h
    · cases h
    · rename_i j hj
      have hm : j ∈ (List.range l.length).filter (fun j => decide (j > o) && l.getD j 0 == c) :=
        List.mem_of_getElem? hj
      simp only [List.mem_filter, List.mem_range, Bool.and_eq_true, decide_eq_true_eq] at hm
      injection h with h
      cases till
      · simp only [Bool.false_eq_true, if_false] at h
        subst h
        exact ⟨by omega, hm.1, fun _ => hm.2.1⟩
      · simp only [if_true] at h
        subst h
        exact ⟨by omega, by omega, fun h => by cases h⟩

/-- `lbuf_findchar` forward (`f` = 102, `t` = 116) on the row, with a positive count: the reference `findChar` -/
theorem findchar_row (ls : Lines) (r : Int) (body : List Nat) (hr0 : 0 ≤ r)
    (hline : ls[r.toNat]? = some (encStr (body ++ [10]))) (hv : ∀ c ∈ body, ValidCp c) (h10 : 10 ∉ body)
    (c : Nat) (hc : ValidCp c) (hc10 : c ≠ 10) (cmd : Nat) (hcmd : cmd = 102 ∨ cmd = 116)
    (n : Int) (hn : 0 < n) (o : Nat) (ho : o ≤ body.length) :
    findchar ls (enc c) cmd n r (o : Int) =
      (findChar body o c true (cmd == 116) n.toNat).map (fun t => (t : Int)) := by
  obtain ⟨h1, h2⟩ := findchar_spec_utf8 ls r body (lineAt_of_get ls r _ hr0 hline) hv h10 c hc hc10 cmd
    (by rcases hcmd with rfl | rfl <;> simp) n hn o (by omega) (by omega)
  have e1 : (cmd == 102 || cmd == 116) = true := by rcases hcmd with rfl | rfl <;> rfl
  have e2 : (cmd == 116 || cmd == 84) = (cmd == 116) := by rcases hcmd with rfl | rfl <;> rfl
  rw [e1, e2, Int.toNat_natCast] at h1
  rw [← h1]
  cases hf : findchar ls (enc c) cmd n r (o : Int) with
  | none => rfl
  | some p =>
    have := h2 p hf
    simp only [Option.map_some]
    congr 1
    show p = ((p.toNat : Nat) : Int)
    omega

end Neatvi.Lemmas.C08f
