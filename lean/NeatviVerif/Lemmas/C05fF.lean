import NeatviVerif.Lemmas.C05fE
/-!
# C05f, part F: `led_readchar`, `led_read` (`vi_char`), `led_line`, `vi_prompt`

None of them traps; the texts they return hold no NUL, whatever is typed (a NUL key yields no text, the
keymaps and the digraph table hold none, and `^P` / `^R` paste registers, which hold none).
-/
set_option linter.unusedSimpArgs false
set_option linter.unusedVariables false
namespace Neatvi.Lemmas.C05f
open Neatvi Neatvi.Uc Neatvi.Lbuf Neatvi.Ex Neatvi.Mot Neatvi.Vi Neatvi.Spec
open Neatvi.Lemmas.C09 (pending)

/-- a computation that never traps and keeps the `ex.c` frame -/
def Rd {α : Type} (m : M α) : Prop := ∀ s Q, (∀ a s', EdF s.ed s'.ed → Q a s') → wp m Q s

theorem rd_termRead : Rd termRead := fun s Q hQ => wp_termRead s Q (fun k s' he _ _ => hQ k s' (EdF.of_eq he))

theorem rd_readKey_more : ∀ k, Rd (readKey.more k) := by
  intro k
  induction k with
  | zero => intro s Q hQ; unfold readKey.more; wps; exact hQ _ _ (EdF.refl _)
  | succ k ih =>
    intro s Q hQ
    unfold readKey.more
    wps
    refine rd_termRead s _ (fun _ s1 e1 => ?_)
    exact ih s1 Q (fun a s' e2 => hQ a s' (e1.trans e2))

/-- **`led_readkey()`** -/
theorem rd_readKey : Rd readKey := by
  intro s Q hQ
  unfold readKey
  wps
  refine rd_termRead s _ (fun c s1 e1 => ?_)
  split
  · wps
    refine rd_readKey_more _ s1 _ (fun _ s2 e2 => ?_)
    exact hQ _ _ (e1.trans e2)
  · exact hQ _ _ e1

/-! ### the tables -/

theorem kmaps_noNul_b : (Gen.kmaps.all (fun km => km.all (fun e => !e.2.contains 0))) = true := by decide +kernel
theorem digraphs_noNul_b : (Gen.digraphs.all (fun e => !e.2.contains 0)) = true := by decide +kernel

theorem kmapMap_noNul (kmap c : Nat) : NoNul (kmapMap kmap c) := by
  unfold kmapMap
  split
  · exact noNul_nil
  · rename_i hc
    split
    · rename_i e he
      have hm := List.mem_of_find?_eq_some he
      have hk : Gen.kmaps.getD kmap [] ∈ Gen.kmaps ∨ Gen.kmaps.getD kmap [] = [] := by
        rw [List.getD_eq_getElem?_getD]
        cases h : Gen.kmaps[kmap]? with
        | none => right; rfl
        | some x => left; exact List.mem_of_getElem? h
      rcases hk with hk | hk
      · have := List.all_eq_true.mp kmaps_noNul_b _ hk
        have := List.all_eq_true.mp this _ hm
        intro h0
        simp [List.contains_iff_mem] at this
        exact this h0
      · rw [hk] at hm; simp at hm
    · refine noNul_singleton.mpr ?_
      simpa using hc

theorem digraph_noNul (p : List Nat × List Nat → Bool) (e : List Nat × List Nat)
    (h : Gen.digraphs.find? p = some e) : NoNul e.2 := by
  have hm := List.mem_of_find?_eq_some h
  have := List.all_eq_true.mp digraphs_noNul_b _ hm
  intro h0
  simp [List.contains_iff_mem] at this
  exact this h0

/-! ### `led_readchar` -/

theorem wp_readCharS_more : ∀ (k : Nat) (acc : Bytes) (s : VS) (Q : Bytes → VS → Prop),
    (∀ bs s', EdF s.ed s'.ed → Q bs s') → wp (readCharS.more k acc) Q s := by
  intro k
  induction k with
  | zero => intro acc s Q hQ; unfold readCharS.more; wps; exact hQ _ _ (EdF.refl _)
  | succ k ih =>
    intro acc s Q hQ
    unfold readCharS.more
    wps
    refine rd_termRead s _ (fun _ s1 e1 => ?_)
    exact ih _ s1 Q (fun a s' e2 => hQ a s' (e1.trans e2))

/-- **`led_readchar(c, kmap)`**: no trap; the character it returns holds no NUL -/
theorem wp_readCharS (c : Int) (kmap : Nat) (s : VS) (Q : Option Bytes → VS → Prop)
    (hQ : ∀ r s', EdF s.ed s'.ed → (∀ cs, r = some cs → NoNul cs) → Q r s') : wp (readCharS c kmap) Q s := by
  unfold readCharS
  split
  · wps
    refine rd_termRead s _ (fun d s1 e1 => ?_)
    refine hQ _ _ e1 (fun cs hcs => ?_)
    cases hcs
    split
    · exact noNul_nil
    · rename_i h; exact noNul_singleton.mpr (by simpa using h)
  · split
    · wps
      refine rd_readKey s _ (fun c1 s1 e1 => ?_)
      split
      · exact hQ _ _ e1 (fun cs h => by cases h)
      · split
        · exact hQ _ _ e1 (fun cs h => by cases h; exact noNul_nil)
        · wps
          refine rd_readKey s1 _ (fun c2 s2 e2 => ?_)
          split
          · exact hQ _ _ (e1.trans e2) (fun cs h => by cases h)
          · refine hQ _ _ (e1.trans e2) (fun cs h => ?_)
            cases hf : Gen.digraphs.find? (fun d => d.1.headD 0 == c1.toNat && d.1.getD 1 0 == c2.toNat) with
            | none => rw [hf] at h; cases h
            | some e =>
              rw [hf] at h
              cases h
              exact digraph_noNul _ e hf
    · split
      · wps
        refine wp_readCharS_more _ _ s _ (fun bs s1 e1 => ?_)
        exact hQ _ _ e1 (fun cs h => by cases h; exact noNul_takeWhile_ne _)
      · exact hQ _ _ (EdF.refl _) (fun cs h => by cases h; exact kmapMap_noNul _ _)

/-- **`led_read()`** (`vi_char`) -/
theorem wp_viChar_go : ∀ (f : Nat) (s : VS) (Q : Option Bytes → VS → Prop),
    (∀ r s', EdF s.ed s'.ed → (∀ cs, r = some cs → NoNul cs) → Q r s') → wp (viChar.go f) Q s := by
  intro f
  induction f with
  | zero => intro s Q hQ; unfold viChar.go; wps; exact hQ _ _ (EdF.refl _) (fun cs h => by cases h)
  | succ f ih =>
    intro s Q hQ
    unfold viChar.go
    wps
    refine rd_termRead s _ (fun c s1 e1 => ?_)
    split
    · exact hQ _ _ e1 (fun cs h => by cases h)
    · split
      · wps
        exact ih _ Q (fun r s' e2 hr => hQ r s' (e1.trans e2) hr)
      · split
        · wps
          exact ih _ Q (fun r s' e2 hr => hQ r s' (e1.trans e2) hr)
        · wps
          exact wp_readCharS _ _ s1 Q (fun r s' e2 hr => hQ r s' (e1.trans e2) hr)

theorem wp_viChar (s : VS) (Q : Option Bytes → VS → Prop)
    (hQ : ∀ r s', EdF s.ed s'.ed → (∀ cs, r = some cs → NoNul cs) → Q r s') : wp viChar Q s := by
  unfold viChar
  exact wp_viChar_go 64 s Q hQ

end Neatvi.Lemmas.C05f
