import NeatviVerif.Model.ExCmd
/-!
# C05e lemmas, part 0: `ec_substitute` and `ec_glob` cut into pieces

Nothing here is a new model: every definition is a piece of the text of `runCmd` / `ecGlob` in `Model/ExCmd.lean`, and
`runCmd_subst_eq'` / `ecGlob_eq'` say that the handler is the composition of its pieces (the same cut as
`Lemmas/C05dDecomp.lean`, kept here so that this module follows the model on its own: `ec_glob` now refuses an eighth
level of nesting).
-/
namespace Neatvi.Lemmas.C05e
open Neatvi Neatvi.Lbuf Neatvi.Ex Neatvi.Rset

/-! ### `:s` -/

/-- the prologue of `ec_substitute`: pattern and replacement are read from the argument and remembered;
    returns the editor and the `g` flag -/
def sPrep (ed : Ed) (arg : Bytes) : Ed × Bool :=
  let (pat, s) := reRead arg
  let ed := match pat with | some p => if !p.isEmpty then ed.kwdSet (some p) 1 else ed | none => ed
  let (rep, s) := if pat.isSome && !s.isEmpty then
      let delim := arg.headD 0
      let (r, s') := reRead ([delim] ++ s)
      (r, s')
    else (none, s)
  let ed := if pat.isSome || rep.isSome then { ed with xrep := (rep.getD []).take (Gen.EXLEN - 1) } else ed
  (ed, s.contains 103)

/-- one round of the loop of `ec_substitute`: the `k`-th line of the range, which sits on row `b + k + sh` after the
    earlier rounds changed the length of the buffer by `sh` -/
def sStep (re : RStr) (g : Bool) (b : Int) (acc : Option (Ed × Int)) (k : Nat) : Option (Ed × Int) :=
  match acc with
  | none => none
  | some (ed, sh) =>
    let row := b + (k : Int) + sh
    match ed.line row with
    | none => none
    | some ln =>
      match substLine re ed.xrep g ln with
      | none => none
      | some none => some (ed, sh)
      | some (some nl) =>
        match ed.edit (some nl) row (row + 1) with
        | none => none
        | some ed' => some (ed', sh + (ed'.len - ed.len))

/-- the loop of `ec_substitute` over `n` lines from `b` -/
def sLoop (re : RStr) (g : Bool) (b : Int) (n : Nat) (ed : Ed) : Option (Ed × Int) :=
  (List.range n).foldl (sStep re g b) (some (ed, 0))

/-- the `ec_substitute` branch of `runCmd`, in terms of the pieces above -/
theorem runCmd_subst_eq' (f : Nat) (ed : Ed) (loc cmd arg : Bytes) (txt : Option Bytes) :
    runCmd (f + 1) ed "ec_substitute" loc cmd arg txt =
      match exRegion ed loc with
      | none => none
      | some ((rc, b, e), ed) =>
        if rc != 0 then some (1, ed) else
        if (sPrep ed arg).1.xkwddir == 0 then some (1, (sPrep ed arg).1) else
        match (sPrep ed arg).1.mkRe (sPrep ed arg).1.xkwd with
        | none => none
        | some none => some (1, (sPrep ed arg).1)
        | some (some re) =>
          match sLoop re (sPrep ed arg).2 b (e - b).toNat (sPrep ed arg).1 with
          | none => none
          | some (ed, _) => some (0, ed) := by
  rw [runCmd]
  simp (config := {decide := true}) only [if_false, if_true]
  rfl

theorem sLoop_succ (re : RStr) (g : Bool) (b : Int) (n : Nat) (ed : Ed) :
    sLoop re g b (n + 1) ed = sStep re g b (sLoop re g b n ed) n := by
  unfold sLoop
  rw [List.range_succ, List.foldl_append]
  rfl

/-! ### `:g` -/

/-- the prologue of `ec_glob`: the pattern is remembered -/
def gPrep (ed : Ed) (arg : Bytes) : Ed :=
  match (reRead arg).1 with
  | some p => if !p.isEmpty then ed.kwdSet (some p) 1 else ed
  | none => ed

/-- one level deeper, the lines `b+1 .. e-1` marked with bit `dep` -/
def gMark (ed : Ed) (b e : Int) (dep : Nat) : Ed :=
  (List.range (e - (b + 1)).toNat).foldl (fun (ed : Ed) k =>
    match ed.lb with | some lb => ed.setLb (globSet lb (b.toNat + 1 + k) dep) | none => ed) { ed with xgdep := dep }

/-- the final sweep: bit `dep` is cleared everywhere -/
def gSweep (ed : Ed) (dep : Nat) : Ed :=
  match ed.lb with
  | some lb => ed.setLb ((List.range lb.lines.length).foldl (fun lb k => (globGet lb k dep).2) lb)
  | none => ed

/-- the step budget of the scan -/
def gBudget (ed : Ed) : Nat := 4 * (ed.len.toNat + 4) * (ed.len.toNat + 4) + 64

/-- `ec_glob` in terms of the pieces above -/
theorem ecGlob_eq' (f : Nat) (ed : Ed) (loc cmd arg : Bytes) :
    ecGlob (f + 1) ed loc cmd arg =
      if ed.xgdep ≥ 7 then (some (1, ed.show (strOf "global commands nested too deep")) : R Int) else
      match exRegion ed (if loc.isEmpty && ed.xgdep == 0 then [37] else loc) with
      | none => none
      | some ((rc, b, e), ed) =>
        if rc != 0 then some (1, ed) else
        if (gPrep ed arg).xkwddir == 0 then some (1, gPrep ed arg) else
        match (gPrep ed arg).mkRe (gPrep ed arg).xkwd with
        | none => none
        | some none => some (1, gPrep ed arg)
        | some (some re) =>
          match ecGlob.scan f (hasBang cmd || cmd.headD 0 == 118) (reRead arg).2 re ((gPrep ed arg).xgdep + 1)
              (gBudget (gMark (gPrep ed arg) b e ((gPrep ed arg).xgdep + 1)))
              (gMark (gPrep ed arg) b e ((gPrep ed arg).xgdep + 1)) b with
          | none => none
          | some ed2 =>
            some (0, { gSweep ed2 ((gPrep ed arg).xgdep + 1) with xgdep := (gPrep ed arg).xgdep + 1 - 1 }) := by
  rw [ecGlob]
  rfl

end Neatvi.Lemmas.C05e
