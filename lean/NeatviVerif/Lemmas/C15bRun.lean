import NeatviVerif.Lemmas.C15bDepth
import NeatviVerif.Lemmas.C15bCarry
/-!
# C15b lemmas, part 4: what a quiet command list keeps of the marks of the enclosing `:g`s

`StableG D P Q`: a predicate `P` on editor states that depends on the buffer table only, whose content about the current
line buffer (`Q`) is kept by `lbuf_edit`, `lbuf_undo`, `lbuf_redo`, `lbuf_mark`, and by `lbuf_globset` /
`lbuf_globget` *for the depths above `D` and at most 7* (the repaired `ec_glob` refuses an eighth level).  Such a predicate is kept by every quiet command list that starts at a depth
`xgdep ≥ D` (`exExec_stableG`): a `:g` in the list works at depth `xgdep + 1 > D`, its own command list runs at that
depth (`Lemmas/C15bDepth`), and so on.  This is `Lemmas/C02bQuiet.Stable` with the depth added (there the `:g` marks
of every depth had to be kept, which no statement about the marks of a particular depth can afford).

The instance: the marks of the depths `≤ D` travel with their lines (`Carry`).
-/
namespace Neatvi.Lemmas.C15b
open Neatvi Neatvi.Lbuf Neatvi.Ex Neatvi.Rset Neatvi.Props Neatvi.Props.C15
open Neatvi.Lemmas.ExFrame Neatvi.Lemmas.C02Ex

structure StableG (D : Nat) (P : Ed → Prop) (Q : Lb → Prop) : Prop where
  to : ∀ {ed ed'}, P ed → ed'.bufs = ed.bufs → P ed'
  getLb : ∀ {ed lb}, P ed → ed.lb = some lb → Q lb
  setLb : ∀ {ed lb}, P ed → Q lb → P (ed.setLb lb)
  edit : ∀ {lb lb' buf b e}, Q lb → Lbuf.edit lb buf b e = some lb' → Q lb'
  undo : ∀ {lb lb' rc}, Q lb → Lbuf.undo lb = some (rc, lb') → Q lb'
  redo : ∀ {lb lb' rc}, Q lb → Lbuf.redo lb = some (rc, lb') → Q lb'
  setMark : ∀ {lb} c p o, Q lb → Q (Lbuf.setMark lb c p o)
  globSet : ∀ {lb} p k, D < k → k ≤ 7 → Q lb → Q (Lbuf.globSet lb p k)
  globGet : ∀ {lb} p k, D < k → k ≤ 7 → Q lb → Q (Lbuf.globGet lb p k).2

variable {D : Nat} {P : Ed → Prop} {Q : Lb → Prop}

theorem StableG.rd (S : StableG D P Q) {lb lb' : Lb} (h : Q lb) {chunks : List Bytes} {fe : Bool} {b e rc : Nat}
    (hr : LbufIo.rd lb chunks fe b e = some (rc, lb')) : Q lb' := by
  unfold LbufIo.rd at hr
  repeat' (split at hr)
  all_goals (first | cases hr | skip)
  · exact h
  · rename_i he; exact S.edit h he

theorem StableG.edEdit (S : StableG D P Q) {ed ed' : Ed} {s : Option Bytes} {b e : Int} (h : P ed)
    (he : ed.edit s b e = some ed') : P ed' := by
  obtain ⟨_, _, lb, lb', hlb, hed, rfl, _⟩ := Ed_edit_some he
  exact S.setLb h (S.edit (S.getLb h hlb) hed)

theorem StableG.edEdit3 (S : StableG D P Q) {ed0 ed ed1 ed' : Ed} {s : Option Bytes} {b e : Int}
    (he : ed.edit s b e = some ed1) (h : P ed0) (hb0 : ed.bufs = ed0.bufs)
    (hb : ed'.bufs = ed1.bufs) : P ed' :=
  S.to (S.edEdit (S.to h hb0) he) hb

theorem StableG.updLb (S : StableG D P Q) {ed : Ed} (F : Lb → Lb) (hF : ∀ lb, Q lb → Q (F lb)) (h : P ed) :
    P (match ed.lb with | some lb => ed.setLb (F lb) | none => ed) := by
  cases hl : ed.lb with
  | none => exact h
  | some lb => exact S.setLb h (hF lb (S.getLb h hl))

theorem substLoop_stableG (S : StableG D P Q) (re : RStr) (g : Bool) (b : Int) : ∀ (n : Nat) (ed ed' : Ed), P ed →
    C14.substLoop re g b n ed = some ed' → P ed' := by
  intro n
  induction n with
  | zero => intro ed ed' hi h; cases h; exact hi
  | succ n ih =>
    intro ed ed' hi h
    rw [C14.substLoop_succ] at h
    cases hm : C14.substLoop re g b n ed with
    | none => rw [hm] at h; cases h
    | some em =>
      rw [hm] at h
      simp only [Option.bind_some] at h
      have hm' := ih _ _ hi hm
      unfold C14.substStep at h
      repeat' (split at h)
      all_goals (first | cases h | skip)
      · exact hm'
      · exact S.edEdit hm' h

theorem runCmd_print_stableG (S : StableG D P Q) (f : Nat) (ed ed' : Ed) (loc cmd arg : Bytes) (txt : Option Bytes) (r : Int)
    (hi : P ed) (h : runCmd f ed "ec_print" loc cmd arg txt = some (r, ed')) : P ed' := by
  cases f with
  | zero => rw [runCmd] at h; cases h
  | succ f =>
    rw [runCmd] at h
    rw [if_neg (by decide), if_pos (by decide)] at h
    split at h
    · cases h; exact hi
    · split at h
      · cases h
      · rename_i hr
        have e1 := S.to hi (exRegion_bufs hr)
        split at h
        · cases h; exact e1
        · cases h
          exact S.to e1 (C15.foldl_print_bufs _ _ _)

/-- every quiet branch of the dispatcher keeps a stable predicate, given that its `:g` does -/
theorem runCmd_stableG (S : StableG D P Q) (f : Nat) (ed ed' : Ed) (hd : String) (loc cmd arg : Bytes) (txt : Option Bytes)
    (r : Int) (hq : C15.noisy hd = false)
    (hglob : hd = "ec_glob" → P ed → ecGlob f ed loc cmd arg = some (r, ed') → P ed')
    (hi : P ed) (h : runCmd (f + 1) ed hd loc cmd arg txt = some (r, ed')) : P ed' := by
  by_cases hs : hd = "ec_substitute"
  · subst hs
    rw [C14.runCmd_subst_eq] at h
    split at h
    · cases h
    · rename_i ed1 hr
      have e1 := S.to hi (exRegion_bufs hr)
      have e2 : P (C14.substPrep ed1 arg).1 := S.to e1 (C14.substPrep_bufs ed1 arg)
      repeat' (split at h)
      all_goals (first | cases h | skip)
      · exact e1
      · exact e2
      · exact e2
      · rename_i hl
        exact substLoop_stableG S _ _ _ _ _ _ e2 hl
  rw [runCmd] at h
  by_cases c : (hd == "ec_insert") = true
  · rw [if_pos c] at h
    simp only [] at h
    split at h
    · cases h
    · rename_i hr
      have e1 := S.to hi (exRegion_bufs hr)
      repeat' (split at h)
      all_goals (first | cases h | skip)
      all_goals (first | exact e1 | exact S.edEdit3 (by assumption) e1 (by rfl) (by rfl))
  rw [if_neg c] at h; clear c
  by_cases c : (hd == "ec_print") = true
  · have : hd = "ec_print" := by simpa using c
    subst this
    have h' : runCmd (f + 1) ed "ec_print" loc cmd arg txt = some (r, ed') := by
      rw [runCmd, if_neg (by decide), if_pos (by decide)]
      rw [if_pos c] at h
      exact h
    exact runCmd_print_stableG S _ _ _ _ _ _ _ _ hi h'
  rw [if_neg c] at h; clear c
  by_cases c : (hd == "ec_null") = true
  · rw [if_pos c] at h
    split at h
    · exact runCmd_print_stableG S _ _ _ _ _ _ _ _ (S.to hi (by rfl)) h
    · split at h
      · cases h
      · rename_i hr
        have e1 := S.to hi (exRegion_bufs hr)
        split at h
        · cases h; exact e1
        · cases h; exact S.to e1 (by rfl)
  rw [if_neg c] at h; clear c
  by_cases c : (hd == "ec_delete" || hd == "ec_yank") = true
  · rw [if_pos c] at h
    simp only [] at h
    split at h
    · cases h
    · rename_i hr
      have e1 := S.to hi (exRegion_bufs hr)
      repeat' (split at h)
      all_goals (first | cases h | skip)
      all_goals (first | exact e1 | exact S.edEdit3 (by assumption) e1 (by rfl) (by rfl) | exact S.to e1 (by rfl))
  rw [if_neg c] at h; clear c
  by_cases c : (hd == "ec_put") = true
  · rw [if_pos c] at h
    simp only [] at h
    split at h
    · cases h; exact hi
    · split at h
      · cases h
      · rename_i hr
        have e1 := S.to hi (exRegion_bufs hr)
        repeat' (split at h)
        all_goals (first | cases h | skip)
        all_goals (first | exact e1 | exact S.edEdit3 (by assumption) e1 (by rfl) (by rfl))
  rw [if_neg c] at h; clear c
  by_cases c : (hd == "ec_lnum") = true
  · rw [if_pos c] at h
    split at h
    · cases h
    · rename_i hr
      have e1 := S.to hi (exRegion_bufs hr)
      split at h
      · cases h; exact e1
      · cases h; exact S.to e1 (by rfl)
  rw [if_neg c] at h; clear c
  by_cases c : (hd == "ec_undo") = true
  · rw [if_pos c] at h
    split at h
    · cases h
    · rename_i rc lb hu
      cases h
      cases hl : ed.lb with
      | none => rw [hl] at hu; cases hu
      | some lb0 =>
        rw [hl] at hu
        exact S.setLb hi (S.undo (S.getLb hi hl) hu)
  rw [if_neg c] at h; clear c
  by_cases c : (hd == "ec_redo") = true
  · rw [if_pos c] at h
    split at h
    · cases h
    · rename_i rc lb hu
      cases h
      cases hl : ed.lb with
      | none => rw [hl] at hu; cases hu
      | some lb0 =>
        rw [hl] at hu
        exact S.setLb hi (S.redo (S.getLb hi hl) hu)
  rw [if_neg c] at h; clear c
  by_cases c : (hd == "ec_mark") = true
  · rw [if_pos c] at h
    split at h
    · cases h
    · rename_i hr
      have e1 := S.to hi (exRegion_bufs hr)
      split at h
      · cases h; exact e1
      · split at h
        · cases h
        · rename_i lb hlb
          cases h
          exact S.setLb e1 (S.setMark _ _ _ (S.getLb e1 hlb))
  rw [if_neg c] at h; clear c
  by_cases c : (hd == "ec_rs") = true
  · rw [if_pos c] at h
    cases h; exact S.to hi (by rfl)
  rw [if_neg c] at h; clear c
  by_cases c : (hd == "ec_at") = true
  · simp [C15.noisy, c] at hq
  rw [if_neg c] at h; clear c
  by_cases c : (hd == "ec_glob") = true
  · rw [if_pos c] at h
    exact hglob (by simpa using c) hi h
  rw [if_neg c] at h; clear c
  by_cases c : (hd == "ec_edit") = true
  · simp [C15.noisy, c] at hq
  rw [if_neg c] at h; clear c
  by_cases c : (hd == "ec_substitute") = true
  · exact absurd (by simpa using c) hs
  rw [if_neg c] at h; clear c
  by_cases c : (hd == "ec_exec") = true
  · simp [C15.noisy, c] at hq
  rw [if_neg c] at h; clear c
  by_cases c : (hd == "ec_read") = true
  · rw [if_pos c] at h
    simp only [] at h
    split at h
    · cases h
    · rename_i path ed1 hp
      have e0 : P ed1 := by
        split at hp
        · exact S.to hi (C15.pathExpand_bufs hp)
        · cases hp; exact hi
      split at h
      · cases h
      · rename_i edr hr
        have e1 := S.to e0 (exRegion_bufs hr)
        repeat' (split at h)
        all_goals (first | cases h | skip)
        all_goals (first | exact e1 | exact S.to e1 (by rfl) | skip)
        · rename_i hm
          split at hm
          · exact S.to (S.edEdit e1 hm) (by rfl)
          · cases hm; exact S.to e1 (by rfl)
        · rename_i lb1 hrd
          refine S.to (S.setLb (lb := lb1) e1 ?_) (by rfl)
          cases hl : edr.lb with
          | none => rw [hl] at hrd; cases hrd
          | some lb0 =>
            rw [hl] at hrd
            simp only [Option.bind_some] at hrd
            exact S.rd (S.getLb e1 hl) hrd
  rw [if_neg c] at h; clear c
  by_cases c : (hd == "ec_write") = true
  · simp [C15.noisy, c] at hq
  rw [if_neg c] at h; clear c
  by_cases c : (hd == "ec_quit") = true
  · simp [C15.noisy, c] at hq
  rw [if_neg c] at h; clear c
  by_cases c : (hd == "ec_buffer") = true
  · simp [C15.noisy, c] at hq
  rw [if_neg c] at h; clear c
  by_cases c : (hd == "ec_set") = true
  · rw [if_pos c] at h
    simp only [] at h
    repeat' (split at h)
    all_goals (first | cases h | skip)
    all_goals (first | exact hi | exact S.to hi (by rfl) | exact S.to hi (C15.setOpt_bufs _ _ _))
  rw [if_neg c] at h; clear c
  by_cases c : (hd == "ec_echo") = true
  · rw [if_pos c] at h
    cases h; exact S.to hi (by rfl)
  rw [if_neg c] at h; clear c
  cases h; exact S.to hi (by rfl)

/-! ### `:g` with a quiet command list -/

/-- running line `s` with fuel `f` from a depth `≥ D` keeps `P` -/
def LineKeepsG (D : Nat) (P : Ed → Prop) (f : Nat) (s : Bytes) : Prop :=
  ∀ ed r ed', D ≤ ed.xgdep → P ed → exExec f ed s = some (r, ed') → P ed'

theorem adv_stableG (S : StableG D P Q) (dep : Nat) (hd : D < dep) (h7 : dep ≤ 7) :
    ∀ (h : Nat) (ed : Ed) (i : Int), P ed → P (ecGlob.scan.adv dep h ed i).1 := by
  intro h
  induction h with
  | zero => intro ed i hi; rw [ecGlob.scan.adv]; exact hi
  | succ h ih =>
    intro ed i hi
    rw [ecGlob.scan.adv]
    split
    · exact hi
    · split
      · exact hi
      · rename_i lb hlb
        simp only []
        have e1 : P (ed.setLb (globGet lb i.toNat dep).2) := S.setLb hi (S.globGet _ _ hd h7 (S.getLb hi hlb))
        split
        · exact e1
        · exact ih _ _ e1

theorem scan_stableG (S : StableG D P Q) (f : Nat) (neg : Bool) (s : Bytes) (re : RStr) (dep : Nat) (hd : D < dep)
    (h7 : dep ≤ 7) (hbody : LineKeepsG D P f s) :
    ∀ (g : Nat) (ed : Ed) (i : Int) (ed' : Ed), D ≤ ed.xgdep → P ed → ecGlob.scan f neg s re dep g ed i = some ed' →
      P ed' := by
  intro g
  induction g with
  | zero => intro ed i ed' _ _ h; rw [ecGlob.scan] at h; cases h
  | succ g ih =>
    intro ed i ed' hD hi h
    rw [ecGlob.scan] at h
    split at h
    · cases h; exact hi
    · split at h
      · cases h
      · split at h
        · cases h
        · simp only [] at h
          split at h
          · cases h
          · rename_i edx _ hstep
            cases h
            split at hstep
            · split at hstep
              · cases hstep
              · rename_i hx
                split at hstep
                · cases hstep
                  exact hbody _ _ _ (by exact hD) (S.to hi (by rfl)) hx
                · cases hstep
            · cases hstep
          · rename_i edx ix hstep
            have e1 : P edx ∧ edx.xgdep = ed.xgdep := by
              split at hstep
              · split at hstep
                · cases hstep
                · rename_i hx
                  split at hstep
                  · cases hstep
                  · cases hstep
                    exact ⟨hbody _ _ _ (by exact hD) (S.to hi (by rfl)) hx, (exExec_dep hx).trans rfl⟩
              · cases hstep; exact ⟨hi, rfl⟩
            split at h
            · cases h
            · refine ih _ _ _ ?_ (adv_stableG S _ hd h7 _ _ _ e1.1) h
              rw [adv_dep, e1.2]; exact hD

theorem ecGlob_stableG (S : StableG D P Q) (f : Nat) (ed ed' : Ed) (loc cmd arg : Bytes) (r : Int)
    (hbody : LineKeepsG D P f (reRead arg).2) (hD : D ≤ ed.xgdep) (hi : P ed)
    (h : ecGlob (f + 1) ed loc cmd arg = some (r, ed')) : P ed' := by
  rw [ecGlob_eq] at h
  split at h
  · cases h; exact S.to hi (by rfl)
  rename_i hguard
  split at h
  · cases h
  · rename_i rc b e ed1 hr
    have e1 : P ed1 := S.to hi (exRegion_bufs hr)
    have e2 : P (globPrep ed1 arg) := S.to e1 (globPrep_bufs ed1 arg)
    have d2 : (globPrep ed1 arg).xgdep = ed.xgdep := (globPrep_dep ed1 arg).trans (exRegion_dep hr)
    have hdep : D < (globPrep ed1 arg).xgdep + 1 := by omega
    have hdep7 : (globPrep ed1 arg).xgdep + 1 ≤ 7 := by omega
    split at h
    · cases h; exact e1
    · split at h
      · cases h; exact e2
      · split at h
        · cases h
        · cases h; exact e2
        · split at h
          · cases h
          · rename_i ed2 hscan
            cases h
            have e4 : P (globMark (globPrep ed1 arg) b e ((globPrep ed1 arg).xgdep + 1)) := by
              unfold globMark
              refine Lemmas.C02b.foldl_inv P _ ?_ _ _ (S.to e2 (by rfl))
              intro s k hs
              exact S.updLb (fun lb => globSet lb (b.toNat + 1 + k) ((globPrep ed1 arg).xgdep + 1))
                (fun lb hl => S.globSet _ _ hdep hdep7 hl) hs
            have e3 := scan_stableG S f _ _ _ _ hdep hdep7 hbody _ _ _ _ (by rw [globMark_dep]; omega) e4 hscan
            have e5 : P (globSweep ed2 ((globPrep ed1 arg).xgdep + 1)) := by
              unfold globSweep
              exact S.updLb (fun lb => (List.range lb.lines.length).foldl
                  (fun lb k => (globGet lb k ((globPrep ed1 arg).xgdep + 1)).2) lb)
                (fun lb hl => Lemmas.C02b.foldl_inv Q _ (fun s k hs => S.globGet _ _ hdep hdep7 hs) _ _ hl) e3
            exact S.to e5 (by rfl)

/-! ### quiet command lines -/

theorem cmds_stableG (S : StableG D P Q) (f : Nat) (body : Bytes → Bool)
    (hrun : ∀ ed h loc cmd arg txt r ed', quietH body h arg = true → D ≤ ed.xgdep → P ed →
      runCmd f ed h loc cmd arg txt = some (r, ed') → P ed') :
    ∀ (g : Nat) (ed : Ed) (ln : Bytes) (ret r : Int) (ed' : Ed), quietCmds body g ln = true → D ≤ ed.xgdep → P ed →
      exExec.cmds f g ed ln ret = some (r, ed') → P ed' := by
  intro g
  induction g with
  | zero => intro ed ln ret r ed' _ _ hi h; rw [exExec.cmds] at h; cases h; exact hi
  | succ g ih =>
    intro ed ln ret r ed' hq hD hi h
    rw [exExec.cmds] at h
    rw [quietCmds] at hq
    split at h
    · cases h; exact hi
    · rename_i hne
      rw [if_neg hne] at hq
      generalize exLoc ln = p1 at h hq
      obtain ⟨loc, l1⟩ := p1
      simp only [] at h hq
      generalize exCmd l1 = p2 at h hq
      obtain ⟨cmd, l2⟩ := p2
      simp only [] at h hq
      generalize exIdx cmd = idx at h hq
      cases idx with
      | none =>
        simp only [] at h hq
        generalize exArg l2 (strOf "unknown") = p3 at h hq
        obtain ⟨arg, l3⟩ := p3
        simp only [] at h hq
        have hb := exTxt_bufs ed l3 (strOf "unknown")
        have hdp := exTxt_dep ed l3 (strOf "unknown")
        have hrst := exTxt_rest ed l3 (strOf "unknown")
        generalize exTxt ed l3 (strOf "unknown") = T at h hb hdp hrst
        obtain ⟨⟨txt, l4⟩, edT⟩ := T
        simp only [] at h hb hdp hrst
        subst hrst
        refine ih _ _ _ _ _ hq ?_ (S.to (S.to hi hb) (by rfl)) h
        show D ≤ edT.xgdep
        omega
      | some ah =>
        obtain ⟨a, hh⟩ := ah
        simp only [] at h hq
        generalize exArg l2 a = p3 at h hq
        obtain ⟨arg, l3⟩ := p3
        simp only [] at h hq
        have hb := exTxt_bufs ed l3 a
        have hdp := exTxt_dep ed l3 a
        have hrst := exTxt_rest ed l3 a
        generalize exTxt ed l3 a = T at h hb hdp hrst
        obtain ⟨⟨txt, l4⟩, edT⟩ := T
        simp only [] at h hb hdp hrst
        subst hrst
        simp only [Bool.and_eq_true] at hq
        split at h
        · cases h
        · rename_i r1 ed1 hr
          have hDT : D ≤ edT.xgdep := by omega
          refine ih _ _ _ _ _ hq.2 ?_ (hrun _ _ _ _ _ _ _ _ hq.1 hDT (S.to hi hb) hr) h
          rw [runCmd_dep_all hr]; exact hDT

/-- `ex_exec` of a quiet line, started at a depth `≥ D`, keeps a predicate that is stable above `D` — whatever the fuel -/
theorem exExec_stableG (S : StableG D P Q) : ∀ (f d : Nat) (ln : Bytes), C15.quietLine d ln = true → LineKeepsG D P f ln := by
  intro f
  induction f using Nat.strongRecOn with
  | _ f ih =>
    intro d ln hq ed r ed' hD hi h
    cases f with
    | zero => rw [exExec] at h; cases h
    | succ f =>
      rw [exExec] at h
      split at h
      · cases h; exact S.to hi (by rfl)
      · have key : ∀ (body : Bytes → Bool), (∀ s, body s = true → ∀ f', f' < f + 1 → LineKeepsG D P f' s) →
            C15.quietCmds body (ln.length + 1) ln = true → P ed' := by
          intro body hbody hqc
          apply cmds_stableG S f body ?_ _ _ _ _ _ _ hqc hD hi h
          intro ed hdl loc cmd arg txt r ed' hqh hD1 hP hrun
          obtain ⟨hn, hg⟩ := C15.quietH_cases hqh
          cases f with
          | zero => rw [runCmd] at hrun; cases hrun
          | succ f1 =>
            apply runCmd_stableG S f1 ed ed' hdl loc cmd arg txt r hn ?_ hP hrun
            intro he hP2 hglob
            cases f1 with
            | zero => rw [ecGlob] at hglob; cases hglob
            | succ f2 =>
              exact ecGlob_stableG S f2 ed ed' loc cmd arg r (hbody _ (hg he) f2 (by omega)) hD1 hP2 hglob
        cases d with
        | zero =>
          exact key (fun _ => false) (fun s hs => by cases hs) hq
        | succ d =>
          exact key (C15.quietLine d) (fun s hs f' hf' => ih f' hf' d s hs) hq

/-! ### the instance: the marks of the depths `≤ D` travel with their lines -/

/-- the depths whose marks a command list at depth `D` must leave alone: `1 … D` (all of them: a `:g` below works at a
    depth `k` with `D < k ≤ 7`, and `lbuf_globget` for such a `k` keeps the bits `< 8`, which `0 … D` are) -/
def upTo (D : Nat) : Nat → Prop := fun k => k ≤ D

/-- the current buffer is `lb0` with its lines edited, the marks of the depths `≤ D` having travelled with them -/
def CarryEd (D : Nat) (lb0 : Lb) (ed : Ed) : Prop := ∃ lb, ed.lb = some lb ∧ Carry (upTo D) lb0 lb

theorem carry_stableG (D : Nat) (lb0 : Lb) : StableG D (CarryEd D lb0) (fun lb => Carry (upTo D) lb0 lb) where
  to := by
    intro ed ed' ⟨lb, hl, hc⟩ hb
    exact ⟨lb, by rw [lb_of_bufs hb]; exact hl, hc⟩
  getLb := by
    intro ed lb ⟨lb1, hl, hc⟩ hl'
    rw [hl] at hl'; cases hl'; exact hc
  setLb := by
    intro ed lb ⟨lb1, hl, _⟩ hq
    exact ⟨lb, by rw [setLb_lb, hl]; rfl, hq⟩
  edit := fun h he => h.trans (edit_carry he h.globLen)
  undo := fun h he => h.trans (undo_carry he h.globLen)
  redo := fun h he => h.trans (redo_carry he h.globLen)
  setMark := fun c p o h => h.trans (setMark_carry c p o h.globLen)
  globSet := fun p k hk _ h => h.trans (globSet_carry p k (fun j hj => by unfold upTo at hj; omega) h.globLen)
  globGet := fun p k hk h7 h => h.trans (globGet_carry p k (fun j hj => by unfold upTo at hj; omega) h.globLen)

/-- **a quiet command list leaves the marks of the enclosing `:g`s on their lines**: run at depth `xgdep` on a buffer
    `lb`, it ends on a buffer `lb'` with a slot map along which the marks of every depth `≤ xgdep` have travelled -/
theorem exExec_carry (f d : Nat) (ln : Bytes) (hq : C15.quietLine d ln = true) (ed ed' : Ed) (r : Int) (lb : Lb)
    (hl : ed.lb = some lb) (hg : GlobLen lb) (h : exExec f ed ln = some (r, ed')) :
    ∃ lb', ed'.lb = some lb' ∧ Carry (upTo ed.xgdep) lb lb' :=
  exExec_stableG (carry_stableG ed.xgdep lb) f d ln hq ed r ed' (Nat.le_refl _) ⟨lb, hl, Carry.refl hg⟩ h

/-- **a complete `:g` with a quiet command list leaves the marks of the enclosing `:g`s on their lines** -/
theorem ecGlob_carry (f d : Nat) (loc cmd arg : Bytes) (hq : C15.quietLine d (reRead arg).2 = true) (ed ed' : Ed) (r : Int)
    (lb : Lb) (hl : ed.lb = some lb) (hg : GlobLen lb) (h : ecGlob f ed loc cmd arg = some (r, ed')) :
    ∃ lb', ed'.lb = some lb' ∧ Carry (upTo ed.xgdep) lb lb' := by
  cases f with
  | zero => rw [ecGlob] at h; cases h
  | succ f =>
    exact ecGlob_stableG (carry_stableG ed.xgdep lb) f ed ed' loc cmd arg r
      (exExec_stableG (carry_stableG ed.xgdep lb) f d _ hq) (Nat.le_refl _) ⟨lb, hl, Carry.refl hg⟩ h

end Neatvi.Lemmas.C15b
