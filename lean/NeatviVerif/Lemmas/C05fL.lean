import NeatviVerif.Lemmas.C05fK
/-!
# C05f, part L: `led_input` / `vi_input` — the text typed in insert mode

The text holds no NUL; and the row bookkeeping of `vi_nextline()` matches the newlines of the text:
`xrow' - (newlines of the text returned) = xrow - (newlines of pref) - (newlines of post)`.
-/
set_option linter.unusedSimpArgs false
set_option linter.unusedVariables false
namespace Neatvi.Lemmas.C05f
open Neatvi Neatvi.Uc Neatvi.Lbuf Neatvi.Ex Neatvi.Mot Neatvi.Vi Neatvi.Rset

theorem nlCount_append (a b : Bytes) : nlCount (a ++ b) = nlCount a + nlCount b := by
  unfold nlCount; rw [List.filter_append, List.length_append]

theorem nlCount_nil : nlCount [] = 0 := rfl

theorem nlCount_of_not_mem {a : Bytes} (h : 10 ∉ a) : nlCount a = 0 := by
  unfold nlCount
  rw [List.length_eq_zero_iff, List.filter_eq_nil_iff]
  intro x hx hx10
  simp at hx10
  subst hx10
  exact h hx

theorem nlCount_singleton_nl : nlCount [10] = 1 := rfl

theorem nlCount_drop_blanks (p : Bytes) (n : Nat) (hn : n ≤ (p.takeWhile isBlankC).length) :
    nlCount (p.drop n) = nlCount p := by
  induction p generalizing n with
  | nil => simp
  | cons c r ih =>
    cases n with
    | zero => rfl
    | succ n =>
      rw [List.takeWhile_cons] at hn
      split at hn
      · rename_i hc
        simp only [List.length_cons] at hn
        rw [List.drop_succ_cons, ih n (by omega)]
        have : c ≠ 10 := by
          unfold isBlankC at hc
          simp only [Bool.or_eq_true, beq_iff_eq] at hc
          omega
        unfold nlCount
        rw [List.filter_cons, if_neg (by simpa using this)]
      · simp at hn

theorem blanks_no_nl (p : Bytes) : 10 ∉ p.takeWhile isBlankC := by
  induction p with
  | nil => simp
  | cons c r ih =>
    rw [List.takeWhile_cons]
    split
    · rename_i hc
      intro h
      rcases List.mem_cons.mp h with h | h
      · subst h; simp [isBlankC] at hc
      · exact ih h
    · simp

/-- all registers and all lines of the current buffer hold no NUL -/
def TextOk (ed : Ed) : Prop := RegsOk ed.regs ∧ ∀ r l, ed.line r = some l → NoNul l

theorem TextOk.paste {ed : Ed} (h : TextOk ed) : PasteOk ed := ⟨h.1, fun l hl => h.2 _ l hl⟩

theorem SOk.textOk {s : VS} {c : Prop} (h : SOk s c) : TextOk s.ed := by
  refine ⟨h.2, ?_⟩
  intro r l hl
  obtain ⟨lb, h1, h2⟩ := h.1.lb s.ed rfl
  unfold Ed.line at hl
  split at hl
  · cases hl
  · rw [h1] at hl
    exact (h2.lines l (List.mem_of_getElem? hl)).noNul

/-- the frame of insert mode: buffer table and registers as before -/
def InF (e e' : Ed) : Prop := e'.bufs = e.bufs ∧ e'.regs = e.regs ∧ e'.xquit = e.xquit

theorem InF.refl (e : Ed) : InF e e := ⟨rfl, rfl, rfl⟩
theorem InF.trans {a b c : Ed} (h1 : InF a b) (h2 : InF b c) : InF a c :=
  ⟨h2.1.trans h1.1, h2.2.1.trans h1.2.1, h2.2.2.trans h1.2.2⟩
theorem InF.of_EdF {e e' : Ed} (h : EdF e e') : InF e e' := ⟨h.bufs, h.regs, h.xquit⟩
theorem InF.textOk {e e' : Ed} (hf : InF e e') (h : TextOk e) : TextOk e' := by
  refine ⟨by rw [hf.2.1]; exact h.1, ?_⟩
  intro r l hl
  have : e'.line r = e.line r := by unfold Ed.line Ed.lb Ed.cur; rw [hf.1]
  rw [this] at hl
  exact h.2 r l hl
theorem InF.sok {s s' : VS} {c : Prop} (hf : InF s.ed s'.ed) (h : SOk s c) : SOk s' c :=
  ⟨by rw [hf.1]; exact h.1, by rw [hf.2.1]; exact h.2⟩

/-- `vi_nextline()` `n` times -/
theorem wp_repeat_nextline (n : Nat) : ∀ (s : VS) (Q : Unit → VS → Prop),
    (∀ s', InF s.ed s'.ed → s'.ed.xrow = s.ed.xrow + n → s'.xai = s.xai → Q () s') →
    wp (Vi.repeatM n viNextlineR) Q s := by
  induction n with
  | zero =>
    intro s Q hQ
    unfold Vi.repeatM
    exact (wp_pure _ _ _).mpr (hQ s (InF.refl _) (by simp) rfl)
  | succ n ih =>
    intro s Q hQ
    unfold Vi.repeatM
    wp1
    unfold viNextlineR
    wpn
    refine ih _ _ (fun s' hf hx ha => hQ s' ?_ ?_ ?_)
    · refine InF.trans ?_ hf
      split <;> exact ⟨rfl, rfl, rfl⟩
    · rw [hx]
      split <;> (simp only []; push_cast; omega)
    · rw [ha]

theorem take_blanks_no_nl (ln : Bytes) (k : Nat) (hk : k ≤ (ln.takeWhile isBlankC).length) : 10 ∉ ln.take k := by
  induction ln generalizing k with
  | nil => simp
  | cons c r ih =>
    cases k with
    | zero => simp
    | succ k =>
      rw [List.takeWhile_cons] at hk
      split at hk
      · rename_i hc
        simp only [List.length_cons] at hk
        rw [List.take_succ_cons]
        intro h
        rcases List.mem_cons.mp h with h | h
        · subst h; simp [isBlankC] at hc
        · exact ih k (by omega) h
      · simp at hk

theorem wp_ledInput_loop (xai : Bool) (s0 : VS) (ht : TextOk s0.ed) (C : Int) :
    ∀ (f : Nat) (sb : Bytes) (pref : Option Bytes) (post ai : Bytes) (s : VS) (Q : Bytes × Bytes → VS → Prop),
      InF s0.ed s.ed → NoNul sb → NoNulO pref → NoNul post → NoNul ai → 10 ∉ ai →
      (nlCount (pref.getD []) = 0 ∨ 0 < f) →
      (s.ed.xrow : Int) - nlCount sb - nlCount (pref.getD []) - nlCount post = C →
      (∀ rep post' s', InF s0.ed s'.ed → NoNul rep → (s'.ed.xrow : Int) - nlCount rep = C → Q (rep, post') s') →
      wp (ledInput.loop xai f sb pref post ai) Q s := by
  intro f
  induction f with
  | zero =>
    intro sb pref post ai s Q hf hsb hpref hpost hai hnl hz hC hQ
    unfold ledInput.loop
    refine (wp_pure _ _ _).mpr (hQ _ _ _ hf (noNul_append.mpr ⟨hsb, hpost⟩) ?_)
    rw [nlCount_append]
    rcases hz with hz | hz
    · rw [hz] at hC; push_cast at hC ⊢; omega
    · omega
  | succ f ih =>
    intro sb pref post ai s Q hf hsb hpref hpost hai hnl _ hC hQ
    unfold ledInput.loop
    wpn
    have hprefn : NoNul (pref.getD []) := by
      cases pref with
      | none => exact noNul_nil
      | some p => exact hpref p rfl
    refine wp_ledLine _ _ _ _ _ _ s (hf.textOk ht).paste hai hnl _ (fun ln key ai1 s1 e1 hln hai1 hnl1 => ?_)
    dsimp only
    wpn
    refine wp_repeat_nextline _ s1 _ (fun s2 f2 hx2 _ => ?_)
    have hf2 : InF s0.ed s2.ed := hf.trans ((InF.of_EdF e1).trans f2)
    have hnew : ∀ b : Bool, NoNul ((if b = true then sb ++ ai1 else sb) ++ pref.getD [] ++ ln ++
        (if (key == 10) = true then [10] else [])) := by
      intro b
      refine noNul_append.mpr ⟨noNul_append.mpr ⟨noNul_append.mpr ⟨?_, hprefn⟩, hln⟩, ?_⟩
      · cases b
        · exact hsb
        · exact noNul_append.mpr ⟨hsb, hai1⟩
      · split
        · simp [NoNul]
        · exact noNul_nil
    have hcnt : ∀ b : Bool, (nlCount ((if b = true then sb ++ ai1 else sb) ++ pref.getD [] ++ ln ++
        (if (key == 10) = true then [10] else [])) : Int) =
        nlCount sb + nlCount (pref.getD []) + ((nlCount ln + (if (key == 10) = true then 1 else 0) : Nat) : Int) := by
      intro b
      have h1 : nlCount (if b = true then sb ++ ai1 else sb) = nlCount sb := by
        cases b
        · rfl
        · show nlCount (sb ++ ai1) = _
          rw [nlCount_append, nlCount_of_not_mem hnl1]; omega
      rw [nlCount_append, nlCount_append, nlCount_append, h1]
      split
      · rw [nlCount_singleton_nl]; push_cast; omega
      · rw [nlCount_nil]; push_cast; omega
    have hx1 : s1.ed.xrow = s.ed.xrow := e1.xrow
    have hai2 : ∀ (b1 b2 : Bool), NoNul (if b1 = true then [] else if b2 = true then
        ai1 ++ ln.take (min (ln.takeWhile isBlankC).length (127 - ai1.length)) else ai1) := by
      intro b1 b2
      cases b1
      · cases b2
        · exact hai1
        · exact noNul_append.mpr ⟨hai1, hln.take _⟩
      · exact noNul_nil
    have hnl2 : ∀ (b1 b2 : Bool), 10 ∉ (if b1 = true then [] else if b2 = true then
        ai1 ++ ln.take (min (ln.takeWhile isBlankC).length (127 - ai1.length)) else ai1) := by
      intro b1 b2
      cases b1
      · cases b2
        · exact hnl1
        · intro h
          rcases List.mem_append.mp h with h | h
          · exact hnl1 h
          · exact take_blanks_no_nl ln _ (by omega) h
      · simp
    wpif hkey
    · refine (wp_pure _ _ _).mpr (hQ _ _ _ hf2 (noNul_append.mpr ⟨hnew _, hpost⟩) ?_)
      rw [nlCount_append]
      push_cast
      rw [hcnt, hx2, hx1]
      omega
    · refine ih _ none _ _ s2 Q hf2 (hnew _) noNulO_none (hpost.drop _) ?_ ?_ (Or.inl rfl) ?_ hQ
      · exact hai2 _ _
      · exact hnl2 _ _
      · have hd : nlCount (post.drop (if xai then (post.takeWhile isBlankC).length else 0)) = nlCount post := by
          apply nlCount_drop_blanks
          split <;> omega
        rw [hd]
        simp only [Option.getD_none, nlCount_nil]
        rw [hcnt, hx2, hx1]
        push_cast
        omega

/-- **`led_input(pref, post)`**: no trap; the text holds no NUL; the rows `vi_nextline()` went down are the
    newlines of the text beyond those of `pref` and `post` -/
theorem wp_ledInput (pref post : Bytes) (s : VS) (ht : TextOk s.ed) (hpref : NoNul pref) (hpost : NoNul post)
    (Q : Bytes × Bytes → VS → Prop)
    (hQ : ∀ rep post' s', InF s.ed s'.ed → NoNul rep →
      (s'.ed.xrow : Int) - nlCount rep = s.ed.xrow - nlCount pref - nlCount post → Q (rep, post') s') :
    wp (ledInput pref post) Q s := by
  unfold ledInput
  wpn
  refine wp_ledInput_loop s.xai s ht (s.ed.xrow - nlCount pref - nlCount post) _ _ _ _ _ s Q (InF.refl _)
    noNul_nil (noNulO_some.mpr (hpref.drop _)) hpost ((hpref.takeWhile _).take _) ?_ (Or.inr (by omega)) ?_ hQ
  · intro h
    exact blanks_no_nl pref (List.mem_of_mem_take h)
  · simp only [Option.getD_some, nlCount_nil]
    have : nlCount (pref.drop ((pref.takeWhile isBlankC).take 127).length) = nlCount pref := by
      apply nlCount_drop_blanks
      simp only [List.length_take]
      omega
    rw [this]
    push_cast
    omega

/-- **`vi_input(pref, post)`** -/
theorem wp_viInput (pref post : Bytes) (s : VS) (ht : TextOk s.ed) (hpref : NoNul pref) (hpost : NoNul post)
    (Q : Bytes × Int × Int → VS → Prop)
    (hQ : ∀ rep row off s', InF s.ed s'.ed → NoNul rep →
      (s'.ed.xrow : Int) - row = s.ed.xrow - nlCount pref - nlCount post → Q (rep, row, off) s') :
    wp (viInput pref post) Q s := by
  unfold viInput
  wpn
  refine wp_ledInput pref post s ht hpref hpost _ (fun rep post' s' hf hrep hx => ?_)
  dsimp only
  exact (wp_pure _ _ _).mpr (hQ _ _ _ _ hf hrep hx)

end Neatvi.Lemmas.C05f
