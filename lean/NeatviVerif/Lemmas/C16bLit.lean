import NeatviVerif.Lemmas.C16bFind
import NeatviVerif.Lemmas.C12Literal
import NeatviVerif.Lemmas.C12Utf8
/-!
# C16b, part 3: the literal fast path of `rstr_find` reports offsets on character boundaries
-/
namespace Neatvi.Props.C16b
open Neatvi Neatvi.Uc Neatvi.Spec Neatvi.Regex Neatvi.Rset Neatvi.Ex Neatvi.Props.C11b Neatvi.Props.C14
open Neatvi.C12

/-! ## the literal `rstr_simple` cuts out of a valid pattern is valid -/

/-- cutting a valid string at the first byte of an ASCII-only stop set leaves a valid string -/
theorem isU8_takeWhile {p : Nat → Bool} (hp : ∀ c, p c = false → c < 128) (cs : List Nat) (hv : Valid cs) :
    IsU8 ((encStr cs).takeWhile p) := by
  induction cs with
  | nil => exact isU8_nil
  | cons c cs ih =>
    have hc := (valid_cons.mp hv).1
    rw [encStr_cons]
    by_cases hall : ∀ x ∈ enc c, p x = true
    · rw [List.takeWhile_append_of_pos hall]
      exact isU8_append (isU8_enc hc) (ih (valid_cons.mp hv).2)
    · have : ∃ x ∈ enc c, p x = false := by
        apply Classical.byContradiction
        intro hn
        apply hall
        intro x hx
        cases hpx : p x with
        | true => rfl
        | false => exact absurd ⟨x, hx, hpx⟩ hn
      obtain ⟨x, hx, hpx⟩ := this
      have hx128 := hp x hpx
      have hc128 : c < 128 := by
        apply Classical.byContradiction
        intro hge
        have := enc_high (by omega) hc.2 x hx
        omega
      rw [enc_low hc128] at hx ⊢
      simp only [List.mem_cons, List.not_mem_nil, or_false] at hx
      subst hx
      simp only [List.cons_append, List.nil_append, List.takeWhile_cons, hpx, Bool.false_eq_true, if_false]
      exact isU8_nil

theorem isStop_ascii (c : Nat) (h : (!isStop c) = false) : c < 128 := by
  simp [isStop, Gen.rstrStop] at h
  omega

theorem isU8_drop_two {r : Bytes} (h : IsU8 r) (h1 : r.headD 0 = 92) (h2 : r.getD 1 0 = 60) : IsU8 (r.drop 2) := by
  cases r with
  | nil => exact isU8_nil
  | cons a t =>
    have h1' : a = 92 := h1
    have ht := isU8_ascii_cons h (by omega)
    cases t with
    | nil => exact isU8_nil
    | cons b u =>
      have h2' : b = 60 := h2
      exact isU8_ascii_cons ht (by omega)

/-- the literal of the fast path is valid UTF-8 when the pattern is -/
theorem simple_lit_valid {pat : Bytes} (hp : IsU8 pat) {lbeg wbeg wend lend : Bool} {lit : Bytes}
    (h : simple pat = some (lbeg, wbeg, wend, lend, lit)) : IsU8 lit := by
  unfold simple at h
  dsimp only at h
  rw [Option.ite_none_right_eq_some] at h
  · have h := h.2
    simp only [Option.some.injEq, Prod.mk.injEq] at h
    obtain ⟨_, _, _, _, hl⟩ := h
    rw [← hl]
    have h1 : IsU8 (if (pat.headD 0 == 94) = true then pat.drop 1 else pat) := by
      split
      · rename_i hb
        exact strict_drop_one hp (by simp only [beq_iff_eq] at hb; omega)
      · exact hp
    generalize (if (pat.headD 0 == 94) = true then pat.drop 1 else pat) = re1 at h1 ⊢
    have h2 : IsU8 (if (re1.headD 0 == 92 && re1.getD 1 0 == 60) = true then re1.drop 2 else re1) := by
      split
      · rename_i hb
        simp only [Bool.and_eq_true, beq_iff_eq] at hb
        exact isU8_drop_two h1 hb.1 hb.2
      · exact h1
    generalize (if (re1.headD 0 == 92 && re1.getD 1 0 == 60) = true then re1.drop 2 else re1) = re2 at h2 ⊢
    obtain ⟨cs, hv, rfl⟩ := h2
    exact isU8_takeWhile isStop_ascii cs hv

/-! ## a literal comparison leads from a boundary to a boundary, with or without ICASE -/

theorem matchCase_boundary (ic : Bool) : ∀ (ls post : List Nat), Valid ls → Valid post →
    matchCase (encStr post) (encStr ls) ic = true →
    ∃ p1 p2, post = p1 ++ p2 ∧ (encStr p1).length = (encStr ls).length := by
  cases ic with
  | false =>
    intro ls post hl hp h
    exact prefix_code ls post hl hp ((matchCase_false_iff _ _).mp h)
  | true =>
    intro ls
    induction ls with
    | nil => intro post _ _ _; exact ⟨[], post, rfl, rfl⟩
    | cons l ls ih =>
      intro post hl hp h
      have hlv := (valid_cons.mp hl).1
      cases post with
      | nil =>
        obtain ⟨a, t, he, _⟩ := enc_chr hlv
        rw [encStr_nil, encStr_cons, he, List.cons_append, matchCase_nil_left] at h
        cases h
      | cons c post =>
        have hcv := (valid_cons.mp hp).1
        rw [encStr_cons, encStr_cons] at h
        by_cases heq : lowerB l = lowerB c
        · obtain ⟨hlen, hmc⟩ := fold_eq heq (encStr post) (encStr ls)
          rw [hmc] at h
          obtain ⟨p1, p2, e1, e2⟩ := ih post (valid_cons.mp hl).2 (valid_cons.mp hp).2 h
          refine ⟨c :: p1, p2, by rw [e1]; rfl, ?_⟩
          rw [encStr_cons, encStr_cons, List.length_append, List.length_append, e2, hlen]
        · rw [fold_ne hlv hcv heq] at h
          cases h

/-! ## the match of the fast path -/

/-- the subject ends with the newline, as every line of the buffer does -/
def EndsNl (s : Bytes) : Prop := ∃ t, s = t ++ [10]

theorem noncont_isBd {cs : List Nat} (hv : Valid cs) {r : Nat} (hr : r ≤ (encStr cs).length)
    (hnc : ¬ IsCont ((encStr cs).getD r 0)) : IsBd (encStr cs) r := by
  obtain ⟨pre, post, h1, h2⟩ := boundary_of_noncont cs hv r hr hnc
  exact isBd_of_boundary hv (boundary_split.mpr ⟨pre, post, h1, h2⟩)

/-- the first match of the fast path starts and ends on character boundaries.  A non-empty literal
    synchronises by itself; the empty literal (`^`, `$`, `\<`, `\>` alone) matches where the word tests
    say, at 0, or — for `$` — at the last byte, which is the newline. -/
theorem lit_match_boundary (re : RStr) (lcps cs : List Nat) (hl : Valid lcps) (hv : Valid cs)
    (hnl : EndsNl (encStr cs)) (flg r : Nat) (hm : IsLeast (FastMatch re (encStr lcps) (encStr cs) flg) r) :
    IsBd (encStr cs) r ∧ IsBd (encStr cs) (r + (encStr lcps).length) := by
  obtain ⟨⟨hin, hcand⟩, hleast⟩ := hm
  obtain ⟨hmc, hwb, hwe⟩ := hcand
  obtain ⟨hlen, hlb, hle⟩ := hin
  cases lcps with
  | cons l0 lrest =>
    have hst := sync_utf8 hv hl (by simp) re.icase r hmc
    obtain ⟨pre, post, h1, h2⟩ := boundary_of_starts hv hst
    have hdrop : (encStr cs).drop r = encStr post := by
      rw [h2, h1, encStr_append, List.drop_left' rfl]
    rw [hdrop] at hmc
    have hpost : Valid post := (valid_append.mp (h1 ▸ hv)).2
    obtain ⟨p1, p2, e1, e2⟩ := matchCase_boundary re.icase _ post hl hpost hmc
    refine ⟨isBd_of_boundary hv (boundary_split.mpr ⟨pre, post, h1, h2⟩),
      isBd_of_boundary hv (boundary_split.mpr ⟨pre ++ p1, p2, by rw [h1, e1]; simp, ?_⟩)⟩
    rw [encStr_append, List.length_append, h2, e2]
  | nil =>
    simp only [encStr_nil, List.length_nil, Nat.add_zero] at hlen hlb hle hwe hleast ⊢
    suffices IsBd (encStr cs) r from ⟨this, this⟩
    have hr : r < (encStr cs).length := by omega
    by_cases hr0 : r = 0
    · subst hr0; exact isBd_zero (isU8_encStr hv)
    apply noncont_isBd hv (by omega)
    intro hcont
    by_cases hwb' : re.wbeg = true
    · obtain ⟨h1, _⟩ := hwb hwb'
      rcases h1 with h1 | h1
      · exact hr0 h1
      · have := (contPrev_encStr cs hv r hr hcont).2
        rw [isWordB_high this] at h1
        cases h1
    · by_cases hwe' : re.wend = true
      · obtain ⟨_, _, h3⟩ := hwe hwe'
        rcases h3 with h3 | h3
        · have := hcont.1; omega
        · rw [isWordB_high hcont.1] at h3
          cases h3
      · by_cases hle' : re.lend = true
        · have hlast := hle hle'
          obtain ⟨t, ht⟩ := hnl
          have hrl : r = t.length := by
            have := congrArg List.length ht
            simp only [List.length_append, List.length_cons, List.length_nil] at this
            omega
          have h10 : (encStr cs).getD r 0 = 10 := by
            rw [ht, hrl]; simp [List.getD_eq_getElem?_getD]
          have := hcont.1
          omega
        · apply hleast 0 (by omega)
          unfold FastMatch InRange Cand
          simp only [List.length_nil, Nat.add_zero]
          exact ⟨⟨by omega, fun h => ⟨trivial, (hlb h).2⟩, fun h => absurd h hle'⟩, matchCase_nil _ _,
            fun h => absurd h hwb', fun h => absurd h hwe'⟩

/-- **the literal fast path**: for a valid UTF-8 literal, every offset `rstr_find` writes for a valid
    subject that ends with the newline is `-1` or a character boundary -/
theorem rsFind_lit_offs (re : RStr) (lit : Bytes) (hrs : re.rs = none) (hstr : re.str = some lit) (hlit : IsU8 lit)
    {s : Bytes} {nb : Bool} {so eo : Nat} {offs : List Int} (hs : IsU8 s) (hnl : EndsNl s)
    (h : rsFind re s nb = some (some (so, eo, offs))) : ∀ x ∈ offs, OffBd s x := by
  obtain ⟨res, c, hr, hres, _, _⟩ := rsFind_some h
  obtain ⟨lcps, hl, rfl⟩ := hlit
  obtain ⟨cs, hv, rfl⟩ := hs
  rcases rstrFind_literal re _ (encStr cs) hrs hstr 16 (if nb then RE_NOTBOL else 0) ND NG with
    ⟨r, hm, hf⟩ | ⟨_, hf⟩
  · rw [hf] at hr
    simp only [Option.some.injEq, Prod.mk.injEq] at hr
    obtain ⟨_, ho, _⟩ := hr
    subst ho
    obtain ⟨b1, b2⟩ := lit_match_boundary re lcps cs hl hv hnl _ r hm
    intro x hx
    unfold fastGroups at hx
    rw [if_pos (by decide)] at hx
    simp only [List.mem_append, List.mem_cons, List.not_mem_nil, or_false, List.mem_replicate] at hx
    rcases hx with (hx | hx) | ⟨_, hx⟩ <;> subst hx
    · exact Or.inr ⟨r, rfl, b1⟩
    · exact Or.inr ⟨_, rfl, b2⟩
    · exact Or.inl rfl
  · rw [hf] at hr
    simp only [Option.some.injEq, Prod.mk.injEq] at hr
    omega

end Neatvi.Props.C16b
